(* C07 — Extend-split areas tile the domain and each carries a valid local combination.
   Property theorems only; each is closed by `exact`/application of lemmas from Proofs/ES*.v.
   Model: Model/ExtendSplit.v (SpatiallyAdaptiveExtendScheme, RefinementObjectExtendSplit, RefinementContainer).
   A history is: initialize_refinement + first evaluation (`start_state`), then any list of events, each a driver step
   (refine(); evaluate) or an observation (coarsen_grid for every area and component grid, as the harness and
   get_points_component_grid / interpolate_points do), with ARBITRARY decision inputs (extend/split bit of automatic_extend_split, split dimensions of
   split_single_dim) and ARBITRARY scripted benefits; `base` is the minimum level assumed by the diagonal arithmetic of
   coarsen_grid versions 1,2 (1 = pinned code, lmin = proposed repair) - the tiling theorems hold for every value. *)
From Coq Require Import ZArith List Bool QArith Qcanon Lia.
From Coq Require Import Permutation.
From SG Require Import Base.QcUtil Model.CombiScheme Model.StdCombi Model.ExtendSplit Model.ESInterp
     Proofs.StdCombiSum Proofs.StdNodal Proofs.ESGeom Proofs.ESInv Proofs.ESTree Proofs.ESCombi Proofs.ESV0 Proofs.ESNodal Proofs.ESDict Proofs.ESShift Proofs.ESRestart Proofs.ESAssignFn.
From SG Require Import Model.ESV3 Proofs.ESV3P Proofs.ESV12Low Model.ESAuto Proofs.ESAutoP Proofs.ESV2Full Proofs.ESV1Full.
From SG Require Import Model.ESExact Proofs.ESReach Proofs.ESReachV12.
Import ListNotations.
Open Scope Z_scope.

Section History.
Variables (dim : nat) (version nrbe lmin lmax base : Z) (auto single : bool) (a b : list Qc) (bens0 : list (box * Z)).
Hypotheses (Hbox : wfbox a b) (Hdim : length a = dim) (Hlev : lmin <= lmax).
Let reach (hist : list event) : state :=
  run_events (start_state dim version nrbe lmin lmax base auto single a b bens0) hist.

(* for EVERY operation history the areas in the container are non-degenerate boxes of the right dimension that lie in
   the domain, cover it, and have pairwise disjoint interiors (record Parts, Proofs/ESGeom.v) *)
Theorem C07_leaves_tile_domain : forall hist, Parts dim (a, b) (map abox (st_objs (reach hist))).
Proof. intro hist. exact (leaves_tile_domain dim version nrbe lmin lmax base auto single a b bens0 hist Hbox Hdim Hlev). Qed.

(* the same, spelled out *)
Theorem C07_every_domain_point_in_some_leaf : forall hist p, In_box p (a, b) ->
  exists x, In x (st_objs (reach hist)) /\ In_box p (abox x).
Proof. intros hist. exact (parts_cover_objs _ _ _ (C07_leaves_tile_domain hist)). Qed.

Theorem C07_leaf_interiors_pairwise_disjoint : forall hist l1 x l2 y l3,
  st_objs (reach hist) = l1 ++ x :: l2 ++ y :: l3 -> forall p, ~ (In_int p (abox x) /\ In_int p (abox y)).
Proof. intros hist. exact (parts_disjoint_objs _ _ _ (C07_leaves_tile_domain hist)). Qed.

Theorem C07_leaves_inside_domain : forall hist x p, In x (st_objs (reach hist)) -> In_box p (abox x) -> In_box p (a, b).
Proof. intros hist. exact (parts_inside_objs _ _ _ (C07_leaves_tile_domain hist)). Qed.

(* coarsening values never become negative (and never exceed lmax - lmin, which makes the bounded enumeration of
   coarsen_grid below exhaustive in the coarsening value) *)
Theorem C07_coarsening_nonneg : forall hist x, In x (st_objs (reach hist)) ->
  0 <= a_coarse x <= st_lmax (reach hist) - lmin.
Proof. intro hist. exact (coarsening_nonneg dim version nrbe lmin lmax base auto single a b bens0 hist Hbox Hdim Hlev). Qed.

(* get_points_in_areas_recursive: every evaluation point of the domain is assigned exactly once (as often as it occurs
   in the input list), to an area of the container, and that area contains it *)
Theorem C07_point_assignment_partition : forall hist pts,
  (forall p, In p pts -> length p = dim /\ contains a b p = true) ->
  let res := assign_points (current_tree (reach hist)) pts in
  (forall p, occ p (assigned res) = occ p pts) /\
  (forall bx ps, In (bx, ps) res -> In bx (map abox (st_objs (reach hist))) /\ forall p, In p ps -> inb bx p = true).
Proof.
  intros hist pts. exact (point_assignment_partition dim version nrbe lmin lmax base auto single a b bens0 hist pts Hbox Hdim Hlev).
Qed.
End History.
Print Assumptions C07_leaves_tile_domain.
Print Assumptions C07_every_domain_point_in_some_leaf.
Print Assumptions C07_leaf_interiors_pairwise_disjoint.
Print Assumptions C07_leaves_inside_domain.
Print Assumptions C07_coarsening_nonneg.
Print Assumptions C07_point_assignment_partition.

(* ---- local combination.  Verified checker: valid_local_combi d gs = true means that all computed grids have d levels
   >= 0 and that inclusion-exclusion holds on the downward closure of the computed grids ... *)
Theorem C07_valid_local_combi_sound : forall d gs, valid_local_combi d gs = true -> grids_wf d gs /\ local_IE d gs.
Proof. exact valid_local_combi_sound. Qed.
Print Assumptions C07_valid_local_combi_sound.

(* ... hence the coefficients of the computed grids sum to 1 at every point of every computed grid of the area
   (dyadic area grids j/2^l in relative coordinates) *)
Theorem C07_valid_local_combi_point_sum : forall d gs, valid_local_combi d gs = true ->
  forall g0 x, In g0 gs -> in_grid (fst g0) x -> point_coeff_sum gs x = 1.
Proof. exact valid_local_combi_point_sum. Qed.
Print Assumptions C07_valid_local_combi_point_sum.

(* FULL STATEMENT (not proved in general): for all d >= 2, 1 <= lmin <= lmax, 0 <= c <= lmax - lmin, versions 0,1,2:
     valid_local_combi d (local_combi (mkCP d version lmin lmax lmin) c) = true.
   BOUNDED: d in 2..5, lmin in 1..3, lmax-lmin in 0..6, coarsening in 0..lmax-lmin+2 (reachable values are
   0..lmax-lmin by C07_coarsening_nonneg), versions 0,1,2, with the diagonal arithmetic of versions 1,2 using lmin
   (`base = lmin`: the proposed repair; identical to the pinned code for lmin = 1 and for version 0).
   local_combi_check also covers: the assert of versions 1,2 holds for all component grids, and a second pass of
   coarsen_grid over the scheme with the dictionary left behind by the first pass returns the same answers. *)
Theorem C07_local_combi_valid_bounded : forall d v lmin span c,
  In d [2%nat; 3%nat; 4%nat; 5%nat] -> In v [0; 1; 2] -> In lmin [1; 2; 3] -> In span (zrange 7) -> In c (zrange (span + 3)) ->
  local_combi_check (mkCP d v lmin (lmin + span) lmin) c = true /\
  valid_local_combi d (local_combi (mkCP d v lmin (lmin + span) lmin) c) = true.
Proof.
  intros d v lmin span c Hd Hv Hl Hs Hc.
  pose proof (bounded_all_spec _ _ _ true bounded_fixed_true d v lmin span c Hd Hv Hl Hs Hc) as H.
  split; [exact H | exact (local_combi_check_valid _ _ H)].
Qed.
Print Assumptions C07_local_combi_valid_bounded.

(* the pinned code (base = 1) for lmin = 1, all three versions *)
Theorem C07_local_combi_valid_pinned_lmin1_bounded : forall d v span c,
  In d [2%nat; 3%nat; 4%nat; 5%nat] -> In v [0; 1; 2] -> In span (zrange 7) -> In c (zrange (span + 3)) ->
  valid_local_combi d (local_combi (mkCP d v 1 (1 + span) 1) c) = true.
Proof.
  intros d v span c Hd Hv Hs Hc.
  exact (local_combi_check_valid _ _ (bounded_all_spec _ _ _ false bounded_pinned_lmin1_true d v 1 span c Hd Hv (or_introl eq_refl) Hs Hc)).
Qed.
Print Assumptions C07_local_combi_valid_pinned_lmin1_bounded.

(* REFUTED for the pinned code with lmin = 2 (versions 1 and 2): d = 2, lmin = 2, lmax = 4, an area with coarsening 1
   gets an invalid local combination; at the area grid point (0, 1/2) the coefficients sum to 2.
   Replayed on the implementation: known finding C07-coarsen-v12-lmin. *)
Theorem C07_local_combi_pinned_lmin2_refuted :
  valid_local_combi 2 (local_combi (mkCP 2 1 2 4 1) 1) = false /\
  valid_local_combi 2 (local_combi (mkCP 2 2 2 4 1) 1) = false /\
  point_coeff_sum (local_combi (mkCP 2 1 2 4 1) 1) [dy 0 0; dy 1 1] = 2.
Proof. exact (conj pinned_v1_lmin2_invalid (conj pinned_v2_lmin2_invalid pinned_v1_lmin2_point)). Qed.
Print Assumptions C07_local_combi_pinned_lmin2_refuted.

(* ---- non-vacuity: a concrete history (d = 2, version 0, one split before extending, domain [0,1]x[-1,1]; scripted
   benefits select first the area [0,1/2]x[-1,0] (split), then its child [0,1/4]x[-1,-1/2] (extend, lmax 2 -> 3)):
   7 areas with coarsening values 1,1,1,1,1,1,0; the hypotheses of the theorems are met; two evaluation points are
   assigned (the one on a shared face once) *)
Example C07_nonvacuous :
  let a := [Q2Qc 0; Q2Qc (-1 # 1)] in let b := [Q2Qc 1; Q2Qc 1] in
  let st := run_events (start_state 2 0 1 1 2 1 false false a b [(([Q2Qc 0; Q2Qc (-1 # 1)], [Q2Qc (1 # 2); Q2Qc 0]), 8)])
                [Observe; Step (mkStep [] [(([Q2Qc 0; Q2Qc (-1 # 1)], [Q2Qc (1 # 4); Q2Qc (-1 # 2)]), 8)]); Observe;
                 Step (mkStep [] [])] in
  wfbox a b /\ length (st_objs st) = 7%nat /\ st_lmax st = 3 /\
  map a_coarse (st_objs st) = [1; 1; 1; 1; 1; 1; 0] /\
  map (fun r => length (snd r)) (assign_points (current_tree st) [[Q2Qc (1 # 2); Q2Qc 0]; [Q2Qc (1 # 8); Q2Qc (-3 # 4)]])
    = [1; 0; 0; 1]%nat.
Proof. vm_compute. repeat split; reflexivity. Qed.

Example C07_nonvacuous_local_combi :
  local_combi (mkCP 2 0 1 3 1) 1 = [([0; 1], 1); ([1; 0], 1); ([0; 0], -1)] /\
  in_grid [0; 1] [dy 1 0; dy 1 1] /\ point_coeff_sum (local_combi (mkCP 2 0 1 3 1) 1) [dy 1 0; dy 1 1] = 1.
Proof.
  split; [vm_compute; reflexivity | split; [|vm_compute; reflexivity]].
  unfold in_grid. constructor; [|constructor; [|constructor]]; apply in_pts1b_spec; vm_compute; reflexivity.
Qed.

(* ==================================================================================================================
   GENERAL THEOREMS (all dimensions >= 2, all levels, all admissible coarsening values, all histories)
   ================================================================================================================== *)

(* ---- version 0 (the default): the FULL STATEMENT above, proved for every d >= 2, every lmin <= lmax (any integers)
   and every coarsening value an area can carry (0 <= c <= lmax - lmin, C07_coarsening_nonneg); base is unused by
   version 0.  Proof (Proofs/ESV0.v): the dictionary levelvec_dict is the first-occurrence map key -> level vector; the
   grids that are computed are in bijection with the level vectors of the standard combination of level lmax - c. *)
Theorem C07_local_combi_v0_valid : forall n lmin lmax c base, 0 <= c <= lmax - lmin ->
  valid_local_combi (S (S n)) (local_combi (mkCP (S (S n)) 0 lmin lmax base) c) = true.
Proof. exact local_combi_v0_valid. Qed.
Print Assumptions C07_local_combi_v0_valid.

(* what version 0 computes: the local combination of an area with coarsening value c IS (a permutation of) the closed-form
   standard combination scheme of level lmax - c, in levels relative to lmin *)
Theorem C07_local_combi_v0_is_standard_combination : forall n lmin lmax c base, 0 <= c <= lmax - lmin ->
  Permutation (local_combi (mkCP (S (S n)) 0 lmin lmax base) c)
              (shifted lmin (combi_scheme_standard (S (S n)) lmin (lmax - c))).
Proof. exact local_combi_v0_perm. Qed.
Print Assumptions C07_local_combi_v0_is_standard_combination.

(* the verified checker is also complete: it accepts exactly the well-formed grid lists with inclusion-exclusion on
   their downward closure *)
Theorem C07_valid_local_combi_complete : forall d gs, grids_wf d gs -> local_IE d gs -> valid_local_combi d gs = true.
Proof. exact valid_local_combi_complete. Qed.
Print Assumptions C07_valid_local_combi_complete.

(* ---- the dictionary over histories (ALL versions): whatever calls of coarsen_grid happened on an area before
   (evaluation, observation / interpolation passes, twin-error passes of split_single_dim), the component grids that are
   computed on it in its current dictionary state are local_combi of the current scheme and its coarsening value - the
   function the validity theorems speak about.  (update() empties the dictionary whenever lmax changes.) *)
Theorem C07_area_grids_independent_of_call_history :
  forall dim version nrbe lmin lmax base auto single a b bens0, wfbox a b -> length a = dim -> lmin <= lmax ->
  forall hist x,
  let st := run_events (start_state dim version nrbe lmin lmax base auto single a b bens0) hist in
  In x (st_objs st) ->
  area_grids (st_cp st) x = local_combi (mkCP dim version lmin (st_lmax st) base) (a_coarse x).
Proof.
  intros dim version nrbe lmin lmax base auto single a b bens0 Hbox Hdim Hlev hist x.
  exact (area_grids_history dim version nrbe lmin lmax base auto single a b bens0 Hbox Hdim Hlev hist x).
Qed.
Print Assumptions C07_area_grids_independent_of_call_history.

(* version 0, every dimension >= 2, EVERY history: every area of the container carries a valid local combination *)
Theorem C07_every_area_valid_local_combi_v0 :
  forall n nrbe lmin lmax base auto single a b bens0 hist x, wfbox a b -> length a = S (S n) -> lmin <= lmax ->
  let st := run_events (start_state (S (S n)) 0 nrbe lmin lmax base auto single a b bens0) hist in
  In x (st_objs st) -> valid_local_combi (S (S n)) (area_grids (st_cp st) x) = true.
Proof. exact v0_every_area_valid. Qed.
Print Assumptions C07_every_area_valid_local_combi_v0.

(* ---- nodal exactness ("the local interpolant reproduces an arbitrary function at those points").
   local_interp s e gs f = sum over the computed grids of coefficient * multilinear interpolant of f on the trapezoidal
   area grid (np.linspace(s_d, e_d, 2^l_d + 1) per dimension).  For EVERY grid list accepted by the checker, every
   non-degenerate box, EVERY function f and every point x of a computed grid: the interpolant equals f x. *)
Theorem C07_local_interpolant_nodal_exact : forall d gs s e f x g0 c0,
  valid_local_combi d gs = true -> box_ok s e -> length s = d -> length e = d ->
  In (g0, c0) gs -> in_comp true s e x g0 = true -> local_interp s e gs f x = f x.
Proof. exact checked_local_nodal_exact. Qed.
Print Assumptions C07_local_interpolant_nodal_exact.

(* version 0, every history, every area, every function, every point of a computed area grid *)
Theorem C07_every_area_nodal_exact_v0 :
  forall n nrbe lmin lmax base auto single a b bens0 hist x f p g0 c0, wfbox a b -> length a = S (S n) -> lmin <= lmax ->
  let st := run_events (start_state (S (S n)) 0 nrbe lmin lmax base auto single a b bens0) hist in
  In x (st_objs st) -> In (g0, c0) (area_grids (st_cp st) x) -> in_comp true (a_start x) (a_end x) p g0 = true ->
  area_interp (st_cp st) x f p = f p.
Proof. exact v0_every_area_nodal_exact. Qed.
Print Assumptions C07_every_area_nodal_exact_v0.

(* the whole interpolation call of the strategy (__call__ -> interpolate_points -> get_points_in_areas_recursive ->
   coarsen_grid -> interpolation on the area grid; Model/ESInterp.v): every value returned for a point p is the local
   interpolant of an area of the container, and equals f p whenever p is a point of a computed grid of that area *)
Theorem C07_interpolation_nodal_exact_v0 :
  forall n nrbe lmin lmax base auto single a b bens0 hist f pts p v, wfbox a b -> length a = S (S n) -> lmin <= lmax ->
  let st := run_events (start_state (S (S n)) 0 nrbe lmin lmax base auto single a b bens0) hist in
  In (p, v) (es_interpolate st f pts) ->
  exists x, In x (st_objs st) /\ v = area_interp (st_cp st) x f p /\
    forall g0 c0, In (g0, c0) (area_grids (st_cp st) x) -> in_comp true (a_start x) (a_end x) p g0 = true -> v = f p.
Proof. exact v0_interpolation_nodal_exact. Qed.
Print Assumptions C07_interpolation_nodal_exact_v0.

(* versions 1,2 (and 0): the same for every history, conditional on the checker accepting local_combi for the area's
   (lmax, coarsening) - which C07_local_combi_valid_bounded proves inside its box and the run evaluates per explored case *)
Theorem C07_every_area_nodal_exact_checked :
  forall dim version nrbe lmin lmax base auto single a b bens0 hist x f p g0 c0, wfbox a b -> length a = dim -> lmin <= lmax ->
  let st := run_events (start_state dim version nrbe lmin lmax base auto single a b bens0) hist in
  In x (st_objs st) -> valid_local_combi dim (local_combi (mkCP dim version lmin (st_lmax st) base) (a_coarse x)) = true ->
  In (g0, c0) (area_grids (st_cp st) x) -> in_comp true (a_start x) (a_end x) p g0 = true ->
  area_interp (st_cp st) x f p = f p.
Proof. exact checked_area_nodal_exact. Qed.
Print Assumptions C07_every_area_nodal_exact_checked.

(* ---- versions 1,2 (lmin-aware diagonal arithmetic, base = lmin): coarsen_grid is invariant under shifting lmin, lmax,
   base and all levels of the scheme by the same k - the local combination depends on (d, version, lmax - lmin, c) only *)
Theorem C07_local_combi_v12_shift_invariant : forall k d v lmin lmax base c, v <> 0 -> (0 < d)%nat ->
  local_combi (mkCP d v (lmin + k) (lmax + k) (base + k)) c = local_combi (mkCP d v lmin lmax base) c.
Proof. exact local_combi_v12_shift. Qed.
Print Assumptions C07_local_combi_v12_shift_invariant.

(* BOUNDED in d 2..5, lmax - lmin 0..6, coarsening 0..lmax-lmin+2 (enumeration), but for EVERY integer lmin (shift
   invariance): versions 1,2 give a valid local combination *)
Theorem C07_local_combi_v12_valid_all_lmin_bounded : forall d v span c lmin,
  In d [2%nat; 3%nat; 4%nat; 5%nat] -> In v [1; 2] -> In span (zrange 7) -> In c (zrange (span + 3)) ->
  valid_local_combi d (local_combi (mkCP d v lmin (lmin + span) lmin) c) = true.
Proof. exact local_combi_v12_valid_all_lmin. Qed.
Print Assumptions C07_local_combi_v12_valid_all_lmin_bounded.

(* ---- histories WITH RESTARTS on the same object (event2 = driver step | observation pass | restart
   performSpatiallyAdaptiv(..., refinement_container=self.refinement), which evaluates every area again): tiling, point
   assignment, coarsening bounds and the local combination of version 0 *)
Section History2.
Variables (dim : nat) (version nrbe lmin lmax base : Z) (auto single : bool) (a b : list Qc) (bens0 : list (box * Z)).
Hypotheses (Hbox : wfbox a b) (Hdim : length a = dim) (Hlev : lmin <= lmax).
Let reach2 (hist : list event2) : state :=
  run_events2 (start_state dim version nrbe lmin lmax base auto single a b bens0) hist.

Theorem C07_leaves_tile_domain_with_restarts : forall hist, Parts dim (a, b) (map abox (st_objs (reach2 hist))).
Proof. intro hist. exact (leaves_tile_domain2 dim version nrbe lmin lmax base auto single a b bens0 Hbox Hdim Hlev hist). Qed.

Theorem C07_coarsening_nonneg_with_restarts : forall hist x, In x (st_objs (reach2 hist)) ->
  0 <= a_coarse x <= st_lmax (reach2 hist) - lmin.
Proof. intros hist x. exact (coarsening_nonneg2 dim version nrbe lmin lmax base auto single a b bens0 Hbox Hdim Hlev hist x). Qed.

Theorem C07_point_assignment_partition_with_restarts : forall hist pts,
  (forall p, In p pts -> length p = dim /\ contains a b p = true) ->
  let res := assign_points (current_tree (reach2 hist)) pts in
  (forall p, occ p (assigned res) = occ p pts) /\
  (forall bx ps, In (bx, ps) res -> In bx (map abox (st_objs (reach2 hist))) /\ forall p, In p ps -> inb bx p = true).
Proof. intros hist pts. exact (point_assignment_partition2 dim version nrbe lmin lmax base auto single a b bens0 Hbox Hdim Hlev hist pts). Qed.

Theorem C07_area_grids_independent_of_call_history_with_restarts : forall hist x, In x (st_objs (reach2 hist)) ->
  area_grids (st_cp (reach2 hist)) x = local_combi (mkCP dim version lmin (st_lmax (reach2 hist)) base) (a_coarse x).
Proof. intros hist x. exact (area_grids_history2 dim version nrbe lmin lmax base auto single a b bens0 Hbox Hdim Hlev hist x). Qed.
End History2.
Print Assumptions C07_leaves_tile_domain_with_restarts.
Print Assumptions C07_coarsening_nonneg_with_restarts.
Print Assumptions C07_point_assignment_partition_with_restarts.
Print Assumptions C07_area_grids_independent_of_call_history_with_restarts.

Theorem C07_every_area_valid_local_combi_v0_with_restarts :
  forall n nrbe lmin lmax base auto single a b bens0 hist x, wfbox a b -> length a = S (S n) -> lmin <= lmax ->
  let st := run_events2 (start_state (S (S n)) 0 nrbe lmin lmax base auto single a b bens0) hist in
  In x (st_objs st) -> valid_local_combi (S (S n)) (area_grids (st_cp st) x) = true.
Proof. exact v0_every_area_valid2. Qed.
Print Assumptions C07_every_area_valid_local_combi_v0_with_restarts.

(* ---- the point assignment has no hidden state: it is a function of the refinement tree seen by
   get_points_in_areas_recursive and of the point list only (no counter, no memory of earlier queries); restarts
   (evaluation of all areas) and observation passes leave the assignment of EVERY point list unchanged *)
Theorem C07_assignment_function_of_tree_and_points : forall st1 st2 pts,
  current_tree st1 = current_tree st2 -> assign_points (current_tree st1) pts = assign_points (current_tree st2) pts.
Proof. exact assignment_function_of_tree_and_points. Qed.
Theorem C07_restart_keeps_assignment : forall st bens pts,
  assign_points (current_tree (restart st bens)) pts = assign_points (current_tree st) pts.
Proof. exact restart_keeps_assignment. Qed.
Theorem C07_observation_keeps_assignment : forall st pts,
  assign_points (current_tree (fst (observe_coarsen st))) pts = assign_points (current_tree st) pts.
Proof. exact observe_keeps_assignment. Qed.
Print Assumptions C07_assignment_function_of_tree_and_points.
Print Assumptions C07_restart_keeps_assignment.
Print Assumptions C07_observation_keeps_assignment.

(* ---- non-vacuity of the general theorems.  d = 3, lmin = 2, lmax = 6, coarsening 3 (a case with many collisions in the
   dictionary: 31 component grids, 4 of them computed): the computed grids are the standard scheme of level
   lmax - c = 3 relative to lmin = 2 *)
Example C07_nonvacuous_v0_general :
  length (the_scheme (mkCP 3 0 2 6 1)) = 31%nat /\
  local_combi (mkCP 3 0 2 6 1) 3 =
    [([0; 0; 1], 1); ([0; 1; 0], 1); ([1; 0; 0], 1); ([0; 0; 0], -2)] /\
  valid_local_combi 3 (local_combi (mkCP 3 0 2 6 1) 3) = true.
Proof. vm_compute. repeat split; reflexivity. Qed.

(* the history of C07_nonvacuous: 7 areas; the area [0,1/4]x[-1,-1/2] (coarsening 0) computes 5 grids, the others 3;
   f = x^2 + 2 y^2 + (1/2 + x)(3 + y) is NOT multilinear; the combined interpolant reproduces it at the area grid points
   (1/16, -1/2) (grid (2,0) of the last area) and (3/4, 1) (grid (1,0) of [1/2,1]x[0,1]) and differs from it at the
   non-grid point (1/3, -1/5) *)
Example C07_nonvacuous_interpolation :
  let a := [Q2Qc 0; Q2Qc (-1 # 1)] in let b := [Q2Qc 1; Q2Qc 1] in
  let st := run_events (start_state 2 0 1 1 2 1 false false a b [(([Q2Qc 0; Q2Qc (-1 # 1)], [Q2Qc (1 # 2); Q2Qc 0]), 8)])
                [Observe; Step (mkStep [] [(([Q2Qc 0; Q2Qc (-1 # 1)], [Q2Qc (1 # 4); Q2Qc (-1 # 2)]), 8)]); Observe;
                 Step (mkStep [] [])] in
  let f := fun_poly [Q2Qc 1; Q2Qc 2] [Q2Qc (1 # 2); Q2Qc 3] in
  let p1 := [Q2Qc (1 # 16); Q2Qc (-1 # 2)] in let p2 := [Q2Qc (3 # 4); Q2Qc 1] in let p3 := [Q2Qc (1 # 3); Q2Qc (-1 # 5)] in
  map (fun x => length (area_grids (st_cp st) x)) (st_objs st) = [3; 3; 3; 3; 3; 3; 5]%nat /\
  in_comp true [Q2Qc 0; Q2Qc (-1 # 1)] [Q2Qc (1 # 4); Q2Qc (-1 # 2)] p1 [2; 0] = true /\
  in_comp true [Q2Qc (1 # 2); Q2Qc 0] [Q2Qc 1; Q2Qc 1] p2 [1; 0] = true /\
  map (fun pv => this (snd pv)) (es_interpolate st f [p1; p2; p3]) = [this (f p1); (1223 # 480)%Q; this (f p2)] /\
  this (f p3) = (568 # 225)%Q.
Proof. vm_compute. repeat split; reflexivity. Qed.

(* a history with a restart: after two steps all 7 areas are evaluated again with new benefits (only the benefit of the
   area [1/2,1]x[0,1] is 1), the following step splits exactly that area: 10 areas *)
Example C07_nonvacuous_restart :
  let a := [Q2Qc 0; Q2Qc (-1 # 1)] in let b := [Q2Qc 1; Q2Qc 1] in
  let st := run_events2 (start_state 2 0 1 1 2 1 false false a b [(([Q2Qc 0; Q2Qc (-1 # 1)], [Q2Qc (1 # 2); Q2Qc 0]), 8)])
                [Ev Observe; Ev (Step (mkStep [] [(([Q2Qc 0; Q2Qc (-1 # 1)], [Q2Qc (1 # 4); Q2Qc (-1 # 2)]), 8)]));
                 Ev (Step (mkStep [] [])); Restart [(([Q2Qc (1 # 2); Q2Qc 0], [Q2Qc 1; Q2Qc 1]), 8)];
                 Ev (Step (mkStep [] []))] in
  length (st_objs st) = 10%nat /\ st_lmax st = 3 /\ map a_coarse (st_objs st) = [1; 1; 1; 1; 1; 0; 1; 1; 1; 1].
Proof. vm_compute. repeat split; reflexivity. Qed.

Example C07_nonvacuous_v12_shift :
  local_combi (mkCP 3 1 7 10 7) 2 = local_combi (mkCP 3 1 1 4 1) 2 /\ length (local_combi (mkCP 3 1 7 10 7) 2) = 19%nat.
Proof. vm_compute. split; reflexivity. Qed.

(* ==================================================================================================================
   PHASE 3
   ================================================================================================================== *)

(* ---- coarsening version 3 (undocumented, accepted by `assert 3 >= version >= 0`; Model/ESV3.v): round-robin
   decrement of the levels.  GENERAL: every dimension >= 1, all integers lmin <= lmax, EVERY coarsening value c (no upper
   bound needed), every value of the unused parameters: the local combination is valid.  Proof: the loop is a truncated
   shift with a lower adjoint (T(l) >= k <-> l >= adj(k)), so inclusion-exclusion of the closed-form scheme carries over. *)
Theorem C07_local_combi_v3_valid : forall n lmin lmax c base v, lmin <= lmax ->
  valid_local_combi (S n) (local_combi3 (mkCP (S n) v lmin lmax base) c) = true.
Proof. intros n lmin lmax c base v H. exact (local_combi3_valid n lmin lmax c base v H). Qed.
Print Assumptions C07_local_combi_v3_valid.

(* the adjoint property itself: for level vectors >= lmin, the coarsened vector dominates k iff the original dominates adjL k *)
Theorem C07_v3_loop_has_lower_adjoint : forall fuel dim lmin cur t k,
  Forall (fun x => lmin <= x) t -> Forall (fun x => lmin <= x) k ->
  lv_geb (v3_loop fuel dim lmin cur t) k = lv_geb t (adjL fuel dim lmin cur k).
Proof. exact loop_adj. Qed.
Print Assumptions C07_v3_loop_has_lower_adjoint.

(* version 3 over histories: the tiling / coarsening / assignment theorems above hold for every value of `version`; the
   dictionary is not used by version 3, so on every area of every reachable state (restarts included) the computed grids
   are local_combi3 of the current scheme and coarsening value, a valid local combination whose interpolant is nodally
   exact (C07_local_interpolant_nodal_exact) *)
Theorem C07_every_area_valid_local_combi_v3 :
  forall n nrbe lmin lmax base auto single a b bens0 hist x, wfbox a b -> length a = S n -> lmin <= lmax ->
  let st := run_events2 (start_state (S n) 3 nrbe lmin lmax base auto single a b bens0) hist in
  In x (st_objs st) ->
  area_grids4 (st_cp st) x = local_combi3 (st_cp st) (a_coarse x) /\
  valid_local_combi (S n) (area_grids4 (st_cp st) x) = true.
Proof.
  intros n nrbe lmin lmax base auto single a b bens0 hist x Hbox Hdim Hlev st Hx. unfold st in *. clear st.
  pose proof (reach2_cp (S n) 3 nrbe lmin lmax base auto single a b bens0 Hbox Hdim Hlev hist) as E.
  pose proof (coarsening_nonneg2 (S n) 3 nrbe lmin lmax base auto single a b bens0 Hbox Hdim Hlev hist x Hx) as C.
  set (st := run_events2 (start_state (S n) 3 nrbe lmin lmax base auto single a b bens0) hist) in *.
  assert (Hl : lmin <= st_lmax st) by lia.
  assert (G : area_grids4 (st_cp st) x = local_combi3 (st_cp st) (a_coarse x)).
  { unfold area_grids4, coarsen_results, local_combi3. rewrite E. reflexivity. }
  split; [exact G|]. rewrite G, E. apply (local_combi3_valid n lmin (st_lmax st) (a_coarse x) base 3 Hl).
Qed.
Print Assumptions C07_every_area_valid_local_combi_v3.

Example C07_nonvacuous_v3 :
  length (local_combi3 (mkCP 3 3 1 4 1) 2) = 19%nat /\
  firstn 4 (local_combi3 (mkCP 3 3 1 4 1) 2) = [([0; 0; 3], 1); ([0; 0; 2], 1); ([0; 1; 1], 1); ([0; 2; 0], 1)] /\
  valid_local_combi 3 (local_combi3 (mkCP 3 3 1 4 1) 2) = true /\
  adjL 2 3 1 0 [2; 1; 3] = [3; 1; 3] /\ lv_geb (v3_loop 2 3 1 0 [3; 2; 3]) [2; 1; 3] = true.
Proof. vm_compute. repeat split; reflexivity. Qed.

(* ---- versions 1 and 2, GENERAL but PARTIAL.
   FULL STATEMENT (open; no counterexample exists for d 2..7 and spans up to 14/10/8/7/6/5 (Python enumeration), proved for
   d 2..5, span 0..6 and every lmin by C07_local_combi_v12_valid_all_lmin_bounded):
     forall d >= 2, lmin <= lmax, 0 <= c <= lmax - lmin, v in {1,2}:  local_IE d (local_combi (mkCP d v lmin lmax lmin) c).
   PROVED for ALL d >= 1, lmin <= lmax, c, base: (a) the while loop never pushes a level below the `no_forward_problem`
   threshold: every coarsened level y of an original level x satisfies y = x or (y < x and thr - 2 <= 2 y) with
   thr = lmax + base - c + delta (delta = 1 / 2 for version 1 / 2); (b) inclusion-exclusion (coefficient sum 1) at every level
   vector k of the downward closure that lies below the threshold (2 (k_i + lmin) <= thr - 2 for all i; for base = lmin:
   2 k_i <= (lmax - lmin - c) + delta - 2).  Missing for the full statement: the alternating-sum identity
     sum_{l >= k} coeff(l) [ sum_i (l_i - max k + 1)^+ <= c ] = 0   for k above the threshold that stay dominated,
   (the loop reaches the cap max k - 1 iff that budget condition holds), which is not an up-set condition in l. *)
Theorem C07_v12_never_below_threshold : forall n v lmin lmax base c l td,
  Forall2 (low_ok (lmax + base - c + v12_delta v)) l
          (v12_loop (Z.to_nat c) v (Z.of_nat (S n)) base lmin lmax c td c l).
Proof. intros n v lmin lmax base c l td. exact (v12_never_below_threshold n v lmin lmax base c l td). Qed.
Print Assumptions C07_v12_never_below_threshold.

Theorem C07_local_combi_v12_IE_below_threshold_partial : forall n v lmin lmax base c k, v <> 0 -> lmin <= lmax ->
  length k = S n -> Forall (fun x => 0 <= x) k ->
  Forall (fun x => 2 * (x + lmin) <= lmax + base - c + v12_delta v - 2) k ->
  (exists g, In g (local_combi (mkCP (S n) v lmin lmax base) c) /\ lv_geb (fst g) k = true) ->
  dominating_sum (local_combi (mkCP (S n) v lmin lmax base) c) k = 1.
Proof. intros n v lmin lmax base c k Hv Hle. exact (local_combi_v12_IE_low n v lmin lmax base c Hv Hle k). Qed.
Print Assumptions C07_local_combi_v12_IE_below_threshold_partial.

(* non-vacuity: d = 3, version 2, lmin = 1, lmax = 9, c = 2 (OUTSIDE the enumerated box: span 8): threshold 2 k_i <= 6;
   k = (3,2,0) is dominated and below the threshold *)
Example C07_nonvacuous_v12_low :
  existsb (fun g => lv_geb (fst g) [3; 2; 0]) (local_combi (mkCP 3 2 1 9 1) 2) = true /\
  dominating_sum (local_combi (mkCP 3 2 1 9 1) 2) [3; 2; 0] = 1 /\
  forallb (fun x => 2 * (x + 1) <=? 9 + 1 - 2 + v12_delta 2 - 2) [3; 2; 0] = true.
Proof. vm_compute. repeat split; reflexivity. Qed.

(* ---- the extend/split decision of automatic_extend_split and the split dimensions of split_single_dim as FUNCTIONS of
   the error numbers of the refined area (Model/ESAuto.v: auto_decide = benefit_extend < benefit_split; split_dims_of =
   dimensions with twin error >= 0.9 * max; twin bookkeeping twin_run).  The benefit numbers / twin errors themselves
   (float error-estimate arithmetic on the integrand, or scripted by the harness) are inputs. *)

(* every history driven by numbers is a history of the model with these decisions ... *)
Theorem C07_numbers_history_is_history : forall hist st, run_numbers st hist = run_events st (events_of_numbers hist).
Proof. exact run_numbers_is_run_events. Qed.
Print Assumptions C07_numbers_history_is_history.

(* ... so tiling, coarsening bounds and point assignment hold for EVERY outcome of the automatic decision and of
   get_split_dims (every list of benefit pairs and twin errors) *)
Theorem C07_tiling_for_every_decision_outcome :
  forall dim version nrbe lmin lmax base auto single a b bens0 hist, wfbox a b -> length a = dim -> lmin <= lmax ->
  let st := run_numbers (start_state dim version nrbe lmin lmax base auto single a b bens0) hist in
  Parts dim (a, b) (map abox (st_objs st)) /\
  (forall x, In x (st_objs st) -> 0 <= a_coarse x <= st_lmax st - lmin) /\
  (forall pts, (forall p, In p pts -> length p = dim /\ contains a b p = true) ->
     let res := assign_points (current_tree st) pts in
     (forall p, occ p (assigned res) = occ p pts) /\
     (forall bx ps, In (bx, ps) res -> In bx (map abox (st_objs st)) /\ forall p, In p ps -> inb bx p = true)).
Proof. exact numbers_tiling. Qed.
Print Assumptions C07_tiling_for_every_decision_outcome.

(* the decision taken for the area with box b depends only on the numbers of that area: its benefit pair and its twin errors *)
Theorem C07_decision_depends_only_on_own_numbers : forall b nums nums' dflt,
  numbers_for b nums = numbers_for b nums' -> lookup b (map decision_of nums) dflt = lookup b (map decision_of nums') dflt.
Proof. exact decision_depends_only_on_own_numbers. Qed.
Theorem C07_decision_is_function_of_numbers : forall nm,
  snd (decision_of nm) = (auto_decide (fst (fst (snd nm))) (snd (fst (snd nm))), split_dims_of (snd (snd nm))).
Proof. exact decision_of_numbers. Qed.
(* twin bookkeeping: the dimensions a split uses are split_dims_of the twin errors stored for that area, whatever the
   rest of the table is *)
Theorem C07_twin_split_dims_function : forall es b e, tw_get b es = Some e ->
  snd (twin_step es (TRefine b false)) = Some (b, split_dims_of (the_errors (fst (snd e)))).
Proof. exact twin_split_dims_function. Qed.
(* get_split_dims never returns an empty list (non-negative twin errors): a split splits in at least one dimension *)
Theorem C07_split_dims_nonempty : forall te, te <> [] -> Forall (fun x => (0 <= x)%Qc) te -> split_dims_of te <> [].
Proof. exact split_dims_nonempty. Qed.
Print Assumptions C07_decision_depends_only_on_own_numbers.
Print Assumptions C07_decision_is_function_of_numbers.
Print Assumptions C07_twin_split_dims_function.
Print Assumptions C07_split_dims_nonempty.

Example C07_nonvacuous_decisions :
  auto_decide (Q2Qc (1 # 4)) (Q2Qc (1 # 2)) = true /\ auto_decide (Q2Qc (1 # 2)) (Q2Qc (1 # 2)) = false /\
  split_dims_of [Q2Qc (9 # 10); Q2Qc 1; Q2Qc (1 # 2)] = [0%nat; 1%nat] /\
  (* 2D: root split in both dimensions, twin errors set for the area [0,1/2]x[0,1/2] (the twins get them too), split of it *)
  let '(es, log) := twin_run (twin_init 2 [Q2Qc 0; Q2Qc 0] [Q2Qc 1; Q2Qc 1])
                             [TSet ([Q2Qc 0; Q2Qc 0], [Q2Qc (1 # 2); Q2Qc (1 # 2)]) 0 (Q2Qc 1);
                              TSet ([Q2Qc 0; Q2Qc 0], [Q2Qc (1 # 2); Q2Qc (1 # 2)]) 1 (Q2Qc (1 # 2));
                              TRefine ([Q2Qc 0; Q2Qc 0], [Q2Qc (1 # 2); Q2Qc (1 # 2)]) false] in
  map snd log = [[0%nat]] /\ length es = 5%nat /\
  map (fun e => map (fun t => match t with Some x => Some (this x) | None => None end) (fst (snd e))) es =
    [[None; Some (1 # 2)%Q]; [Some 1%Q; None]; [None; None]; [None; Some (1 # 4)%Q]; [None; Some (1 # 4)%Q]].
Proof. vm_compute. repeat split; reflexivity. Qed.

(* ==================================================================================================================
   PHASE 4
   ================================================================================================================== *)

(* ---- coarsening version 2 (lmin-aware arithmetic, base = lmin): the FULL STATEMENT, GENERAL: every dimension >= 1, every
   lmin <= lmax, every coarsening value 0 <= c <= lmax - lmin.  Replaces the version-2 half of
   C07_local_combi_v12_valid_all_lmin_bounded.  Proof (Proofs/ESV2Full.v): the loop lowers the cap m -> m-1 while
   2 m >= thr and the budget covers the entries at the cap; for a level vector k with maximum K: below the threshold or with
   more than c entries at K domination is unchanged; with a unique maximum above the threshold  T l >= k <-> l >= k + c e_i0
   (two levels above K-1 would make the cap K-1 affordable: cost <= n - 2 (K-1-lmin) <= c); with 2..c entries at K nothing
   dominates k.  In every case the dominating sum is one of the closed-form scheme (std_IE). *)
Theorem C07_local_combi_v2_valid : forall n lmin lmax c, lmin <= lmax -> 0 <= c <= lmax - lmin ->
  valid_local_combi (S n) (local_combi (mkCP (S n) 2 lmin lmax lmin) c) = true.
Proof. exact local_combi_v2_valid. Qed.
Print Assumptions C07_local_combi_v2_valid.

(* the case analysis itself: for every level vector k there is k2 with  coarsened(l) >= k <-> l >= k2  on the whole scheme,
   or no coarsened component grid dominates k *)
Theorem C07_v2_domination_is_scheme_domination : forall n lmin lmax c k, lmin <= lmax -> 0 <= c <= lmax - lmin ->
  length k = S n -> Forall (fun x => lmin <= x) k ->
  (exists k2, length k2 = S n /\ Forall (fun x => lmin <= x) k2 /\
     forall l cf td, In (l, cf) (combi_scheme_standard (S n) lmin lmax) ->
       lv_geb (L2 (Z.of_nat (S n)) lmin lmax c td (Z.to_nat c) c l) k = lv_geb l k2) \/
  (forall l cf td, In (l, cf) (combi_scheme_standard (S n) lmin lmax) ->
       lv_geb (L2 (Z.of_nat (S n)) lmin lmax c td (Z.to_nat c) c l) k = false).
Proof. intros n lmin lmax c k Hle Hc. exact (key n lmin lmax c Hc k). Qed.
Print Assumptions C07_v2_domination_is_scheme_domination.

(* version 2 over histories (restarts included): every area of every reachable state carries a valid local combination *)
Theorem C07_every_area_valid_local_combi_v2 :
  forall n nrbe lmin lmax auto single a b bens0 hist x, wfbox a b -> length a = S n -> lmin <= lmax ->
  let st := run_events2 (start_state (S n) 2 nrbe lmin lmax lmin auto single a b bens0) hist in
  In x (st_objs st) -> valid_local_combi (S n) (area_grids (st_cp st) x) = true.
Proof.
  intros n nrbe lmin lmax auto single a b bens0 hist x Hbox Hdim Hlev st Hx. unfold st in *. clear st.
  rewrite (area_grids_history2 (S n) 2 nrbe lmin lmax lmin auto single a b bens0 Hbox Hdim Hlev hist x Hx).
  pose proof (coarsening_nonneg2 (S n) 2 nrbe lmin lmax lmin auto single a b bens0 Hbox Hdim Hlev hist x Hx) as C.
  apply local_combi_v2_valid; lia.
Qed.
Print Assumptions C07_every_area_valid_local_combi_v2.

(* non-vacuity far outside the enumerated box: d = 6, lmin = 2, lmax = 9 (span 7), coarsening 4 *)
Example C07_nonvacuous_v2_general :
  Nat.ltb 1000 (length (local_combi (mkCP 6 2 2 9 2) 4)) = true /\
  dominating_sum (local_combi (mkCP 6 2 2 9 2) 4) [2; 2; 0; 0; 0; 0] = 1 /\
  existsb (fun g => lv_geb (fst g) [2; 2; 0; 0; 0; 0]) (local_combi (mkCP 6 2 2 9 2) 4) = true.
Proof. vm_compute. repeat split; reflexivity. Qed.

(* ==================================================================================================================
   PHASE 5
   ================================================================================================================== *)

(* ---- coarsening version 1 (lmin-aware arithmetic, base = lmin): the FULL STATEMENT, GENERAL: every dimension >= 1, every
   lmin <= lmax, every 0 <= c <= lmax - lmin.  With C07_local_combi_v0_valid, C07_local_combi_v2_valid and
   C07_local_combi_v3_valid all four coarsening versions are proved in general; C07_local_combi_v12_valid_all_lmin_bounded is
   subsumed.  Proof (Proofs/ESV1Full.v): as for version 2 with threshold delta = 1 and the top-diagonal discount
   `coarsening >= occurences_of_max - is_top_diag`: two levels above K-1 make the cap K-1 cost at most c below the top
   diagonal and at most c + 1 on it, where the discount (overdraft by one) pays for it; with a unique maximum every round has
   one entry at the cap, so the discount never applies. *)
Theorem C07_local_combi_v1_valid : forall n lmin lmax c, lmin <= lmax -> 0 <= c <= lmax - lmin ->
  valid_local_combi (S n) (local_combi (mkCP (S n) 1 lmin lmax lmin) c) = true.
Proof. exact local_combi_v1_valid. Qed.
Print Assumptions C07_local_combi_v1_valid.

(* the loop lemma with the discount: capping at j is reached when its cost fits the budget, or - on the top diagonal with at
   least two levels above j - exceeds it by one *)
Theorem C07_v1_reach_with_top_diagonal_discount : forall dimz lmin lmax c td j, lmin <= j -> lmax + lmin - c + 1 <= 2 * (j + 1) ->
  forall f c' t, t <> [] -> c' <= Z.of_nat f ->
  (cost j t <= c' \/ (td = true /\ 2 <= big j t /\ cost j t <= c' + 1)) ->
  Forall (fun x => x <= j) (L1 dimz lmin lmax c td f c' t).
Proof. exact L1_reach. Qed.
Print Assumptions C07_v1_reach_with_top_diagonal_discount.

Theorem C07_every_area_valid_local_combi_v1 :
  forall n nrbe lmin lmax auto single a b bens0 hist x, wfbox a b -> length a = S n -> lmin <= lmax ->
  let st := run_events2 (start_state (S n) 1 nrbe lmin lmax lmin auto single a b bens0) hist in
  In x (st_objs st) -> valid_local_combi (S n) (area_grids (st_cp st) x) = true.
Proof.
  intros n nrbe lmin lmax auto single a b bens0 hist x Hbox Hdim Hlev st Hx. unfold st in *. clear st.
  rewrite (area_grids_history2 (S n) 1 nrbe lmin lmax lmin auto single a b bens0 Hbox Hdim Hlev hist x Hx).
  pose proof (coarsening_nonneg2 (S n) 1 nrbe lmin lmax lmin auto single a b bens0 Hbox Hdim Hlev hist x Hx) as C.
  apply local_combi_v1_valid; lia.
Qed.
Print Assumptions C07_every_area_valid_local_combi_v1.

(* ---- corollary for C04 (its theorem C04_es_reachable_multilinear_exact, hypotheses discharged): extend-split with coarsening
   version 1 or 2 integrates every multilinear monomial exactly in every reachable state of every history, every dimension >= 1 *)
Theorem C07_C04_es_multilinear_exact_v12 : forall n v nrbe lmin lmax auto single a b bens0 hist exps,
  v = 1 \/ v = 2 -> wfbox a b -> length a = S n -> lmin <= lmax ->
  length exps = S n -> Forall (fun k => (k <= 1)%nat) exps ->
  es_integral a b (state_areas (run_events (start_state (S n) v nrbe lmin lmax lmin auto single a b bens0) hist)) exps
  = bmom a b exps.
Proof. exact es_reachable_multilinear_exact_v12. Qed.
Print Assumptions C07_C04_es_multilinear_exact_v12.

(* non-vacuity outside the enumerated box: d = 6, lmin = 2, lmax = 9, coarsening 4, version 1: (3,0,..,0) (unique maximum above
   the threshold) and (1,1,0,..) (below it) are dominated with coefficient sum 1; (2,2,0,..) is not dominated at all *)
Example C07_nonvacuous_v1_general :
  Nat.ltb 1000 (length (local_combi (mkCP 6 1 2 9 2) 4)) = true /\
  dominating_sum (local_combi (mkCP 6 1 2 9 2) 4) [3; 0; 0; 0; 0; 0] = 1 /\
  dominating_sum (local_combi (mkCP 6 1 2 9 2) 4) [1; 1; 0; 0; 0; 0] = 1 /\
  existsb (fun g => lv_geb (fst g) [3; 0; 0; 0; 0; 0]) (local_combi (mkCP 6 1 2 9 2) 4) = true /\
  existsb (fun g => lv_geb (fst g) [2; 2; 0; 0; 0; 0]) (local_combi (mkCP 6 1 2 9 2) 4) = false.
Proof. vm_compute. repeat split; reflexivity. Qed.
