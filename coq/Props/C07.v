(* C07 — Extend-split areas tile the domain and each carries a valid local combination.
   Property theorems only; each is closed by `exact`/application of lemmas from Proofs/ES*.v.
   Model: Model/ExtendSplit.v (SpatiallyAdaptiveExtendScheme, RefinementObjectExtendSplit, RefinementContainer).
   A history is: initialize_refinement + first evaluation (`start_state`), then any list of events, each a driver step
   (refine(); evaluate) or an observation (coarsen_grid for every area and component grid, as the harness and
   get_points_component_grid / interpolate_points do), with ARBITRARY decision inputs (extend/split bit of automatic_extend_split, split dimensions of
   split_single_dim) and ARBITRARY scripted benefits; `base` is the minimum level assumed by the diagonal arithmetic of
   coarsen_grid versions 1,2 (1 = pinned code, lmin = proposed repair) - the tiling theorems hold for every value. *)
From Coq Require Import ZArith List Bool QArith Qcanon Lia.
From SG Require Import Base.QcUtil Model.CombiScheme Model.ExtendSplit
     Proofs.ESGeom Proofs.ESInv Proofs.ESTree Proofs.ESCombi.
Import ListNotations.
Open Scope Z_scope.

Section History.
Variables (dim : nat) (version nrbe lmin lmax base : Z) (auto single : bool) (a b : list Qc) (bens0 : list (box * Z)).
Hypotheses (Hbox : wfbox a b) (Hdim : length a = dim) (Hlev : lmin <= lmax).
Let reach (hist : list event) : state :=
  run_events (start_state dim version nrbe lmin lmax base auto single a b bens0) hist.

(* for EVERY operation history the areas in the container are non-degenerate boxes of the right dimension that lie in
   the domain, cover it, and have pairwise disjoint interiors (record Parts, Proofs/ESGeom.v) *)
Theorem C07_leaves_tile_domain : forall hist, Parts dim (a, b) (map abox (st_objs (reach hist))).
Proof. intro hist. exact (leaves_tile_domain dim version nrbe lmin lmax base auto single a b bens0 hist Hbox Hdim Hlev). Qed.

(* the same, spelled out *)
Theorem C07_every_domain_point_in_some_leaf : forall hist p, In_box p (a, b) ->
  exists x, In x (st_objs (reach hist)) /\ In_box p (abox x).
Proof. intros hist. exact (parts_cover_objs _ _ _ (C07_leaves_tile_domain hist)). Qed.

Theorem C07_leaf_interiors_pairwise_disjoint : forall hist l1 x l2 y l3,
  st_objs (reach hist) = l1 ++ x :: l2 ++ y :: l3 -> forall p, ~ (In_int p (abox x) /\ In_int p (abox y)).
Proof. intros hist. exact (parts_disjoint_objs _ _ _ (C07_leaves_tile_domain hist)). Qed.

Theorem C07_leaves_inside_domain : forall hist x p, In x (st_objs (reach hist)) -> In_box p (abox x) -> In_box p (a, b).
Proof. intros hist. exact (parts_inside_objs _ _ _ (C07_leaves_tile_domain hist)). Qed.

(* coarsening values never become negative (and never exceed lmax - lmin, which makes the bounded enumeration of
   coarsen_grid below exhaustive in the coarsening value) *)
Theorem C07_coarsening_nonneg : forall hist x, In x (st_objs (reach hist)) ->
  0 <= a_coarse x <= st_lmax (reach hist) - lmin.
Proof. intro hist. exact (coarsening_nonneg dim version nrbe lmin lmax base auto single a b bens0 hist Hbox Hdim Hlev). Qed.

(* get_points_in_areas_recursive: every evaluation point of the domain is assigned exactly once (as often as it occurs
   in the input list), to an area of the container, and that area contains it *)
Theorem C07_point_assignment_partition : forall hist pts,
  (forall p, In p pts -> length p = dim /\ contains a b p = true) ->
  let res := assign_points (current_tree (reach hist)) pts in
  (forall p, occ p (assigned res) = occ p pts) /\
  (forall bx ps, In (bx, ps) res -> In bx (map abox (st_objs (reach hist))) /\ forall p, In p ps -> inb bx p = true).
Proof.
  intros hist pts. exact (point_assignment_partition dim version nrbe lmin lmax base auto single a b bens0 hist pts Hbox Hdim Hlev).
Qed.
End History.
Print Assumptions C07_leaves_tile_domain.
Print Assumptions C07_every_domain_point_in_some_leaf.
Print Assumptions C07_leaf_interiors_pairwise_disjoint.
Print Assumptions C07_leaves_inside_domain.
Print Assumptions C07_coarsening_nonneg.
Print Assumptions C07_point_assignment_partition.

(* ---- local combination.  Verified checker: valid_local_combi d gs = true means that all computed grids have d levels
   >= 0 and that inclusion-exclusion holds on the downward closure of the computed grids ... *)
Theorem C07_valid_local_combi_sound : forall d gs, valid_local_combi d gs = true -> grids_wf d gs /\ local_IE d gs.
Proof. exact valid_local_combi_sound. Qed.
Print Assumptions C07_valid_local_combi_sound.

(* ... hence the coefficients of the computed grids sum to 1 at every point of every computed grid of the area
   (dyadic area grids j/2^l in relative coordinates) *)
Theorem C07_valid_local_combi_point_sum : forall d gs, valid_local_combi d gs = true ->
  forall g0 x, In g0 gs -> in_grid (fst g0) x -> point_coeff_sum gs x = 1.
Proof. exact valid_local_combi_point_sum. Qed.
Print Assumptions C07_valid_local_combi_point_sum.

(* FULL STATEMENT (not proved in general): for all d >= 2, 1 <= lmin <= lmax, 0 <= c <= lmax - lmin, versions 0,1,2:
     valid_local_combi d (local_combi (mkCP d version lmin lmax lmin) c) = true.
   BOUNDED: d in 2..5, lmin in 1..3, lmax-lmin in 0..6, coarsening in 0..lmax-lmin+2 (reachable values are
   0..lmax-lmin by C07_coarsening_nonneg), versions 0,1,2, with the diagonal arithmetic of versions 1,2 using lmin
   (`base = lmin`: the proposed repair; identical to the pinned code for lmin = 1 and for version 0).
   local_combi_check also covers: the assert of versions 1,2 holds for all component grids, and a second pass of
   coarsen_grid over the scheme with the dictionary left behind by the first pass returns the same answers. *)
Theorem C07_local_combi_valid_bounded : forall d v lmin span c,
  In d [2%nat; 3%nat; 4%nat; 5%nat] -> In v [0; 1; 2] -> In lmin [1; 2; 3] -> In span (zrange 7) -> In c (zrange (span + 3)) ->
  local_combi_check (mkCP d v lmin (lmin + span) lmin) c = true /\
  valid_local_combi d (local_combi (mkCP d v lmin (lmin + span) lmin) c) = true.
Proof.
  intros d v lmin span c Hd Hv Hl Hs Hc.
  pose proof (bounded_all_spec _ _ _ true bounded_fixed_true d v lmin span c Hd Hv Hl Hs Hc) as H.
  split; [exact H | exact (local_combi_check_valid _ _ H)].
Qed.
Print Assumptions C07_local_combi_valid_bounded.

(* the pinned code (base = 1) for lmin = 1, all three versions *)
Theorem C07_local_combi_valid_pinned_lmin1_bounded : forall d v span c,
  In d [2%nat; 3%nat; 4%nat; 5%nat] -> In v [0; 1; 2] -> In span (zrange 7) -> In c (zrange (span + 3)) ->
  valid_local_combi d (local_combi (mkCP d v 1 (1 + span) 1) c) = true.
Proof.
  intros d v span c Hd Hv Hs Hc.
  exact (local_combi_check_valid _ _ (bounded_all_spec _ _ _ false bounded_pinned_lmin1_true d v 1 span c Hd Hv (or_introl eq_refl) Hs Hc)).
Qed.
Print Assumptions C07_local_combi_valid_pinned_lmin1_bounded.

(* REFUTED for the pinned code with lmin = 2 (versions 1 and 2): d = 2, lmin = 2, lmax = 4, an area with coarsening 1
   gets an invalid local combination; at the area grid point (0, 1/2) the coefficients sum to 2.
   Replayed on the implementation: known finding C07-coarsen-v12-lmin. *)
Theorem C07_local_combi_pinned_lmin2_refuted :
  valid_local_combi 2 (local_combi (mkCP 2 1 2 4 1) 1) = false /\
  valid_local_combi 2 (local_combi (mkCP 2 2 2 4 1) 1) = false /\
  point_coeff_sum (local_combi (mkCP 2 1 2 4 1) 1) [dy 0 0; dy 1 1] = 2.
Proof. exact (conj pinned_v1_lmin2_invalid (conj pinned_v2_lmin2_invalid pinned_v1_lmin2_point)). Qed.
Print Assumptions C07_local_combi_pinned_lmin2_refuted.

(* ---- non-vacuity: a concrete history (d = 2, version 0, one split before extending, domain [0,1]x[-1,1]; scripted
   benefits select first the area [0,1/2]x[-1,0] (split), then its child [0,1/4]x[-1,-1/2] (extend, lmax 2 -> 3)):
   7 areas with coarsening values 1,1,1,1,1,1,0; the hypotheses of the theorems are met; two evaluation points are
   assigned (the one on a shared face once) *)
Example C07_nonvacuous :
  let a := [Q2Qc 0; Q2Qc (-1 # 1)] in let b := [Q2Qc 1; Q2Qc 1] in
  let st := run_events (start_state 2 0 1 1 2 1 false false a b [(([Q2Qc 0; Q2Qc (-1 # 1)], [Q2Qc (1 # 2); Q2Qc 0]), 8)])
                [Observe; Step (mkStep [] [(([Q2Qc 0; Q2Qc (-1 # 1)], [Q2Qc (1 # 4); Q2Qc (-1 # 2)]), 8)]); Observe;
                 Step (mkStep [] [])] in
  wfbox a b /\ length (st_objs st) = 7%nat /\ st_lmax st = 3 /\
  map a_coarse (st_objs st) = [1; 1; 1; 1; 1; 1; 0] /\
  map (fun r => length (snd r)) (assign_points (current_tree st) [[Q2Qc (1 # 2); Q2Qc 0]; [Q2Qc (1 # 8); Q2Qc (-3 # 4)]])
    = [1; 0; 0; 1]%nat.
Proof. vm_compute. repeat split; reflexivity. Qed.

Example C07_nonvacuous_local_combi :
  local_combi (mkCP 2 0 1 3 1) 1 = [([0; 1], 1); ([1; 0], 1); ([0; 0], -1)] /\
  in_grid [0; 1] [dy 1 0; dy 1 1] /\ point_coeff_sum (local_combi (mkCP 2 0 1 3 1) 1) [dy 1 0; dy 1 1] = 1.
Proof.
  split; [vm_compute; reflexivity | split; [|vm_compute; reflexivity]].
  unfold in_grid. constructor; [|constructor; [|constructor]]; apply in_pts1b_spec; vm_compute; reflexivity.
Qed.
