(* C03 — Dimension-wise refinement always yields a valid nested combination.
   Property theorems only; each is closed by `exact` of a lemma from Proofs/.

   Proved for ALL dimensions, start levels, versions 2/3/6/7/8 (any outcome of the version-3 float rounding), boundary
   on/off, margins, benefit assignments, histories and ALL option settings (rebalancing on or off, any safety factor, any
   outcome of the binary64 rebalancing test):
   * the stripes depend only on (dimension, component level), grow monotonically with the level (for EVERY state, no
     invariant needed), are strictly sorted and contain both end points in EVERY reachable state
     (C03_stripes_sorted_with_endpoints_reachable; the C06 invariant survives rebalancing: Proofs/RebalanceSeg.v);
   * the component grids are the tensor products of these stripes;
   * the scheme invariant of C01 survives every step, hence by the abstract combination lemma (Proofs/CombiAbstract.v) every
     point of the combined grid has component-grid coefficients summing to exactly 1 in EVERY reachable state
     (C03_point_coeff_sum_one_reachable);
   * the combined interpolant (Model/DimWiseInterp.v: scipy interpn(linear) on the stripes = dimension-by-dimension
     piecewise-linear interpolation, zero boundary values when boundary = False) reproduces an ARBITRARY function exactly at
     every point of the combined grid in EVERY reachable state (C03_nodal_exact_reachable; Proofs/NodalExact.v instantiated
     with the stripes);
   * the same for every state reached from an installed valid state (the states the harness constructs directly).
   The earlier statements (_reachable_norebalance, and _reachable_checked with the verified checker as hypothesis) are kept;
   they are now special cases.  C03_every_history needs no definedness hypothesis: the run exists for every history
   (selection loop, rebalancing asserts/fuel and the raise_lmax loop are proved total, Proofs/DimWiseTotal.v). *)
From Coq Require Import ZArith List Bool QArith Qcanon Sorted.
From SG Require Import Base.QcUtil Model.CombiScheme Model.RefTree Model.DimWise Model.DimWiseInterp
     Proofs.SchemeInv Proofs.CombiAbstract Proofs.RefTreeInv Proofs.RefTreeCheck Proofs.DimWiseInv
     Proofs.DimWiseStripes Proofs.DimWiseCombi Proofs.C03Main Proofs.DimWiseNodal Proofs.DimWiseFuel Proofs.C03Any Proofs.DimWiseCacheP Proofs.InterpSpec Proofs.NodalExact Proofs.DimWiseFloatP.
From SG Require Model.StdCombi.
From SG Require Import Model.DimWiseInstall Model.DimWiseCache Model.DimWiseFloat Model.DimWiseWire.
Import ListNotations.
Open Scope Z_scope.

(* stripes: strictly sorted, first point a_d, last point b_d (both of level 0) *)
Theorem C03_stripes_sorted_with_endpoints : forall a b o st d l t s,
  TilesOK a b st -> nth_error (st_trees st) d = Some t -> stripe_dim o st d l = Some s ->
  StronglySorted Qclt (map fst s) /\ exists r, s = (nth d a 0%Qc, 0) :: r ++ [(nth d b 0%Qc, 0)].
Proof. exact dw_stripes_sorted_with_endpoints. Qed.
Print Assumptions C03_stripes_sorted_with_endpoints.

(* the hypothesis TilesOK holds in every state satisfying the C06 invariant, and in every state accepted by the checker *)
Theorem C03_tiles_from_invariant : forall a b st, DwInv a b st -> TilesOK a b st.
Proof. exact DwInv_TilesOK. Qed.
Theorem C03_tiles_from_checker : forall a b st,
  (forall d t, nth_error (st_trees st) d = Some t -> tree_ok (nth d a 0%Qc) (nth d b 0%Qc) (nth d (st_lmax st) 0) t = true) ->
  TilesOK a b st.
Proof. exact tree_ok_TilesOK. Qed.

(* the stripe of dimension d depends only on d and component d of the level vector *)
Theorem C03_stripes_depend_only_on_dim_and_level : forall o st lv ss,
  get_point_coord_for_each_dim o st lv = Some ss -> length lv = st_dim st ->
  forall d s, nth_error ss d = Some s -> stripe_dim o st d (nth d lv 0) = Some s.
Proof. exact stripes_depend_only_on_dim_and_level. Qed.
Print Assumptions C03_stripes_depend_only_on_dim_and_level.

(* monotone in the level, in EVERY state (reachable or not), every modelled version *)
Theorem C03_stripes_monotone : forall o st d l l' s1,
  stripe_dim o st d l = Some s1 -> l <= l' -> exists s2, stripe_dim o st d l' = Some s2 /\ incl s1 s2.
Proof. exact dw_stripes_monotone. Qed.
Print Assumptions C03_stripes_monotone.

(* the while loops of versions 6/7/8 terminate within the model's fuel: in every reachable state (any options, rebalancing
   included) all stripes are defined for versions 2, 3, 6, 7; for version 8 whenever every maximum level is >= 2 *)
Theorem C03_stripes_defined_reachable : forall n lmin lmax a b o steps st0 st d l,
  Forall2 (fun x y => (x < y)%Qc) a b ->
  dw_init (S n) lmin lmax a b = Some st0 -> dw_run o steps st0 = Some st ->
  (o_version o = 2 \/ o_version o = 3 \/ o_version o = 6 \/ o_version o = 7) ->
  (d < st_dim st)%nat -> exists s, stripe_dim o st d l = Some s.
Proof. exact dw_reachable_stripes_defined. Qed.
Print Assumptions C03_stripes_defined_reachable.

Theorem C03_stripes_defined : forall o st d l t,
  nth_error (st_trees st) d = Some t -> t <> [] ->
  (o_version o = 2 \/ o_version o = 3 \/ o_version o = 6 \/ o_version o = 7 \/
   (o_version o = 8 /\ forall i, (i < length t)%nat -> 2 <= get_max_level t i)) ->
  exists s, stripe_dim o st d l = Some s.
Proof. exact stripe_dim_defined. Qed.

(* component grid = tensor product of the per-dimension point sets (end points stripped when boundary = False) *)
Theorem C03_component_points_are_tensor : forall o st lv pts, get_points_component_grid o st lv = Some pts ->
  length lv = st_dim st -> forall x, In x pts <-> dw_in_comp o st x lv = true.
Proof. exact component_points_are_tensor. Qed.
Print Assumptions C03_component_points_are_tensor.

(* the C01 invariant of the scheme survives every history, with or without rebalancing *)
Theorem C03_scheme_inv_reachable : forall n lmin lmax a b o steps st0 st,
  dw_init (S n) lmin lmax a b = Some st0 -> dw_run o steps st0 = Some st -> Inv (st_scheme st).
Proof. exact dw_reachable_scheme_inv. Qed.
Print Assumptions C03_scheme_inv_reachable.

(* coefficient sum 1 at every point of the combined grid *)
Theorem C03_point_coeff_sum_one : forall a b o st x l0 c0,
  Inv (st_scheme st) -> TilesOK a b st ->
  In (l0, c0) (combi_scheme_adaptive (st_scheme st)) -> dw_in_comp o st x l0 = true ->
  dw_coeff_sum o st x = 1.
Proof. exact dw_point_coeff_sum_one. Qed.
Print Assumptions C03_point_coeff_sum_one.

Theorem C03_point_coeff_sum_one_reachable_norebalance : forall n lmin lmax a b o steps st0 st x l0 c0,
  Forall2 (fun p q => (p < q)%Qc) a b -> o_rebal o = false ->
  dw_init (S n) lmin lmax a b = Some st0 -> dw_run o steps st0 = Some st ->
  In (l0, c0) (combi_scheme_adaptive (st_scheme st)) -> dw_in_comp o st x l0 = true ->
  dw_coeff_sum o st x = 1.
Proof. exact dw_reachable_point_coeff_sum_one. Qed.
Print Assumptions C03_point_coeff_sum_one_reachable_norebalance.

Theorem C03_point_coeff_sum_one_reachable_checked : forall n lmin lmax a b o steps st0 st x l0 c0,
  dw_init (S n) lmin lmax a b = Some st0 -> dw_run o steps st0 = Some st ->
  (forall d t, nth_error (st_trees st) d = Some t -> tree_ok (nth d a 0%Qc) (nth d b 0%Qc) (nth d (st_lmax st) 0) t = true) ->
  In (l0, c0) (combi_scheme_adaptive (st_scheme st)) -> dw_in_comp o st x l0 = true ->
  dw_coeff_sum o st x = 1.
Proof. exact dw_checked_point_coeff_sum_one. Qed.
Print Assumptions C03_point_coeff_sum_one_reachable_checked.

(* nodal exactness: the combined interpolant of an ARBITRARY function f equals f at every point of the combined grid *)
Theorem C03_nodal_exact : forall a b o st (f : list Qc -> Qc) x l0 c0,
  Inv (st_scheme st) -> TilesOK a b st ->
  In (l0, c0) (combi_scheme_adaptive (st_scheme st)) -> dw_in_comp o st x l0 = true ->
  dw_combi_interp o st a b f x = f x.
Proof. exact dw_nodal_exact. Qed.
Print Assumptions C03_nodal_exact.

Theorem C03_nodal_exact_reachable_norebalance : forall n lmin lmax a b o steps st0 st (f : list Qc -> Qc) x l0 c0,
  Forall2 (fun p q => (p < q)%Qc) a b -> o_rebal o = false ->
  dw_init (S n) lmin lmax a b = Some st0 -> dw_run o steps st0 = Some st ->
  In (l0, c0) (combi_scheme_adaptive (st_scheme st)) -> dw_in_comp o st x l0 = true ->
  dw_combi_interp o st a b f x = f x.
Proof. exact dw_reachable_nodal_exact. Qed.
Print Assumptions C03_nodal_exact_reachable_norebalance.

Theorem C03_nodal_exact_reachable_checked : forall n lmin lmax a b o steps st0 st (f : list Qc -> Qc) x l0 c0,
  dw_init (S n) lmin lmax a b = Some st0 -> dw_run o steps st0 = Some st ->
  (forall d t, nth_error (st_trees st) d = Some t -> tree_ok (nth d a 0%Qc) (nth d b 0%Qc) (nth d (st_lmax st) 0) t = true) ->
  In (l0, c0) (combi_scheme_adaptive (st_scheme st)) -> dw_in_comp o st x l0 = true ->
  dw_combi_interp o st a b f x = f x.
Proof. exact dw_checked_nodal_exact. Qed.
Print Assumptions C03_nodal_exact_reachable_checked.

(* ---------------------------------------------------------------------------------------------------------- *)
(* EVERY reachable state, every option setting (rebalancing included): no checker hypothesis any more *)
Theorem C03_stripes_sorted_with_endpoints_reachable : forall n lmin lmax a b o steps st0 st d l t s,
  Forall2 (fun p q => (p < q)%Qc) a b ->
  dw_init (S n) lmin lmax a b = Some st0 -> dw_run o steps st0 = Some st ->
  nth_error (st_trees st) d = Some t -> stripe_dim o st d l = Some s ->
  StronglySorted Qclt (map fst s) /\ exists r, s = (nth d a 0%Qc, 0) :: r ++ [(nth d b 0%Qc, 0)].
Proof. exact dw_any_stripes_sorted_with_endpoints. Qed.
Print Assumptions C03_stripes_sorted_with_endpoints_reachable.

Theorem C03_point_coeff_sum_one_reachable : forall n lmin lmax a b o steps st0 st x l0 c0,
  Forall2 (fun p q => (p < q)%Qc) a b ->
  dw_init (S n) lmin lmax a b = Some st0 -> dw_run o steps st0 = Some st ->
  In (l0, c0) (combi_scheme_adaptive (st_scheme st)) -> dw_in_comp o st x l0 = true ->
  dw_coeff_sum o st x = 1.
Proof. exact dw_any_point_coeff_sum_one. Qed.
Print Assumptions C03_point_coeff_sum_one_reachable.

Theorem C03_nodal_exact_reachable : forall n lmin lmax a b o steps st0 st (f : list Qc -> Qc) x l0 c0,
  Forall2 (fun p q => (p < q)%Qc) a b ->
  dw_init (S n) lmin lmax a b = Some st0 -> dw_run o steps st0 = Some st ->
  In (l0, c0) (combi_scheme_adaptive (st_scheme st)) -> dw_in_comp o st x l0 = true ->
  dw_combi_interp o st a b f x = f x.
Proof. exact dw_any_nodal_exact. Qed.
Print Assumptions C03_nodal_exact_reachable.

(* every state reached from an installed valid state (what the harness constructs directly, Model/DimWiseInstall.v) *)
Theorem C03_point_coeff_sum_one_installed : forall n lmin lmax a b o rb trees steps st0 st1 st x l0 c0,
  Forall2 (fun p q => (p < q)%Qc) a b ->
  dw_init (S n) lmin lmax a b = Some st0 ->
  (forall d t, nth_error trees d = Some t -> Seg (nth d a 0%Qc) (nth d b 0%Qc) 0 0 t) ->
  dw_install o rb trees st0 = Some st1 -> dw_run o steps st1 = Some st ->
  In (l0, c0) (combi_scheme_adaptive (st_scheme st)) -> dw_in_comp o st x l0 = true ->
  dw_coeff_sum o st x = 1.
Proof. exact dw_installed_point_coeff_sum_one. Qed.

Theorem C03_nodal_exact_installed : forall n lmin lmax a b o rb trees steps st0 st1 st (f : list Qc -> Qc) x l0 c0,
  Forall2 (fun p q => (p < q)%Qc) a b ->
  dw_init (S n) lmin lmax a b = Some st0 ->
  (forall d t, nth_error trees d = Some t -> Seg (nth d a 0%Qc) (nth d b 0%Qc) 0 0 t) ->
  dw_install o rb trees st0 = Some st1 -> dw_run o steps st1 = Some st ->
  In (l0, c0) (combi_scheme_adaptive (st_scheme st)) -> dw_in_comp o st x l0 = true ->
  dw_combi_interp o st a b f x = f x.
Proof. exact dw_installed_nodal_exact. Qed.
Print Assumptions C03_nodal_exact_installed.

(* no definedness hypothesis: for EVERY history (every dimension >= 1, start configuration accepted by initialize_refinement,
   version, option setting, sequence of benefit assignments) the run exists, and in its final state the trees tile the
   domain, every point of the combined grid has coefficient sum 1 and the combined interpolant is nodally exact *)
Theorem C03_every_history : forall n lmin lmax a b o steps st0,
  Forall2 (fun p q => (p < q)%Qc) a b -> dw_init (S n) lmin lmax a b = Some st0 ->
  exists st, dw_run o steps st0 = Some st /\ DwInv a b st /\ TilesOK a b st /\
    (forall x l0 c0, In (l0, c0) (combi_scheme_adaptive (st_scheme st)) -> dw_in_comp o st x l0 = true ->
       dw_coeff_sum o st x = 1) /\
    (forall (f : list Qc -> Qc) x l0 c0, In (l0, c0) (combi_scheme_adaptive (st_scheme st)) -> dw_in_comp o st x l0 = true ->
       dw_combi_interp o st a b f x = f x).
Proof. exact dw_every_history. Qed.
Print Assumptions C03_every_history.

(* ---------------------------------------------------------------------------------------------------------- *)
(* the per-step cache max_level_dict (Model/DimWiseCache.v): every sequence of get_max_level queries between two resets returns
   the uncached values, provided the cache was emptied when the trees changed (refinement_postprocessing, and - since the
   repair of the re-run defect - initialize_refinement) *)
Theorem C03_max_level_cache_transparent : forall trees qs c, consistent c trees ->
  fst (run_queries c trees qs) = map (fun q => get_max_level (nth (fst q) trees []) (snd q)) qs /\
  consistent (snd (run_queries c trees qs)) trees.
Proof. exact queries_transparent. Qed.
Print Assumptions C03_max_level_cache_transparent.

(* the defect the lessons sweep found (finding C03-rerun-stale-max-level-cache, repaired by /repo 143094d): a cache filled in a
   first run answers a query on the rebuilt trees of a further run on the same object with the stale maximum level (3 instead
   of 2 at position 2 of dimension 0), so the 1D point sets depended on the previous run *)
Theorem C03_rerun_without_cache_reset_stale_refuted :
  let c1 := snd (run_queries [] [tree_run1] [(0%nat, 2%nat)]) in
  fst (run_queries c1 [tree_run2] [(0%nat, 2%nat)]) = [3] /\
  fst (run_queries [] [tree_run2] [(0%nat, 2%nat)]) = [2].
Proof. exact stale_cache_witness. Qed.

(* ---------------------------------------------------------------------------------------------------------- *)
(* non-vacuity: d = 2, lmin 1, lmax 2, box [0,1] x [-1,1], version 6, boundary off, two refinement steps *)
Definition q (n : Z) (d : positive) : Qc := Q2Qc (n # d).
Definition ex_o : dw_opts :=
  mkOpts 6 false false (Q2Qc (9 # 10)) (rebalance_dec_exact (Q2Qc (1 # 10))) (v3_dec_exact 2).
Definition ex_a := [q 0 1; q (-1) 1].
Definition ex_b := [q 1 1; q 1 1].
Definition ex_steps := [ [[q 0 1; q 1 1; q 0 1; q 0 1]; [q 0 1; q 0 1; q 0 1; q 0 1]];
                         [[q 1 2; q 0 1; q 1 4; q 0 1; q 0 1]; [q 0 1; q 0 1; q 1 2; q 1 2]] ].
Definition ex_run : option dw_state :=
  match dw_init 2 1 2 ex_a ex_b with Some st0 => dw_run ex_o ex_steps st0 | None => None end.

(* the point (1/4, 0) lies in the component grids (3,1), (2,1), (2,2) with coefficients 1, -1, 1 *)
Example C03_nonvacuous :
  exists st, ex_run = Some st /\
    In ([2; 1], -1) (combi_scheme_adaptive (st_scheme st)) /\ dw_in_comp ex_o st [q 1 4; q 0 1] [2; 1] = true /\
    dw_coeff_sum ex_o st [q 1 4; q 0 1] = 1 /\
    map (fun kv => dw_in_comp ex_o st [q 1 4; q 0 1] (fst kv)) (combi_scheme_adaptive (st_scheme st))
      = [true; true; true; false; false] /\
    map (fun x => this x) (dw_P ex_o st 1 2) = [0%Q; 1 # 2] /\
    map (fun x => this x) (dw_P ex_o st 1 3) = [-1 # 2; 0%Q; 1 # 4; 1 # 2; 3 # 4].
Proof.
  destruct ex_run as [st|] eqn:E; [|vm_compute in E; discriminate].
  exists st. split; [reflexivity|].
  assert (H : option_map (fun st => (combi_scheme_adaptive (st_scheme st), dw_in_comp ex_o st [q 1 4; q 0 1] [2; 1],
                 map (fun kv => dw_in_comp ex_o st [q 1 4; q 0 1] (fst kv)) (combi_scheme_adaptive (st_scheme st)),
                 map (fun x => this x) (dw_P ex_o st 1 2), map (fun x => this x) (dw_P ex_o st 1 3))) ex_run
              = Some ([([3; 1], 1); ([2; 1], -1); ([2; 2], 1); ([1; 2], -1); ([1; 3], 1)], true,
                      [true; true; true; false; false], [0%Q; 1 # 2], [-1 # 2; 0%Q; 1 # 4; 1 # 2; 3 # 4]))
    by (vm_compute; reflexivity).
  rewrite E in H. simpl in H. injection H as H1 H2 H3 H4 H5.
  assert (Hin : In ([2; 1], -1) (combi_scheme_adaptive (st_scheme st))) by (rewrite H1; right; left; reflexivity).
  split; [exact Hin|]. split; [exact H2|]. split; [|split; [exact H3 | split; assumption]].
  unfold ex_run in E. destruct (dw_init 2 1 2 ex_a ex_b) as [st0|] eqn:E0; [|discriminate].
  eapply (C03_point_coeff_sum_one_reachable_norebalance 1 1 2 ex_a ex_b ex_o ex_steps st0 st);
    [repeat constructor | reflexivity | exact E0 | exact E | exact Hin | exact H2].
Qed.

(* non-vacuity with rebalancing: three refinements at the right end of dimension 0 rotate the tree (the root moves from 1/2
   to 3/4); the point (15/16, 1/2) of the combined grid lies in the component grid (3,1) *)
Definition ex_or : dw_opts :=
  mkOpts 6 true true (Q2Qc (9 # 10)) (rebalance_dec_exact (Q2Qc (1 # 10))) (v3_dec_exact 2).
Definition ex_a2 := [q 0 1; q 0 1].
Definition ex_steps2 := [ [[q 0 1; q 0 1; q 0 1; q 1 1]; [q 0 1; q 0 1; q 0 1; q 0 1]];
                          [[q 0 1; q 0 1; q 0 1; q 0 1; q 1 1]; [q 0 1; q 0 1; q 0 1; q 0 1]];
                          [[q 0 1; q 0 1; q 0 1; q 0 1; q 0 1; q 1 1]; [q 0 1; q 0 1; q 0 1; q 0 1]] ].
Definition ex_run2 : option dw_state :=
  match dw_init 2 1 2 ex_a2 ex_b with Some st0 => dw_run ex_or ex_steps2 st0 | None => None end.

Example C03_nonvacuous_rebalanced :
  exists st, ex_run2 = Some st /\
    map (fun iv => (this (i_end iv), i_l1 iv)) (nth 0 (st_trees st) [])
      = [(1 # 4, 3); (1 # 2, 2); (3 # 4, 1); (7 # 8, 3); (15 # 16, 2); (31 # 32, 3); (1%Q, 0)] /\
    In ([3; 1], 1) (combi_scheme_adaptive (st_scheme st)) /\ dw_in_comp ex_or st [q 15 16; q 1 2] [3; 1] = true /\
    dw_coeff_sum ex_or st [q 15 16; q 1 2] = 1 /\
    (forall f : list Qc -> Qc, dw_combi_interp ex_or st ex_a2 ex_b f [q 15 16; q 1 2] = f [q 15 16; q 1 2]).
Proof.
  destruct ex_run2 as [st|] eqn:E; [|vm_compute in E; discriminate].
  exists st. split; [reflexivity|].
  assert (H : option_map (fun st => (map (fun iv => (this (i_end iv), i_l1 iv)) (nth 0 (st_trees st) []),
                                     combi_scheme_adaptive (st_scheme st), dw_in_comp ex_or st [q 15 16; q 1 2] [3; 1])) ex_run2
              = Some ([(1 # 4, 3); (1 # 2, 2); (3 # 4, 1); (7 # 8, 3); (15 # 16, 2); (31 # 32, 3); (1%Q, 0)],
                      [([1; 2], 1); ([1; 1], -1); ([3; 1], 1)], true))
    by (vm_compute; reflexivity).
  rewrite E in H. simpl in H. injection H as H1 H2 H3.
  assert (Hin : In ([3; 1], 1) (combi_scheme_adaptive (st_scheme st))) by (rewrite H2; right; right; left; reflexivity).
  split; [exact H1|]. split; [exact Hin|]. split; [exact H3|].
  unfold ex_run2 in E. destruct (dw_init 2 1 2 ex_a2 ex_b) as [st0|] eqn:E0; [|discriminate].
  split.
  - eapply (C03_point_coeff_sum_one_reachable 1 1 2 ex_a2 ex_b ex_or ex_steps2 st0 st);
      [repeat constructor | exact E0 | exact E | exact Hin | exact H3].
  - intro f. eapply (C03_nodal_exact_reachable 1 1 2 ex_a2 ex_b ex_or ex_steps2 st0 st);
      [repeat constructor | exact E0 | exact E | exact Hin | exact H3].
Qed.

(* ---------------------------------------------------------------------------------------------------------- *)
(* the interpolation model pinned to its mathematical definition, for EVERY grid (phase 3, item 2).
   interp1 - the 1D building block of StdCombi.interpN, hence of dw_comp_interp / dw_combi_interp which C03_nodal_exact speaks about
   and which the harness compares with sa(points) - IS the piecewise-linear interpolant: on every cell [u, v] of a strictly sorted
   grid it is the chord through (u, g u) and (v, g v) *)
Theorem C03_interp1_is_piecewise_linear : forall g pre u v post x,
  StronglySorted Qclt (pre ++ u :: v :: post) -> (u <= x)%Qc -> (x <= v)%Qc ->
  StdCombi.interp1 (pre ++ u :: v :: post) g x = (g u + (x - u) / (v - u) * (g v - g u))%Qc.
Proof. exact interp1_piecewise_linear. Qed.
Print Assumptions C03_interp1_is_piecewise_linear.

(* ... and the component interpolant is the TENSOR PRODUCT of these 1D interpolation functionals on the stripes of the
   component (the functionals Proofs/NodalExact.v works with): every state, component, function and point *)
Theorem C03_component_interpolant_is_tensor_of_1d : forall o st a b lv f x, length x = length lv ->
  dw_comp_interp o st a b lv f x
  = appT Qc (zipE Qc (dw_Efam o st 0 x) lv) (StdCombi.masked (o_boundary o) a b f).
Proof. exact dw_comp_interp_is_tensor. Qed.
Print Assumptions C03_component_interpolant_is_tensor_of_1d.

(* non-vacuity: on the grid 0 < 1/4 < 1/2 < 1 the interpolant of g at 3/8 is the chord value between 1/4 and 1/2 *)
Example C03_interp1_nonvacuous : forall g : Qc -> Qc,
  StdCombi.interp1 [q 0 1; q 1 4; q 1 2; q 1 1] g (q 3 8) = (g (q 1 4) + (q 3 8 - q 1 4) / (q 1 2 - q 1 4) * (g (q 1 2) - g (q 1 4)))%Qc.
Proof.
  intro g. apply (C03_interp1_is_piecewise_linear g [q 0 1] (q 1 4) (q 1 2) [q 1 1] (q 3 8)).
  - repeat constructor; vm_compute; reflexivity.
  - vm_compute. discriminate.
  - vm_compute. discriminate.
Qed.

(* ---------------------------------------------------------------------------------------------------------- *)
(* the float-decided rounding of coarsening version 3 (phase 3, item 3): `sv / dim - int(sv / dim) > d / dim` evaluated in IEEE
   binary64 with Coq's primitive floats (v3_dec_float; v3_int_ok certifies in binary64 that int() of the quotient is the integer
   quotient).  For dim <= 6 and 0 <= sv <= 64 the decision function of the model options IS this evaluation, from a table computed
   by Coq, whatever the harness supplies beyond the bound.  _bounded: finite domain *)
Theorem C03_version3_rounding_is_binary64_bounded : forall version rebal boundary margin sf dim exc_rb exc_v3 (sv d : nat),
  (1 <= dim <= V3_DIM_BOUND)%nat -> (sv <= V3_SV_BOUND)%nat -> (d < dim)%nat ->
  (forall t, In t exc_v3 -> (Z.of_nat V3_SV_BOUND < fst t)%Z) ->
  o_v3 (mk_opts version rebal boundary margin sf dim exc_rb exc_v3) (Z.of_nat sv) d = v3_dec_float dim (Z.of_nat sv) d /\
  v3_int_ok dim (Z.of_nat sv) = true.
Proof. exact mk_opts_v3_test_is_binary64. Qed.
Print Assumptions C03_version3_rounding_is_binary64_bounded.

(* non-vacuity: the tables are not all empty / the float test is a real test: dim 3, sv = 5, d = 1: 5/3 - 1 = 0.666.. > 1/3 *)
Example C03_v3_float_nonvacuous : v3_dec_float 3 5 1 = true /\ v3_dec_float 3 4 1 = false /\ v3_int_ok 3 5 = true.
Proof. vm_compute. repeat split; reflexivity. Qed.
