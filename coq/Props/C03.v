(* C03 — Dimension-wise refinement always yields a valid nested combination.
   Property theorems only; each is closed by `exact` of a lemma from Proofs/.

   Proved for ALL dimensions, start levels, versions 2/3/6/7/8 (any outcome of the version-3 float rounding), boundary
   on/off, margins, benefit assignments, histories and ALL option settings (rebalancing on or off, any safety factor, any
   outcome of the binary64 rebalancing test):
   * the stripes depend only on (dimension, component level), grow monotonically with the level (for EVERY state, no
     invariant needed), are strictly sorted and contain both end points in EVERY reachable state
     (C03_stripes_sorted_with_endpoints_reachable; the C06 invariant survives rebalancing: Proofs/RebalanceSeg.v);
   * the component grids are the tensor products of these stripes;
   * the scheme invariant of C01 survives every step, hence by the abstract combination lemma (Proofs/CombiAbstract.v) every
     point of the combined grid has component-grid coefficients summing to exactly 1 in EVERY reachable state
     (C03_point_coeff_sum_one_reachable);
   * the combined interpolant (Model/DimWiseInterp.v: scipy interpn(linear) on the stripes = dimension-by-dimension
     piecewise-linear interpolation, zero boundary values when boundary = False) reproduces an ARBITRARY function exactly at
     every point of the combined grid in EVERY reachable state (C03_nodal_exact_reachable; Proofs/NodalExact.v instantiated
     with the stripes);
   * the same for every state reached from an installed valid state (the states the harness constructs directly).
   The earlier statements (_reachable_norebalance, and _reachable_checked with the verified checker as hypothesis) are kept;
   they are now special cases.  C03_every_history needs no definedness hypothesis: the run exists for every history
   (selection loop, rebalancing asserts/fuel and the raise_lmax loop are proved total, Proofs/DimWiseTotal.v). *)
From Coq Require Import ZArith List Bool QArith Qcanon Sorted.
From SG Require Import Base.QcUtil Model.CombiScheme Model.RefTree Model.DimWise Model.DimWiseInterp
     Proofs.SchemeInv Proofs.CombiAbstract Proofs.RefTreeInv Proofs.RefTreeCheck Proofs.DimWiseInv
     Proofs.DimWiseStripes Proofs.DimWiseCombi Proofs.C03Main Proofs.DimWiseNodal Proofs.DimWiseFuel Proofs.C03Any Proofs.DimWiseCacheP Proofs.InterpSpec Proofs.NodalExact Proofs.DimWiseFloatP.
From SG Require Model.StdCombi.
From SG Require Import Model.DimWiseInstall Model.DimWiseCache Model.DimWiseFloat Model.DimWiseWire.
Import ListNotations.
Open Scope Z_scope.

(* stripes: strictly sorted, first point a_d, last point b_d (both of level 0) *)
Theorem C03_stripes_sorted_with_endpoints : forall a b o st d l t s,
  TilesOK a b st -> nth_error (st_trees st) d = Some t -> stripe_dim o st d l = Some s ->
  StronglySorted Qclt (map fst s) /\ exists r, s = (nth d a 0%Qc, 0) :: r ++ [(nth d b 0%Qc, 0)].
Proof. exact dw_stripes_sorted_with_endpoints. Qed.
Print Assumptions C03_stripes_sorted_with_endpoints.

(* the hypothesis TilesOK holds in every state satisfying the C06 invariant, and in every state accepted by the checker *)
Theorem C03_tiles_from_invariant : forall a b st, DwInv a b st -> TilesOK a b st.
Proof. exact DwInv_TilesOK. Qed.
Theorem C03_tiles_from_checker : forall a b st,
  (forall d t, nth_error (st_trees st) d = Some t -> tree_ok (nth d a 0%Qc) (nth d b 0%Qc) (nth d (st_lmax st) 0) t = true) ->
  TilesOK a b st.
Proof. exact tree_ok_TilesOK. Qed.

(* the stripe of dimension d depends only on d and component d of the level vector *)
Theorem C03_stripes_depend_only_on_dim_and_level : forall o st lv ss,
  get_point_coord_for_each_dim o st lv = Some ss -> length lv = st_dim st ->
  forall d s, nth_error ss d = Some s -> stripe_dim o st d (nth d lv 0) = Some s.
Proof. exact stripes_depend_only_on_dim_and_level. Qed.
Print Assumptions C03_stripes_depend_only_on_dim_and_level.

(* monotone in the level, in EVERY state (reachable or not), every modelled version *)
Theorem C03_stripes_monotone : forall o st d l l' s1,
  stripe_dim o st d l = Some s1 -> l <= l' -> exists s2, stripe_dim o st d l' = Some s2 /\ incl s1 s2.
Proof. exact dw_stripes_monotone. Qed.
Print Assumptions C03_stripes_monotone.

(* the while loops of versions 6/7/8 terminate within the model's fuel: in every reachable state (any options, rebalancing
   included) all stripes are defined for versions 2, 3, 6, 7; for version 8 whenever every maximum level is >= 2 *)
Theorem C03_stripes_defined_reachable : forall n lmin lmax a b o steps st0 st d l,
  Forall2 (fun x y => (x < y)%Qc) a b ->
  dw_init (S n) lmin lmax a b = Some st0 -> dw_run o steps st0 = Some st ->
  (o_version o = 2 \/ o_version o = 3 \/ o_version o = 6 \/ o_version o = 7) ->
  (d < st_dim st)%nat -> exists s, stripe_dim o st d l = Some s.
Proof. exact dw_reachable_stripes_defined. Qed.
Print Assumptions C03_stripes_defined_reachable.

Theorem C03_stripes_defined : forall o st d l t,
  nth_error (st_trees st) d = Some t -> t <> [] ->
  (o_version o = 2 \/ o_version o = 3 \/ o_version o = 6 \/ o_version o = 7 \/
   (o_version o = 8 /\ forall i, (i < length t)%nat -> 2 <= get_max_level t i)) ->
  exists s, stripe_dim o st d l = Some s.
Proof. exact stripe_dim_defined. Qed.

(* component grid = tensor product of the per-dimension point sets (end points stripped when boundary = False) *)
Theorem C03_component_points_are_tensor : forall o st lv pts, get_points_component_grid o st lv = Some pts ->
  length lv = st_dim st -> forall x, In x pts <-> dw_in_comp o st x lv = true.
Proof. exact component_points_are_tensor. Qed.
Print Assumptions C03_component_points_are_tensor.

(* the C01 invariant of the scheme survives every history, with or without rebalancing *)
Theorem C03_scheme_inv_reachable : forall n lmin lmax a b o steps st0 st,
  dw_init (S n) lmin lmax a b = Some st0 -> dw_run o steps st0 = Some st -> Inv (st_scheme st).
Proof. exact dw_reachable_scheme_inv. Qed.
Print Assumptions C03_scheme_inv_reachable.

(* coefficient sum 1 at every point of the combined grid *)
Theorem C03_point_coeff_sum_one : forall a b o st x l0 c0,
  Inv (st_scheme st) -> TilesOK a b st ->
  In (l0, c0) (combi_scheme_adaptive (st_scheme st)) -> dw_in_comp o st x l0 = true ->
  dw_coeff_sum o st x = 1.
Proof. exact dw_point_coeff_sum_one. Qed.
Print Assumptions C03_point_coeff_sum_one.

Theorem C03_point_coeff_sum_one_reachable_norebalance : forall n lmin lmax a b o steps st0 st x l0 c0,
  Forall2 (fun p q => (p < q)%Qc) a b -> o_rebal o = false ->
  dw_init (S n) lmin lmax a b = Some st0 -> dw_run o steps st0 = Some st ->
  In (l0, c0) (combi_scheme_adaptive (st_scheme st)) -> dw_in_comp o st x l0 = true ->
  dw_coeff_sum o st x = 1.
Proof. exact dw_reachable_point_coeff_sum_one. Qed.
Print Assumptions C03_point_coeff_sum_one_reachable_norebalance.

Theorem C03_point_coeff_sum_one_reachable_checked : forall n lmin lmax a b o steps st0 st x l0 c0,
  dw_init (S n) lmin lmax a b = Some st0 -> dw_run o steps st0 = Some st ->
  (forall d t, nth_error (st_trees st) d = Some t -> tree_ok (nth d a 0%Qc) (nth d b 0%Qc) (nth d (st_lmax st) 0) t = true) ->
  In (l0, c0) (combi_scheme_adaptive (st_scheme st)) -> dw_in_comp o st x l0 = true ->
  dw_coeff_sum o st x = 1.
Proof. exact dw_checked_point_coeff_sum_one. Qed.
Print Assumptions C03_point_coeff_sum_one_reachable_checked.

(* nodal exactness: the combined interpolant of an ARBITRARY function f equals f at every point of the combined grid *)
Theorem C03_nodal_exact : forall a b o st (f : list Qc -> Qc) x l0 c0,
  Inv (st_scheme st) -> TilesOK a b st ->
  In (l0, c0) (combi_scheme_adaptive (st_scheme st)) -> dw_in_comp o st x l0 = true ->
  dw_combi_interp o st a b f x = f x.
Proof. exact dw_nodal_exact. Qed.
Print Assumptions C03_nodal_exact.

Theorem C03_nodal_exact_reachable_norebalance : forall n lmin lmax a b o steps st0 st (f : list Qc -> Qc) x l0 c0,
  Forall2 (fun p q => (p < q)%Qc) a b -> o_rebal o = false ->
  dw_init (S n) lmin lmax a b = Some st0 -> dw_run o steps st0 = Some st ->
  In (l0, c0) (combi_scheme_adaptive (st_scheme st)) -> dw_in_comp o st x l0 = true ->
  dw_combi_interp o st a b f x = f x.
Proof. exact dw_reachable_nodal_exact. Qed.
Print Assumptions C03_nodal_exact_reachable_norebalance.

Theorem C03_nodal_exact_reachable_checked : forall n lmin lmax a b o steps st0 st (f : list Qc -> Qc) x l0 c0,
  dw_init (S n) lmin lmax a b = Some st0 -> dw_run o steps st0 = Some st ->
  (forall d t, nth_error (st_trees st) d = Some t -> tree_ok (nth d a 0%Qc) (nth d b 0%Qc) (nth d (st_lmax st) 0) t = true) ->
  In (l0, c0) (combi_scheme_adaptive (st_scheme st)) -> dw_in_comp o st x l0 = true ->
  dw_combi_interp o st a b f x = f x.
Proof. exact dw_checked_nodal_exact. Qed.
Print Assumptions C03_nodal_exact_reachable_checked.

(* ---------------------------------------------------------------------------------------------------------- *)
(* EVERY reachable state, every option setting (rebalancing included): no checker hypothesis any more *)
Theorem C03_stripes_sorted_with_endpoints_reachable : forall n lmin lmax a b o steps st0 st d l t s,
  Forall2 (fun p q => (p < q)%Qc) a b ->
  dw_init (S n) lmin lmax a b = Some st0 -> dw_run o steps st0 = Some st ->
  nth_error (st_trees st) d = Some t -> stripe_dim o st d l = Some s ->
  StronglySorted Qclt (map fst s) /\ exists r, s = (nth d a 0%Qc, 0) :: r ++ [(nth d b 0%Qc, 0)].
Proof. exact dw_any_stripes_sorted_with_endpoints. Qed.
Print Assumptions C03_stripes_sorted_with_endpoints_reachable.

Theorem C03_point_coeff_sum_one_reachable : forall n lmin lmax a b o steps st0 st x l0 c0,
  Forall2 (fun p q => (p < q)%Qc) a b ->
  dw_init (S n) lmin lmax a b = Some st0 -> dw_run o steps st0 = Some st ->
  In (l0, c0) (combi_scheme_adaptive (st_scheme st)) -> dw_in_comp o st x l0 = true ->
  dw_coeff_sum o st x = 1.
Proof. exact dw_any_point_coeff_sum_one. Qed.
Print Assumptions C03_point_coeff_sum_one_reachable.

Theorem C03_nodal_exact_reachable : forall n lmin lmax a b o steps st0 st (f : list Qc -> Qc) x l0 c0,
  Forall2 (fun p q => (p < q)%Qc) a b ->
  dw_init (S n) lmin lmax a b = Some st0 -> dw_run o steps st0 = Some st ->
  In (l0, c0) (combi_scheme_adaptive (st_scheme st)) -> dw_in_comp o st x l0 = true ->
  dw_combi_interp o st a b f x = f x.
Proof. exact dw_any_nodal_exact. Qed.
Print Assumptions C03_nodal_exact_reachable.

(* every state reached from an installed valid state (what the harness constructs directly, Model/DimWiseInstall.v) *)
Theorem C03_point_coeff_sum_one_installed : forall n lmin lmax a b o rb trees steps st0 st1 st x l0 c0,
  Forall2 (fun p q => (p < q)%Qc) a b ->
  dw_init (S n) lmin lmax a b = Some st0 ->
  (forall d t, nth_error trees d = Some t -> Seg (nth d a 0%Qc) (nth d b 0%Qc) 0 0 t) ->
  dw_install o rb trees st0 = Some st1 -> dw_run o steps st1 = Some st ->
  In (l0, c0) (combi_scheme_adaptive (st_scheme st)) -> dw_in_comp o st x l0 = true ->
  dw_coeff_sum o st x = 1.
Proof. exact dw_installed_point_coeff_sum_one. Qed.

Theorem C03_nodal_exact_installed : forall n lmin lmax a b o rb trees steps st0 st1 st (f : list Qc -> Qc) x l0 c0,
  Forall2 (fun p q => (p < q)%Qc) a b ->
  dw_init (S n) lmin lmax a b = Some st0 ->
  (forall d t, nth_error trees d = Some t -> Seg (nth d a 0%Qc) (nth d b 0%Qc) 0 0 t) ->
  dw_install o rb trees st0 = Some st1 -> dw_run o steps st1 = Some st ->
  In (l0, c0) (combi_scheme_adaptive (st_scheme st)) -> dw_in_comp o st x l0 = true ->
  dw_combi_interp o st a b f x = f x.
Proof. exact dw_installed_nodal_exact. Qed.
Print Assumptions C03_nodal_exact_installed.

(* no definedness hypothesis: for EVERY history (every dimension >= 1, start configuration accepted by initialize_refinement,
   version, option setting, sequence of benefit assignments) the run exists, and in its final state the trees tile the
   domain, every point of the combined grid has coefficient sum 1 and the combined interpolant is nodally exact *)
Theorem C03_every_history : forall n lmin lmax a b o steps st0,
  Forall2 (fun p q => (p < q)%Qc) a b -> dw_init (S n) lmin lmax a b = Some st0 ->
  exists st, dw_run o steps st0 = Some st /\ DwInv a b st /\ TilesOK a b st /\
    (forall x l0 c0, In (l0, c0) (combi_scheme_adaptive (st_scheme st)) -> dw_in_comp o st x l0 = true ->
       dw_coeff_sum o st x = 1) /\
    (forall (f : list Qc -> Qc) x l0 c0, In (l0, c0) (combi_scheme_adaptive (st_scheme st)) -> dw_in_comp o st x l0 = true ->
       dw_combi_interp o st a b f x = f x).
Proof. exact dw_every_history. Qed.
Print Assumptions C03_every_history.

(* ---------------------------------------------------------------------------------------------------------- *)
(* the per-step cache max_level_dict (Model/DimWiseCache.v): every sequence of get_max_level queries between two resets returns
   the uncached values, provided the cache was emptied when the trees changed (refinement_postprocessing, and - since the
   repair of the re-run defect - initialize_refinement) *)
Theorem C03_max_level_cache_transparent : forall trees qs c, consistent c trees ->
  fst (run_queries c trees qs) = map (fun q => get_max_level (nth (fst q) trees []) (snd q)) qs /\
  consistent (snd (run_queries c trees qs)) trees.
Proof. exact queries_transparent. Qed.
Print Assumptions C03_max_level_cache_transparent.

(* the defect the lessons sweep found (finding C03-rerun-stale-max-level-cache, repaired by /repo 143094d): a cache filled in a
   first run answers a query on the rebuilt trees of a further run on the same object with the stale maximum level (3 instead
   of 2 at position 2 of dimension 0), so the 1D point sets depended on the previous run *)
Theorem C03_rerun_without_cache_reset_stale_refuted :
  let c1 := snd (run_queries [] [tree_run1] [(0%nat, 2%nat)]) in
  fst (run_queries c1 [tree_run2] [(0%nat, 2%nat)]) = [3] /\
  fst (run_queries [] [tree_run2] [(0%nat, 2%nat)]) = [2].
Proof. exact stale_cache_witness. Qed.

(* ---------------------------------------------------------------------------------------------------------- *)
(* non-vacuity: d = 2, lmin 1, lmax 2, box [0,1] x [-1,1], version 6, boundary off, two refinement steps *)
Definition q (n : Z) (d : positive) : Qc := Q2Qc (n # d).
Definition ex_o : dw_opts :=
  mkOpts 6 false false (Q2Qc (9 # 10)) (rebalance_dec_exact (Q2Qc (1 # 10))) (v3_dec_exact 2).
Definition ex_a := [q 0 1; q (-1) 1].
Definition ex_b := [q 1 1; q 1 1].
Definition ex_steps := [ [[q 0 1; q 1 1; q 0 1; q 0 1]; [q 0 1; q 0 1; q 0 1; q 0 1]];
                         [[q 1 2; q 0 1; q 1 4; q 0 1; q 0 1]; [q 0 1; q 0 1; q 1 2; q 1 2]] ].
Definition ex_run : option dw_state :=
  match dw_init 2 1 2 ex_a ex_b with Some st0 => dw_run ex_o ex_steps st0 | None => None end.

(* the point (1/4, 0) lies in the component grids (3,1), (2,1), (2,2) with coefficients 1, -1, 1 *)
Example C03_nonvacuous :
  exists st, ex_run = Some st /\
    In ([2; 1], -1) (combi_scheme_adaptive (st_scheme st)) /\ dw_in_comp ex_o st [q 1 4; q 0 1] [2; 1] = true /\
    dw_coeff_sum ex_o st [q 1 4; q 0 1] = 1 /\
    map (fun kv => dw_in_comp ex_o st [q 1 4; q 0 1] (fst kv)) (combi_scheme_adaptive (st_scheme st))
      = [true; true; true; false; false] /\
    map (fun x => this x) (dw_P ex_o st 1 2) = [0%Q; 1 # 2] /\
    map (fun x => this x) (dw_P ex_o st 1 3) = [-1 # 2; 0%Q; 1 # 4; 1 # 2; 3 # 4].
Proof.
  destruct ex_run as [st|] eqn:E; [|vm_compute in E; discriminate].
  exists st. split; [reflexivity|].
  assert (H : option_map (fun st => (combi_scheme_adaptive (st_scheme st), dw_in_comp ex_o st [q 1 4; q 0 1] [2; 1],
                 map (fun kv => dw_in_comp ex_o st [q 1 4; q 0 1] (fst kv)) (combi_scheme_adaptive (st_scheme st)),
                 map (fun x => this x) (dw_P ex_o st 1 2), map (fun x => this x) (dw_P ex_o st 1 3))) ex_run
              = Some ([([3; 1], 1); ([2; 1], -1); ([2; 2], 1); ([1; 2], -1); ([1; 3], 1)], true,
                      [true; true; true; false; false], [0%Q; 1 # 2], [-1 # 2; 0%Q; 1 # 4; 1 # 2; 3 # 4]))
    by (vm_compute; reflexivity).
  rewrite E in H. simpl in H. injection H as H1 H2 H3 H4 H5.
  assert (Hin : In ([2; 1], -1) (combi_scheme_adaptive (st_scheme st))) by (rewrite H1; right; left; reflexivity).
  split; [exact Hin|]. split; [exact H2|]. split; [|split; [exact H3 | split; assumption]].
  unfold ex_run in E. destruct (dw_init 2 1 2 ex_a ex_b) as [st0|] eqn:E0; [|discriminate].
  eapply (C03_point_coeff_sum_one_reachable_norebalance 1 1 2 ex_a ex_b ex_o ex_steps st0 st);
    [repeat constructor | reflexivity | exact E0 | exact E | exact Hin | exact H2].
Qed.

(* non-vacuity with rebalancing: three refinements at the right end of dimension 0 rotate the tree (the root moves from 1/2
   to 3/4); the point (15/16, 1/2) of the combined grid lies in the component grid (3,1) *)
Definition ex_or : dw_opts :=
  mkOpts 6 true true (Q2Qc (9 # 10)) (rebalance_dec_exact (Q2Qc (1 # 10))) (v3_dec_exact 2).
Definition ex_a2 := [q 0 1; q 0 1].
Definition ex_steps2 := [ [[q 0 1; q 0 1; q 0 1; q 1 1]; [q 0 1; q 0 1; q 0 1; q 0 1]];
                          [[q 0 1; q 0 1; q 0 1; q 0 1; q 1 1]; [q 0 1; q 0 1; q 0 1; q 0 1]];
                          [[q 0 1; q 0 1; q 0 1; q 0 1; q 0 1; q 1 1]; [q 0 1; q 0 1; q 0 1; q 0 1]] ].
Definition ex_run2 : option dw_state :=
  match dw_init 2 1 2 ex_a2 ex_b with Some st0 => dw_run ex_or ex_steps2 st0 | None => None end.

Example C03_nonvacuous_rebalanced :
  exists st, ex_run2 = Some st /\
    map (fun iv => (this (i_end iv), i_l1 iv)) (nth 0 (st_trees st) [])
      = [(1 # 4, 3); (1 # 2, 2); (3 # 4, 1); (7 # 8, 3); (15 # 16, 2); (31 # 32, 3); (1%Q, 0)] /\
    In ([3; 1], 1) (combi_scheme_adaptive (st_scheme st)) /\ dw_in_comp ex_or st [q 15 16; q 1 2] [3; 1] = true /\
    dw_coeff_sum ex_or st [q 15 16; q 1 2] = 1 /\
    (forall f : list Qc -> Qc, dw_combi_interp ex_or st ex_a2 ex_b f [q 15 16; q 1 2] = f [q 15 16; q 1 2]).
Proof.
  destruct ex_run2 as [st|] eqn:E; [|vm_compute in E; discriminate].
  exists st. split; [reflexivity|].
  assert (H : option_map (fun st => (map (fun iv => (this (i_end iv), i_l1 iv)) (nth 0 (st_trees st) []),
                                     combi_scheme_adaptive (st_scheme st), dw_in_comp ex_or st [q 15 16; q 1 2] [3; 1])) ex_run2
              = Some ([(1 # 4, 3); (1 # 2, 2); (3 # 4, 1); (7 # 8, 3); (15 # 16, 2); (31 # 32, 3); (1%Q, 0)],
                      [([1; 2], 1); ([1; 1], -1); ([3; 1], 1)], true))
    by (vm_compute; reflexivity).
  rewrite E in H. simpl in H. injection H as H1 H2 H3.
  assert (Hin : In ([3; 1], 1) (combi_scheme_adaptive (st_scheme st))) by (rewrite H2; right; right; left; reflexivity).
  split; [exact H1|]. split; [exact Hin|]. split; [exact H3|].
  unfold ex_run2 in E. destruct (dw_init 2 1 2 ex_a2 ex_b) as [st0|] eqn:E0; [|discriminate].
  split.
  - eapply (C03_point_coeff_sum_one_reachable 1 1 2 ex_a2 ex_b ex_or ex_steps2 st0 st);
      [repeat constructor | exact E0 | exact E | exact Hin | exact H3].
  - intro f. eapply (C03_nodal_exact_reachable 1 1 2 ex_a2 ex_b ex_or ex_steps2 st0 st);
      [repeat constructor | exact E0 | exact E | exact Hin | exact H3].
Qed.

(* ---------------------------------------------------------------------------------------------------------- *)
(* the interpolation model pinned to its mathematical definition, for EVERY grid (phase 3, item 2).
   interp1 - the 1D building block of StdCombi.interpN, hence of dw_comp_interp / dw_combi_interp which C03_nodal_exact speaks about
   and which the harness compares with sa(points) - IS the piecewise-linear interpolant: on every cell [u, v] of a strictly sorted
   grid it is the chord through (u, g u) and (v, g v) *)
Theorem C03_interp1_is_piecewise_linear : forall g pre u v post x,
  StronglySorted Qclt (pre ++ u :: v :: post) -> (u <= x)%Qc -> (x <= v)%Qc ->
  StdCombi.interp1 (pre ++ u :: v :: post) g x = (g u + (x - u) / (v - u) * (g v - g u))%Qc.
Proof. exact interp1_piecewise_linear. Qed.
Print Assumptions C03_interp1_is_piecewise_linear.

(* ... and the component interpolant is the TENSOR PRODUCT of these 1D interpolation functionals on the stripes of the
   component (the functionals Proofs/NodalExact.v works with): every state, component, function and point *)
Theorem C03_component_interpolant_is_tensor_of_1d : forall o st a b lv f x, length x = length lv ->
  dw_comp_interp o st a b lv f x
  = appT Qc (zipE Qc (dw_Efam o st 0 x) lv) (StdCombi.masked (o_boundary o) a b f).
Proof. exact dw_comp_interp_is_tensor. Qed.
Print Assumptions C03_component_interpolant_is_tensor_of_1d.

(* non-vacuity: on the grid 0 < 1/4 < 1/2 < 1 the interpolant of g at 3/8 is the chord value between 1/4 and 1/2 *)
Example C03_interp1_nonvacuous : forall g : Qc -> Qc,
  StdCombi.interp1 [q 0 1; q 1 4; q 1 2; q 1 1] g (q 3 8) = (g (q 1 4) + (q 3 8 - q 1 4) / (q 1 2 - q 1 4) * (g (q 1 2) - g (q 1 4)))%Qc.
Proof.
  intro g. apply (C03_interp1_is_piecewise_linear g [q 0 1] (q 1 4) (q 1 2) [q 1 1] (q 3 8)).
  - repeat constructor; vm_compute; reflexivity.
  - vm_compute. discriminate.
  - vm_compute. discriminate.
Qed.

(* ---------------------------------------------------------------------------------------------------------- *)
(* the float-decided rounding of coarsening version 3 (phase 3, item 3): `sv / dim - int(sv / dim) > d / dim` evaluated in IEEE
   binary64 with Coq's primitive floats (v3_dec_float; v3_int_ok certifies in binary64 that int() of the quotient is the integer
   quotient).  For dim <= 6 and 0 <= sv <= 64 the decision function of the model options IS this evaluation, from a table computed
   by Coq, whatever the harness supplies beyond the bound.  _bounded: finite domain *)
Theorem C03_version3_rounding_is_binary64_bounded : forall version rebal boundary margin sf dim exc_rb exc_v3 (sv d : nat),
  (1 <= dim <= V3_DIM_BOUND)%nat -> (sv <= V3_SV_BOUND)%nat -> (d < dim)%nat ->
  (forall t, In t exc_v3 -> (Z.of_nat V3_SV_BOUND < fst t)%Z) ->
  o_v3 (mk_opts version rebal boundary margin sf dim exc_rb exc_v3) (Z.of_nat sv) d = v3_dec_float dim (Z.of_nat sv) d /\
  v3_int_ok dim (Z.of_nat sv) = true.
Proof. exact mk_opts_v3_test_is_binary64. Qed.
Print Assumptions C03_version3_rounding_is_binary64_bounded.

(* non-vacuity: the tables are not all empty / the float test is a real test: dim 3, sv = 5, d = 1: 5/3 - 1 = 0.666.. > 1/3 *)
Example C03_v3_float_nonvacuous : v3_dec_float 3 5 1 = true /\ v3_dec_float 3 4 1 = false /\ v3_int_ok 3 5 = true.
Proof. vm_compute. repeat split; reflexivity. Qed.

(* ---------------------------------------------------------------------------------------------------------- *)
(* PHASE 7.  The FULL combination-validity statement, for EVERY state the C06 invariant admits (any dimension, any tree shapes,
   any option setting), with no `_bounded` restriction (Proofs/C03Full.v):
     (i)   the coefficients sum to 1;
     (ii)  every component has a non-zero coefficient, lies in the index set and has the right length and levels >= lmin;
     (iii) the index set is downward closed above lmin;
     (iv)  inclusion-exclusion on every hierarchical subspace l: the coefficients of the components dominating l sum to 1 if l is
           in the index set and to 0 otherwise;
     (v)   every point x of the union has a hierarchical level vector h (dw_level_of: per dimension the least level whose stripe
           holds x_d) that lies in the index set, x lies in exactly the components dominating h, and the coefficients of the
           components that contain x sum to dominating_sum h = 1;
     (vi)  a point outside every component gets total coefficient 0 (nothing else is counted);
     (vii) every point of a tensor grid of an index-set member is held by a component with non-zero coefficient. *)
From SG Require Import Proofs.C03Full.
Theorem C03_combination_valid_full : forall a b o st, DwInv a b st ->
  let s := st_scheme st in let cs := combi_scheme_adaptive s in
  sumZ (map snd cs) = 1 /\
  (forall k c, In (k, c) cs -> In k (index_set s) /\ c <> 0 /\ length k = s_dim s /\ Forall (fun v => s_lmin s <= v) k) /\
  (forall k j, In k (index_set s) -> length j = length k -> Forall2 (fun p q => s_lmin s <= p <= q) j k -> In j (index_set s)) /\
  (forall l, length l = s_dim s -> Forall (fun v => s_lmin s <= v) l ->
     dominating_sum cs l = if mem l (index_set s) then 1 else 0) /\
  (forall x l0 c0, In (l0, c0) cs -> dw_in_comp o st x l0 = true ->
     let h := dw_level_of o st x l0 in
     In h (index_set s) /\ dw_in_comp o st x h = true /\
     (forall l c, In (l, c) cs -> dw_in_comp o st x l = lv_geb l h) /\
     dw_coeff_sum o st x = dominating_sum cs h /\ dw_coeff_sum o st x = 1) /\
  (forall x, (forall l c, In (l, c) cs -> dw_in_comp o st x l = false) -> dw_coeff_sum o st x = 0) /\
  (forall x k, In k (index_set s) -> dw_in_comp o st x k = true ->
     exists l c, In (l, c) cs /\ c <> 0 /\ dw_in_comp o st x l = true).
Proof. exact dw_inv_combination_valid. Qed.
Print Assumptions C03_combination_valid_full.

(* ... and it holds after EVERY history (the run exists: Proofs/DimWiseTotal.v; CombiValid is the conjunction (i)-(vii) above) *)
Theorem C03_every_history_combination_valid : forall n lmin lmax a b o steps st0,
  Forall2 (fun p q => (p < q)%Qc) a b -> dw_init (S n) lmin lmax a b = Some st0 ->
  exists st, dw_run o steps st0 = Some st /\ DwInv a b st /\ CombiValid o st.
Proof. exact dw_every_history_combination_valid. Qed.
Print Assumptions C03_every_history_combination_valid.

Theorem C03_installed_combination_valid : forall n lmin lmax a b o rb trees steps st0 st1 st,
  Forall2 (fun p q => (p < q)%Qc) a b ->
  dw_init (S n) lmin lmax a b = Some st0 ->
  (forall d t, nth_error trees d = Some t -> Seg (nth d a 0%Qc) (nth d b 0%Qc) 0 0 t) ->
  dw_install o rb trees st0 = Some st1 -> dw_run o steps st1 = Some st -> CombiValid o st.
Proof. exact dw_installed_combination_valid. Qed.
Print Assumptions C03_installed_combination_valid.

(* NESTEDNESS.  In every state the C06 invariant admits: the 1D point sets grow with the level in every dimension (no lower bound
   on the level needed); a point of component k lies in every component l >= k, in particular in the next finer one in any
   dimension d (bump d 1 k); and the point lists returned by get_points_component_grid are nested accordingly. *)
Theorem C03_components_nested : forall a b o st, DwInv a b st ->
  (forall d l l', l <= l' -> incl (dw_P o st d l) (dw_P o st d l')) /\
  (forall x k l, Forall2 Z.le k l -> dw_in_comp o st x k = true -> dw_in_comp o st x l = true) /\
  (forall x k d, dw_in_comp o st x k = true -> dw_in_comp o st x (bump d 1 k) = true) /\
  (forall k l pk pl, length k = st_dim st -> Forall2 Z.le k l ->
     get_points_component_grid o st k = Some pk -> get_points_component_grid o st l = Some pl -> incl pk pl).
Proof. exact dw_inv_components_nested. Qed.
Print Assumptions C03_components_nested.

(* ... after EVERY refinement history (induction over the steps via the C06 invariant: Proofs/DimWiseInvRebal.v, DimWiseTotal.v) *)
Theorem C03_every_history_components_nested : forall n lmin lmax a b o steps st0,
  Forall2 (fun p q => (p < q)%Qc) a b -> dw_init (S n) lmin lmax a b = Some st0 ->
  exists st, dw_run o steps st0 = Some st /\
    (forall d l l', l <= l' -> incl (dw_P o st d l) (dw_P o st d l')) /\
    (forall x k l, Forall2 Z.le k l -> dw_in_comp o st x k = true -> dw_in_comp o st x l = true) /\
    (forall x k d, dw_in_comp o st x k = true -> dw_in_comp o st x (bump d 1 k) = true) /\
    (forall k l pk pl, length k = st_dim st -> Forall2 Z.le k l ->
       get_points_component_grid o st k = Some pk -> get_points_component_grid o st l = Some pl -> incl pk pl).
Proof. exact dw_every_history_components_nested. Qed.
Print Assumptions C03_every_history_components_nested.

(* non-vacuity on the two-step example above: the hierarchical level vector of (1/4, 0) is (2,1); it lies in the index set, the
   point lies in exactly the components dominating (2,1), and the component grid (2,1) is contained in (3,1) and in (2,2) *)
Example C03_full_nonvacuous :
  exists st, ex_run = Some st /\
    dw_level_of ex_o st [q 1 4; q 0 1] [3; 1] = [2; 1] /\ In [2; 1] (index_set (st_scheme st)) /\
    dominating_sum (combi_scheme_adaptive (st_scheme st)) [2; 1] = 1 /\
    sumZ (map snd (combi_scheme_adaptive (st_scheme st))) = 1 /\
    dw_coeff_sum ex_o st [q 1 4; q 1 4] = 0 /\
    (forall x, dw_in_comp ex_o st x [2; 1] = true ->
       dw_in_comp ex_o st x [3; 1] = true /\ dw_in_comp ex_o st x [2; 2] = true).
Proof.
  destruct ex_run as [st|] eqn:E; [|vm_compute in E; discriminate].
  exists st. split; [reflexivity|].
  assert (H1 : option_map (fun st => dw_level_of ex_o st [q 1 4; q 0 1] [3; 1]) ex_run = Some [2; 1]) by (vm_compute; reflexivity).
  assert (H2 : option_map (fun st => mem [2; 1] (index_set (st_scheme st))) ex_run = Some true) by (vm_compute; reflexivity).
  assert (H3 : option_map (fun st => dominating_sum (combi_scheme_adaptive (st_scheme st)) [2; 1]) ex_run = Some 1)
    by (vm_compute; reflexivity).
  assert (H4 : option_map (fun st => sumZ (map snd (combi_scheme_adaptive (st_scheme st)))) ex_run = Some 1) by (vm_compute; reflexivity).
  assert (H5 : option_map (fun st => dw_coeff_sum ex_o st [q 1 4; q 1 4]) ex_run = Some 0) by (vm_compute; reflexivity).
  rewrite E in H1, H2, H3, H4, H5. cbn [option_map] in H1, H2, H3, H4, H5.
  split; [congruence|]. split; [apply Proofs.SchemeBasics.mem_In; congruence|]. split; [congruence|]. split; [congruence|].
  split; [congruence|].
  unfold ex_run in E. destruct (dw_init 2 1 2 ex_a ex_b) as [st0|] eqn:E0; [|discriminate].
  assert (HD : DwInv ex_a ex_b st).
  { eapply (Proofs.DimWiseInvRebal.dw_reachable_inv_any 1 1 2 ex_a ex_b ex_o ex_steps st0 st); [repeat constructor | exact E0 | exact E]. }
  destruct (C03_components_nested ex_a ex_b ex_o st HD) as (_ & M & B & _).
  intros x Hx. split.
  - exact (B x [2; 1] 0%nat Hx).
  - exact (B x [2; 1] 1%nat Hx).
Qed.

(* ---------------------------------------------------------------------------------------------------------- *)
(* PHASE 7 (3).  C03_version3_rounding_is_binary64_bounded restated over EXACT rationals for ALL inputs (every dim >= 1, sv >= 0,
   d < dim), with each rounding step an explicit parameter (Proofs/DimWiseV3Rounded.v): x = rounded sv / dim, y = rounded
   x - int(x), z = rounded d / dim, with error bounds e1, e2, e3.  Checked conditions: int(x) is the integer quotient (v3_int_ok is
   the binary64 form of this check) and (e1 + e2 + e3) * dim < 1 (binary64: e_i <= 2^-53 * (sv / dim + 1), i.e. all sv * dim < 2^50).
   Then `y > z` is the exact decision d < sv mod dim, except possibly at the tie sv mod dim = d, where the exact difference is 0;
   with no rounding error it is the exact decision everywhere. *)
From SG Require Import Proofs.DimWiseV3Rounded.
Theorem C03_version3_rounding_exact_rationals : forall (dim : nat) (sv : Z) (d : nat) (x y z e1 e2 e3 : Q),
  (1 <= dim)%nat -> (0 <= sv)%Z -> (d < dim)%nat ->
  (Qabs.Qabs (x - inject_Z sv / inject_Z (Z.of_nat dim)) <= e1)%Q ->
  Qround.Qfloor x = (sv / Z.of_nat dim)%Z ->
  (Qabs.Qabs (y - (x - inject_Z (Qround.Qfloor x))) <= e2)%Q ->
  (Qabs.Qabs (z - inject_Z (Z.of_nat d) / inject_Z (Z.of_nat dim)) <= e3)%Q ->
  ((e1 + e2 + e3) * inject_Z (Z.of_nat dim) < 1)%Q ->
  (sv mod Z.of_nat dim)%Z <> Z.of_nat d \/ (e1 + e2 + e3 == 0)%Q ->
  v3_dec_rounded y z = v3_dec_exact dim sv d.
Proof. exact v3_rounded_decision. Qed.
Print Assumptions C03_version3_rounding_exact_rationals.

Theorem C03_version3_unrounded_is_exact : forall (dim : nat) (sv : Z) (d : nat),
  (1 <= dim)%nat -> (0 <= sv)%Z -> (d < dim)%nat ->
  let x := (inject_Z sv / inject_Z (Z.of_nat dim))%Q in
  Qround.Qfloor x = (sv / Z.of_nat dim)%Z ->
  v3_dec_rounded (x - inject_Z (Qround.Qfloor x))%Q (inject_Z (Z.of_nat d) / inject_Z (Z.of_nat dim))%Q = v3_dec_exact dim sv d.
Proof. exact v3_unrounded_decision_is_exact. Qed.
Print Assumptions C03_version3_unrounded_is_exact.

(* non-vacuity: dim 3, sv 5, d 1 with a rounding error of 1/1000 in the quotient: the hypotheses hold and the decision is `true`;
   and the tie is a real exception: dim 3, sv 4, d 1 (4 mod 3 = 1) with the same error decides `true` where the exact test says
   `false` - so the side condition cannot be dropped *)
Example C03_v3_rounded_nonvacuous :
  v3_dec_rounded ((5 # 3) + (1 # 1000) - 1)%Q (1 # 3)%Q = true /\ v3_dec_exact 3 5 1 = true /\
  v3_dec_rounded ((4 # 3) + (1 # 1000) - 1)%Q (1 # 3)%Q = true /\ v3_dec_exact 3 4 1 = false.
Proof.
  split; [|split; [reflexivity|split; reflexivity]].
  rewrite (C03_version3_rounding_exact_rationals 3 5 1 ((5 # 3) + (1 # 1000))%Q ((5 # 3) + (1 # 1000) - 1)%Q (1 # 3)%Q
             (1 # 1000)%Q 0%Q 0%Q).
  - reflexivity.
  - repeat constructor.
  - discriminate.
  - repeat constructor.
  - vm_compute. discriminate.
  - vm_compute. reflexivity.
  - vm_compute. discriminate.
  - vm_compute. discriminate.
  - vm_compute. reflexivity.
  - left. vm_compute. discriminate.
Qed.
