(* C04 — Refinement never loses exactness the initial configuration had.
   Property theorems only; each is closed by `exact` of a lemma from Proofs/.

   What is a theorem and what is not:
   * The property is FALSE for the dimension-wise strategy as it stands (known findings, reproduced on the implementation on
     every run): C04_dw_rebalancing_refuted / C04_dw_version2_refuted are model witnesses (vm_compute), replayed on the code.
   * dimension-wise, positive direction (C04_dw_exact_if_integral_partial): in EVERY state whose trees tile the domain (C06)
     and whose scheme satisfies the C01 invariant, a hierarchical hat is integrated exactly whenever a level vector tau at
     which every stripe contains the hat's kinks lies in the index set. FULL STATEMENT NOT PROVED: (i) the converse (exact =>
     minimal tau in the index set), (ii) the same for the interpolant (the 1D fact C04_interp_hat_on_grid is proved, the
     assembly is not), (iii) the history invariant "versions 6/7/8 without rebalancing keep tau of every initial hat inside
     the index set" - decided per explored state by the verified checker dw_keeps_initial_space (C04_dw_keeps_initial_space_sound).
   * extend-split: C04_es_multilinear_exact - every area with a valid local combination (C07 checker) contributes the exact
     integral of every multilinear monomial (C08 tensor trapezoid), hence the combination is exact provided the monomial
     moments of the areas add up to the moment of the domain; the two split operations preserve that sum
     (C04_moments_halves, C04_moments_split_all); the bookkeeping induction over the container is not formalised, the
     hypothesis is evaluated per explored state (verified checker moments_additive on the implementation's areas).
   * cell strategy: implementation-only oracle. *)
From Coq Require Import ZArith List Bool QArith Qcanon Sorted.
From SG Require Import Base.QcUtil Model.CombiScheme Model.RefTree.
From SG Require Import Model.StdCombi Model.Trap Model.Tensor Model.LocalGrids Model.ExtendSplit Model.ESExact.
From SG Require Import Model.DimWise Model.DimWiseInterp Model.DimWiseExact
     Proofs.SchemeInv Proofs.StdGrid Proofs.HatFacts Proofs.StdHier1D Proofs.StdHierTrap Proofs.DimWiseCombi
     Proofs.CombiProduct Proofs.HatOnGrid Proofs.DimWiseExactProofs Proofs.ESExact.
Import ListNotations.
Local Open Scope Qc_scope.

(* ---- dimension-wise: verified checker ---- *)
Theorem C04_dw_keeps_initial_space_sound : forall o st a b lmin lmax,
  dw_keeps_initial_space o st a b lmin lmax = true ->
  forall j i, In (j, i) (initial_hats (st_dim st) lmin lmax (o_boundary o)) ->
    dw_combi_integral o false st a b (hat_list a b j i) = Some (hat_exact a b j i).
Proof. exact dw_keeps_initial_space_sound. Qed.
Print Assumptions C04_dw_keeps_initial_space_sound.

(* ---- dimension-wise: 1D facts on ARBITRARY strictly sorted grids containing the kinks of the hat ---- *)
Theorem C04_trap_hat_on_grid : forall a b c H xs a' b', 0 < H -> StronglySorted Qclt xs ->
  (forall x, In x xs -> a <= x /\ x <= b) -> resolves a b c H xs -> (1 <= length xs)%nat ->
  dotQ (weights_raw false xs a' b') (map (hatc c H) xs) = hatF c H (nq xs (length xs - 1)) - hatF c H (nq xs 0).
Proof. exact trap_hat_on_grid. Qed.
Theorem C04_interp_hat_on_grid : forall a b c H xs x, 0 < H -> StronglySorted Qclt xs ->
  (forall y, In y xs -> a <= y /\ y <= b) -> resolves a b c H xs -> (1 <= length xs)%nat ->
  nq xs 0 <= x -> x <= nq xs (length xs - 1) -> interp1 xs (hatc c H) x = hatc c H x.
Proof. exact interp_hat_on_grid. Qed.
Print Assumptions C04_trap_hat_on_grid.
Print Assumptions C04_interp_hat_on_grid.

(* ---- abstract: combination of per-dimension stationary sequences ---- *)
Theorem C04_product_combination_exact : forall lmin idx cs es M,
  (forall l c, In (l, c) cs -> length l = length es /\ Forall (fun v => (lmin <= v <= lmin + Z.of_nat M)%Z) l) ->
  (forall l, length l = length es -> Forall (fun v => (lmin <= v)%Z) l -> dominating_sum cs l = if mem l idx then 1%Z else 0%Z) ->
  (forall k j, In k idx -> length j = length k -> Forall2 (fun a b => (lmin <= a <= b)%Z) j k -> In j idx) ->
  forall tau, stat lmin es tau -> In tau idx -> Forall (fun v => (lmin <= v <= lmin + Z.of_nat M)%Z) tau ->
  combined_prod cs es = prod_at es tau.
Proof. exact product_combination_exact. Qed.
Print Assumptions C04_product_combination_exact.

(* ---- dimension-wise: the 'if' direction for the integral (PARTIAL, see header) ---- *)
Theorem C04_dw_exact_if_integral_partial : forall a b o st j i tau,
  Inv (st_scheme st) -> TilesOK a b st ->
  length a = s_dim (st_scheme st) -> length b = s_dim (st_scheme st) -> length j = s_dim (st_scheme st) ->
  hat_ok o st a b (s_lmin (st_scheme st)) 0 j i tau ->
  In tau (index_set (st_scheme st)) ->
  dw_combi_integral o false st a b (hat_list a b j i) = Some (hat_exact a b j i).
Proof. exact dw_exact_if_integral. Qed.
Print Assumptions C04_dw_exact_if_integral_partial.

(* ---- extend-split ---- *)
Theorem C04_es_area_integral_exact : forall a b bx gs exps,
  valid_local_combi (length (fst bx)) gs = true -> gs <> [] ->
  length a = length (fst bx) -> length b = length (fst bx) -> length (snd bx) = length (fst bx) ->
  length exps = length (fst bx) -> Forall (fun k => (k <= 1)%nat) exps ->
  area_integral a b (bx, gs) exps = bmom (fst bx) (snd bx) exps.
Proof. exact area_integral_exact. Qed.
Theorem C04_es_multilinear_exact : forall a b areas exps,
  (forall bx gs, In (bx, gs) areas ->
     valid_local_combi (length a) gs = true /\ gs <> [] /\ length (fst bx) = length a /\ length (snd bx) = length a) ->
  moments_additive a b (map fst areas) = true ->
  length b = length a -> length exps = length a -> Forall (fun k => (k <= 1)%nat) exps ->
  es_integral a b areas exps = bmom a b exps.
Proof. exact es_multilinear_exact_checked. Qed.
Theorem C04_moments_halves : forall k (bx : box) exps, (k < length (fst bx))%nat -> length (snd bx) = length (fst bx) ->
  length exps = length (fst bx) ->
  sumQ (map (fun h : box => bmom (fst h) (snd h) exps) (halves k bx)) = bmom (fst bx) (snd bx) exps.
Proof. exact moments_halves. Qed.
Theorem C04_moments_split_all : forall s e exps, length e = length s -> length exps = length s ->
  sumQ (map (fun h : box => bmom (fst h) (snd h) exps) (split_all s e)) = bmom s e exps.
Proof. exact moments_split_all. Qed.
Print Assumptions C04_es_multilinear_exact.
Print Assumptions C04_moments_split_all.

(* ---------------------------------------------------------------------------------------------------------- *)
(* refuted: model witnesses of the known findings (replayed on the implementation by the harness corpus) *)
Definition q (n : Z) (d : positive) : Qc := Q2Qc (n # d).
Definition ex_opts (version : Z) (rebal bd : bool) : dw_opts :=
  mkOpts version rebal bd (Q2Qc (9 # 10)) (rebalance_dec_exact (Q2Qc (1 # 10))) (v3_dec_exact 2).
Definition ex_a := [q 0 1; q 0 1].
Definition ex_b := [q 1 1; q 1 1].
Definition z4 := [q 0 1; q 0 1; q 0 1; q 0 1].
(* the right-most interval of dimension 0 three times: with rebalancing a rotation happens *)
Definition ex_steps_rot := [ [[q 0 1; q 0 1; q 0 1; q 1 1]; z4];
                             [[q 0 1; q 0 1; q 0 1; q 0 1; q 1 1]; z4];
                             [[q 0 1; q 0 1; q 0 1; q 0 1; q 0 1; q 1 1]; z4] ].
Definition keeps_after (o : dw_opts) (lmin lmax : Z) steps : option bool :=
  match dw_init 2 lmin lmax ex_a ex_b with
  | Some st0 => match dw_run o steps st0 with Some st => Some (dw_keeps_initial_space o st ex_a ex_b lmin lmax) | None => None end
  | None => None
  end.

Theorem C04_dw_rebalancing_refuted :
  keeps_after (ex_opts 6 true true) 1 2 ex_steps_rot = Some false /\
  keeps_after (ex_opts 6 false true) 1 2 ex_steps_rot = Some true /\
  keeps_after (ex_opts 6 true true) 1 2 [] = Some true.
Proof. vm_compute. repeat split. Qed.

(* d = 2, lmin 2, lmax 3, no rebalancing: splitting the first interval of dimension 0 once loses a hat with version 2, not with 6 *)
Definition z8 := z4 ++ z4.
Definition ex_steps_v2 := [ [q 1 1 :: removelast z8; z8] ].
Theorem C04_dw_version2_refuted :
  keeps_after (ex_opts 2 false false) 2 3 ex_steps_v2 = Some false /\
  keeps_after (ex_opts 3 false false) 2 3 ex_steps_v2 = Some false /\
  keeps_after (ex_opts 6 false false) 2 3 ex_steps_v2 = Some true /\
  keeps_after (ex_opts 2 false false) 2 3 [] = Some true.
Proof. vm_compute. repeat split. Qed.

(* executable form of the hypothesis hat_ok of the positive theorem *)
Theorem C04_hat_okb_sound : forall o st a b lmin j d0 i tau,
  hat_okb o st a b lmin d0 j i tau = true -> hat_ok o st a b lmin d0 j i tau.
Proof. exact hat_okb_sound. Qed.

(* non-vacuity of the positive theorem: d = 2, lmin 1, lmax 2, after one refinement step (second interval of dimension 0 split,
   lmax becomes (3,2)); the hat of level (1,2), index (1,1) with tau = (1,2) satisfies the hypotheses, tau is in the index
   set, and the theorem gives exactness (1/8) *)
Definition ex_state : option dw_state :=
  match dw_init 2 1 2 ex_a ex_b with
  | Some st0 => dw_run (ex_opts 6 false true) [ [[q 0 1; q 1 1; q 0 1; q 0 1]; z4] ] st0
  | None => None
  end.

Example C04_dw_exact_if_nonvacuous :
  exists st, ex_state = Some st /\ st_lmax st = [3; 2]%Z /\
    hat_ok (ex_opts 6 false true) st ex_a ex_b (s_lmin (st_scheme st)) 0 [1; 2]%Z [1; 1]%Z [1; 2]%Z /\
    In [1; 2]%Z (index_set (st_scheme st)) /\
    dw_combi_integral (ex_opts 6 false true) false st ex_a ex_b (hat_list ex_a ex_b [1; 2]%Z [1; 1]%Z)
    = Some (hat_exact ex_a ex_b [1; 2]%Z [1; 1]%Z).
Proof.
  destruct ex_state as [st|] eqn:E; [|vm_compute in E; discriminate].
  exists st. split; [reflexivity|].
  assert (Some_inj : forall (A : Type) (x y : A), Some x = Some y -> x = y) by (intros A x y H; injection H; auto).
  assert (H1 : option_map st_lmax ex_state = Some [3; 2]%Z) by (vm_compute; reflexivity).
  assert (H2 : option_map (fun st => hat_okb (ex_opts 6 false true) st ex_a ex_b (s_lmin (st_scheme st)) 0 [1; 2]%Z [1; 1]%Z [1; 2]%Z)
                          ex_state = Some true) by (vm_compute; reflexivity).
  assert (H3 : option_map (fun st => mem [1; 2]%Z (index_set (st_scheme st))) ex_state = Some true) by (vm_compute; reflexivity).
  assert (H4 : option_map (fun st => s_dim (st_scheme st)) ex_state = Some 2%nat) by (vm_compute; reflexivity).
  rewrite E in H1, H2, H3, H4. cbn [option_map] in H1, H2, H3, H4.
  apply Some_inj in H1. apply Some_inj in H2. apply Some_inj in H3. apply Some_inj in H4.
  assert (Hok := C04_hat_okb_sound _ _ _ _ _ _ _ _ _ H2).
  assert (Hin : In [1; 2]%Z (index_set (st_scheme st))) by (apply Proofs.SchemeBasics.mem_In; exact H3).
  split; [exact H1|]. split; [exact Hok|]. split; [exact Hin|].
  apply C04_dw_exact_if_integral_partial with (tau := [1; 2]%Z); try (rewrite H4; reflexivity); try assumption.
  - unfold ex_state in E. destruct (dw_init 2 1 2 ex_a ex_b) as [st0|] eqn:E0; [|discriminate].
    eapply (Proofs.C03Main.dw_reachable_scheme_inv 1 1 2 ex_a ex_b); eassumption.
  - apply Proofs.C03Main.DwInv_TilesOK. unfold ex_state in E. destruct (dw_init 2 1 2 ex_a ex_b) as [st0|] eqn:E0; [|discriminate].
    eapply (Proofs.DimWiseInv.dw_reachable_inv 1 1 2 ex_a ex_b (ex_opts 6 false true)); [| reflexivity | exact E0 | exact E].
    repeat constructor.
Qed.
