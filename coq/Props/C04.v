(* C04 — Refinement never loses exactness the initial configuration had.
   Property theorems only; each is closed by `exact` of a lemma from Proofs/.

   What is a theorem and what is not:
   * The property is FALSE for the dimension-wise strategy as it stands (known findings, reproduced on the implementation on
     every run): C04_dw_rebalancing_refuted / C04_dw_version2_refuted are model witnesses (vm_compute), replayed on the code.
   * dimension-wise, positive direction (C04_dw_exact_if_integral_partial, C04_dw_exact_if_interp_partial): in EVERY state
     whose trees tile the domain (C06) and whose scheme satisfies the C01 invariant, a hierarchical hat is integrated exactly
     and its combined interpolant reproduces it at every point of the domain whenever a level vector tau at which every stripe
     contains the hat's kinks lies in the index set. FULL STATEMENT NOT PROVED: (i) the converse (exact => minimal tau in the
     index set), (ii) the history invariant "versions 6/7/8 without rebalancing keep tau of every initial hat inside the index
     set" for ALL histories - proved only _bounded (C04_dw_norebalance_keeps_bounded: d = 2, unit square, all histories of
     single-interval splits up to depth 2 (lmin 1, lmax 2) / depth 1 (lmin 2, lmax 3) for versions 6, 7, 8, boundary on/off;
     depth 3 resp. 2 were also evaluated with vm_compute during development (all true) but are not kept: coqchk replays them
     ~15x slower) and
     otherwise decided per explored state by the verified checker dw_keeps_initial_space (C04_dw_keeps_initial_space_sound).
     NOTE: "the stripe of a fixed component level only grows from step to step" is FALSE for versions 6/7/8 (raising lmax_d
     coarsens the untouched part of the tree at the same component level; observed on the implementation), so the invariant
     is genuinely about tau moving inside a growing index set.
   * dimension-wise, products of linear functions (C04_dw_linear_exact): exact in EVERY state whose trees tile the domain, for the
     trapezoidal rule with boundary points and for the modified basis (there under the side condition stripes_mod_ok: a
     3-point stripe must be (a, mid point, b) - the modified 3-point rule (b-a) f(x_1) is exact for linear f only then).
   * all of these hold in EVERY reachable state of EVERY history, rebalancing included (theorems C04_dw_reachable_...): in particular every
     product of linear functions (= the level-0 part of the initial space with boundary points) provably stays exact under
     every history, versions 2,3,6,7 - what rebalancing rotations and versions 2/3 lose are hats of level >= 1.
   * the entry point evaluates tabulated versions of the model functions; they are equal (C04_entry_tabulated_equal).
   * extend-split: C04_es_multilinear_exact - every area with a valid local combination (C07 checker) contributes the exact
     integral of every multilinear monomial (C08 tensor trapezoid), hence the combination is exact provided the monomial
     moments of the areas add up to the moment of the domain; the two split operations preserve that sum
     (C04_moments_halves, C04_moments_split_all); the bookkeeping induction over the container is not formalised, the
     hypothesis is evaluated per explored state (verified checker moments_additive on the implementation's areas).
   * cell strategy: implementation-only oracle. *)
From Coq Require Import ZArith List Bool QArith Qcanon Sorted.
From SG Require Import Base.QcUtil Model.CombiScheme Model.RefTree.
From SG Require Import Model.StdCombi Model.Trap Model.Tensor Model.LocalGrids Model.ExtendSplit Model.ESExact.
From SG Require Import Model.DimWise Model.DimWiseInterp Model.DimWiseExact
     Proofs.SchemeInv Proofs.StdGrid Proofs.HatFacts Proofs.StdHier1D Proofs.StdHierTrap Proofs.DimWiseCombi
     Proofs.CombiProduct Proofs.HatOnGrid Proofs.DimWiseExactProofs Proofs.ESExact.
From SG Require Import Model.DimWiseFast Model.DimWiseLinMod Proofs.DimWiseFast Proofs.DimWiseExactInterp Proofs.DimWiseLinear
     Proofs.DimWiseBounded Proofs.DimWiseBounded12 Proofs.DimWiseBoundedMain Proofs.DimWiseReachable.
Import ListNotations.
Local Open Scope Qc_scope.

(* ---- dimension-wise: verified checker ---- *)
Theorem C04_dw_keeps_initial_space_sound : forall o st a b lmin lmax,
  dw_keeps_initial_space o st a b lmin lmax = true ->
  forall j i, In (j, i) (initial_hats (st_dim st) lmin lmax (o_boundary o)) ->
    dw_combi_integral o false st a b (hat_list a b j i) = Some (hat_exact a b j i).
Proof. exact dw_keeps_initial_space_sound. Qed.
Print Assumptions C04_dw_keeps_initial_space_sound.

(* ---- dimension-wise: 1D facts on ARBITRARY strictly sorted grids containing the kinks of the hat ---- *)
Theorem C04_trap_hat_on_grid : forall a b c H xs a' b', 0 < H -> StronglySorted Qclt xs ->
  (forall x, In x xs -> a <= x /\ x <= b) -> resolves a b c H xs -> (1 <= length xs)%nat ->
  dotQ (weights_raw false xs a' b') (map (hatc c H) xs) = hatF c H (nq xs (length xs - 1)) - hatF c H (nq xs 0).
Proof. exact trap_hat_on_grid. Qed.
Theorem C04_interp_hat_on_grid : forall a b c H xs x, 0 < H -> StronglySorted Qclt xs ->
  (forall y, In y xs -> a <= y /\ y <= b) -> resolves a b c H xs -> (1 <= length xs)%nat ->
  nq xs 0 <= x -> x <= nq xs (length xs - 1) -> interp1 xs (hatc c H) x = hatc c H x.
Proof. exact interp_hat_on_grid. Qed.
Print Assumptions C04_trap_hat_on_grid.
Print Assumptions C04_interp_hat_on_grid.

(* ---- abstract: combination of per-dimension stationary sequences ---- *)
Theorem C04_product_combination_exact : forall lmin idx cs es M,
  (forall l c, In (l, c) cs -> length l = length es /\ Forall (fun v => (lmin <= v <= lmin + Z.of_nat M)%Z) l) ->
  (forall l, length l = length es -> Forall (fun v => (lmin <= v)%Z) l -> dominating_sum cs l = if mem l idx then 1%Z else 0%Z) ->
  (forall k j, In k idx -> length j = length k -> Forall2 (fun a b => (lmin <= a <= b)%Z) j k -> In j idx) ->
  forall tau, stat lmin es tau -> In tau idx -> Forall (fun v => (lmin <= v <= lmin + Z.of_nat M)%Z) tau ->
  combined_prod cs es = prod_at es tau.
Proof. exact product_combination_exact. Qed.
Print Assumptions C04_product_combination_exact.

(* ---- dimension-wise: the 'if' direction for the integral (PARTIAL, see header) ---- *)
Theorem C04_dw_exact_if_integral_partial : forall a b o st j i tau,
  Inv (st_scheme st) -> TilesOK a b st ->
  length a = s_dim (st_scheme st) -> length b = s_dim (st_scheme st) -> length j = s_dim (st_scheme st) ->
  hat_ok o st a b (s_lmin (st_scheme st)) 0 j i tau ->
  In tau (index_set (st_scheme st)) ->
  dw_combi_integral o false st a b (hat_list a b j i) = Some (hat_exact a b j i).
Proof. exact dw_exact_if_integral. Qed.
Print Assumptions C04_dw_exact_if_integral_partial.

(* ---- dimension-wise: the 'if' direction for the interpolant (PARTIAL, see header) ---- *)
Theorem C04_dw_exact_if_interp_partial : forall a b o st j i tau x,
  Inv (st_scheme st) -> TilesOK a b st ->
  length a = s_dim (st_scheme st) -> length b = s_dim (st_scheme st) -> length j = s_dim (st_scheme st) ->
  hat_ok o st a b (s_lmin (st_scheme st)) 0 j i tau ->
  In tau (index_set (st_scheme st)) ->
  length x = s_dim (st_scheme st) -> in_box a b 0 x ->
  dw_combi_interp o st a b (fun_hat a b j i) x = fun_hat a b j i x.
Proof. exact dw_exact_if_interp. Qed.
Print Assumptions C04_dw_exact_if_interp_partial.

(* ---- dimension-wise: products of linear functions are integrated exactly in every tiling state ---- *)
Theorem C04_dw_linear_exact : forall a b o mb st cf,
  Inv (st_scheme st) -> TilesOK a b st ->
  length a = s_dim (st_scheme st) -> length b = s_dim (st_scheme st) -> length cf = s_dim (st_scheme st) ->
  stripes_defined o st (s_lmin (st_scheme st)) (s_dim (st_scheme st)) ->
  ((o_boundary o = true /\ mb = false) \/
   (o_boundary o = false /\ mb = true /\ stripes_mod_ok o st a b (s_lmin (st_scheme st)) (s_dim (st_scheme st)))) ->
  dw_combi_integral o mb st a b (lin_fns cf) = Some (lin_exact a b cf).
Proof. exact dw_linear_exact. Qed.
Print Assumptions C04_dw_linear_exact.
(* modified basis: the side condition as a verified checker (evaluated in every explored state of the modified-basis histories) *)
Theorem C04_dw_linear_exact_modified_checked : forall a b o st cf,
  Inv (st_scheme st) -> TilesOK a b st ->
  length a = s_dim (st_scheme st) -> length b = s_dim (st_scheme st) -> length cf = s_dim (st_scheme st) ->
  stripes_defined o st (s_lmin (st_scheme st)) (s_dim (st_scheme st)) ->
  o_boundary o = false -> lin_mod_okb o st a b = true ->
  dw_combi_integral o true st a b (lin_fns cf) = Some (lin_exact a b cf).
Proof. exact dw_linear_exact_modified_checked. Qed.
Print Assumptions C04_dw_linear_exact_modified_checked.

(* ---- dimension-wise: the state-level theorems hold in EVERY reachable state of EVERY history (any options, rebalancing included;
        C06 invariant + C01 invariant of every reachable state, Proofs/DimWiseTotal.v) ---- *)
Theorem C04_dw_reachable_linear_exact : forall n lmin lmax a b o steps st0 st cf,
  Forall2 (fun p q => p < q) a b ->
  dw_init (S n) lmin lmax a b = Some st0 -> dw_run o steps st0 = Some st ->
  (o_version o = 2 \/ o_version o = 3 \/ o_version o = 6 \/ o_version o = 7)%Z ->
  o_boundary o = true -> length cf = S n ->
  dw_combi_integral o false st a b (lin_fns cf) = Some (lin_exact a b cf).
Proof. exact dw_reachable_linear_exact. Qed.
Theorem C04_dw_reachable_linear_exact_modified : forall n lmin lmax a b o steps st0 st cf,
  Forall2 (fun p q => p < q) a b ->
  dw_init (S n) lmin lmax a b = Some st0 -> dw_run o steps st0 = Some st ->
  (o_version o = 2 \/ o_version o = 3 \/ o_version o = 6 \/ o_version o = 7)%Z ->
  o_boundary o = false -> lin_mod_okb o st a b = true -> length cf = S n ->
  dw_combi_integral o true st a b (lin_fns cf) = Some (lin_exact a b cf).
Proof. exact dw_reachable_linear_exact_modified. Qed.
Theorem C04_dw_reachable_exact_if_partial : forall n lmin lmax a b o steps st0 st j i tau,
  Forall2 (fun p q => p < q) a b ->
  dw_init (S n) lmin lmax a b = Some st0 -> dw_run o steps st0 = Some st ->
  length j = S n -> hat_ok o st a b lmin 0 j i tau -> In tau (index_set (st_scheme st)) ->
  dw_combi_integral o false st a b (hat_list a b j i) = Some (hat_exact a b j i) /\
  forall x, length x = S n -> in_box a b 0 x -> dw_combi_interp o st a b (fun_hat a b j i) x = fun_hat a b j i x.
Proof. exact dw_reachable_exact_if. Qed.
Print Assumptions C04_dw_reachable_linear_exact.
Print Assumptions C04_dw_reachable_linear_exact_modified.
Print Assumptions C04_dw_reachable_exact_if_partial.

(* ---- dimension-wise, no rebalancing, versions 6/7/8: history invariant, BOUNDED (see header) ---- *)
(* bounded_cases = (version, boundary, lmin, lmax, depth): (v,bd,1,2,2) and (v,bd,2,3,1) for v in 6,7,8, bd on/off *)
Theorem C04_dw_norebalance_keeps_bounded : forall v bd lmin lmax n,
  In (v, bd, lmin, lmax, n) bounded_cases ->
  forall st0 path st, dw_init 2 lmin lmax unit_a unit_b = Some st0 -> (length path <= n)%nat ->
    run_path (b_opts v bd) path st0 = Some st ->
    forall j i, In (j, i) (initial_hats (st_dim st) lmin lmax bd) ->
      dw_combi_integral (b_opts v bd) false st unit_a unit_b (hat_list unit_a unit_b j i) = Some (hat_exact unit_a unit_b j i).
Proof. exact dw_norebalance_keeps_bounded. Qed.
Print Assumptions C04_dw_norebalance_keeps_bounded.

(* ---- what the entry point evaluates (tabulated stripes) equals the model functions of the theorems above ---- *)
Theorem C04_entry_tabulated_equal : forall o st lo n a b lmin lmax,
  (forall mb gs, dw_combi_integral_fast o mb st (ctab o st lo n) a b gs = dw_combi_integral o mb st a b gs) /\
  (forall f x, dw_combi_interp_fast o st (ctab o st lo n) a b f x = dw_combi_interp o st a b f x) /\
  keeps_of a b (initial_hats (st_dim st) lmin lmax (o_boundary o))
           (map (fun ji => dw_combi_integral o false st a b (hat_list a b (fst ji) (snd ji)))
                (initial_hats (st_dim st) lmin lmax (o_boundary o)))
  = dw_keeps_initial_space o st a b lmin lmax.
Proof. exact entry_tabulated_equal. Qed.
Print Assumptions C04_entry_tabulated_equal.

(* ---- extend-split ---- *)
Theorem C04_es_area_integral_exact : forall a b bx gs exps,
  valid_local_combi (length (fst bx)) gs = true -> gs <> [] ->
  length a = length (fst bx) -> length b = length (fst bx) -> length (snd bx) = length (fst bx) ->
  length exps = length (fst bx) -> Forall (fun k => (k <= 1)%nat) exps ->
  area_integral a b (bx, gs) exps = bmom (fst bx) (snd bx) exps.
Proof. exact area_integral_exact. Qed.
Theorem C04_es_multilinear_exact : forall a b areas exps,
  (forall bx gs, In (bx, gs) areas ->
     valid_local_combi (length a) gs = true /\ gs <> [] /\ length (fst bx) = length a /\ length (snd bx) = length a) ->
  moments_additive a b (map fst areas) = true ->
  length b = length a -> length exps = length a -> Forall (fun k => (k <= 1)%nat) exps ->
  es_integral a b areas exps = bmom a b exps.
Proof. exact es_multilinear_exact_checked. Qed.
Theorem C04_moments_halves : forall k (bx : box) exps, (k < length (fst bx))%nat -> length (snd bx) = length (fst bx) ->
  length exps = length (fst bx) ->
  sumQ (map (fun h : box => bmom (fst h) (snd h) exps) (halves k bx)) = bmom (fst bx) (snd bx) exps.
Proof. exact moments_halves. Qed.
Theorem C04_moments_split_all : forall s e exps, length e = length s -> length exps = length s ->
  sumQ (map (fun h : box => bmom (fst h) (snd h) exps) (split_all s e)) = bmom s e exps.
Proof. exact moments_split_all. Qed.
Print Assumptions C04_es_multilinear_exact.
Print Assumptions C04_moments_split_all.

(* ---------------------------------------------------------------------------------------------------------- *)
(* refuted: model witnesses of the known findings (replayed on the implementation by the harness corpus) *)
Definition q (n : Z) (d : positive) : Qc := Q2Qc (n # d).
Definition ex_opts (version : Z) (rebal bd : bool) : dw_opts :=
  mkOpts version rebal bd (Q2Qc (9 # 10)) (rebalance_dec_exact (Q2Qc (1 # 10))) (v3_dec_exact 2).
Definition ex_a := [q 0 1; q 0 1].
Definition ex_b := [q 1 1; q 1 1].
Definition z4 := [q 0 1; q 0 1; q 0 1; q 0 1].
(* the right-most interval of dimension 0 three times: with rebalancing a rotation happens *)
Definition ex_steps_rot := [ [[q 0 1; q 0 1; q 0 1; q 1 1]; z4];
                             [[q 0 1; q 0 1; q 0 1; q 0 1; q 1 1]; z4];
                             [[q 0 1; q 0 1; q 0 1; q 0 1; q 0 1; q 1 1]; z4] ].
Definition keeps_after (o : dw_opts) (lmin lmax : Z) steps : option bool :=
  match dw_init 2 lmin lmax ex_a ex_b with
  | Some st0 => match dw_run o steps st0 with Some st => Some (dw_keeps_initial_space o st ex_a ex_b lmin lmax) | None => None end
  | None => None
  end.

Theorem C04_dw_rebalancing_refuted :
  keeps_after (ex_opts 6 true true) 1 2 ex_steps_rot = Some false /\
  keeps_after (ex_opts 6 false true) 1 2 ex_steps_rot = Some true /\
  keeps_after (ex_opts 6 true true) 1 2 [] = Some true.
Proof. vm_compute. repeat split. Qed.

(* d = 2, lmin 2, lmax 3, no rebalancing: splitting the first interval of dimension 0 once loses a hat with version 2, not with 6 *)
Definition z8 := z4 ++ z4.
Definition ex_steps_v2 := [ [q 1 1 :: removelast z8; z8] ].
Theorem C04_dw_version2_refuted :
  keeps_after (ex_opts 2 false false) 2 3 ex_steps_v2 = Some false /\
  keeps_after (ex_opts 3 false false) 2 3 ex_steps_v2 = Some false /\
  keeps_after (ex_opts 6 false false) 2 3 ex_steps_v2 = Some true /\
  keeps_after (ex_opts 2 false false) 2 3 [] = Some true.
Proof. vm_compute. repeat split. Qed.

(* executable form of the hypothesis hat_ok of the positive theorem *)
Theorem C04_hat_okb_sound : forall o st a b lmin j d0 i tau,
  hat_okb o st a b lmin d0 j i tau = true -> hat_ok o st a b lmin d0 j i tau.
Proof. exact hat_okb_sound. Qed.

(* non-vacuity of the positive theorem: d = 2, lmin 1, lmax 2, after one refinement step (second interval of dimension 0 split,
   lmax becomes (3,2)); the hat of level (1,2), index (1,1) with tau = (1,2) satisfies the hypotheses, tau is in the index
   set, and the theorem gives exactness (1/8) *)
Definition ex_state : option dw_state :=
  match dw_init 2 1 2 ex_a ex_b with
  | Some st0 => dw_run (ex_opts 6 false true) [ [[q 0 1; q 1 1; q 0 1; q 0 1]; z4] ] st0
  | None => None
  end.

Definition ex_o := ex_opts 6 false true.
Example C04_ex_state_facts :
  exists st, ex_state = Some st /\ st_lmax st = [3; 2]%Z /\ s_dim (st_scheme st) = 2%nat /\
    Inv (st_scheme st) /\ TilesOK ex_a ex_b st /\
    hat_ok ex_o st ex_a ex_b (s_lmin (st_scheme st)) 0 [1; 2]%Z [1; 1]%Z [1; 2]%Z /\
    In [1; 2]%Z (index_set (st_scheme st)) /\
    stripes_defined ex_o st (s_lmin (st_scheme st)) 2.
Proof.
  destruct ex_state as [st|] eqn:E; [|vm_compute in E; discriminate].
  exists st. split; [reflexivity|].
  assert (Some_inj : forall (A : Type) (x y : A), Some x = Some y -> x = y) by (intros A x y H; injection H; auto).
  assert (H1 : option_map st_lmax ex_state = Some [3; 2]%Z) by (vm_compute; reflexivity).
  assert (H2 : option_map (fun st => hat_okb ex_o st ex_a ex_b (s_lmin (st_scheme st)) 0 [1; 2]%Z [1; 1]%Z [1; 2]%Z)
                          ex_state = Some true) by (vm_compute; reflexivity).
  assert (H3 : option_map (fun st => mem [1; 2]%Z (index_set (st_scheme st))) ex_state = Some true) by (vm_compute; reflexivity).
  assert (H4 : option_map (fun st => s_dim (st_scheme st)) ex_state = Some 2%nat) by (vm_compute; reflexivity).
  assert (H5 : option_map (fun st => stripes_definedb ex_o st (s_lmin (st_scheme st)) 2) ex_state = Some true) by (vm_compute; reflexivity).
  rewrite E in H1, H2, H3, H4, H5. cbn [option_map] in H1, H2, H3, H4, H5.
  apply Some_inj in H1. apply Some_inj in H2. apply Some_inj in H3. apply Some_inj in H4. apply Some_inj in H5.
  split; [exact H1|]. split; [exact H4|].
  split.
  { unfold ex_state in E. destruct (dw_init 2 1 2 ex_a ex_b) as [st0|] eqn:E0; [|discriminate].
    eapply (Proofs.C03Main.dw_reachable_scheme_inv 1 1 2 ex_a ex_b); eassumption. }
  split.
  { apply Proofs.C03Main.DwInv_TilesOK. unfold ex_state in E. destruct (dw_init 2 1 2 ex_a ex_b) as [st0|] eqn:E0; [|discriminate].
    eapply (Proofs.DimWiseInv.dw_reachable_inv 1 1 2 ex_a ex_b ex_o); [| reflexivity | exact E0 | exact E].
    repeat constructor. }
  split; [exact (C04_hat_okb_sound _ _ _ _ _ _ _ _ _ H2)|].
  split; [apply Proofs.SchemeBasics.mem_In; exact H3|].
  apply stripes_definedb_sound. exact H5.
Qed.

(* the integral of the hat of level (1,2), index (1,1) is exact (1/8) in that state *)
Example C04_dw_exact_if_nonvacuous :
  exists st, ex_state = Some st /\
    dw_combi_integral ex_o false st ex_a ex_b (hat_list ex_a ex_b [1; 2]%Z [1; 1]%Z) = Some (hat_exact ex_a ex_b [1; 2]%Z [1; 1]%Z).
Proof.
  destruct C04_ex_state_facts as (st & E & _ & H4 & HI & HT & Hok & Hin & _). exists st. split; [exact E|].
  apply C04_dw_exact_if_integral_partial with (tau := [1; 2]%Z); try (rewrite H4; reflexivity); assumption.
Qed.

(* its combined interpolant at the point (3/8, 5/16) (not a grid point) is the hat's value there *)
Example C04_dw_exact_if_interp_nonvacuous :
  exists st, ex_state = Some st /\
    dw_combi_interp ex_o st ex_a ex_b (fun_hat ex_a ex_b [1; 2]%Z [1; 1]%Z) [q 3 8; q 5 16] = q 9 16.
Proof.
  destruct C04_ex_state_facts as (st & E & _ & H4 & HI & HT & Hok & Hin & _). exists st. split; [exact E|].
  rewrite (C04_dw_exact_if_interp_partial ex_a ex_b ex_o st [1; 2]%Z [1; 1]%Z [1; 2]%Z [q 3 8; q 5 16]);
    try (rewrite H4; reflexivity); try assumption.
  - vm_compute. reflexivity.
  - apply in_boxb_sound. vm_compute. reflexivity.
Qed.

(* the product (2 x + 1)(3 - y) is integrated exactly (2 * 5/2 = 5) in that state *)
Example C04_dw_linear_exact_nonvacuous :
  exists st, ex_state = Some st /\
    dw_combi_integral ex_o false st ex_a ex_b (lin_fns [(q 2 1, q 1 1); (q (-1) 1, q 3 1)]) = Some (q 5 1).
Proof.
  destruct C04_ex_state_facts as (st & E & _ & H4 & HI & HT & _ & _ & Hdef). exists st. split; [exact E|].
  rewrite (C04_dw_linear_exact ex_a ex_b ex_o false st [(q 2 1, q 1 1); (q (-1) 1, q 3 1)]);
    try (rewrite H4; reflexivity); try assumption.
  - f_equal. apply Qc_is_canon. vm_compute. reflexivity.
  - rewrite H4. exact Hdef.
  - left. split; reflexivity.
Qed.

(* modified basis (boundary off) in the same state: the checker accepts, (2 x + 1)(3 - y) is integrated exactly *)
Example C04_dw_linear_exact_modified_nonvacuous :
  exists st, ex_state = Some st /\ lin_mod_okb (ex_opts 6 false false) st ex_a ex_b = true /\
    dw_combi_integral (ex_opts 6 false false) true st ex_a ex_b (lin_fns [(q 2 1, q 1 1); (q (-1) 1, q 3 1)]) = Some (q 5 1).
Proof.
  destruct C04_ex_state_facts as (st & E & _ & H4 & HI & HT & _ & _ & _). exists st. split; [exact E|].
  assert (Some_inj : forall (A : Type) (x y : A), Some x = Some y -> x = y) by (intros A x y H; injection H; auto).
  assert (H5 : option_map (fun st => stripes_definedb (ex_opts 6 false false) st (s_lmin (st_scheme st)) 2) ex_state = Some true)
    by (vm_compute; reflexivity).
  assert (H6 : option_map (fun st => lin_mod_okb (ex_opts 6 false false) st ex_a ex_b) ex_state = Some true) by (vm_compute; reflexivity).
  rewrite E in H5, H6. cbn [option_map] in H5, H6. apply Some_inj in H5. apply Some_inj in H6.
  split; [exact H6|].
  rewrite (C04_dw_linear_exact_modified_checked ex_a ex_b (ex_opts 6 false false) st [(q 2 1, q 1 1); (q (-1) 1, q 3 1)]);
    try (rewrite H4; reflexivity); try assumption.
  - f_equal. apply Qc_is_canon. vm_compute. reflexivity.
  - rewrite H4. apply stripes_definedb_sound. exact H5.
  - reflexivity.
Qed.

(* the history-level theorem on a history WITH a rebalancing rotation (the witness history of C04_dw_rebalancing_refuted): the hats of level >= 1
   are lost there, the product (2 x + 1)(3 - y) is still integrated exactly *)
Example C04_dw_reachable_linear_exact_nonvacuous :
  exists st0 st, dw_init 2 1 2 ex_a ex_b = Some st0 /\ dw_run (ex_opts 6 true true) ex_steps_rot st0 = Some st /\
    dw_keeps_initial_space (ex_opts 6 true true) st ex_a ex_b 1 2 = false /\
    dw_combi_integral (ex_opts 6 true true) false st ex_a ex_b (lin_fns [(q 2 1, q 1 1); (q (-1) 1, q 3 1)]) = Some (q 5 1).
Proof.
  destruct (dw_init 2 1 2 ex_a ex_b) as [st0|] eqn:E0; [|vm_compute in E0; discriminate].
  destruct (dw_run (ex_opts 6 true true) ex_steps_rot st0) as [st|] eqn:E1.
  - exists st0, st. split; [reflexivity|]. split; [exact E1|]. split.
    + pose proof C04_dw_rebalancing_refuted as [H _]. unfold keeps_after in H. rewrite E0, E1 in H. cbv beta iota in H. injection H as H. exact H.
    + rewrite (C04_dw_reachable_linear_exact 1 1 2 ex_a ex_b (ex_opts 6 true true) ex_steps_rot st0 st [(q 2 1, q 1 1); (q (-1) 1, q 3 1)]);
        try assumption; try reflexivity.
      * f_equal. apply Qc_is_canon. vm_compute. reflexivity.
      * repeat constructor.
      * right. right. left. reflexivity.
  - exfalso. pose proof C04_dw_rebalancing_refuted as [H _]. unfold keeps_after in H. rewrite E0, E1 in H. cbv beta iota in H. discriminate.
Qed.

(* the bounded history invariant is not vacuous: a path of length 2 of the case (7, off, 1, 2, 2) *)
Example C04_dw_norebalance_keeps_bounded_nonvacuous :
  exists st0 st, dw_init 2 1 2 unit_a unit_b = Some st0 /\
    run_path (b_opts 7 false) [(0, 3); (0, 4)]%nat st0 = Some st /\ st_lmax st = [4; 2]%Z.
Proof.
  destruct (dw_init 2 1 2 unit_a unit_b) as [st0|] eqn:E0; [|vm_compute in E0; discriminate].
  destruct (run_path (b_opts 7 false) [(0, 3); (0, 4)]%nat st0) as [st|] eqn:E1.
  - exists st0, st. split; [reflexivity|]. split; [exact E1|].
    assert (H : match dw_init 2 1 2 unit_a unit_b with
                | Some s0 => option_map st_lmax (run_path (b_opts 7 false) [(0, 3); (0, 4)]%nat s0)
                | None => None end = Some [4; 2]%Z) by (vm_compute; reflexivity).
    rewrite E0, E1 in H. injection H as H. exact H.
  - exfalso.
    assert (H : match dw_init 2 1 2 unit_a unit_b with
                | Some s0 => match run_path (b_opts 7 false) [(0, 3); (0, 4)]%nat s0 with Some _ => true | None => false end
                | None => false end = true) by (vm_compute; reflexivity).
    rewrite E0, E1 in H. discriminate.
Qed.

Print Assumptions C04_es_area_integral_exact.
Print Assumptions C04_moments_halves.
Print Assumptions C04_dw_rebalancing_refuted.
Print Assumptions C04_dw_version2_refuted.
Print Assumptions C04_hat_okb_sound.

(* ================================================================================================================== *)
(* Phase 3 (appended).
   Extend-split: the hypothesis "the monomial moments of the areas add up to the moment of the domain" of C04_es_multilinear_exact is now a
   THEOREM for every reachable state of every history (induction of C07's Proofs/ESInv.v repeated with the moment predicate next to
   Parts, Proofs/ESMoments.v): the per-state checker moments_additive can never fail on a model state. *)
From SG Require Import Model.ESInterp Proofs.ESGeom Proofs.ESInv Proofs.ESMoments Proofs.ESReach.
Theorem C04_es_reachable_moments_additive : forall dim version nrbe lmin lmax base auto single a b bens0 hist,
  wfbox a b -> length a = dim -> (lmin <= lmax)%Z ->
  moments_additive a b (map abox (st_objs (run_events (start_state dim version nrbe lmin lmax base auto single a b bens0) hist))) = true.
Proof. exact reachable_moments_additive. Qed.
Theorem C04_es_reachable_moments_add : forall dim version nrbe lmin lmax base auto single a b bens0 hist ex,
  wfbox a b -> length a = dim -> (lmin <= lmax)%Z -> length ex = dim ->
  sumQ (map (fun bx : box => bmom (fst bx) (snd bx) ex)
            (map abox (st_objs (run_events (start_state dim version nrbe lmin lmax base auto single a b bens0) hist))))
  = bmom a b ex.
Proof. exact reachable_moments_add. Qed.
(* every reachable state whose areas carry valid, non-empty local combinations (all versions; state_areas = box + computed component grids) *)
Theorem C04_es_reachable_multilinear_exact : forall dim version nrbe lmin lmax base auto single a b bens0,
  wfbox a b -> length a = dim -> (lmin <= lmax)%Z -> forall hist exps,
  let st := run_events (start_state dim version nrbe lmin lmax base auto single a b bens0) hist in
  (forall x, In x (st_objs st) -> valid_local_combi dim (area_grids (st_cp st) x) = true /\ area_grids (st_cp st) x <> []) ->
  length exps = dim -> Forall (fun k => (k <= 1)%nat) exps ->
  es_integral a b (state_areas st) exps = bmom a b exps.
Proof. exact es_reachable_multilinear_exact. Qed.
(* coarsening version 0 (the default), dimension >= 2: UNCONDITIONAL for every history *)
Theorem C04_es_reachable_multilinear_exact_v0 : forall n nrbe lmin lmax base auto single a b bens0 hist exps,
  wfbox a b -> length a = S (S n) -> (lmin <= lmax)%Z ->
  length exps = S (S n) -> Forall (fun k => (k <= 1)%nat) exps ->
  es_integral a b (state_areas (run_events (start_state (S (S n)) 0 nrbe lmin lmax base auto single a b bens0) hist)) exps
  = bmom a b exps.
Proof. exact es_reachable_multilinear_exact_v0. Qed.
Print Assumptions C04_es_reachable_moments_additive.
Print Assumptions C04_es_reachable_moments_add.
Print Assumptions C04_es_reachable_multilinear_exact.
Print Assumptions C04_es_reachable_multilinear_exact_v0.

(* non-vacuity: [0,2] x [-1,1], lmin 1, lmax 2, two driver steps and an observation: 16 areas, lmax raised to 3, integral of x is 4 *)
Definition es_a := [q 0 1; q (-1) 1].
Definition es_b := [q 2 1; q 1 1].
Definition es_hist := [Step (mkStep [] []); Observe; Step (mkStep [] [])].
Definition es_st := run_events (start_state 2 0 1 1 2 1 false false es_a es_b []) es_hist.
Example C04_es_reachable_nonvacuous :
  length (st_objs es_st) = 16%nat /\ ExtendSplit.st_lmax es_st = 3%Z /\ es_integral es_a es_b (state_areas es_st) [1%nat; 0%nat] = q 4 1.
Proof.
  split; [vm_compute; reflexivity|]. split; [vm_compute; reflexivity|].
  unfold es_st. rewrite (C04_es_reachable_multilinear_exact_v0 0 1 1 2 1 false false es_a es_b [] es_hist [1%nat; 0%nat]).
  - apply Qc_is_canon. vm_compute. reflexivity.
  - unfold es_a, es_b, q. simpl. split; [|split]; try exact I; apply Qclt_alt; vm_compute; reflexivity.
  - reflexivity.
  - discriminate.
  - reflexivity.
  - repeat constructor.
Qed.

(* ---- cell strategy (Model/CellScheme.v: cell_dict, container, RefinementObjectCell.refine with the hierarchical-parent test,
   evaluate_operation_area = inclusion-exclusion over the 2^d relevant parents, compute_subcell_with_interpolation) ----
   For EVERY sequence of refinement rounds (any positions) every multilinear monomial is integrated exactly, whenever the evaluation returns
   a value (no KeyError for a relevant parent; observed on every explored state) and the initial state passes the verified checker
   cell_init_okb (evaluated per explored (dim, lmin, domain); the general proof that initialize_refinement tiles the domain is NOT done:
   it needs 'a child created by split_cell_arbitrary_dim is not yet in cell_dict', a geometric uniqueness statement). *)
From SG Require Import Model.CellScheme Proofs.CellExactA Proofs.CellExactB.
Theorem C04_cell_multilinear_exact : forall dim lmin a b rounds ex v,
  cell_init_okb dim lmin a b = true -> length ex = dim -> Forall (fun n => (n <= 1)%nat) ex ->
  cell_integral (cell_run (cell_init dim lmin a b) rounds) (monomial ex) = Some v -> v = bmom a b ex.
Proof. exact cell_multilinear_exact. Qed.
(* the ingredients, each for all inputs: the interpolant of ANY non-degenerate cell integrates a multilinear monomial over any sub-box exactly;
   the inclusion-exclusion coefficients of the relevant parents sum to 1 for a cell without parents and to 0 otherwise; the invariant is
   preserved by every refinement; the checker is sound *)
Theorem C04_cell_subcell_integral_multilinear : forall dim cellk sub ex,
  wfbox (fst cellk) (snd cellk) -> length (fst cellk) = dim ->
  length (fst sub) = dim -> length (snd sub) = dim -> length ex = dim -> Forall (fun k => (k <= 1)%nat) ex ->
  subcell_integral dim cellk sub (monomial ex) = bmom (fst sub) (snd sub) ex.
Proof. exact subcell_integral_multilinear. Qed.
Theorem C04_cell_relevant_parents_coeff_sum : forall a b lmin dim k lv,
  coeff_sum (relevant_parents a b lmin dim k lv) = if is_base lmin dim lv then 1%Z else 0%Z.
Proof. exact relevant_parents_coeff_sum. Qed.
Theorem C04_cell_refine_preserves_invariant : forall ex st k, CInv ex st -> In k (cs_objs st) -> CInv ex (refine_cell st k).
Proof. exact refine_cell_inv. Qed.
Theorem C04_cell_state_okb_sound : forall st ex, cstate_okb st = true -> length ex = cs_dim st -> Forall (fun n => (n <= 1)%nat) ex -> CInv ex st.
Proof. exact cstate_okb_sound. Qed.
Print Assumptions C04_cell_multilinear_exact.
Print Assumptions C04_cell_subcell_integral_multilinear.
Print Assumptions C04_cell_relevant_parents_coeff_sum.
Print Assumptions C04_cell_refine_preserves_invariant.
Print Assumptions C04_cell_state_okb_sound.

(* non-vacuity: [0,1] x [-1,1], lmin 1, two rounds of refinements: 12 container cells, integral of x is 1 *)
Definition cell_a := [q 0 1; q (-1) 1].
Definition cell_b := [q 1 1; q 1 1].
Definition cell_rounds := [[0%nat]; [1%nat; 4%nat]].
Example C04_cell_nonvacuous :
  cell_init_okb 2 1 cell_a cell_b = true /\
  length (cs_objs (cell_run (cell_init 2 1 cell_a cell_b) cell_rounds)) = 12%nat /\
  cell_integral (cell_run (cell_init 2 1 cell_a cell_b) cell_rounds) (monomial [1%nat; 0%nat]) = Some (q 1 1).
Proof.
  split; [vm_compute; reflexivity|]. split; [vm_compute; reflexivity|].
  destruct (cell_integral (cell_run (cell_init 2 1 cell_a cell_b) cell_rounds) (monomial [1%nat; 0%nat])) as [v|] eqn:E.
  - f_equal. rewrite (C04_cell_multilinear_exact 2 1 cell_a cell_b cell_rounds [1%nat; 0%nat] v); [apply Qc_is_canon; vm_compute; reflexivity | vm_compute; reflexivity | reflexivity | repeat constructor | exact E].
  - exfalso. assert (H : match cell_integral (cell_run (cell_init 2 1 cell_a cell_b) cell_rounds) (monomial [1%nat; 0%nat]) with Some _ => true | None => false end = true)
      by (vm_compute; reflexivity). rewrite E in H. discriminate.
Qed.

(* ---- Phase 3, item 3: the history invariant for versions 6/7/8 WITHOUT rebalancing.
   The search for the true invariant gave: an initial tree node of level k in dimension d belongs to the stripe of component level
   max(lmin, k) + m_d, where m_d is the subtraction value of its (unrefined) region; a tensor hat keeps a tau in the index set iff the
   sum over the dimensions of these m_d stays <= max_d (lmax_d - lmax_initial).  The arithmetic of version 7 satisfies
   sum_d m_d <= max_d sv_d on everything enumerated (dimensions 2,3, coarsenings <= 5); the loops of versions 6 and 8 do NOT in three or more
   dimensions (max coarsenings (1,2,2), sv (1,2,2) -> m = (1,1,1)), and this arithmetic counterexample is realised by a history: the
   statement is FALSE for the default version 6 (and 8) in d = 3 - a new finding, reproduced on the implementation (C04-dw-version-6-8-3d):
   d = 3, lmin 1, lmax 4, no rebalancing: refine the last interval of every dimension, then the last interval of dimensions 1 and 2 again
   (lmax = (5,6,6)): the hat of level (2,2,2), index (1,1,1) of the initial space is integrated as 0 instead of 1/64; version 7 keeps it. *)
Definition o3 (version : Z) (bd : bool) : dw_opts :=
  mkOpts version false bd (Q2Qc (9 # 10)) (rebalance_dec_exact (Q2Qc (1 # 10))) (v3_dec_exact 3).
Definition a3 := [q 0 1; q 0 1; q 0 1].
Definition b3 := [q 1 1; q 1 1; q 1 1].
Definition lastb (n : nat) : list Qc := repeat (q 0 1) (n - 1) ++ [q 1 1].
Definition zerob (n : nat) : list Qc := repeat (q 0 1) n.
Definition steps3 := [ [lastb 16; lastb 16; lastb 16]; [zerob 17; lastb 17; lastb 17] ].
Definition hat222_exact_after (version : Z) (bd : bool) (steps : list (list (list Qc))) : option (bool * list Z) :=
  match dw_init 3 1 4 a3 b3 with
  | Some st0 => match dw_run (o3 version bd) steps st0 with
                | Some st => Some (dw_keeps_hat (o3 version bd) st a3 b3 ([2; 2; 2]%Z, [1; 1; 1]%Z), st_lmax st)
                | None => None end
  | None => None end.
Theorem C04_dw_version6_8_3d_refuted :
  existsb (fun ji : lv * lv => lv_eqb (fst ji) [2; 2; 2]%Z && lv_eqb (snd ji) [1; 1; 1]%Z) (initial_hats 3 1 4 false) = true /\
  hat222_exact_after 6 false [] = Some (true, [4; 4; 4]%Z) /\ hat222_exact_after 6 false steps3 = Some (false, [5; 6; 6]%Z) /\
  hat222_exact_after 8 false steps3 = Some (false, [5; 6; 6]%Z) /\ hat222_exact_after 7 false steps3 = Some (true, [5; 6; 6]%Z) /\
  hat222_exact_after 6 true steps3 = Some (false, [5; 6; 6]%Z).
Proof. vm_compute. repeat split. Qed.
Print Assumptions C04_dw_version6_8_3d_refuted.

(* ================================================================================================================== *)
(* Phase 4 (appended).  Cell strategy: the two hypotheses of C04_cell_multilinear_exact are now theorems.
   (1) initialize_refinement: for EVERY dimension, minimum level >= 0 and non-degenerate domain the initial state satisfies the tiling
       invariant CInv and the width/level + parent-closure invariant DInv (no child created by split_cell_arbitrary_dim is already in
       cell_dict: cells of one pass have disjoint interiors, cells of different passes have different widths) - Proofs/CellInit.v;
   (2) no KeyError: in every reachable state every relevant parent of every container cell is in cell_dict (the cell found under a parent
       key carries the level vector with that level decreased by one, by width = (b-a)/2^level) - Proofs/CellDefined.v.
   Hence: for every dimension, lmin, domain and EVERY sequence of refinement rounds the evaluation returns a value, and for every multilinear
   monomial that value is the exact moment. *)
From SG Require Import Proofs.CellDefined Proofs.CellInit.
Theorem C04_cell_multilinear_exact_unconditional : forall dim lmin a b rounds ex,
  wfbox a b -> length a = dim -> (0 <= lmin)%Z -> length ex = dim -> Forall (fun n => (n <= 1)%nat) ex ->
  cell_integral (cell_run (cell_init dim lmin a b) rounds) (monomial ex) = Some (bmom a b ex).
Proof. exact cell_multilinear_exact_unconditional. Qed.
Theorem C04_cell_no_keyerror : forall dim lmin a b rounds f,
  wfbox a b -> length a = dim -> (0 <= lmin)%Z -> exists v, cell_integral (cell_run (cell_init dim lmin a b) rounds) f = Some v.
Proof. exact cell_no_keyerror. Qed.
Theorem C04_cell_init_invariants : forall dim lmin a b ex,
  wfbox a b -> length a = dim -> (0 <= lmin)%Z -> length ex = dim -> Forall (fun n => (n <= 1)%nat) ex ->
  CInv ex (cell_init dim lmin a b) /\ DInv (cell_init dim lmin a b).
Proof. exact cell_init_invariants. Qed.
Theorem C04_cell_refine_preserves_dinv : forall st k, DInv st -> DInv (refine_cell st k).
Proof. exact refine_cell_dinv. Qed.
Theorem C04_cell_parent_levels : forall a b dim, (forall d, (d < dim)%nat -> (nth d a 0 < nth d b 0)%Qc) ->
  forall lmin d lv k p lvp, cWL a b dim k lv -> (d < dim)%nat -> (0 <= lmin)%Z -> parent_key a b lmin d lv k = Some p ->
  cWL a b dim p lvp -> lvp = bump_lv d (-1) lv.
Proof. exact parent_levels. Qed.
Print Assumptions C04_cell_multilinear_exact_unconditional.
Print Assumptions C04_cell_no_keyerror.
Print Assumptions C04_cell_init_invariants.
Print Assumptions C04_cell_refine_preserves_dinv.
Print Assumptions C04_cell_parent_levels.

(* non-vacuity: the unconditional theorem on the history of C04_cell_nonvacuous, without any checker *)
Example C04_cell_unconditional_nonvacuous :
  cell_integral (cell_run (cell_init 2 1 cell_a cell_b) cell_rounds) (monomial [1%nat; 0%nat]) = Some (q 1 1).
Proof.
  rewrite (C04_cell_multilinear_exact_unconditional 2 1 cell_a cell_b cell_rounds [1%nat; 0%nat]).
  - f_equal. apply Qc_is_canon. vm_compute. reflexivity.
  - unfold cell_a, cell_b, q. simpl. split; [|split]; try exact I; apply Qclt_alt; vm_compute; reflexivity.
  - reflexivity.
  - discriminate.
  - reflexivity.
  - repeat constructor.
Qed.

(* ================================================================================================================== *)
(* Phase 7 (appended).  Extend-split: the REPORTED result.  The harness oracle "reported result = sum of the values stored on the current
   areas" is C05's accumulator theorem on the extend-split model (imported: Proofs/AccumESProofs.v es_accumulator_is_recomputation - the
   accumulator of the driver, init / evaluate new areas / refine = remove the parent's value + add the children, is at every stop the sum
   over the current areas of their values under the current scheme).  New here: for the tensor trapezoidal rule applied to a multilinear
   monomial that sum IS the model integral of C04 (C04_es_recompute_is_es_integral), so per-area exactness + the C07 tiling in moment form +
   C07's local-combination theorems give exactness of the reported result itself. *)
From SG Require Import Model.Accum Model.AccumES Proofs.AccumESProofs Proofs.ESReported.
Theorem C04_es_recompute_is_es_integral : forall dim version nrbe lmin lmax base auto single a b bens0,
  wfbox a b -> length a = dim -> (lmin <= lmax)%Z -> forall hist ex,
  let st := run_events (start_state dim version nrbe lmin lmax base auto single a b bens0) hist in
  es_recompute (Fmono a b ex) st = es_integral a b (state_areas st) ex.
Proof. exact es_recompute_is_es_integral. Qed.
Theorem C04_es_reported_multilinear_exact : forall dim version nrbe lmin lmax base auto single a b bens0,
  wfbox a b -> length a = dim -> (lmin <= lmax)%Z -> forall hist ex (area_of : Z -> area) (s : astate Qc),
  let st := run_events (start_state dim version nrbe lmin lmax base auto single a b bens0) hist in
  Coupled Qc 0%Qc Qcplus (fun id => es_area_value (Fmono a b ex) (st_cp st) (area_of id)) s -> st_new s = [] ->
  es_live st = map area_of (map fst (st_areas s)) ->
  (forall x, In x (st_objs st) -> valid_local_combi dim (area_grids (st_cp st) x) = true /\ area_grids (st_cp st) x <> []) ->
  length ex = dim -> Forall (fun k => (k <= 1)%nat) ex ->
  st_total s = bmom a b ex /\ st_cont s = bmom a b ex.
Proof. exact es_reported_multilinear_exact. Qed.
Theorem C04_es_reported_multilinear_exact_v0 : forall n nrbe lmin lmax base auto single a b bens0 hist ex (area_of : Z -> area) (s : astate Qc),
  wfbox a b -> length a = S (S n) -> (lmin <= lmax)%Z ->
  let st := run_events (start_state (S (S n)) 0 nrbe lmin lmax base auto single a b bens0) hist in
  Coupled Qc 0%Qc Qcplus (fun id => es_area_value (Fmono a b ex) (st_cp st) (area_of id)) s -> st_new s = [] ->
  es_live st = map area_of (map fst (st_areas s)) ->
  length ex = S (S n) -> Forall (fun k => (k <= 1)%nat) ex ->
  st_total s = bmom a b ex /\ st_cont s = bmom a b ex.
Proof. exact es_reported_multilinear_exact_v0. Qed.
Print Assumptions C04_es_recompute_is_es_integral.
Print Assumptions C04_es_reported_multilinear_exact.
Print Assumptions C04_es_reported_multilinear_exact_v0.

(* non-vacuity: the recomputation over the 16 areas of es_st (C04_es_reachable_nonvacuous) for the monomial x is 4 *)
Example C04_es_recompute_nonvacuous : es_recompute (Fmono es_a es_b [1%nat; 0%nat]) es_st = q 4 1.
Proof.
  unfold es_st. rewrite (C04_es_recompute_is_es_integral 2 0 1 1 2 1 false false es_a es_b []).
  - exact (proj2 (proj2 C04_es_reachable_nonvacuous)).
  - unfold es_a, es_b, q. simpl. split; [|split]; try exact I; apply Qclt_alt; vm_compute; reflexivity.
  - reflexivity.
  - discriminate.
Qed.
