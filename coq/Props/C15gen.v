(* C15 — source-derived model of GlobalTrapezoidalGridWeighted.compute_weights / compute_1D_quad_weights.
   coq/Gen/UQGridGen.v is written by harness/translate/py2gallina_c15.py from sparseSpACE/Grid.py ($VERIF_REPO) at every run
   (rewritings D1-D2, N1-N8 documented in the front end and printed at the end of the generated file; floats are exact rationals,
   +-inf are +-2^1024, the distribution object enters through its two moment lists). Statements proved for ALL inputs below;
   the equality with Model/UQ.wtrap on general grids is compared per case on every run (extracted generated function against the
   extracted hand model on the implementation's moments, exact) - see Proofs/GenUQGridEq.v for what is missing for a proof. *)
From Coq Require Import ZArith List Bool QArith Qcanon.
From SG Require Import Base.QcUtil Base.PyLib Base.PyNum Base.PyNumUQ Model.Trap Model.UQ Gen.UQGridGen Proofs.UQ Proofs.GenUQGridEq.
Import ListNotations.

(* the method of the grid object is the static function on the moment lists of ITS dimension: nothing else of the object enters
   (no cache, no other dimension) - a source-level change that lets other state in is rejected by the front end (rule D2) *)
Theorem C15gen_quad_is_compute_weights : forall bd mb m0 m1 x a b d lv,
  GlobalTrapezoidalGridWeighted_compute_1D_quad_weights bd mb m0 m1 x a b d lv
  = GlobalTrapezoidalGridWeighted_compute_weights x a b m0 m1 bd mb.
Proof. exact gen_quad_is_compute_weights. Qed.
Theorem C15gen_one_point : forall p a b m0 m1 bd mb,
  GlobalTrapezoidalGridWeighted_compute_weights [p] a b m0 m1 bd mb = wtrap bd mb a b [].
Proof. exact gen_one_point. Qed.
Theorem C15gen_three_points_noboundary : forall p0 p1 p2 a b m0 m1 mb iv1 iv2,
  GlobalTrapezoidalGridWeighted_compute_weights [p0; p1; p2] a b m0 m1 false mb = wtrap false mb a b [iv1; iv2].
Proof. exact gen_three_points_noboundary. Qed.
Theorem C15gen_two_points_noboundary_raises : forall p0 p1 a b m0 m1 mb iv,
  GlobalTrapezoidalGridWeighted_compute_weights [p0; p1] a b m0 m1 false mb = None /\ wtrap false mb a b [iv] = None.
Proof. exact gen_two_points_noboundary_raises. Qed.
Theorem C15gen_no_points : forall a b m0 m1,
  GlobalTrapezoidalGridWeighted_compute_weights [] a b m0 m1 false false = None /\
  GlobalTrapezoidalGridWeighted_compute_weights [] a b m0 m1 true false = Some [].
Proof. exact gen_no_points. Qed.
Print Assumptions C15gen_quad_is_compute_weights.
Print Assumptions C15gen_one_point.
Print Assumptions C15gen_three_points_noboundary.
Print Assumptions C15gen_two_points_noboundary_raises.
Print Assumptions C15gen_no_points.

(* ==== PHASE 4: the whole function, ALL n ==== *)
(* unemb q = the extended-real grid point the rational q stands for (|q| >= 2^1024: +-inf); ivs_of x m0s m1s = the intervals of the
   hand model for the point list x and the moment lists.  Precondition: two neighbouring FINITE points differ (where the Python
   divides by zero).  The generated moment loop (two cells per iteration), the clipping loop with its assert and the renormalisation
   of the inner cells are Model/UQ.wtrap. *)
Theorem C15gen_compute_weights_eq : forall x a b m0s m1s bd,
  (2 <= length x)%nat -> length m0s = (length x - 1)%nat -> length m1s = (length x - 1)%nat ->
  (forall k, (S k < length x)%nat -> py_isinf (nth k x 0%Qc) = false -> py_isinf (nth (S k) x 0%Qc) = false ->
             nth (S k) x 0%Qc <> nth k x 0%Qc) ->
  GlobalTrapezoidalGridWeighted_compute_weights x a b m0s m1s bd false = wtrap bd false a b (ivs_of x m0s m1s).
Proof. exact gen_compute_weights_eq. Qed.
(* the modified-basis branch on strictly increasing finite grids (through the C09 equivalence of GlobalTrapezoidalGrid.compute_weights) *)
Theorem C15gen_compute_weights_modified_eq : forall x a b m0s m1s bd,
  (2 <= length x)%nat -> strictly_increasing x -> (forall q, In q x -> py_isinf q = false) -> a <> b ->
  GlobalTrapezoidalGridWeighted_compute_weights x a b m0s m1s bd true = wtrap bd true a b (ivs_of x m0s m1s).
Proof. exact gen_compute_weights_mod_eq. Qed.
(* hence the C15 statements hold for what the CODE says: whenever the translated method returns, its weights are non-negative,
   and without boundary points they sum to 1 - for arbitrary moment inputs *)
Theorem C15gen_weights_nonneg : forall x a b m0s m1s bd w,
  (2 <= length x)%nat -> length m0s = (length x - 1)%nat -> length m1s = (length x - 1)%nat ->
  (forall k, (S k < length x)%nat -> py_isinf (nth k x 0%Qc) = false -> py_isinf (nth (S k) x 0%Qc) = false ->
             nth (S k) x 0%Qc <> nth k x 0%Qc) ->
  GlobalTrapezoidalGridWeighted_compute_weights x a b m0s m1s bd false = Some w -> forall t, In t w -> (0 <= t)%Qc.
Proof.
  intros x a b m0s m1s bd w H1 H2 H3 H4 E. rewrite gen_compute_weights_eq in E by assumption. exact (wtrap_nonneg _ _ _ _ _ E).
Qed.
Theorem C15gen_weights_sum_one_noboundary : forall x a b m0s m1s w,
  (2 <= length x)%nat -> length m0s = (length x - 1)%nat -> length m1s = (length x - 1)%nat ->
  (forall k, (S k < length x)%nat -> py_isinf (nth k x 0%Qc) = false -> py_isinf (nth (S k) x 0%Qc) = false ->
             nth (S k) x 0%Qc <> nth k x 0%Qc) ->
  GlobalTrapezoidalGridWeighted_compute_weights x a b m0s m1s false false = Some w -> sumQ w = 1%Qc.
Proof.
  intros x a b m0s m1s w H1 H2 H3 H4 E. rewrite gen_compute_weights_eq in E by assumption. exact (wtrap_sum_one_noboundary _ _ _ _ E).
Qed.
Print Assumptions C15gen_compute_weights_eq.
Print Assumptions C15gen_compute_weights_modified_eq.
Print Assumptions C15gen_weights_nonneg.
Print Assumptions C15gen_weights_sum_one_noboundary.

(* non-vacuity: the generated function on a concrete grid with an infinite left end (triangle-like masses), with and without
   boundary points, equals the hand model *)
Definition q (n : Z) (d : positive) : Qc := Q2Qc (n # d).
Example C15gen_nonvacuous :
  let pts := [(- py_INF)%Qc; q 0 1; q 1 1; q 3 1] in
  let m0 := [q 1 2; q 1 4; q 1 4] in let m1 := [q (-2) 5; q 1 10; q 1 2] in
  let ivs := [ {| i_x1 := NegInf; i_x2 := Fin (q 0 1); i_m0 := q 1 2; i_m1 := q (-2) 5 |};
               {| i_x1 := Fin (q 0 1); i_x2 := Fin (q 1 1); i_m0 := q 1 4; i_m1 := q 1 10 |};
               {| i_x1 := Fin (q 1 1); i_x2 := Fin (q 3 1); i_m0 := q 1 4; i_m1 := q 1 2 |} ] in
  option_map (map this) (GlobalTrapezoidalGridWeighted_compute_weights pts 0%Qc 0%Qc m0 m1 true false)
    = option_map (map this) (wtrap true false 0%Qc 0%Qc ivs) /\
  option_map (map this) (GlobalTrapezoidalGridWeighted_compute_weights pts 0%Qc 0%Qc m0 m1 false false)
    = option_map (map this) (wtrap false false 0%Qc 0%Qc ivs) /\
  wtrap true false 0%Qc 0%Qc ivs <> None.
Proof. cbv zeta. split; [vm_compute; reflexivity|]. split; [vm_compute; reflexivity | vm_compute; discriminate]. Qed.
