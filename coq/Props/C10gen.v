(* C10 — theorems about the SOURCE-DERIVED get_parent: coq/Gen/LagrangeParentGen.v is regenerated from
   GlobalLagrangeGrid.get_parent of the current $VERIF_REPO/sparseSpACE/Grid.py by harness/translate/py2gallina_c10.py at every setup.
   Property theorems only. *)
From Coq Require Import ZArith List QArith Qcanon Bool Arith.
From SG Require Import Base.QcUtil Base.PyLib Base.PyBreak Model.Basis Gen.LagrangeParentGen Proofs.GenLagrangeParentEq.
Import ListNotations.

(* the generated hierarchy scan IS the hand-written model of the level loop (levels as Python ints), for every pair of lists of equal
   length and every point of level >= 1 (the level loop calls get_parent for levels >= 2 only) *)
Theorem C10_gen_get_parent_is_model : forall x pts levs,
  length pts = length levs ->
  (forall ip, index_of x pts = Some ip -> (1 <= nth ip levs O)%nat) ->
  GlobalLagrangeGrid_get_parent x pts (map Z.of_nat levs) = get_parent x pts levs.
Proof. exact gen_get_parent_eq. Qed.
(* on lists of the shape a refinement tree produces around x the generated scan returns the DEEPER interval end - the parent the
   tree recursion (all-trees acceptance theorem) uses *)
Theorem C10_gen_get_parent_returns_the_deeper_interval_end : forall (pre L R post : list (Qc * nat)) u lu x lx v lv,
  let pl := pre ++ (u, lu) :: L ++ (x, lx) :: R ++ (v, lv) :: post in
  ~ In x (map fst (pre ++ (u, lu) :: L)) ->
  (forall e, In e L -> (lx - 1 < snd e)%nat) -> (forall e, In e R -> (lx - 1 < snd e)%nat) ->
  Nat.max lu lv = (lx - 1)%nat -> (1 <= lx)%nat ->
  GlobalLagrangeGrid_get_parent x (map fst pl) (map Z.of_nat (map snd pl)) = Some (if (lu =? lx - 1)%nat then u else v).
Proof. exact gen_get_parent_deeper_end. Qed.
(* a point that is not in the grid has no parent (ValueError of list.index) *)
Theorem C10_gen_get_parent_of_absent_point : forall x pts levs,
  length pts = length levs -> index_of x pts = None -> GlobalLagrangeGrid_get_parent x pts (map Z.of_nat levs) = None.
Proof. exact gen_get_parent_absent. Qed.
Print Assumptions C10_gen_get_parent_is_model.
Print Assumptions C10_gen_get_parent_returns_the_deeper_interval_end.
Print Assumptions C10_gen_get_parent_of_absent_point.

(* non-vacuity: the generated scan on the tree 0, 1/8 (l3), 1/4 (l2), 1/2 (l1), 3/4 (l2), 1: parent of 1/8 is 1/4, parent of 3/4 is 1/2 *)
Example C10_gen_get_parent_nonvacuous :
  let pts := [Q2Qc 0; Q2Qc (1 # 8); Q2Qc (1 # 4); Q2Qc (1 # 2); Q2Qc (3 # 4); Q2Qc 1] in let levs := [0; 3; 2; 1; 2; 0]%Z in
  match GlobalLagrangeGrid_get_parent (Q2Qc (1 # 8)) pts levs with Some r => Qc_eqb r (Q2Qc (1 # 4)) | None => false end = true
  /\ match GlobalLagrangeGrid_get_parent (Q2Qc (3 # 4)) pts levs with Some r => Qc_eqb r (Q2Qc (1 # 2)) | None => false end = true.
Proof. split; vm_compute; reflexivity. Qed.
