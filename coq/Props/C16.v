(* C16 — Density estimation solves the right linear system.
   Property theorems only (each closed by `exact` of a lemma from Proofs/Gram*.v) + non-vacuity examples.
   "Integral" = formal integral of polynomials (Base/PolyInt.v).  Model: Model/Gram.v. *)
From Coq Require Import ZArith List QArith Qcanon Bool Lia.
From SG Require Import Base.QcUtil Base.PolyInt Model.Gram Model.GramSolve
  Proofs.GramHat Proofs.GramEntries Proofs.GramPD Proofs.GramNorm
  Proofs.KronSOS Proofs.StripeSOS Proofs.GramKron Proofs.GramSolveP Proofs.GramGauss Proofs.GramCombine Proofs.DECacheP Proofs.DEPaths Proofs.DEUniform.
Import ListNotations.
Open Scope Qc_scope.

(* ---- matrix entries, non-uniform grids: the coded formulas of calculate_R_value_analytically are (hi-lo)/3 on the
   diagonal and |p_i-p_j|/6 for two different nodes, and these are the integrals of the products of the hats *)
Theorem C16_gram_nonuniform_closed_form_diagonal : forall t, proper t ->
  R1 t t = (h_hi t - h_lo t) / Qc3 /\
  R1 t t = pintegral (pmul (hat_left_poly t) (hat_left_poly t)) (h_lo t) (h_p t)
         + pintegral (pmul (hat_right_poly t) (hat_right_poly t)) (h_p t) (h_hi t).
Proof. intros t H. split; [exact (R1_same t H) | exact (gram_same_is_integral t H)]. Qed.
Print Assumptions C16_gram_nonuniform_closed_form_diagonal.

Theorem C16_gram_nonuniform_closed_form_neighbours : forall ti tj,
  h_p ti < h_p tj -> h_hi ti = h_p tj -> h_lo tj = h_p ti ->
  R1 ti tj = (h_p tj - h_p ti) / Qc6 /\ R1 tj ti = R1 ti tj /\
  R1 ti tj = pintegral (pmul (hat_right_poly ti) (hat_left_poly tj)) (h_p ti) (h_p tj).
Proof.
  intros ti tj H E1 E2.
  assert (N : h_p ti <> h_p tj) by (intro E; apply (Qc_lt_neq _ _ H); symmetry; exact E).
  split; [|split].
  - rewrite (R1_distinct ti tj N). rewrite Qc_abs_neg_eq by qc_order. f_equal. ring.
  - symmetry. exact (R1_sym_distinct ti tj N).
  - exact (gram_adjacent_is_integral ti tj H E1 E2).
Qed.
Print Assumptions C16_gram_nonuniform_closed_form_neighbours.

(* the polynomials in these integrals ARE the hat function evaluated by the code, and the hat vanishes elsewhere *)
Theorem C16_hat_is_piecewise_polynomial : forall t x, proper t ->
  (h_lo t <= x -> x < h_p t -> hat_scalar t x = peval (hat_left_poly t) x) /\
  (h_p t <= x -> x <= h_hi t -> hat_scalar t x = peval (hat_right_poly t) x) /\
  (x <= h_lo t \/ h_hi t <= x -> hat_scalar t x = 0).
Proof.
  intros t x [Hl Hr]. split; [|split].
  - exact (hat_scalar_left t x Hl).
  - exact (hat_scalar_right t x Hr).
  - exact (hat_scalar_outside t x (conj Hl Hr)).
Qed.
Print Assumptions C16_hat_is_piecewise_polynomial.

(* ---- matrix entries, uniform grids (build_R_matrix): the 1/(2^(l-1) 3), 1/(2^(l-1) 12) rule is the non-uniform
   formula on the uniform hats; d-dimensional entries are the products, zero iff some indices differ by > 1 *)
Theorem C16_gram_uniform_closed_form : forall l i, (1 <= l)%Z ->
  diag1 l = R1 (uniform_dom l i) (uniform_dom l i) /\ off1 l = R1 (uniform_dom l i) (uniform_dom l (i + 1)).
Proof. intros l i H. split; [exact (diag1_is_R1 l i H) | exact (off1_is_R1 l i H)]. Qed.
Theorem C16_gram_uniform_entry : forall lv iv jv, Uval lv iv jv = Uspec lv iv jv.
Proof. exact gram_uniform_entry. Qed.
Print Assumptions C16_gram_uniform_closed_form.
Print Assumptions C16_gram_uniform_entry.

(* ---- symmetry: the assembled matrices are symmetric, and the entry functions are symmetric themselves *)
Theorem C16_gram_symmetric : forall pts lam lv,
  symmetricM (length pts) (R_matrix_nonuniform pts lam) /\
  symmetricM (length (index_list lv)) (R_matrix_uniform lv lam).
Proof. intros pts lam lv. split; [exact (sym_matrix_symmetric Rval lam pts) | exact (sym_matrix_d_symmetric _ _ _)]. Qed.
Theorem C16_entry_function_symmetric : forall lv iv jv ti tj,
  Uspec lv iv jv = Uspec lv jv iv /\ (h_p ti <> h_p tj -> R1 ti tj = R1 tj ti).
Proof. intros. split; [exact (Uspec_sym lv iv jv) | exact (R1_sym_distinct ti tj)]. Qed.
Print Assumptions C16_gram_symmetric.

(* ---- mass lumping = diagonal of the full matrix *)
Theorem C16_lumped_is_diagonal : forall pts lam,
  diagM (length pts) (R_matrix_nonuniform pts lam) = R_lumped_nonuniform pts lam.
Proof. intros pts lam. exact (lumped_is_diagonal_gen Rval lam pts). Qed.
Theorem C16_lumped_uniform_is_diagonal : forall lv iv, length iv = length lv -> diag_val lv = Uval lv iv iv.
Proof. exact lumped_uniform_is_diagonal. Qed.
Print Assumptions C16_lumped_is_diagonal.

(* ---- positive definiteness in one dimension, EVERY strictly increasing stripe, every lambda >= 0 *)
Theorem C16_quadratic_form_is_cell_sum : forall xs, strictly_inc xs -> forall v lam, length v = length (windows xs) ->
  quad (R_matrix_nonuniform (pts1 xs) lam) v = cellform xs (0 :: v ++ [0]) + lam * dotQ v v.
Proof. exact quad_is_cellform. Qed.
Theorem C16_gram_1d_positive_definite : forall xs v lam,
  strictly_inc xs -> length v = length (windows xs) -> 0 <= lam -> Exists (fun x => x <> 0) v ->
  0 < quad (R_matrix_nonuniform (pts1 xs) lam) v.
Proof. exact gram_1d_positive_definite. Qed.
Print Assumptions C16_gram_1d_positive_definite.

(* ---- positive definiteness in EVERY dimension (round 2; Proofs/KronSOS.v, StripeSOS.v, GramKron.v): the d-dimensional system
   matrix is the Kronecker product of the 1D Gram matrices (the coded entry Rval, adjacency test included, is the product of
   the 1D entries), its quadratic form is a weighted sum of squares with positive weights, and it is positive definite for every
   choice of strictly increasing stripes, every lambda >= 0; likewise build_R_matrix for every level vector *)
Theorem C16_gram_nd_quadratic_form_is_weighted_sum_of_squares : forall stripes lam v,
  Forall strictly_inc stripes -> length v = length (cross (map windows stripes)) ->
  quad (R_matrix_nonuniform (cross (map windows stripes)) lam) v
  = sos_form (Tprod (map hat_fam stripes)) (cross (map windows stripes)) v + lam * dotQ v v
  /\ coeffs_pos (Tprod (map hat_fam stripes)).
Proof. exact gram_nd_quadratic_form_is_sos. Qed.
Theorem C16_gram_nd_positive_definite : forall stripes lam v,
  Forall strictly_inc stripes -> 0 <= lam -> length v = length (cross (map windows stripes)) ->
  Exists (fun x => x <> 0) v ->
  0 < quad (R_matrix_nonuniform (cross (map windows stripes)) lam) v.
Proof. exact gram_nd_positive_definite. Qed.
(* ... on the grid the code builds from stripes of the unit interval (grid_hats, incl. the coded special case of one inner point) *)
Theorem C16_gram_grid_positive_definite : forall stripes lam v,
  Forall unit_stripe stripes -> 0 <= lam -> length v = length (grid_hats stripes) -> Exists (fun x => x <> 0) v ->
  0 < quad (R_matrix_nonuniform (grid_hats stripes) lam) v.
Proof. exact gram_grid_positive_definite. Qed.
(* ... and build_R_matrix (1/3 - 1/12 rule with the coded overlap test) for EVERY level vector *)
Theorem C16_gram_uniform_positive_definite : forall lv lam v,
  0 <= lam -> length v = length (index_list lv) -> Exists (fun x => x <> 0) v ->
  0 < quad (R_matrix_uniform lv lam) v.
Proof. exact gram_uniform_positive_definite. Qed.
Print Assumptions C16_gram_nd_quadratic_form_is_weighted_sum_of_squares.
Print Assumptions C16_gram_nd_positive_definite.
Print Assumptions C16_gram_grid_positive_definite.
Print Assumptions C16_gram_uniform_positive_definite.

(* ---- hence the linear system has at most one solution: what the verified checker accepts IS the solution *)
Theorem C16_solution_unique : forall stripes lv lam x y b, 0 <= lam ->
  (Forall unit_stripe stripes -> length x = length (grid_hats stripes) -> length y = length (grid_hats stripes) ->
   matvec (R_matrix_nonuniform (grid_hats stripes) lam) x = b -> matvec (R_matrix_nonuniform (grid_hats stripes) lam) y = b -> x = y) /\
  (length x = length (index_list lv) -> length y = length (index_list lv) ->
   matvec (R_matrix_uniform lv lam) x = b -> matvec (R_matrix_uniform lv lam) y = b -> x = y).
Proof.
  intros stripes lv lam x y b Hlam. split.
  - intros Hs Hx Hy Ex Ey. exact (gram_grid_solution_unique stripes lam x y b Hs Hlam Hx Hy Ex Ey).
  - intros Hx Hy Ex Ey. exact (gram_uniform_solution_unique lv lam x y b Hlam Hx Hy Ex Ey).
Qed.
Theorem C16_accepted_certificate_is_the_solution : forall stripes lam x y b,
  Forall unit_stripe stripes -> 0 <= lam ->
  length x = length (grid_hats stripes) -> length y = length (grid_hats stripes) ->
  check_solution (R_matrix_nonuniform (grid_hats stripes) lam) x b = true ->
  matvec (R_matrix_nonuniform (grid_hats stripes) lam) y = b -> y = x.
Proof.
  intros stripes lam x y b Hs Hlam Hx Hy Hc Ey.
  exact (gram_grid_solution_unique stripes lam y x b Hs Hlam Hy Hx Ey (check_solution_sound _ _ _ Hc)).
Qed.
Print Assumptions C16_solution_unique.
Print Assumptions C16_accepted_certificate_is_the_solution.

(* ---- the solve inside the model (Model/GramSolve.v: exact elimination without pivoting, guarded by the checker) and the
   complete pipeline data set -> surpluses: whatever the model returns solves the system, is the ONLY solution, and is
   normalised as coded; and the model's solve NEVER fails on these systems (elimination without pivoting succeeds on every
   matrix with a positive quadratic form, Proofs/GramGauss.v), so the pipeline is total: existence and uniqueness *)
Theorem C16_model_solve_sound : forall G b x, solve_checked G b = Some x -> matvec G x = b.
Proof. exact solve_checked_sound. Qed.
Theorem C16_pipeline_dimension_wise : forall stripes lam data signs labelled raw fin integ,
  Forall unit_stripe stripes -> 0 <= lam ->
  surpluses_nonuniform stripes lam false data signs labelled = Some (raw, fin, integ) ->
  let G := R_matrix_nonuniform (grid_hats stripes) lam in
  let b := rhs (grid_hats stripes) data signs in
  matvec G raw = b /\
  (forall y, length y = length (grid_hats stripes) -> matvec G y = b -> y = raw) /\
  (fin, integ) = normalise_weighted labelled (tensor_weights stripes) raw.
Proof. exact surpluses_nonuniform_spec. Qed.
Theorem C16_pipeline_uniform : forall lv lam data signs labelled raw fin integ,
  0 <= lam ->
  surpluses_uniform lv lam false data signs labelled = Some (raw, fin, integ) ->
  let G := R_matrix_uniform lv lam in
  let b := rhs_uniform lv data signs in
  matvec G raw = b /\
  (forall y, length y = length (index_list lv) -> matvec G y = b -> y = raw) /\
  (fin, integ) = normalise_uniform labelled raw.
Proof. exact surpluses_uniform_spec. Qed.
Theorem C16_model_solve_complete : forall n G b, wfM n G -> length b = n -> posdef n G ->
  exists x, solve_checked G b = Some x /\ length x = n /\ matvec G x = b.
Proof. exact solve_checked_complete. Qed.
Theorem C16_pipeline_total : forall stripes lv lam data signs labelled, 0 <= lam ->
  (Forall unit_stripe stripes ->
   exists raw fin integ, surpluses_nonuniform stripes lam false data signs labelled = Some (raw, fin, integ)) /\
  (exists raw fin integ, surpluses_uniform lv lam false data signs labelled = Some (raw, fin, integ)).
Proof.
  intros stripes lv lam data signs labelled Hlam. split.
  - intro Hs. exact (surpluses_nonuniform_total stripes lam data signs labelled Hs Hlam).
  - exact (surpluses_uniform_total lv lam data signs labelled Hlam).
Qed.
Theorem C16_system_has_unique_solution : forall stripes lam b,
  Forall unit_stripe stripes -> 0 <= lam -> length b = length (grid_hats stripes) ->
  exists x, length x = length (grid_hats stripes) /\ matvec (R_matrix_nonuniform (grid_hats stripes) lam) x = b /\
            forall y, length y = length (grid_hats stripes) -> matvec (R_matrix_nonuniform (grid_hats stripes) lam) y = b -> y = x.
Proof. exact gram_grid_system_has_unique_solution. Qed.
Print Assumptions C16_model_solve_complete.
Print Assumptions C16_pipeline_total.
Print Assumptions C16_system_has_unique_solution.
(* the code solves the scaled system (R * s) x = b * s with s = 1 / max R: same solutions *)
Theorem C16_scaled_system_same_solutions : forall G b x s, s <> 0 ->
  (matvec (map (map (fun a => a * s)) G) x = map (fun a => a * s) b <-> matvec G x = b).
Proof. exact scaled_system_same_solutions. Qed.
Print Assumptions C16_model_solve_sound.
Print Assumptions C16_pipeline_dimension_wise.
Print Assumptions C16_pipeline_uniform.
Print Assumptions C16_scaled_system_same_solutions.

(* ---- right-hand side = sample mean of the tensor hats, signed by the labels *)
Theorem C16_rhs_is_sample_mean : forall pts data signs, Forall (Forall proper) pts ->
  rhs pts data signs
  = map (fun t => sum_signed signs (map (hat_nd hat_scalar t) data) * (1 / qc_of_nat (length data))) pts.
Proof. exact rhs_is_sample_mean. Qed.
Print Assumptions C16_rhs_is_sample_mean.

(* ---- the code paths selected by the grid size (N < 200 completely vectorised hats; N >= 200 per-sample neighbour search resp.
   floor/ceil index search with unclamped hats) compute the same right-hand side, for every grid and every data set
   (Proofs/DEPaths.v, DEUniform.v, shared with C17) *)
Theorem C16_rhs_paths_agree : forall stripes lv data signs,
  (Forall good_stripe stripes -> Forall (fun x => length x = length stripes) data ->
   rhs_large stripes data signs = rhs (grid_hats stripes) data signs) /\
  (Forall (fun x => length x = length lv) data -> rhs_uniform_large lv data signs = rhs_uniform lv data signs).
Proof.
  intros stripes lv data signs. split.
  - exact (rhs_large_eq_rhs stripes data signs).
  - exact (rhs_uniform_large_eq_rhs_uniform lv data signs).
Qed.
Print Assumptions C16_rhs_paths_agree.

(* ---- the hat evaluation variants agree, for ALL points (nodes and cell boundaries included) *)
Theorem C16_hat_variants_agree : forall t x, proper t ->
  hat_cv t x = hat_scalar t x /\ (h_lo t <= x -> x <= h_hi t -> hat_vec t x = hat_scalar t x).
Proof. intros t x H. split; [exact (hat_cv_eq_scalar t x H) | exact (hat_vec_eq_scalar_in_support t x H)]. Qed.
Theorem C16_hat_uniform_agrees : forall l i x,
  hat_u l i x = hat_scalar (uniform_dom l i) x /\
  (h_lo (uniform_dom l i) <= x -> x <= h_hi (uniform_dom l i) -> hat_u_insupp l i x = hat_u l i x).
Proof. intros l i x. split; [exact (hat_u_eq_scalar l i x) | exact (hat_u_insupp_eq l i x)]. Qed.
Print Assumptions C16_hat_variants_agree.
Print Assumptions C16_hat_uniform_agrees.

(* ---- normalisation: weighted mean of the positive parts is one whenever it is non-zero *)
Theorem C16_normalise_mean_pos_is_one : forall labelled w a,
  Forall (fun x => 0 <= x) w -> 0 < sumQ w ->
  snd (normalise_weighted labelled w a) <> 0 -> mean_pos w (fst (normalise_weighted labelled w a)) = 1.
Proof. exact normalise_mean_pos_is_one. Qed.
Theorem C16_normalise_uniform_mean_pos_is_one : forall labelled a, a <> [] ->
  snd (normalise_uniform labelled a) <> 0 ->
  mean_pos (map (fun _ => 1) a) (fst (normalise_uniform labelled a)) = 1.
Proof. exact normalise_uniform_mean_pos_is_one. Qed.
Print Assumptions C16_normalise_mean_pos_is_one.
(* ... for the surpluses the model pipeline returns, with the weights of the grid itself (all positive): no hypothesis left *)
Theorem C16_pipeline_result_is_normalised : forall stripes lv lam ml data signs labelled raw fin integ, integ <> 0 ->
  (Forall strictly_inc stripes -> surpluses_nonuniform stripes lam ml data signs labelled = Some (raw, fin, integ) ->
   mean_pos (tensor_weights stripes) fin = 1) /\
  (surpluses_uniform lv lam ml data signs labelled = Some (raw, fin, integ) -> mean_pos (map (fun _ => 1) raw) fin = 1).
Proof.
  intros stripes lv lam ml data signs labelled raw fin integ Hi. split.
  - intros Hs H. exact (pipeline_nonuniform_normalised stripes lam ml data signs labelled raw fin integ Hs H Hi).
  - intro H. exact (pipeline_uniform_normalised lv lam ml data signs labelled raw fin integ H Hi).
Qed.
Theorem C16_quadrature_weights_positive : forall stripes, Forall strictly_inc stripes -> Forall (fun w => 0 < w) (tensor_weights stripes).
Proof. exact tensor_weights_pos. Qed.
Print Assumptions C16_pipeline_result_is_normalised.
Print Assumptions C16_quadrature_weights_positive.

(* ---- verified checker used for the LAPACK solve: an accepted certificate solves the model system exactly *)
Theorem C16_check_solution_sound : forall G x b, check_solution G x b = true -> matvec G x = b.
Proof. exact check_solution_sound. Qed.
Print Assumptions C16_check_solution_sound.

Print Assumptions C16_entry_function_symmetric.
Print Assumptions C16_lumped_uniform_is_diagonal.
Print Assumptions C16_quadratic_form_is_cell_sum.
Print Assumptions C16_normalise_uniform_mean_pos_is_one.

(* ---- non-vacuity *)
Definition q (n : Z) (d : positive) : Qc := Q2Qc (n # d).
Example C16_nonvacuous_stripe :
  let xs := [q 0 1; q 1 4; q 1 2; q 5 8; q 1 1] in
  strictly_inc xs /\ Forall proper (windows xs) /\ stripe_hats xs = windows xs /\
  R_matrix_nonuniform (pts1 xs) 0
    = [[q 1 6; q 1 24; q 0 1]; [q 1 24; q 1 8; q 1 48]; [q 0 1; q 1 48; q 1 6]] /\
  quad (R_matrix_nonuniform (pts1 xs) 0) [q 1 1; q (-2) 1; q 1 1] = q 7 12.
Proof.
  cbv zeta. split; [|split; [|split; [|split]]].
  - cbn. repeat split; unfold Qclt; vm_compute; reflexivity.
  - repeat constructor; unfold Qclt; vm_compute; reflexivity.
  - apply stripe_hats_windows; apply Qc_is_canon; reflexivity.
  - vm_compute. repeat f_equal; apply Qc_is_canon; reflexivity.
  - apply Qc_is_canon. vm_compute. reflexivity.
Qed.

Example C16_nonvacuous_normalise :
  let w := [q 1 4; q 1 2; q 1 4] in let a := [q 3 1; q (-1) 1; q 1 2] in
  snd (normalise_weighted false w a) = q 7 8 /\ mean_pos w (fst (normalise_weighted false w a)) = 1.
Proof. cbv zeta. split; apply Qc_is_canon; vm_compute; reflexivity. Qed.

Example C16_nonvacuous_uniform : Uval [2; 1]%Z [1; 1]%Z [2; 1]%Z = q 1 72 /\ Uval [3]%Z [1]%Z [3]%Z = 0.
Proof. split; apply Qc_is_canon; vm_compute; reflexivity. Qed.

(* two dimensions, non-uniform: stripes {0,1/4,1/2,1} x {0,1/2,1}; two hats; the 2x2 system matrix, a positive value of the
   quadratic form, and the model's own solve *)
Example C16_nonvacuous_2d :
  let st := [[q 0 1; q 1 4; q 1 2; q 1 1]; [q 0 1; q 1 2; q 1 1]] in
  Forall unit_stripe st /\ length (grid_hats st) = 2%nat /\
  R_matrix_nonuniform (grid_hats st) 0 = [[q 1 18; q 1 72]; [q 1 72; q 1 12]] /\
  quad (R_matrix_nonuniform (grid_hats st) 0) [q 3 1; q (-1) 1] = q 1 2 /\
  option_map (map (fun x : Qc => this x)) (solve_checked (R_matrix_nonuniform (grid_hats st) 0) [q 1 8; q 1 8])
  = Some [45 # 23; 27 # 23]%Q.
Proof.
  cbv zeta. split; [|split; [|split; [|split]]].
  - repeat constructor; unfold Qclt; try (vm_compute; reflexivity); apply Qc_is_canon; reflexivity.
  - reflexivity.
  - vm_compute. repeat f_equal; apply Qc_is_canon; reflexivity.
  - apply Qc_is_canon. vm_compute. reflexivity.
  - vm_compute. reflexivity.
Qed.

Example C16_nonvacuous_uniform_pd :
  quad (R_matrix_uniform [2; 1]%Z (q 1 4)) [q 1 1; q (-2) 1; q 1 1] = q 31 18 /\
  option_map (fun r : list Qc * list Qc * Qc => (map (fun x : Qc => this x) (fst (fst r)), map (fun x : Qc => this x) (snd (fst r)), this (snd r)))
    (surpluses_uniform [1]%Z 0 false [[q 1 2]; [q 1 4]] [] false) = Some ([9 # 4], [1 # 1], 9 # 4)%Q.
Proof. split; [apply Qc_is_canon; vm_compute; reflexivity | vm_compute; reflexivity]. Qed.

(* ---- phase 3: the combined density.  The accumulation coded in StandardCombi.__call__ / SpatiallyAdaptivBase.__call__
   (zeros, then += interpolant * coefficient per component grid) is the coefficient-weighted sum of the component interpolants
   (Model/GramSolve.v combine_*, entry subs 14/15), for EVERY scheme; for every scheme with the C01 invariant the coefficients sum
   to one, so the combined density is an affine combination of the component densities.  Non-negativity is NOT claimed
   (C16_combined_density_can_be_negative). *)
Theorem C16_combined_density_is_weighted_sum : forall ugrids ngrids x,
  combine_loop_uniform ugrids x = combine_uniform ugrids x /\ combine_loop_nonuniform ngrids x = combine_nonuniform ngrids x.
Proof.
  intros ugrids ngrids x. split;
    [exact (combine_loop_uniform_is_weighted_sum ugrids x) | exact (combine_loop_nonuniform_is_weighted_sum ngrids x)].
Qed.
Theorem C16_combined_density_affine : forall s surpluses x v, SchemeInv.Inv s ->
  sumQ (map (fun g => snd (fst g)) (scheme_grids s surpluses)) = 1 /\
  ((forall g, In g (scheme_grids s surpluses) -> interp_uniform (fst (fst g)) (snd g) x = v) ->
   combine_uniform (scheme_grids s surpluses) x = v) /\
  combine_uniform (scheme_grids s surpluses) x - v
  = sumQ (map (fun g => snd (fst g) * (interp_uniform (fst (fst g)) (snd g) x - v)) (scheme_grids s surpluses)).
Proof.
  intros s surpluses x v H. split; [|split].
  - exact (scheme_coefficients_sum_to_one s surpluses H).
  - exact (combined_density_affine s surpluses x v H).
  - exact (combined_density_deviation s surpluses x v H).
Qed.
Theorem C16_combined_density_can_be_negative_refuted : exists grids x,
  Forall (fun g => 0 <= interp_uniform (fst (fst g)) (snd g) x) grids /\
  sumQ (map (fun g => snd (fst g)) grids) = 1 /\ combine_uniform grids x < 0.
Proof.
  destruct combined_density_can_be_negative as [A [B C]].
  eexists _, _. split; [exact A|]. split; [exact C|]. rewrite B. unfold Qclt. vm_compute. reflexivity.
Qed.
Print Assumptions C16_combined_density_is_weighted_sum.
Print Assumptions C16_combined_density_affine.
Print Assumptions C16_combined_density_can_be_negative_refuted.

(* non-vacuity: the freshly initialised two-dimensional scheme lmin = 1, lmax = 2 has the invariant; its three component grids carry
   the coefficients +1, +1, -1 *)
Example C16_nonvacuous_combined_density : exists s,
  CombiScheme.init_scheme 2 2 1 = Some s /\ SchemeInv.Inv s /\
  map (fun g => (fst (fst g), this (snd (fst g)))) (scheme_grids s (fun _ => [])) = [([1; 2]%Z, 1%Q); ([1; 1]%Z, (-1)%Q); ([2; 1]%Z, 1%Q)].
Proof.
  eexists. split; [reflexivity|]. split; [apply (SchemeInv.init_inv 1 2 1); reflexivity | vm_compute; reflexivity].
Qed.
