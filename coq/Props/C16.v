(* C16 — Density estimation solves the right linear system.
   Property theorems only (each closed by `exact` of a lemma from Proofs/Gram*.v) + non-vacuity examples.
   "Integral" = formal integral of polynomials (Base/PolyInt.v).  Model: Model/Gram.v. *)
From Coq Require Import ZArith List QArith Qcanon Bool Lia.
From SG Require Import Base.QcUtil Base.PolyInt Model.Gram
  Proofs.GramHat Proofs.GramEntries Proofs.GramPD Proofs.GramNorm.
Import ListNotations.
Open Scope Qc_scope.

(* ---- matrix entries, non-uniform grids: the coded formulas of calculate_R_value_analytically are (hi-lo)/3 on the
   diagonal and |p_i-p_j|/6 for two different nodes, and these are the integrals of the products of the hats *)
Theorem C16_gram_nonuniform_closed_form_diagonal : forall t, proper t ->
  R1 t t = (h_hi t - h_lo t) / Qc3 /\
  R1 t t = pintegral (pmul (hat_left_poly t) (hat_left_poly t)) (h_lo t) (h_p t)
         + pintegral (pmul (hat_right_poly t) (hat_right_poly t)) (h_p t) (h_hi t).
Proof. intros t H. split; [exact (R1_same t H) | exact (gram_same_is_integral t H)]. Qed.
Print Assumptions C16_gram_nonuniform_closed_form_diagonal.

Theorem C16_gram_nonuniform_closed_form_neighbours : forall ti tj,
  h_p ti < h_p tj -> h_hi ti = h_p tj -> h_lo tj = h_p ti ->
  R1 ti tj = (h_p tj - h_p ti) / Qc6 /\ R1 tj ti = R1 ti tj /\
  R1 ti tj = pintegral (pmul (hat_right_poly ti) (hat_left_poly tj)) (h_p ti) (h_p tj).
Proof.
  intros ti tj H E1 E2.
  assert (N : h_p ti <> h_p tj) by (intro E; apply (Qc_lt_neq _ _ H); symmetry; exact E).
  split; [|split].
  - rewrite (R1_distinct ti tj N). rewrite Qc_abs_neg_eq by qc_order. f_equal. ring.
  - symmetry. exact (R1_sym_distinct ti tj N).
  - exact (gram_adjacent_is_integral ti tj H E1 E2).
Qed.
Print Assumptions C16_gram_nonuniform_closed_form_neighbours.

(* the polynomials in these integrals ARE the hat function evaluated by the code, and the hat vanishes elsewhere *)
Theorem C16_hat_is_piecewise_polynomial : forall t x, proper t ->
  (h_lo t <= x -> x < h_p t -> hat_scalar t x = peval (hat_left_poly t) x) /\
  (h_p t <= x -> x <= h_hi t -> hat_scalar t x = peval (hat_right_poly t) x) /\
  (x <= h_lo t \/ h_hi t <= x -> hat_scalar t x = 0).
Proof.
  intros t x [Hl Hr]. split; [|split].
  - exact (hat_scalar_left t x Hl).
  - exact (hat_scalar_right t x Hr).
  - exact (hat_scalar_outside t x (conj Hl Hr)).
Qed.
Print Assumptions C16_hat_is_piecewise_polynomial.

(* ---- matrix entries, uniform grids (build_R_matrix): the 1/(2^(l-1) 3), 1/(2^(l-1) 12) rule is the non-uniform
   formula on the uniform hats; d-dimensional entries are the products, zero iff some indices differ by > 1 *)
Theorem C16_gram_uniform_closed_form : forall l i, (1 <= l)%Z ->
  diag1 l = R1 (uniform_dom l i) (uniform_dom l i) /\ off1 l = R1 (uniform_dom l i) (uniform_dom l (i + 1)).
Proof. intros l i H. split; [exact (diag1_is_R1 l i H) | exact (off1_is_R1 l i H)]. Qed.
Theorem C16_gram_uniform_entry : forall lv iv jv, Uval lv iv jv = Uspec lv iv jv.
Proof. exact gram_uniform_entry. Qed.
Print Assumptions C16_gram_uniform_closed_form.
Print Assumptions C16_gram_uniform_entry.

(* ---- symmetry: the assembled matrices are symmetric, and the entry functions are symmetric themselves *)
Theorem C16_gram_symmetric : forall pts lam lv,
  symmetricM (length pts) (R_matrix_nonuniform pts lam) /\
  symmetricM (length (index_list lv)) (R_matrix_uniform lv lam).
Proof. intros pts lam lv. split; [exact (sym_matrix_symmetric Rval lam pts) | exact (sym_matrix_d_symmetric _ _ _)]. Qed.
Theorem C16_entry_function_symmetric : forall lv iv jv ti tj,
  Uspec lv iv jv = Uspec lv jv iv /\ (h_p ti <> h_p tj -> R1 ti tj = R1 tj ti).
Proof. intros. split; [exact (Uspec_sym lv iv jv) | exact (R1_sym_distinct ti tj)]. Qed.
Print Assumptions C16_gram_symmetric.

(* ---- mass lumping = diagonal of the full matrix *)
Theorem C16_lumped_is_diagonal : forall pts lam,
  diagM (length pts) (R_matrix_nonuniform pts lam) = R_lumped_nonuniform pts lam.
Proof. intros pts lam. exact (lumped_is_diagonal_gen Rval lam pts). Qed.
Theorem C16_lumped_uniform_is_diagonal : forall lv iv, length iv = length lv -> diag_val lv = Uval lv iv iv.
Proof. exact lumped_uniform_is_diagonal. Qed.
Print Assumptions C16_lumped_is_diagonal.

(* ---- positive definiteness in one dimension, EVERY strictly increasing stripe, every lambda >= 0 *)
Theorem C16_quadratic_form_is_cell_sum : forall xs, strictly_inc xs -> forall v lam, length v = length (windows xs) ->
  quad (R_matrix_nonuniform (pts1 xs) lam) v = cellform xs (0 :: v ++ [0]) + lam * dotQ v v.
Proof. exact quad_is_cellform. Qed.
Theorem C16_gram_1d_positive_definite : forall xs v lam,
  strictly_inc xs -> length v = length (windows xs) -> 0 <= lam -> Exists (fun x => x <> 0) v ->
  0 < quad (R_matrix_nonuniform (pts1 xs) lam) v.
Proof. exact gram_1d_positive_definite. Qed.
Print Assumptions C16_gram_1d_positive_definite.
(* NOT proved: positive definiteness of the d-dimensional (Kronecker) matrix for d >= 2; the harness tests it per case
   with an exact LDL^T factorisation of the implementation matrix. *)

(* ---- right-hand side = sample mean of the tensor hats, signed by the labels *)
Theorem C16_rhs_is_sample_mean : forall pts data signs, Forall (Forall proper) pts ->
  rhs pts data signs
  = map (fun t => sum_signed signs (map (hat_nd hat_scalar t) data) * (1 / qc_of_nat (length data))) pts.
Proof. exact rhs_is_sample_mean. Qed.
Print Assumptions C16_rhs_is_sample_mean.

(* ---- the hat evaluation variants agree, for ALL points (nodes and cell boundaries included) *)
Theorem C16_hat_variants_agree : forall t x, proper t ->
  hat_cv t x = hat_scalar t x /\ (h_lo t <= x -> x <= h_hi t -> hat_vec t x = hat_scalar t x).
Proof. intros t x H. split; [exact (hat_cv_eq_scalar t x H) | exact (hat_vec_eq_scalar_in_support t x H)]. Qed.
Theorem C16_hat_uniform_agrees : forall l i x,
  hat_u l i x = hat_scalar (uniform_dom l i) x /\
  (h_lo (uniform_dom l i) <= x -> x <= h_hi (uniform_dom l i) -> hat_u_insupp l i x = hat_u l i x).
Proof. intros l i x. split; [exact (hat_u_eq_scalar l i x) | exact (hat_u_insupp_eq l i x)]. Qed.
Print Assumptions C16_hat_variants_agree.
Print Assumptions C16_hat_uniform_agrees.

(* ---- normalisation: weighted mean of the positive parts is one whenever it is non-zero *)
Theorem C16_normalise_mean_pos_is_one : forall labelled w a,
  Forall (fun x => 0 <= x) w -> 0 < sumQ w ->
  snd (normalise_weighted labelled w a) <> 0 -> mean_pos w (fst (normalise_weighted labelled w a)) = 1.
Proof. exact normalise_mean_pos_is_one. Qed.
Theorem C16_normalise_uniform_mean_pos_is_one : forall labelled a, a <> [] ->
  snd (normalise_uniform labelled a) <> 0 ->
  mean_pos (map (fun _ => 1) a) (fst (normalise_uniform labelled a)) = 1.
Proof. exact normalise_uniform_mean_pos_is_one. Qed.
Print Assumptions C16_normalise_mean_pos_is_one.

(* ---- verified checker used for the LAPACK solve: an accepted certificate solves the model system exactly *)
Theorem C16_check_solution_sound : forall G x b, check_solution G x b = true -> matvec G x = b.
Proof. exact check_solution_sound. Qed.
Print Assumptions C16_check_solution_sound.

(* ---- non-vacuity *)
Definition q (n : Z) (d : positive) : Qc := Q2Qc (n # d).
Example C16_nonvacuous_stripe :
  let xs := [q 0 1; q 1 4; q 1 2; q 5 8; q 1 1] in
  strictly_inc xs /\ Forall proper (windows xs) /\ stripe_hats xs = windows xs /\
  R_matrix_nonuniform (pts1 xs) 0
    = [[q 1 6; q 1 24; q 0 1]; [q 1 24; q 1 8; q 1 48]; [q 0 1; q 1 48; q 1 6]] /\
  quad (R_matrix_nonuniform (pts1 xs) 0) [q 1 1; q (-2) 1; q 1 1] = q 7 12.
Proof.
  cbv zeta. split; [|split; [|split; [|split]]].
  - cbn. repeat split; unfold Qclt; vm_compute; reflexivity.
  - repeat constructor; unfold Qclt; vm_compute; reflexivity.
  - apply stripe_hats_windows; apply Qc_is_canon; reflexivity.
  - vm_compute. repeat f_equal; apply Qc_is_canon; reflexivity.
  - apply Qc_is_canon. vm_compute. reflexivity.
Qed.

Example C16_nonvacuous_normalise :
  let w := [q 1 4; q 1 2; q 1 4] in let a := [q 3 1; q (-1) 1; q 1 2] in
  snd (normalise_weighted false w a) = q 7 8 /\ mean_pos w (fst (normalise_weighted false w a)) = 1.
Proof. cbv zeta. split; apply Qc_is_canon; vm_compute; reflexivity. Qed.

Example C16_nonvacuous_uniform : Uval [2; 1]%Z [1; 1]%Z [2; 1]%Z = q 1 72 /\ Uval [3]%Z [1]%Z [3]%Z = 0.
Proof. split; apply Qc_is_canon; vm_compute; reflexivity. Qed.
