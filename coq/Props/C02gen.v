(* C02 - source-derived model of TrapezoidalGrid1D (sparseSpACE/Grid.py). Property theorems only.
   coq/Gen/TrapGrid1DGen.v is GENERATED from the working tree by harness/translate/py2gallina_c02.py (front end of the shared
   translator) at the start of every ./check C02; these theorems are re-checked against what the source says now.
   Kept in its own file so that a change of the source that breaks the equivalence does not take the theorems of Props/C02.v
   down with it (./check C02 compiles both; see harness/vp/props/_c02_gen.py). *)
From Coq Require Import ZArith List Bool QArith Qcanon Lia.
From SG Require Import Base.QcUtil Base.PyLib Base.PyNum Base.PyNumMath Model.CombiScheme Model.StdCombi Model.TrapGrid1DArea
  Gen.TrapGrid1DGen Proofs.GenTrapGrid1DEq.
Import ListNotations.
Local Open Scope Z_scope.

(* generated TrapezoidalGrid1D.level_to_num_points_1d on the whole interval (start = a, end = b) = the model's point count,
   every level >= 0, boundary points on and off (Python returns the int, the translation reads 2 ** level as a rational).
   Holds (same statement, same proof script) for both versions of the boundary tests in the source: math.isclose(start, a) /
   end == b, and Grid1d.touches_lower_boundary / touches_upper_boundary with the tolerance 1e-8 * |b - a| *)
Theorem C02_gen_level_to_num_points : forall bd a b l, 0 <= l ->
  TrapezoidalGrid1D_level_to_num_points_1d bd a b a b l = Some (qc_of_Z (num_points_1d bd l)).
Proof. exact gen_num_points_is_model. Qed.
Print Assumptions C02_gen_level_to_num_points.

(* generated TrapezoidalGrid1D.get_1d_weight (through weight_composite_trapezoidal; modified_basis = False) at every index of the
   grid, with the attribute values Grid1d.set_current_area(a, b, l) stores (Model/TrapGrid1DArea.v) *)
Theorem C02_gen_weight_pointwise : forall bd a b l i, 1 <= l -> 0 <= i < num_points_1d bd l ->
  TrapezoidalGrid1D_get_1d_weight bd false a b (area_num_points bd l) (area_nwb l) (area_lower bd) (area_upper bd l)
    (area_spacing a b l) i = Some (wfun_Z bd a b l i).
Proof. exact gen_weight_value. Qed.
Print Assumptions C02_gen_weight_pointwise.

(* generated Grid1d.get_1D_level_weights seen from TrapezoidalGrid1D = the weight list of the hand-written model, every level >= 1 *)
Theorem C02_gen_level_weights : forall bd a b l, 1 <= l ->
  TrapezoidalGrid1D_get_1D_level_weights bd false a b (area_num_points bd l) (area_nwb l) (area_lower bd) (area_upper bd l)
    (area_spacing a b l) = Some (weights1 bd a b l).
Proof. exact gen_level_weights_is_model. Qed.
Print Assumptions C02_gen_level_weights.

(* C02 clause "the reported number of points matches what is returned", on the generated functions: the generated weight list has
   as many entries as the generated level_to_num_points_1d announces *)
Theorem C02_gen_weights_length_is_num_points : forall bd a b l ws, 1 <= l ->
  TrapezoidalGrid1D_get_1D_level_weights bd false a b (area_num_points bd l) (area_nwb l) (area_lower bd) (area_upper bd l)
    (area_spacing a b l) = Some ws ->
  Some (qc_of_Z (Z.of_nat (length ws))) = TrapezoidalGrid1D_level_to_num_points_1d bd a b a b l.
Proof. exact gen_level_weights_length. Qed.
Print Assumptions C02_gen_weights_length_is_num_points.

(* non-vacuity: the generated functions compute; [0,2], level 2: 5 / 3 points, weights (1/4 1/2 1/2 1/2 1/4) / (1/2 1/2 1/2)
   (compared as reduced fractions: the proof component of a canonical rational depends on how it was computed) *)
Example C02_gen_nonvacuous :
  option_map this (TrapezoidalGrid1D_level_to_num_points_1d true (Q2Qc 0) (Q2Qc 2) (Q2Qc 0) (Q2Qc 2) 2) = Some (5 # 1)%Q /\
  option_map this (TrapezoidalGrid1D_level_to_num_points_1d false (Q2Qc 0) (Q2Qc 2) (Q2Qc 0) (Q2Qc 2) 2) = Some (3 # 1)%Q /\
  option_map (map this) (gen_level_weights true (Q2Qc 0) (Q2Qc 2) 2) = Some [(1 # 4)%Q; (1 # 2)%Q; (1 # 2)%Q; (1 # 2)%Q; (1 # 4)%Q] /\
  option_map (map this) (gen_level_weights false (Q2Qc 0) (Q2Qc 2) 2) = Some [(1 # 2)%Q; (1 # 2)%Q; (1 # 2)%Q].
Proof. repeat split; vm_compute; reflexivity. Qed.
