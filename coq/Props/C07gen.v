(* C07 - theorems about the SOURCE-DERIVED decision arithmetic of coarsen_grid (coq/Gen/CoarsenGridGen.v, regenerated from
   sparseSpACE/spatiallyAdaptiveExtendSplit.py at every setup by harness/translate/py2gallina_c07.py).
   Translated: the test of version 0, num_sub_diagonal / assert / is_top_diag / no_forward_problem / do_coarsen of versions 1 and 2,
   num_sub_diagonal / assert / the lowering test / the direction update of version 3, the element expression of level_coarse.
   Hand-modelled (Model/ExtendSplit.v, Model/ESV3.v; tied by the correspondence of every run): the loops, max / count, the list updates
   and the per-area dictionary. *)
From Coq Require Import ZArith List Bool QArith Qcanon Lia.
From SG Require Import Base.QcUtil Model.CombiScheme Model.ExtendSplit Model.ESV3 Gen.CoarsenGridGen Proofs.GenCoarsenGridEq.
Import ListNotations.
Open Scope Z_scope.

(* one round of the while loop of versions 1, 2 of the hand-written model = the round built from the GENERATED no_forward_problem /
   do_coarsen (lmin-aware arithmetic, base = lmin) *)
Theorem C07_gen_v12_loop_step : forall f version dimz lmin lmax csave td c t,
  v12_loop (S f) version dimz lmin lmin lmax csave td c t =
  if c >? 0 then
    if maxl t =? lmin then t
    else if gen_do_coarsen version dimz lmin lmax csave td c (maxl t) (count_eq (maxl t) t)
         then v12_loop f version dimz lmin lmin lmax csave td (c - count_eq (maxl t) t) (dec_all (maxl t) t) else t
  else t.
Proof. exact gen_v12_loop_step. Qed.
Print Assumptions C07_gen_v12_loop_step.

(* coarsen_grid of versions 1, 2 with the GENERATED num_sub_diagonal and is_top_diag; the assert *)
Theorem C07_gen_coarsen_grid_v12 : forall d version lmin lmax c D l, version <> 0 ->
  fst (coarsen_grid (mkCP d version lmin lmax lmin) c D l) =
  (sub_lmin lmin (v12_loop (Z.to_nat c) version (Z.of_nat d) lmin lmin lmax c
                           (gen_is_top_diag (gen_num_sub_diagonal (Z.of_nat d) lmax lmin (sumZ l))) c l), true).
Proof. exact gen_coarsen_grid_v12. Qed.
Theorem C07_gen_assert : forall d version lmin lmax l,
  coarsen_assert_ok (mkCP d version lmin lmax lmin) l =
  (version =? 0) || gen_assert (Z.of_nat d) (gen_num_sub_diagonal (Z.of_nat d) lmax lmin (sumZ l)).
Proof. exact gen_assert_eq. Qed.
Print Assumptions C07_gen_coarsen_grid_v12.
Print Assumptions C07_gen_assert.

(* version 0: the GENERATED test decides the "area is null" branch of the model (dimension >= 2) *)
Theorem C07_gen_v0_null_test : forall d lmin lmax base c D l, (2 <= length l)%nat ->
  fst (coarsen_grid (mkCP d 0 lmin lmax base) c D l) =
  if gen_v0_null_test c (Z.of_nat (length l)) (maxl l) (maxl (remove_first (maxl l) l))
  then (sub_lmin lmin (v0_loop (Z.to_nat c) lmin l), false)
  else fst (coarsen_grid (mkCP d 0 lmin lmax base) c D l).
Proof. exact gen_coarsen_grid_v0_branch. Qed.
Print Assumptions C07_gen_v0_null_test.

(* version 3: a round of the model lowers the current level iff the GENERATED test holds, the direction advances by the GENERATED
   update, the assert of the model is the GENERATED one *)
Theorem C07_gen_v3_round : forall lmin i t,
  dec_nth i lmin t = match nth_error t i with
                     | Some x => firstn i t ++ (if gen_v3_can_lower x lmin then x - 1 else x) :: skipn (S i) t
                     | None => t
                     end.
Proof. exact gen_v3_dec_nth. Qed.
Theorem C07_gen_v3_next_direction : forall cur dim, (0 < dim)%nat ->
  Z.of_nat (Nat.modulo (cur + 1) dim) = gen_v3_next_direction (Z.of_nat dim) (Z.of_nat cur).
Proof. exact gen_v3_next. Qed.
Theorem C07_gen_v3_assert : forall d v lmin lmax base l,
  coarsen_assert3_ok (mkCP d v lmin lmax base) l = gen_v3_assert (Z.of_nat d) (gen_v3_num_sub_diagonal (Z.of_nat d) lmax (sumZ l)).
Proof. exact gen_v3_assert_eq. Qed.
Print Assumptions C07_gen_v3_round.
Print Assumptions C07_gen_v3_next_direction.
Print Assumptions C07_gen_v3_assert.

(* all versions: the returned level vector *)
Theorem C07_gen_level_coarse : forall lmin t, sub_lmin lmin t = map (fun x => gen_level_coarse_entry x lmin false) t.
Proof. exact gen_level_coarse. Qed.
Print Assumptions C07_gen_level_coarse.
