(* C08 — Local tensor quadrature grids honour their exactness and point contracts.
   Property theorems only; each is closed by `exact` of a lemma from Proofs/.
   Model: Model/LocalGrids.v (Grid1d.set_current_area border logic, TrapezoidalGrid1D incl. modified basis and
   boundary off, SimpsonGrid1D, tensor product of Model/Tensor.v).  "Integral" = formal integral of monomials
   mint k s e = (e^(k+1) - s^(k+1))/(k+1).  Levels, sub-boxes [s,e] inside [a,b] and dimensions are universally
   quantified everywhere; nothing is bounded.
   Scope (DESIGN C08 G): weight-sum/degree statements carry the hypothesis `all_present` (boundary points on, or the
   sub-box does not touch the global boundary) resp. the modified basis; count/inside hold for every flag. *)
From Coq Require Import ZArith List QArith Qcanon Bool Arith Lia.
From SG Require Import Base.QcUtil Model.Tensor Model.LocalGrids Proofs.TensorRule Proofs.LocalGridsBase
  Proofs.LocalGridsTrap Proofs.LocalGridsSimpson Proofs.LocalGridsMain Proofs.LocalGridsChecker.
Import ListNotations.
Open Scope Qc_scope.

(* ---- as many points (and weights) as announced, all inside the sub-box: every level, sub-box, flag, basis ---- *)
Theorem C08_trap_count_inside : forall f bnd x, f <> FSimpsonAsIs ->
  length (eq_points bnd x) = eq_np bnd x /\ length (eq_weights f bnd x) = eq_np bnd x /\
  (d_s x <= d_e x -> Forall (fun p => d_s x <= p /\ p <= d_e x) (eq_points bnd x)).
Proof. intros f bnd x Hf. destruct (eq_count f bnd x Hf) as [A B]. split; [exact A | split; [exact B | apply eq_inside]]. Qed.
Print Assumptions C08_trap_count_inside.

Theorem C08_grid_count_inside : forall f bnd xs, f <> FSimpsonAsIs ->
  length (grid_points bnd xs) = prodN (grid_num_points bnd xs) /\
  length (grid_weights f bnd xs) = prodN (grid_num_points bnd xs) /\
  (Forall (fun x => d_s x <= d_e x) xs ->
   forall p, In p (grid_points bnd xs) -> Forall2 (fun c x => d_s x <= c /\ c <= d_e x) p xs).
Proof. intros f bnd xs Hf. destruct (grid_count f bnd xs Hf) as [A B]. split; [exact A | split; [exact B | apply grid_inside]]. Qed.
Print Assumptions C08_grid_count_inside.

(* ---- trapezoidal family ---- *)
(* weights sum to the length of the sub-box (plain basis with all points present, modified basis on every sub-box
   with at least one point; Simpson with the repaired slice as well) *)
Theorem C08_trap_weights_sum : forall f bnd x, dim_exact_ok f bnd x -> sumQ (eq_weights f bnd x) = d_e x - d_s x.
Proof. exact eq_weights_sum. Qed.
Print Assumptions C08_trap_weights_sum.

Theorem C08_trap_exact_deg1 : forall (modb : bool) bnd x, all_present bnd x ->
  exact1 (eq_points bnd x) (eq_weights (if modb then FTrapMod else FTrap) bnd x) (d_s x) (d_e x) 1.
Proof. exact trap_exact_all_present. Qed.
Print Assumptions C08_trap_exact_deg1.

(* modified basis, boundary off: exact for degree 1 on EVERY sub-box (touching none, one or both global boundaries) *)
Theorem C08_trapmod_exact_deg1 : forall x, (1 <= eq_np false x)%nat ->
  exact1 (eq_points false x) (eq_weights FTrapMod false x) (d_s x) (d_e x) 1.
Proof. exact trapmod_exact. Qed.
Print Assumptions C08_trapmod_exact_deg1.

(* stronger than "every level": every number of intervals n = m+1 >= 1 *)
Theorem C08_trap_exact_deg1_any_n : forall m s e,
  exact1 (map (lin s (spacing s e (S (S m)))) (seq 0 (S (S m))))
         (map (full_w m (spacing s e (S (S m)))) (seq 0 (S (S m)))) s e 1.
Proof. exact trap_full_exact1. Qed.
Theorem C08_trapmod_exact_any_n : forall tl tr m s e,
  tl || tr = true ->
  let npwb := S (S m) in
  let np := (npwb - (b2n tl + b2n tr))%nat in
  let lo := b2n tl in
  let up := if tr then (npwb - 1)%nat else npwb in
  (1 <= np)%nat -> ~ (np = 2%nat /\ tl = true /\ tr = true) ->
  lin_exact (trap_points false np npwb lo up s e) (trap_weights true false np npwb lo up s e) s e.
Proof. exact trapmod_lin_exact. Qed.
Print Assumptions C08_trapmod_exact_any_n.

(* switching boundary points off drops exactly the points on the global boundary; the remaining points and
   weights are unchanged.  (Level 0 with exactly one touching side is excluded: refuted below.) *)
Theorem C08_trap_boundary_off_drops_exactly_boundary : forall x, dim_ok x ->
  ~ (d_level x = 0%nat /\ xorb (d_tl x) (d_tr x) = true) ->
  combine (eq_points false x) (eq_weights FTrap false x)
  = filter (keep_interior (d_a x) (d_b x)) (combine (eq_points true x) (eq_weights FTrap true x)).
Proof. exact trap_boundary_off. Qed.
Print Assumptions C08_trap_boundary_off_drops_exactly_boundary.

(* FULL statement of the property clause: the same without the level-0 exclusion.  It is false for the code: *)
Theorem C08_trap_boundary_off_level0_refuted :
  exists x, dim_ok x /\ d_level x = 0%nat /\
    combine (eq_points false x) (eq_weights FTrap false x)
    <> filter (keep_interior (d_a x) (d_b x)) (combine (eq_points true x) (eq_weights FTrap true x)).
Proof. exact trap_boundary_off_level0_fails. Qed.
Print Assumptions C08_trap_boundary_off_level0_refuted.

(* ---- Simpson family (weights sliced [lowerBorder:upperBorder], i.e. with fixes/C08-simpson-boundary-slice.patch) ---- *)
Theorem C08_simpson_exact_deg3 : forall bnd x, all_present bnd x ->
  exact1 (eq_points bnd x) (eq_weights FSimpson bnd x) (d_s x) (d_e x) (if (d_level x =? 0)%nat then 1%nat else 3%nat).
Proof. exact simpson_exact_all_present. Qed.
Print Assumptions C08_simpson_exact_deg3.

(* for every number M+1 >= 1 of panel pairs, by induction over the panel pairs *)
Theorem C08_simpson_exact_deg3_any_panels : forall M s e,
  let npwb := S (2 * S M) in
  let h := spacing s e npwb in
  exact1 (map (lin s h) (seq 0 npwb)) (map (simpson_w npwb h) (seq 0 npwb)) s e 3.
Proof. exact simpson_full_exact3. Qed.
Print Assumptions C08_simpson_exact_deg3_any_panels.

Theorem C08_simpson_boundary_off_drops_exactly_boundary : forall x, dim_ok x -> (1 <= d_level x)%nat ->
  combine (eq_points false x) (eq_weights FSimpson false x)
  = filter (keep_interior (d_a x) (d_b x)) (combine (eq_points true x) (eq_weights FSimpson true x)).
Proof. exact simpson_boundary_off. Qed.
Print Assumptions C08_simpson_boundary_off_drops_exactly_boundary.

(* the code as it is (slice [1:-1]) returns a different number of weights than points on sub-boxes *)
Theorem C08_simpson_asis_boundary_off_misaligned_refuted :
  exists x, dim_ok x /\ length (eq_weights FSimpsonAsIs false x) <> length (eq_points false x).
Proof. exact simpson_asis_misaligned. Qed.
Print Assumptions C08_simpson_asis_boundary_off_misaligned_refuted.

(* ---- tensorisation ---- *)
(* generic: 1D rules exact up to degree deg_d in every dimension => the tensor rule integrates every monomial
   x_1^k_1 ... x_d^k_d with k_d <= deg_d exactly *)
Theorem C08_tensor_exact : forall (rs : list rule1) (exps : list nat),
  Forall rule1_exact rs -> Forall2 (fun r k => (k <= r_deg r)%nat) rs exps ->
  integrate_rule (prodf (map mono exps)) (map r_c rs) (map r_w rs) = box_moment_r rs exps.
Proof. exact tensor_exact. Qed.
Print Assumptions C08_tensor_exact.

Theorem C08_grid_exact : forall f bnd xs exps,
  Forall (dim_exact_ok f bnd) xs -> Forall2 (fun x k => (k <= eq_degree f x)%nat) xs exps ->
  grid_integrate_monomial f bnd xs exps = box_moment xs exps.
Proof. exact grid_exact. Qed.
Print Assumptions C08_grid_exact.

Theorem C08_grid_weights_sum : forall f bnd xs, Forall (dim_exact_ok f bnd) xs ->
  sumQ (grid_weights f bnd xs) = box_volume xs.
Proof. exact grid_weights_sum. Qed.
Print Assumptions C08_grid_weights_sum.

(* exactness on monomials extends to all polynomials of the degree *)
Theorem C08_exact_polynomials : forall c w s e deg p, exact1 c w s e deg -> (length p <= S deg)%nat ->
  apply1 (peval p) c w = pint p s e.
Proof. exact apply1_poly. Qed.
Print Assumptions C08_exact_polynomials.

(* ---- verified checkers for the opaque families (Clenshaw-Curtis, Leja, Gauss-Legendre, Lagrange, B-spline) ---- *)
Theorem C08_moments_ok_sound : forall pts wts s e k rtol, moments_ok pts wts s e k rtol = true ->
  length pts = length wts /\
  forall i, (i <= k)%nat -> Qc_abs (moment i pts wts - mint i s e) <= rtol * abs_moment i pts wts.
Proof. exact moments_ok_sound. Qed.
Print Assumptions C08_moments_ok_sound.

Theorem C08_moments_ok_sound_poly : forall pts wts s e k rtol p, 0 <= rtol -> moments_ok pts wts s e k rtol = true ->
  (length p <= S k)%nat ->
  Qc_abs (apply1 (peval p) pts wts - pint p s e) <= rtol * poly_bound 0 p pts wts.
Proof. exact moments_ok_sound_poly. Qed.
Print Assumptions C08_moments_ok_sound_poly.

Theorem C08_moments_ok_exact : forall pts wts s e k, moments_ok pts wts s e k 0 = true -> exact1 pts wts s e k.
Proof. exact moments_ok_exact. Qed.

Theorem C08_nd_moments_ok_sound : forall pts wts box expss rtol, nd_moments_ok pts wts box expss rtol = true ->
  (length pts = length wts)%nat /\ (forall p, In p pts -> (length p = length box)%nat) /\
  forall exps, In exps expss ->
    (length exps = length box)%nat /\
    Qc_abs (nd_moment exps pts wts - nd_exact exps box) <= rtol * nd_abs_moment exps pts wts.
Proof. exact nd_moments_ok_sound. Qed.
Print Assumptions C08_nd_moments_ok_sound.

Theorem C08_inside_box_sound : forall box p, inside_box box p = true ->
  Forall2 (fun x se => fst se <= x /\ x <= snd se) p box.
Proof. exact inside_box_sound. Qed.
Print Assumptions C08_inside_box_sound.

(* ---- counts of the other families ---- *)
(* the slice [lowerBorder:upperBorder] taken by the border logic has exactly the announced length: equidistant
   families (also the Lagrange / B-spline point sets), Gauss, Leja with boundary points *)
Theorem C08_border_slice_length : forall f bnd a b s e l,
  (f = CEq \/ f = CGauss \/ (f = CLeja /\ bnd = true)) ->
  let '(np, _, _, _, len) := cnt_info f bnd a b s e l in len = np.
Proof. exact cnt_slice_length. Qed.
Print Assumptions C08_border_slice_length.

(* what the faithful model of the code refutes *)
Theorem C08_leja_boundary_off_count_refuted :
  exists a b s e l, a <= s /\ s < e /\ e <= b /\
    let '(np, _, _, _, len) := cnt_info CLeja false a b s e l in np <> len.
Proof. exact leja_boundary_off_count_mismatch. Qed.
Theorem C08_cc_asis_count_ignores_domain_refuted :
  exists a b s e, a < s /\ e < b /\ cnt_np CCC false a b s e 2 <> cnt_np CEq false a b s e 2.
Proof. exact cc_asis_count_ignores_domain. Qed.
Print Assumptions C08_leja_boundary_off_count_refuted.

(* ---- non-vacuity ---- *)
Definition ex_dims : list dim1 :=
  [ mkdim (-3) 6 (-3#4) (3#2) 3;      (* interior sub-box of [-3,6], level 3 *)
    mkdim 0 1 (1#2) 1 2 ].            (* touches the upper boundary, level 2 *)

(* a 2D anisotropic sub-box: hypotheses of the exactness theorems are met (boundary on), the grid has 9*5 points,
   and the model evaluates x^1 y^1 (trapezoid) and x^3 y^2 (Simpson) to the exact box moments *)
Example C08_nonvacuous_grid :
  Forall (dim_exact_ok FTrap true) ex_dims /\ Forall (dim_exact_ok FSimpson true) ex_dims /\
  Forall dim_ok ex_dims /\
  length (grid_points true ex_dims) = 45%nat /\
  grid_integrate_monomial FTrap true ex_dims [1;1]%nat = box_moment ex_dims [1;1]%nat /\
  grid_integrate_monomial FSimpson true ex_dims [3;2]%nat = box_moment ex_dims [3;2]%nat /\
  box_moment ex_dims [3;2]%nat <> 0.
Proof.
  split; [|split; [|split; [|split; [|split; [|split]]]]].
  - repeat constructor.
  - repeat constructor.
  - repeat constructor; vm_compute; congruence.
  - vm_compute. reflexivity.
  - apply grid_exact; repeat constructor.
  - apply grid_exact; repeat constructor.
  - vm_compute. congruence.
Qed.

(* modified basis on a sub-box touching the lower boundary (boundary off): 4 points, weights 2h, h/2, h, h/2 *)
Example C08_nonvacuous_modified :
  let x := mkdim 0 1 0 (1#2) 2 in
  (1 <= eq_np false x)%nat /\ eq_np false x = 4%nat /\
  map this (eq_weights FTrapMod false x) = [1#4; 1#16; 1#8; 1#16]%Q /\
  d_tl x = true /\ d_tr x = false.
Proof. vm_compute. repeat split; try lia; reflexivity. Qed.

(* boundary-off clause on a sub-box touching the lower boundary, level 2: 5 points on, 4 points off *)
Example C08_nonvacuous_boundary_off :
  let x := mkdim 0 1 0 (1#2) 2 in
  dim_ok x /\ ~ (d_level x = 0%nat /\ xorb (d_tl x) (d_tr x) = true) /\
  length (eq_points true x) = 5%nat /\ length (eq_points false x) = 4%nat.
Proof. split; [repeat split; vm_compute; congruence | split; [intros [H _]; discriminate H | split; vm_compute; reflexivity]]. Qed.

(* the checker accepts an exact rule and rejects a perturbed one *)
Example C08_checker_discriminates :
  moments_ok [Q2Qc 0; Q2Qc (1#2); Q2Qc 1] [Q2Qc (1#6); Q2Qc (2#3); Q2Qc (1#6)] (Q2Qc 0) (Q2Qc 1) 3 (Q2Qc 0) = true /\
  moments_ok [Q2Qc 0; Q2Qc (1#2); Q2Qc 1] [Q2Qc (1#6); Q2Qc (2#3); Q2Qc (1#6)] (Q2Qc 0) (Q2Qc 1) 4 (Q2Qc (1#1000)) = false /\
  moments_ok [Q2Qc 0; Q2Qc (1#2); Q2Qc 1] [Q2Qc (1#4); Q2Qc (1#2); Q2Qc (1#4)] (Q2Qc 0) (Q2Qc 1) 2 (Q2Qc (1#1000)) = false.
Proof. vm_compute. repeat split. Qed.
