(* C08 — Local tensor quadrature grids honour their exactness and point contracts.
   Property theorems only; each is closed by `exact` of a lemma from Proofs/.
   Model: Model/LocalGrids.v (Grid1d.set_current_area border logic, TrapezoidalGrid1D incl. modified basis and
   boundary off, SimpsonGrid1D, tensor product of Model/Tensor.v).  "Integral" = formal integral of monomials
   mint k s e = (e^(k+1) - s^(k+1))/(k+1).  Levels, sub-boxes [s,e] inside [a,b] and dimensions are universally
   quantified everywhere; nothing is bounded.
   Scope (DESIGN C08 G): weight-sum/degree statements carry the hypothesis `all_present` (boundary points on, or the
   sub-box does not touch the global boundary) resp. the modified basis; count/inside hold for every flag. *)
From Coq Require Import ZArith List QArith Qcanon Bool Arith Lia.
From SG Require Import Base.QcUtil Base.PolyInt Model.Tensor Model.LocalGrids Model.LocalRules Proofs.TensorRule Proofs.LocalGridsBase
  Proofs.LocalGridsTrap Proofs.LocalGridsSimpson Proofs.LocalGridsMain Proofs.LocalGridsChecker
  Proofs.QuadPoly Proofs.QuadAffine Proofs.QuadInterp Proofs.QuadCC Proofs.LocalGridsMix Proofs.LocalGridsFix
  Model.AlgTower Proofs.AlgTowerP Proofs.GaussTowerP Proofs.LejaSystem.
Import ListNotations.
Open Scope Qc_scope.

(* ---- as many points (and weights) as announced, all inside the sub-box: every level, sub-box, flag, basis ---- *)
Theorem C08_trap_count_inside : forall f bnd x, f <> FSimpsonAsIs ->
  length (eq_points bnd x) = eq_np bnd x /\ length (eq_weights f bnd x) = eq_np bnd x /\
  (d_s x <= d_e x -> Forall (fun p => d_s x <= p /\ p <= d_e x) (eq_points bnd x)).
Proof. intros f bnd x Hf. destruct (eq_count f bnd x Hf) as [A B]. split; [exact A | split; [exact B | apply eq_inside]]. Qed.
Print Assumptions C08_trap_count_inside.

Theorem C08_grid_count_inside : forall f bnd xs, f <> FSimpsonAsIs ->
  length (grid_points bnd xs) = prodN (grid_num_points bnd xs) /\
  length (grid_weights f bnd xs) = prodN (grid_num_points bnd xs) /\
  (Forall (fun x => d_s x <= d_e x) xs ->
   forall p, In p (grid_points bnd xs) -> Forall2 (fun c x => d_s x <= c /\ c <= d_e x) p xs).
Proof. intros f bnd xs Hf. destruct (grid_count f bnd xs Hf) as [A B]. split; [exact A | split; [exact B | apply grid_inside]]. Qed.
Print Assumptions C08_grid_count_inside.

(* ---- trapezoidal family ---- *)
(* weights sum to the length of the sub-box (plain basis with all points present, modified basis on every sub-box
   with at least one point; Simpson with the repaired slice as well) *)
Theorem C08_trap_weights_sum : forall f bnd x, dim_exact_ok f bnd x -> sumQ (eq_weights f bnd x) = d_e x - d_s x.
Proof. exact eq_weights_sum. Qed.
Print Assumptions C08_trap_weights_sum.

Theorem C08_trap_exact_deg1 : forall (modb : bool) bnd x, all_present bnd x ->
  exact1 (eq_points bnd x) (eq_weights (if modb then FTrapMod else FTrap) bnd x) (d_s x) (d_e x) 1.
Proof. exact trap_exact_all_present. Qed.
Print Assumptions C08_trap_exact_deg1.

(* modified basis, boundary off: exact for degree 1 on EVERY sub-box (touching none, one or both global boundaries) *)
Theorem C08_trapmod_exact_deg1 : forall x, (1 <= eq_np false x)%nat ->
  exact1 (eq_points false x) (eq_weights FTrapMod false x) (d_s x) (d_e x) 1.
Proof. exact trapmod_exact. Qed.
Print Assumptions C08_trapmod_exact_deg1.

(* stronger than "every level": every number of intervals n = m+1 >= 1 *)
Theorem C08_trap_exact_deg1_any_n : forall m s e,
  exact1 (map (lin s (spacing s e (S (S m)))) (seq 0 (S (S m))))
         (map (full_w m (spacing s e (S (S m)))) (seq 0 (S (S m)))) s e 1.
Proof. exact trap_full_exact1. Qed.
Theorem C08_trapmod_exact_any_n : forall tl tr m s e,
  tl || tr = true ->
  let npwb := S (S m) in
  let np := (npwb - (b2n tl + b2n tr))%nat in
  let lo := b2n tl in
  let up := if tr then (npwb - 1)%nat else npwb in
  (1 <= np)%nat -> ~ (np = 2%nat /\ tl = true /\ tr = true) ->
  lin_exact (trap_points false np npwb lo up s e) (trap_weights true false np npwb lo up s e) s e.
Proof. exact trapmod_lin_exact. Qed.
Print Assumptions C08_trapmod_exact_any_n.

(* switching boundary points off drops exactly the points on the global boundary; the remaining points and
   weights are unchanged.  (Level 0 with exactly one touching side is excluded: refuted below.) *)
Theorem C08_trap_boundary_off_drops_exactly_boundary : forall x, dim_ok x ->
  ~ (d_level x = 0%nat /\ xorb (d_tl x) (d_tr x) = true) ->
  combine (eq_points false x) (eq_weights FTrap false x)
  = filter (keep_interior (d_a x) (d_b x)) (combine (eq_points true x) (eq_weights FTrap true x)).
Proof. exact trap_boundary_off. Qed.
Print Assumptions C08_trap_boundary_off_drops_exactly_boundary.

(* FULL statement of the property clause: the same without the level-0 exclusion.  It is false for the code: *)
Theorem C08_trap_boundary_off_level0_refuted :
  exists x, dim_ok x /\ d_level x = 0%nat /\
    combine (eq_points false x) (eq_weights FTrap false x)
    <> filter (keep_interior (d_a x) (d_b x)) (combine (eq_points true x) (eq_weights FTrap true x)).
Proof. exact trap_boundary_off_level0_fails. Qed.
Print Assumptions C08_trap_boundary_off_level0_refuted.

(* ---- Simpson family (weights sliced [lowerBorder:upperBorder], i.e. with fixes/C08-simpson-boundary-slice.patch) ---- *)
Theorem C08_simpson_exact_deg3 : forall bnd x, all_present bnd x ->
  exact1 (eq_points bnd x) (eq_weights FSimpson bnd x) (d_s x) (d_e x) (if (d_level x =? 0)%nat then 1%nat else 3%nat).
Proof. exact simpson_exact_all_present. Qed.
Print Assumptions C08_simpson_exact_deg3.

(* for every number M+1 >= 1 of panel pairs, by induction over the panel pairs *)
Theorem C08_simpson_exact_deg3_any_panels : forall M s e,
  let npwb := S (2 * S M) in
  let h := spacing s e npwb in
  exact1 (map (lin s h) (seq 0 npwb)) (map (simpson_w npwb h) (seq 0 npwb)) s e 3.
Proof. exact simpson_full_exact3. Qed.
Print Assumptions C08_simpson_exact_deg3_any_panels.

Theorem C08_simpson_boundary_off_drops_exactly_boundary : forall x, dim_ok x -> (1 <= d_level x)%nat ->
  combine (eq_points false x) (eq_weights FSimpson false x)
  = filter (keep_interior (d_a x) (d_b x)) (combine (eq_points true x) (eq_weights FSimpson true x)).
Proof. exact simpson_boundary_off. Qed.
Print Assumptions C08_simpson_boundary_off_drops_exactly_boundary.

(* the code as it is (slice [1:-1]) returns a different number of weights than points on sub-boxes *)
Theorem C08_simpson_asis_boundary_off_misaligned_refuted :
  exists x, dim_ok x /\ length (eq_weights FSimpsonAsIs false x) <> length (eq_points false x).
Proof. exact simpson_asis_misaligned. Qed.
Print Assumptions C08_simpson_asis_boundary_off_misaligned_refuted.

(* ---- tensorisation ---- *)
(* generic: 1D rules exact up to degree deg_d in every dimension => the tensor rule integrates every monomial
   x_1^k_1 ... x_d^k_d with k_d <= deg_d exactly *)
Theorem C08_tensor_exact : forall (rs : list rule1) (exps : list nat),
  Forall rule1_exact rs -> Forall2 (fun r k => (k <= r_deg r)%nat) rs exps ->
  integrate_rule (prodf (map mono exps)) (map r_c rs) (map r_w rs) = box_moment_r rs exps.
Proof. exact tensor_exact. Qed.
Print Assumptions C08_tensor_exact.

Theorem C08_grid_exact : forall f bnd xs exps,
  Forall (dim_exact_ok f bnd) xs -> Forall2 (fun x k => (k <= eq_degree f x)%nat) xs exps ->
  grid_integrate_monomial f bnd xs exps = box_moment xs exps.
Proof. exact grid_exact. Qed.
Print Assumptions C08_grid_exact.

Theorem C08_grid_weights_sum : forall f bnd xs, Forall (dim_exact_ok f bnd) xs ->
  sumQ (grid_weights f bnd xs) = box_volume xs.
Proof. exact grid_weights_sum. Qed.
Print Assumptions C08_grid_weights_sum.

(* exactness on monomials extends to all polynomials of the degree *)
Theorem C08_exact_polynomials : forall c w s e deg p, exact1 c w s e deg -> (length p <= S deg)%nat ->
  apply1 (peval p) c w = pint p s e.
Proof. exact apply1_poly. Qed.
Print Assumptions C08_exact_polynomials.

(* ---- verified checkers for the opaque families (Clenshaw-Curtis, Leja, Gauss-Legendre, Lagrange, B-spline) ---- *)
Theorem C08_moments_ok_sound : forall pts wts s e k rtol, moments_ok pts wts s e k rtol = true ->
  length pts = length wts /\
  forall i, (i <= k)%nat -> Qc_abs (moment i pts wts - mint i s e) <= rtol * abs_moment i pts wts.
Proof. exact moments_ok_sound. Qed.
Print Assumptions C08_moments_ok_sound.

Theorem C08_moments_ok_sound_poly : forall pts wts s e k rtol p, 0 <= rtol -> moments_ok pts wts s e k rtol = true ->
  (length p <= S k)%nat ->
  Qc_abs (apply1 (peval p) pts wts - pint p s e) <= rtol * poly_bound 0 p pts wts.
Proof. exact moments_ok_sound_poly. Qed.
Print Assumptions C08_moments_ok_sound_poly.

Theorem C08_moments_ok_exact : forall pts wts s e k, moments_ok pts wts s e k 0 = true -> exact1 pts wts s e k.
Proof. exact moments_ok_exact. Qed.

Theorem C08_nd_moments_ok_sound : forall pts wts box expss rtol, nd_moments_ok pts wts box expss rtol = true ->
  (length pts = length wts)%nat /\ (forall p, In p pts -> (length p = length box)%nat) /\
  forall exps, In exps expss ->
    (length exps = length box)%nat /\
    Qc_abs (nd_moment exps pts wts - nd_exact exps box) <= rtol * nd_abs_moment exps pts wts.
Proof. exact nd_moments_ok_sound. Qed.
Print Assumptions C08_nd_moments_ok_sound.

Theorem C08_inside_box_sound : forall box p, inside_box box p = true ->
  Forall2 (fun x se => fst se <= x /\ x <= snd se) p box.
Proof. exact inside_box_sound. Qed.
Print Assumptions C08_inside_box_sound.

(* ---- counts of the other families ---- *)
(* the slice [lowerBorder:upperBorder] taken by the border logic has exactly the announced length: equidistant
   families (also the Lagrange / B-spline point sets), Gauss, Leja with boundary points *)
Theorem C08_border_slice_length : forall f bnd a b s e l,
  (f = CEq \/ f = CGauss \/ (f = CLeja /\ bnd = true)) ->
  let '(np, _, _, _, len) := cnt_info f bnd a b s e l in len = np.
Proof. exact cnt_slice_length. Qed.
Print Assumptions C08_border_slice_length.

(* what the faithful model of the code refutes *)
Theorem C08_leja_boundary_off_count_refuted :
  exists a b s e l, a <= s /\ s < e /\ e <= b /\
    let '(np, _, _, _, len) := cnt_info CLeja false a b s e l in np <> len.
Proof. exact leja_boundary_off_count_mismatch. Qed.
Theorem C08_cc_asis_count_ignores_domain_refuted :
  exists a b s e, a < s /\ e < b /\ cnt_np CCC false a b s e 2 <> cnt_np CEq false a b s e 2.
Proof. exact cc_asis_count_ignores_domain. Qed.
Print Assumptions C08_leja_boundary_off_count_refuted.

(* ======================================================================================================
   ROUND 2.  (a) every sub-box for the families with irrational nodes, as a THEOREM: their code is a reference
   rule pushed through an affine map; (b) the interpolatory-rule argument for every n and every node set;
   (c) closed-form Clenshaw-Curtis / Gauss-Legendre rules of the smallest levels; (d) per-dimension flags/families.
   ====================================================================================================== *)

(* ---- (a) affine transport: every rule, every degree, every affine map ---- *)
Theorem C08_affine_exact : forall c w u0 u1 k al be, exact1 c w u0 u1 k ->
  exact1 (affine_pts al be c) (affine_wts al w) (al * u0 + be) (al * u1 + be) k.
Proof. exact exact1_affine. Qed.
Print Assumptions C08_affine_exact.

Theorem C08_transport_exact : forall c w s1 e1 s2 e2 k, s1 <> e1 -> exact1 c w s1 e1 k ->
  exact1 (transport_pts s1 e1 s2 e2 c) (transport_wts s1 e1 s2 e2 w) s2 e2 k.
Proof. exact exact1_transport. Qed.
Print Assumptions C08_transport_exact.

(* the substitution rule for the formal integral behind it: al * int_{u0}^{u1} (al u + be)^j du = int x^j dx *)
Theorem C08_integral_substitution : forall al be j u0 u1,
  al * pint (linpow al be j) u0 u1 = mint j (al * u0 + be) (al * u1 + be).
Proof. exact pint_linpow. Qed.
Print Assumptions C08_integral_substitution.

(* a reference rule that the verified checker accepted ONCE (tolerance rtol, degrees <= k) is, on EVERY image
   interval, within |al| * rtol * (a bound computed from the reference rule) of the exact moments *)
Theorem C08_moments_ok_transport : forall c w u0 u1 k rtol al be j, 0 <= rtol ->
  moments_ok c w u0 u1 k rtol = true -> (j <= k)%nat ->
  Qc_abs (moment j (affine_pts al be c) (affine_wts al w) - mint j (al * u0 + be) (al * u1 + be))
  <= Qc_abs al * (rtol * poly_bound 0 (linpow al be j) c w).
Proof. exact moments_affine. Qed.
Print Assumptions C08_moments_ok_transport.

Theorem C08_affine_inside : forall al be u0 u1 c, 0 <= al -> Forall (fun x => u0 <= x /\ x <= u1) c ->
  Forall (fun x => al * u0 + be <= x /\ x <= al * u1 + be) (affine_pts al be c).
Proof. exact affine_inside. Qed.
Print Assumptions C08_affine_inside.

(* the maps written out in the Python are such transports (all reference rules, all degrees, all sub-boxes) *)
Theorem C08_gauss_legendre_map_exact : forall s e rc rw k, exact1 rc rw (-(1)) 1 k ->
  exact1 (gl_pts s e rc) (gl_wts false s e rw) s e k.
Proof. exact gl_map_exact. Qed.
Print Assumptions C08_gauss_legendre_map_exact.

(* normalize=True divides by the length: the rule then integrates the mean value, NOT the box volume *)
Theorem C08_gauss_legendre_map_normalized : forall s e rc rw k, exact1 rc rw (-(1)) 1 k ->
  forall j, (j <= k)%nat -> apply1 (mono j) (gl_pts s e rc) (gl_wts true s e rw) = (1 / (e - s)) * mint j s e.
Proof. exact gl_map_normalized. Qed.
Print Assumptions C08_gauss_legendre_map_normalized.

Theorem C08_leja_map_exact : forall s e rc rw k, exact1 rc rw 0 1 k ->
  exact1 (leja_pts s e rc) (leja_wts s e rw) s e k.
Proof. exact leja_map_exact. Qed.
Print Assumptions C08_leja_map_exact.

Theorem C08_clenshaw_curtis_map_exact : forall s e cosv fac k, exact1 (map Qcopp cosv) fac (-(1)) 1 k ->
  exact1 (cc_pts s e cosv) (cc_wts s e fac) s e k.
Proof. exact cc_map_exact. Qed.
Print Assumptions C08_clenshaw_curtis_map_exact.

(* ---- (b) interpolatory quadrature: every n, every list of n distinct nodes, every interval ---- *)
(* the weights  int l_i  (Lagrange basis polynomials) integrate every polynomial with at most n coefficients exactly *)
Theorem C08_interpolatory_exact : forall xs s e, NoDup xs -> forall k, (S k <= length xs)%nat ->
  apply1 (mono k) xs (interp_weights xs s e) = mint k s e.
Proof. exact interp_exact. Qed.
Print Assumptions C08_interpolatory_exact.

Theorem C08_interpolatory_exact_polynomials : forall xs s e p, NoDup xs -> (length p <= length xs)%nat ->
  apply1 (Tensor.peval p) xs (interp_weights xs s e) = pint p s e.
Proof. exact interp_exact_poly. Qed.
Print Assumptions C08_interpolatory_exact_polynomials.

(* ... and they are the ONLY weights with that property: a rule on n distinct nodes that is exact to degree n-1
   (Clenshaw-Curtis, Leja) is determined by its nodes *)
Theorem C08_interpolatory_unique : forall xs w s e, NoDup xs -> length w = length xs ->
  (forall k, (S k <= length xs)%nat -> apply1 (mono k) xs w = mint k s e) -> w = interp_weights xs s e.
Proof. exact interp_unique. Qed.
Print Assumptions C08_interpolatory_unique.

Theorem C08_exact_iff_interpolatory : forall x xs w s e, NoDup (x :: xs) -> length w = S (length xs) ->
  (exact1 (x :: xs) w s e (length xs) <-> w = interp_weights (x :: xs) s e).
Proof. exact exact_iff_interp. Qed.
Print Assumptions C08_exact_iff_interpolatory.

(* the polynomial fact underneath: at most n coefficients and n distinct roots => the zero polynomial *)
Theorem C08_polynomial_roots : forall n p xs, (length p <= n)%nat -> NoDup xs -> length xs = n ->
  (forall x, In x xs -> Tensor.peval p x = 0) -> Forall (fun c => c = 0) p.
Proof. exact roots_zero. Qed.
Print Assumptions C08_polynomial_roots.

(* verified checker: the weights the implementation returned are (within rtol) the interpolatory weights of the nodes
   it returned *)
Theorem C08_interp_ok_sound : forall xs ws s e rtol, interp_ok xs ws s e rtol = true ->
  Forall2 (fun w iw => Qc_abs (w - iw) <= rtol * sum_abs (interp_weights xs s e)) ws (interp_weights xs s e).
Proof. exact interp_ok_sound. Qed.
Theorem C08_interp_ok_exact : forall x xs ws s e, NoDup (x :: xs) -> interp_ok (x :: xs) ws s e 0 = true ->
  exact1 (x :: xs) ws s e (length xs).
Proof. exact interp_ok_exact. Qed.
Print Assumptions C08_interp_ok_exact.

(* ---- (c) closed forms of the smallest levels (get_1d_weight of ClenshawCurtisGrid1D with its cosines as oracle:
        K i = cos(pi i/(npwb-1)), C m = cos(2 pi m/(npwb-1)); hypotheses = the true values of these cosines) ---- *)
Theorem C08_clenshaw_curtis_level0_exact : forall K C s e, K 0%nat = 1 -> K 1%nat = -(1) ->
  exact1 (cc_rule_pts 2 0 2 K s e) (cc_rule_wts 2 0 2 C s e) s e 1.
Proof. exact cc_level0_exact. Qed.
Theorem C08_clenshaw_curtis_level1_exact : forall K C s e, K 0%nat = 1 -> K 1%nat = 0 -> K 2%nat = -(1) -> C 1%nat = -(1) ->
  exact1 (cc_rule_pts 3 0 3 K s e) (cc_rule_wts 3 0 3 C s e) s e 3.
Proof. exact cc_level1_exact. Qed.
Print Assumptions C08_clenshaw_curtis_level1_exact.
(* level 2 (5 points): the code's weight factors are 1/15, 8/15, 4/5, 8/15, 1/15 ... *)
Theorem C08_clenshaw_curtis_level2_factors : forall C,
  C 1%nat = 0 -> C 2%nat = -(1) -> C 3%nat = 0 -> C 4%nat = 1 -> C 6%nat = -(1) ->
  map (cc_factor 5 C) (seq 0 5) = cc5_weights.
Proof. exact cc_factors_level2. Qed.
(* ... and with the inner nodes -+r the moment residuals up to degree 5 are multiples of 2 r^2 - 1 (r = cos(pi/4)) *)
Theorem C08_clenshaw_curtis_level2_defect : forall r k, (k <= 5)%nat ->
  apply1 (mono k) (cc5_nodes r) cc5_weights - mint k (-(1)) 1 = (Qc2 * r * r - 1) * cc5_cofactor k r.
Proof. exact cc_level2_defect. Qed.
Print Assumptions C08_clenshaw_curtis_level2_defect.
(* Gauss-Legendre, 2 and 3 points (levels 0 and 1): residuals up to degree 2n-1 are multiples of the node equation *)
Theorem C08_gauss_legendre_2pt_defect : forall r k, (k <= 3)%nat ->
  apply1 (mono k) [- r; r] [1; 1] - mint k (-(1)) 1 = (qn 3 * r * r - 1) * gl2_cofactor k r.
Proof. exact gl2_defect. Qed.
Theorem C08_gauss_legendre_3pt_defect : forall r k, (k <= 5)%nat ->
  apply1 (mono k) [- r; 0; r] gl3_weights - mint k (-(1)) 1 = (qn 5 * r * r - qn 3) * gl3_cofactor k r.
Proof. exact gl3_defect. Qed.
Print Assumptions C08_gauss_legendre_3pt_defect.

(* ---- (d) a family and a boundary flag PER DIMENSION (Grid.set_boundaries, MixedGrid) ---- *)
Theorem C08_gridm_count_inside : forall ds, Forall ds_fam_ok ds ->
  length (gridm_points ds) = prodN (gridm_num_points ds) /\
  length (gridm_weights ds) = prodN (gridm_num_points ds) /\
  (Forall (fun d => d_s (ds_dim d) <= d_e (ds_dim d)) ds ->
   forall p, In p (gridm_points ds) -> Forall2 (fun c d => d_s (ds_dim d) <= c /\ c <= d_e (ds_dim d)) p ds).
Proof. intros ds H. destruct (gridm_count ds H) as [A B]. split; [exact A | split; [exact B | apply gridm_inside]]. Qed.
Print Assumptions C08_gridm_count_inside.

Theorem C08_gridm_exact : forall ds exps, Forall ds_ok ds -> Forall2 (fun d k => (k <= ds_degree d)%nat) ds exps ->
  gridm_integrate_monomial ds exps = box_moment_ds ds exps.
Proof. exact gridm_exact. Qed.
Print Assumptions C08_gridm_exact.

Theorem C08_gridm_weights_sum : forall ds, Forall ds_ok ds -> sumQ (gridm_weights ds) = box_volume (map ds_dim ds).
Proof. exact gridm_weights_sum. Qed.
Print Assumptions C08_gridm_weights_sum.

(* ---- (e) the proposed repairs on the model (fixes/C08-level0-onesided-endpoint.patch, fixes/C08-leja-boundary-off-count.patch) ---- *)
(* with the remaining END POINT at level 0 the boundary-off clause holds for EVERY level and sub-box
   (for the code as it is: C08_trap_boundary_off_level0_refuted) *)
Theorem C08_fix_trap_boundary_off_every_level : forall x, dim_ok x ->
  combine (eq_points_fx FTrap false x) (eq_weights_fx FTrap false x)
  = filter (keep_interior (d_a x) (d_b x)) (combine (eq_points true x) (eq_weights FTrap true x)).
Proof. exact trap_boundary_off_fx. Qed.
Print Assumptions C08_fix_trap_boundary_off_every_level.

Theorem C08_fix_count_inside : forall f bnd x, f <> FSimpsonAsIs ->
  length (eq_points_fx f bnd x) = eq_np bnd x /\ length (eq_weights_fx f bnd x) = eq_np bnd x /\
  (d_s x <= d_e x -> Forall (fun p => d_s x <= p /\ p <= d_e x) (eq_points_fx f bnd x)).
Proof. exact fx_count_inside. Qed.

(* the repair touches nothing else: every other theorem of this file carries over *)
Theorem C08_fix_conservative : forall f bnd x, ~ (bnd = false /\ d_level x = 0%nat /\ xorb (d_tl x) (d_tr x) = true) ->
  eq_points_fx f bnd x = eq_points bnd x /\ eq_weights_fx f bnd x = eq_weights f bnd x.
Proof. exact fx_conservative. Qed.
Print Assumptions C08_fix_conservative.

(* Leja with the sub-box dependent count: the slice of the border logic has the announced length for every flag *)
Theorem C08_fix_leja_slice_length : forall bnd a b s e l,
  let '(np, _, _, _, len) := leja_info_fx bnd a b s e l in len = np.
Proof. exact leja_fx_slice_length. Qed.
Print Assumptions C08_fix_leja_slice_length.

(* ======================================================================================================
   PHASE 3.  Exact algebraic nodes (Model/AlgTower.v): the rules are written once over abstract ring operations; at Qc they
   are the model of the code, in the quadratic-extension tower F_l = Q(cos(pi/2^l)) resp. Q(sqrt(1/3)), Q(sqrt(3/5)) they
   compute with the exact irrational nodes; equalities below are equalities of field elements (irrational parts vanish).
   ====================================================================================================== *)

(* ---- (1) Clenshaw-Curtis: the generic rule IS the code model; levels 1..4 exact up to degree N+1 with the exact nodes ---- *)
Theorem C08_clenshaw_curtis_generic_is_code_model : forall npwb tab i k,
  occ_factor qc_ops npwb tab i = cc_factor npwb (fun m => cheb_at qc_ops tab (2 * m)) i /\
  occ_moment qc_ops npwb tab k
  = apply1 (mono k) (map Qcopp (map (cheb_at qc_ops tab) (seq 0 npwb)))
      (map (cc_factor npwb (fun m => cheb_at qc_ops tab (2 * m))) (seq 0 npwb)).
Proof. intros. split; [apply occ_factor_is_cc_factor | apply occ_moment_is_rule_moment]. Qed.
Print Assumptions C08_clenshaw_curtis_generic_is_code_model.

(* levels 1..4 (3, 5, 9, 17 points): r_l = cos(pi/2^l) satisfies the node equation T_{N/2}(r) = 0 and the reference rule with
   nodes -T_j(r_l) and the code's weight factors has ALL moments up to degree N+1 equal to the integrals over [-1,1].
   Fixed levels (the tower is built level by level): a bounded statement in the level, exact in everything else. *)
Theorem C08_clenshaw_curtis_algebraic_nodes_exact_bounded :
  (node_equation F1 3 r1 = true /\ forall k, (k <= 3)%nat ->
     occ_moment F1 3 (cheb_list F1 r1 (2 * (2 * 1) + 3)) k = oQ F1 (mint k (-(1)) 1)) /\
  (node_equation F2 5 r2 = true /\ forall k, (k <= 5)%nat ->
     occ_moment F2 5 (cheb_list F2 r2 (2 * (4 * 2) + 5)) k = oQ F2 (mint k (-(1)) 1)) /\
  (node_equation F3 9 r3 = true /\ forall k, (k <= 9)%nat ->
     occ_moment F3 9 (cheb_list F3 r3 (2 * (8 * 4) + 9)) k = oQ F3 (mint k (-(1)) 1)) /\
  (node_equation F4 17 r4 = true /\ forall k, (k <= 17)%nat ->
     occ_moment F4 17 (cheb_list F4 r4 (2 * (16 * 8) + 17)) k = oQ F4 (mint k (-(1)) 1)).
Proof. exact (conj cc_tower_level1 (conj cc_tower_level2 (conj cc_tower_level3 cc_tower_level4))). Qed.
Print Assumptions C08_clenshaw_curtis_algebraic_nodes_exact_bounded.

(* degree N+2 is not integrated exactly: N+1 is the true degree of the code's rule on these levels *)
Theorem C08_clenshaw_curtis_degree_sharp_bounded :
  occ_exact_upto F1 3 r1 4 = false /\ occ_exact_upto F2 5 r2 6 = false /\ occ_exact_upto F3 9 r3 10 = false /\
  occ_exact_upto F4 17 r4 18 = false.
Proof. exact cc_tower_degree_sharp. Qed.

(* the tower is the half-angle tower: r_{l+1}^2 = (1 + r_l)/2 *)
Theorem C08_tower_generators :
  omul F2 r2 r2 = oQ F2 Qchalf /\ omul F3 r3 r3 = (half_angle F2 r2, o0 F2) /\ omul F4 r4 r4 = (half_angle F3 r3, o0 F3).
Proof. exact tower_generators. Qed.

(* level 2 (5 points) with the exact nodes +-sqrt(1/2) on EVERY sub-box [s,e], degrees <= 5 *)
Theorem C08_clenshaw_curtis_level2_algebraic_every_subbox : forall s e k, (k <= 5)%nat ->
  occ_moment_box F2 5 (cheb_list F2 r2 (2 * (4 * 2) + 5)) s e k = oQ F2 (mint k s e).
Proof. exact cc5_subbox_exact. Qed.
Print Assumptions C08_clenshaw_curtis_level2_algebraic_every_subbox.

(* ---- (2) Gauss-Legendre with 2 and 3 points (levels 0, 1), exact nodes -+sqrt(1/3); 0, -+sqrt(3/5): degree 2n-1 on EVERY sub-box ---- *)
Theorem C08_gauss_legendre_2pt_exact_every_subbox : forall s e k, (k <= 3)%nat ->
  ogl_moment G2 s e gl2_rule k = oQ G2 (mint k s e).
Proof. exact gl2_subbox_exact. Qed.
Theorem C08_gauss_legendre_3pt_exact_every_subbox : forall s e k, (k <= 5)%nat ->
  ogl_moment G3 s e gl3_rule k = oQ G3 (mint k s e).
Proof. exact gl3_subbox_exact. Qed.
Print Assumptions C08_gauss_legendre_3pt_exact_every_subbox.
(* the nodes are the roots of P_2, P_3; at Qc the generic map is gl_pts / gl_wts of the code model *)
Theorem C08_gauss_legendre_node_equations :
  oadd G2 (omul G2 (oQ G2 (qn 3)) (omul G2 (0, 1) (0, 1))) (oopp G2 (o1 G2)) = o0 G2 /\
  oadd G3 (omul G3 (oQ G3 (qn 5)) (omul G3 (0, 1) (omul G3 (0, 1) (0, 1)))) (oopp G3 (omul G3 (oQ G3 (qn 3)) (0, 1))) = o0 G3.
Proof. exact gl_node_equations. Qed.
Theorem C08_gauss_legendre_generic_is_code_model : forall s e (rule : list (Qc * Qc)) k,
  ogl_moment qc_ops s e rule k = apply1 (mono k) (gl_pts s e (map fst rule)) (gl_wts false s e (map snd rule)).
Proof. exact ogl_moment_is_rule_moment. Qed.

(* ---- (3) Leja: ANY solution of the linear system the code solves is the interpolatory rule ---- *)
(* generic: every n, every n distinct nodes, every interval, every graded polynomial basis *)
Theorem C08_moment_system_solution_is_interpolatory : forall xs ws s e phis, graded phis ->
  (forall j, (j < length phis)%nat -> apply1 (Tensor.peval (nth j phis [])) xs ws = pint (nth j phis []) s e) ->
  NoDup xs -> length ws = length xs -> length phis = length xs ->
  ws = interp_weights xs s e /\
  (forall p, (length p <= length xs)%nat -> apply1 (Tensor.peval p) xs ws = pint p s e).
Proof.
  intros xs ws s e phis G H Hnd Hl Hn. split.
  - apply (system_solution_is_interpolatory xs ws s e phis G H Hnd Hl Hn).
  - intros p Hp. apply (system_exact_poly xs ws s e phis G H (length phis)); [lia | rewrite Hn; exact Hp].
Qed.
Print Assumptions C08_moment_system_solution_is_interpolatory.

(* the code's system (shifted Legendre basis, right-hand side e_0), rules with at most 13 points = Leja levels 0..6 *)
Theorem C08_leja_solution_is_interpolatory_bounded : forall xs ws, (length xs <= 13)%nat -> NoDup xs -> length ws = length xs ->
  (forall j, (j < length xs)%nat ->
     dotQ (map (PolyInt.peval (nth j (shleg_list (length xs)) [])) xs) ws = if (j =? 0)%nat then 1 else 0) ->
  ws = interp_weights xs 0 1 /\
  (forall p, (length p <= length xs)%nat -> apply1 (Tensor.peval p) xs ws = pint p 0 1).
Proof. exact leja_solution_is_interpolatory_bounded. Qed.
Print Assumptions C08_leja_solution_is_interpolatory_bounded.

Theorem C08_leja_system_ok_sound : forall xs ws tol, leja_system_ok xs ws tol = true ->
  length xs = length ws /\ Forall (fun r => Qc_abs r <= tol) (leja_system_residuals xs ws).
Proof. exact leja_system_ok_sound. Qed.

(* ---- non-vacuity ---- *)
Definition ex_dims : list dim1 :=
  [ mkdim (-3) 6 (-3#4) (3#2) 3;      (* interior sub-box of [-3,6], level 3 *)
    mkdim 0 1 (1#2) 1 2 ].            (* touches the upper boundary, level 2 *)

(* a 2D anisotropic sub-box: hypotheses of the exactness theorems are met (boundary on), the grid has 9*5 points,
   and the model evaluates x^1 y^1 (trapezoid) and x^3 y^2 (Simpson) to the exact box moments *)
Example C08_nonvacuous_grid :
  Forall (dim_exact_ok FTrap true) ex_dims /\ Forall (dim_exact_ok FSimpson true) ex_dims /\
  Forall dim_ok ex_dims /\
  length (grid_points true ex_dims) = 45%nat /\
  grid_integrate_monomial FTrap true ex_dims [1;1]%nat = box_moment ex_dims [1;1]%nat /\
  grid_integrate_monomial FSimpson true ex_dims [3;2]%nat = box_moment ex_dims [3;2]%nat /\
  box_moment ex_dims [3;2]%nat <> 0.
Proof.
  split; [|split; [|split; [|split; [|split; [|split]]]]].
  - repeat constructor.
  - repeat constructor.
  - repeat constructor; vm_compute; congruence.
  - vm_compute. reflexivity.
  - apply grid_exact; repeat constructor.
  - apply grid_exact; repeat constructor.
  - vm_compute. congruence.
Qed.

(* modified basis on a sub-box touching the lower boundary (boundary off): 4 points, weights 2h, h/2, h, h/2 *)
Example C08_nonvacuous_modified :
  let x := mkdim 0 1 0 (1#2) 2 in
  (1 <= eq_np false x)%nat /\ eq_np false x = 4%nat /\
  map this (eq_weights FTrapMod false x) = [1#4; 1#16; 1#8; 1#16]%Q /\
  d_tl x = true /\ d_tr x = false.
Proof. vm_compute. repeat split; try lia; reflexivity. Qed.

(* boundary-off clause on a sub-box touching the lower boundary, level 2: 5 points on, 4 points off *)
Example C08_nonvacuous_boundary_off :
  let x := mkdim 0 1 0 (1#2) 2 in
  dim_ok x /\ ~ (d_level x = 0%nat /\ xorb (d_tl x) (d_tr x) = true) /\
  length (eq_points true x) = 5%nat /\ length (eq_points false x) = 4%nat.
Proof. split; [repeat split; vm_compute; congruence | split; [intros [H _]; discriminate H | split; vm_compute; reflexivity]]. Qed.

(* the checker accepts an exact rule and rejects a perturbed one *)
Example C08_checker_discriminates :
  moments_ok [Q2Qc 0; Q2Qc (1#2); Q2Qc 1] [Q2Qc (1#6); Q2Qc (2#3); Q2Qc (1#6)] (Q2Qc 0) (Q2Qc 1) 3 (Q2Qc 0) = true /\
  moments_ok [Q2Qc 0; Q2Qc (1#2); Q2Qc 1] [Q2Qc (1#6); Q2Qc (2#3); Q2Qc (1#6)] (Q2Qc 0) (Q2Qc 1) 4 (Q2Qc (1#1000)) = false /\
  moments_ok [Q2Qc 0; Q2Qc (1#2); Q2Qc 1] [Q2Qc (1#4); Q2Qc (1#2); Q2Qc (1#4)] (Q2Qc 0) (Q2Qc 1) 2 (Q2Qc (1#1000)) = false.
Proof. vm_compute. repeat split. Qed.

(* ---- round 2 non-vacuity ---- *)
(* interpolatory weights of the (non-equidistant) nodes 0, 1/3, 1 on [0,1] are 0, 3/4, 1/4 and integrate x^2 exactly *)
Example C08_nonvacuous_interpolatory :
  let xs := [Q2Qc 0; Q2Qc (1#3); Q2Qc 1] in
  NoDup xs /\ map this (interp_weights xs (Q2Qc 0) (Q2Qc 1)) = [0; 3#4; 1#4]%Q /\
  apply1 (mono 2) xs (interp_weights xs (Q2Qc 0) (Q2Qc 1)) = Q2Qc (1#3) /\
  interp_ok xs [Q2Qc 0; Q2Qc (3#4); Q2Qc (1#4)] (Q2Qc 0) (Q2Qc 1) (Q2Qc 0) = true /\
  interp_ok xs [Q2Qc (1#6); Q2Qc (2#3); Q2Qc (1#6)] (Q2Qc 0) (Q2Qc 1) (Q2Qc (1#100)) = false.
Proof.
  cbv zeta. split; [|vm_compute; repeat split].
  repeat constructor; cbn [In]; intros H; repeat (destruct H as [H | H]; try discriminate H); try exact H.
Qed.

(* Simpson's rule on [-1,1] carried to [1/4, 3/2] by the Gauss-Legendre map of the code: hypotheses met, degree 3 *)
Example C08_nonvacuous_transport :
  let rc := [Q2Qc (-1); Q2Qc 0; Q2Qc 1] in let rw := [Q2Qc (1#3); Q2Qc (4#3); Q2Qc (1#3)] in
  exact1 rc rw (-(1)) 1 3 /\
  map this (gl_pts (Q2Qc (1#4)) (Q2Qc (3#2)) rc) = [1#4; 7#8; 3#2]%Q /\
  apply1 (mono 3) (gl_pts (Q2Qc (1#4)) (Q2Qc (3#2)) rc) (gl_wts false (Q2Qc (1#4)) (Q2Qc (3#2)) rw)
  = mint 3 (Q2Qc (1#4)) (Q2Qc (3#2)) /\ mint 3 (Q2Qc (1#4)) (Q2Qc (3#2)) <> 0.
Proof.
  cbv zeta. split; [|split; [|split]].
  - exact cc_ref_level1.
  - vm_compute. reflexivity.
  - apply (gl_map_exact _ _ _ _ 3 cc_ref_level1). lia.
  - vm_compute. congruence.
Qed.

(* the floats numpy/math return for the irrational nodes satisfy the node equations to 2^-50:
   leggauss(2)[1] = 1300077228592327/2^51, leggauss(3)[2] = 872118317739593/2^50, cos(pi/4) = 6369051672525773/2^53 *)
Example C08_nonvacuous_node_equations :
  let r2 := Q2Qc (1300077228592327 # 2251799813685248) in
  let r3 := Q2Qc (872118317739593 # 1125899906842624) in
  let rc := Q2Qc (6369051672525773 # 9007199254740992) in
  Qc_leb (Qc_abs (qn 3 * r2 * r2 - 1)) (Q2Qc (1 # 1125899906842624)) = true /\
  Qc_leb (Qc_abs (qn 5 * r3 * r3 - qn 3)) (Q2Qc (1 # 1125899906842624)) = true /\
  Qc_leb (Qc_abs (Qc2 * rc * rc - 1)) (Q2Qc (1 # 1125899906842624)) = true.
Proof. vm_compute. repeat split. Qed.

(* per-dimension flags: dimension 1 with boundary points (interior sub-box), dimension 2 modified basis without *)
Example C08_nonvacuous_gridm :
  let ds := [(FSimpson, true, mkdim (-3) 6 (-3#4) (3#2) 3); (FTrapMod, false, mkdim 0 1 (1#2) 1 2)] in
  Forall ds_ok ds /\ Forall ds_fam_ok ds /\ length (gridm_points ds) = 36%nat /\
  gridm_integrate_monomial ds [3; 1]%nat = box_moment_ds ds [3; 1]%nat /\ box_moment_ds ds [3; 1]%nat <> 0.
Proof.
  cbv zeta. split; [|split; [|split; [|split]]].
  - repeat constructor; try (vm_compute; lia).
  - repeat constructor; discriminate.
  - vm_compute. reflexivity.
  - apply gridm_exact; repeat constructor; try (vm_compute; lia).
  - vm_compute. congruence.
Qed.

(* ---- phase 3 non-vacuity ---- *)
(* the Leja-type system on the nodes 0, 1/3, 1 of [0,1]: the interpolatory weights 0, 3/4, 1/4 solve it (residuals 0), other
   weights do not *)
Example C08_nonvacuous_leja_system :
  let xs := [Q2Qc 0; Q2Qc (1#3); Q2Qc 1] in
  leja_system_ok xs [Q2Qc 0; Q2Qc (3#4); Q2Qc (1#4)] 0 = true /\
  leja_system_ok xs [Q2Qc (1#6); Q2Qc (2#3); Q2Qc (1#6)] (Q2Qc (1#100)) = false /\
  map (map this) (shleg_list 3) = [[1]; [-1; 2]; [1; -6; 6]]%Q.
Proof. vm_compute. repeat split. Qed.

(* the 3-point Gauss rule on [1/4, 3/2] in Q(sqrt(3/5)): its outer nodes are irrational, x^5 is integrated exactly *)
Example C08_nonvacuous_gauss_tower :
  snd (ogl_node G3 (Q2Qc (1#4)) (Q2Qc (3#2)) (0, 1)) <> 0 /\
  ogl_moment G3 (Q2Qc (1#4)) (Q2Qc (3#2)) gl3_rule 5 = (mint 5 (Q2Qc (1#4)) (Q2Qc (3#2)), 0) /\
  mint 5 (Q2Qc (1#4)) (Q2Qc (3#2)) <> 0.
Proof.
  split; [vm_compute; congruence | split; [apply (gl3_subbox_exact _ _ 5); lia | vm_compute; congruence]].
Qed.
