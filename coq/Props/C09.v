(* C09 — Global adaptive 1D quadrature rules are exact on every refinement-tree grid.
   Property theorems only; each is closed by `exact` of a lemma from Proofs/.
   Objects (Model/Trap.v): weights_raw mb x a b = the weight vector of GlobalTrapezoidalGrid.compute_weights(x,a,b,mb);
   compute_weights = the same with the self-assert (None = raises); set_grid_1d = GlobalGrid.set_grid for one dimension;
   pl_int X V lo m = formal integral over [X lo, X (lo+m)] of the piecewise-linear interpolant of the values V on the grid X;
   mod_int = formal integral over [a,b] of the linearly extrapolated interpolant of the modified basis;
   lin_int alpha beta lo hi = formal integral of t |-> alpha t + beta.   nq l i = l[i]. *)
From Coq Require Import ZArith List QArith Qcanon Bool Arith Lia.
From SG Require Import Base.QcUtil Model.Trap Proofs.TrapBasics Proofs.Trap Proofs.TrapMod Proofs.TrapMoments.
Import ListNotations.
Open Scope Qc_scope.

(* ---- unmodified basis: for EVERY grid x (any length, not even sortedness is needed) and every value vector v ---- *)
Theorem C09_trap_is_pl_integral : forall x v a b, length v = length x ->
  dotQ (weights_raw false x a b) v = pl_int (nq x) (nq v) 0 (length x - 1).
Proof. exact trap_is_pl_integral. Qed.
Print Assumptions C09_trap_is_pl_integral.

(* the interpolant pieces really are the lines through neighbouring nodes *)
Theorem C09_line_interpolates : forall x0 v0 x1 v1, x1 <> x0 ->
  line_eval x0 v0 x1 v1 x0 = v0 /\ line_eval x0 v0 x1 v1 x1 = v1.
Proof. exact line_eval_interpolates. Qed.

(* boundary off (weights[1:-1], points[1:-1]) = zero boundary values *)
Theorem C09_trap_boundary_off_is_pl_integral : forall x v a b,
  length v = length x -> (2 <= length x)%nat -> nq v 0 = 0 -> nq v (length x - 1) = 0 ->
  dotQ (strip (weights_raw false x a b)) (strip v) = pl_int (nq x) (nq v) 0 (length x - 1).
Proof. exact trap_boundary_off_is_pl_integral. Qed.

(* weights sum to x_{n-1} - x_0 (= b - a), first moment exact, every linear function exact *)
Theorem C09_trap_sum : forall x a b, sumQ (weights_raw false x a b) = nq x (length x - 1) - nq x 0.
Proof. exact trap_sum. Qed.
Theorem C09_trap_first_moment : forall x a b,
  dotQ (weights_raw false x a b) x = (nq x (length x - 1) * nq x (length x - 1) - nq x 0 * nq x 0) * Qchalf.
Proof. exact trap_first_moment. Qed.
Theorem C09_trap_linear_exact : forall x a b alpha beta,
  dotQ (weights_raw false x a b) (map (fun t => alpha * t + beta) x) = lin_int alpha beta (nq x 0) (nq x (length x - 1)).
Proof. exact trap_linear_exact. Qed.
Print Assumptions C09_trap_linear_exact.

(* non-negative weights on every sorted grid *)
Theorem C09_trap_nonneg : forall x a b w, sorted_le x = true -> In w (weights_raw false x a b) -> 0 <= w.
Proof. exact trap_nonneg. Qed.
Print Assumptions C09_trap_nonneg.

(* ---- modified basis: for every strictly increasing grid x_0 = a < ... < x_{n-1} = b with n >= 3 points ---- *)
Theorem C09_trap_mod_is_extrapolated_integral : forall x v a b,
  strictly_increasing x -> (3 <= length x)%nat -> length v = length x -> nq x 0 = a -> nq x (length x - 1) = b ->
  dotQ (weights_raw true x a b) v = mod_int (nq x) (nq v) (length x) a b.
Proof. exact trap_mod_is_extrapolated_integral. Qed.
Print Assumptions C09_trap_mod_is_extrapolated_integral.

Theorem C09_trap_mod_sum : forall x a b,
  strictly_increasing x -> (3 <= length x)%nat -> nq x 0 = a -> nq x (length x - 1) = b ->
  sumQ (weights_raw true x a b) = b - a.
Proof. exact trap_mod_sum. Qed.

(* linear functions: n >= 4 (two inner points, linear extrapolation) ... *)
Theorem C09_trap_mod_linear_exact : forall x a b alpha beta,
  strictly_increasing x -> (4 <= length x)%nat -> nq x 0 = a -> nq x (length x - 1) = b ->
  dotQ (weights_raw true x a b) (map (fun t => alpha * t + beta) x) = lin_int alpha beta a b.
Proof. exact trap_mod_linear_exact. Qed.
Theorem C09_trap_mod_first_moment : forall x a b,
  strictly_increasing x -> (4 <= length x)%nat -> nq x 0 = a -> nq x (length x - 1) = b ->
  dotQ (weights_raw true x a b) x = (b * b - a * a) * Qchalf.
Proof. exact trap_mod_first_moment. Qed.
(* ... and n = 3 (one inner point, the one-point rule) exactly when the inner point is the midpoint, as in every midpoint tree *)
Theorem C09_trap_mod_linear_exact_3 : forall x a b alpha beta,
  length x = 3%nat -> nq x 1 = (a + b) * Qchalf ->
  dotQ (weights_raw true x a b) (map (fun t => alpha * t + beta) x) = lin_int alpha beta a b.
Proof. exact trap_mod_linear_exact_3. Qed.
Print Assumptions C09_trap_mod_linear_exact.

(* the self-assert of compute_weights never fires on such a grid (the Python returns the weights) *)
Theorem C09_trap_mod_assert_never_fails : forall x a b,
  strictly_increasing x -> (3 <= length x)%nat -> nq x 0 = a -> nq x (length x - 1) = b ->
  compute_weights x a b true = Some (weights_raw true x a b).
Proof. exact trap_mod_assert_never_fails. Qed.
Print Assumptions C09_trap_mod_assert_never_fails.

(* ---- set_grid: shapes, boundary stripping, independence of levels and of the history ---- *)
Theorem C09_set_grid_shape : forall bd mb a b x lv g, set_grid_1d bd mb a b x lv = Some g ->
  exists w, compute_weights x a b mb = Some w /\ length w = length x /\
    g_coords g = (if bd then x else strip x) /\ g_weights g = (if bd then w else strip w) /\
    g_levels g = (if bd then lv else strip lv) /\
    length (g_weights g) = length (g_coords g) /\ g_num_points g = length (g_coords g).
Proof. exact set_grid_shape. Qed.

Theorem C09_set_grid_levels_irrelevant : forall bd mb a b x lv lv', length lv = length lv' ->
  match set_grid_1d bd mb a b x lv, set_grid_1d bd mb a b x lv' with
  | Some g, Some g' => g_coords g = g_coords g' /\ g_weights g = g_weights g' /\ g_num_points g = g_num_points g'
  | None, None => True
  | _, _ => False
  end.
Proof. exact set_grid_levels_irrelevant. Qed.

(* two strictly increasing grids with the same SET of points are the same grid, hence have the same weights *)
Theorem C09_trap_depends_only_on_point_set : forall x y a b mb,
  strictly_increasing x -> strictly_increasing y -> (forall q, In q x <-> In q y) ->
  compute_weights x a b mb = compute_weights y a b mb.
Proof. exact trap_depends_only_on_point_set. Qed.
Print Assumptions C09_trap_depends_only_on_point_set.

(* ---- tensor product: the d-dimensional rule on a product of linear functions is the product of the 1D integrals ---- *)
Theorem C09_tensor_quad_product : forall grids fs, length grids = length fs ->
  tensor_quad_gen grids (fun pt => fold_right Qcmult 1 (map (fun fp => fst fp (snd fp)) (combine fs pt)))
  = tensor_quad grids fs.
Proof. exact tensor_quad_product. Qed.
Theorem C09_tensor_trap_exact : forall dims : list (list Qc * (Qc * Qc)),
  tensor_quad (map (fun d => (fst d, weights_raw false (fst d) 0 0)) dims)
              (map (fun d => fun t => fst (snd d) * t + snd (snd d)) dims)
  = fold_right Qcmult 1 (map (fun d => lin_int (fst (snd d)) (snd (snd d)) (nq (fst d) 0) (nq (fst d) (length (fst d) - 1))) dims).
Proof. exact tensor_trap_exact. Qed.
Print Assumptions C09_tensor_trap_exact.

(* ---- verified checker for the opaque rules (high order, Simpson, hierarchical Lagrange / B-spline through their effective
   nodal weights): soundness. Evaluated (extracted) on the implementation's weights in every run; NOT a theorem about those rules. ---- *)
Theorem C09_moments_ok_sound : forall pts wts a b tols c,
  moments_ok pts wts a b tols = true -> (length c <= length tols)%nat ->
  length pts = length wts /\
  Qc_abs (quad1 wts pts (poly_eval c) - poly_int c a b) <= weighted_tol c tols.
Proof. exact moments_ok_sound. Qed.
Theorem C09_moments_ok_exact : forall pts wts a b tols c,
  moments_ok pts wts a b tols = true -> Forall (fun t => t = 0) tols -> (length c <= length tols)%nat ->
  quad1 wts pts (poly_eval c) = poly_int c a b.
Proof. exact moments_ok_exact. Qed.
Print Assumptions C09_moments_ok_sound.

(* ---- non-vacuity: concrete refinement-tree grids with 3, 4, 5, 6 and 9 points meet the hypotheses ---- *)
Definition q (n : Z) (d : positive) : Qc := Q2Qc (n # d).
Definition g3 := [q 0 1; q 1 2; q 1 1].
Definition g4 := [q 0 1; q 1 4; q 1 2; q 1 1].
Definition g5 := [q 0 1; q 1 8; q 1 4; q 1 2; q 1 1].
Definition g6 := [q 0 1; q 1 8; q 1 4; q 1 2; q 3 4; q 1 1].
Definition g9 := [q (-1) 1; q (-3) 4; q (-1) 2; q 0 1; q 1 1; q 2 1; q 5 2; q 11 4; q 3 1].

Lemma si_dec (l : list Qc) : (fix chk (l : list Qc) : bool :=
    match l with x0 :: ((x1 :: _) as t) => Qc_ltb x0 x1 && chk t | _ => true end) l = true -> strictly_increasing l.
Proof.
  induction l as [|x0 t IH]; [intros _; exact I|]. destruct t as [|x1 t]; [intros _; exact I|].
  intro H. apply andb_true_iff in H. destruct H as [H1 H2]. split; [apply Qc_ltb_lt; exact H1 | apply IH; exact H2].
Qed.

(* results are compared through `this` (the reduced fraction): Qc values carry a canonicity proof *)
Definition qs (o : option (list Qc)) : option (list Q) := option_map (map this) o.

Example C09_nonvacuous_3 : strictly_increasing g3 /\ qs (compute_weights g3 (q 0 1) (q 1 1) true) = Some [0; 1; 0]%Q.
Proof. split; [apply si_dec; vm_compute; reflexivity | vm_compute; reflexivity]. Qed.
Example C09_nonvacuous_4 : strictly_increasing g4 /\ qs (compute_weights g4 (q 0 1) (q 1 1) true) = Some [0; 0; 1; 0]%Q.
Proof. split; [apply si_dec; vm_compute; reflexivity | vm_compute; reflexivity]. Qed.
Example C09_nonvacuous_5 : strictly_increasing g5 /\
  qs (compute_weights g5 (q 0 1) (q 1 1) true) = Some [0; 1 # 4; -3 # 8; 9 # 8; 0]%Q.
Proof. split; [apply si_dec; vm_compute; reflexivity | vm_compute; reflexivity]. Qed.
Example C09_nonvacuous_6 : strictly_increasing g6 /\
  qs (compute_weights g6 (q 0 1) (q 1 1) true) = Some [0; 1 # 4; 1 # 8; 1 # 8; 1 # 2; 0]%Q /\
  qs (compute_weights g6 (q 0 1) (q 1 1) false) = Some [1 # 16; 1 # 8; 3 # 16; 1 # 4; 1 # 4; 1 # 8]%Q.
Proof. split; [apply si_dec; vm_compute; reflexivity | split; vm_compute; reflexivity]. Qed.
Example C09_nonvacuous_9 : strictly_increasing g9 /\ nq g9 0 = q (-1) 1 /\ nq g9 (length g9 - 1) = q 3 1 /\
  (exists w, compute_weights g9 (q (-1) 1) (q 3 1) true = Some w /\ this (sumQ w) = 4%Q /\ this (dotQ w g9) = 4%Q) /\
  moments_ok g9 (weights_raw false g9 (q (-1) 1) (q 3 1)) (q (-1) 1) (q 3 1) [q 0 1; q 0 1] = true.
Proof.
  assert (Hs : strictly_increasing g9) by (apply si_dec; vm_compute; reflexivity).
  split; [exact Hs|]. split; [reflexivity|]. split; [reflexivity|].
  split; [|vm_compute; reflexivity].
  exists (weights_raw true g9 (q (-1) 1) (q 3 1)).
  split; [apply C09_trap_mod_assert_never_fails; [exact Hs | simpl; lia | reflexivity | reflexivity]|].
  split; vm_compute; reflexivity.
Qed.

(* ==================================================================================================================
   SOURCE-DERIVED MODEL (DESIGN.md 0.5).  Gen/GridGen.v is regenerated from sparseSpACE/Grid.py by
   harness/translate/py2gallina.py --target grid at every ./setup.sh C09 and ./check C09; the theorems below are therefore
   re-checked against what the code says NOW.  Trusted reading: Python floats are exact rationals (Base/PyNum.v). *)
From SG Require Import Base.PyLib Base.PyNum Gen.GridGen Proofs.GenGridEq.
Open Scope Qc_scope.

(* the function generated from GlobalTrapezoidalGrid.compute_weights IS the hand-written model compute_weights, for all
   inputs; preconditions only where Python divides by zero / the documented one-point deviation of the model *)
Theorem C09_gen_compute_weights_is_model : forall x a b mb,
  (mb = true -> (4 <= length x)%nat -> nq x 1 <> nq x 2 /\ nq x (length x - 3) <> nq x (length x - 2)) ->
  ~ (mb = true /\ length x = 1%nat /\ a = b) ->
  GlobalTrapezoidalGrid_compute_weights x a b mb = compute_weights x a b mb.
Proof. exact gen_compute_weights_eq. Qed.
Print Assumptions C09_gen_compute_weights_is_model.
Theorem C09_gen_compute_weights_is_model_on_trees : forall x a b mb,
  strictly_increasing x -> length x <> 1%nat ->
  GlobalTrapezoidalGrid_compute_weights x a b mb = compute_weights x a b mb.
Proof. exact gen_compute_weights_increasing. Qed.
Theorem C09_gen_compute_weights_degenerate : forall x0 a, GlobalTrapezoidalGrid_compute_weights [x0] a a true = Some [0].
Proof. exact gen_compute_weights_degenerate. Qed.
(* ... and the division precondition is exact: where it fails the Python divides by zero - the generated function has no result *)
Theorem C09_gen_compute_weights_raises_on_zero_division : forall x a b, (4 <= length x)%nat ->
  nq x 1 = nq x 2 \/ nq x (length x - 3) = nq x (length x - 2) ->
  GlobalTrapezoidalGrid_compute_weights x a b true = None.
Proof. exact gen_compute_weights_div0. Qed.
Print Assumptions C09_gen_compute_weights_raises_on_zero_division.
(* the method: self.modified_basis is a parameter of the generated function *)
Theorem C09_gen_compute_1D_quad_weights : forall mb x a b d lv,
  GlobalTrapezoidalGrid_compute_1D_quad_weights mb x a b d lv = GlobalTrapezoidalGrid_compute_weights x a b mb.
Proof. exact gen_compute_1D_quad_weights_eq. Qed.
Print Assumptions C09_gen_compute_1D_quad_weights.

(* C09 for the generated definitions: unmodified basis, EVERY grid *)
Theorem C09_gen_trap_is_pl_integral : forall x v a b w, length v = length x ->
  GlobalTrapezoidalGrid_compute_weights x a b false = Some w ->
  dotQ w v = pl_int (nq x) (nq v) 0 (length x - 1).
Proof. exact gen_trap_is_pl_integral. Qed.
Theorem C09_gen_trap_never_raises : forall x a b, exists w, GlobalTrapezoidalGrid_compute_weights x a b false = Some w.
Proof. intros x a b. eexists. apply gen_plain_value. Qed.
Theorem C09_gen_trap_sum : forall x a b w,
  GlobalTrapezoidalGrid_compute_weights x a b false = Some w -> sumQ w = nq x (length x - 1) - nq x 0.
Proof. exact gen_trap_sum. Qed.
Theorem C09_gen_trap_linear_exact : forall x a b alpha beta w,
  GlobalTrapezoidalGrid_compute_weights x a b false = Some w ->
  dotQ w (map (fun t => alpha * t + beta) x) = lin_int alpha beta (nq x 0) (nq x (length x - 1)).
Proof. exact gen_trap_linear_exact. Qed.
Theorem C09_gen_trap_nonneg : forall x a b w q, sorted_le x = true ->
  GlobalTrapezoidalGrid_compute_weights x a b false = Some w -> In q w -> 0 <= q.
Proof. exact gen_trap_nonneg. Qed.
Print Assumptions C09_gen_trap_is_pl_integral.
Print Assumptions C09_gen_trap_nonneg.

(* modified basis, every strictly increasing grid x_0 = a < ... < x_{n-1} = b, n >= 3: the generated function raises nothing
   (its self-assert included), its weights integrate the linearly extrapolated interpolant and sum to b - a *)
Theorem C09_gen_trap_mod_is_extrapolated_integral : forall x v a b,
  strictly_increasing x -> (3 <= length x)%nat -> length v = length x -> nq x 0 = a -> nq x (length x - 1) = b ->
  exists w, GlobalTrapezoidalGrid_compute_weights x a b true = Some w /\
            dotQ w v = mod_int (nq x) (nq v) (length x) a b /\ sumQ w = b - a.
Proof. exact gen_trap_mod_is_extrapolated_integral. Qed.
Theorem C09_gen_trap_mod_linear_exact : forall x a b alpha beta,
  strictly_increasing x -> (4 <= length x)%nat -> nq x 0 = a -> nq x (length x - 1) = b ->
  exists w, GlobalTrapezoidalGrid_compute_weights x a b true = Some w /\
            dotQ w (map (fun t => alpha * t + beta) x) = lin_int alpha beta a b.
Proof. exact gen_trap_mod_linear_exact. Qed.
Print Assumptions C09_gen_trap_mod_is_extrapolated_integral.
Print Assumptions C09_gen_trap_mod_linear_exact.

(* non-vacuity: the generated function computes the weights of the examples above *)
Example C09_gen_nonvacuous : qs (GlobalTrapezoidalGrid_compute_weights g6 (q 0 1) (q 1 1) true) = Some [0; 1 # 4; 1 # 8; 1 # 8; 1 # 2; 0]%Q /\
  qs (GlobalTrapezoidalGrid_compute_weights g6 (q 0 1) (q 1 1) false) = Some [1 # 16; 1 # 8; 3 # 16; 1 # 4; 1 # 4; 1 # 8]%Q /\
  qs (GlobalTrapezoidalGrid_compute_weights g5 (q 0 1) (q 1 1) true) = Some [0; 1 # 4; -3 # 8; 9 # 8; 0]%Q /\
  GlobalTrapezoidalGrid_compute_weights [q 0 1; q 1 2; q 1 2; q 3 4; q 1 1] (q 0 1) (q 1 1) true = None.
Proof. repeat split; vm_compute; reflexivity. Qed.

(* ==================================================================================================================
   PHASE 3.  (1) The hierarchical Lagrange rule (GlobalLagrangeGrid with boundary points, integrate(f) = sum_i surplus_i(f) *
   integral(basis_i), Model/LagrangeQuad.v) is exact for constants and linear functions on EVERY refinement tree and for every order
   p >= 1; C10's tree theorems are imported: every tree system is unit triangular and uniquely solvable, hierarchisation is a
   projection onto the span of the basis.  tree_system p true a b t is the system GlobalLagrangeGrid builds on the tree t. *)
From SG Require Import Model.Basis Model.BasisTree Model.LagrangeQuad Model.SimpsonGlobal Proofs.BasisTreeP Proofs.LagrangeQuadP
  Proofs.SimpsonGlobalP.
Open Scope Qc_scope.

Theorem C09_lagrange_tree_linear_exact : forall p a b t alpha beta sy,
  (1 <= p)%nat -> a < b -> in_range a b t -> tree_system p true a b t = Some sy ->
  let s := {| s_basis := sy; s_ord := Some (level_order (tree_levels t)) |} in
  let f := fun x => alpha * x + beta in
  hier_quad s (map f (map fst sy)) = Some (lin_int alpha beta a b) /\
  exists sur, hier_nd [s] (map f (map fst sy)) = Some sur /\ forall x, a <= x -> x <= b -> interp_nd [s] [x] sur = f x.
Proof. exact lagrange_tree_linear_exact. Qed.
Print Assumptions C09_lagrange_tree_linear_exact.

(* non-vacuity: the graded tree 0 < 1/4 < 1/2 < 1 with p = 2 is accepted and 3x + 1 is integrated to 5/2 *)
Example C09_lagrange_tree_nonvacuous :
  let t := RNode (RNode RLeaf (q 1 4) RLeaf) (q 1 2) RLeaf in
  in_range 0 1 t /\
  exists sy, tree_system 2 true 0 1 t = Some sy /\ length sy = 4%nat /\
    option_map this (hier_quad {| s_basis := sy; s_ord := Some (level_order (tree_levels t)) |}
                       (map (fun x => q 3 1 * x + 1) (map fst sy))) = Some (5 # 2)%Q.
Proof.
  cbv zeta. split; [cbn; repeat split; reflexivity|].
  eexists. split; [vm_compute; reflexivity|]. split; vm_compute; reflexivity.
Qed.

(* (2) GlobalSimpsonGrid with an odd number of points (Model/SimpsonGlobal.v): the composite three-point rule on NON-UNIFORM panel
   pairs integrates every quadratic exactly on every grid whose panel pairs have distinct points; cubics when every middle point is the
   midpoint of its pair; the weights sum to x_{n-1} - x_0 *)
Theorem C09_simpson_global_quadratic_exact : forall l w c0 c1 c2,
  panel_pairs_ok l -> simpson_weights l = Some w ->
  length w = length l /\ dotQ w (map (cubic_eval c0 c1 c2 0) l) = cubic_int c0 c1 c2 0 (hd 0 l) (last l 0).
Proof. exact simpson_global_quadratic_exact. Qed.
Theorem C09_simpson_global_cubic_exact : forall l w c0 c1 c2 c3,
  panel_pairs_ok l -> panel_pairs_uniform l -> simpson_weights l = Some w ->
  dotQ w (map (cubic_eval c0 c1 c2 c3) l) = cubic_int c0 c1 c2 c3 (hd 0 l) (last l 0).
Proof. exact simpson_global_cubic_exact. Qed.
Theorem C09_simpson_global_sum : forall l w, panel_pairs_ok l -> simpson_weights l = Some w -> sumQ w = last l 0 - hd 0 l.
Proof. exact simpson_global_sum. Qed.
Print Assumptions C09_simpson_global_quadratic_exact.
Print Assumptions C09_simpson_global_cubic_exact.
Example C09_simpson_global_nonvacuous :
  panel_pairs_ok g5 /\ option_map (map this) (simpson_weights g5) = Some [(1 # 24)%Q; (1 # 6)%Q; (1 # 24)%Q; (9 # 16)%Q; (3 # 16)%Q]
  /\ simpson_weights g4 = None.
Proof. split; [cbn; repeat split; discriminate|]. split; vm_compute; reflexivity. Qed.

(* ---------------------------------------------------------------------------------------------------------------------------------
   phase 3, items (3) and (4) (Proofs/C09Phase3.v) *)
From Coq Require Import Permutation.
From SG Require Import Proofs.C09Phase3.
Open Scope Qc_scope.

(* (3) the open known findings, machine-checked on the model where the model has the code:
   C09-lagrange-modified-linear: GlobalLagrangeGrid(p=2, boundary=False, modified_basis=True) on [0,1], points 0,1/4,1/2,1 (levels
   0,2,1,0): the effective nodal weights (entry sub 4, compared with the code by 'rule-weights-differ') are 1/2, 1/2 - they sum to b-a,
   the first moment is 3/8 instead of 1/2.  So "the modified Lagrange basis integrates linear functions exactly" is false on the model,
   as the check reports on the code. *)
Theorem C09_lagrange_modified_linear_refuted :
  exists w, lagrange_nodal_weights 2 false true 0 1 [0; qq 1 4; qq 1 2; 1] [0; 2; 1; 0]%nat = Some w /\
            sumQ w = 1 - 0 /\ dotQ w [qq 1 4; qq 1 2] <> (1 * 1 - 0 * 0) * Qchalf.
Proof. exact lagrange_modified_linear_refuted. Qed.
Print Assumptions C09_lagrange_modified_linear_refuted.

(* C09-bspline-modified-linear: the model has the evaluation of the (modified) hierarchical B-splines but no closed integral of them
   (the code integrates them by Gauss-Legendre on knot spans), so the witness is for the cause: with p=1, [-1,3], points -1,0,1,3
   (levels 0,2,1,0) the modified hierarchical interpolant of f(x)=x is exact at the nodes and left of them but CONSTANT 1 right of the
   last interior node (value 1 at x=2), so it is not f and its integral over [-1,3] cannot be that of f *)
Theorem C09_bspline_modified_linear_not_reproduced :
  exists sy sur, bspline_system 1 false true (qq (-1) 1) (qq 3 1) [qq (-1) 1; 0; 1; qq 3 1] [0; 2; 1; 0]%nat = Some sy /\
    map fst sy = [0; 1] /\
    let s := {| s_basis := sy; s_ord := None |} in
    hier_nd [s] (map (fun x => x) (map fst sy)) = Some sur /\
    interp_nd [s] [0] sur = 0 /\ interp_nd [s] [1] sur = 1 /\ interp_nd [s] [qq (-1) 2] sur = qq (-1) 2 /\
    interp_nd [s] [qq 2 1] sur = 1 /\ interp_nd [s] [qq 2 1] sur <> qq 2 1.
Proof. exact bspline_modified_linear_not_reproduced. Qed.
Print Assumptions C09_bspline_modified_linear_not_reproduced.

(* (4) "depends only on the point set", as the code has it: set_grid asserts sortedness (non-strictly), so of all orderings of a
   multiset of points exactly the sorted one is accepted, and the grid object and the weights are a function of that multiset *)
Theorem C09_set_grid_rejects_unsorted : forall bd mb a b x lv, sorted_le x = false -> set_grid_1d bd mb a b x lv = None.
Proof. exact set_grid_rejects_unsorted. Qed.
Theorem C09_trap_depends_only_on_multiset : forall bd mb a b x y lv gx gy,
  Permutation x y -> set_grid_1d bd mb a b x lv = Some gx -> set_grid_1d bd mb a b y lv = Some gy ->
  x = y /\ gx = gy /\ compute_weights x a b mb = compute_weights y a b mb.
Proof. exact trap_depends_only_on_multiset. Qed.
(* duplicates pass the (non-strict) sortedness assert; for the unmodified rule a point listed twice changes nothing: as a functional
   on nodal values of ANY f the rule of  l1 ++ p :: p :: l2  is the rule of  l1 ++ p :: l2  (the two copies share the weight) *)
Theorem C09_trap_duplicate_point_invisible : forall f a b l1 p l2,
  dotQ (weights_raw false (l1 ++ p :: p :: l2) a b) (map f (l1 ++ p :: p :: l2))
  = dotQ (weights_raw false (l1 ++ p :: l2) a b) (map f (l1 ++ p :: l2)).
Proof. exact trap_duplicate_point_invisible. Qed.
Print Assumptions C09_set_grid_rejects_unsorted.
Print Assumptions C09_trap_depends_only_on_multiset.
Print Assumptions C09_trap_duplicate_point_invisible.
(* non-vacuity: the sorted g5 is accepted, a permutation of it is refused, and a duplicated point is accepted with the shared weight *)
Example C09_point_set_nonvacuous :
  (exists g, set_grid_1d true false 0 1 g5 [0; 3; 2; 1; 0]%Z = Some g) /\
  set_grid_1d true false 0 1 [q 0 1; q 1 4; q 1 8; q 1 2; q 1 1] [0; 3; 2; 1; 0]%Z = None /\
  Permutation g5 [q 0 1; q 1 4; q 1 8; q 1 2; q 1 1] /\
  option_map (map this) (compute_weights [q 0 1; q 1 2; q 1 2; q 1 1] 0 1 false) = Some [(1 # 4)%Q; (1 # 4)%Q; (1 # 4)%Q; (1 # 4)%Q].
Proof.
  split; [eexists; vm_compute; reflexivity|]. split; [vm_compute; reflexivity|].
  split; [unfold g5; apply perm_skip, perm_swap|]. vm_compute; reflexivity.
Qed.
