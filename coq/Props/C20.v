(* C20 — Regression solves the regularised least-squares problem on every component grid.
   Property theorems only + non-vacuity examples.  Model: Model/Regress.v (on top of Model/Gram.v). *)
From Coq Require Import ZArith List QArith Qcanon Bool Lia.
From SG Require Import Base.QcUtil Base.PolyInt Model.Gram Model.Regress
  Proofs.GramHat Proofs.GramEntries Proofs.GramPD Proofs.GramNorm Proofs.RegressP.
Import ListNotations.
Open Scope Qc_scope.

(* ---- "the smoothing matrix equals the Gram matrix of the basis gradients": FALSE for the code as written.
   Full statement (refuted):  forall lv iv jv, C_val true lv iv jv = C_val false lv iv jv   (uniform grids)
                              forall ti tj,    C_val_dw_coded ti tj = C_val_dw_spec ti tj   (dimension-wise grids) *)
Theorem C20_C_matrix_refuted : exists lv iv jv, C_val true lv iv jv <> C_val false lv iv jv.
Proof. exact C_matrix_refuted. Qed.
Theorem C20_C_matrix_dimension_wise_refuted : exists ti tj, C_val_dw_coded ti tj <> C_val_dw_spec ti tj.
Proof. exact C_matrix_dw_refuted. Qed.
Print Assumptions C20_C_matrix_refuted.
Print Assumptions C20_C_matrix_dimension_wise_refuted.

(* what does hold: on isotropic level vectors the coded matrix is the specification matrix *)
Theorem C20_C_coded_correct_if_isotropic_partial : forall l lv iv jv,
  Forall (eq l) lv -> C_val true lv iv jv = C_val false lv iv jv.
Proof. exact C_coded_correct_if_isotropic. Qed.
Print Assumptions C20_C_coded_correct_if_isotropic_partial.

(* the specification entries are the formal integrals of the products of the hat derivatives:
   same node 1/h_left + 1/h_right, neighbours -1/h ; the coded uniform factors 2^(l+1), -2^l are these values *)
Theorem C20_C_entry_is_gradient_gram : forall t, proper t ->
  pderiv (hat_left_poly t) = hat_left_slope t /\ pderiv (hat_right_poly t) = hat_right_slope t /\
  grad1_spec t t = pintegral (pmul (hat_left_slope t) (hat_left_slope t)) (h_lo t) (h_p t)
                 + pintegral (pmul (hat_right_slope t) (hat_right_slope t)) (h_p t) (h_hi t).
Proof.
  intros t H. destruct (slope_is_derivative t) as [A B]. split; [exact A | split; [exact B | exact (grad_same_is_integral t H)]].
Qed.
Theorem C20_C_entry_is_gradient_gram_neighbours : forall ti tj,
  h_p ti < h_p tj -> h_hi ti = h_p tj -> h_lo tj = h_p ti ->
  grad1_spec ti tj = pintegral (pmul (hat_right_slope ti) (hat_left_slope tj)) (h_p ti) (h_p tj).
Proof. exact grad_adjacent_is_integral. Qed.
Theorem C20_gradient_factors_uniform : forall l i, (0 <= l)%Z ->
  grad_term l i i = Some (grad1_spec (uniform_dom l i) (uniform_dom l i)) /\
  grad_term l i (i + 1) = Some (grad1_spec (uniform_dom l i) (uniform_dom l (i + 1))).
Proof. exact grad_term_uniform. Qed.
Print Assumptions C20_C_entry_is_gradient_gram.
Print Assumptions C20_C_entry_is_gradient_gram_neighbours.
Print Assumptions C20_gradient_factors_uniform.

(* ---- symmetry *)
Theorem C20_C_symmetric : forall coded lv iv jv stripes,
  C_val coded lv iv jv = C_val coded lv jv iv /\
  symmetricM (length (index_list lv)) (C_matrix_uniform coded lv) /\
  symmetricM (length (grid_hats stripes)) (C_matrix_dw_spec stripes).
Proof.
  intros. split; [exact (C_symmetric coded lv iv jv) | split; [exact (C_matrix_symmetric coded lv) | exact (proj1 (C_matrix_dw_symmetric stripes))]].
Qed.
Print Assumptions C20_C_symmetric.

(* ---- positive semi-definite: one dimension, EVERY strictly increasing stripe of the unit interval
   (x^T C x = sum over the cells (x_{k+1} - x_k)^2 / h_k).  d >= 2: tested per case (exact LDL^T), not proved. *)
Theorem C20_C_quadratic_form_is_cell_sum : forall xs, strictly_inc xs -> forall v, length v = length (windows xs) ->
  quad (sym_matrix C_val_dw_spec 0 (pts1 xs)) v = gradform xs (0 :: v ++ [0]).
Proof. exact grad_quad_is_cell_sum. Qed.
Theorem C20_C_positive_semidefinite_1d : forall xs v,
  strictly_inc xs -> hd 0 xs = 0 -> last xs 0 = 1 -> length v = length (windows xs) ->
  0 <= quad (C_matrix_dw_spec [xs]) v.
Proof. exact C_positive_semidefinite_1d. Qed.
Print Assumptions C20_C_quadratic_form_is_cell_sum.
Print Assumptions C20_C_positive_semidefinite_1d.

(* ---- Opticom: every variant ends with coefs / sum(coefs) *)
Theorem C20_normalised_coefficients_sum_to_one : forall cs, sumQ cs <> 0 -> sumQ (normalise_coefficients cs) = 1.
Proof. exact normalised_coefficients_sum_to_one. Qed.
Print Assumptions C20_normalised_coefficients_sum_to_one.

(* ---- verified checker for the least-squares solves: accepted surpluses satisfy the system up to the stated bound *)
Theorem C20_residual_ok_sound : forall L r alpha tol, residual_ok L r alpha tol = true ->
  Forall2 (fun row ri => Qc_abs (dotQ row alpha - ri) <= tol * residual_scale L r alpha) L r.
Proof. exact residual_ok_sound. Qed.
Print Assumptions C20_residual_ok_sound.

(* ---- non-vacuity *)
Example C20_nonvacuous_values :
  C_val true [1; 2]%Z [1; 1]%Z [1; 1]%Z = qq 8 3 /\ C_val false [1; 2]%Z [1; 1]%Z [1; 1]%Z = qq 10 3 /\
  C_val true [2; 2]%Z [1; 1]%Z [1; 2]%Z = C_val false [2; 2]%Z [1; 1]%Z [1; 2]%Z.
Proof. repeat split; apply Qc_is_canon; vm_compute; reflexivity. Qed.

Example C20_nonvacuous_psd :
  let xs := [qq 0 1; qq 1 4; qq 1 2; qq 5 8; qq 1 1] in
  strictly_inc xs /\ hd 0 xs = 0 /\ last xs 0 = 1 /\
  quad (C_matrix_dw_spec [xs]) [qq 1 1; qq (-2) 1; qq 1 1] = qq 344 3 /\
  quad (C_matrix_dw_spec [xs]) [qq 1 1; qq 1 1; qq 1 1] = qq 20 3.
Proof.
  cbv zeta. split; [|split; [|split; [|split]]].
  - cbn. repeat split; unfold Qclt; vm_compute; reflexivity.
  - apply Qc_is_canon; reflexivity.
  - apply Qc_is_canon; reflexivity.
  - apply Qc_is_canon. vm_compute. reflexivity.
  - apply Qc_is_canon. vm_compute. reflexivity.
Qed.

Example C20_nonvacuous_normalise :
  nth 0 (normalise_coefficients [qq 3 1; qq (-1) 1; qq 1 2]) 0 = qq 6 5 /\
  sumQ (normalise_coefficients [qq 3 1; qq (-1) 1; qq 1 2]) = 1 /\
  residual_ok [[qq 2 1; qq 1 1]; [qq 1 1; qq 3 1]] [qq 3 1; qq 4 1] [qq 1 1; qq 1 1] (qq 1 100) = true.
Proof. split; [|split]; [apply Qc_is_canon; vm_compute; reflexivity | apply Qc_is_canon; vm_compute; reflexivity | vm_compute; reflexivity]. Qed.

(* ======================================================================================================================
   Deepening (round 2).  Proofs: Proofs/RegressLS.v, Proofs/RegressUniform.v
   ====================================================================================================================== *)
From SG Require Import Proofs.RegressLS Proofs.RegressUniform Proofs.RegressPSD.

(* ---- "the surpluses solve the regularised least-squares problem": solutions of the normal equations of the model
   (left_matrix_gen A lambda M = 1/m A^T A + lambda M, right_vector = 1/m A^T y) are GLOBAL MINIMISERS of
   J(a) = 1/m |A a - y|^2 + lambda a^T M a, for every design matrix (any number of rows and columns), all targets,
   lambda >= 0 and every symmetric positive semi-definite M; the gap is exactly 1/m |A d|^2 + lambda d^T M d. *)
Theorem C20_normal_equations_gap : forall n A y lam M alpha delta,
  wf_matrix n A -> A <> [] -> length y = length A -> wf_matrix n M -> length M = n -> length alpha = n -> length delta = n ->
  bilinear_symmetric n M ->
  matvec (left_matrix_gen A lam M) alpha = right_vector A y ->
  J A y lam M (vadd alpha delta)
  = J A y lam M alpha + ((1 / qc_of_nat (length A)) * sqnorm (matvec A delta) + lam * quad M delta).
Proof. exact normal_equations_gap. Qed.
Theorem C20_normal_equations_minimise : forall n A y lam M alpha beta,
  wf_matrix n A -> A <> [] -> length y = length A -> wf_matrix n M -> length M = n -> length alpha = n -> length beta = n ->
  bilinear_symmetric n M -> psd n M -> 0 <= lam ->
  matvec (left_matrix_gen A lam M) alpha = right_vector A y ->
  J A y lam M alpha <= J A y lam M beta.
Proof. exact normal_equations_minimise. Qed.
Print Assumptions C20_normal_equations_gap.
Print Assumptions C20_normal_equations_minimise.

(* the three systems of the code (left_matrix of the model = build_left_matrix / solve_regression_dimension_wise_smooth):
   identity, plain least squares (lambda = 0), smoothing matrix built by the double loop *)
Theorem C20_ridge_normal_equations_minimise : forall n A y lam C alpha beta,
  wf_matrix n A -> A <> [] -> length y = length A -> length alpha = n -> length beta = n -> 0 <= lam ->
  matvec (left_matrix A lam false C) alpha = right_vector A y ->
  J A y lam (identity n) alpha <= J A y lam (identity n) beta.
Proof. exact ridge_normal_equations_minimise. Qed.
Theorem C20_plain_least_squares_minimise : forall n A y use_C C alpha beta,
  wf_matrix n A -> A <> [] -> length y = length A -> length alpha = n -> length beta = n ->
  (use_C = true -> wf_matrix n C /\ length C = n) ->
  matvec (left_matrix A 0 use_C C) alpha = right_vector A y ->
  sqnorm (vsub (matvec A alpha) y) <= sqnorm (vsub (matvec A beta) y).
Proof. exact plain_least_squares_minimise. Qed.
(* _partial: positive semi-definiteness of the d-dimensional smoothing matrix is a hypothesis (proved for d = 1 below,
   tested per case for d >= 2) *)
Theorem C20_smooth_normal_equations_minimise_partial : forall (T : Type) (e : T -> T -> Qc) pts A y lam alpha beta,
  let n := length pts in let C := sym_matrix e 0 pts in
  wf_matrix n A -> A <> [] -> length y = length A -> length alpha = n -> length beta = n -> 0 <= lam -> psd n C ->
  matvec (left_matrix A lam true C) alpha = right_vector A y ->
  J A y lam C alpha <= J A y lam C beta.
Proof. exact @smooth_normal_equations_minimise. Qed.
Theorem C20_smooth_normal_equations_minimise_1d : forall xs A y lam alpha beta,
  strictly_inc xs -> hd 0 xs = 0 -> last xs 0 = 1 ->
  let n := length (windows xs) in let C := C_matrix_dw_spec [xs] in
  wf_matrix n A -> A <> [] -> length y = length A -> length alpha = n -> length beta = n -> 0 <= lam ->
  matvec (left_matrix A lam true C) alpha = right_vector A y ->
  J A y lam C alpha <= J A y lam C beta.
Proof. exact smooth_normal_equations_minimise_1d. Qed.
Print Assumptions C20_ridge_normal_equations_minimise.
Print Assumptions C20_plain_least_squares_minimise.
Print Assumptions C20_smooth_normal_equations_minimise_partial.
Print Assumptions C20_smooth_normal_equations_minimise_1d.

(* what the verified residual checker certifies about the floating-point surpluses of the implementation:
   they minimise J up to 2 |delta|_1 tol scale *)
Theorem C20_residual_ok_near_minimiser : forall n A y lam M alpha delta tol,
  wf_matrix n A -> A <> [] -> length y = length A -> wf_matrix n M -> length M = n -> length alpha = n -> length delta = n ->
  bilinear_symmetric n M -> psd n M -> 0 <= lam ->
  residual_ok (left_matrix_gen A lam M) (right_vector A y) alpha tol = true ->
  J A y lam M alpha
  <= J A y lam M (vadd alpha delta)
     + (1 + 1) * (sumQ (map Qc_abs delta) * (tol * residual_scale (left_matrix_gen A lam M) (right_vector A y) alpha)).
Proof. exact residual_ok_near_minimiser. Qed.
Print Assumptions C20_residual_ok_near_minimiser.
(* the checker actually evaluated per case uses the cancellation-aware scale max(scale, max_i (|A|^T |y|)_i / m) *)
Theorem C20_residual_ok_floor_sound : forall L r alpha tol floor, residual_ok_floor L r alpha tol floor = true ->
  Forall2 (fun row ri => Qc_abs (dotQ row alpha - ri) <= tol * Qc_max (residual_scale L r alpha) floor) L r.
Proof. exact residual_ok_floor_sound. Qed.
Theorem C20_residual_ok_floor_near_minimiser : forall n A y lam M alpha delta tol,
  wf_matrix n A -> A <> [] -> length y = length A -> wf_matrix n M -> length M = n -> length alpha = n -> length delta = n ->
  bilinear_symmetric n M -> psd n M -> 0 <= lam ->
  residual_ok_floor (left_matrix_gen A lam M) (right_vector A y) alpha tol (residual_floor A y) = true ->
  J A y lam M alpha
  <= J A y lam M (vadd alpha delta)
     + (1 + 1) * (sumQ (map Qc_abs delta)
                  * (tol * Qc_max (residual_scale (left_matrix_gen A lam M) (right_vector A y) alpha) (residual_floor A y))).
Proof. exact residual_ok_floor_near_minimiser. Qed.
Print Assumptions C20_residual_ok_floor_sound.
Print Assumptions C20_residual_ok_floor_near_minimiser.

(* ---- "the smoothing matrix equals the Gram matrix of the basis gradients on uniform grids": TRUE for the code after fix
   commit aa53b00 (mass terms with the level of their own dimension = C_val false), every dimension, all levels >= 1 *)
Theorem C20_C_uniform_is_gradient_gram : forall lv iv jv,
  length iv = length lv -> length jv = length lv -> Forall (fun l => (1 <= l)%Z) lv ->
  C_val false lv iv jv = C_val_dw_spec (uhats lv iv) (uhats lv jv).
Proof. exact C_uniform_is_gradient_gram. Qed.
Theorem C20_C_matrix_uniform_is_gradient_gram : forall lv, Forall (fun l => (1 <= l)%Z) lv ->
  C_matrix_uniform false lv = sym_matrix (fun iv jv => C_val_dw_spec (uhats lv iv) (uhats lv jv)) 0 (index_list lv).
Proof. exact C_matrix_uniform_is_gradient_gram. Qed.
Theorem C20_C_factors_uniform : forall l i j, (1 <= l)%Z ->
  optval (grad_term l i j) = grad1_spec (uniform_dom l i) (uniform_dom l j) /\
  optval (mass_term l i j) = mass1_spec (uniform_dom l i) (uniform_dom l j).
Proof. intros l i j H. split; [apply grad_factor_uniform; lia | apply mass_factor_uniform; exact H]. Qed.
Print Assumptions C20_C_uniform_is_gradient_gram.
Print Assumptions C20_C_matrix_uniform_is_gradient_gram.
Print Assumptions C20_C_factors_uniform.

(* ---- "the design matrix holds the basis values at the training points": every row, ANY number of rows; evaluating the
   training points block-wise and stacking the blocks gives the same matrix *)
Theorem C20_design_matrix_holds_basis_values : forall lv data,
  length (design_uniform lv data) = length data /\
  (forall k x, nth_error data k = Some x ->
     nth_error (design_uniform lv data) k = Some (map (fun iv => hat_nd hat_scalar (uhats lv iv) x) (index_list lv))).
Proof. exact design_uniform_rows. Qed.
Theorem C20_design_matrix_dimension_wise_holds_basis_values : forall stripes data, Forall (Forall proper) (grid_hats stripes) ->
  length (design_nonuniform stripes data) = length data /\
  (forall k x, nth_error data k = Some x ->
     nth_error (design_nonuniform stripes data) k = Some (map (fun t => hat_nd hat_scalar t x) (grid_hats stripes))).
Proof. exact design_nonuniform_rows. Qed.
Theorem C20_design_matrix_blockwise : forall lv st d1 d2,
  design_uniform lv (d1 ++ d2) = design_uniform lv d1 ++ design_uniform lv d2 /\
  design_nonuniform st (d1 ++ d2) = design_nonuniform st d1 ++ design_nonuniform st d2.
Proof. intros. split; [apply design_uniform_blocks | apply design_nonuniform_blocks]. Qed.
Print Assumptions C20_design_matrix_holds_basis_values.
Print Assumptions C20_design_matrix_dimension_wise_holds_basis_values.
Print Assumptions C20_design_matrix_blockwise.

(* ---- non-vacuity of the new statements *)
Example C20_nonvacuous_minimiser :
  let A := [[qq 1 1; qq 0 1]; [qq 0 1; qq 1 1]; [qq 1 2; qq 1 2]] in
  let y := [qq 1 1; qq 2 1; qq 0 1] in
  let alpha := [qq 8 21; qq 20 21] in
  wf_matrix 2 A /\ A <> [] /\ length y = length A /\
  matvec (left_matrix A (qq 1 4) false []) alpha = right_vector A y /\
  J A y (qq 1 4) (identity 2) alpha = qq 19 21 /\
  J A y (qq 1 4) (identity 2) [qq 1 2; qq 1 1] = qq 11 12.
Proof.
  cbv zeta. split; [repeat constructor | split; [discriminate | split; [reflexivity | split; [| split]]]].
  - apply forallb2_Qc_eqb_eq. vm_compute. reflexivity.
  - apply Qc_is_canon. vm_compute. reflexivity.
  - apply Qc_is_canon. vm_compute. reflexivity.
Qed.

Example C20_nonvacuous_uniform_gram :
  C_val false [1; 2]%Z [1; 1]%Z [1; 1]%Z = qq 10 3 /\
  C_val_dw_spec (uhats [1; 2]%Z [1; 1]%Z) (uhats [1; 2]%Z [1; 1]%Z) = qq 10 3 /\
  (C_val false [2; 1; 2]%Z [1; 1; 1]%Z [2; 1; 2]%Z
   = C_val_dw_spec (uhats [2; 1; 2]%Z [1; 1; 1]%Z) (uhats [2; 1; 2]%Z [2; 1; 2]%Z)) /\
  C_val false [2; 1; 2]%Z [1; 1; 1]%Z [2; 1; 2]%Z <> 0.
Proof.
  split; [|split; [|split]].
  - apply Qc_is_canon; vm_compute; reflexivity.
  - apply Qc_is_canon; vm_compute; reflexivity.
  - apply Qc_is_canon; vm_compute; reflexivity.
  - intro E. apply Qc_eq_Qeq in E. vm_compute in E. discriminate.
Qed.

Example C20_nonvacuous_design :
  let data := [[qq 1 2; qq 1 4]; [qq 1 4; qq 3 8]; [qq 0 1; qq 1 1]] in
  nth_error data 1 = Some [qq 1 4; qq 3 8] /\
  map (fun iv => hat_nd hat_scalar (uhats [1; 2]%Z iv) [qq 1 4; qq 3 8]) (index_list [1; 2]%Z) = [qq 1 4; qq 1 4; qq 0 1].
Proof. cbv zeta. split; [reflexivity | apply forallb2_Qc_eqb_eq; vm_compute; reflexivity]. Qed.

(* ---- "the smoothing matrix is positive semi-definite" for d >= 2: verified checker (exact symmetric elimination), evaluated
   through the entry point on the specification matrix of the model and on the implementation's matrix of every explored case.
   Accepted matrices are positive semi-definite; with an accepted smoothing matrix the minimiser theorem is unconditional. *)
Theorem C20_psd_check_sound : forall G, psd_check G = true -> forall v, length v = length G -> 0 <= quad G v.
Proof. exact psd_check_sound. Qed.
Theorem C20_smooth_normal_equations_minimise_checked : forall (T : Type) (e : T -> T -> Qc) pts A y lam alpha beta,
  let n := length pts in let C := sym_matrix e 0 pts in
  psd_check C = true ->
  wf_matrix n A -> A <> [] -> length y = length A -> length alpha = n -> length beta = n -> 0 <= lam ->
  matvec (left_matrix A lam true C) alpha = right_vector A y ->
  J A y lam C alpha <= J A y lam C beta.
Proof.
  intros T e pts A y lam alpha beta n C Hc Hwf Hne Hy Ha Hb Hlam NE.
  apply (smooth_normal_equations_minimise e pts A y lam alpha beta); try assumption.
  pose proof (psd_check_psd C Hc) as P. unfold C in P at 1. rewrite sym_matrix_length in P. exact P.
Qed.
Print Assumptions C20_psd_check_sound.
Print Assumptions C20_smooth_normal_equations_minimise_checked.

Example C20_nonvacuous_psd_check :
  psd_check (C_matrix_uniform false [2; 2]%Z) = true /\
  psd_check (C_matrix_dw_spec [[qq 0 1; qq 1 4; qq 1 2; qq 1 1]; [qq 0 1; qq 1 2; qq 3 4; qq 1 1]]) = true /\
  length (C_matrix_uniform false [2; 2]%Z) = 9%nat /\
  psd_check [[qq 1 1; qq 2 1]; [qq 2 1; qq 1 1]] = false /\
  psd_check [[qq 1 1; qq 2 1]; [qq 0 1; qq 1 1]] = false /\
  psd_check [[qq 0 1; qq 0 1]; [qq 0 1; qq 1 1]] = true.
Proof. repeat split; vm_compute; reflexivity. Qed.

(* duplicated sample with opposite targets: A^T y = 0 although y <> 0; rounding noise of size 1e-15 in the surplus is rejected
   by the purely relative scale and accepted by the cancellation-aware one; a surplus of size 1e-3 is rejected by both *)
Example C20_nonvacuous_residual_floor :
  let A := [[qq 1 2]; [qq 1 2]] in let y := [qq 1 1; qq (-1) 1] in
  let L := left_matrix A 0 false [] in let r := right_vector A y in
  let noise := [Q2Qc (1 # 1000000000000000)] in
  residual_floor A y = qq 1 2 /\
  residual_ok L r noise (qq 1 100000000) = false /\
  residual_ok_floor L r noise (qq 1 100000000) (residual_floor A y) = true /\
  residual_ok_floor L r [qq 1 1000] (qq 1 100000000) (residual_floor A y) = false.
Proof. cbv zeta. split; [apply Qc_is_canon; vm_compute; reflexivity | repeat split; vm_compute; reflexivity]. Qed.

(* ======================================================================================================================
   Positive semi-definiteness in EVERY dimension (proofs: Proofs/RegressKron.v on top of Proofs/KronSOS.v / StripeSOS.v,
   weighted sum-of-squares representations and their tensor products; contributed by the C16 builder).  With it the
   minimiser theorem for the smoothing matrix is unconditional in every dimension. *)
From SG Require Import Proofs.DECacheP Proofs.RegressKron.

Theorem C20_C_positive_semidefinite_nd : forall stripes, Forall good_stripe stripes ->
  psd (length (grid_hats stripes)) (C_matrix_dw_spec stripes).
Proof. exact C_matrix_dw_spec_psd. Qed.
Theorem C20_C_uniform_positive_semidefinite_nd : forall lv, Forall (fun l => (1 <= l)%Z) lv ->
  psd (length (index_list lv)) (C_matrix_uniform false lv).
Proof. exact C_matrix_uniform_psd. Qed.
Print Assumptions C20_C_positive_semidefinite_nd.
Print Assumptions C20_C_uniform_positive_semidefinite_nd.

(* the surpluses of a component grid that satisfy the model's normal equations with the gradient Gram matrix minimise the
   regularised least-squares functional: uniform grids (build_C_matrix as repaired) and dimension-wise grids, any dimension *)
Theorem C20_smooth_normal_equations_minimise_uniform : forall lv A y lam alpha beta,
  Forall (fun l => (1 <= l)%Z) lv ->
  let n := length (index_list lv) in let C := C_matrix_uniform false lv in
  wf_matrix n A -> A <> [] -> length y = length A -> length alpha = n -> length beta = n -> 0 <= lam ->
  matvec (left_matrix A lam true C) alpha = right_vector A y ->
  J A y lam C alpha <= J A y lam C beta.
Proof.
  intros lv A y lam alpha beta Hl n C Hwf Hne Hy Ha Hb Hlam NE.
  apply (smooth_normal_equations_minimise (C_val false lv) (index_list lv) A y lam alpha beta); try assumption.
  exact (C_matrix_uniform_psd lv Hl).
Qed.
Theorem C20_smooth_normal_equations_minimise_dimension_wise : forall stripes A y lam alpha beta,
  Forall good_stripe stripes ->
  let n := length (grid_hats stripes) in let C := C_matrix_dw_spec stripes in
  wf_matrix n A -> A <> [] -> length y = length A -> length alpha = n -> length beta = n -> 0 <= lam ->
  matvec (left_matrix A lam true C) alpha = right_vector A y ->
  J A y lam C alpha <= J A y lam C beta.
Proof.
  intros stripes A y lam alpha beta Hs n C Hwf Hne Hy Ha Hb Hlam NE.
  apply (smooth_normal_equations_minimise C_val_dw_spec (grid_hats stripes) A y lam alpha beta); try assumption.
  exact (C_matrix_dw_spec_psd stripes Hs).
Qed.
Print Assumptions C20_smooth_normal_equations_minimise_uniform.
Print Assumptions C20_smooth_normal_equations_minimise_dimension_wise.

Example C20_nonvacuous_psd_nd :
  let st := [[qq 0 1; qq 1 4; qq 1 2; qq 1 1]; [qq 0 1; qq 1 2; qq 3 4; qq 1 1]] in
  Forall good_stripe st /\ length (grid_hats st) = 4%nat /\ Forall (fun l => (1 <= l)%Z) [2; 1; 2]%Z /\
  length (index_list [2; 1; 2]%Z) = 9%nat.
Proof.
  cbv zeta. split; [|split; [reflexivity | split; [repeat constructor; lia | reflexivity]]].
  repeat constructor; try (unfold Qclt; vm_compute; reflexivity); try (apply Qc_is_canon; reflexivity).
Qed.

(* ======================================================================================================================
   Phase 3.  (1) is C20_smooth_normal_equations_minimise_uniform / _dimension_wise above (unconditional in every dimension).
   (2) The converse and uniqueness (Proofs/RegressConverse.v): every minimiser of J satisfies the normal equations of the
   model - M symmetric, NO definiteness and NO sign condition on lambda needed; for positive definite systems the minimiser and
   the solution of the normal equations are unique (instance: identity regularisation with lambda > 0, any design matrix). *)
From SG Require Import Proofs.RegressConverse.

Theorem C20_minimiser_satisfies_normal_equations : forall n A y lam M alpha,
  wf_matrix n A -> A <> [] -> length y = length A -> wf_matrix n M -> length M = n -> length alpha = n ->
  bilinear_symmetric n M ->
  (forall beta, length beta = n -> J A y lam M alpha <= J A y lam M beta) ->
  matvec (left_matrix_gen A lam M) alpha = right_vector A y.
Proof. exact minimiser_satisfies_normal_equations. Qed.
(* together with C20_normal_equations_minimise: for symmetric positive semi-definite M and lambda >= 0,
   alpha minimises J  <->  alpha solves the normal equations *)
Theorem C20_minimiser_iff_normal_equations : forall n A y lam M alpha,
  wf_matrix n A -> A <> [] -> length y = length A -> wf_matrix n M -> length M = n -> length alpha = n ->
  bilinear_symmetric n M -> psd n M -> 0 <= lam ->
  ((forall beta, length beta = n -> J A y lam M alpha <= J A y lam M beta)
   <-> matvec (left_matrix_gen A lam M) alpha = right_vector A y).
Proof.
  intros n A y lam M alpha Hwf Hne Hy HM HlM Ha Hsym Hpsd Hlam. split.
  - intro Hmin. apply (minimiser_satisfies_normal_equations n A y lam M alpha); assumption.
  - intros NE beta Hb. apply (normal_equations_minimise n A y lam M alpha beta); assumption.
Qed.
Theorem C20_minimiser_unique : forall n A y lam M alpha beta,
  wf_matrix n A -> A <> [] -> length y = length A -> wf_matrix n M -> length M = n -> length alpha = n -> length beta = n ->
  bilinear_symmetric n M -> system_pd n A lam M ->
  matvec (left_matrix_gen A lam M) alpha = right_vector A y ->
  J A y lam M beta <= J A y lam M alpha -> beta = alpha.
Proof. exact minimiser_unique. Qed.
Theorem C20_normal_equations_unique : forall n A y lam M alpha beta,
  wf_matrix n A -> A <> [] -> length y = length A -> wf_matrix n M -> length M = n -> length alpha = n -> length beta = n ->
  bilinear_symmetric n M -> system_pd n A lam M ->
  matvec (left_matrix_gen A lam M) alpha = right_vector A y ->
  matvec (left_matrix_gen A lam M) beta = right_vector A y -> beta = alpha.
Proof. exact normal_equations_unique. Qed.
Theorem C20_ridge_minimiser_unique : forall n A y lam C alpha beta,
  wf_matrix n A -> A <> [] -> length y = length A -> length alpha = n -> length beta = n -> 0 < lam ->
  matvec (left_matrix A lam false C) alpha = right_vector A y ->
  J A y lam (identity n) beta <= J A y lam (identity n) alpha -> beta = alpha.
Proof. exact ridge_minimiser_unique. Qed.
Print Assumptions C20_minimiser_satisfies_normal_equations.
Print Assumptions C20_minimiser_iff_normal_equations.
Print Assumptions C20_minimiser_unique.
Print Assumptions C20_normal_equations_unique.
Print Assumptions C20_ridge_minimiser_unique.

(* non-vacuity: the system of C20_nonvacuous_minimiser is positive definite (ridge, lambda = 1/4) and its solution is the
   only vector with J <= 19/21; a vector that violates the normal equations is not a minimiser (J is larger) *)
Example C20_nonvacuous_converse :
  let A := [[qq 1 1; qq 0 1]; [qq 0 1; qq 1 1]; [qq 1 2; qq 1 2]] in
  let y := [qq 1 1; qq 2 1; qq 0 1] in
  system_pd 2 A (qq 1 4) (identity 2) /\
  matvec (left_matrix_gen A (qq 1 4) (identity 2)) [qq 1 2; qq 1 1] <> right_vector A y /\
  J A y (qq 1 4) (identity 2) [qq 8 21; qq 20 21] < J A y (qq 1 4) (identity 2) [qq 1 2; qq 1 1].
Proof.
  cbv zeta. split; [apply ridge_system_pd; unfold Qclt; vm_compute; reflexivity | split].
  - intro E. apply (f_equal (fun v => Qc_eqb (hd 0 v) (qq 1 3))) in E. vm_compute in E. discriminate.
  - unfold Qclt. vm_compute. reflexivity.
Qed.

(* (3) Opticom (Proofs/RegressOpticom.v, model in Model/Regress.v: opticom_finish, mse, error_per_grid_raw, predict_uniform /
   predict_nonuniform, opticom3, opticom2_matrix / opticom2_certified; entry points 8 and 9 with correspondence on every run).
   All six variants end with opticom_finish (code after fix commit 3b1bdbd): the returned coefficients are the normalised raw
   coefficients whenever the raw sum is non-zero and finite, else the combination coefficients are kept; in both cases they sum
   to one, because the combination coefficients of every reachable scheme do (C01_total_one). *)
From SG Require Import Model.CombiScheme Proofs.SchemeInv Proofs.RegressOpticom.

Theorem C20_opticom_finish_normalises : forall cs coefs, sumQ cs <> 0 ->
  opticom_finish (Some cs) coefs = normalise_coefficients cs /\ sumQ (opticom_finish (Some cs) coefs) = 1.
Proof. exact opticom_finish_normalises. Qed.
Theorem C20_opticom_finish_keeps : forall raw coefs,
  (raw = None \/ exists cs, raw = Some cs /\ sumQ cs = 0) -> opticom_finish raw coefs = coefs.
Proof. exact opticom_finish_keeps. Qed.
Theorem C20_opticom_coefficients_sum_to_one : forall raw coefs, sumQ coefs = 1 -> sumQ (opticom_finish raw coefs) = 1.
Proof. exact opticom_finish_sum_one. Qed.
Theorem C20_opticom_after_combination_scheme_sums_to_one : forall s raw, Inv s ->
  sumQ (opticom_finish raw (map (fun kc => qc_of_Z (snd kc)) (combi_scheme_adaptive s))) = 1.
Proof. exact opticom_after_combination_scheme_sums_to_one. Qed.
(* option 3 (error per grid), modelled completely *)
Theorem C20_opticom3_sum_one : forall preds coefs vy, sumQ coefs = 1 -> sumQ (opticom3 preds coefs vy) = 1.
Proof. exact opticom3_sum_one. Qed.
Theorem C20_opticom3_regular : forall preds coefs vy,
  existsb (fun e => Qc_eqb e 0) (map (mse vy) preds) = false ->
  sumQ (map2 (fun c e => c / e) coefs (map (mse vy) preds)) <> 0 ->
  opticom3 preds coefs vy = normalise_coefficients (map2 (fun c e => c / e) coefs (map (mse vy) preds)).
Proof. exact opticom3_regular. Qed.
Theorem C20_opticom3_degenerate : forall preds coefs vy p, vy <> [] -> In p preds -> p = vy -> opticom3 preds coefs vy = coefs.
Proof. exact opticom3_degenerate. Qed.
Theorem C20_validation_error_zero_iff_exact_fit : forall y p, y <> [] -> length p = length y -> (mse y p = 0 <-> p = y).
Proof. exact mse_zero_iff. Qed.
(* option 2 (least squares over the validation points): an exact solution of its normal equations minimises the validation error *)
Theorem C20_opticom2_exact_minimiser : forall n preds vy raw beta,
  let Mx := opticom2_matrix preds in
  wf_matrix n Mx -> Mx <> [] -> length vy = length Mx -> length raw = n -> length beta = n ->
  matvec (left_matrix Mx 0 false []) raw = right_vector Mx vy ->
  sqnorm (vsub (matvec Mx raw) vy) <= sqnorm (vsub (matvec Mx beta) vy).
Proof. exact opticom2_exact_minimiser. Qed.
Print Assumptions C20_opticom_finish_normalises.
Print Assumptions C20_opticom_finish_keeps.
Print Assumptions C20_opticom_coefficients_sum_to_one.
Print Assumptions C20_opticom_after_combination_scheme_sums_to_one.
Print Assumptions C20_opticom3_sum_one.
Print Assumptions C20_opticom3_regular.
Print Assumptions C20_opticom3_degenerate.
Print Assumptions C20_validation_error_zero_iff_exact_fit.
Print Assumptions C20_opticom2_exact_minimiser.

(* non-vacuity: two component grids (levels 1 and 2 in one dimension) with combination coefficients 2 and -1; regular case,
   degenerate case (the second grid reproduces the validation targets), zero raw sum, not finite *)
Example C20_nonvacuous_opticom :
  let vd := [[qq 1 4]; [qq 1 2]; [qq 3 4]] in
  let p1 := predict_uniform [1%Z] [qq 1 1] vd in
  let p2 := predict_uniform [2%Z] [qq 1 1; qq 2 1; qq 1 1] vd in
  p1 = [qq 1 2; qq 1 1; qq 1 2] /\ p2 = [qq 1 1; qq 2 1; qq 1 1] /\
  mse [qq 1 1; qq 1 1; qq 1 1] p1 = qq 1 6 /\ mse [qq 1 1; qq 1 1; qq 1 1] p2 = qq 1 3 /\
  opticom3 [p1; p2] [qq 2 1; qq (-1) 1] [qq 1 1; qq 1 1; qq 1 1] = [qq 4 3; qq (-1) 3] /\
  opticom3 [p1; p2] [qq 2 1; qq (-1) 1] [qq 1 1; qq 2 1; qq 1 1] = [qq 2 1; qq (-1) 1] /\
  opticom_finish (Some [qq 1 1; qq (-1) 1]) [qq 2 1; qq (-1) 1] = [qq 2 1; qq (-1) 1] /\
  opticom_finish None [qq 2 1; qq (-1) 1] = [qq 2 1; qq (-1) 1].
Proof.
  cbv zeta. repeat split; try (apply forallb2_Qc_eqb_eq; vm_compute; reflexivity); try (apply Qc_is_canon; vm_compute; reflexivity).
Qed.

(* ======================================================================================================================
   Phase 4 (1): the gradient Gram matrix of the hat basis without boundary points is positive DEFINITE in every dimension
   (Proofs/RegressPD.v: 1D stiffness form = sum of squared differences incl. the boundary cells; d dimensions through the
   sum-of-squares representation of Proofs/RegressKron.v / KronSOS.v).  Hence with regularization_matrix = 'C' and lambda > 0
   the regularised least-squares problem has EXACTLY ONE minimiser, for every design matrix. *)
From SG Require Import Proofs.RegressPD.

Theorem C20_stiffness_1d_positive_definite : forall xs v,
  strictly_inc xs -> length v = length (windows xs) -> Exists (fun x => x <> 0) v ->
  0 < quad (sym_matrix grad1_spec 0 (windows xs)) v.
Proof. exact grad_1d_positive_definite. Qed.
Theorem C20_C_positive_definite_nd : forall stripes, stripes <> [] -> Forall good_stripe stripes ->
  pdef (length (grid_hats stripes)) (C_matrix_dw_spec stripes).
Proof. exact C_matrix_dw_spec_pd. Qed.
Theorem C20_C_uniform_positive_definite_nd : forall lv, lv <> [] -> Forall (fun l => (1 <= l)%Z) lv ->
  pdef (length (index_list lv)) (C_matrix_uniform false lv).
Proof. exact C_matrix_uniform_pd. Qed.
Theorem C20_smooth_minimiser_unique_uniform : forall lv A y lam alpha beta,
  lv <> [] -> Forall (fun l => (1 <= l)%Z) lv ->
  let n := length (index_list lv) in let C := C_matrix_uniform false lv in
  wf_matrix n A -> A <> [] -> length y = length A -> length alpha = n -> length beta = n -> 0 < lam ->
  matvec (left_matrix A lam true C) alpha = right_vector A y ->
  J A y lam C beta <= J A y lam C alpha -> beta = alpha.
Proof. exact smooth_minimiser_unique_uniform. Qed.
Theorem C20_smooth_minimiser_unique_dimension_wise : forall stripes A y lam alpha beta,
  stripes <> [] -> Forall good_stripe stripes ->
  let n := length (grid_hats stripes) in let C := C_matrix_dw_spec stripes in
  wf_matrix n A -> A <> [] -> length y = length A -> length alpha = n -> length beta = n -> 0 < lam ->
  matvec (left_matrix A lam true C) alpha = right_vector A y ->
  J A y lam C beta <= J A y lam C alpha -> beta = alpha.
Proof. exact smooth_minimiser_unique_dimension_wise. Qed.
Print Assumptions C20_stiffness_1d_positive_definite.
Print Assumptions C20_C_positive_definite_nd.
Print Assumptions C20_C_uniform_positive_definite_nd.
Print Assumptions C20_smooth_minimiser_unique_uniform.
Print Assumptions C20_smooth_minimiser_unique_dimension_wise.

Example C20_nonvacuous_pd :
  [2; 1; 2]%Z <> [] /\ Forall (fun l => (1 <= l)%Z) [2; 1; 2]%Z /\
  0 < quad (C_matrix_uniform false [1; 2]%Z) [qq 1 1; qq (-2) 1; qq 1 1] /\
  quad (C_matrix_uniform false [1; 2]%Z) [qq 1 1; qq (-2) 1; qq 1 1] = qq 88 3.
Proof.
  split; [discriminate | split; [repeat constructor; lia | split]].
  - unfold Qclt. vm_compute. reflexivity.
  - apply Qc_is_canon. vm_compute. reflexivity.
Qed.

(* Phase 4 (2): Opticom option 1 (Garcke), standard combination technique: the assembly of the system is modelled exactly
   (Model/Regress.v: garcke_matrix / garcke_vector / garcke_reg / garcke_entry AS CODED - sum_C_matrix_with_alphas indexes the
   interpolated values with the one-dimensional point indices and uses levelvec[k] in all mass factors; entry point 10 compares
   the matrix and vector of build_matrix_opticom with the model on every run).  The coefficients are lstsq(matrix, vector)
   (certified by opticom1_certified on the normal equations of that least-squares problem) followed by opticom_finish. *)
Theorem C20_garcke_matrix_symmetric : forall grids vdata lam, symmetricM (length grids) (garcke_matrix grids vdata lam).
Proof. exact garcke_matrix_symmetric. Qed.
Theorem C20_opticom1_certified_sound : forall M raw tol, opticom1_certified M raw tol = true ->
  let v := garcke_vector M in
  Forall2 (fun row ri => Qc_abs (dotQ row raw - ri)
                         <= tol * Qc_max (residual_scale (left_matrix M 0 false []) (right_vector M v) raw) (residual_floor M v))
          (left_matrix M 0 false []) (right_vector M v).
Proof. exact opticom1_certified_sound. Qed.
Theorem C20_opticom1_exact_minimiser : forall n M raw beta,
  let v := garcke_vector M in
  wf_matrix n M -> M <> [] -> length v = length M -> length raw = n -> length beta = n ->
  matvec (left_matrix M 0 false []) raw = right_vector M v ->
  sqnorm (vsub (matvec M raw) v) <= sqnorm (vsub (matvec M beta) v).
Proof. exact opticom1_exact_minimiser. Qed.
(* and the coefficients written back sum to one for every raw result: C20_opticom_coefficients_sum_to_one /
   C20_opticom_after_combination_scheme_sums_to_one above apply to option 1 unchanged *)
Print Assumptions C20_garcke_matrix_symmetric.
Print Assumptions C20_opticom1_certified_sound.
Print Assumptions C20_opticom1_exact_minimiser.

(* non-vacuity: one dimension, the two grids of levels 1 and 2, three validation points, lambda_opticom = 1/8 *)
Example C20_nonvacuous_garcke :
  let grids := [([1%Z], [qq 1 1]); ([2%Z], [qq 1 1; qq 2 1; qq 1 1])] in
  let M := garcke_matrix grids [[qq 1 4]; [qq 1 2]; [qq 3 4]] (qq 1 8) in
  length M = 2%nat /\ garcke_vector M = [nth 0 (nth 0 M []) 0; nth 1 (nth 1 M []) 0] /\
  nth 1 (nth 0 M []) 0 = nth 0 (nth 1 M []) 0 /\ nth 0 (nth 0 M []) 0 <> 0 /\
  garcke_reg [1%Z] [2%Z] [qq 1 1] [qq 1 1; qq 2 1; qq 1 1] <> 0.
Proof.
  cbv zeta. split; [reflexivity | split; [reflexivity | split; [apply Qc_is_canon; vm_compute; reflexivity | split]]];
    intro E; apply Qc_eq_Qeq in E; vm_compute in E; discriminate.
Qed.
