(* C20 — Regression solves the regularised least-squares problem on every component grid.
   Property theorems only + non-vacuity examples.  Model: Model/Regress.v (on top of Model/Gram.v). *)
From Coq Require Import ZArith List QArith Qcanon Bool Lia.
From SG Require Import Base.QcUtil Base.PolyInt Model.Gram Model.Regress
  Proofs.GramHat Proofs.GramEntries Proofs.GramPD Proofs.GramNorm Proofs.RegressP.
Import ListNotations.
Open Scope Qc_scope.

(* ---- "the smoothing matrix equals the Gram matrix of the basis gradients": FALSE for the code as written.
   Full statement (refuted):  forall lv iv jv, C_val true lv iv jv = C_val false lv iv jv   (uniform grids)
                              forall ti tj,    C_val_dw_coded ti tj = C_val_dw_spec ti tj   (dimension-wise grids) *)
Theorem C20_C_matrix_refuted : exists lv iv jv, C_val true lv iv jv <> C_val false lv iv jv.
Proof. exact C_matrix_refuted. Qed.
Theorem C20_C_matrix_dimension_wise_refuted : exists ti tj, C_val_dw_coded ti tj <> C_val_dw_spec ti tj.
Proof. exact C_matrix_dw_refuted. Qed.
Print Assumptions C20_C_matrix_refuted.
Print Assumptions C20_C_matrix_dimension_wise_refuted.

(* what does hold: on isotropic level vectors the coded matrix is the specification matrix *)
Theorem C20_C_coded_correct_if_isotropic_partial : forall l lv iv jv,
  Forall (eq l) lv -> C_val true lv iv jv = C_val false lv iv jv.
Proof. exact C_coded_correct_if_isotropic. Qed.
Print Assumptions C20_C_coded_correct_if_isotropic_partial.

(* the specification entries are the formal integrals of the products of the hat derivatives:
   same node 1/h_left + 1/h_right, neighbours -1/h ; the coded uniform factors 2^(l+1), -2^l are these values *)
Theorem C20_C_entry_is_gradient_gram : forall t, proper t ->
  pderiv (hat_left_poly t) = hat_left_slope t /\ pderiv (hat_right_poly t) = hat_right_slope t /\
  grad1_spec t t = pintegral (pmul (hat_left_slope t) (hat_left_slope t)) (h_lo t) (h_p t)
                 + pintegral (pmul (hat_right_slope t) (hat_right_slope t)) (h_p t) (h_hi t).
Proof.
  intros t H. destruct (slope_is_derivative t) as [A B]. split; [exact A | split; [exact B | exact (grad_same_is_integral t H)]].
Qed.
Theorem C20_C_entry_is_gradient_gram_neighbours : forall ti tj,
  h_p ti < h_p tj -> h_hi ti = h_p tj -> h_lo tj = h_p ti ->
  grad1_spec ti tj = pintegral (pmul (hat_right_slope ti) (hat_left_slope tj)) (h_p ti) (h_p tj).
Proof. exact grad_adjacent_is_integral. Qed.
Theorem C20_gradient_factors_uniform : forall l i, (0 <= l)%Z ->
  grad_term l i i = Some (grad1_spec (uniform_dom l i) (uniform_dom l i)) /\
  grad_term l i (i + 1) = Some (grad1_spec (uniform_dom l i) (uniform_dom l (i + 1))).
Proof. exact grad_term_uniform. Qed.
Print Assumptions C20_C_entry_is_gradient_gram.
Print Assumptions C20_C_entry_is_gradient_gram_neighbours.
Print Assumptions C20_gradient_factors_uniform.

(* ---- symmetry *)
Theorem C20_C_symmetric : forall coded lv iv jv stripes,
  C_val coded lv iv jv = C_val coded lv jv iv /\
  symmetricM (length (index_list lv)) (C_matrix_uniform coded lv) /\
  symmetricM (length (grid_hats stripes)) (C_matrix_dw_spec stripes).
Proof.
  intros. split; [exact (C_symmetric coded lv iv jv) | split; [exact (C_matrix_symmetric coded lv) | exact (proj1 (C_matrix_dw_symmetric stripes))]].
Qed.
Print Assumptions C20_C_symmetric.

(* ---- positive semi-definite: one dimension, EVERY strictly increasing stripe of the unit interval
   (x^T C x = sum over the cells (x_{k+1} - x_k)^2 / h_k).  d >= 2: tested per case (exact LDL^T), not proved. *)
Theorem C20_C_quadratic_form_is_cell_sum : forall xs, strictly_inc xs -> forall v, length v = length (windows xs) ->
  quad (sym_matrix C_val_dw_spec 0 (pts1 xs)) v = gradform xs (0 :: v ++ [0]).
Proof. exact grad_quad_is_cell_sum. Qed.
Theorem C20_C_positive_semidefinite_1d : forall xs v,
  strictly_inc xs -> hd 0 xs = 0 -> last xs 0 = 1 -> length v = length (windows xs) ->
  0 <= quad (C_matrix_dw_spec [xs]) v.
Proof. exact C_positive_semidefinite_1d. Qed.
Print Assumptions C20_C_positive_semidefinite_1d.

(* ---- Opticom: every variant ends with coefs / sum(coefs) *)
Theorem C20_normalised_coefficients_sum_to_one : forall cs, sumQ cs <> 0 -> sumQ (normalise_coefficients cs) = 1.
Proof. exact normalised_coefficients_sum_to_one. Qed.
Print Assumptions C20_normalised_coefficients_sum_to_one.

(* ---- verified checker for the least-squares solves: accepted surpluses satisfy the system up to the stated bound *)
Theorem C20_residual_ok_sound : forall L r alpha tol, residual_ok L r alpha tol = true ->
  Forall2 (fun row ri => Qc_abs (dotQ row alpha - ri) <= tol * residual_scale L r alpha) L r.
Proof. exact residual_ok_sound. Qed.
Print Assumptions C20_residual_ok_sound.

(* ---- non-vacuity *)
Example C20_nonvacuous_values :
  C_val true [1; 2]%Z [1; 1]%Z [1; 1]%Z = qq 8 3 /\ C_val false [1; 2]%Z [1; 1]%Z [1; 1]%Z = qq 10 3 /\
  C_val true [2; 2]%Z [1; 1]%Z [1; 2]%Z = C_val false [2; 2]%Z [1; 1]%Z [1; 2]%Z.
Proof. repeat split; apply Qc_is_canon; vm_compute; reflexivity. Qed.

Example C20_nonvacuous_psd :
  let xs := [qq 0 1; qq 1 4; qq 1 2; qq 5 8; qq 1 1] in
  strictly_inc xs /\ hd 0 xs = 0 /\ last xs 0 = 1 /\
  quad (C_matrix_dw_spec [xs]) [qq 1 1; qq (-2) 1; qq 1 1] = qq 344 3 /\
  quad (C_matrix_dw_spec [xs]) [qq 1 1; qq 1 1; qq 1 1] = qq 20 3.
Proof.
  cbv zeta. split; [|split; [|split; [|split]]].
  - cbn. repeat split; unfold Qclt; vm_compute; reflexivity.
  - apply Qc_is_canon; reflexivity.
  - apply Qc_is_canon; reflexivity.
  - apply Qc_is_canon. vm_compute. reflexivity.
  - apply Qc_is_canon. vm_compute. reflexivity.
Qed.

Example C20_nonvacuous_normalise :
  nth 0 (normalise_coefficients [qq 3 1; qq (-1) 1; qq 1 2]) 0 = qq 6 5 /\
  sumQ (normalise_coefficients [qq 3 1; qq (-1) 1; qq 1 2]) = 1 /\
  residual_ok [[qq 2 1; qq 1 1]; [qq 1 1; qq 3 1]] [qq 3 1; qq 4 1] [qq 1 1; qq 1 1] (qq 1 100) = true.
Proof. split; [|split]; [apply Qc_is_canon; vm_compute; reflexivity | apply Qc_is_canon; vm_compute; reflexivity | vm_compute; reflexivity]. Qed.
