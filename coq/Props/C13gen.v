(* C13 for the SOURCE-DERIVED driver.  Gen/DriverGen.v is written by harness/translate/py2gallina_machine.py from
   SpatiallyAdaptivBase.continue_adaptive_refinement / performSpatiallyAdaptiv (sparseSpACE/spatiallyAdaptiveBase.py) at every
   ./setup.sh C13 and ./check C13; the abstract methods of the class (evaluate_operation, initialize_grid, refine,
   get_total_num_points, evaluate_final_combi, check_combi_scheme, init_adaptive_combi, operation.get_result, ...) are PARAMETERS
   of the generated functions.  The theorems say that the generated loop IS the hand-written driver loop of Model/Driver.v
   (run_rec over an abstract refinement state, limits by resolve), so the C13 stop-index theorems hold for the code as it is now.
   Statements only (proofs: Proofs/GenDriverEq.v).  Context of all statements: the oracles the loop uses do not raise and
   get_total_num_points is a query; configuration inside the model: single_step = False, evaluation_points = None,
   do_plot = False, solutions_storage = None, max_time = None (entering one of those branches makes the generated function
   return None: nothing is claimed about them). *)
From Coq Require Import ZArith List Bool QArith Qcanon.
From SG Require Import Base.QcUtil Base.PyLib Base.PyNum Base.PyMachine Model.Driver Gen.DriverGen Proofs.GenDriverEq.
Import ListNotations.
Open Scope Z_scope.

Section C13gen.
  Variable St : Type.
  Variables T_result T_dict T_points T_ErrorCalculator T_reference T_operation T_RefinementContainer T_grid : Type.
  Variable g_operation : St -> option T_operation.
  Variable g_refinement : St -> T_RefinementContainer.
  Variable g_scheme : St -> list T_grid.
  Variable g_lmax : St -> list Z.
  Variable g_refinement_evaluationstotal : St -> Z.
  Variable m_evaluate_operation : St -> option ((Qc * Qc) * St).
  Variable m_initialize_grid : St -> option (unit * St).
  Variable m_refine : St -> option (unit * St).
  Variable m_get_total_num_points : St -> bool -> bool -> option (Z * St).
  Variable m_evaluate_final_combi : St -> option ((T_result * Z) * St).
  Variable m_check_combi_scheme : St -> option (unit * St).
  Variable m_init_adaptive_combi : St -> Z -> Z -> option T_RefinementContainer -> Qc -> option (unit * St).
  Variable m_operation_get_result : St -> option (T_result * St).
  Variable m_operation_get_reference_solution : St -> option (T_reference * St).
  (* the oracles as total functions; get_total_num_points(doNaive=False, distinct_function_evals=True) is a query *)
  Variable f_eval : St -> (Qc * Qc) * St.
  Variable f_init : St -> St.
  Variable f_refine : St -> St.
  Variable cnt : St -> Z.
  Variable f_check : St -> St.
  Variable f_final : St -> (T_result * Z) * St.
  Variable f_result : St -> T_result * St.
  Variable f_ref : St -> T_reference * St.
  Variable f_initc : St -> Z -> Z -> option T_RefinementContainer -> Qc -> St.
  Hypothesis H_eval : forall s, m_evaluate_operation s = Some (f_eval s).
  Hypothesis H_init : forall s, m_initialize_grid s = Some (tt, f_init s).
  Hypothesis H_refine : forall s, m_refine s = Some (tt, f_refine s).
  Hypothesis H_cnt : forall s, m_get_total_num_points s false true = Some (cnt s, s).
  Hypothesis H_check : forall s, m_check_combi_scheme s = Some (tt, f_check s).
  Hypothesis H_final : forall s, m_evaluate_final_combi s = Some (f_final s).
  Hypothesis H_result : forall s, m_operation_get_result s = Some (f_result s).
  Hypothesis H_ref : forall s, m_operation_get_reference_solution s = Some (f_ref s).
  Hypothesis H_initc : forall s a b c t, m_init_adaptive_combi s a b c t = Some (tt, f_initc s a b c t).

  Notation Self := (Self_t St T_result T_dict T_points T_ErrorCalculator T_reference).
  Notation gen_continue := (SpatiallyAdaptivBase_continue_adaptive_refinement St T_result T_dict T_points T_ErrorCalculator
    T_reference T_RefinementContainer T_grid g_refinement g_scheme g_lmax g_refinement_evaluationstotal m_evaluate_operation
    m_initialize_grid m_refine m_get_total_num_points m_evaluate_final_combi m_check_combi_scheme m_operation_get_result).
  Notation gen_continue_kw := (SpatiallyAdaptivBase_continue_adaptive_refinement_kw St T_result T_dict T_points T_ErrorCalculator
    T_reference T_RefinementContainer T_grid g_refinement g_scheme g_lmax g_refinement_evaluationstotal m_evaluate_operation
    m_initialize_grid m_refine m_get_total_num_points m_evaluate_final_combi m_check_combi_scheme m_operation_get_result).
  Notation gen_perform := (SpatiallyAdaptivBase_performSpatiallyAdaptiv St T_result T_dict T_points T_ErrorCalculator
    T_reference T_operation T_RefinementContainer T_grid g_operation g_refinement g_scheme g_lmax g_refinement_evaluationstotal
    m_evaluate_operation m_initialize_grid m_refine m_get_total_num_points m_evaluate_final_combi m_check_combi_scheme
    m_init_adaptive_combi m_operation_get_result m_operation_get_reference_solution).
  (* the hand-written loop instantiated with this object: state = (abstract state, last observation) *)
  Notation X := (X St).
  Notation evaluate' := (evaluate' St f_eval f_init cnt).
  Notation refine' := (refine' St f_refine).
  Notation observe' := (observe' St).
  Notation with_d := (with_d St T_result T_dict T_points T_ErrorCalculator T_reference).
  Notation in_model := (in_model St T_result T_dict T_points T_ErrorCalculator T_reference).
  Notation tail := (tail St T_result T_dict T_points T_ErrorCalculator T_reference T_RefinementContainer T_grid g_refinement
    g_scheme g_lmax g_refinement_evaluationstotal f_check f_final f_result).
  Notation self_perform := (self_perform St T_result T_dict T_points T_ErrorCalculator T_reference).

  (* continue_adaptive_refinement(tol, max_time=None, max_evaluations, min_evaluations) with `fuel` loop iterations on the object
     whose abstract part is st and whose history arrays are those of d  =  the hand-written recording loop run_rec with the
     limits (tol, min_evaluations, max_evaluations), followed by the code after the loop (`tail`); no result iff the loop is
     still running after `fuel` iterations *)
  Theorem C13_gen_continue_is_model_loop : forall fuel (self : Self) st d tol max_ev min_ev o0, in_model self ->
    gen_continue fuel (with_d self st d) tol None max_ev min_ev =
      match run_rec X evaluate' refine' observe' (mkLimits tol min_ev max_ev) fuel (st, o0) d with
      | Some ((s', _), d') => tail self s' d'
      | None => None
      end.
  Proof.
    exact (gen_continue_is_run_rec St T_result T_dict T_points T_ErrorCalculator T_reference T_RefinementContainer T_grid
             g_refinement g_scheme g_lmax g_refinement_evaluationstotal m_evaluate_operation m_initialize_grid m_refine
             m_get_total_num_points m_evaluate_final_combi m_check_combi_scheme m_operation_get_result f_eval f_init f_refine cnt
             f_check f_final f_result H_eval H_init H_refine H_cnt H_check H_final H_result).
  Qed.

  (* hence: it stops exactly at the FIRST evaluation whose observation (error, points) satisfies the stopping rule of the
     arguments of THIS call, with one history entry per evaluation (drive on the trajectory of a never stopping run) *)
  Theorem C13_gen_stops_at_first_satisfying_index : forall fuel (self : Self) st d tol max_ev min_ev o0, in_model self ->
    gen_continue fuel (with_d self st d) tol None max_ev min_ev =
      match first_stop (mkLimits tol min_ev max_ev) (traj X evaluate' refine' observe' fuel (st, o0)) with
      | Some k => tail self (fst (state_at X evaluate' refine' k (st, o0)))
                    (fst (drive (mkLimits tol min_ev max_ev) (traj X evaluate' refine' observe' fuel (st, o0)) d))
      | None => None
      end.
  Proof.
    exact (gen_continue_stops_at_first_satisfying_index St T_result T_dict T_points T_ErrorCalculator T_reference
             T_RefinementContainer T_grid g_refinement g_scheme g_lmax g_refinement_evaluationstotal m_evaluate_operation
             m_initialize_grid m_refine m_get_total_num_points m_evaluate_final_combi m_check_combi_scheme m_operation_get_result
             f_eval f_init f_refine cnt f_check f_final f_result H_eval H_init H_refine H_cnt H_check H_final H_result).
  Qed.

  (* default arguments, resolved from the signature in the source (float defaults = the binary64 value the interpreter
     computes): omitted arguments give exactly the limits Driver.resolve_continue computes *)
  Theorem C13_gen_defaults_are_resolve_continue : forall fuel (self : Self) (a : call_args),
    gen_continue_kw fuel self (a_tol a) None (option_map Some (a_max a)) (a_min a) =
      let l := resolve_continue a in gen_continue fuel self (l_tol l) None (l_max l) (l_min l).
  Proof.
    exact (gen_continue_kw_is_resolve St T_result T_dict T_points T_ErrorCalculator T_reference T_RefinementContainer T_grid
             g_refinement g_scheme g_lmax g_refinement_evaluationstotal m_evaluate_operation m_initialize_grid m_refine
             m_get_total_num_points m_evaluate_final_combi m_check_combi_scheme m_operation_get_result).
  Qed.

  (* performSpatiallyAdaptiv = reference solution, init_adaptive_combi, then the same loop with EMPTY history arrays on an
     object whose loop-relevant attributes all come from the arguments of this call *)
  Theorem C13_gen_perform_is_model_loop : forall fuel (self : Self) lmin lmax eo tol rc rf ts re max_ev po min_ev op o0,
    g_operation (a_st _ _ _ _ _ _ self) = Some op ->
    gen_perform fuel self lmin lmax eo tol rc false rf ts re None max_ev po min_ev None None false =
      let '(rs, s1) := f_ref (a_st _ _ _ _ _ _ self) in
      match run_rec X evaluate' refine' observe' (mkLimits tol min_ev max_ev) fuel (f_initc s1 lmin lmax rc tol, o0) d_init with
      | Some ((s', _), d') => tail (self_perform self eo rf po ts re rs) s' d'
      | None => None
      end.
  Proof.
    exact (gen_perform_is_run_rec St T_result T_dict T_points T_ErrorCalculator T_reference T_operation T_RefinementContainer
             T_grid g_operation g_refinement g_scheme g_lmax g_refinement_evaluationstotal m_evaluate_operation m_initialize_grid
             m_refine m_get_total_num_points m_evaluate_final_combi m_check_combi_scheme m_init_adaptive_combi
             m_operation_get_result m_operation_get_reference_solution f_eval f_init f_refine cnt f_check f_final f_result H_eval
             H_init H_refine H_cnt H_check H_final H_result f_ref f_initc H_ref H_initc).
  Qed.

  (* histories of calls on ONE object: a sequence of continue_adaptive_refinement calls, each with ITS OWN limits and fuel, is
     run_legs of the hand-written model (abstract state and the three history arrays agree); test_scheme / reevaluate_at_end
     off and operation.get_result a query *)
  Variable res : St -> T_result.
  Hypothesis H_res : forall s, f_result s = (res s, s).
  Notation gen_legs := (gen_legs St T_result T_dict T_points T_ErrorCalculator T_reference T_RefinementContainer T_grid
    g_refinement g_scheme g_lmax g_refinement_evaluationstotal m_evaluate_operation m_initialize_grid m_refine
    m_get_total_num_points m_evaluate_final_combi m_check_combi_scheme m_operation_get_result).
  Notation plain := (plain St T_result T_dict T_points T_ErrorCalculator T_reference).
  Notation view := (view St T_result T_dict T_points T_ErrorCalculator T_reference).
  Theorem C13_gen_call_histories_are_run_legs : forall legs (self : Self) st d o0, in_model self -> plain self ->
    option_map view (gen_legs legs (with_d self st d)) =
    option_map (fun r : X * dstate => (fst (fst r), Some (d_errs (snd r)), Some (d_surs (snd r)), Some (d_pts (snd r))))
               (run_legs X evaluate' refine' observe' legs (st, o0) d).
  Proof.
    exact (gen_legs_is_run_legs St T_result T_dict T_points T_ErrorCalculator T_reference T_RefinementContainer T_grid
             g_refinement g_scheme g_lmax g_refinement_evaluationstotal m_evaluate_operation m_initialize_grid m_refine
             m_get_total_num_points m_evaluate_final_combi m_check_combi_scheme m_operation_get_result f_eval f_init f_refine cnt
             f_check f_final f_result H_eval H_init H_refine H_cnt H_check H_final H_result res H_res).
  Qed.
End C13gen.
Print Assumptions C13_gen_call_histories_are_run_legs.
Print Assumptions C13_gen_continue_is_model_loop.
Print Assumptions C13_gen_stops_at_first_satisfying_index.
Print Assumptions C13_gen_defaults_are_resolve_continue.
Print Assumptions C13_gen_perform_is_model_loop.

(* the default tolerances read from the source are the constants of the hand-written model *)
Theorem C13_gen_default_tolerances :
  SpatiallyAdaptivBase_continue_adaptive_refinement__default_tol = default_tol_continue /\
  SpatiallyAdaptivBase_performSpatiallyAdaptiv__default_tol = default_tol_perform /\
  SpatiallyAdaptivBase_continue_adaptive_refinement__default_min_evaluations = 1 /\
  SpatiallyAdaptivBase_continue_adaptive_refinement__default_max_evaluations = None.
Proof. repeat split; reflexivity. Qed.
Print Assumptions C13_gen_default_tolerances.

(* non-vacuity: the GENERATED performSpatiallyAdaptiv evaluated on a toy strategy (abstract state = number of refinements,
   error 1/2^k, 3k+1 points): tol = 1/8 is reached after 3 refinements = 4 evaluations, within 10 iterations of fuel *)
Example C13_gen_nonvacuous :
  let err (k : nat) : Qc := Q2Qc (1 # Pos.of_nat (2 ^ k)) in
  let self0 := mk_Self_t nat unit unit unit unit unit O None None None None None None None None None None None None None None None None None in
  match SpatiallyAdaptivBase_performSpatiallyAdaptiv_kw nat unit unit unit unit unit unit unit unit
          (fun _ => Some tt) (fun _ => tt) (fun _ => []) (fun _ => []) (fun k => Z.of_nat k)
          (fun k => Some ((err k, err k), k)) (fun k => Some (tt, k)) (fun k => Some (tt, S k))
          (fun k _ _ => Some (3 * Z.of_nat k + 1, k)) (fun k => Some ((tt, 0), k)) (fun k => Some (tt, k))
          (fun _ _ _ _ _ => Some (tt, O)) (fun k => Some (tt, k)) (fun k => Some (tt, k))
          10 self0 None None None (Some (Q2Qc (1 # 8))) None None None None None None None (Some false) None None None None with
  | Some ((_, _, _, _, _, errs, pts, _, _, _), self') => a_st _ _ _ _ _ _ self' = 3%nat /\ pts = [1; 4; 7; 10] /\ length errs = 4%nat
  | None => False
  end.
Proof. vm_compute. repeat split. Qed.
