(* C16 — source-derived model (DESIGN.md 0.5 / 0.5.1): coq/Gen/DensityGen.v is regenerated from sparseSpACE/GridOperation.py at the
   start of every ./check C16 by harness/translate/py2gallina_c16.py (a front end of the shared translator).  The theorems below
   are re-checked against what the Python source says NOW.  Python floats are read as exact rationals; None = the function raises.
   Property theorems only (each closed by `exact` of a lemma of Proofs/GenDensityEq.v). *)
From Coq Require Import ZArith List Bool QArith Qcanon Lia.
From SG Require Import Base.QcUtil Base.PyLib Base.PyNum Base.PyNumSeq Base.PolyInt Gen.DensityGen Model.Gram
  Proofs.GramHat Proofs.GramEntries Proofs.GramPD Proofs.GramNorm Proofs.KronSOS Proofs.StripeSOS Proofs.GramKron Proofs.GenDensityEq Proofs.GenDensityEq2.
Import ListNotations.
Open Scope Qc_scope.

(* ---- calculate_R_value_analytically: the generated function equals the hand model Rval for ALL hats (degenerate ones included:
   every division of the code is guarded by the test in front of it), all dimensions; it never raises on inputs of equal lengths *)
Theorem C16_gen_R_value_is_model : forall ti tj, length tj = length ti ->
  DensityEstimation_calculate_R_value_analytically (Z.of_nat (length ti)) (pts_of ti) (doms_of ti) (pts_of tj) (doms_of tj)
  = Some (Rval ti tj).
Proof. exact gen_R_value_is_model. Qed.

(* ---- the generated entry IS the integral of the product of the two hats (one dimension: same node / neighbouring nodes) ... *)
Theorem C16_gen_R_value_diagonal_is_integral : forall t, proper t ->
  DensityEstimation_calculate_R_value_analytically 1 [h_p t] [(h_lo t, h_hi t)] [h_p t] [(h_lo t, h_hi t)]
  = Some (pintegral (pmul (hat_left_poly t) (hat_left_poly t)) (h_lo t) (h_p t)
          + pintegral (pmul (hat_right_poly t) (hat_right_poly t)) (h_p t) (h_hi t)).
Proof. exact gen_R_diagonal_is_integral. Qed.
Theorem C16_gen_R_value_neighbours_is_integral : forall ti tj,
  h_lo ti <= h_p tj -> h_p ti < h_p tj -> h_hi ti = h_p tj -> h_lo tj = h_p ti ->
  DensityEstimation_calculate_R_value_analytically 1 [h_p ti] [(h_lo ti, h_hi ti)] [h_p tj] [(h_lo tj, h_hi tj)]
  = Some (pintegral (pmul (hat_right_poly ti) (hat_left_poly tj)) (h_p ti) (h_p tj)).
Proof. exact gen_R_neighbours_is_integral. Qed.
(* ... and in d dimensions the product of the one-dimensional generated entries (adjacency test included) *)
Theorem C16_gen_entry_is_product : forall a b ti tj, length tj = length ti ->
  gen_entry (a :: ti) (b :: tj) = gen_entry [a] [b] * gen_entry ti tj.
Proof. exact gen_entry_product. Qed.

(* ---- the matrix assembled by the double loop from the GENERATED entry function is the model matrix, hence symmetric positive
   definite for every grid and every lambda >= 0 *)
Theorem C16_gen_matrix_is_model : forall stripes lam,
  sym_matrix gen_entry lam (grid_hats stripes) = R_matrix_nonuniform (grid_hats stripes) lam.
Proof. exact gen_matrix_is_model. Qed.
Theorem C16_gen_matrix_positive_definite : forall stripes lam v,
  Forall unit_stripe stripes -> 0 <= lam -> length v = length (grid_hats stripes) -> Exists (fun x => x <> 0) v ->
  0 < quad (sym_matrix gen_entry lam (grid_hats stripes)) v.
Proof. exact gen_matrix_positive_definite. Qed.

(* ---- the scalar hat functions: hat_function_non_symmetric (basis not modified; proper hats - on a degenerate hat the Python divides
   by zero) and hat_function (uniform grids, every level incl. negative ones) equal the model hats *)
Theorem C16_gen_hat_non_symmetric_is_model : forall ts x, Forall proper ts -> length x = length ts ->
  DensityEstimation_hat_function_non_symmetric false (pts_of ts) (doms_of ts) x = Some (hat_nd hat_scalar ts x).
Proof. exact gen_hat_non_symmetric_is_model. Qed.
Theorem C16_gen_hat_function_is_model : forall iv lv x, length iv = length lv -> length x = length lv ->
  DensityEstimation_hat_function iv lv x = Some (hat_u_nd hat_u lv iv x).
Proof. exact gen_hat_function_is_model. Qed.
(* ---- check_adjacency: True iff all index pairs differ by at most one *)
Theorem C16_gen_check_adjacency_spec : forall iv jv, length jv = length iv ->
  DensityEstimation_check_adjacency iv jv = Some (forallb2 (fun i j => (Z.abs (i - j) <=? 1)%Z) iv jv).
Proof. exact gen_check_adjacency_spec. Qed.

Print Assumptions C16_gen_R_value_is_model.
Print Assumptions C16_gen_R_value_diagonal_is_integral.
Print Assumptions C16_gen_R_value_neighbours_is_integral.
Print Assumptions C16_gen_entry_is_product.
Print Assumptions C16_gen_matrix_is_model.
Print Assumptions C16_gen_matrix_positive_definite.
Print Assumptions C16_gen_hat_non_symmetric_is_model.
Print Assumptions C16_gen_hat_function_is_model.
Print Assumptions C16_gen_check_adjacency_spec.

(* ---- non-vacuity: the generated functions on concrete inputs *)
Definition q (n : Z) (d : positive) : Qc := Q2Qc (n # d).
Example C16_gen_nonvacuous :
  option_map (fun x : Qc => this x)
    (DensityEstimation_calculate_R_value_analytically 2 [q 1 4; q 1 2] [(q 0 1, q 1 2); (q 0 1, q 1 1)]
                                                        [q 1 2; q 1 2] [(q 1 4, q 1 1); (q 0 1, q 1 1)]) = Some (1 # 72)%Q /\
  option_map (fun x : Qc => this x)
    (DensityEstimation_hat_function_non_symmetric false [q 1 4] [(q 0 1, q 1 2)] [q 3 8]) = Some (1 # 2)%Q /\
  option_map (fun x : Qc => this x) (DensityEstimation_hat_function [1%Z] [2%Z] [q 3 8]) = Some (1 # 2)%Q /\
  DensityEstimation_check_adjacency [1; 3]%Z [2; 5]%Z = Some false /\
  (* a degenerate hat (upper neighbour = node): the Python divides by zero *)
  DensityEstimation_hat_function_non_symmetric false [q 1 4] [(q 0 1, q 1 4)] [q 3 8] = None.
Proof. repeat split; vm_compute; reflexivity. Qed.

(* ---- phase 4: get_hat_domain (the domains used by the scalar code paths: large-grid right-hand side, right-hand-side reuse) returns,
   for every interior grid point of strictly increasing stripes, exactly the domains of the model hats - in the plain and in the debug
   branch; take_closest (neighbour search of the large-grid paths) = the model's take_closest, the library binary search
   bisect_left = the model's linear scan on every strictly increasing list; without a right neighbour it runs into `assert False` *)
Theorem C16_gen_get_hat_domain_is_model : forall debug ts stripes,
  Forall2 (fun t xs => strictly_inc xs /\ In t (windows xs)) ts stripes ->
  DensityEstimation_get_hat_domain (Z.of_nat (length ts)) debug (pts_of ts) stripes = Some (doms_of ts).
Proof. exact gen_get_hat_domain_is_model. Qed.
Theorem C16_gen_bisect_left_is_model : forall xs x, strictly_inc xs -> py_bisect_left xs x = Some (Z.of_nat (bisect_left xs x)).
Proof. exact py_bisect_left_is_model. Qed.
Theorem C16_gen_take_closest_is_model : forall xs x, strictly_inc xs ->
  ((tc_pos xs x < length xs)%nat ->
   DensityEstimation_take_closest xs x false = Some (take_closest xs x, [Z.of_nat (tc_pos xs x - 1); Z.of_nat (tc_pos xs x)])) /\
  (tc_pos xs x = length xs -> DensityEstimation_take_closest xs x false = None).
Proof. intros xs x Hs. split; [exact (gen_take_closest_is_model xs x Hs) | exact (gen_take_closest_raises xs x Hs)]. Qed.
Print Assumptions C16_gen_get_hat_domain_is_model.
Print Assumptions C16_gen_bisect_left_is_model.
Print Assumptions C16_gen_take_closest_is_model.

Example C16_gen_nonvacuous_domains :
  let xs := [q 0 1; q 1 4; q 1 2; q 5 8; q 1 1] in
  strictly_inc xs /\ In (mkH (q 1 4) (q 1 2) (q 5 8)) (windows xs) /\
  option_map (map (fun d : Qc * Qc => (this (fst d), this (snd d))))
    (DensityEstimation_get_hat_domain 2 false [q 1 2; q 1 4] [xs; [q 0 1; q 1 4; q 1 1]]) = Some [(1 # 4, 5 # 8); (0 # 1, 1 # 1)]%Q /\
  option_map (fun r : list Qc * list Z => (map (fun v : Qc => this v) (fst r), snd r)) (DensityEstimation_take_closest xs (q 9 16) false)
  = Some ([1 # 2; 5 # 8]%Q, [2; 3]%Z) /\
  py_bisect_left xs (q 9 16) = Some 3%Z.
Proof.
  cbv zeta. split; [|split; [|split; [|split]]].
  - repeat split; unfold Qclt; vm_compute; reflexivity.
  - right. left. reflexivity.
  - vm_compute. reflexivity.
  - vm_compute. reflexivity.
  - vm_compute. reflexivity.
Qed.

