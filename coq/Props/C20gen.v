(* C20 - source-derived model (DESIGN.md 0.5 / 0.5.1): coq/Gen/RegressGen.v is regenerated from sparseSpACE/GridOperation.py at the
   start of every ./check C20 by harness/translate/py2gallina_c20.py (a front end of the shared translator): the statements of
   Regression.build_C_matrix that compute one matrix entry `res` for fixed grid points i, j.  The theorems below are re-checked against
   what the Python source says NOW.  Python floats are read as exact rationals; None = the code raises.
   Property theorems only (each closed by `exact` of a lemma of Proofs/GenRegressEq.v). *)
From Coq Require Import ZArith List Bool QArith Qcanon Lia.
From SG Require Import Base.QcUtil Base.PyLib Base.PyNum Gen.RegressGen Model.Gram Model.Regress Proofs.RegressP Proofs.RegressUniform
  Proofs.GenRegressEq.
Import ListNotations.
Open Scope Qc_scope.

(* the inner loop over m (one summand of the entry; `break` = early exit with 0) is the option-valued product C_prod of the model *)
Theorem C20_gen_C_factor_is_model : forall lv iv jv k lk, length iv = length lv -> length jv = length lv -> (k < length lv)%nat ->
  Regression_c20_C_factor lv (Z.of_nat (length lv)) (Z.of_nat k) iv jv
  = Some (match C_prod false lk k 0 lv iv jv with Some v => v | None => 0 end).
Proof. exact gen_C_factor. Qed.
(* the entry computed by the code = the hand-written model (the repaired variant: mass terms with the level of their own dimension),
   every dimension, every level vector, all index vectors of the right length; the code never raises on such inputs *)
Theorem C20_gen_C_entry_is_model : forall lv iv jv, length iv = length lv -> length jv = length lv ->
  Regression_c20_C_entry lv (Z.of_nat (length lv)) iv jv = Some (C_val false lv iv jv).
Proof. exact gen_C_entry. Qed.
(* hence the entry computed by the code is the gradient Gram entry of the two tensor-product hats (levels >= 1) *)
Theorem C20_gen_C_entry_is_gradient_gram : forall lv iv jv,
  length iv = length lv -> length jv = length lv -> Forall (fun l => (1 <= l)%Z) lv ->
  Regression_c20_C_entry lv (Z.of_nat (length lv)) iv jv = Some (C_val_dw_spec (uhats lv iv) (uhats lv jv)).
Proof. exact gen_C_entry_is_gradient_gram. Qed.
Print Assumptions C20_gen_C_factor_is_model.
Print Assumptions C20_gen_C_entry_is_model.
Print Assumptions C20_gen_C_entry_is_gradient_gram.

(* non-vacuity: the generated code evaluated on level vector (1,2), diagonal entry 10/3 (8/3 before fix aa53b00), and on
   (2,1,2): neighbours in the first and last dimension, far apart in one dimension -> 0 *)
Example C20_gen_nonvacuous :
  Regression_c20_C_entry [1; 2]%Z 2 [1; 1]%Z [1; 1]%Z = Some (qq 10 3) /\
  Regression_c20_C_entry [2; 1; 2]%Z 3 [1; 1; 1]%Z [2; 1; 2]%Z = Some (C_val false [2; 1; 2]%Z [1; 1; 1]%Z [2; 1; 2]%Z) /\
  Regression_c20_C_entry [2; 2]%Z 2 [1; 1]%Z [3; 1]%Z = Some 0.
Proof.
  split; [|split].
  - pose proof (gen_C_entry [1; 2]%Z [1; 1]%Z [1; 1]%Z eq_refl eq_refl) as H.
    change (Z.of_nat (length [1; 2]%Z)) with 2%Z in H. rewrite H; f_equal; try (apply Qc_is_canon; vm_compute; reflexivity).
  - exact (gen_C_entry [2; 1; 2]%Z [1; 1; 1]%Z [2; 1; 2]%Z eq_refl eq_refl).
  - pose proof (gen_C_entry [2; 2]%Z [1; 1]%Z [3; 1]%Z eq_refl eq_refl) as H.
    change (Z.of_nat (length [2; 2]%Z)) with 2%Z in H. rewrite H; f_equal; try (apply Qc_is_canon; vm_compute; reflexivity).
Qed.
