(* C12 for the SOURCE-DERIVED cache machine.  Gen/FunCacheGen.v is written by harness/translate/py2gallina_machine.py --target
   funcache from sparseSpACE/Function.py (class Function) at every ./setup.sh C12 and ./check C12: reset_dictionary,
   deactivate_caching, get_f_dict_size and THREE SPECIALISATIONS of the one source function __call__ on the shape of its argument
   (single point = tuple of scalars; batch = list of tuples; empty argument): the tests np.isscalar(coordinates[0]),
   isinstance(coordinates[0], tuple), len(coordinates) == 0 are decided by the declared argument type and only the branch taken
   is translated.  eval / eval_vectorized / output_length are oracle parameters; f_value is a tagged value (Base/PyValue.v).
   Statements only (proofs: Proofs/GenFunCacheEq.v).  The hand-written machine is Model/FunCache.v (single point, small methods)
   and Model/FunCacheVec.v (batch, with eval_vectorized as its own parameter), variant `fixed` = the code since the two repairs. *)
From Coq Require Import ZArith List Bool QArith Qcanon.
From SG Require Import Base.QcUtil Base.PyLib Base.PyNum Base.PyMachine Base.PyValue Model.FunCache Model.FunCacheVec
  Gen.FunCacheGen Proofs.GenFunCacheEq.
Import ListNotations.
Open Scope Z_scope.

Section C12gen.
  Variable St : Type.
  Variable m_eval : St -> list Qc -> option (pyval * St).
  Variable m_eval_vectorized : St -> list (list Qc) -> option (list (list Qc) * St).
  Variable m_output_length : St -> option (Z * St).
  (* the oracles are pure; eval returns a number or a sequence of numbers *)
  Variable ev : point -> pyval.
  Variable evec : list point -> list value.
  Variable olen : nat.
  Hypothesis H_eval : forall s p, m_eval s p = Some (ev p, s).
  Hypothesis H_evec : forall s ps, m_eval_vectorized s ps = Some (evec ps, s).
  Hypothesis H_olen : forall s, m_output_length s = Some (Z.of_nat olen, s).
  Hypothesis ev_good : forall p, good (ev p) = true.

  Notation eval' := (eval' ev).                 (* the model's normalised eval: [x] for a scalar x, l for a sequence l *)
  Notation conc := (conc St).                   (* the object: abstract state, f_dict, old_f_dict, do_cache *)
  Notation gen_single := (Function___call___single St m_eval m_output_length).
  Notation gen_batch := (Function___call___batch St m_eval_vectorized m_output_length).
  Notation gen_empty := (Function___call___empty St m_output_length).

  Theorem C12_gen_reset_dictionary : forall s fdg ofdg c fuel,
    Function_reset_dictionary St fuel (conc s fdg ofdg c) = Some (tt, conc s [] [] c) /\
    step eval' olen fixed (abs fdg ofdg c) OReset = (abs [] [] c, RUnit).
  Proof. exact (gen_reset_dictionary St ev olen). Qed.
  Theorem C12_gen_deactivate_caching : forall s fdg ofdg c fuel,
    Function_deactivate_caching St fuel (conc s fdg ofdg c) = Some (tt, conc s fdg ofdg false) /\
    step eval' olen fixed (abs fdg ofdg c) ODeact = (abs fdg ofdg false, RUnit).
  Proof. exact (gen_deactivate_caching St ev olen). Qed.
  Theorem C12_gen_get_f_dict_size : forall s fdg ofdg c fuel,
    Function_get_f_dict_size St fuel (conc s fdg ofdg c) = Some (Z.of_nat (length fdg), conc s fdg ofdg c) /\
    step eval' olen fixed (abs fdg ofdg c) OSize = (abs fdg ofdg c, RSize (length fdg)).
  Proof. exact (gen_get_f_dict_size St ev olen). Qed.

  (* __call__ on a single point = call_single of the model: same returned vector, dictionaries related by normalisation of the
     stored values (dnorm), invariant kept; the failing output-length assert = no result *)
  Theorem C12_gen_call_single_is_model : forall s fdg ofdg c p fuel, p <> [] -> wfd fdg -> wfd ofdg ->
    match call_single eval' olen fixed (abs fdg ofdg c) p with
    | (st', RSingle v) => exists fdg', gen_single fuel (conc s fdg ofdg c) p = Some (VVec v, conc s fdg' ofdg c) /\
                                       st' = abs fdg' ofdg c /\ wfd fdg'
    | (_, RErr _) => gen_single fuel (conc s fdg ofdg c) p = None
    | _ => False
    end.
  Proof. exact (gen_call_single St m_eval m_output_length ev olen H_eval H_olen ev_good). Qed.

  (* __call__ on a batch = vcall_batch of the model with the class's own eval_vectorized (reshape = checked identity on rows) *)
  Theorem C12_gen_call_batch_is_model : forall checks s fdg ofdg c ps fuel, wfd fdg ->
    match vcall_batch eval' olen evec checks fixed (abs fdg ofdg c) false ps with
    | (st', VR (RBatch vs)) => exists fdg', gen_batch fuel (conc s fdg ofdg c) ps = Some (VMat vs, conc s fdg' ofdg c) /\
                                            st' = abs fdg' ofdg c /\ wfd fdg'
    | (_, VR (RErr _)) => gen_batch fuel (conc s fdg ofdg c) ps = None
    | _ => False
    end.
  Proof. exact (gen_call_batch St m_eval_vectorized m_output_length ev evec olen H_evec H_olen). Qed.

  (* the specialisation for an empty argument: an empty (0, output_length) array, nothing evaluated, nothing stored; it is the
     batch specialisation at [] and the model's empty batch *)
  Theorem C12_gen_call_empty_is_model : forall s fdg ofdg c fuel,
    gen_empty fuel (conc s fdg ofdg c) tt = Some (VMat [], conc s fdg ofdg c) /\
    gen_batch fuel (conc s fdg ofdg c) [] = gen_empty fuel (conc s fdg ofdg c) tt /\
    vcall_batch eval' olen evec false fixed (abs fdg ofdg c) false [] = (abs fdg ofdg c, VR (RBatch [])).
  Proof. exact (gen_call_empty St m_eval_vectorized m_output_length ev evec olen H_olen). Qed.
End C12gen.
Print Assumptions C12_gen_reset_dictionary.
Print Assumptions C12_gen_get_f_dict_size.
Print Assumptions C12_gen_call_single_is_model.
Print Assumptions C12_gen_call_batch_is_model.
Print Assumptions C12_gen_call_empty_is_model.

(* non-vacuity: the generated functions evaluated on a toy function f(x, y) = x + y (scalar result, output_length 1):
   a single call caches the RAW scalar and returns the vector [3]; a batch call stores both rows; the size is then 2 *)
Example C12_gen_nonvacuous :
  let q (n : Z) : Qc := Q2Qc (inject_Z n) in
  let m_eval (s : unit) (p : list Qc) := Some (VScalar (fold_left Qcplus p (q 0)), s) in
  let m_evec (s : unit) (ps : list (list Qc)) := Some (map (fun p => [fold_left Qcplus p (q 0)]) ps, s) in
  let m_olen (s : unit) := Some (1, s) in
  let o0 := mk_Self_t unit tt (Some []) (Some []) (Some true) in
  match Function___call___single unit m_eval m_olen O o0 [q 1; q 2] with
  | Some (r1, o1) =>
      r1 = VVec [q 3] /\ f_f_dict unit o1 = Some [([q 1; q 2], VScalar (q 3))] /\
      match Function___call___batch unit m_evec m_olen O o1 [[q 1; q 2]; [q 5; q 5]] with
      | Some (r2, o2) => r2 = VMat [[q 3]; [q 10]] /\ option_map fst (Function_get_f_dict_size unit O o2) = Some 2
      | None => False
      end
  | None => False
  end.
Proof. vm_compute. repeat split. Qed.
