(* C17 — Density-estimation caching and size-dependent code paths are transparent.
   Property theorems only + non-vacuity.  Model: Model/DECache.v (matrix-entry cache old_R) on top of Model/Gram.v. *)
From Coq Require Import ZArith List QArith Qcanon Bool Lia.
From SG Require Import Base.QcUtil Model.Gram Model.GramSolve Model.DECache Model.DEReuse
  Proofs.GramHat Proofs.GramEntries Proofs.GramPD Proofs.GramNorm Proofs.DECacheP Proofs.DEPaths Proofs.DEReuseP Proofs.DEInterpP Proofs.DEUniform Proofs.DEUniformInterp Proofs.DEPointList Proofs.DESolveP.
Import ListNotations.
Open Scope Qc_scope.

(* the cache key (sorted overlap widths, sorted node distances) determines the matrix entry, for any two pairs of
   hats that each come from one tensor grid (any dimension, any grids, also two different grids) *)
Theorem C17_cache_key_determines_value : forall ti tj ti' tj',
  good_pair ti tj -> good_pair ti' tj' -> overlap_key ti tj = overlap_key ti' tj' -> Rval ti tj = Rval ti' tj'.
Proof. exact cache_key_determines_value. Qed.
Print Assumptions C17_cache_key_determines_value.

(* all pairs of hats of a tensor grid over strictly increasing stripes of [0,1] are such pairs *)
Theorem C17_grid_pairs_good : forall stripes, Forall good_stripe stripes -> pairwise_good (grid_hats stripes).
Proof. exact grid_pairs_good. Qed.
Print Assumptions C17_grid_pairs_good.

(* one matrix: starting from ANY consistent cache the cached double loop returns the uncached matrix and leaves a
   consistent cache *)
Theorem C17_cached_matrix_transparent : forall lam pts c, consistent c -> pairwise_good pts ->
  fst (sym_matrix_cached c lam pts) = R_matrix_nonuniform pts lam /\ consistent (snd (sym_matrix_cached c lam pts)).
Proof. exact sym_matrix_cached_correct. Qed.
Print Assumptions C17_cached_matrix_transparent.

(* EVERY refinement history: the matrices of any sequence of grids built with one never-cleared cache equal the
   matrices built without cache *)
Theorem C17_cache_transparent_for_every_history : forall lam grids,
  Forall (Forall good_stripe) grids -> fst (history_cached [] lam grids) = history_plain lam grids.
Proof. exact cache_transparent_for_every_history. Qed.
Print Assumptions C17_cache_transparent_for_every_history.

(* the size-dependent hat evaluation variants agree (proved in C16; restated because C17 relies on them) *)
Theorem C17_hat_variants_agree : forall t x, proper t ->
  hat_cv t x = hat_scalar t x /\ (h_lo t <= x -> x <= h_hi t -> hat_vec t x = hat_scalar t x).
Proof. intros t x H. split; [exact (hat_cv_eq_scalar t x H) | exact (hat_vec_eq_scalar_in_support t x H)]. Qed.

(* ---- wave 2 ---------------------------------------------------------------------------------------------------------- *)

(* SIZE-DEPENDENT CODE PATHS of the right-hand side (calculate_B_dimension_wise): the large-grid loop (N >= 200: per sample
   only the hats at the two closest stripe coordinates, take_closest / bisect_left, scalar hat) computes the small-grid
   formula (all hats times all samples, completely vectorised hat) - on EVERY tensor grid over strictly increasing stripes
   of [0,1] and EVERY data set of the dimension of the grid (no size restriction: both paths can be compared on any grid) *)
Theorem C17_rhs_large_path_equals_small_path : forall stripes data signs,
  Forall good_stripe stripes -> Forall (fun x => length x = length stripes) data ->
  rhs_large stripes data signs = rhs (grid_hats stripes) data signs.
Proof. exact rhs_large_eq_rhs. Qed.
Print Assumptions C17_rhs_large_path_equals_small_path.

(* RE-USE OF OLD RIGHT-HAND SIDES (find_closest_old_B, copy of the entries whose point and support match, recomputation
   of the others through the data bins of find_data_in_domain, hand-over new_B -> old_B in post_processing):
   for EVERY history of component-grid evaluations and post_processing calls on one object - any grids (growing,
   shrinking, points replaced, repeated), any keys, any threshold, any class labels, any index lists that contain every
   sample index - the right-hand sides computed with re-use equal those computed without, and both are the signed sample
   means of the hats (spec_events = rhs of C16, cf. C16_rhs_is_sample_mean) *)
Theorem C17_rhs_reuse_transparent_for_every_history : forall data signs perms thr evs,
  perms_complete data perms -> good_events data evs ->
  fst (run_reuse thr data signs perms (bstate0 (length perms)) evs) = run_plain thr data signs evs /\
  run_plain thr data signs evs = spec_events data signs evs.
Proof. exact reuse_transparent_for_every_history. Qed.
Print Assumptions C17_rhs_reuse_transparent_for_every_history.

(* verified checker, evaluated on the data bins and the index arrays the implementation holds at the end of every explored
   history: accepted bins (every sample strictly inside an interval sits inside the stored index range) and complete index
   lists make every further history transparent, whatever right-hand sides (if correct) are stored *)
Theorem C17_checked_bins_are_safe : forall data signs perms bs thr evs old,
  check_bins data perms bs = true -> check_perms data perms = true -> entries_ok data signs old -> good_events data evs ->
  fst (run_reuse thr data signs perms (mkB old [] bs) evs) = run_plain thr data signs evs.
Proof. exact checked_bins_are_safe. Qed.
Print Assumptions C17_checked_bins_are_safe.

(* SIZE-DEPENDENT CODE PATHS of the interpolation (interpolate_points_component_grid): one call of the large-grid path
   (grid object with >= 200 points: per evaluation point the hats at the two closest stripe coordinates per dimension,
   their supports looked up in / stored into the per-call dictionary hat_support_cache, the surplus found through the
   offsets, vectorised hat) returns for every batch of points of the unit cube the values of the small-grid path
   (all hats, completely vectorised hat) - on EVERY grid and for EVERY surplus vector *)
Theorem C17_interp_large_path_equals_small_path : forall stripes alphas pts,
  Forall good_stripe stripes -> Forall (fun x => length x = length stripes /\ in_unit_cube x = true) pts ->
  interp_large stripes alphas pts = map (interp (grid_hats stripes) alphas) pts.
Proof. exact interp_large_eq_interp. Qed.
Print Assumptions C17_interp_large_path_equals_small_path.

(* the support cache is transparent as long as it is consistent with the CURRENT grid (every stored support is the support
   in the grid that is being interpolated); the fresh per-call dictionary of the code is the case c = [] *)
Theorem C17_interp_support_cache_transparent : forall stripes alphas pts c,
  cache_ok stripes c -> Forall good_stripe stripes -> Forall (fun x => length x = length stripes /\ in_unit_cube x = true) pts ->
  fst (interp_large_from stripes alphas c pts) = map (interp (grid_hats stripes) alphas) pts.
Proof. exact interp_large_from_consistent_cache. Qed.
Print Assumptions C17_interp_support_cache_transparent.

(* SIZE-DEPENDENT CODE PATHS of the right-hand side on UNIFORM grids (calculate_B of StandardCombi runs): the large-grid
   loop (N >= 200: get_hats_in_support = floor / ceil of x / meshsize kept if they index a grid point, unclamped hat product,
   samples outside the unit cube skipped) computes the small-grid formula (all hats, clamped) - for EVERY level vector and
   EVERY data set of its dimension (also samples outside the unit cube) *)
Theorem C17_rhs_uniform_large_path_equals_small_path : forall lv data signs,
  Forall (fun x => length x = length lv) data -> rhs_uniform_large lv data signs = rhs_uniform lv data signs.
Proof. exact rhs_uniform_large_eq_rhs_uniform. Qed.
Print Assumptions C17_rhs_uniform_large_path_equals_small_path.

(* INTERPOLATION ON UNIFORM GRIDS (StandardCombi runs): the small-grid path evaluates the level/index hats
   max(1 - |2^l x - i|, 0) of the component grid (interp_uniform), the large-grid path works on the coordinate arrays of the
   grid (interp_large over the uniform stripes); for every level vector with levels >= 1 they agree *)
Theorem C17_interp_uniform_large_path_equals_small_path : forall lv alphas pts,
  Forall (fun l => (1 <= l)%Z) lv -> Forall (fun x => length x = length lv /\ in_unit_cube x = true) pts ->
  interp_large (map uniform_stripe lv) alphas pts = map (interp_uniform lv alphas) pts.
Proof. exact interp_large_uniform_eq_small. Qed.
Print Assumptions C17_interp_uniform_large_path_equals_small_path.

(* TWO LIST EXPRESSIONS of the code that Model/DEReuse.v writes in another shape, proved equal to that shape:
   old_point_list (cross product of the stored stripes, which contain the domain boundary, filtered by
   `0.0 not in x and 1.0 not in x`) is the list of grid points in the order of the stored right-hand side; *)
Theorem C17_old_point_list_is_grid_points : forall stripes, Forall good_stripe stripes ->
  old_point_list_py stripes = map (map h_p) (grid_hats stripes).
Proof. exact old_point_list_is_grid_points. Qed.
Print Assumptions C17_old_point_list_is_grid_points.

(* np.intersect1d (np.unique = sort + drop repetitions, then keep the common values) iterated over the index slices of the
   dimensions is the ascending list of the sample indices that occur in every slice (index arrays with entries below M) *)
Theorem C17_intersect1d_is_gather : forall M slices, slices <> [] ->
  (forall sl, In sl slices -> forall x, In x sl -> (x < M)%nat) ->
  domain_data_py slices = filter (fun k => forallb (mem_nat k) slices) (seq 0 M).
Proof. exact domain_data_py_is_gather. Qed.
Print Assumptions C17_intersect1d_is_gather.

(* NOT modelled: the re-use branch of calculate_B (uniform grids); it is unreachable through StandardCombi because only
   calculate_B_dimension_wise fills new_B (reuse on / off runs of StandardCombi are compared on every run). *)

(* ---- non-vacuity: two different grids sharing cache entries *)
Definition q (n : Z) (d : positive) : Qc := Q2Qc (n # d).
Example C17_nonvacuous :
  let g1 := [[q 0 1; q 1 4; q 1 2; q 1 1]; [q 0 1; q 1 2; q 1 1]] in
  let g2 := [[q 0 1; q 1 4; q 1 2; q 3 4; q 1 1]; [q 0 1; q 1 2; q 1 1]] in
  Forall (Forall good_stripe) [g1; g2] /\
  length (snd (history_cached [] 0 [g1; g2])) = 4%nat /\
  length (snd (history_cached [] 0 [g1])) = 3%nat /\
  fst (history_cached [] 0 [g1; g2]) = history_plain 0 [g1; g2].
Proof.
  cbv zeta. split; [|split; [|split]].
  - repeat constructor; try (unfold Qclt; vm_compute; reflexivity); try (apply Qc_is_canon; reflexivity).
  - vm_compute. reflexivity.
  - vm_compute. reflexivity.
  - apply cache_transparent_for_every_history.
    repeat constructor; try (unfold Qclt; vm_compute; reflexivity); try (apply Qc_is_canon; reflexivity).
Qed.

(* ---- non-vacuity of the re-use theorem: a history in which an old right-hand side IS re-used: second grid = first grid plus
   one point, threshold 2; two of the three entries are copied, one is recomputed through the data bins *)
Example C17_reuse_nonvacuous :
  let data := [[q 1 4]; [q 1 2]; [q 3 4]; [q 1 10]] in
  let perms := [[3; 0; 1; 2]%nat] in
  let g1 := [[q 0 1; q 1 4; q 1 2; q 1 1]] in
  let g2 := [[q 0 1; q 1 4; q 1 2; q 3 4; q 1 1]] in
  let evs := [EGrid [1%Z] g1; EPost; EGrid [2%Z] g2; EPost] in
  perms_complete data perms /\ good_events data evs /\
  (exists e, find_closest (oldB (snd (run_reuse 2 data [] perms (bstate0 1) [EGrid [1%Z] g1; EPost]))) g2 = Some e) /\
  length (nth 0 (bins (snd (run_reuse 2 data [] perms (bstate0 1) evs))) []) = 2%nat /\
  fst (run_reuse 2 data [] perms (bstate0 1) evs) = run_plain 2 data [] evs.
Proof.
  cbv zeta.
  assert (G : forall s, s = [q 0 1; q 1 4; q 1 2; q 1 1] \/ s = [q 0 1; q 1 4; q 1 2; q 3 4; q 1 1] -> good_stripe s).
  { intros s [E|E]; subst s; (split; [|split]);
      repeat split; try (unfold Qclt; vm_compute; reflexivity); try (apply Qc_is_canon; reflexivity). }
  assert (Hc : perms_complete [[q 1 4]; [q 1 2]; [q 3 4]; [q 1 10]] [[3; 0; 1; 2]%nat]).
  { intros pm [E|[]] k Hk. subst pm. cbn [length] in Hk.
    destruct k as [|[|[|[|k]]]]; cbn; try tauto. exfalso. do 4 apply Nat.succ_lt_mono in Hk. inversion Hk. }
  assert (He : good_events [[q 1 4]; [q 1 2]; [q 3 4]; [q 1 10]]
                 [EGrid [1%Z] [[q 0 1; q 1 4; q 1 2; q 1 1]]; EPost; EGrid [2%Z] [[q 0 1; q 1 4; q 1 2; q 3 4; q 1 1]]; EPost]).
  { cbn [good_events]. repeat split; try (repeat constructor; fail); constructor; try constructor; apply G; tauto. }
  split; [exact Hc|]. split; [exact He|]. split; [|split].
  - eexists. vm_compute. reflexivity.
  - vm_compute. reflexivity.
  - apply (C17_rhs_reuse_transparent_for_every_history _ [] _ 2%nat _ Hc He).
Qed.

(* ---- non-vacuity of the interpolation theorem (2D grid, one stripe with a single inner point; points on grid lines, on
   the boundary and in between) and NECESSITY of the consistency hypothesis: a support cache left behind by a coarser grid
   (what a cache keyed by the level vector does after a refinement) changes the value *)
Example C17_interp_nonvacuous :
  let g := [[q 0 1; q 1 4; q 1 2; q 3 4; q 1 1]; [q 0 1; q 1 2; q 1 1]] in
  let al := [q 1 1; q 2 1; q (-3) 2] in
  let pts := [[q 3 8; q 1 4]; [q 1 2; q 1 2]; [q 0 1; q 1 1]; [q 7 8; q 3 4]] in
  Forall good_stripe g /\ Forall (fun x => length x = length g /\ in_unit_cube x = true) pts /\
  interp_large g al pts = map (interp (grid_hats g) al) pts /\ nth 0 (interp_large g al pts) 0 = q 3 4.
Proof.
  cbv zeta. split; [|split; [|split]].
  - repeat constructor; try (unfold Qclt; vm_compute; reflexivity); try (apply Qc_is_canon; reflexivity).
  - repeat constructor.
  - vm_compute. reflexivity.
  - apply Qc_is_canon. vm_compute. reflexivity.
Qed.

Example C17_stale_support_cache_not_transparent :
  let g1 := [[q 0 1; q 1 2; q 1 1]] in
  let g2 := [[q 0 1; q 1 4; q 1 2; q 1 1]] in
  let x := [q 3 8] in
  let c1 := snd (interp_large_from g1 [q 1 1] [] [x]) in                      (* cache after interpolating on the old grid *)
  cache_ok g1 c1 /\ ~ cache_ok g2 c1 /\
  fst (interp_large_from g2 [q 0 1; q 1 1] c1 [x]) <> map (interp (grid_hats g2) [q 0 1; q 1 1]) [x].
Proof.
  cbv zeta. split; [|split].
  - intros h sp H. vm_compute in H. destruct H as [H|[]]. injection H as H1 H2. subst. vm_compute. reflexivity.
  - intro H. specialize (H [q 1 2] [(q 0 1, q 1 1)]). assert (I : In ([q 1 2], [(q 0 1, q 1 1)]) (snd (interp_large_from [[q 0 1; q 1 2; q 1 1]] [q 1 1] [] [[q 3 8]]))).
    { vm_compute. left. reflexivity. }
    specialize (H I). vm_compute in H. discriminate.
  - vm_compute. discriminate.
Qed.

(* ---- non-vacuity of the uniform statement: level vector (3,2), 21 grid points, samples inside, on grid lines, on the boundary
   and outside the unit cube; some entry is non-zero *)
Example C17_uniform_nonvacuous :
  let data := [[q 1 3; q 1 2]; [q 1 4; q 3 4]; [q 1 1; q 0 1]; [q 5 4; q 1 2]; [q 7 10; q 1 10]] in
  Forall (fun x => length x = 2%nat) data /\ length (rhs_uniform [3%Z; 2%Z] data []) = 21%nat /\
  rhs_uniform_large [3%Z; 2%Z] data [] = rhs_uniform [3%Z; 2%Z] data [] /\ nth 5 (rhs_uniform [3%Z; 2%Z] data []) 0 = q 1 5.
Proof.
  cbv zeta. split; [repeat constructor|]. split; [vm_compute; reflexivity|]. split; [vm_compute; reflexivity|].
  apply Qc_is_canon. vm_compute. reflexivity.
Qed.

Example C17_uniform_interp_nonvacuous :
  let al := [q 1 1; q 2 1; q 3 1; q (-1) 1; q 0 1; q 1 2; q 5 1; q 1 1; q 1 1] in
  let pts := [[q 1 3; q 1 2]; [q 1 4; q 3 4]; [q 1 1; q 0 1]; [q 5 8; q 1 8]] in
  Forall (fun l => (1 <= l)%Z) [2%Z; 2%Z] /\ Forall (fun x => length x = 2%nat /\ in_unit_cube x = true) pts /\
  interp_large (map uniform_stripe [2%Z; 2%Z]) al pts = map (interp_uniform [2%Z; 2%Z] al) pts /\
  nth 1 (map (interp_uniform [2%Z; 2%Z] al) pts) 0 = q 3 1.
Proof.
  cbv zeta.
  assert (H1 : Forall (fun l => (1 <= l)%Z) [2%Z; 2%Z]) by (repeat constructor; lia).
  assert (H2 : Forall (fun x => length x = 2%nat /\ in_unit_cube x = true)
                 [[q 1 3; q 1 2]; [q 1 4; q 3 4]; [q 1 1; q 0 1]; [q 5 8; q 1 8]]) by (repeat constructor).
  split; [exact H1|]. split; [exact H2|]. split; [apply C17_interp_uniform_large_path_equals_small_path; assumption|].
  apply Qc_is_canon. vm_compute. reflexivity.
Qed.

Example C17_list_expressions_nonvacuous :
  old_point_list_py [[q 0 1; q 1 4; q 1 2; q 1 1]; [q 0 1; q 1 2; q 1 1]] = [[q 1 4; q 1 2]; [q 1 2; q 1 2]] /\
  domain_data_py [[3; 0; 2; 0]; [2; 5; 0]; [0; 2; 2; 4]]%nat = [0; 2]%nat.
Proof. split; vm_compute; reflexivity. Qed.

(* ---- phase 3 -------------------------------------------------------------------------------------------------------- *)

(* SURPLUS TRANSPARENCY follows from matrix and right-hand-side transparency (with C16's positive definiteness in every dimension:
   the system has exactly one solution).  One component grid evaluated on an object with ANY consistent matrix cache c and ANY
   consistent re-use state st: the matrix and the right-hand side equal those of the run without re-use, so whatever solves the
   system of the run with re-use IS the solution of the run without, and the normalised surpluses agree *)
Theorem C17_surpluses_transparent : forall data signs perms thr lam c st key stripes x_on x_off,
  consistent c -> perms_complete data perms -> Inv data signs perms st ->
  Forall good_stripe stripes -> Forall (fun x => length x = length stripes) data -> 0 <= lam ->
  let G_on := fst (sym_matrix_cached c lam (grid_hats stripes)) in
  let b_on := fst (calc_B thr data signs perms st key stripes) in
  let G_off := R_matrix_nonuniform (grid_hats stripes) lam in
  let b_off := rhs_plain thr data signs stripes in
  length x_on = length (grid_hats stripes) -> length x_off = length (grid_hats stripes) ->
  matvec G_on x_on = b_on -> matvec G_off x_off = b_off ->
  G_on = G_off /\ b_on = b_off /\ x_on = x_off /\
  forall labelled, normalise_weighted labelled (tensor_weights stripes) x_on = normalise_weighted labelled (tensor_weights stripes) x_off.
Proof. exact surpluses_transparent. Qed.
Print Assumptions C17_surpluses_transparent.

(* ... and such surpluses exist: the system of the run with re-use has exactly one solution, the one the exact pipeline of C16
   (surpluses_nonuniform: model matrix, model right-hand side, elimination) computes from the data *)
Theorem C17_surpluses_with_reuse_exist : forall data signs perms thr lam c st key stripes labelled,
  consistent c -> perms_complete data perms -> Inv data signs perms st ->
  Forall good_stripe stripes -> Forall (fun x => length x = length stripes) data -> 0 <= lam ->
  exists raw fin integ,
    surpluses_nonuniform stripes lam false data signs labelled = Some (raw, fin, integ) /\
    matvec (fst (sym_matrix_cached c lam (grid_hats stripes))) raw = fst (calc_B thr data signs perms st key stripes) /\
    forall y, length y = length (grid_hats stripes) ->
              matvec (fst (sym_matrix_cached c lam (grid_hats stripes))) y = fst (calc_B thr data signs perms st key stripes) -> y = raw.
Proof. exact surpluses_with_reuse_exist. Qed.
Print Assumptions C17_surpluses_with_reuse_exist.

(* non-vacuity: the hypotheses hold for the empty cache, the initial state, a concrete grid and data set *)
Example C17_surpluses_nonvacuous :
  let data := [[q 1 4]; [q 1 2]; [q 3 4]; [q 1 10]] in
  let g := [[q 0 1; q 1 4; q 1 2; q 3 4; q 1 1]] in
  exists raw fin integ, surpluses_nonuniform g (q 1 8) false data [] false = Some (raw, fin, integ) /\
    matvec (fst (sym_matrix_cached [] (q 1 8) (grid_hats g))) raw = fst (calc_B 2 data [] [[3; 0; 1; 2]%nat] (bstate0 1) [1%Z] g).
Proof.
  cbv zeta.
  assert (Hc : perms_complete [[q 1 4]; [q 1 2]; [q 3 4]; [q 1 10]] [[3; 0; 1; 2]%nat]).
  { intros pm [E|[]] k Hk. subst pm. cbn [length] in Hk.
    destruct k as [|[|[|[|k]]]]; cbn; try tauto. exfalso. do 4 apply Nat.succ_lt_mono in Hk. inversion Hk. }
  assert (Hg : Forall good_stripe [[q 0 1; q 1 4; q 1 2; q 3 4; q 1 1]]).
  { repeat constructor; try (unfold Qclt; vm_compute; reflexivity); try (apply Qc_is_canon; reflexivity). }
  assert (Hl : 0 <= q 1 8) by (unfold Qcle; vm_compute; discriminate).
  destruct (C17_surpluses_with_reuse_exist [[q 1 4]; [q 1 2]; [q 3 4]; [q 1 10]] [] [[3; 0; 1; 2]%nat] 2%nat (q 1 8) [] (bstate0 1) [1%Z]
              [[q 0 1; q 1 4; q 1 2; q 3 4; q 1 1]] false consistent_nil Hc (Inv_initial [[q 1 4]; [q 1 2]; [q 3 4]; [q 1 10]] [] [[3; 0; 1; 2]%nat] 1%nat eq_refl) Hg
              ltac:(repeat constructor) Hl) as [raw [fin [integ [E [S _]]]]].
  exists raw, fin, integ. split; [exact E | exact S].
Qed.
