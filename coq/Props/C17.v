(* C17 — Density-estimation caching and size-dependent code paths are transparent.
   Property theorems only + non-vacuity.  Model: Model/DECache.v (matrix-entry cache old_R) on top of Model/Gram.v. *)
From Coq Require Import ZArith List QArith Qcanon Bool Lia.
From SG Require Import Base.QcUtil Model.Gram Model.DECache
  Proofs.GramHat Proofs.GramEntries Proofs.GramPD Proofs.GramNorm Proofs.DECacheP.
Import ListNotations.
Open Scope Qc_scope.

(* the cache key (sorted overlap widths, sorted node distances) determines the matrix entry, for any two pairs of
   hats that each come from one tensor grid (any dimension, any grids, also two different grids) *)
Theorem C17_cache_key_determines_value : forall ti tj ti' tj',
  good_pair ti tj -> good_pair ti' tj' -> overlap_key ti tj = overlap_key ti' tj' -> Rval ti tj = Rval ti' tj'.
Proof. exact cache_key_determines_value. Qed.
Print Assumptions C17_cache_key_determines_value.

(* all pairs of hats of a tensor grid over strictly increasing stripes of [0,1] are such pairs *)
Theorem C17_grid_pairs_good : forall stripes, Forall good_stripe stripes -> pairwise_good (grid_hats stripes).
Proof. exact grid_pairs_good. Qed.
Print Assumptions C17_grid_pairs_good.

(* one matrix: starting from ANY consistent cache the cached double loop returns the uncached matrix and leaves a
   consistent cache *)
Theorem C17_cached_matrix_transparent : forall lam pts c, consistent c -> pairwise_good pts ->
  fst (sym_matrix_cached c lam pts) = R_matrix_nonuniform pts lam /\ consistent (snd (sym_matrix_cached c lam pts)).
Proof. exact sym_matrix_cached_correct. Qed.
Print Assumptions C17_cached_matrix_transparent.

(* EVERY refinement history: the matrices of any sequence of grids built with one never-cleared cache equal the
   matrices built without cache *)
Theorem C17_cache_transparent_for_every_history : forall lam grids,
  Forall (Forall good_stripe) grids -> fst (history_cached [] lam grids) = history_plain lam grids.
Proof. exact cache_transparent_for_every_history. Qed.
Print Assumptions C17_cache_transparent_for_every_history.

(* the size-dependent hat evaluation variants agree (proved in C16; restated because C17 relies on them) *)
Theorem C17_hat_variants_agree : forall t x, proper t ->
  hat_cv t x = hat_scalar t x /\ (h_lo t <= x -> x <= h_hi t -> hat_vec t x = hat_scalar t x).
Proof. intros t x H. split; [exact (hat_cv_eq_scalar t x H) | exact (hat_vec_eq_scalar_in_support t x H)]. Qed.

(* NOT proved (checked by the correspondence of every run): equality of the large-grid right-hand-side loop
   (rhs_large / rhs_uniform_large) with the small-grid formula (rhs / rhs_uniform); transparency of the reuse of old
   right-hand sides (find_closest_old_B, data bins) - the latter is REFUTED on the code, see findings/C17.json. *)

(* ---- non-vacuity: two different grids sharing cache entries *)
Definition q (n : Z) (d : positive) : Qc := Q2Qc (n # d).
Example C17_nonvacuous :
  let g1 := [[q 0 1; q 1 4; q 1 2; q 1 1]; [q 0 1; q 1 2; q 1 1]] in
  let g2 := [[q 0 1; q 1 4; q 1 2; q 3 4; q 1 1]; [q 0 1; q 1 2; q 1 1]] in
  Forall (Forall good_stripe) [g1; g2] /\
  length (snd (history_cached [] 0 [g1; g2])) = 4%nat /\
  length (snd (history_cached [] 0 [g1])) = 3%nat /\
  fst (history_cached [] 0 [g1; g2]) = history_plain 0 [g1; g2].
Proof.
  cbv zeta. split; [|split; [|split]].
  - repeat constructor; try (unfold Qclt; vm_compute; reflexivity); try (apply Qc_is_canon; reflexivity).
  - vm_compute. reflexivity.
  - vm_compute. reflexivity.
  - apply cache_transparent_for_every_history.
    repeat constructor; try (unfold Qclt; vm_compute; reflexivity); try (apply Qc_is_canon; reflexivity).
Qed.
