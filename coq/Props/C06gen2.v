(* C06, second source-derived file: the bookkeeping methods of RefinementContainer (sparseSpACE/RefinementContainer.py) that CHANGE
   the container - update_values, prepare_remove, add, refine, apply_remove, reinit_new_objects - translated at every
   ./setup.sh C06 / ./check C06 by harness/translate/py2gallina_machine.py --target container into
   Gen/RefContainerMachineGen.v (attribute writes = record updates, list.pop = list surgery (Base/PySort.py_list_pop), sorted(..) and
   sorted(.., key=attrgetter('start')) = the stable insertion sorts of Base/PySort.v, a method call on an element writes the
   element back).  get_next_object_for_refinement is translated by the other front end (Gen/RefContainerGen.v, Props/C06gen.v).
   Statements only (proofs: Proofs/GenContainerEq.v).  Context: elements are the model's intervals, .start = i_start, and the
   element methods behave as the model assumes (refine() = the two children, no update information; reinit() keeps the data). *)
From Coq Require Import ZArith List Bool QArith Qcanon.
From SG Require Import Base.QcUtil Base.PyLib Base.PyNum Base.PyMachine Base.PySort Model.RefTree Gen.RefContainerMachineGen
  Proofs.GenContainerEq.
Import ListNotations.
Open Scope Z_scope.

(* the semantics library's sorted() is the model's sort - for ALL lists (both are the stable insertion sort), in particular on
   the duplicate-free start points of a refinement tree *)
Theorem C06_gen_sorted_by_start_is_model_sort : forall l, py_sorted_by i_start l = sort_by_start l.
Proof. exact py_sorted_by_start. Qed.
Theorem C06_gen_sorted_positions_is_model_sort : forall l, py_sorted_int (map Z.of_nat l) = map Z.of_nat (sort_nat l).
Proof. exact py_sorted_int_nat. Qed.

Section C06gen2.
  Variable St : Type.
  Variables T_update_info T_lmax_update : Type.
  Variable g_value : ival -> Qc.
  Variable g_evaluations : ival -> Z.
  Variable e_refine : ival -> option ((list ival * T_lmax_update * option T_update_info) * ival).
  Variable e_update : ival -> T_update_info -> option (unit * ival).
  Variable e_reinit : ival -> option (unit * ival).
  Variable lm : ival -> T_lmax_update.
  Hypothesis H_refine : forall iv, e_refine iv = Some ((children iv, lm iv, None), iv).
  Hypothesis H_reinit : forall iv, e_reinit iv = Some (tt, iv).
  Notation conc := (conc St).      (* the object holding the model container c, the accumulated value and evaluation count *)

  Theorem C06_gen_reinit_new_objects_is_model : forall st c v n fuel,
    RefinementContainer_reinit_new_objects St ival e_reinit fuel (conc st c v n) = Some (tt, conc st (cont_reinit c) (py_Z2Qc 0) 0).
  Proof. exact (gen_reinit_new_objects St e_reinit H_reinit). Qed.

  (* refine(object_id), object id inside the container (outside, Python raises IndexError while the model leaves the container
     unchanged) *)
  Theorem C06_gen_refine_is_model : forall st c v n i iv fuel, nth_error (c_objs c) i = Some iv ->
    RefinementContainer_refine St ival T_update_info T_lmax_update e_refine e_update fuel (conc st c v n) (Z.of_nat i) =
      Some ((lm iv, children iv), conc st (cont_refine c i) v n).
  Proof. exact (gen_refine_is_cont_refine St T_update_info T_lmax_update e_refine e_update lm H_refine). Qed.

  (* apply_remove(sort=True) = cont_apply_remove: queued positions popped in descending order (start of the new objects moved
     along), queue emptied, objects sorted by start.  Precondition: every queued position is inside the (shrinking) list when its
     turn comes - Python raises IndexError otherwise, the model's remove_at leaves the list alone *)
  Theorem C06_gen_apply_remove_is_model : forall st c v n fuel, valid_desc (rev (sort_nat (c_pop c))) (c_objs c) ->
    exists removed v' n',
      RefinementContainer_apply_remove St ival g_value g_evaluations i_start fuel (conc st c v n) true =
        Some (removed, conc st (cont_apply_remove c) v' n').
  Proof. exact (gen_apply_remove_is_model St g_value g_evaluations). Qed.
End C06gen2.
Print Assumptions C06_gen_apply_remove_is_model.
Print Assumptions C06_gen_sorted_by_start_is_model_sort.
Print Assumptions C06_gen_reinit_new_objects_is_model.
Print Assumptions C06_gen_refine_is_model.
