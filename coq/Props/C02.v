(* C02 — Standard combination equals the sparse-grid interpolant. Property theorems only. *)
From Coq Require Import ZArith List Bool QArith Qcanon Lia.
From SG Require Import Base.QcUtil Model.CombiScheme Model.StdCombi Proofs.SchemeBasics Proofs.SchemeIE Proofs.SchemeInv
  Proofs.SchemeStd Proofs.CombiAbstract Proofs.StdGrid Proofs.StdCombiSum Proofs.NodalExact Proofs.StdNodal.
Import ListNotations.
Local Open Scope Z_scope.

(* the reported number of points of a 1D grid matches the points (and weights) it returns, every level >= 1, both flags *)
Theorem C02_num_points_match : forall bd a b l, 1 <= l ->
  Z.of_nat (length (grid1 bd a b l)) = num_points_1d bd l /\ Z.of_nat (length (weights1 bd a b l)) = num_points_1d bd l.
Proof. intros bd a b l H. split; [exact (grid1_length bd a b l H) | exact (weights1_length bd a b l H)]. Qed.
Print Assumptions C02_num_points_match.

(* the uniform grids are nested, with and without boundary points, every box *)
Theorem C02_grids_nested : forall bd a b l l', 0 <= l -> l <= l' -> incl (grid1 bd a b l) (grid1 bd a b l').
Proof. exact grid1_nested. Qed.
Print Assumptions C02_grids_nested.

(* membership in a component grid (cross product of the 1D grids) is the per-dimension membership used below *)
Theorem C02_comp_points_membership : forall bd a b l x, length l = length a -> length b = length a ->
  (In x (comp_points bd a b l) <-> in_comp bd a b x l = true).
Proof. exact comp_points_in_comp. Qed.

(* every point of the union of the component grids has component-grid coefficients summing to exactly 1:
   for every reachable state of the adaptive scheme (any dimension, any 0 <= lmin <= lmax, any history) ... *)
Theorem C02_point_coeff_sum_one_adaptive : forall bd a b s x l0 c0,
  Inv s -> 0 <= s_lmin s ->
  In (l0, c0) (combi_scheme_adaptive s) -> in_comp bd a b x l0 = true ->
  coeff_sum bd a b (combi_scheme_adaptive s) x = 1.
Proof. exact adaptive_point_coeff_sum_one. Qed.
Print Assumptions C02_point_coeff_sum_one_adaptive.

(* ... and for the closed-form scheme StandardCombi uses, whenever the verified checker std_perm_check accepts
   (d, lmin, lmax) (it is evaluated by the extracted model on every configuration a run explores; it holds for all
   d <= 5, lmin <= 3, lmax - lmin <= 5 by C01_std_equals_adaptive_init_bounded) *)
Theorem C02_point_coeff_sum_one_closed_form : forall bd a b n lmin lmax x l0 c0,
  std_perm_check (S n) lmin lmax = true ->
  In (l0, c0) (combi_scheme_standard (S n) lmin lmax) -> in_comp bd a b x l0 = true ->
  coeff_sum bd a b (combi_scheme_standard (S n) lmin lmax) x = 1.
Proof. exact std_point_coeff_sum_one. Qed.
Print Assumptions C02_point_coeff_sum_one_closed_form.

(* the union of the component grids contains every point of the sparse grid of the index set *)
Theorem C02_union_contains_sparse_grid : forall bd a b s x k,
  Inv s -> 0 <= s_lmin s -> In k (index_set s) -> in_comp bd a b x k = true ->
  exists l c, In (l, c) (combi_scheme_adaptive s) /\ c <> 0 /\ in_comp bd a b x l = true.
Proof. exact adaptive_union_contains_sparse_grid. Qed.
Print Assumptions C02_union_contains_sparse_grid.

(* NODAL EXACTNESS: the combined interpolant reproduces an ARBITRARY function f at every point of the combined grid,
   for every box a < b, boundary points on or off (values on the boundary taken as zero when off), every dimension;
   for every reachable adaptive scheme ... *)
Theorem C02_nodal_exact_adaptive : forall bd a b s (f : list Qc -> Qc) x l0 c0,
  Inv s -> 0 <= s_lmin s -> box_ok a b -> length a = s_dim s -> length b = s_dim s -> length x = s_dim s ->
  In (l0, c0) (combi_scheme_adaptive s) -> in_comp bd a b x l0 = true ->
  combi_interp bd a b (combi_scheme_adaptive s) f x = f x.
Proof. exact adaptive_nodal_exact. Qed.
Print Assumptions C02_nodal_exact_adaptive.

(* ... and for the closed-form scheme of StandardCombi whenever the verified checker accepts (d, lmin, lmax) *)
Theorem C02_nodal_exact_closed_form : forall bd a b n lmin lmax (f : list Qc -> Qc) x l0 c0,
  std_perm_check (S n) lmin lmax = true ->
  box_ok a b -> length a = S n -> length b = S n -> length x = S n ->
  In (l0, c0) (combi_scheme_standard (S n) lmin lmax) -> in_comp bd a b x l0 = true ->
  combi_interp bd a b (combi_scheme_standard (S n) lmin lmax) f x = f x.
Proof. exact std_nodal_exact. Qed.
Print Assumptions C02_nodal_exact_closed_form.

(* the abstract statement both are instances of (any point type, any nested family with the Kronecker property) *)
Theorem C02_nodal_exact_abstract : forall (X : Type) lmin idx cs (Es : list (Z -> fnl X)) (M : nat),
  (forall l c, In (l, c) cs -> length l = length Es /\ Forall (fun v => lmin <= v <= lmin + Z.of_nat M) l) ->
  (forall l, length l = length Es -> Forall (fun v => lmin <= v) l -> dominating_sum cs l = if mem l idx then 1 else 0) ->
  (forall k j, In k idx -> length j = length k -> Forall2 (fun a b => lmin <= a <= b) j k -> In j idx) ->
  forall ks x (f : list X -> Qc), krons X lmin Es ks x -> In ks idx -> Forall (fun v => lmin <= v <= lmin + Z.of_nat M) ks ->
  combined X cs Es f = f x.
Proof. exact nodal_exact. Qed.
Print Assumptions C02_nodal_exact_abstract.

(* non-vacuity: d=2, lmin=1, lmax=3 on [0,1]x[0,2]; the point (1/4, 1) lies in grid (2,1); the checker accepts *)
Example C02_nonvacuous :
  std_perm_check 2 1 3 = true /\
  In ([2; 1], -1) (combi_scheme_standard 2 1 3) /\
  in_comp true [Q2Qc 0; Q2Qc 0] [Q2Qc 1; Q2Qc 2] [Q2Qc (1 # 4); Q2Qc 1] [2; 1] = true /\
  coeff_sum true [Q2Qc 0; Q2Qc 0] [Q2Qc 1; Q2Qc 2] (combi_scheme_standard 2 1 3) [Q2Qc (1 # 4); Q2Qc 1] = 1.
Proof. vm_compute. split; [reflexivity|]. split; [|split; reflexivity]. right. right. right. right. left. reflexivity. Qed.
