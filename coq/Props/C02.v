(* C02 — Standard combination equals the sparse-grid interpolant. Property theorems only. *)
From Coq Require Import ZArith List Bool QArith Qcanon Lia.
From SG Require Import Base.QcUtil Model.CombiScheme Model.StdCombi Proofs.SchemeBasics Proofs.SchemeIE Proofs.SchemeInv
  Proofs.SchemeStd Proofs.CombiAbstract Proofs.StdGrid Proofs.StdCombiSum Proofs.NodalExact Proofs.StdNodal
  Proofs.SchemeClosedForm Proofs.StdGeneral.
Import ListNotations.
Local Open Scope Z_scope.

(* the reported number of points of a 1D grid matches the points (and weights) it returns, every level >= 1, both flags *)
Theorem C02_num_points_match : forall bd a b l, 1 <= l ->
  Z.of_nat (length (grid1 bd a b l)) = num_points_1d bd l /\ Z.of_nat (length (weights1 bd a b l)) = num_points_1d bd l.
Proof. intros bd a b l H. split; [exact (grid1_length bd a b l H) | exact (weights1_length bd a b l H)]. Qed.
Print Assumptions C02_num_points_match.

(* the uniform grids are nested, with and without boundary points, every box *)
Theorem C02_grids_nested : forall bd a b l l', 0 <= l -> l <= l' -> incl (grid1 bd a b l) (grid1 bd a b l').
Proof. exact grid1_nested. Qed.
Print Assumptions C02_grids_nested.

(* membership in a component grid (cross product of the 1D grids) is the per-dimension membership used below *)
Theorem C02_comp_points_membership : forall bd a b l x, length l = length a -> length b = length a ->
  (In x (comp_points bd a b l) <-> in_comp bd a b x l = true).
Proof. exact comp_points_in_comp. Qed.

(* every point of the union of the component grids has component-grid coefficients summing to exactly 1:
   for every reachable state of the adaptive scheme (any dimension, any 0 <= lmin <= lmax, any history) ... *)
Theorem C02_point_coeff_sum_one_adaptive : forall bd a b s x l0 c0,
  Inv s -> 0 <= s_lmin s ->
  In (l0, c0) (combi_scheme_adaptive s) -> in_comp bd a b x l0 = true ->
  coeff_sum bd a b (combi_scheme_adaptive s) x = 1.
Proof. exact adaptive_point_coeff_sum_one. Qed.
Print Assumptions C02_point_coeff_sum_one_adaptive.

(* ... and for the closed-form scheme StandardCombi uses, whenever the verified checker std_perm_check accepts
   (d, lmin, lmax) (it is evaluated by the extracted model on every configuration a run explores; it holds for all
   d <= 5, lmin <= 3, lmax - lmin <= 5 by C01_std_equals_adaptive_init_bounded) *)
Theorem C02_point_coeff_sum_one_closed_form : forall bd a b n lmin lmax x l0 c0,
  std_perm_check (S n) lmin lmax = true ->
  In (l0, c0) (combi_scheme_standard (S n) lmin lmax) -> in_comp bd a b x l0 = true ->
  coeff_sum bd a b (combi_scheme_standard (S n) lmin lmax) x = 1.
Proof. exact std_point_coeff_sum_one. Qed.
Print Assumptions C02_point_coeff_sum_one_closed_form.

(* ... and GENERAL: for the closed-form scheme of every dimension S n and every 0 <= lmin <= lmax, without the checker
   (by C01_std_equals_adaptive_init, Proofs/SchemeClosedForm.v) *)
Theorem C02_point_coeff_sum_one_closed_form_general : forall bd a b n lmin lmax x l0 c0,
  0 <= lmin <= lmax ->
  In (l0, c0) (combi_scheme_standard (S n) lmin lmax) -> in_comp bd a b x l0 = true ->
  coeff_sum bd a b (combi_scheme_standard (S n) lmin lmax) x = 1.
Proof. exact std_point_coeff_sum_one_general. Qed.
Print Assumptions C02_point_coeff_sum_one_closed_form_general.

(* the union of the component grids contains every point of the sparse grid of the index set *)
Theorem C02_union_contains_sparse_grid : forall bd a b s x k,
  Inv s -> 0 <= s_lmin s -> In k (index_set s) -> in_comp bd a b x k = true ->
  exists l c, In (l, c) (combi_scheme_adaptive s) /\ c <> 0 /\ in_comp bd a b x l = true.
Proof. exact adaptive_union_contains_sparse_grid. Qed.
Print Assumptions C02_union_contains_sparse_grid.

(* NODAL EXACTNESS: the combined interpolant reproduces an ARBITRARY function f at every point of the combined grid,
   for every box a < b, boundary points on or off (values on the boundary taken as zero when off), every dimension;
   for every reachable adaptive scheme ... *)
Theorem C02_nodal_exact_adaptive : forall bd a b s (f : list Qc -> Qc) x l0 c0,
  Inv s -> 0 <= s_lmin s -> box_ok a b -> length a = s_dim s -> length b = s_dim s -> length x = s_dim s ->
  In (l0, c0) (combi_scheme_adaptive s) -> in_comp bd a b x l0 = true ->
  combi_interp bd a b (combi_scheme_adaptive s) f x = f x.
Proof. exact adaptive_nodal_exact. Qed.
Print Assumptions C02_nodal_exact_adaptive.

(* ... and for the closed-form scheme of StandardCombi whenever the verified checker accepts (d, lmin, lmax) *)
Theorem C02_nodal_exact_closed_form : forall bd a b n lmin lmax (f : list Qc -> Qc) x l0 c0,
  std_perm_check (S n) lmin lmax = true ->
  box_ok a b -> length a = S n -> length b = S n -> length x = S n ->
  In (l0, c0) (combi_scheme_standard (S n) lmin lmax) -> in_comp bd a b x l0 = true ->
  combi_interp bd a b (combi_scheme_standard (S n) lmin lmax) f x = f x.
Proof. exact std_nodal_exact. Qed.
Print Assumptions C02_nodal_exact_closed_form.

(* ... and GENERAL: closed-form scheme, every dimension S n, every 0 <= lmin <= lmax, without the checker *)
Theorem C02_nodal_exact_closed_form_general : forall bd a b n lmin lmax (f : list Qc -> Qc) x l0 c0,
  0 <= lmin <= lmax ->
  box_ok a b -> length a = S n -> length b = S n -> length x = S n ->
  In (l0, c0) (combi_scheme_standard (S n) lmin lmax) -> in_comp bd a b x l0 = true ->
  combi_interp bd a b (combi_scheme_standard (S n) lmin lmax) f x = f x.
Proof. exact std_nodal_exact_general. Qed.
Print Assumptions C02_nodal_exact_closed_form_general.

(* the abstract statement both are instances of (any point type, any nested family with the Kronecker property) *)
Theorem C02_nodal_exact_abstract : forall (X : Type) lmin idx cs (Es : list (Z -> fnl X)) (M : nat),
  (forall l c, In (l, c) cs -> length l = length Es /\ Forall (fun v => lmin <= v <= lmin + Z.of_nat M) l) ->
  (forall l, length l = length Es -> Forall (fun v => lmin <= v) l -> dominating_sum cs l = if mem l idx then 1 else 0) ->
  (forall k j, In k idx -> length j = length k -> Forall2 (fun a b => lmin <= a <= b) j k -> In j idx) ->
  forall ks x (f : list X -> Qc), krons X lmin Es ks x -> In ks idx -> Forall (fun v => lmin <= v <= lmin + Z.of_nat M) ks ->
  combined X cs Es f = f x.
Proof. exact nodal_exact. Qed.
Print Assumptions C02_nodal_exact_abstract.

(* non-vacuity: d=2, lmin=1, lmax=3 on [0,1]x[0,2]; the point (1/4, 1) lies in grid (2,1); the checker accepts *)
Example C02_nonvacuous :
  std_perm_check 2 1 3 = true /\
  In ([2; 1], -1) (combi_scheme_standard 2 1 3) /\
  in_comp true [Q2Qc 0; Q2Qc 0] [Q2Qc 1; Q2Qc 2] [Q2Qc (1 # 4); Q2Qc 1] [2; 1] = true /\
  coeff_sum true [Q2Qc 0; Q2Qc 0] [Q2Qc 1; Q2Qc 2] (combi_scheme_standard 2 1 3) [Q2Qc (1 # 4); Q2Qc 1] = 1.
Proof. vm_compute. split; [reflexivity|]. split; [|split; reflexivity]. right. right. right. right. left. reflexivity. Qed.

(* ================= EXACTNESS ON THE SPARSE-GRID SPACE (hierarchical hat functions) =================
   Proofs/HatFacts.v, StdHier1D.v, StdHierTrap.v, StdHierTensor.v, StdHier.v, StdHierGeneral.v.
   phi = fun_hat a b tau i is the tensor hat function of level vector tau and index vector i on the box [a,b].
   hier_idx bd lmin tau_d i_d: 0 <= tau_d, 0 <= i_d <= 2^tau_d, interior index when boundary points are off, and i_d odd
   (hierarchical) unless tau_d <= lmin (all nodal hats of the coarsest level, boundary hats included when bd = true).
   eff_level lmin tau = max(tau, lmin) componentwise. in_box a b x: a_d <= x_d <= b_d - x is ANY point of the box. *)
From SG Require Import Proofs.HatFacts Proofs.StdHier1D Proofs.StdHierTrap Proofs.StdHierTensor Proofs.StdHier Proofs.StdHierGeneral.

(* the general identity: combined interpolant of phi = [eff_level in index set] * phi, at every point of the box, for every
   reachable state of the adaptive scheme (any dimension, any history) *)
Theorem C02_hier_interp_indicator : forall bd a b s tau i x,
  Inv s -> 0 <= s_lmin s -> box_ok a b -> length a = s_dim s -> length tau = s_dim s ->
  Forall2 (hier_idx bd (s_lmin s)) tau i -> in_box a b x ->
  combi_interp bd a b (combi_scheme_adaptive s) (fun_hat a b tau i) x
  = if mem (eff_level (s_lmin s) tau) (index_set s) then fun_hat a b tau i x else Q2Qc 0.
Proof. exact hier_interp_indicator. Qed.
Print Assumptions C02_hier_interp_indicator.

Theorem C02_hier_interp_exact : forall bd a b s tau i x,
  Inv s -> 0 <= s_lmin s -> box_ok a b -> length a = s_dim s -> length tau = s_dim s ->
  Forall2 (hier_idx bd (s_lmin s)) tau i -> In (eff_level (s_lmin s) tau) (index_set s) -> in_box a b x ->
  combi_interp bd a b (combi_scheme_adaptive s) (fun_hat a b tau i) x = fun_hat a b tau i x.
Proof. exact hier_interp_exact. Qed.
Print Assumptions C02_hier_interp_exact.

(* quadrature: combined integral of phi = [eff_level in index set] * exact integral of phi (hat_integral: product of the 1D
   integrals (b_d-a_d)/2^tau_d, halved for the two boundary hats) *)
Theorem C02_hier_integral_indicator : forall bd a b s tau i,
  Inv s -> 0 <= s_lmin s -> box_ok a b -> length a = s_dim s -> length tau = s_dim s ->
  Forall2 (hier_idx bd (s_lmin s)) tau i ->
  combi_integral bd a b (combi_scheme_adaptive s) (fun_hat a b tau i)
  = if mem (eff_level (s_lmin s) tau) (index_set s) then hat_integral a b tau i else Q2Qc 0.
Proof. exact hier_integral_indicator. Qed.
Print Assumptions C02_hier_integral_indicator.

Theorem C02_hier_integral_exact : forall bd a b s tau i,
  Inv s -> 0 <= s_lmin s -> box_ok a b -> length a = s_dim s -> length tau = s_dim s ->
  Forall2 (hier_idx bd (s_lmin s)) tau i -> In (eff_level (s_lmin s) tau) (index_set s) ->
  combi_integral bd a b (combi_scheme_adaptive s) (fun_hat a b tau i) = hat_integral a b tau i.
Proof. exact hier_integral_exact. Qed.
Print Assumptions C02_hier_integral_exact.

(* interior hats (1 <= i_d <= 2^tau_d - 1): the integral is the product of the mesh widths (b_d - a_d)/2^tau_d *)
Theorem C02_hier_integral_exact_interior : forall bd a b s tau i,
  Inv s -> 0 <= s_lmin s -> box_ok a b -> length a = s_dim s -> length tau = s_dim s ->
  Forall2 (hint_idx (s_lmin s)) tau i -> In (eff_level (s_lmin s) tau) (index_set s) ->
  combi_integral bd a b (combi_scheme_adaptive s) (fun_hat a b tau i) = hat_volume a b tau.
Proof. exact hier_integral_exact_interior. Qed.
Print Assumptions C02_hier_integral_exact_interior.

(* closed-form scheme of StandardCombi, through the verified checker ... *)
Theorem C02_hier_interp_exact_closed_form : forall bd a b n lmin lmax tau i x,
  std_perm_check (S n) lmin lmax = true -> box_ok a b -> length a = S n -> length tau = S n ->
  Forall2 (hier_idx bd lmin) tau i -> In (eff_level lmin tau) (std_index_set (S n) lmin lmax) -> in_box a b x ->
  combi_interp bd a b (combi_scheme_standard (S n) lmin lmax) (fun_hat a b tau i) x = fun_hat a b tau i x.
Proof. exact std_hier_interp_exact. Qed.
Print Assumptions C02_hier_interp_exact_closed_form.

Theorem C02_hier_integral_exact_closed_form : forall bd a b n lmin lmax tau i,
  std_perm_check (S n) lmin lmax = true -> box_ok a b -> length a = S n -> length tau = S n ->
  Forall2 (hier_idx bd lmin) tau i -> In (eff_level lmin tau) (std_index_set (S n) lmin lmax) ->
  combi_integral bd a b (combi_scheme_standard (S n) lmin lmax) (fun_hat a b tau i) = hat_integral a b tau i.
Proof. exact std_hier_integral_exact. Qed.
Print Assumptions C02_hier_integral_exact_closed_form.

(* ... and for EVERY dimension and every 0 <= lmin <= lmax without the checker (general permutation theorem of
   Proofs/SchemeClosedForm.v); the space is explicit: |max(tau,lmin)|_1 <= lmax - lmin + d*lmin. Indicator form: *)
Theorem C02_hier_interp_indicator_closed_form_general : forall bd a b n lmin lmax tau i x,
  0 <= lmin <= lmax -> box_ok a b -> length a = S n -> length tau = S n ->
  Forall2 (hier_idx bd lmin) tau i -> in_box a b x ->
  combi_interp bd a b (combi_scheme_standard (S n) lmin lmax) (fun_hat a b tau i) x
  = if std_in_space n lmin lmax tau then fun_hat a b tau i x else Q2Qc 0.
Proof. exact std_hier_interp_indicator_general. Qed.
Print Assumptions C02_hier_interp_indicator_closed_form_general.

Theorem C02_hier_interp_exact_closed_form_general : forall bd a b n lmin lmax tau i x,
  0 <= lmin <= lmax -> box_ok a b -> length a = S n -> length tau = S n ->
  Forall2 (hier_idx bd lmin) tau i -> sumZ (eff_level lmin tau) <= lmax - lmin + Z.of_nat (S n) * lmin -> in_box a b x ->
  combi_interp bd a b (combi_scheme_standard (S n) lmin lmax) (fun_hat a b tau i) x = fun_hat a b tau i x.
Proof. exact std_hier_interp_exact_general. Qed.
Print Assumptions C02_hier_interp_exact_closed_form_general.

Theorem C02_hier_integral_indicator_closed_form_general : forall bd a b n lmin lmax tau i,
  0 <= lmin <= lmax -> box_ok a b -> length a = S n -> length tau = S n ->
  Forall2 (hier_idx bd lmin) tau i ->
  combi_integral bd a b (combi_scheme_standard (S n) lmin lmax) (fun_hat a b tau i)
  = if std_in_space n lmin lmax tau then hat_integral a b tau i else Q2Qc 0.
Proof. exact std_hier_integral_indicator_general. Qed.
Print Assumptions C02_hier_integral_indicator_closed_form_general.

Theorem C02_hier_integral_exact_closed_form_general : forall bd a b n lmin lmax tau i,
  0 <= lmin <= lmax -> box_ok a b -> length a = S n -> length tau = S n ->
  Forall2 (hier_idx bd lmin) tau i -> sumZ (eff_level lmin tau) <= lmax - lmin + Z.of_nat (S n) * lmin ->
  combi_integral bd a b (combi_scheme_standard (S n) lmin lmax) (fun_hat a b tau i) = hat_integral a b tau i.
Proof. exact std_hier_integral_exact_general. Qed.
Print Assumptions C02_hier_integral_exact_closed_form_general.

Theorem C02_hier_integral_exact_interior_closed_form_general : forall bd a b n lmin lmax tau i,
  0 <= lmin <= lmax -> box_ok a b -> length a = S n -> length tau = S n ->
  Forall2 (hint_idx lmin) tau i -> sumZ (eff_level lmin tau) <= lmax - lmin + Z.of_nat (S n) * lmin ->
  combi_integral bd a b (combi_scheme_standard (S n) lmin lmax) (fun_hat a b tau i) = hat_volume a b tau.
Proof. exact std_hier_integral_exact_interior_general. Qed.
Print Assumptions C02_hier_integral_exact_interior_closed_form_general.

(* the 1D facts and the abstract inclusion-exclusion step the above are built from *)
Theorem C02_hat1_interp_fine : forall a b tau i l x, (a < b)%Qc -> 0 <= tau -> tau <= l -> (a <= x)%Qc -> (x <= b)%Qc ->
  interp1 (grid1_full a b l) (hat1 a b tau i) x = hat1 a b tau i x.
Proof. exact hat1_interp_fine. Qed.
Print Assumptions C02_hat1_interp_fine.
Theorem C02_hat1_trap_fine : forall bd a b tau i l, (a < b)%Qc -> 0 <= tau -> tau <= l -> 1 <= i <= 2 ^ tau - 1 ->
  dotQ (map (hat1 a b tau i) (grid1 bd a b l)) (weights1 bd a b l) = step a b tau.
Proof. exact hat1_trap_fine. Qed.
Print Assumptions C02_hat1_trap_fine.
Theorem C02_hier_exact_abstract : forall cs tau (V : lv -> Qc) v,
  (forall l c, In (l, c) cs -> V l = if lv_geb l tau then v else Q2Qc 0) ->
  sumQ (map (fun kv => (qc_of_Z (snd kv) * V (fst kv))%Qc) cs) = (qc_of_Z (dominating_sum cs tau) * v)%Qc.
Proof. exact combined_indicator. Qed.
Print Assumptions C02_hier_exact_abstract.

(* non-vacuity: d=2, lmin=1, lmax=3 on [0,1]x[0,2], no boundary points; the hierarchical hat of level (2,2), index (1,3)
   satisfies all hypotheses (checker form and general form); the evaluation point (1/3, 9/7) is NOT a grid point of any
   level; the value there is 8/21 <> 0, the integral is 1/4 * 1/2 = 1/8; and a hat outside the space, level (3,2), is
   annihilated (indicator false) *)
Example C02_hier_nonvacuous :
  std_perm_check 2 1 3 = true /\ 0 <= 1 <= 3 /\
  box_ok [Q2Qc 0; Q2Qc 0] [Q2Qc 1; Q2Qc 2] /\
  Forall2 (hier_idx false 1) [2; 2] [1; 3] /\ Forall2 (hint_idx 1) [2; 2] [1; 3] /\
  In (eff_level 1 [2; 2]) (std_index_set 2 1 3) /\ sumZ (eff_level 1 [2; 2]) <= 3 - 1 + Z.of_nat 2 * 1 /\
  in_box [Q2Qc 0; Q2Qc 0] [Q2Qc 1; Q2Qc 2] [Q2Qc (1 # 3); Q2Qc (9 # 7)] /\
  fun_hat [Q2Qc 0; Q2Qc 0] [Q2Qc 1; Q2Qc 2] [2; 2] [1; 3] [Q2Qc (1 # 3); Q2Qc (9 # 7)] = Q2Qc (8 # 21) /\
  combi_interp false [Q2Qc 0; Q2Qc 0] [Q2Qc 1; Q2Qc 2] (combi_scheme_standard 2 1 3)
    (fun_hat [Q2Qc 0; Q2Qc 0] [Q2Qc 1; Q2Qc 2] [2; 2] [1; 3]) [Q2Qc (1 # 3); Q2Qc (9 # 7)] = Q2Qc (8 # 21) /\
  hat_volume [Q2Qc 0; Q2Qc 0] [Q2Qc 1; Q2Qc 2] [2; 2] = Q2Qc (1 # 8) /\
  std_in_space 1 1 3 [3; 2] = false.
Proof.
  split; [vm_compute; reflexivity|]. split; [lia|].
  split; [repeat constructor|].
  split; [constructor; [|constructor; [|constructor]];
          (split; [lia|split; [simpl; lia|split; [intros _; simpl; lia|left; reflexivity]]])|].
  split; [constructor; [|constructor; [|constructor]]; (split; [lia|split; [simpl; lia|left; reflexivity]])|].
  split; [apply mem_In; vm_compute; reflexivity|]. split; [vm_compute; discriminate|].
  split; [simpl; repeat split; vm_compute; discriminate|].
  split; [apply Qc_is_canon; vm_compute; reflexivity|].
  split; [apply Qc_is_canon; vm_compute; reflexivity|].
  split; [apply Qc_is_canon; vm_compute; reflexivity|]. vm_compute. reflexivity.
Qed.
