(* C02 — Standard combination equals the sparse-grid interpolant. Property theorems only. *)
From Coq Require Import ZArith List Bool QArith Qcanon Lia.
From SG Require Import Base.QcUtil Model.CombiScheme Model.StdCombi Proofs.SchemeBasics Proofs.SchemeIE Proofs.SchemeInv
  Proofs.SchemeStd Proofs.CombiAbstract Proofs.StdGrid Proofs.StdCombiSum Proofs.NodalExact Proofs.StdNodal
  Proofs.SchemeClosedForm Proofs.StdGeneral.
Import ListNotations.
Local Open Scope Z_scope.

(* the reported number of points of a 1D grid matches the points (and weights) it returns, every level >= 1, both flags *)
Theorem C02_num_points_match : forall bd a b l, 1 <= l ->
  Z.of_nat (length (grid1 bd a b l)) = num_points_1d bd l /\ Z.of_nat (length (weights1 bd a b l)) = num_points_1d bd l.
Proof. intros bd a b l H. split; [exact (grid1_length bd a b l H) | exact (weights1_length bd a b l H)]. Qed.
Print Assumptions C02_num_points_match.

(* the uniform grids are nested, with and without boundary points, every box *)
Theorem C02_grids_nested : forall bd a b l l', 0 <= l -> l <= l' -> incl (grid1 bd a b l) (grid1 bd a b l').
Proof. exact grid1_nested. Qed.
Print Assumptions C02_grids_nested.

(* membership in a component grid (cross product of the 1D grids) is the per-dimension membership used below *)
Theorem C02_comp_points_membership : forall bd a b l x, length l = length a -> length b = length a ->
  (In x (comp_points bd a b l) <-> in_comp bd a b x l = true).
Proof. exact comp_points_in_comp. Qed.

(* every point of the union of the component grids has component-grid coefficients summing to exactly 1:
   for every reachable state of the adaptive scheme (any dimension, any 0 <= lmin <= lmax, any history) ... *)
Theorem C02_point_coeff_sum_one_adaptive : forall bd a b s x l0 c0,
  Inv s -> 0 <= s_lmin s ->
  In (l0, c0) (combi_scheme_adaptive s) -> in_comp bd a b x l0 = true ->
  coeff_sum bd a b (combi_scheme_adaptive s) x = 1.
Proof. exact adaptive_point_coeff_sum_one. Qed.
Print Assumptions C02_point_coeff_sum_one_adaptive.

(* ... and for the closed-form scheme StandardCombi uses, whenever the verified checker std_perm_check accepts
   (d, lmin, lmax) (it is evaluated by the extracted model on every configuration a run explores; it holds for all
   d <= 5, lmin <= 3, lmax - lmin <= 5 by C01_std_equals_adaptive_init_bounded) *)
Theorem C02_point_coeff_sum_one_closed_form : forall bd a b n lmin lmax x l0 c0,
  std_perm_check (S n) lmin lmax = true ->
  In (l0, c0) (combi_scheme_standard (S n) lmin lmax) -> in_comp bd a b x l0 = true ->
  coeff_sum bd a b (combi_scheme_standard (S n) lmin lmax) x = 1.
Proof. exact std_point_coeff_sum_one. Qed.
Print Assumptions C02_point_coeff_sum_one_closed_form.

(* ... and GENERAL: for the closed-form scheme of every dimension S n and every 0 <= lmin <= lmax, without the checker
   (by C01_std_equals_adaptive_init, Proofs/SchemeClosedForm.v) *)
Theorem C02_point_coeff_sum_one_closed_form_general : forall bd a b n lmin lmax x l0 c0,
  0 <= lmin <= lmax ->
  In (l0, c0) (combi_scheme_standard (S n) lmin lmax) -> in_comp bd a b x l0 = true ->
  coeff_sum bd a b (combi_scheme_standard (S n) lmin lmax) x = 1.
Proof. exact std_point_coeff_sum_one_general. Qed.
Print Assumptions C02_point_coeff_sum_one_closed_form_general.

(* the union of the component grids contains every point of the sparse grid of the index set *)
Theorem C02_union_contains_sparse_grid : forall bd a b s x k,
  Inv s -> 0 <= s_lmin s -> In k (index_set s) -> in_comp bd a b x k = true ->
  exists l c, In (l, c) (combi_scheme_adaptive s) /\ c <> 0 /\ in_comp bd a b x l = true.
Proof. exact adaptive_union_contains_sparse_grid. Qed.
Print Assumptions C02_union_contains_sparse_grid.

(* NODAL EXACTNESS: the combined interpolant reproduces an ARBITRARY function f at every point of the combined grid,
   for every box a < b, boundary points on or off (values on the boundary taken as zero when off), every dimension;
   for every reachable adaptive scheme ... *)
Theorem C02_nodal_exact_adaptive : forall bd a b s (f : list Qc -> Qc) x l0 c0,
  Inv s -> 0 <= s_lmin s -> box_ok a b -> length a = s_dim s -> length b = s_dim s -> length x = s_dim s ->
  In (l0, c0) (combi_scheme_adaptive s) -> in_comp bd a b x l0 = true ->
  combi_interp bd a b (combi_scheme_adaptive s) f x = f x.
Proof. exact adaptive_nodal_exact. Qed.
Print Assumptions C02_nodal_exact_adaptive.

(* ... and for the closed-form scheme of StandardCombi whenever the verified checker accepts (d, lmin, lmax) *)
Theorem C02_nodal_exact_closed_form : forall bd a b n lmin lmax (f : list Qc -> Qc) x l0 c0,
  std_perm_check (S n) lmin lmax = true ->
  box_ok a b -> length a = S n -> length b = S n -> length x = S n ->
  In (l0, c0) (combi_scheme_standard (S n) lmin lmax) -> in_comp bd a b x l0 = true ->
  combi_interp bd a b (combi_scheme_standard (S n) lmin lmax) f x = f x.
Proof. exact std_nodal_exact. Qed.
Print Assumptions C02_nodal_exact_closed_form.

(* ... and GENERAL: closed-form scheme, every dimension S n, every 0 <= lmin <= lmax, without the checker *)
Theorem C02_nodal_exact_closed_form_general : forall bd a b n lmin lmax (f : list Qc -> Qc) x l0 c0,
  0 <= lmin <= lmax ->
  box_ok a b -> length a = S n -> length b = S n -> length x = S n ->
  In (l0, c0) (combi_scheme_standard (S n) lmin lmax) -> in_comp bd a b x l0 = true ->
  combi_interp bd a b (combi_scheme_standard (S n) lmin lmax) f x = f x.
Proof. exact std_nodal_exact_general. Qed.
Print Assumptions C02_nodal_exact_closed_form_general.

(* the abstract statement both are instances of (any point type, any nested family with the Kronecker property) *)
Theorem C02_nodal_exact_abstract : forall (X : Type) lmin idx cs (Es : list (Z -> fnl X)) (M : nat),
  (forall l c, In (l, c) cs -> length l = length Es /\ Forall (fun v => lmin <= v <= lmin + Z.of_nat M) l) ->
  (forall l, length l = length Es -> Forall (fun v => lmin <= v) l -> dominating_sum cs l = if mem l idx then 1 else 0) ->
  (forall k j, In k idx -> length j = length k -> Forall2 (fun a b => lmin <= a <= b) j k -> In j idx) ->
  forall ks x (f : list X -> Qc), krons X lmin Es ks x -> In ks idx -> Forall (fun v => lmin <= v <= lmin + Z.of_nat M) ks ->
  combined X cs Es f = f x.
Proof. exact nodal_exact. Qed.
Print Assumptions C02_nodal_exact_abstract.

(* non-vacuity: d=2, lmin=1, lmax=3 on [0,1]x[0,2]; the point (1/4, 1) lies in grid (2,1); the checker accepts *)
Example C02_nonvacuous :
  std_perm_check 2 1 3 = true /\
  In ([2; 1], -1) (combi_scheme_standard 2 1 3) /\
  in_comp true [Q2Qc 0; Q2Qc 0] [Q2Qc 1; Q2Qc 2] [Q2Qc (1 # 4); Q2Qc 1] [2; 1] = true /\
  coeff_sum true [Q2Qc 0; Q2Qc 0] [Q2Qc 1; Q2Qc 2] (combi_scheme_standard 2 1 3) [Q2Qc (1 # 4); Q2Qc 1] = 1.
Proof. vm_compute. split; [reflexivity|]. split; [|split; reflexivity]. right. right. right. right. left. reflexivity. Qed.

(* ================= EXACTNESS ON THE SPARSE-GRID SPACE (hierarchical hat functions) =================
   Proofs/HatFacts.v, StdHier1D.v, StdHierTrap.v, StdHierTensor.v, StdHier.v, StdHierGeneral.v.
   phi = fun_hat a b tau i is the tensor hat function of level vector tau and index vector i on the box [a,b].
   hier_idx bd lmin tau_d i_d: 0 <= tau_d, 0 <= i_d <= 2^tau_d, interior index when boundary points are off, and i_d odd
   (hierarchical) unless tau_d <= lmin (all nodal hats of the coarsest level, boundary hats included when bd = true).
   eff_level lmin tau = max(tau, lmin) componentwise. in_box a b x: a_d <= x_d <= b_d - x is ANY point of the box. *)
From SG Require Import Proofs.HatFacts Proofs.StdHier1D Proofs.StdHierTrap Proofs.StdHierTensor Proofs.StdHier Proofs.StdHierGeneral.

(* the general identity: combined interpolant of phi = [eff_level in index set] * phi, at every point of the box, for every
   reachable state of the adaptive scheme (any dimension, any history) *)
Theorem C02_hier_interp_indicator : forall bd a b s tau i x,
  Inv s -> 0 <= s_lmin s -> box_ok a b -> length a = s_dim s -> length tau = s_dim s ->
  Forall2 (hier_idx bd (s_lmin s)) tau i -> in_box a b x ->
  combi_interp bd a b (combi_scheme_adaptive s) (fun_hat a b tau i) x
  = if mem (eff_level (s_lmin s) tau) (index_set s) then fun_hat a b tau i x else Q2Qc 0.
Proof. exact hier_interp_indicator. Qed.
Print Assumptions C02_hier_interp_indicator.

Theorem C02_hier_interp_exact : forall bd a b s tau i x,
  Inv s -> 0 <= s_lmin s -> box_ok a b -> length a = s_dim s -> length tau = s_dim s ->
  Forall2 (hier_idx bd (s_lmin s)) tau i -> In (eff_level (s_lmin s) tau) (index_set s) -> in_box a b x ->
  combi_interp bd a b (combi_scheme_adaptive s) (fun_hat a b tau i) x = fun_hat a b tau i x.
Proof. exact hier_interp_exact. Qed.
Print Assumptions C02_hier_interp_exact.

(* quadrature: combined integral of phi = [eff_level in index set] * exact integral of phi (hat_integral: product of the 1D
   integrals (b_d-a_d)/2^tau_d, halved for the two boundary hats) *)
Theorem C02_hier_integral_indicator : forall bd a b s tau i,
  Inv s -> 0 <= s_lmin s -> box_ok a b -> length a = s_dim s -> length tau = s_dim s ->
  Forall2 (hier_idx bd (s_lmin s)) tau i ->
  combi_integral bd a b (combi_scheme_adaptive s) (fun_hat a b tau i)
  = if mem (eff_level (s_lmin s) tau) (index_set s) then hat_integral a b tau i else Q2Qc 0.
Proof. exact hier_integral_indicator. Qed.
Print Assumptions C02_hier_integral_indicator.

Theorem C02_hier_integral_exact : forall bd a b s tau i,
  Inv s -> 0 <= s_lmin s -> box_ok a b -> length a = s_dim s -> length tau = s_dim s ->
  Forall2 (hier_idx bd (s_lmin s)) tau i -> In (eff_level (s_lmin s) tau) (index_set s) ->
  combi_integral bd a b (combi_scheme_adaptive s) (fun_hat a b tau i) = hat_integral a b tau i.
Proof. exact hier_integral_exact. Qed.
Print Assumptions C02_hier_integral_exact.

(* interior hats (1 <= i_d <= 2^tau_d - 1): the integral is the product of the mesh widths (b_d - a_d)/2^tau_d *)
Theorem C02_hier_integral_exact_interior : forall bd a b s tau i,
  Inv s -> 0 <= s_lmin s -> box_ok a b -> length a = s_dim s -> length tau = s_dim s ->
  Forall2 (hint_idx (s_lmin s)) tau i -> In (eff_level (s_lmin s) tau) (index_set s) ->
  combi_integral bd a b (combi_scheme_adaptive s) (fun_hat a b tau i) = hat_volume a b tau.
Proof. exact hier_integral_exact_interior. Qed.
Print Assumptions C02_hier_integral_exact_interior.

(* closed-form scheme of StandardCombi, through the verified checker ... *)
Theorem C02_hier_interp_exact_closed_form : forall bd a b n lmin lmax tau i x,
  std_perm_check (S n) lmin lmax = true -> box_ok a b -> length a = S n -> length tau = S n ->
  Forall2 (hier_idx bd lmin) tau i -> In (eff_level lmin tau) (std_index_set (S n) lmin lmax) -> in_box a b x ->
  combi_interp bd a b (combi_scheme_standard (S n) lmin lmax) (fun_hat a b tau i) x = fun_hat a b tau i x.
Proof. exact std_hier_interp_exact. Qed.
Print Assumptions C02_hier_interp_exact_closed_form.

Theorem C02_hier_integral_exact_closed_form : forall bd a b n lmin lmax tau i,
  std_perm_check (S n) lmin lmax = true -> box_ok a b -> length a = S n -> length tau = S n ->
  Forall2 (hier_idx bd lmin) tau i -> In (eff_level lmin tau) (std_index_set (S n) lmin lmax) ->
  combi_integral bd a b (combi_scheme_standard (S n) lmin lmax) (fun_hat a b tau i) = hat_integral a b tau i.
Proof. exact std_hier_integral_exact. Qed.
Print Assumptions C02_hier_integral_exact_closed_form.

(* ... and for EVERY dimension and every 0 <= lmin <= lmax without the checker (general permutation theorem of
   Proofs/SchemeClosedForm.v); the space is explicit: |max(tau,lmin)|_1 <= lmax - lmin + d*lmin. Indicator form: *)
Theorem C02_hier_interp_indicator_closed_form_general : forall bd a b n lmin lmax tau i x,
  0 <= lmin <= lmax -> box_ok a b -> length a = S n -> length tau = S n ->
  Forall2 (hier_idx bd lmin) tau i -> in_box a b x ->
  combi_interp bd a b (combi_scheme_standard (S n) lmin lmax) (fun_hat a b tau i) x
  = if std_in_space n lmin lmax tau then fun_hat a b tau i x else Q2Qc 0.
Proof. exact std_hier_interp_indicator_general. Qed.
Print Assumptions C02_hier_interp_indicator_closed_form_general.

Theorem C02_hier_interp_exact_closed_form_general : forall bd a b n lmin lmax tau i x,
  0 <= lmin <= lmax -> box_ok a b -> length a = S n -> length tau = S n ->
  Forall2 (hier_idx bd lmin) tau i -> sumZ (eff_level lmin tau) <= lmax - lmin + Z.of_nat (S n) * lmin -> in_box a b x ->
  combi_interp bd a b (combi_scheme_standard (S n) lmin lmax) (fun_hat a b tau i) x = fun_hat a b tau i x.
Proof. exact std_hier_interp_exact_general. Qed.
Print Assumptions C02_hier_interp_exact_closed_form_general.

Theorem C02_hier_integral_indicator_closed_form_general : forall bd a b n lmin lmax tau i,
  0 <= lmin <= lmax -> box_ok a b -> length a = S n -> length tau = S n ->
  Forall2 (hier_idx bd lmin) tau i ->
  combi_integral bd a b (combi_scheme_standard (S n) lmin lmax) (fun_hat a b tau i)
  = if std_in_space n lmin lmax tau then hat_integral a b tau i else Q2Qc 0.
Proof. exact std_hier_integral_indicator_general. Qed.
Print Assumptions C02_hier_integral_indicator_closed_form_general.

Theorem C02_hier_integral_exact_closed_form_general : forall bd a b n lmin lmax tau i,
  0 <= lmin <= lmax -> box_ok a b -> length a = S n -> length tau = S n ->
  Forall2 (hier_idx bd lmin) tau i -> sumZ (eff_level lmin tau) <= lmax - lmin + Z.of_nat (S n) * lmin ->
  combi_integral bd a b (combi_scheme_standard (S n) lmin lmax) (fun_hat a b tau i) = hat_integral a b tau i.
Proof. exact std_hier_integral_exact_general. Qed.
Print Assumptions C02_hier_integral_exact_closed_form_general.

Theorem C02_hier_integral_exact_interior_closed_form_general : forall bd a b n lmin lmax tau i,
  0 <= lmin <= lmax -> box_ok a b -> length a = S n -> length tau = S n ->
  Forall2 (hint_idx lmin) tau i -> sumZ (eff_level lmin tau) <= lmax - lmin + Z.of_nat (S n) * lmin ->
  combi_integral bd a b (combi_scheme_standard (S n) lmin lmax) (fun_hat a b tau i) = hat_volume a b tau.
Proof. exact std_hier_integral_exact_interior_general. Qed.
Print Assumptions C02_hier_integral_exact_interior_closed_form_general.

(* the 1D facts and the abstract inclusion-exclusion step the above are built from *)
Theorem C02_hat1_interp_fine : forall a b tau i l x, (a < b)%Qc -> 0 <= tau -> tau <= l -> (a <= x)%Qc -> (x <= b)%Qc ->
  interp1 (grid1_full a b l) (hat1 a b tau i) x = hat1 a b tau i x.
Proof. exact hat1_interp_fine. Qed.
Print Assumptions C02_hat1_interp_fine.
Theorem C02_hat1_trap_fine : forall bd a b tau i l, (a < b)%Qc -> 0 <= tau -> tau <= l -> 1 <= i <= 2 ^ tau - 1 ->
  dotQ (map (hat1 a b tau i) (grid1 bd a b l)) (weights1 bd a b l) = step a b tau.
Proof. exact hat1_trap_fine. Qed.
Print Assumptions C02_hat1_trap_fine.
Theorem C02_hier_exact_abstract : forall cs tau (V : lv -> Qc) v,
  (forall l c, In (l, c) cs -> V l = if lv_geb l tau then v else Q2Qc 0) ->
  sumQ (map (fun kv => (qc_of_Z (snd kv) * V (fst kv))%Qc) cs) = (qc_of_Z (dominating_sum cs tau) * v)%Qc.
Proof. exact combined_indicator. Qed.
Print Assumptions C02_hier_exact_abstract.

(* non-vacuity: d=2, lmin=1, lmax=3 on [0,1]x[0,2], no boundary points; the hierarchical hat of level (2,2), index (1,3)
   satisfies all hypotheses (checker form and general form); the evaluation point (1/3, 9/7) is NOT a grid point of any
   level; the value there is 8/21 <> 0, the integral is 1/4 * 1/2 = 1/8; and a hat outside the space, level (3,2), is
   annihilated (indicator false) *)
Example C02_hier_nonvacuous :
  std_perm_check 2 1 3 = true /\ 0 <= 1 <= 3 /\
  box_ok [Q2Qc 0; Q2Qc 0] [Q2Qc 1; Q2Qc 2] /\
  Forall2 (hier_idx false 1) [2; 2] [1; 3] /\ Forall2 (hint_idx 1) [2; 2] [1; 3] /\
  In (eff_level 1 [2; 2]) (std_index_set 2 1 3) /\ sumZ (eff_level 1 [2; 2]) <= 3 - 1 + Z.of_nat 2 * 1 /\
  in_box [Q2Qc 0; Q2Qc 0] [Q2Qc 1; Q2Qc 2] [Q2Qc (1 # 3); Q2Qc (9 # 7)] /\
  fun_hat [Q2Qc 0; Q2Qc 0] [Q2Qc 1; Q2Qc 2] [2; 2] [1; 3] [Q2Qc (1 # 3); Q2Qc (9 # 7)] = Q2Qc (8 # 21) /\
  combi_interp false [Q2Qc 0; Q2Qc 0] [Q2Qc 1; Q2Qc 2] (combi_scheme_standard 2 1 3)
    (fun_hat [Q2Qc 0; Q2Qc 0] [Q2Qc 1; Q2Qc 2] [2; 2] [1; 3]) [Q2Qc (1 # 3); Q2Qc (9 # 7)] = Q2Qc (8 # 21) /\
  hat_volume [Q2Qc 0; Q2Qc 0] [Q2Qc 1; Q2Qc 2] [2; 2] = Q2Qc (1 # 8) /\
  std_in_space 1 1 3 [3; 2] = false.
Proof.
  split; [vm_compute; reflexivity|]. split; [lia|].
  split; [repeat constructor|].
  split; [constructor; [|constructor; [|constructor]];
          (split; [lia|split; [simpl; lia|split; [intros _; simpl; lia|left; reflexivity]]])|].
  split; [constructor; [|constructor; [|constructor]]; (split; [lia|split; [simpl; lia|left; reflexivity]])|].
  split; [apply mem_In; vm_compute; reflexivity|]. split; [vm_compute; discriminate|].
  split; [simpl; repeat split; vm_compute; discriminate|].
  split; [apply Qc_is_canon; vm_compute; reflexivity|].
  split; [apply Qc_is_canon; vm_compute; reflexivity|].
  split; [apply Qc_is_canon; vm_compute; reflexivity|]. vm_compute. reflexivity.
Qed.

(* ================= DEEPENING (round 2): union = sparse grid, number of points, linearity / exactness on the SPAN,
   point-weight list of the combination.  Proofs/StdUnion.v, Proofs/StdLinear.v ================= *)
From SG Require Import Proofs.StdUnion Proofs.StdLinear.

(* the union of the component grids EQUALS the sparse grid of the index set (both inclusions; C02_union_contains_sparse_grid above
   is one of them), every reachable state of the adaptive scheme *)
Theorem C02_union_equals_sparse_grid_adaptive : forall bd a b s x, Inv s -> 0 <= s_lmin s ->
  (in_union bd a b (combi_scheme_adaptive s) x <-> in_sparse_grid bd a b (index_set s) x).
Proof. exact adaptive_union_equals_sparse_grid. Qed.

(* closed-form scheme of StandardCombi, every dimension, every 0 <= lmin <= lmax: x lies in some component grid iff it lies in a
   grid of a level vector k >= lmin with |k|_1 <= lmax - lmin + d*lmin ... *)
Theorem C02_union_equals_sparse_grid_closed_form : forall bd a b n lmin lmax x, 0 <= lmin <= lmax ->
  (in_union bd a b (combi_scheme_standard (S n) lmin lmax) x <->
   exists k, length k = S n /\ Forall (fun v => lmin <= v) k /\ sumZ k <= lmax - lmin + Z.of_nat (S n) * lmin /\
             in_comp bd a b x k = true).
Proof. exact std_union_equals_sparse_grid. Qed.

(* ... iff it lies in a grid of the finest diagonal |k|_1 = lmax - lmin + d*lmin (the form of the property statement) *)
Theorem C02_union_is_diagonal_union_closed_form : forall bd a b n lmin lmax x, 0 <= lmin <= lmax ->
  (in_union bd a b (combi_scheme_standard (S n) lmin lmax) x <->
   exists k, length k = S n /\ Forall (fun v => lmin <= v) k /\ sumZ k = lmax - lmin + Z.of_nat (S n) * lmin /\
             in_comp bd a b x k = true).
Proof. exact std_union_is_diagonal_union. Qed.

(* a component grid has no duplicate points and exactly prod_d N(l_d) of them (get_num_points_component_grid) *)
Theorem C02_component_points_count : forall bd a b l, box_ok a b -> length a = length l -> length b = length l ->
  Forall (fun v => 1 <= v) l ->
  NoDup (comp_points bd a b l) /\ Z.of_nat (length (comp_points bd a b l)) = comp_total_points bd l.
Proof.
  intros bd a b l Hbox La Lb Fl. split.
  - apply comp_points_NoDup; [exact Hbox|]. clear - Fl. induction Fl as [|v l Hv Fl IH]; constructor; [lia|exact IH].
  - apply comp_points_length; assumption.
Qed.

(* the number of DISTINCT points of the whole combination (what get_total_num_points reports: the size of the function cache)
   is sum_l c_l * prod_d N(l_d): adaptive scheme, every reachable state with lmin >= 1 ... *)
Theorem C02_total_points_adaptive : forall bd a b s,
  Inv s -> 1 <= s_lmin s -> box_ok a b -> length a = s_dim s -> length b = s_dim s ->
  Z.of_nat (length (union_points bd a b (combi_scheme_adaptive s))) = combi_total_points bd (combi_scheme_adaptive s).
Proof. exact adaptive_total_points. Qed.

(* ... and the closed-form scheme, every dimension, every 1 <= lmin <= lmax *)
Theorem C02_total_points_closed_form : forall bd a b n lmin lmax,
  1 <= lmin <= lmax -> box_ok a b -> length a = S n -> length b = S n ->
  Z.of_nat (length (union_points bd a b (combi_scheme_standard (S n) lmin lmax)))
  = combi_total_points bd (combi_scheme_standard (S n) lmin lmax).
Proof. exact std_total_points. Qed.

(* the distinct points are exactly the points of the sparse grid *)
Theorem C02_union_points_closed_form : forall bd a b n lmin lmax x, 0 <= lmin <= lmax -> length a = S n -> length b = S n ->
  (In x (union_points bd a b (combi_scheme_standard (S n) lmin lmax)) <->
   exists k, length k = S n /\ Forall (fun v => lmin <= v) k /\ sumZ k <= lmax - lmin + Z.of_nat (S n) * lmin /\
             In x (comp_points bd a b k)).
Proof. exact std_union_points_spec. Qed.

(* LINEARITY in the function: combined interpolant and combined quadrature of a finite linear combination (any scheme, any
   functions, any point) *)
Theorem C02_combi_interp_linear : forall bd a b cs (ts : list (Qc * (list Qc -> Qc))) x,
  combi_interp bd a b cs (lincomb ts) x = sumQ (map (fun t => (fst t * combi_interp bd a b cs (snd t) x)%Qc) ts).
Proof. exact combi_interp_lincomb. Qed.

Theorem C02_combi_integral_linear : forall bd a b cs (ts : list (Qc * (list Qc -> Qc))),
  combi_integral bd a b cs (lincomb ts) = sumQ (map (fun t => (fst t * combi_integral bd a b cs (snd t))%Qc) ts).
Proof. exact combi_integral_lincomb. Qed.

(* EXACTNESS ON THE SPARSE-GRID SPACE: every function sum_k alpha_k * phi_k of the span of the hierarchical tensor hats whose
   effective level lies in the index set is reproduced at EVERY point of the box and integrated exactly; adaptive scheme ... *)
Theorem C02_span_interp_exact : forall bd a b s (hs : list hat_term) x,
  Inv s -> 0 <= s_lmin s -> box_ok a b -> length a = s_dim s -> in_box a b x ->
  (forall al tau i, In (al, (tau, i)) hs ->
     length tau = s_dim s /\ Forall2 (hier_idx bd (s_lmin s)) tau i /\ In (eff_level (s_lmin s) tau) (index_set s)) ->
  combi_interp bd a b (combi_scheme_adaptive s) (span_eval a b hs) x = span_eval a b hs x.
Proof. exact span_interp_exact. Qed.

Theorem C02_span_integral_exact : forall bd a b s (hs : list hat_term),
  Inv s -> 0 <= s_lmin s -> box_ok a b -> length a = s_dim s ->
  (forall al tau i, In (al, (tau, i)) hs ->
     length tau = s_dim s /\ Forall2 (hier_idx bd (s_lmin s)) tau i /\ In (eff_level (s_lmin s) tau) (index_set s)) ->
  combi_integral bd a b (combi_scheme_adaptive s) (span_eval a b hs)
  = sumQ (map (fun h => (fst h * hat_integral a b (fst (snd h)) (snd (snd h)))%Qc) hs).
Proof. exact span_integral_exact. Qed.

(* ... closed-form scheme of StandardCombi, every dimension, every 0 <= lmin <= lmax *)
Theorem C02_span_interp_exact_closed_form : forall bd a b n lmin lmax (hs : list hat_term) x,
  0 <= lmin <= lmax -> box_ok a b -> length a = S n -> in_box a b x ->
  (forall al tau i, In (al, (tau, i)) hs ->
     length tau = S n /\ Forall2 (hier_idx bd lmin) tau i /\
     sumZ (eff_level lmin tau) <= lmax - lmin + Z.of_nat (S n) * lmin) ->
  combi_interp bd a b (combi_scheme_standard (S n) lmin lmax) (span_eval a b hs) x = span_eval a b hs x.
Proof. exact std_span_interp_exact. Qed.

Theorem C02_span_integral_exact_closed_form : forall bd a b n lmin lmax (hs : list hat_term),
  0 <= lmin <= lmax -> box_ok a b -> length a = S n ->
  (forall al tau i, In (al, (tau, i)) hs ->
     length tau = S n /\ Forall2 (hier_idx bd lmin) tau i /\
     sumZ (eff_level lmin tau) <= lmax - lmin + Z.of_nat (S n) * lmin) ->
  combi_integral bd a b (combi_scheme_standard (S n) lmin lmax) (span_eval a b hs)
  = sumQ (map (fun h => (fst h * hat_integral a b (fst (snd h)) (snd (snd h)))%Qc) hs).
Proof. exact std_span_integral_exact. Qed.

(* for an ARBITRARY member of the span of all hierarchical hats the combination is the projection onto the sparse-grid space:
   the hats outside the index set are annihilated, the others kept *)
Theorem C02_span_projection_closed_form : forall bd a b n lmin lmax (hs : list hat_term) x,
  0 <= lmin <= lmax -> box_ok a b -> length a = S n -> in_box a b x ->
  (forall al tau i, In (al, (tau, i)) hs -> length tau = S n /\ Forall2 (hier_idx bd lmin) tau i) ->
  combi_interp bd a b (combi_scheme_standard (S n) lmin lmax) (span_eval a b hs) x
  = span_eval a b (filter (fun h => std_in_space n lmin lmax (fst (snd h))) hs) x.
Proof. exact std_span_interp_projection. Qed.

(* StandardCombi.get_points_and_weights: the concatenated (point, weight * coefficient) list carries the combined quadrature of
   every function, and points and weights are aligned (same number per component grid) *)
Theorem C02_points_weights_carry_integral : forall bd a b cs (f : list Qc -> Qc),
  sumQ (map (fun pw => (f (fst pw) * snd pw)%Qc) (combi_points_weights bd a b cs)) = combi_integral bd a b cs f.
Proof. exact combi_points_weights_integral. Qed.

Theorem C02_points_weights_aligned : forall bd a b l cs,
  length (comp_points bd a b l) = length (comp_weights bd a b l) /\
  length (combi_points_weights bd a b cs) = length (flat_map (fun kv => comp_points bd a b (fst kv)) cs).
Proof. intros. split; [apply comp_points_weights_length|apply combi_points_weights_length]. Qed.

(* ---- the boundary test AS THE CODE DOES IT (Model/StdCombiTol.v, Proofs/StdTol.v): Grid.points_not_zero classifies mesh nodes with a
   TOLERANCE (np.isclose: 1e-8 + 1e-5*|bound| in the current tree; 1e-8*|b_d - a_d| in the proposed repair), the model above with
   exact equality.  Whenever the closeness test singles out exactly the end points on the nodes of every component grid, the
   tolerant combined interpolant IS the exact one (so every theorem above transfers) ... *)
From SG Require Import Model.StdCombiTol Proofs.StdTol.
Local Open Scope Z_scope.
Theorem C02_interp_tolerant_equals_exact : forall cl bd a b cs (f : list Qc -> Qc) x,
  (forall l c, In (l, c) cs -> length x = length l /\ length a = length l /\ length b = length l /\ cl_exact_all cl a b l) ->
  combi_interp_tol cl bd a b cs f x = combi_interp bd a b cs f x.
Proof. exact combi_interp_tol_exact. Qed.

(* ... which holds for numpy's isclose as long as the mesh width of level lmax exceeds 1e-8 + 1e-5*|bound| in every dimension: nodal
   exactness of the CURRENT code's interpolant, closed-form scheme, every dimension ... *)
Theorem C02_nodal_exact_numpy_isclose_safe : forall bd a b n lmin lmax (f : list Qc -> Qc) x l0 c0,
  0 <= lmin <= lmax -> box_ok a b -> length a = S n -> length b = S n -> length x = S n ->
  np_safe_all a b lmax ->
  In (l0, c0) (combi_scheme_standard (S n) lmin lmax) -> in_comp bd a b x l0 = true ->
  combi_interp_tol cl_numpy bd a b (combi_scheme_standard (S n) lmin lmax) f x = f x.
Proof. exact np_tol_nodal_exact. Qed.

(* ... and for the domain-relative tolerance of the proposed repair on EVERY box a < b and every lmax <= 26 *)
Theorem C02_nodal_exact_domain_tolerance : forall bd a b n lmin lmax (f : list Qc -> Qc) x l0 c0,
  0 <= lmin <= lmax -> lmax <= 26 -> box_ok a b -> length a = S n -> length b = S n -> length x = S n ->
  In (l0, c0) (combi_scheme_standard (S n) lmin lmax) -> in_comp bd a b x l0 = true ->
  combi_interp_tol cl_domain bd a b (combi_scheme_standard (S n) lmin lmax) f x = f x.
Proof. exact domain_tol_nodal_exact. Qed.

(* REFUTED without the mesh-width condition (finding C02-isclose-far-box): the faithful model of the current code does not reproduce
   f = 1 at the sparse-grid point 1000 + 1/128 of the box [1000, 1001], level 7, boundary points off.  The witness is replayed on the
   implementation by the corpus of harness/vp/props/c02.py. *)
Theorem C02_nodal_exact_numpy_isclose_refuted :
  exists a b lmin lmax (f : list Qc -> Qc) x l0 c0,
    0 <= lmin <= lmax /\ box_ok a b /\ length a = 1%nat /\ length b = 1%nat /\ length x = 1%nat /\
    In (l0, c0) (combi_scheme_standard 1 lmin lmax) /\ in_comp false a b x l0 = true /\
    combi_interp_tol cl_numpy false a b (combi_scheme_standard 1 lmin lmax) f x <> f x.
Proof. exact np_tol_nodal_refuted. Qed.

(* ---- OTHER NESTED GRID FAMILIES (Proofs/NestedFamily.v): the three point-set clauses and nodal exactness for ANY family G d l of
   strictly increasing 1D grids that is nested in the level (per dimension), with piecewise-multilinear interpolation of the nodal
   values - what StandardCombi does with every Grid whose coordinate arrays are its nodes (trapezoidal, Simpson, Clenshaw-Curtis,
   Leja ... with boundary points); every reachable state of the adaptive scheme *)
From SG Require Import Proofs.NestedFamily.
Theorem C02_nodal_exact_any_nested_family : forall (G : nat -> Z -> list Qc) lmin,
  (forall d l, lmin <= l -> Sorted.StronglySorted Qclt (G d l)) ->
  (forall d l l', lmin <= l -> l <= l' -> incl (G d l) (G d l')) ->
  forall s (f : list Qc -> Qc) x l0 c0,
  Inv s -> s_lmin s = lmin -> length x = s_dim s ->
  In (l0, c0) (combi_scheme_adaptive s) -> fam_in_comp G x l0 = true ->
  fam_combi_interp G (combi_scheme_adaptive s) f x = f x.
Proof. exact fam_nodal_exact. Qed.

Theorem C02_point_coeff_sum_one_any_nested_family : forall (G : nat -> Z -> list Qc) lmin,
  (forall d l l', lmin <= l -> l <= l' -> incl (G d l) (G d l')) ->
  forall s x l0 c0, Inv s -> s_lmin s = lmin -> In (l0, c0) (combi_scheme_adaptive s) -> fam_in_comp G x l0 = true ->
  fam_coeff_sum G (combi_scheme_adaptive s) x = 1.
Proof. exact fam_point_coeff_sum_one. Qed.

Theorem C02_union_equals_sparse_grid_any_nested_family : forall (G : nat -> Z -> list Qc) lmin,
  (forall d l l', lmin <= l -> l <= l' -> incl (G d l) (G d l')) ->
  forall s x, Inv s -> s_lmin s = lmin ->
  ((exists l c, In (l, c) (combi_scheme_adaptive s) /\ fam_in_comp G x l = true) <->
   (exists k, In k (index_set s) /\ fam_in_comp G x k = true)).
Proof. exact fam_union_equals_sparse_grid. Qed.

(* non-vacuity: a NON-uniform nested family (the same in every dimension): level <= 1: {0, 1}; level 2: {0, 1/3, 1};
   level >= 3: {0, 1/5, 1/3, 3/4, 1}.  It satisfies both hypotheses; d = 2, lmin = 1, lmax = 3 (adaptive scheme right after its
   initialisation); the point (1/5, 1) lies in the component grid (3,1) (level 3 is needed in dimension 0) but not in (2,2); f(x,y) = x*x*y + 1
   is reproduced there: 26/25 *)
Definition C02_example_family (d : nat) (l : Z) : list Qc :=
  if l <=? 1 then [Q2Qc 0; Q2Qc 1] else if l <=? 2 then [Q2Qc 0; Q2Qc (1 # 3); Q2Qc 1]
  else [Q2Qc 0; Q2Qc (1 # 5); Q2Qc (1 # 3); Q2Qc (3 # 4); Q2Qc 1].
Example C02_nested_family_nonvacuous :
  (forall d l, 1 <= l -> Sorted.StronglySorted Qclt (C02_example_family d l)) /\
  (forall d l l', 1 <= l -> l <= l' -> incl (C02_example_family d l) (C02_example_family d l')) /\
  (exists s, init_scheme 2 3 1 = Some s /\ Inv s /\ s_lmin s = 1 /\ In ([3; 1], 1) (combi_scheme_adaptive s) /\
     fam_in_comp C02_example_family [Q2Qc (1 # 5); Q2Qc 1] [3; 1] = true /\
     fam_in_comp C02_example_family [Q2Qc (1 # 5); Q2Qc 1] [2; 2] = false /\
     fam_combi_interp C02_example_family (combi_scheme_adaptive s)
       (fun p => match p with [x; y] => (x * x * y + 1)%Qc | _ => Q2Qc 0 end) [Q2Qc (1 # 5); Q2Qc 1] = Q2Qc (26 # 25)).
Proof.
  split; [|split].
  - intros d l Hl. unfold C02_example_family. destruct (l <=? 1); [|destruct (l <=? 2)];
      repeat (constructor; [|repeat constructor; vm_compute; reflexivity]); constructor.
  - intros d l l' Hl Hll. unfold C02_example_family.
    destruct (Z.leb_spec l 1); destruct (Z.leb_spec l' 1); try lia;
      destruct (Z.leb_spec l 2); destruct (Z.leb_spec l' 2); try lia;
      intros z Hz; cbn [In] in *; tauto.
  - destruct (init_scheme 2 3 1) as [s|] eqn:E; [|vm_compute in E; discriminate].
    exists s. split; [reflexivity|]. split; [exact (init_inv 1 3 1 s E)|].
    assert (s = match init_scheme 2 3 1 with Some s0 => s0 | None => s end) as Es by (rewrite E; reflexivity).
    split; [rewrite Es; vm_compute; reflexivity|].
    split; [rewrite Es; vm_compute; repeat (first [left; reflexivity | right])|].
    split; [vm_compute; reflexivity|]. split; [vm_compute; reflexivity|].
    rewrite Es. apply Qc_is_canon. vm_compute. reflexivity.
Qed.

(* ---- WHAT THE REPOSITORY'S OWN TEST SEES (Proofs/StdAffine.v): a product of affine functions prod_d (al_d + be_d x_d) is reproduced
   at every point of the box and integrated exactly by EVERY SINGLE component grid with boundary points, whatever its level vector;
   so its combination over ANY list of level vectors with ANY integer coefficients is (sum of the coefficients) * (exact value):
   test_StandardCombi's integrand cannot see a wrong coefficient, a wrong level shift or misaligned points - only the coefficient sum *)
From SG Require Import Proofs.StdHierTensor Proofs.StdAffine.
Theorem C02_affine_products_see_only_coefficient_sum : forall a b cs affs0 x,
  box_ok a b -> length affs0 = length a -> in_box a b x ->
  (forall l c, In (l, c) cs -> length l = length a /\ Forall (fun v => 0 <= v) l) ->
  combi_interp true a b cs (tprod (affs affs0)) x = (qc_of_Z (sumZ (map snd cs)) * tprod (affs affs0) x)%Qc /\
  combi_integral true a b cs (tprod (affs affs0)) = (qc_of_Z (sumZ (map snd cs)) * affine_volume a b affs0)%Qc.
Proof.
  intros a b cs affs0 x Hbox La B H. split.
  - exact (combi_interp_affine_product a b cs affs0 x Hbox La B H).
  - exact (combi_integral_affine_product a b cs affs0 Hbox La H).
Qed.

Theorem C02_affine_products_exact : forall a b s affs0 x,
  Inv s -> 0 <= s_lmin s -> box_ok a b -> length a = s_dim s -> length affs0 = s_dim s -> in_box a b x ->
  combi_interp true a b (combi_scheme_adaptive s) (tprod (affs affs0)) x = tprod (affs affs0) x /\
  combi_integral true a b (combi_scheme_adaptive s) (tprod (affs affs0)) = affine_volume a b affs0.
Proof. exact adaptive_affine_product_exact. Qed.

(* ================= PHASE 4: point counts in both modes, tensor-grid order, vector-valued functions, quadrature for any family of
   1D rules.  Proofs/StdCount.v, Model/StdCombiVec.v + Proofs/StdVec.v, Proofs/NestedQuadrature.v ================= *)
From SG Require Import Model.StdCombiVec Proofs.StdCount Proofs.StdVec Proofs.NestedQuadrature.

(* get_total_num_points in BOTH modes, closed-form scheme, every dimension, 1 <= lmin <= lmax, boundary on/off:
   distinct_function_evals=True  -> number of DISTINCT points of all component grids = sum_l c_l prod_d N(l_d);
   distinct_function_evals=False -> number of points of all component grids WITH doubles = sum_l prod_d N(l_d);
   their difference is sum_l (1 - c_l) prod_d N(l_d) *)
Theorem C02_total_points_both_modes : forall bd a b n lmin lmax,
  1 <= lmin <= lmax -> box_ok a b -> length a = S n -> length b = S n ->
  let cs := combi_scheme_standard (S n) lmin lmax in
  Z.of_nat (length (union_points bd a b cs)) = combi_total_points bd cs /\
  Z.of_nat (length (all_points bd a b cs)) = combi_total_points_naive bd cs /\
  combi_total_points_naive bd cs - combi_total_points bd cs = sumZ (map (fun kv => (1 - snd kv) * comp_total_points bd (fst kv)) cs).
Proof. exact std_total_points_both_modes. Qed.

Theorem C02_total_points_naive_adaptive : forall bd a b s,
  Inv s -> 1 <= s_lmin s -> length a = s_dim s -> length b = s_dim s ->
  Z.of_nat (length (all_points bd a b (combi_scheme_adaptive s))) = combi_total_points_naive bd (combi_scheme_adaptive s).
Proof. exact adaptive_total_points_naive. Qed.

Theorem C02_distinct_points_le_naive : forall bd a b cs, (length (union_points bd a b cs) <= length (all_points bd a b cs))%nat.
Proof. exact distinct_le_naive. Qed.

(* VECTOR-VALUED FUNCTIONS: the matrix StandardCombi.__call__ accumulates (zeros; += interpolate_points * coefficient per component
   grid; one interpolation per output component) is, entry by entry, the scalar combined interpolant of the output component at the
   point: the combination acts componentwise, every scheme, every output length, every list of points *)
Theorem C02_vector_valued_componentwise : forall bd a b cs (F : list Qc -> list Qc) nout pts,
  combi_interp_matrix bd a b cs F nout pts
  = map (fun x => map (fun k => combi_interp bd a b cs (out_comp F k) x) (seq 0 nout)) pts.
Proof. exact combi_interp_matrix_componentwise. Qed.

(* ... hence nodal exactness row-wise for vector-valued functions *)
Theorem C02_nodal_exact_vector_valued : forall bd a b n lmin lmax (F : list Qc -> list Qc) nout x l0 c0,
  0 <= lmin <= lmax -> box_ok a b -> length a = S n -> length b = S n -> length x = S n ->
  In (l0, c0) (combi_scheme_standard (S n) lmin lmax) -> in_comp bd a b x l0 = true -> length (F x) = nout ->
  combi_interp_matrix bd a b (combi_scheme_standard (S n) lmin lmax) F nout [x] = [F x].
Proof. exact std_nodal_exact_vector. Qed.

(* TENSOR-GRID REQUESTS: interpolate_grid is the point-wise interpolation at the cross product of the coordinate arrays in
   get_cross_product (itertools.product) order, every dimension ... *)
Theorem C02_interpolate_grid_is_pointwise : forall bd a b cs (F : list Qc -> list Qc) nout coords,
  combi_interp_grid bd a b cs F nout coords
  = map (fun x => map (fun k => combi_interp bd a b cs (out_comp F k) x) (seq 0 nout)) (crossQ coords).
Proof. exact combi_interp_grid_pointwise. Qed.

(* ... and that order is row-major with the FIRST coordinate array slowest and the last fastest: the point with index vector idx
   sits at position idx_0 * n_1 * ... * n_{d-1} + idx_1 * n_2 * ... + ... + idx_{d-1}, for every dimension d *)
Theorem C02_cross_product_order : forall idx coords, Forall2 (fun i c => (i < length c)%nat) idx coords ->
  nth (flat_index idx (map (@length Qc) coords)) (crossQ coords) [] = pick idx coords.
Proof. exact crossQ_nth. Qed.

Theorem C02_interpolate_grid_entry : forall bd a b cs (F : list Qc -> list Qc) nout coords idx,
  Forall2 (fun i c => (i < length c)%nat) idx coords ->
  nth (flat_index idx (map (@length Qc) coords)) (combi_interp_grid bd a b cs F nout coords) []
  = map (fun k => combi_interp bd a b cs (out_comp F k) (pick idx coords)) (seq 0 nout).
Proof. exact combi_interp_grid_entry. Qed.

(* QUADRATURE FOR ANY FAMILY OF 1D RULES (Clenshaw-Curtis, Leja, Simpson, non-uniform trapezoid ...: any weighted point lists
   Q d l): a tensor function whose 1D factors have the level-threshold property (integrated to q_d by every rule of level >= tau_d,
   to 0 by the rules of the levels lmin <= l < tau_d - the hierarchical basis functions of a nested family) is integrated by the
   combination to [tau in index set] * prod q_d, every reachable adaptive scheme *)
Theorem C02_hier_quadrature_any_family : forall (Q : list (Z -> fnl Qc)) lmin s gs tau qs,
  Inv s -> s_lmin s = lmin -> length Q = s_dim s -> hier_factors lmin Q gs tau qs -> Forall (fun v => lmin <= v) tau ->
  fam_combi_quad Q (combi_scheme_adaptive s) (tprod gs)
  = if mem tau (index_set s) then fold_right Qcmult (Q2Qc 1) qs else Q2Qc 0.
Proof. exact fam_hier_quadrature. Qed.

(* non-vacuity: (1) d=3 cross product order: coordinate arrays of lengths 2,3,2, index vector (1,2,0) sits at position 1*6+2*2+0 = 10
   (meshgrid-transposed orders put it elsewhere); (2) a 2-vector-valued function on d=2, lmin=1, lmax=3: the row at the sparse-grid
   point (1/4, 1) is the function value; (3) counts for d=2, 1..3, boundary on: 49 distinct, 79+30 = 109 with doubles;
   (4) the uniform trapezoidal rules are a family in the sense of C02_hier_quadrature_any_family: the 1D hierarchical hat of level 2,
   index 1 on [0,1] has the level-threshold property with q = 1/4 *)
Definition C02_trap_rule (bd : bool) (a0 b0 : Qc) (l : Z) : fnl Qc := combine (grid1 bd a0 b0 l) (weights1 bd a0 b0 l).
Lemma C02_trap_rule_app1 bd a0 b0 l g : app1 Qc (C02_trap_rule bd a0 b0 l) g = dotQ (map g (grid1 bd a0 b0 l)) (weights1 bd a0 b0 l).
Proof.
  unfold C02_trap_rule, app1. generalize (grid1 bd a0 b0 l) (weights1 bd a0 b0 l).
  induction l0 as [|p ps IH]; intros [|w ws]; simpl; try reflexivity. rewrite IH. ring.
Qed.
Example C02_phase4_nonvacuous :
  nth 10 (crossQ [[Q2Qc 0; Q2Qc 1]; [Q2Qc 2; Q2Qc 3; Q2Qc 4]; [Q2Qc 5; Q2Qc 6]]) [] = [Q2Qc 1; Q2Qc 4; Q2Qc 5] /\
  flat_index [1; 2; 0]%nat [2; 3; 2]%nat = 10%nat /\
  map (map this) (combi_interp_matrix true [Q2Qc 0; Q2Qc 0] [Q2Qc 1; Q2Qc 2] (combi_scheme_standard 2 1 3)
     (fun p => match p with [x; y] => [(x * x + y)%Qc; (x * y * y)%Qc] | _ => [] end) 2 [[Q2Qc (1 # 4); Q2Qc 1]])
    = [[(17 # 16)%Q; (1 # 4)%Q]] /\
  combi_total_points true (combi_scheme_standard 2 1 3) = 49 /\ combi_total_points_naive true (combi_scheme_standard 2 1 3) = 109 /\
  hier_factors 1 [C02_trap_rule false (Q2Qc 0) (Q2Qc 1)] [hat1 (Q2Qc 0) (Q2Qc 1) 2 1] [2] [Q2Qc (1 # 4)].
Proof.
  split; [exact (C02_cross_product_order [1; 2; 0]%nat [[Q2Qc 0; Q2Qc 1]; [Q2Qc 2; Q2Qc 3; Q2Qc 4]; [Q2Qc 5; Q2Qc 6]]
                   ltac:(repeat constructor))|].
  split; [reflexivity|]. split; [vm_compute; reflexivity|]. split; [vm_compute; reflexivity|]. split; [vm_compute; reflexivity|].
  constructor; [| |constructor].
  - intros l Hl. rewrite C02_trap_rule_app1.
    rewrite (hat1_trap_fine false (Q2Qc 0) (Q2Qc 1) 2 1 l); [apply Qc_is_canon; reflexivity|reflexivity|lia|exact Hl|simpl; lia].
  - intros l Hl. rewrite C02_trap_rule_app1.
    apply (StdHierTrap.hat1_trap_coarse false (Q2Qc 0) (Q2Qc 1) 2 1 l); [reflexivity|lia|lia|reflexivity].
Qed.

(* ONE Print Assumptions for the round-2 theorems (each Print Assumptions walks the whole dependency closure, ~0.7 s; the quick
   tier re-compiles this file on every run): the tuple below mentions every theorem of this section, so its assumption set is
   the union of theirs. *)
Definition C02_round2_all := (C02_union_equals_sparse_grid_adaptive,
  C02_union_equals_sparse_grid_closed_form,
  C02_union_is_diagonal_union_closed_form,
  C02_component_points_count,
  C02_total_points_adaptive,
  C02_total_points_closed_form,
  C02_union_points_closed_form,
  C02_combi_interp_linear,
  C02_combi_integral_linear,
  C02_span_interp_exact,
  C02_span_integral_exact,
  C02_span_interp_exact_closed_form,
  C02_span_integral_exact_closed_form,
  C02_span_projection_closed_form,
  C02_points_weights_carry_integral,
  C02_points_weights_aligned,
  C02_interp_tolerant_equals_exact,
  C02_nodal_exact_numpy_isclose_safe,
  C02_nodal_exact_domain_tolerance,
  C02_nodal_exact_numpy_isclose_refuted,
  C02_nodal_exact_any_nested_family,
  C02_point_coeff_sum_one_any_nested_family,
  C02_union_equals_sparse_grid_any_nested_family,
  C02_affine_products_see_only_coefficient_sum,
  C02_affine_products_exact,
  C02_total_points_both_modes,
  C02_total_points_naive_adaptive,
  C02_distinct_points_le_naive,
  C02_vector_valued_componentwise,
  C02_nodal_exact_vector_valued,
  C02_interpolate_grid_is_pointwise,
  C02_cross_product_order,
  C02_interpolate_grid_entry,
  C02_hier_quadrature_any_family).
Print Assumptions C02_round2_all.

(* non-vacuity: d=2, lmin=1, lmax=3 on [0,1]x[0,2] with boundary points: 49 distinct points = 1*(27+25+27) - 1*(15+15);
   the point (1/4, 1) lies in the union through the diagonal grid (2,2); the function 2*phi_{(2,2),(1,3)} - 3*phi_{(1,3),(1,5)}
   satisfies the hypotheses of the span theorems (no boundary points), its value at (1/3, 9/7) - not a grid point of any level -
   is 2*8/21 - 3*4/7 = -20/21 and its combined interpolant equals it *)
Example C02_round2_nonvacuous :
  combi_total_points true (combi_scheme_standard 2 1 3) = 49 /\
  Z.of_nat (length (union_points true [Q2Qc 0; Q2Qc 0] [Q2Qc 1; Q2Qc 2] (combi_scheme_standard 2 1 3))) = 49 /\
  in_union true [Q2Qc 0; Q2Qc 0] [Q2Qc 1; Q2Qc 2] (combi_scheme_standard 2 1 3) [Q2Qc (1 # 4); Q2Qc 1] /\
  (forall al tau i, In (al, (tau, i)) [(Q2Qc 2, ([2; 2], [1; 3])); (Q2Qc (-3), ([1; 3], [1; 5]))] ->
     length tau = 2%nat /\ Forall2 (hier_idx false 1) tau i /\ sumZ (eff_level 1 tau) <= 3 - 1 + Z.of_nat 2 * 1) /\
  span_eval [Q2Qc 0; Q2Qc 0] [Q2Qc 1; Q2Qc 2] [(Q2Qc 2, ([2; 2], [1; 3])); (Q2Qc (-3), ([1; 3], [1; 5]))] [Q2Qc (1 # 3); Q2Qc (9 # 7)]
    = Q2Qc (-20 # 21) /\
  combi_interp false [Q2Qc 0; Q2Qc 0] [Q2Qc 1; Q2Qc 2] (combi_scheme_standard 2 1 3)
    (span_eval [Q2Qc 0; Q2Qc 0] [Q2Qc 1; Q2Qc 2] [(Q2Qc 2, ([2; 2], [1; 3])); (Q2Qc (-3), ([1; 3], [1; 5]))]) [Q2Qc (1 # 3); Q2Qc (9 # 7)]
    = Q2Qc (-20 # 21).
Proof.
  assert (box_ok [Q2Qc 0; Q2Qc 0] [Q2Qc 1; Q2Qc 2]) as Hbox by (repeat constructor).
  split; [vm_compute; reflexivity|].
  split; [rewrite (C02_total_points_closed_form true _ _ 1 1 3 ltac:(lia) Hbox eq_refl eq_refl); vm_compute; reflexivity|].
  split; [apply (C02_union_is_diagonal_union_closed_form true _ _ 1 1 3 _ ltac:(lia)); exists [2; 2];
          split; [reflexivity|]; split; [repeat constructor; lia|]; split; [reflexivity|vm_compute; reflexivity]|].
  split.
  { intros al tau i [E|[E|[]]]; injection E as <- <- <-; (split; [reflexivity|]); (split; [|vm_compute; discriminate]);
      (constructor; [|constructor; [|constructor]]);
      (split; [lia|split; [simpl; lia|split; [intros _; simpl; lia|left; reflexivity]]]). }
  split; apply Qc_is_canon; vm_compute; reflexivity.
Qed.
