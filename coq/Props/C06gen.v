(* C06 / C03 - source-derived model of the level bookkeeping of the dimension-wise strategy. Property theorems only.
   coq/Gen/DimWiseGen.v is GENERATED from sparseSpACE/spatiallyAdaptiveSingleDimension2.py of the working tree by
   harness/translate/py2gallina_c06.py (front end of the shared translator: declared parameter types, object views of the
   refinement containers / objects, `break` as a loop flag) at the start of every ./check C06 and ./check C03; these theorems are
   re-checked against what the source says now.  Kept in its own file so that a change of the source that breaks the equivalence
   does not take the theorems of Props/C06.v / Props/C03.v down with it (see harness/vp/props/_c06_gen.py).
   A refinement object is viewed as its levels [l0; l1], a container as the list of these (lv_of, views). *)
From Coq Require Import ZArith List Bool QArith Qcanon Lia.
From SG Require Import Base.QcUtil Base.PyLib Base.PyNum Base.PyC06 Model.RefTree Model.DimWise Model.DimWiseCache
  Gen.DimWiseGen Proofs.GenDimWiseEq.
Import ListNotations.
Local Open Scope Z_scope.

(* generated modify_according_to_levelvec = the model's, for every dimension index inside the level vector and lmax / lmin *)
Theorem C06_gen_modify_according_to_levelvec : forall lmaxs lmins sv (d : nat) ml levelvec,
  (d < length levelvec)%nat -> (d < length lmaxs)%nat -> (d < length lmins)%nat ->
  SpatiallyAdaptiveSingleDimensions2_modify_according_to_levelvec lmaxs lmins sv (Z.of_nat d) ml levelvec
  = Some (modify_according_to_levelvec sv (nth d levelvec 0) ml (nth d lmaxs 0) (nth d lmins 0)).
Proof. exact gen_modify_eq. Qed.
Print Assumptions C06_gen_modify_according_to_levelvec.

(* generated update_coarsening_values = the model's update_coarsening: the returned overshoot AND the coarsening level written
   to every object (in container order), for every container content and every lmax *)
Theorem C06_gen_update_coarsening_values : forall lmaxs objs (d : nat), (d < length lmaxs)%nat ->
  SpatiallyAdaptiveSingleDimensions2_update_coarsening_values lmaxs (views objs) (Z.of_nat d)
  = Some (snd (update_coarsening (nth d lmaxs 0) objs), map i_coarse (fst (update_coarsening (nth d lmaxs 0) objs))).
Proof. exact gen_update_coarsening_eq. Qed.
Print Assumptions C06_gen_update_coarsening_values.

(* generated get_max_level on a cache miss = the model's two scans; the declared fuel S (len(objects)) of both while loops
   suffices (the result is Some), for every container content and position *)
Theorem C06_gen_get_max_level : forall dict objs (i : nat) (d : Z),
  (i < length objs)%nat -> py_c06_dict_has dict d (Z.of_nat i) = false ->
  SpatiallyAdaptiveSingleDimensions2_get_max_level dict (views objs) (lv_of (nth i objs dflt)) (Z.of_nat i) d
  = Some (get_max_level objs i).
Proof. exact gen_get_max_level_miss. Qed.
Print Assumptions C06_gen_get_max_level.

(* ... and with the dictionary max_level_dict it is the cached function of Model/DimWiseCache.v (whose transparency between
   two resets is C03_max_level_cache_transparent) *)
Theorem C06_gen_get_max_level_cached : forall c objs (d i : nat), (i < length objs)%nat ->
  SpatiallyAdaptiveSingleDimensions2_get_max_level (enc_cache c) (views objs) (lv_of (nth i objs dflt)) (Z.of_nat i) (Z.of_nat d)
  = Some (fst (get_max_level_cached c objs d i)).
Proof. exact gen_get_max_level_cached. Qed.
Print Assumptions C06_gen_get_max_level_cached.

(* non-vacuity: the generated functions evaluated on a tree with a rotation-made shallow leaf (levels 0 3 2 1 3 2 3 0) *)
Definition ex_objs : list ival :=
  map (fun p => mkIval 0 0 (fst p) (snd p) 0) [(0, 3); (3, 2); (2, 1); (1, 3); (3, 2); (2, 3); (3, 0)].
Example C06_gen_nonvacuous :
  SpatiallyAdaptiveSingleDimensions2_get_max_level [] (views ex_objs) (lv_of (nth 1 ex_objs dflt)) 1 0 = Some 3 /\
  SpatiallyAdaptiveSingleDimensions2_get_max_level [[0; 1; 7]] (views ex_objs) (lv_of (nth 1 ex_objs dflt)) 1 0 = Some 7 /\
  SpatiallyAdaptiveSingleDimensions2_update_coarsening_values [2; 9] (views ex_objs) 0 = Some (1, [-1; -1; 0; -1; -1; -1; -1]) /\
  SpatiallyAdaptiveSingleDimensions2_modify_according_to_levelvec [6; 5] [3; 3] 1 0 3 [4; 3] = Some 1.
Proof. vm_compute. repeat split; reflexivity. Qed.
