(* C06 / C03 - source-derived model of the level bookkeeping of the dimension-wise strategy. Property theorems only.
   coq/Gen/DimWiseGen.v is GENERATED from sparseSpACE/spatiallyAdaptiveSingleDimension2.py of the working tree by
   harness/translate/py2gallina_c06.py (front end of the shared translator: declared parameter types, object views of the
   refinement containers / objects, `break` as a loop flag) at the start of every ./check C06 and ./check C03; these theorems are
   re-checked against what the source says now.  Kept in its own file so that a change of the source that breaks the equivalence
   does not take the theorems of Props/C06.v / Props/C03.v down with it (see harness/vp/props/_c06_gen.py).
   A refinement object is viewed as its levels [l0; l1], a container as the list of these (lv_of, views). *)
From Coq Require Import ZArith List Bool QArith Qcanon Lia.
From SG Require Import Base.QcUtil Base.PyLib Base.PyNum Base.PyC06 Model.RefTree Model.DimWise Model.DimWiseCache
  Gen.DimWiseGen Proofs.GenDimWiseEq Proofs.GenDimWiseSubEq Gen.RefContainerGen Proofs.GenRefContEq Proofs.GenDimWiseStripe Proofs.DimWiseInv.
Import ListNotations.
Local Open Scope Z_scope.

(* generated modify_according_to_levelvec = the model's, for every dimension index inside the level vector and lmax / lmin *)
Theorem C06_gen_modify_according_to_levelvec : forall lmaxs lmins sv (d : nat) ml levelvec,
  (d < length levelvec)%nat -> (d < length lmaxs)%nat -> (d < length lmins)%nat ->
  SpatiallyAdaptiveSingleDimensions2_modify_according_to_levelvec lmaxs lmins sv (Z.of_nat d) ml levelvec
  = Some (modify_according_to_levelvec sv (nth d levelvec 0) ml (nth d lmaxs 0) (nth d lmins 0)).
Proof. exact gen_modify_eq. Qed.
Print Assumptions C06_gen_modify_according_to_levelvec.

(* generated update_coarsening_values = the model's update_coarsening: the returned overshoot AND the coarsening level written
   to every object (in container order), for every container content and every lmax *)
Theorem C06_gen_update_coarsening_values : forall lmaxs objs (d : nat), (d < length lmaxs)%nat ->
  SpatiallyAdaptiveSingleDimensions2_update_coarsening_values lmaxs (views objs) (Z.of_nat d)
  = Some (snd (update_coarsening (nth d lmaxs 0) objs), map i_coarse (fst (update_coarsening (nth d lmaxs 0) objs))).
Proof. exact gen_update_coarsening_eq. Qed.
Print Assumptions C06_gen_update_coarsening_values.

(* generated get_max_level on a cache miss = the model's two scans; the declared fuel S (len(objects)) of both while loops
   suffices (the result is Some), for every container content and position *)
Theorem C06_gen_get_max_level : forall dict objs (i : nat) (d : Z),
  (i < length objs)%nat -> py_c06_dict_has dict d (Z.of_nat i) = false ->
  SpatiallyAdaptiveSingleDimensions2_get_max_level dict (views objs) (lv_of (nth i objs dflt)) (Z.of_nat i) d
  = Some (get_max_level objs i).
Proof. exact gen_get_max_level_miss. Qed.
Print Assumptions C06_gen_get_max_level.

(* ... and with the dictionary max_level_dict it is the cached function of Model/DimWiseCache.v (whose transparency between
   two resets is C03_max_level_cache_transparent) *)
Theorem C06_gen_get_max_level_cached : forall c objs (d i : nat), (i < length objs)%nat ->
  SpatiallyAdaptiveSingleDimensions2_get_max_level (enc_cache c) (views objs) (lv_of (nth i objs dflt)) (Z.of_nat i) (Z.of_nat d)
  = Some (fst (get_max_level_cached c objs d i)).
Proof. exact gen_get_max_level_cached. Qed.
Print Assumptions C06_gen_get_max_level_cached.

(* generated get_subtraction_value - the rule that decides which points a component level sees - for the coarsening versions 2, 6,
   7 and 8 = the model's get_subtraction_value, for every container content, position, dimension, level vector, lmax / lmin and
   vector of maximum coarsenings (one per dimension); it calls the generated get_max_level (consistent max_level_dict) and the
   generated modify_according_to_levelvec; the three `while True` loops are v68_loop / v7_loop fuel for fuel (declared fuel
   S (sub_fuel): both sides run out of fuel together, and C03_stripes_defined shows they do not); the second component is the entry
   the call writes to max_level_dict.  (phase 4) *)
Theorem C06_gen_get_subtraction_value : forall o lmaxs lmins dict objs (i d dim : nat) mcs levelvec,
  (i < length objs)%nat -> (d < length levelvec)%nat -> (d < length lmaxs)%nat -> (d < length lmins)%nat ->
  length mcs = dim -> (d < dim)%nat ->
  (forall v, py_c06_dict_get dict (Z.of_nat d) (Z.of_nat i) = Some v -> v = get_max_level objs i) ->
  (o_version o = 2 \/ o_version o = 6 \/ o_version o = 7 \/ o_version o = 8) ->
  SpatiallyAdaptiveSingleDimensions2_get_subtraction_value lmaxs lmins dict (o_version o) (Z.of_nat dim)
    (lv_of (nth i objs dflt)) (views objs) (Z.of_nat i) mcs (Z.of_nat d) levelvec
  = gsv_result objs d i (get_subtraction_value o dim (nth d lmins 0) (nth d lmaxs 0) mcs objs i d (nth d levelvec 0)).
Proof. exact gen_gsv_eq. Qed.
Print Assumptions C06_gen_get_subtraction_value.

(* the branches of versions 4 and 5 are declared outside the model: the generated function raises there (nothing is assumed) *)
Theorem C06_gen_get_subtraction_value_outside_model : forall lmaxs lmins dict v dimz ro objs i mcs d levelvec, v = 4 \/ v = 5 ->
  SpatiallyAdaptiveSingleDimensions2_get_subtraction_value lmaxs lmins dict v dimz ro objs i mcs d levelvec = None.
Proof. exact gen_gsv_outside. Qed.

(* non-vacuity: the generated functions evaluated on a tree with a rotation-made shallow leaf (levels 0 3 2 1 3 2 3 0) *)
Definition ex_objs : list ival :=
  map (fun p => mkIval 0 0 (fst p) (snd p) 0) [(0, 3); (3, 2); (2, 1); (1, 3); (3, 2); (2, 3); (3, 0)].
Example C06_gen_nonvacuous :
  SpatiallyAdaptiveSingleDimensions2_get_max_level [] (views ex_objs) (lv_of (nth 1 ex_objs dflt)) 1 0 = Some 3 /\
  SpatiallyAdaptiveSingleDimensions2_get_max_level [[0; 1; 7]] (views ex_objs) (lv_of (nth 1 ex_objs dflt)) 1 0 = Some 7 /\
  SpatiallyAdaptiveSingleDimensions2_update_coarsening_values [2; 9] (views ex_objs) 0 = Some (1, [-1; -1; 0; -1; -1; -1; -1]) /\
  SpatiallyAdaptiveSingleDimensions2_modify_according_to_levelvec [6; 5] [3; 3] 1 0 3 [4; 3] = Some 1.
Proof. vm_compute. repeat split; reflexivity. Qed.

(* non-vacuity (phase 4): version 6 on the tree above, dimension 0 of 2, lmax = (6, 5), lmin = 3, maximum coarsenings (3, 2):
   position 1 (a level-2 point whose subtree reaches level 3): the distributed coarsening is 2 on component level 5 *)
Example C06_gen_subtraction_nonvacuous :
  SpatiallyAdaptiveSingleDimensions2_get_subtraction_value [6; 5] [3; 3] [] 6 2 (lv_of (nth 1 ex_objs dflt)) (views ex_objs) 1 [3; 2] 0 [5; 3]
  = Some (2, [[0; 1; 3]]) /\
  SpatiallyAdaptiveSingleDimensions2_get_subtraction_value [6; 5] [3; 3] [] 8 2 (lv_of (nth 1 ex_objs dflt)) (views ex_objs) 1 [3; 2] 0 [6; 3]
  = Some (2, [[0; 1; 3]]).
Proof. vm_compute. split; reflexivity. Qed.

(* generated RefinementContainer.get_next_object_for_refinement (sparseSpACE/RefinementContainer.py; the search step of the margin
   selection loop of SpatiallyAdaptivBase.refine) = Model/RefTree.v cont_get_next: the same object index is found (or none) and the
   same searchPosition is stored, for every benefit list, tolerance and cursor state with startNewObjects <= size.  The objects are
   viewed as their benefits; the not-found index None is written -1 (front-end encoding).  (phase 4) *)
Theorem C06_gen_get_next_object_for_refinement : forall (ben : list Qc) tol (c : cont),
  length ben = length (c_objs c) -> (c_startNew c <= length (c_objs c))%nat ->
  RefinementContainer_get_next_object_for_refinement (Z.of_nat (c_startNew c)) (Z.of_nat (c_search c)) ben tol
  = Some (match fst (cont_get_next ben tol c) with
          | Some i => (true, (Z.of_nat i, Z.of_nat (c_search (snd (cont_get_next ben tol c)))))
          | None => (false, (-1, Z.of_nat (c_search (snd (cont_get_next ben tol c)))))
          end).
Proof. exact gen_get_next_eq. Qed.
Print Assumptions C06_gen_get_next_object_for_refinement.

Example C06_gen_get_next_nonvacuous :
  RefinementContainer_get_next_object_for_refinement 4 1 [Q2Qc 1; Q2Qc (1 # 2); Q2Qc 1; Q2Qc 1; Q2Qc 1] (Q2Qc (9 # 10)) = Some (true, (2, 3)) /\
  RefinementContainer_get_next_object_for_refinement 0 3 [Q2Qc 1; Q2Qc 0; Q2Qc 1; Q2Qc 0] (Q2Qc (9 # 10)) = Some (false, (-1, 3)).
Proof. vm_compute. split; reflexivity. Qed.

(* (phase 5) the stripe of (dimension, level) - the 1D point set of get_point_coord_for_each_dim that all C03 theorems speak about
   (Model/DimWise.v stripe_dim / dw_stripe_coords) - is computed with the GENERATED get_subtraction_value: in every state
   satisfying the C06 invariant (hence every reachable state), for the coarsening versions 2, 6, 7, 8, every dimension and every
   level vector whose component d is the level.  Hand-modelled remains of get_point_coord_for_each_dim: the loop over the
   container and the threshold test levels[1] <= max(levelvec[d] - subtraction_value, 1) *)
Theorem C06_gen_stripe_uses_generated_subtraction_value : forall a b o st (d : nat) l levelvec, DwInv a b st ->
  (o_version o = 2 \/ o_version o = 6 \/ o_version o = 7 \/ o_version o = 8) ->
  (d < st_dim st)%nat -> length levelvec = st_dim st -> nth d levelvec 0 = l ->
  stripe_dim o st d l
  = stripe_with (fun i => option_map fst
       (SpatiallyAdaptiveSingleDimensions2_get_subtraction_value (st_lmax st) (repeat (st_lmin st) (st_dim st)) [] (o_version o)
          (Z.of_nat (st_dim st)) (lv_of (nth i (nth d (st_trees st) []) dflt)) (views (nth d (st_trees st) [])) (Z.of_nat i)
          (max_coarsenings st) (Z.of_nat d) levelvec)) l (nth d (st_trees st) []).
Proof. exact gen_stripe_dim_inv. Qed.
Print Assumptions C06_gen_stripe_uses_generated_subtraction_value.
