(* C11 — Romberg extrapolation grids give consistent, exact-to-order weights.
   Property theorems only; each is closed by `exact` of a lemma from Proofs/.  Model: Model/Romberg.v. *)
From Coq Require Import ZArith List QArith Qcanon Bool Arith Lia.
From SG Require Import Base.QcUtil Model.Romberg Proofs.RombergBasics Proofs.RombergCoeff Proofs.RombergTree
  Proofs.RombergSliced Proofs.RombergBalanced Proofs.RombergExact Proofs.RombergGrouped Proofs.RombergSimpson Proofs.RombergFuel.
Import ListNotations.
Open Scope Qc_scope.

(* --- slice algebra: for EVERY slice and EVERY support pair L <> R (accepted by the asserts of the code) the two
       weights sum to the slice width and reproduce int_l^r x dx = (r^2 - l^2)/2 *)
Theorem C11_slice_weights_sum : forall s L R wl wr,
  romberg_slice_pair s L R = Some (wl, wr) -> wl + wr = sl_width s.
Proof. exact romberg_slice_pair_sum. Qed.
Theorem C11_slice_first_moment : forall s L R wl wr,
  romberg_slice_pair s L R = Some (wl, wr) -> L * wl + R * wr = Qchalf * (sl_r s * sl_r s - sl_l s * sl_l s).
Proof. exact romberg_slice_pair_moment. Qed.
Print Assumptions C11_slice_weights_sum.
Print Assumptions C11_slice_first_moment.

(* --- extrapolation coefficients: independent of the interval; sum to one for EVERY m (no bound), every exponent >= 1 *)
Theorem C11_romberg_coeff_interval_independent : forall a b a' b' e m j,
  a <> b -> a' <> b' -> romberg_coefficient a b e m j = romberg_coefficient a' b' e m j.
Proof. exact romberg_coefficient_interval_independent. Qed.
Theorem C11_romberg_coeff_sum_one : forall a b e m, a <> b -> (1 <= e)%nat ->
  sumQ (map (romberg_coefficient a b e m) (seq 0 (S m))) = 1.
Proof. exact romberg_coeff_sum_one. Qed.
Print Assumptions C11_romberg_coeff_interval_independent.
Print Assumptions C11_romberg_coeff_sum_one.

(* --- one extrapolated slice (Romberg or trapezoidal), any support sequence the code accepts *)
Theorem C11_slice_final_consistent : forall sv s cs,
  slice_final sv s = Some cs -> wsum cs = sl_width s /\ wmom cs = half_sq (sl_l s) (sl_r s).
Proof. exact slice_final_sums. Qed.
Print Assumptions C11_slice_final_consistent.

(* --- the whole pipeline set_grid + get_weights: for EVERY grid and level assignment the code accepts (model result
       Some), EVERY slice grouping (UNIT, GROUPED, GROUPED_OPTIMIZED), both slice versions, default containers, with or
       without forced balancing: the weights sum to b - a and integrate x exactly (sum_key key*weight = (b^2-a^2)/2).
       [lo] is the switch of the Simpson coefficients (irrelevant for default containers). *)
Theorem C11_sliced_weights_consistent : forall lo g sv force grid levels r,
  extrapolation_grid_from lo g sv CV_Default force grid levels = Some r ->
  sumQ (er_weights r) = grid_b r - grid_a r /\ wmom (er_dict r) = half_sq (grid_a r) (grid_b r).
Proof. exact sliced_weights_consistent. Qed.
Print Assumptions C11_sliced_weights_consistent.

(* ... with unit slices this holds for BOTH container versions (a Simpson container with one slice is that slice) *)
Theorem C11_sliced_unit_weights_consistent : forall lo sv cv force grid levels r,
  extrapolation_grid_from lo G_Unit sv cv force grid levels = Some r ->
  sumQ (er_weights r) = grid_b r - grid_a r /\ wmom (er_dict r) = half_sq (grid_a r) (grid_b r).
Proof. exact sliced_unit_weights_consistent. Qed.
Print Assumptions C11_sliced_unit_weights_consistent.

(* ... a container of 2^K >= 2 adjacent slices of equal width carries the weights of the complete grid of depth K:
       they sum to its width and integrate x exactly, for EVERY K *)
Theorem C11_grouped_container_consistent : forall lo sv K h c cs,
  length c = (2 ^ K)%nat -> (1 <= K)%nat -> chain c -> Forall (fun s => sl_width s = h) c ->
  Forall (fun s => sl_l s < sl_r s) c ->
  container_final_from lo sv CV_Default c = Some cs ->
  wsum cs = container_right c - container_left c /\ wmom cs = half_sq (container_left c) (container_right c).
Proof. exact multi_container_sums. Qed.
Print Assumptions C11_grouped_container_consistent.

(* ... the run-time alignment checker of the harness (keys of the collected dictionary = grid points, evaluated by the
       extracted model on every explored case) is sound: the list returned by get_weights then has the exact first moment *)
Theorem C11_weights_aligned_first_moment : forall r,
  map fst (er_dict r) = er_grid r -> dotQ (er_grid r) (er_weights r) = wmom (er_dict r).
Proof. exact aligned_first_moment. Qed.
(* ... the fuel of the support-sequence recursion is sufficient; the power-of-two test of adjust_containers is exact *)
Theorem C11_support_sequence_fuel_sufficient : forall levels fs f1 f2 start stop,
  (stop - start <= f1)%nat -> (stop - start <= f2)%nat ->
  supp_rec f1 levels start stop fs = supp_rec f2 levels start stop fs.
Proof. exact supp_rec_fuel_irrelevant. Qed.
Theorem C11_is_pow2_exact : forall n, is_pow2 n = true <-> exists K, n = (2 ^ K)%nat.
Proof. exact is_pow2_iff. Qed.
Print Assumptions C11_weights_aligned_first_moment.
Print Assumptions C11_support_sequence_fuel_sufficient.

(* --- tree completion, for EVERY tree *)
Theorem C11_force_full_tree_adds_only : forall t, Subseq (tree_points t) (tree_points (force_full t)).
Proof. exact force_full_adds_only. Qed.
Theorem C11_force_full_tree_keeps_points : forall t x, In x (tree_points t) -> In x (tree_points (force_full t)).
Proof. exact force_full_keeps_points. Qed.
Theorem C11_force_full_tree_zero_or_two_children : forall t, full (force_full t).
Proof. exact force_full_zero_or_two_children. Qed.
Theorem C11_force_full_tree_idempotent_on_full : forall t, full t -> force_full t = t.
Proof. exact force_full_idempotent_on_full. Qed.
Theorem C11_init_tree_keeps_grid : forall grid levels t,
  length grid = length levels -> init_tree grid levels = Some t -> tree_points t = inner grid.
Proof. exact init_tree_keeps_grid. Qed.
Print Assumptions C11_force_full_tree_adds_only.
Print Assumptions C11_force_full_tree_zero_or_two_children.
Print Assumptions C11_init_tree_keeps_grid.

(* --- balanced extrapolation: EVERY balanced tree over a strictly increasing grid, EVERY depth (Neville tableau) *)
Theorem C11_balanced_dict_consistent : forall grid levels d,
  strictly_increasing_grid grid levels -> (1 <= list_max levels)%nat ->
  balanced_dict grid levels = Some d ->
  wsum d = nthQ grid (length grid - 1) - nthQ grid 0 /\ wmom d = half_sq (nthQ grid 0) (nthQ grid (length grid - 1)).
Proof. exact balanced_dict_consistent. Qed.
(* ... and the returned weight list, given the run-time checker keys_in_grid (evaluated on every explored case) *)
Theorem C11_balanced_weights_consistent : forall grid levels d ws,
  strictly_increasing_grid grid levels -> (1 <= list_max levels)%nat ->
  balanced_dict grid levels = Some d -> balanced_weights grid levels = Some ws ->
  keys_in_grid d grid = true ->
  sumQ ws = nthQ grid (length grid - 1) - nthQ grid 0 /\ dotQ grid ws = half_sq (nthQ grid 0) (nthQ grid (length grid - 1)).
Proof. exact balanced_weights_consistent. Qed.
Print Assumptions C11_balanced_dict_consistent.
Print Assumptions C11_balanced_weights_consistent.

(* --- exactness degree on complete dyadic grids. BOUNDED (finite enumeration by vm_compute; the bounds are kept small
       enough for coqchk, which re-evaluates them without the VM):
       depth m = 1..4, three intervals, all groupings with Romberg slices (+ grouped trapezoid slices), default containers,
       with and without forced balancing: monomials up to degree 2m+1; [0,1], m = 5, 6 for UNIT/GROUPED, m = 7 for UNIT;
       balanced grid m = 1..5: degree 2m-1 *)
Theorem C11_full_romberg_exact_bounded : forall ab m v force,
  In ab intervals -> In m depths_sliced -> In v sliced_variants -> sliced_exact_check ab m v force = true.
Proof. exact full_romberg_exact_bounded. Qed.
Theorem C11_full_romberg_exact_deep_bounded : forall m g,
  In m depths_deep -> In g [G_Unit; G_Grouped] -> sliced_exact_check (0, 1) m (g, SV_Romberg) false = true.
Proof. exact full_romberg_exact_deep_bounded. Qed.
Theorem C11_full_romberg_exact_depth7_bounded : sliced_exact_check (0, 1) 7 (G_Unit, SV_Romberg) false = true.
Proof. exact sliced_exact_depth7. Qed.
Theorem C11_balanced_exact_bounded : forall ab m,
  In ab intervals -> In m depths_balanced -> balanced_exact_check ab m = true.
Proof. exact balanced_exact_bounded. Qed.
Print Assumptions C11_full_romberg_exact_bounded.
Print Assumptions C11_balanced_exact_bounded.

(* --- Simpson containers: the faithful model of the current code VIOLATES the statement (known finding) ... *)
Theorem C11_simpson_container_sum_refuted :
  exists grid levels r, extrapolation_grid_from 0 G_Grouped SV_Romberg CV_Simpson false grid levels = Some r /\
    sumQ (er_weights r) <> nthQ (er_grid r) (length (er_grid r) - 1) - nthQ (er_grid r) 0.
Proof. exact simpson_container_sum_refuted. Qed.
(* ... for EVERY K a Simpson container of 2^K >= 2 slices sums to (b-a)*(1 - c_{K,0}/3) instead of b-a
       (lo = 0: the code as it is; lo = 1: the proposed repair, where c_{K,0} = 0) *)
Theorem C11_simpson_container_sum_formula : forall lo sv K h c cs,
  length c = (2 ^ K)%nat -> (1 <= K)%nat -> (lo <= K)%nat -> chain c -> Forall (fun s => sl_width s = h) c ->
  Forall (fun s => sl_l s < sl_r s) c ->
  container_final_from lo sv CV_Simpson c = Some cs ->
  let a := container_left c in let b := container_right c in
  let T := (b - a) * (1 - romberg_coefficient_from lo a b 3 K 0 / (1 + 1 + 1)) in
  wsum cs = T /\ wmom cs = Qchalf * (a + b) * T.
Proof. exact simpson_container_sums. Qed.
(* ... the proposed repair (fixes/C11-simpson-romberg-level0.patch: levels 1..m) is consistent for EVERY grid, grouping,
       slice version and balancing flag; its coefficients sum to one for every m; it is exact to degree 3 (bounded) *)
Theorem C11_simpson_repair_weights_consistent : forall g sv force grid levels r,
  extrapolation_grid_from 1 g sv CV_Simpson force grid levels = Some r ->
  sumQ (er_weights r) = grid_b r - grid_a r /\ wmom (er_dict r) = half_sq (grid_a r) (grid_b r).
Proof. exact simpson_repair_weights_consistent. Qed.
Theorem C11_simpson_repair_coeff_sum_one : forall lo a b e m, a <> b -> (1 <= e)%nat -> (lo <= m)%nat ->
  sumQ (map (romberg_coefficient_from lo a b e m) (seq 0 (S m))) = 1.
Proof. exact romberg_coeff_from_sum_one. Qed.
Theorem C11_simpson_repair_exact_bounded : forall ab m g,
  In ab intervals -> In m (seq 1 4) -> In g [G_Grouped; G_Optimized] -> simpson_fixed_check ab m g = true.
Proof. exact simpson_fixed_exact_bounded. Qed.
Print Assumptions C11_simpson_container_sum_refuted.
Print Assumptions C11_simpson_repair_coeff_sum_one.
Print Assumptions C11_simpson_container_sum_formula.
Print Assumptions C11_simpson_repair_weights_consistent.

(* --- non-vacuity: concrete non-trivial inputs meet the hypotheses *)
Definition q (n : Z) (d : positive) : Qc := Q2Qc (n # d).
(* the grid of the repo's own test: weights 79/378, 194/567, 512/2835, 592/2835, 337/5670 *)
Example C11_nonvacuous_sliced :
  option_map (fun r => map this (er_weights r))
    (extrapolation_grid G_Unit SV_Romberg CV_Default false [0; q 1 2; q 5 8; q 3 4; 1] [0; 1; 3; 2; 0]%nat)
  = Some [(79 # 378)%Q; (194 # 567)%Q; (512 # 2835)%Q; (592 # 2835)%Q; (337 # 5670)%Q].
Proof. vm_compute. reflexivity. Qed.
(* forced balancing adds the points 1/4 and 7/8 and the result is accepted *)
Example C11_nonvacuous_forced :
  option_map (fun r => (map this (er_grid r), er_levels r))
    (extrapolation_grid G_Optimized SV_Romberg CV_Default true [0; q 1 2; q 5 8; q 3 4; 1] [0; 1; 3; 2; 0]%nat)
  = Some ([0%Q; (1 # 4)%Q; (1 # 2)%Q; (5 # 8)%Q; (3 # 4)%Q; (7 # 8)%Q; 1%Q], [0; 2; 1; 3; 2; 3; 0]%nat).
Proof. vm_compute. reflexivity. Qed.
(* a balanced, non-complete tree: hypotheses of C11_balanced_weights_consistent hold *)
Example C11_nonvacuous_balanced :
  let grid := [0; q 1 8; q 1 4; q 3 8; q 1 2; q 3 4; 1] in let levels := [0; 3; 2; 3; 1; 2; 0]%nat in
  strictly_increasing_grid grid levels /\ (1 <= list_max levels)%nat /\
  exists d ws, balanced_dict grid levels = Some d /\ balanced_weights grid levels = Some ws /\ keys_in_grid d grid = true /\
               length ws = 7%nat.
Proof.
  cbv zeta. split; [|split; [simpl; lia|]].
  - unfold strictly_increasing_grid. simpl. repeat split; reflexivity.
  - destruct (balanced_dict [0; q 1 8; q 1 4; q 3 8; q 1 2; q 3 4; 1] [0; 3; 2; 3; 1; 2; 0]%nat) as [d|] eqn:E;
      [|revert E; vm_compute; discriminate].
    exists d. eexists. split; [reflexivity|]. split; [unfold balanced_weights; rewrite E; reflexivity|].
    split; [|rewrite map_length; reflexivity].
    revert E. vm_compute. intro E. injection E as <-. reflexivity.
Qed.

(* ==================================================================================================================
   SOURCE-DERIVED MODEL (DESIGN.md 0.5).  Gen/ExtrapolationGen.v is regenerated from sparseSpACE/Extrapolation.py by
   harness/translate/py2gallina.py --target extrapolation at every ./setup.sh C11 and ./check C11; the theorems below are
   therefore re-checked against what the code says NOW.  Trusted reading: Python floats are exact rationals (Base/PyNum.v).
   Objects: EC c a b = the ExtrapolationCoefficients object of concrete class c (tag) with attributes a, b; levels and
   exponents are natural numbers in the hand-written model, hence the arguments Z.of_nat _. *)
From SG Require Import Base.PyLib Base.PyNum Gen.ExtrapolationGen Proofs.GenExtrapolationEq.
Open Scope Qc_scope.

(* get_step_width, get_romberg_coefficient (all four parameters), get_coefficient of the three classes through the
   generated dynamic dispatch: equal to the hand-written model for ALL arguments; precondition a <> b (for a = b the Python
   divides 0 by 0) and exponent >= 1 (exponent 0: 1 - 1 = 0 in the denominator) *)
Theorem C11_gen_get_step_width : forall c a b k,
  ExtrapolationCoefficients_get_step_width (mk_ExtrapolationCoefficients_t c a b) (Z.of_nat k) = Some (step_width a b k).
Proof. exact gen_get_step_width. Qed.
Theorem C11_gen_get_romberg_coefficient : forall c a b m j e lo, a <> b -> (1 <= e)%nat ->
  ExtrapolationCoefficients_get_romberg_coefficient (mk_ExtrapolationCoefficients_t c a b)
    (Z.of_nat m) (Z.of_nat j) (Z.of_nat e) (Z.of_nat lo) = Some (romberg_coefficient_from lo a b e m j).
Proof. exact gen_get_romberg_coefficient. Qed.
Theorem C11_gen_get_coefficient : forall c a b m j, a <> b ->
  ExtrapolationCoefficients_dyn_get_coefficient (mk_ExtrapolationCoefficients_t c a b) (Z.of_nat m) (Z.of_nat j)
  = Some (romberg_coefficient_from (cls_lo c) a b (cls_e c) m j).
Proof. exact gen_get_coefficient. Qed.
Print Assumptions C11_gen_get_romberg_coefficient.
Print Assumptions C11_gen_get_coefficient.

(* the factories: ExtrapolationCoefficientsFactory(version).get and RombergWeightFactory.get never raise and build the
   object of the class that belongs to the version *)
Theorem C11_gen_coefficients_factory_get : forall v a b s,
  ExtrapolationCoefficientsFactory_get (mk_ExtrapolationCoefficientsFactory_t v) a b s
  = Some (mk_ExtrapolationCoefficients_t (ver_cls v) a b).
Proof. exact gen_coefficients_factory_get. Qed.
Theorem C11_gen_weight_factory_get : forall a b v,
  RombergWeightFactory_get a b v
  = Some (mk_RombergWeights_t (ver_wcls v) a b v (mk_ExtrapolationCoefficients_t (ver_cls v) a b)).
Proof. exact gen_weight_factory_get. Qed.

(* the weights of the objects the factory hands out = the weight functions of the hand-written model (which the container
   theorems above are about): ROMBERG_DEFAULT / ROMBERG_LINEAR -> trapezoidal weights, ROMBERG_SIMPSON -> Simpson weights
   with the first level simpson_min_level *)
Theorem C11_gen_trap_boundary_weight : forall a b v m f, a <> b -> v <> ExtrapolationVersion_ROMBERG_SIMPSON ->
  RombergWeightFactory_get a b v = Some f ->
  RombergTrapezoidalWeights_get_boundary_point_weight f (Z.of_nat m) = Some (trap_boundary_weight a b (ver_e v) m).
Proof. exact gen_factory_trap_boundary. Qed.
Theorem C11_gen_trap_inner_weight : forall a b v l m f, a <> b -> v <> ExtrapolationVersion_ROMBERG_SIMPSON ->
  RombergWeightFactory_get a b v = Some f ->
  RombergTrapezoidalWeights_get_inner_point_weight f (Z.of_nat l) (Z.of_nat m) = trap_inner_weight a b (ver_e v) l m.
Proof. exact gen_factory_trap_inner. Qed.
Theorem C11_gen_simpson_boundary_weight : forall a b m f, a <> b ->
  RombergWeightFactory_get a b ExtrapolationVersion_ROMBERG_SIMPSON = Some f ->
  RombergSimpsonWeights_get_boundary_point_weight f (Z.of_nat m) = Some (simpson_boundary_weight a b m).
Proof. exact gen_factory_simpson_boundary. Qed.
Theorem C11_gen_simpson_inner_weight : forall a b l m f, a <> b ->
  RombergWeightFactory_get a b ExtrapolationVersion_ROMBERG_SIMPSON = Some f ->
  RombergSimpsonWeights_get_inner_point_weight f (Z.of_nat l) (Z.of_nat m) = simpson_inner_weight a b l m.
Proof. exact gen_factory_simpson_inner. Qed.
Print Assumptions C11_gen_trap_boundary_weight.
Print Assumptions C11_gen_trap_inner_weight.
Print Assumptions C11_gen_simpson_boundary_weight.
Print Assumptions C11_gen_simpson_inner_weight.

(* slice algebra: RombergGridSlice.get_weight_for_left_and_right_support_point (self.left_point / right_point / width are
   parameters of the generated function) IS romberg_slice_pair, asserts included *)
Theorem C11_gen_slice_pair : forall s L R,
  RombergGridSlice_get_weight_for_left_and_right_support_point (sl_l s) (sl_r s) (sl_width s) L R = romberg_slice_pair s L R.
Proof. exact gen_slice_pair. Qed.
Print Assumptions C11_gen_slice_pair.

(* slice weight assembly: RombergGridSlice.get_final_weights (with the inherited get_support_points_with_their_weights and the
   no-op subtract_constants of that class; coefficient factory of version ROMBERG_DEFAULT) and
   TrapezoidalGridSlice.get_final_weights ARE the model's romberg_slice_final / trapezoid_slice_final; the Python returns a
   defaultdict(list) keyed by grid points, fdict_of groups the model's contribution list in the same way (insertion order) *)
Theorem C11_gen_romberg_slice_final : forall s,
  RombergGridSlice_get_final_weights (sl_l s) (sl_r s) (sl_width s) (Z.of_nat (sl_max_level s)) (sl_supp s)
    (mk_ExtrapolationCoefficientsFactory_t ExtrapolationVersion_ROMBERG_DEFAULT) = option_map fdict_of (romberg_slice_final s).
Proof. exact gen_romberg_slice_final. Qed.
Theorem C11_gen_trapezoid_slice_final : forall s,
  TrapezoidalGridSlice_get_final_weights (sl_l s) (sl_r s) (sl_width s) = option_map fdict_of (trapezoid_slice_final s).
Proof. exact gen_trapezoid_slice_final. Qed.
Print Assumptions C11_gen_romberg_slice_final.
Print Assumptions C11_gen_trapezoid_slice_final.

(* support sequences: ExtrapolationGrid.compute_support_sequence with its recursion __compute_support_sequence_rec (self.grid,
   self.grid_levels as parameters; indices and levels are natural numbers in the hand-written model).  The generated recursion is
   fuelled; with ANY fuel above stop - start it computes the model's recursion - in particular the fuel S (len(grid_levels))
   that the generated wrapper passes suffices (out of fuel = None never happens there).  Preconditions of the wrapper theorem:
   len(grid) = len(grid_levels) (asserted by set_grid) and a non-empty grid (for an empty one the Python raises IndexError) *)
Theorem C11_gen_support_sequence_rec_fuel_sufficient : forall lv fs fe fuel f start stop,
  (stop - start < fuel)%nat -> (stop - start <= f)%nat ->
  ExtrapolationGrid___compute_support_sequence_rec_rec fuel (map Z.of_nat lv) (Z.of_nat start) (Z.of_nat stop) (Z.of_nat fs) fe
  = Some (map zpair (supp_rec f lv start stop fs)).
Proof. exact gen_support_rec. Qed.
Theorem C11_gen_compute_support_sequence : forall grid lv fs fe, length grid = length lv -> (1 <= length grid)%nat ->
  ExtrapolationGrid_compute_support_sequence grid (map Z.of_nat lv) (Z.of_nat fs) fe = Some (support_sequence grid lv fs).
Proof. exact gen_compute_support_sequence. Qed.
Theorem C11_gen_grid_step_width : forall a b k, ExtrapolationGrid_get_step_width a b (Z.of_nat k) = Some (step_width a b k).
Proof. exact gen_grid_step_width. Qed.
Print Assumptions C11_gen_support_sequence_rec_fuel_sufficient.
Print Assumptions C11_gen_compute_support_sequence.

(* C11 for the generated definitions *)
(* ... one extrapolated slice: whenever get_final_weights returns, the weights in its dictionary sum to the slice width and
   reproduce int x (EVERY support sequence the code accepts, every max_level) *)
Theorem C11_gen_romberg_slice_final_consistent : forall s d,
  RombergGridSlice_get_final_weights (sl_l s) (sl_r s) (sl_width s) (Z.of_nat (sl_max_level s)) (sl_supp s)
    (mk_ExtrapolationCoefficientsFactory_t ExtrapolationVersion_ROMBERG_DEFAULT) = Some d ->
  fdict_wsum d = sl_width s /\ fdict_wmom d = half_sq (sl_l s) (sl_r s).
Proof. exact gen_romberg_slice_final_consistent. Qed.
Theorem C11_gen_trapezoid_slice_final_consistent : forall s d,
  TrapezoidalGridSlice_get_final_weights (sl_l s) (sl_r s) (sl_width s) = Some d ->
  fdict_wsum d = sl_width s /\ fdict_wmom d = half_sq (sl_l s) (sl_r s).
Proof. exact gen_trapezoid_slice_final_consistent. Qed.
Print Assumptions C11_gen_romberg_slice_final_consistent.
Theorem C11_gen_slice_weights_consistent : forall l r L R wl wr,
  RombergGridSlice_get_weight_for_left_and_right_support_point l r (r - l) L R = Some (wl, wr) ->
  wl + wr = r - l /\ L * wl + R * wr = Qchalf * (r * r - l * l).
Proof. exact gen_slice_pair_consistent. Qed.
Theorem C11_gen_coefficients_sum_one : forall c a b m, a <> b -> (cls_lo c <= m)%nat ->
  exists cs, py_mapM (fun j => ExtrapolationCoefficients_dyn_get_coefficient (mk_ExtrapolationCoefficients_t c a b) (Z.of_nat m) j)
                     (py_range (Z.of_nat (S m))) = Some cs /\ sumQ cs = 1.
Proof. exact gen_coefficients_sum_one. Qed.
Theorem C11_gen_coefficients_interval_independent : forall c a b a' b' m j, a <> b -> a' <> b' ->
  ExtrapolationCoefficients_dyn_get_coefficient (mk_ExtrapolationCoefficients_t c a b) (Z.of_nat m) (Z.of_nat j)
  = ExtrapolationCoefficients_dyn_get_coefficient (mk_ExtrapolationCoefficients_t c a' b') (Z.of_nat m) (Z.of_nat j).
Proof. exact gen_coefficients_interval_independent. Qed.
Print Assumptions C11_gen_slice_weights_consistent.
Print Assumptions C11_gen_coefficients_sum_one.

(* non-vacuity: the generated functions compute the weights of the repo's own test (test_RombergWeightFactory-style values) *)
Example C11_gen_nonvacuous_support :
  option_map (map (fun p => (this (fst p), this (snd p))))
    (ExtrapolationGrid_compute_support_sequence [0; q 1 2; q 5 8; q 3 4; 1] [0; 1; 3; 2; 0]%Z 1 2)
  = Some [(0%Q, 1%Q); ((1 # 2)%Q, 1%Q); ((1 # 2)%Q, (3 # 4)%Q); ((1 # 2)%Q, (5 # 8)%Q)].
Proof. vm_compute. reflexivity. Qed.
Example C11_gen_nonvacuous :
  (exists f, RombergWeightFactory_get 0 1 ExtrapolationVersion_ROMBERG_DEFAULT = Some f /\
     option_map this (RombergTrapezoidalWeights_get_boundary_point_weight f 2%Z) = Some (7 # 90)%Q /\
     option_map this (RombergTrapezoidalWeights_get_inner_point_weight f 1%Z 2%Z) = Some (2 # 15)%Q /\
     option_map this (RombergTrapezoidalWeights_get_inner_point_weight f 2%Z 2%Z) = Some (16 # 45)%Q /\
     RombergTrapezoidalWeights_get_inner_point_weight f 3%Z 2%Z = None) /\
  (exists f, RombergWeightFactory_get 0 1 ExtrapolationVersion_ROMBERG_SIMPSON = Some f /\
     option_map this (RombergSimpsonWeights_get_boundary_point_weight f 1%Z) = Some (1 # 6)%Q /\
     option_map this (RombergSimpsonWeights_get_inner_point_weight f 1%Z 1%Z) = Some (2 # 3)%Q) /\
  option_map (fun p => (this (fst p), this (snd p)))
    (RombergGridSlice_get_weight_for_left_and_right_support_point (q 1 2) (q 5 8) (q 1 8) 0 1) = Some ((7 # 128)%Q, (9 # 128)%Q) /\
  (* the slice [1/2, 5/8] of the grid of the repo's own test, levels (1,3), support sequence (0,1),(1/2,1),(1/2,3/4),(1/2,5/8) *)
  option_map (map (fun kv => (this (fst kv), map this (snd kv))))
    (RombergGridSlice_get_final_weights (q 1 2) (q 5 8) (q 1 8) 3 [(0, 1); (q 1 2, 1); (q 1 2, q 3 4); (q 1 2, q 5 8)]
       (mk_ExtrapolationCoefficientsFactory_t ExtrapolationVersion_ROMBERG_DEFAULT))
  = Some [(0%Q, [(-1 # 51840)%Q]); (1%Q, [(-1 # 40320)%Q; (1 # 2160)%Q]); ((1 # 2)%Q, [(7 # 2160)%Q; (-2 # 45)%Q; (256 # 2835)%Q]);
          ((3 # 4)%Q, [(-2 # 135)%Q]); ((5 # 8)%Q, [(256 # 2835)%Q])].
Proof.
  split; [|split; [|split]].
  - eexists. split; [reflexivity|]. repeat split; vm_compute; reflexivity.
  - eexists. split; [reflexivity|]. repeat split; vm_compute; reflexivity.
  - vm_compute. reflexivity.
  - vm_compute. reflexivity.
Qed.
