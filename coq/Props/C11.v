(* C11 — Romberg extrapolation grids give consistent, exact-to-order weights.
   Property theorems only; each is closed by `exact` of a lemma from Proofs/.  Model: Model/Romberg.v. *)
From Coq Require Import ZArith List QArith Qcanon Bool Arith Lia.
From SG Require Import Base.QcUtil Model.Romberg Proofs.RombergBasics Proofs.RombergCoeff Proofs.RombergTree
  Proofs.RombergSliced Proofs.RombergBalanced Proofs.RombergExact Proofs.RombergGrouped Proofs.RombergSimpson Proofs.RombergFuel.
Import ListNotations.
Open Scope Qc_scope.

(* --- slice algebra: for EVERY slice and EVERY support pair L <> R (accepted by the asserts of the code) the two
       weights sum to the slice width and reproduce int_l^r x dx = (r^2 - l^2)/2 *)
Theorem C11_slice_weights_sum : forall s L R wl wr,
  romberg_slice_pair s L R = Some (wl, wr) -> wl + wr = sl_width s.
Proof. exact romberg_slice_pair_sum. Qed.
Theorem C11_slice_first_moment : forall s L R wl wr,
  romberg_slice_pair s L R = Some (wl, wr) -> L * wl + R * wr = Qchalf * (sl_r s * sl_r s - sl_l s * sl_l s).
Proof. exact romberg_slice_pair_moment. Qed.
Print Assumptions C11_slice_weights_sum.
Print Assumptions C11_slice_first_moment.

(* --- extrapolation coefficients: independent of the interval; sum to one for EVERY m (no bound), every exponent >= 1 *)
Theorem C11_romberg_coeff_interval_independent : forall a b a' b' e m j,
  a <> b -> a' <> b' -> romberg_coefficient a b e m j = romberg_coefficient a' b' e m j.
Proof. exact romberg_coefficient_interval_independent. Qed.
Theorem C11_romberg_coeff_sum_one : forall a b e m, a <> b -> (1 <= e)%nat ->
  sumQ (map (romberg_coefficient a b e m) (seq 0 (S m))) = 1.
Proof. exact romberg_coeff_sum_one. Qed.
Print Assumptions C11_romberg_coeff_interval_independent.
Print Assumptions C11_romberg_coeff_sum_one.

(* --- one extrapolated slice (Romberg or trapezoidal), any support sequence the code accepts *)
Theorem C11_slice_final_consistent : forall sv s cs,
  slice_final sv s = Some cs -> wsum cs = sl_width s /\ wmom cs = half_sq (sl_l s) (sl_r s).
Proof. exact slice_final_sums. Qed.
Print Assumptions C11_slice_final_consistent.

(* --- the whole pipeline set_grid + get_weights: for EVERY grid and level assignment the code accepts (model result
       Some), EVERY slice grouping (UNIT, GROUPED, GROUPED_OPTIMIZED), both slice versions, default containers, with or
       without forced balancing: the weights sum to b - a and integrate x exactly (sum_key key*weight = (b^2-a^2)/2).
       [lo] is the switch of the Simpson coefficients (irrelevant for default containers). *)
Theorem C11_sliced_weights_consistent : forall lo g sv force grid levels r,
  extrapolation_grid_from lo g sv CV_Default force grid levels = Some r ->
  sumQ (er_weights r) = grid_b r - grid_a r /\ wmom (er_dict r) = half_sq (grid_a r) (grid_b r).
Proof. exact sliced_weights_consistent. Qed.
Print Assumptions C11_sliced_weights_consistent.

(* ... with unit slices this holds for BOTH container versions (a Simpson container with one slice is that slice) *)
Theorem C11_sliced_unit_weights_consistent : forall lo sv cv force grid levels r,
  extrapolation_grid_from lo G_Unit sv cv force grid levels = Some r ->
  sumQ (er_weights r) = grid_b r - grid_a r /\ wmom (er_dict r) = half_sq (grid_a r) (grid_b r).
Proof. exact sliced_unit_weights_consistent. Qed.
Print Assumptions C11_sliced_unit_weights_consistent.

(* ... a container of 2^K >= 2 adjacent slices of equal width carries the weights of the complete grid of depth K:
       they sum to its width and integrate x exactly, for EVERY K *)
Theorem C11_grouped_container_consistent : forall lo sv K h c cs,
  length c = (2 ^ K)%nat -> (1 <= K)%nat -> chain c -> Forall (fun s => sl_width s = h) c ->
  Forall (fun s => sl_l s < sl_r s) c ->
  container_final_from lo sv CV_Default c = Some cs ->
  wsum cs = container_right c - container_left c /\ wmom cs = half_sq (container_left c) (container_right c).
Proof. exact multi_container_sums. Qed.
Print Assumptions C11_grouped_container_consistent.

(* ... the run-time alignment checker of the harness (keys of the collected dictionary = grid points, evaluated by the
       extracted model on every explored case) is sound: the list returned by get_weights then has the exact first moment *)
Theorem C11_weights_aligned_first_moment : forall r,
  map fst (er_dict r) = er_grid r -> dotQ (er_grid r) (er_weights r) = wmom (er_dict r).
Proof. exact aligned_first_moment. Qed.
(* ... the fuel of the support-sequence recursion is sufficient; the power-of-two test of adjust_containers is exact *)
Theorem C11_support_sequence_fuel_sufficient : forall levels fs f1 f2 start stop,
  (stop - start <= f1)%nat -> (stop - start <= f2)%nat ->
  supp_rec f1 levels start stop fs = supp_rec f2 levels start stop fs.
Proof. exact supp_rec_fuel_irrelevant. Qed.
Theorem C11_is_pow2_exact : forall n, is_pow2 n = true <-> exists K, n = (2 ^ K)%nat.
Proof. exact is_pow2_iff. Qed.
Print Assumptions C11_weights_aligned_first_moment.
Print Assumptions C11_support_sequence_fuel_sufficient.

(* --- tree completion, for EVERY tree *)
Theorem C11_force_full_tree_adds_only : forall t, Subseq (tree_points t) (tree_points (force_full t)).
Proof. exact force_full_adds_only. Qed.
Theorem C11_force_full_tree_keeps_points : forall t x, In x (tree_points t) -> In x (tree_points (force_full t)).
Proof. exact force_full_keeps_points. Qed.
Theorem C11_force_full_tree_zero_or_two_children : forall t, full (force_full t).
Proof. exact force_full_zero_or_two_children. Qed.
Theorem C11_force_full_tree_idempotent_on_full : forall t, full t -> force_full t = t.
Proof. exact force_full_idempotent_on_full. Qed.
Theorem C11_init_tree_keeps_grid : forall grid levels t,
  length grid = length levels -> init_tree grid levels = Some t -> tree_points t = inner grid.
Proof. exact init_tree_keeps_grid. Qed.
Print Assumptions C11_force_full_tree_adds_only.
Print Assumptions C11_force_full_tree_zero_or_two_children.
Print Assumptions C11_init_tree_keeps_grid.

(* --- balanced extrapolation: EVERY balanced tree over a strictly increasing grid, EVERY depth (Neville tableau) *)
Theorem C11_balanced_dict_consistent : forall grid levels d,
  strictly_increasing_grid grid levels -> (1 <= list_max levels)%nat ->
  balanced_dict grid levels = Some d ->
  wsum d = nthQ grid (length grid - 1) - nthQ grid 0 /\ wmom d = half_sq (nthQ grid 0) (nthQ grid (length grid - 1)).
Proof. exact balanced_dict_consistent. Qed.
(* ... and the returned weight list, given the run-time checker keys_in_grid (evaluated on every explored case) *)
Theorem C11_balanced_weights_consistent : forall grid levels d ws,
  strictly_increasing_grid grid levels -> (1 <= list_max levels)%nat ->
  balanced_dict grid levels = Some d -> balanced_weights grid levels = Some ws ->
  keys_in_grid d grid = true ->
  sumQ ws = nthQ grid (length grid - 1) - nthQ grid 0 /\ dotQ grid ws = half_sq (nthQ grid 0) (nthQ grid (length grid - 1)).
Proof. exact balanced_weights_consistent. Qed.
Print Assumptions C11_balanced_dict_consistent.
Print Assumptions C11_balanced_weights_consistent.

(* --- exactness degree on complete dyadic grids. BOUNDED (finite enumeration by vm_compute; the bounds are kept small
       enough for coqchk, which re-evaluates them without the VM):
       depth m = 1..4, three intervals, all groupings with Romberg slices (+ grouped trapezoid slices), default containers,
       with and without forced balancing: monomials up to degree 2m+1; [0,1], m = 5, 6 for UNIT/GROUPED, m = 7 for UNIT;
       balanced grid m = 1..5: degree 2m-1 *)
Theorem C11_full_romberg_exact_bounded : forall ab m v force,
  In ab intervals -> In m depths_sliced -> In v sliced_variants -> sliced_exact_check ab m v force = true.
Proof. exact full_romberg_exact_bounded. Qed.
Theorem C11_full_romberg_exact_deep_bounded : forall m g,
  In m depths_deep -> In g [G_Unit; G_Grouped] -> sliced_exact_check (0, 1) m (g, SV_Romberg) false = true.
Proof. exact full_romberg_exact_deep_bounded. Qed.
Theorem C11_full_romberg_exact_depth7_bounded : sliced_exact_check (0, 1) 7 (G_Unit, SV_Romberg) false = true.
Proof. exact sliced_exact_depth7. Qed.
Theorem C11_balanced_exact_bounded : forall ab m,
  In ab intervals -> In m depths_balanced -> balanced_exact_check ab m = true.
Proof. exact balanced_exact_bounded. Qed.
Print Assumptions C11_full_romberg_exact_bounded.
Print Assumptions C11_balanced_exact_bounded.

(* --- Simpson containers: the faithful model of the current code VIOLATES the statement (known finding) ... *)
Theorem C11_simpson_container_sum_refuted :
  exists grid levels r, extrapolation_grid_from 0 G_Grouped SV_Romberg CV_Simpson false grid levels = Some r /\
    sumQ (er_weights r) <> nthQ (er_grid r) (length (er_grid r) - 1) - nthQ (er_grid r) 0.
Proof. exact simpson_container_sum_refuted. Qed.
(* ... for EVERY K a Simpson container of 2^K >= 2 slices sums to (b-a)*(1 - c_{K,0}/3) instead of b-a
       (lo = 0: the code as it is; lo = 1: the proposed repair, where c_{K,0} = 0) *)
Theorem C11_simpson_container_sum_formula : forall lo sv K h c cs,
  length c = (2 ^ K)%nat -> (1 <= K)%nat -> (lo <= K)%nat -> chain c -> Forall (fun s => sl_width s = h) c ->
  Forall (fun s => sl_l s < sl_r s) c ->
  container_final_from lo sv CV_Simpson c = Some cs ->
  let a := container_left c in let b := container_right c in
  let T := (b - a) * (1 - romberg_coefficient_from lo a b 3 K 0 / (1 + 1 + 1)) in
  wsum cs = T /\ wmom cs = Qchalf * (a + b) * T.
Proof. exact simpson_container_sums. Qed.
(* ... the proposed repair (fixes/C11-simpson-romberg-level0.patch: levels 1..m) is consistent for EVERY grid, grouping,
       slice version and balancing flag; its coefficients sum to one for every m; it is exact to degree 3 (bounded) *)
Theorem C11_simpson_repair_weights_consistent : forall g sv force grid levels r,
  extrapolation_grid_from 1 g sv CV_Simpson force grid levels = Some r ->
  sumQ (er_weights r) = grid_b r - grid_a r /\ wmom (er_dict r) = half_sq (grid_a r) (grid_b r).
Proof. exact simpson_repair_weights_consistent. Qed.
Theorem C11_simpson_repair_coeff_sum_one : forall lo a b e m, a <> b -> (1 <= e)%nat -> (lo <= m)%nat ->
  sumQ (map (romberg_coefficient_from lo a b e m) (seq 0 (S m))) = 1.
Proof. exact romberg_coeff_from_sum_one. Qed.
Theorem C11_simpson_repair_exact_bounded : forall ab m g,
  In ab intervals -> In m (seq 1 4) -> In g [G_Grouped; G_Optimized] -> simpson_fixed_check ab m g = true.
Proof. exact simpson_fixed_exact_bounded. Qed.
Print Assumptions C11_simpson_container_sum_refuted.
Print Assumptions C11_simpson_repair_coeff_sum_one.
Print Assumptions C11_simpson_container_sum_formula.
Print Assumptions C11_simpson_repair_weights_consistent.

(* --- non-vacuity: concrete non-trivial inputs meet the hypotheses *)
Definition q (n : Z) (d : positive) : Qc := Q2Qc (n # d).
(* the grid of the repo's own test: weights 79/378, 194/567, 512/2835, 592/2835, 337/5670 *)
Example C11_nonvacuous_sliced :
  option_map (fun r => map this (er_weights r))
    (extrapolation_grid G_Unit SV_Romberg CV_Default false [0; q 1 2; q 5 8; q 3 4; 1] [0; 1; 3; 2; 0]%nat)
  = Some [(79 # 378)%Q; (194 # 567)%Q; (512 # 2835)%Q; (592 # 2835)%Q; (337 # 5670)%Q].
Proof. vm_compute. reflexivity. Qed.
(* forced balancing adds the points 1/4 and 7/8 and the result is accepted *)
Example C11_nonvacuous_forced :
  option_map (fun r => (map this (er_grid r), er_levels r))
    (extrapolation_grid G_Optimized SV_Romberg CV_Default true [0; q 1 2; q 5 8; q 3 4; 1] [0; 1; 3; 2; 0]%nat)
  = Some ([0%Q; (1 # 4)%Q; (1 # 2)%Q; (5 # 8)%Q; (3 # 4)%Q; (7 # 8)%Q; 1%Q], [0; 2; 1; 3; 2; 3; 0]%nat).
Proof. vm_compute. reflexivity. Qed.
(* a balanced, non-complete tree: hypotheses of C11_balanced_weights_consistent hold *)
Example C11_nonvacuous_balanced :
  let grid := [0; q 1 8; q 1 4; q 3 8; q 1 2; q 3 4; 1] in let levels := [0; 3; 2; 3; 1; 2; 0]%nat in
  strictly_increasing_grid grid levels /\ (1 <= list_max levels)%nat /\
  exists d ws, balanced_dict grid levels = Some d /\ balanced_weights grid levels = Some ws /\ keys_in_grid d grid = true /\
               length ws = 7%nat.
Proof.
  cbv zeta. split; [|split; [simpl; lia|]].
  - unfold strictly_increasing_grid. simpl. repeat split; reflexivity.
  - destruct (balanced_dict [0; q 1 8; q 1 4; q 3 8; q 1 2; q 3 4; 1] [0; 3; 2; 3; 1; 2; 0]%nat) as [d|] eqn:E;
      [|revert E; vm_compute; discriminate].
    exists d. eexists. split; [reflexivity|]. split; [unfold balanced_weights; rewrite E; reflexivity|].
    split; [|rewrite map_length; reflexivity].
    revert E. vm_compute. intro E. injection E as <-. reflexivity.
Qed.

(* ==================================================================================================================
   CONTAINER OBJECTS (Model/RombergContainers.v).  The Python keeps the container interval as attributes left_point /
   right_point (with max_level, minimal_step_width) that only append_slice updates, and get_final_weights of a container
   builds its weight factory from these ATTRIBUTES.  Modelled: __init__, append_slice, __initialize_default_containers with
   the step-width buffer, adjust_containers (all groupings), split_into_containers_with_power_two_sizes (while loop with
   slices.pop(0)), find_closest_power_below (for loop), get_final_weights reading the attributes. *)
From SG Require Import Model.RombergContainers Proofs.RombergContainers.

(* --- the invariant of append_slice, for EVERY history of appends: a fresh container after its first append, and every
       further append, has left_point = left end of its first slice, right_point = right end of its last slice,
       max_level = max over its slices, minimal_step_width = min over its slices *)
Theorem C11_container_append_keeps_endpoints : forall c s, cont_ok c -> cont_ok (cont_append c s).
Proof. exact cont_append_ok. Qed.
Theorem C11_container_first_append : forall s, cont_ok (cont_single s).
Proof. exact cont_single_ok. Qed.
(* --- EVERY container that set_grid leaves in slice_containers (every grid, every grouping: grouping loop, unit split,
       power-of-two split) carries the end points of its slices; the slices of the containers are those of the list model *)
Theorem C11_container_endpoints : forall g slices, Forall cont_ok (obj_adjust g (obj_initial_containers g slices)).
Proof. exact obj_containers_ok. Qed.
Theorem C11_container_slices : forall g slices,
  map c_slices (obj_adjust g (obj_initial_containers g slices)) = adjust_containers g (initial_containers g slices).
Proof. exact obj_containers_slices. Qed.
Print Assumptions C11_container_endpoints.
Print Assumptions C11_container_slices.
(* --- find_closest_power_below (the for loop over range(n) with the two tests) returns the largest power of two <= n *)
Theorem C11_find_closest_power_below : forall n, (1 <= n)%nat ->
  is_power2 (find_closest_power_below n) /\ (find_closest_power_below n <= n < 2 * find_closest_power_below n)%nat.
Proof. exact fcpb_spec. Qed.
Print Assumptions C11_find_closest_power_below.
(* --- the pipeline on container objects (weight factories built from the attributes) returns EXACTLY the result of the
       list-level model, for all inputs; hence every theorem above about extrapolation_grid_from holds for it *)
Theorem C11_object_pipeline_is_model : forall lo g sv cv force grid levels,
  option_map fst (extrapolation_grid_obj_from lo g sv cv force grid levels) = extrapolation_grid_from lo g sv cv force grid levels.
Proof. exact obj_pipeline_is_model. Qed.
Theorem C11_object_pipeline_containers : forall lo g sv cv force grid levels r cs,
  extrapolation_grid_obj_from lo g sv cv force grid levels = Some (r, cs) ->
  extrapolation_grid_from lo g sv cv force grid levels = Some r /\
  Forall cont_ok cs /\ map (fun c => length (c_slices c)) cs = er_container_sizes r /\
  concat (map c_slices cs) = match init_grid_slices (er_grid r) (er_levels r) with Some sl => sl | None => [] end.
Proof. exact obj_pipeline_containers. Qed.
Theorem C11_object_pipeline_weights_consistent : forall lo g sv force grid levels r cs,
  extrapolation_grid_obj_from lo g sv CV_Default force grid levels = Some (r, cs) ->
  sumQ (er_weights r) = grid_b r - grid_a r /\ wmom (er_dict r) = half_sq (grid_a r) (grid_b r).
Proof. exact obj_sliced_weights_consistent. Qed.
Print Assumptions C11_object_pipeline_is_model.
Print Assumptions C11_object_pipeline_containers.
Print Assumptions C11_object_pipeline_weights_consistent.
(* --- the variant of the split that keeps the ORIGINAL container object for the last block (left_point not refreshed)
       violates the invariant: witness = six slices of width 1/8 on [1/4, 1] (blocks 4 + 2) *)
Theorem C11_split_reuse_refuted :
  cont_ok six /\ exists c', In c' (obj_split_reuse (length (c_slices six)) six) /\ c_left c' <> Some (container_left (c_slices c')).
Proof. exact split_reuse_refuted. Qed.
Print Assumptions C11_split_reuse_refuted.
(* non-vacuity: the grid of the seeded change (complete depth-3 grid without 1/8): GROUPED_OPTIMIZED gives containers
   [0,1/4] (1 slice), [1/4,3/4] (4 slices), [3/4,1] (2 slices) with exactly these end points as attributes *)
Example C11_nonvacuous_containers :
  option_map (fun rc => map (fun c => (option_map this (c_left c), option_map this (c_right c), length (c_slices c))) (snd rc))
    (extrapolation_grid_obj G_Optimized SV_Romberg CV_Default false
       [0; q 1 4; q 3 8; q 1 2; q 5 8; q 3 4; q 7 8; 1] [0; 2; 3; 1; 3; 2; 3; 0]%nat)
  = Some [(Some 0%Q, Some (1 # 4)%Q, 1%nat); (Some (1 # 4)%Q, Some (3 # 4)%Q, 4%nat); (Some (3 # 4)%Q, Some 1%Q, 2%nat)].
Proof. vm_compute. reflexivity. Qed.

(* ==================================================================================================================
   EXACTNESS DEGREE 2K+1 FOR EVERY K (no bound; Proofs/RombergAnnihilate.v, RombergEM.v, RombergDegree.v).
   pw k = x^k;  Ik k u v = (v^(k+1) - u^(k+1)) / (k+1) = int_u^v x^k dx;  trapD f lo w j = composite trapezoidal rule
   with 2^j panels on [lo, lo+w];  tj w j = (w/2^j)^2;  pev g t = g_1 + g_2 t + ... *)
From SG Require Import Proofs.RombergAnnihilate Proofs.RombergEM Proofs.RombergDegree.

(* --- the coefficients annihilate the error terms: sum_j c_{m,j} (h_j^e)^l = 0 for l = 1..m, EVERY m, every exponent
       (c_{m,j} is the Lagrange basis polynomial of the nodes h_j^e at 0; proof by a q-binomial recurrence) *)
Theorem C11_romberg_coeff_annihilates : forall a b e m l, a <> b -> (1 <= e)%nat -> (1 <= l <= m)%nat ->
  sumQ (map (fun j => romberg_coefficient a b e m j * (step_width a b j ^ e) ^ l) (seq 0 (S m))) = 0.
Proof. exact romberg_coeff_annihilates. Qed.
Print Assumptions C11_romberg_coeff_annihilates.
(* --- Euler-Maclaurin for monomials on dyadic grids, algebraically: the trapezoidal sums of x^k on [lo, lo+w] are
       int x^k + g_1 h_j^2 + ... + g_n h_j^(2n) with n <= k/2 and g independent of the level j (EVERY k, interval, j) *)
Theorem C11_trapezoid_even_expansion : forall k lo w,
  exists g, (length g <= Nat.div2 k)%nat /\
            forall j, trapD (pw k) lo w j = Ik k lo (lo + w) + tj w j * pev g (tj w j).
Proof. exact trap_even_expansion_eq. Qed.
Print Assumptions C11_trapezoid_even_expansion.
(* --- the weights of the complete dyadic grid of depth K (RombergTrapezoidalWeights: boundary weight at the ends, inner
       weight by level) applied to ANY f are the extrapolated trapezoidal sums; they integrate x^k exactly for k <= 2K+1,
       for EVERY K >= 1, every interval (replaces the bounded vm_compute statements for the grouped variants) *)
Theorem C11_full_grid_weights_are_extrapolated_sums : forall a b K (f : Qc -> Qc), (1 <= K)%nat ->
  dotQ (map f ([a] ++ nodes a (b - a) K ++ [b])) (Wlist a b K)
  = sumQ (map (fun j => romberg_coefficient a b 2 K j * trapD f a (b - a) j) (seq 0 (S K))).
Proof. exact full_grid_dot. Qed.
Theorem C11_full_grid_weights_are_factory_weights : forall a b K,
  Wlist a b K = [trap_boundary_weight a b 2 K]
                ++ map (fun l => match trap_inner_weight a b 2 l K with Some w => w | None => 0 end) (full_levels K 1)
                ++ [trap_boundary_weight a b 2 K].
Proof. exact Wlist_factory_weights. Qed.
Theorem C11_complete_grid_exact_degree : forall a b m k, a <> b -> (1 <= m)%nat -> (k <= 2 * m + 1)%nat ->
  dotQ (map (pw k) (complete_grid a b m)) (Wlist a b m) = Ik k a b.
Proof. exact complete_grid_exact. Qed.
Print Assumptions C11_full_grid_weights_are_extrapolated_sums.
Print Assumptions C11_complete_grid_exact_degree.
(* --- EVERY container of 2^K >= 2 equal adjacent slices - inside ANY adaptive grid - integrates x^k, k <= 2K+1, exactly
       over its own interval *)
Theorem C11_grouped_container_exact_degree : forall lo sv K h c cs k,
  length c = (2 ^ K)%nat -> (1 <= K)%nat -> chain c -> Forall (fun s => sl_width s = h) c ->
  Forall (fun s => sl_l s < sl_r s) c ->
  container_final_from lo sv CV_Default c = Some cs -> (k <= 2 * K + 1)%nat ->
  wpow k cs = Ik k (container_left c) (container_right c).
Proof. exact multi_container_exact. Qed.
Print Assumptions C11_grouped_container_exact_degree.
(* --- the whole pipeline, every grid / grouping / slice version / balancing flag: if every container has at least
       2^Kmin >= 2 slices, the collected weights integrate x^k exactly for k <= 2*Kmin+1.  On the complete dyadic grid of
       depth m with GROUPED / GROUPED_OPTIMIZED there is one container of 2^m slices (checked for m <= 7 by the bounded
       theorems above and at run time), so this is degree 2m+1 for EVERY m for which the code accepts the grid. *)
Theorem C11_sliced_weights_exact_degree : forall lo g sv force grid levels r Kmin k,
  extrapolation_grid_from lo g sv CV_Default force grid levels = Some r ->
  (1 <= Kmin)%nat -> Forall (fun n => (2 ^ Kmin <= n)%nat) (er_container_sizes r) -> (k <= 2 * Kmin + 1)%nat ->
  wpow k (er_dict r) = Ik k (grid_a r) (grid_b r).
Proof. exact sliced_weights_exact_degree. Qed.
(* ... the list returned by get_weights, given the run-time alignment checker (keys of the dictionary = grid points) *)
Theorem C11_weights_aligned_power_moment : forall r k,
  map fst (er_dict r) = er_grid r -> dotQ (map (pw k) (er_grid r)) (er_weights r) = wpow k (er_dict r).
Proof. exact aligned_power_moment. Qed.
Print Assumptions C11_sliced_weights_exact_degree.
Print Assumptions C11_weights_aligned_power_moment.
(* --- UNCONDITIONAL, EVERY m >= 1, every interval a < b, GROUPED and GROUPED_OPTIMIZED, Romberg and trapezoidal slices:
       the model ACCEPTS the complete dyadic grid of depth m (step-width assertion; every support sequence has m+1 entries;
       no weight assertion fails), its 2^m slices form ONE container, and the collected weights integrate x^k exactly for
       k <= 2m+1.  (Forced balancing: below.  UNIT grouping on complete grids: bounded theorems above.) *)
From SG Require Import Proofs.RombergComplete.
Theorem C11_complete_grid_grouped_exact_degree : forall lo g sv a b m, a < b -> (1 <= m)%nat -> g <> G_Unit ->
  exists r, extrapolation_grid_from lo g sv CV_Default false (complete_grid a b m) (complete_levels m) = Some r /\
            er_grid r = complete_grid a b m /\ er_container_sizes r = [(2 ^ m)%nat] /\
            forall k, (k <= 2 * m + 1)%nat -> wpow k (er_dict r) = Ik k a b.
Proof. exact complete_grid_grouped_exact. Qed.
(* ... set_grid on the complete grid creates all 2^m slices (for EVERY grouping: this is before the containers) *)
Theorem C11_complete_grid_slices_accepted : forall a b m, a < b -> (1 <= m)%nat ->
  init_grid_slices (complete_grid a b m) (complete_levels m) = Some (map (cslice a b m) (seq 0 (2 ^ m))).
Proof. exact complete_init_grid_slices. Qed.
Theorem C11_complete_grid_support_length : forall (grid : list Qc) m i, (i < 2 ^ m)%nat ->
  length (support_sequence grid (complete_levels m) i) = S m.
Proof. exact complete_support_length. Qed.
Print Assumptions C11_complete_grid_grouped_exact_degree.
Print Assumptions C11_complete_grid_slices_accepted.
(* ... forced balancing is the IDENTITY on complete grids of EVERY depth (init_tree builds the complete tree, which is full),
       so the unconditional theorem holds with and without force_balanced_refinement_tree, for every option combination *)
From SG Require Import Proofs.RombergForced.
Theorem C11_complete_grid_forced_identity : forall lo g sv cv a b m, (1 <= m)%nat ->
  extrapolation_grid_from lo g sv cv true (complete_grid a b m) (complete_levels m)
  = extrapolation_grid_from lo g sv cv false (complete_grid a b m) (complete_levels m).
Proof. exact complete_forced_same. Qed.
Theorem C11_complete_grid_grouped_exact_degree_any_force : forall lo g sv force a b m, a < b -> (1 <= m)%nat -> g <> G_Unit ->
  exists r, extrapolation_grid_from lo g sv CV_Default force (complete_grid a b m) (complete_levels m) = Some r /\
            er_grid r = complete_grid a b m /\ er_container_sizes r = [(2 ^ m)%nat] /\
            forall k, (k <= 2 * m + 1)%nat -> wpow k (er_dict r) = Ik k a b.
Proof. exact complete_grid_grouped_exact_any_force. Qed.
Print Assumptions C11_complete_grid_forced_identity.
Print Assumptions C11_complete_grid_grouped_exact_degree_any_force.
(* --- UNIT grouping (the library default) with sliced-Romberg slices on the complete dyadic grid: degree 2m+1 for EVERY m,
       every interval, with or without forced balancing, either container version (unit containers never use it).  The
       support sequence of slice i is the chain of dyadic cells containing it (closed form of supp_rec on complete level
       vectors), the sliced trapezoid is additive over adjacent slices, so level j of all slices adds up to the composite
       trapezoidal sum T_j.  Replaces C11_full_romberg_exact_*_bounded (kept as non-vacuity: the model accepts m <= 7). *)
From SG Require Import Proofs.RombergUnit.
Theorem C11_unit_complete_grid_exact_degree : forall lo cv force a b m r k, a < b -> (1 <= m)%nat ->
  extrapolation_grid_from lo G_Unit SV_Romberg cv force (complete_grid a b m) (complete_levels m) = Some r ->
  (k <= 2 * m + 1)%nat ->
  er_grid r = complete_grid a b m /\ wpow k (er_dict r) = Ik k a b.
Proof. exact unit_complete_exact. Qed.
Theorem C11_complete_grid_support_sequence : forall m i, (i < 2 ^ m)%nat ->
  support_sequence_idx (complete_levels m) i = (0%nat, (2 ^ m)%nat) :: path m 0 i.
Proof. exact complete_support_idx. Qed.
Print Assumptions C11_unit_complete_grid_exact_degree.
(* ... and UNCONDITIONALLY: the model accepts the complete grid with UNIT / sliced Romberg for every m (every support pair of
       every slice contains the slice and is non-degenerate: no assert fails) *)
From SG Require Import Proofs.RombergUnitAccept.
Theorem C11_unit_complete_grid_accepted_exact_degree : forall lo cv force a b m, a < b -> (1 <= m)%nat ->
  exists r, extrapolation_grid_from lo G_Unit SV_Romberg cv force (complete_grid a b m) (complete_levels m) = Some r /\
            er_grid r = complete_grid a b m /\
            forall k, (k <= 2 * m + 1)%nat -> wpow k (er_dict r) = Ik k a b.
Proof. exact unit_complete_accepted_exact. Qed.
Print Assumptions C11_unit_complete_grid_accepted_exact_degree.
Example C11_nonvacuous_unit_exact :
  match extrapolation_grid_from 0 G_Unit SV_Romberg CV_Default false (complete_grid (q (-3) 4) (q 5 4) 3) (complete_levels 3) with
  | Some r => Nat.eqb (length (er_container_sizes r)) 8 | None => false end = true.
Proof. vm_compute. reflexivity. Qed.
(* --- BalancedExtrapolationGrid on the complete dyadic grid: degree 2m-1 for EVERY m (replaces C11_balanced_exact_bounded,
       kept as non-vacuity).  The tree built from the complete grid is the complete cell tree, the first tableau column
       holds the composite midpoint rules M_0..M_(m-1), whose error on x^p is an even polynomial in the step width
       (C11_midpoint_even_expansion); column k multiplies the coefficient of h^(2l) by (4^k-4^l)/(4^k-1). *)
From SG Require Import Proofs.RombergBalancedDegree.
Theorem C11_midpoint_even_expansion : forall p lo w,
  exists g, (length g <= Nat.div2 p)%nat /\ forall j, midD (pw p) lo w j = Ik p lo (lo + w) + tj w j * pev g (tj w j).
Proof. exact mid_even_expansion. Qed.
Theorem C11_balanced_complete_grid_exact_degree : forall a b m d p, a < b -> (1 <= m)%nat ->
  balanced_dict (complete_grid a b m) (complete_levels m) = Some d -> (p <= 2 * m - 1)%nat ->
  wpow p d = Ik p a b.
Proof. exact balanced_complete_exact. Qed.
(* ... the returned weight list, given the run-time checker keys_in_grid (evaluated on every explored case) *)
Theorem C11_balanced_complete_grid_weights_exact_degree : forall a b m d ws p, a < b -> (1 <= m)%nat ->
  balanced_dict (complete_grid a b m) (complete_levels m) = Some d ->
  balanced_weights (complete_grid a b m) (complete_levels m) = Some ws ->
  keys_in_grid d (complete_grid a b m) = true -> (p <= 2 * m - 1)%nat ->
  dotQ (map (pw p) (complete_grid a b m)) ws = Ik p a b.
Proof. exact balanced_complete_weights_exact. Qed.
Print Assumptions C11_balanced_complete_grid_exact_degree.
Print Assumptions C11_balanced_complete_grid_weights_exact_degree.
Example C11_nonvacuous_balanced_exact :
  match balanced_dict (complete_grid 0 1 3) (complete_levels 3), balanced_weights (complete_grid 0 1 3) (complete_levels 3) with
  | Some d, Some ws => keys_in_grid d (complete_grid 0 1 3) && Nat.eqb (length ws) 9 | _, _ => false end = true.
Proof. vm_compute. reflexivity. Qed.
(* --- Simpson-Romberg containers with the repaired coefficients (levels lo..K, lo >= 1; the code since fix 30bfe01 has lo = 1):
       degree 3 as a GENERAL theorem (replaces C11_simpson_repair_exact_bounded, kept as non-vacuity).  The container
       weights applied to ANY f are c_0*h_0/3*(f(a)+f(b)) + sum_{j>=1} c_j * S_j(f) with the composite Simpson sums
       S_j = (4 T_j - T_(j-1))/3; c_0 = 0, every S_j integrates cubics exactly (even expansion of T_j), sum_j c_j = 1. *)
From SG Require Import Proofs.RombergSimpsonDegree.
Theorem C11_simpson_weights_are_simpson_sums : forall lo a b K (f : Qc -> Qc), (1 <= K)%nat ->
  dotQ (map f ([a] ++ nodes a (b - a) K ++ [b]))
       ([s_boundary lo a b K] ++ map (s_inner lo a b K) (full_levels K 1) ++ [s_boundary lo a b K])
  = sc lo a b K 0%nat * (step_width a b 0 * / (1 + 1 + 1) * (f a + f b))
    + sumQ (map (fun j => sc lo a b K j * simpson_level a b f j) (seq 1 K)).
Proof. exact simpson_full_dot. Qed.
Theorem C11_simpson_container_exact_degree : forall lo sv K h c cs k,
  length c = (2 ^ K)%nat -> (1 <= lo <= K)%nat -> chain c -> Forall (fun s => sl_width s = h) c ->
  Forall (fun s => sl_l s < sl_r s) c ->
  container_final_from lo sv CV_Simpson c = Some cs -> (k <= 3)%nat ->
  wpow k cs = Ik k (container_left c) (container_right c).
Proof. exact simpson_container_exact. Qed.
(* ... the whole pipeline (every grid, grouping, slice version, balancing flag): degree 3 when every container has >= 2 slices *)
Theorem C11_simpson_sliced_exact_degree : forall g sv force grid levels r k,
  extrapolation_grid_from 1 g sv CV_Simpson force grid levels = Some r ->
  Forall (fun n => (2 <= n)%nat) (er_container_sizes r) -> (k <= 3)%nat ->
  wpow k (er_dict r) = Ik k (grid_a r) (grid_b r).
Proof. exact simpson_sliced_exact_degree. Qed.
Print Assumptions C11_simpson_container_exact_degree.
Print Assumptions C11_simpson_sliced_exact_degree.
Example C11_nonvacuous_simpson_exact :
  match extrapolation_grid_from 1 G_Optimized SV_Romberg CV_Simpson false
          [0; q 1 4; q 1 2; q 5 8; q 3 4; q 7 8; 1] [0; 2; 1; 3; 2; 3; 0]%nat with
  | Some r => forallb (fun n => (2 <=? n)%nat) (er_container_sizes r) && Nat.eqb (length (er_container_sizes r)) 2
  | None => false end = true.
Proof. vm_compute. reflexivity. Qed.
(* ==================================================================================================================
   PHASE 4: get_normalized_grid_levels, acceptance lemmas (the former "whenever the model returns a result" conditions). *)
From SG Require Import Proofs.RombergNormLevels Proofs.RombergAccept.
(* --- get_normalized_grid_levels of EVERY container of 2^K >= 2 slices: boundary levels 0, inner point i (1 <= i < 2^K) gets its
       POSITIONAL dyadic level l: 2^(K-l) divides i, 2^(K-l+1) does not - independent of the global levels of the points; the
       level is determined uniquely by this property; a variant ranking the global levels of the inner points (seeded change
       C11r4) is refuted by a witness (a 4-slice container starting at an odd index: global inner levels 3,4,2) *)
Theorem C11_normalized_levels_positional : forall K i, (1 <= K)%nat -> (1 <= i < 2 ^ K)%nat ->
  let l := nth i (normalized_levels (S (2 ^ K))) 0%nat in
  (1 <= l <= K)%nat /\ Nat.divide (2 ^ (K - l)) i /\ ~ Nat.divide (2 ^ (S K - l)) i.
Proof. exact normalized_levels_positional. Qed.
Theorem C11_normalized_levels_ends : forall K, (1 <= K)%nat ->
  nth 0 (normalized_levels (S (2 ^ K))) 1%nat = 0%nat /\ nth (2 ^ K) (normalized_levels (S (2 ^ K))) 1%nat = 0%nat /\
  length (normalized_levels (S (2 ^ K))) = S (2 ^ K).
Proof. exact normalized_levels_ends. Qed.
Theorem C11_positional_level_unique : forall K i l l', (1 <= l <= K)%nat -> (1 <= l' <= K)%nat ->
  Nat.divide (2 ^ (K - l)) i -> ~ Nat.divide (2 ^ (S K - l)) i ->
  Nat.divide (2 ^ (K - l')) i -> ~ Nat.divide (2 ^ (S K - l')) i -> l = l'.
Proof. exact positional_level_unique. Qed.
Theorem C11_rank_normalization_refuted : exists inner_levels, length inner_levels = 3%nat /\
  rank_normalized inner_levels <> normalized_levels (S (2 ^ 2)).
Proof. exact rank_variant_refuted. Qed.
Print Assumptions C11_normalized_levels_positional.
Print Assumptions C11_rank_normalization_refuted.
(* --- BalancedExtrapolationGrid on the complete grid, EVERY depth, UNCONDITIONALLY: set_grid accepts (the complete cell tree is
       balanced), the final dictionary has pairwise distinct keys that are all grid points (the per-case checker keys_in_grid
       is a theorem here), the dictionary and the returned weight list are exact to degree 2m-1 *)
Theorem C11_balanced_complete_grid_unconditional : forall a b m, a < b -> (1 <= m)%nat ->
  exists d ws, balanced_dict (complete_grid a b m) (complete_levels m) = Some d /\
               balanced_weights (complete_grid a b m) (complete_levels m) = Some ws /\
               keys_in_grid d (complete_grid a b m) = true /\
               forall p, (p <= 2 * m - 1)%nat ->
                 wpow p d = Ik p a b /\ dotQ (map (pw p) (complete_grid a b m)) ws = Ik p a b.
Proof. exact balanced_complete_unconditional. Qed.
Print Assumptions C11_balanced_complete_grid_unconditional.
(* --- a container of 2^K >= 2 equal adjacent slices ALWAYS produces weights (no assert of the weight classes fails), default
       and Simpson version; the complete grid with Simpson containers is accepted and exact to degree 3 for every m *)
Theorem C11_grouped_container_accepted : forall lo sv K h c,
  length c = (2 ^ K)%nat -> (1 <= K)%nat -> chain c -> Forall (fun s => sl_width s = h) c ->
  exists cs, container_final_from lo sv CV_Default c = Some cs.
Proof. exact multi_container_defined. Qed.
Theorem C11_simpson_container_accepted : forall lo sv K h c,
  length c = (2 ^ K)%nat -> (1 <= K)%nat -> chain c -> Forall (fun s => sl_width s = h) c ->
  exists cs, container_final_from lo sv CV_Simpson c = Some cs.
Proof. exact simpson_container_defined. Qed.
Theorem C11_complete_grid_simpson_exact_degree : forall g sv force a b m, a < b -> (1 <= m)%nat -> g <> G_Unit ->
  exists r, extrapolation_grid_from 1 g sv CV_Simpson force (complete_grid a b m) (complete_levels m) = Some r /\
            er_grid r = complete_grid a b m /\ er_container_sizes r = [(2 ^ m)%nat] /\
            forall k, (k <= 3)%nat -> wpow k (er_dict r) = Ik k a b.
Proof. exact complete_grid_simpson_exact. Qed.
Print Assumptions C11_simpson_container_accepted.
Print Assumptions C11_complete_grid_simpson_exact_degree.

(* ==================================================================================================================
   ALIGNMENT (Proofs/RombergAligned.v): the keys of the collected weight dictionary are EXACTLY the grid points in grid
   order - for EVERY grid the model accepts, every grouping, slice version, container version and balancing flag.  So the
   list returned by get_weights is aligned with the grid and the former per-case checker dict_keys_equal_grid is a theorem. *)
From SG Require Import Proofs.RombergAligned.
(* --- (1) for ARBITRARY level vectors the last pair of the support sequence of slice i is (i, i+1) *)
Theorem C11_support_sequence_last_pair : forall levels i fuel start stop,
  (stop - start <= fuel)%nat -> (start <= i < stop)%nat -> (stop <= length levels)%nat ->
  last ((start, stop) :: supp_rec fuel levels start stop i) (0%nat, 0%nat) = (i, S i).
Proof. exact supp_rec_last. Qed.
(* --- (2) two strictly increasing lists with the same elements are equal; dictionaries keep their keys strictly increasing *)
Theorem C11_strictly_increasing_lists_equal : forall l1 l2, ssorted l1 -> ssorted l2 -> (forall x, In x l1 <-> In x l2) -> l1 = l2.
Proof. exact ssorted_same_elements. Qed.
Theorem C11_dict_keys_strictly_increasing : forall cs,
  ssorted (map fst (dict_of cs)) /\ forall x, In x (map fst (dict_of cs)) -> In x (map fst cs).
Proof. exact dict_of_props. Qed.
(* --- the dictionary keys are the grid *)
Theorem C11_dict_keys_are_grid : forall lo g sv cv force grid levels r,
  extrapolation_grid_from lo g sv cv force grid levels = Some r -> map fst (er_dict r) = er_grid r.
Proof. exact dict_keys_are_grid. Qed.
(* --- the RETURNED weight list (not only the dictionary): one weight per grid point, total b - a, exact first moment, on every
       accepted adaptive grid: default containers with every grouping, the repaired Simpson containers with every grouping,
       UNIT grouping with either container version; both slice versions, with or without forced balancing *)
Theorem C11_returned_weights_consistent : forall lo g sv force grid levels r,
  extrapolation_grid_from lo g sv CV_Default force grid levels = Some r ->
  length (er_weights r) = length (er_grid r) /\
  sumQ (er_weights r) = grid_b r - grid_a r /\ dotQ (er_grid r) (er_weights r) = half_sq (grid_a r) (grid_b r).
Proof. exact returned_weights_consistent. Qed.
Theorem C11_returned_weights_consistent_simpson : forall g sv force grid levels r,
  extrapolation_grid_from 1 g sv CV_Simpson force grid levels = Some r ->
  length (er_weights r) = length (er_grid r) /\
  sumQ (er_weights r) = grid_b r - grid_a r /\ dotQ (er_grid r) (er_weights r) = half_sq (grid_a r) (grid_b r).
Proof. exact returned_weights_consistent_simpson. Qed.
Theorem C11_returned_weights_consistent_unit : forall lo sv cv force grid levels r,
  extrapolation_grid_from lo G_Unit sv cv force grid levels = Some r ->
  length (er_weights r) = length (er_grid r) /\
  sumQ (er_weights r) = grid_b r - grid_a r /\ dotQ (er_grid r) (er_weights r) = half_sq (grid_a r) (grid_b r).
Proof. exact returned_weights_consistent_unit. Qed.
(* ... and every power moment of the returned list is that of the dictionary (so all degree theorems above hold for the list) *)
Theorem C11_returned_power_moment : forall lo g sv cv force grid levels r k,
  extrapolation_grid_from lo g sv cv force grid levels = Some r ->
  dotQ (map (pw k) (er_grid r)) (er_weights r) = wpow k (er_dict r).
Proof. exact returned_power_moment. Qed.
Print Assumptions C11_dict_keys_are_grid.
Print Assumptions C11_returned_weights_consistent.
Print Assumptions C11_returned_power_moment.
(* non-vacuity: the adaptive grid of the repo's own test, GROUPED_OPTIMIZED with forced balancing: accepted, 7 aligned weights *)
Example C11_nonvacuous_aligned :
  match extrapolation_grid G_Optimized SV_Romberg CV_Default true [0; q 1 2; q 5 8; q 3 4; 1] [0; 1; 3; 2; 0]%nat with
  | Some r => Nat.eqb (length (er_weights r)) 7 && Nat.eqb (length (er_grid r)) 7 | None => false end = true.
Proof. vm_compute. reflexivity. Qed.

(* non-vacuity: depth 3 on [-3/4, 5/4], GROUPED_OPTIMIZED with forced balancing: one container of 8 slices, keys aligned *)
Example C11_nonvacuous_exact_degree :
  match extrapolation_grid_from 0 G_Optimized SV_Romberg CV_Default true
          (complete_grid (q (-3) 4) (q 5 4) 3) (complete_levels 3) with
  | Some r => forallb (fun n => (2 ^ 3 <=? n)%nat) (er_container_sizes r)
              && Nat.eqb (length (er_container_sizes r)) 1
              && Nat.eqb (length (er_grid r)) 9
              && forallb (fun xy => Qc_eqb (fst xy) (snd xy)) (combine (map fst (er_dict r)) (er_grid r))
  | None => false
  end = true.
Proof. vm_compute. reflexivity. Qed.

(* ==================================================================================================================
   SOURCE-DERIVED MODEL (DESIGN.md 0.5).  Gen/ExtrapolationGen.v is regenerated from sparseSpACE/Extrapolation.py by
   harness/translate/py2gallina.py --target extrapolation at every ./setup.sh C11 and ./check C11; the theorems below are
   therefore re-checked against what the code says NOW.  Trusted reading: Python floats are exact rationals (Base/PyNum.v).
   Objects: EC c a b = the ExtrapolationCoefficients object of concrete class c (tag) with attributes a, b; levels and
   exponents are natural numbers in the hand-written model, hence the arguments Z.of_nat _. *)
From SG Require Import Base.PyLib Base.PyNum Gen.ExtrapolationGen Proofs.GenExtrapolationEq.
Open Scope Qc_scope.

(* get_step_width, get_romberg_coefficient (all four parameters), get_coefficient of the three classes through the
   generated dynamic dispatch: equal to the hand-written model for ALL arguments; precondition a <> b (for a = b the Python
   divides 0 by 0) and exponent >= 1 (exponent 0: 1 - 1 = 0 in the denominator) *)
Theorem C11_gen_get_step_width : forall c a b k,
  ExtrapolationCoefficients_get_step_width (mk_ExtrapolationCoefficients_t c a b) (Z.of_nat k) = Some (step_width a b k).
Proof. exact gen_get_step_width. Qed.
Theorem C11_gen_get_romberg_coefficient : forall c a b m j e lo, a <> b -> (1 <= e)%nat ->
  ExtrapolationCoefficients_get_romberg_coefficient (mk_ExtrapolationCoefficients_t c a b)
    (Z.of_nat m) (Z.of_nat j) (Z.of_nat e) (Z.of_nat lo) = Some (romberg_coefficient_from lo a b e m j).
Proof. exact gen_get_romberg_coefficient. Qed.
Theorem C11_gen_get_coefficient : forall c a b m j, a <> b ->
  ExtrapolationCoefficients_dyn_get_coefficient (mk_ExtrapolationCoefficients_t c a b) (Z.of_nat m) (Z.of_nat j)
  = Some (romberg_coefficient_from (cls_lo c) a b (cls_e c) m j).
Proof. exact gen_get_coefficient. Qed.
Print Assumptions C11_gen_get_romberg_coefficient.
Print Assumptions C11_gen_get_coefficient.

(* the factories: ExtrapolationCoefficientsFactory(version).get and RombergWeightFactory.get never raise and build the
   object of the class that belongs to the version *)
Theorem C11_gen_coefficients_factory_get : forall v a b s,
  ExtrapolationCoefficientsFactory_get (mk_ExtrapolationCoefficientsFactory_t v) a b s
  = Some (mk_ExtrapolationCoefficients_t (ver_cls v) a b).
Proof. exact gen_coefficients_factory_get. Qed.
Theorem C11_gen_weight_factory_get : forall a b v,
  RombergWeightFactory_get a b v
  = Some (mk_RombergWeights_t (ver_wcls v) a b v (mk_ExtrapolationCoefficients_t (ver_cls v) a b)).
Proof. exact gen_weight_factory_get. Qed.

(* the weights of the objects the factory hands out = the weight functions of the hand-written model (which the container
   theorems above are about): ROMBERG_DEFAULT / ROMBERG_LINEAR -> trapezoidal weights, ROMBERG_SIMPSON -> Simpson weights
   with the first level simpson_min_level *)
Theorem C11_gen_trap_boundary_weight : forall a b v m f, a <> b -> v <> ExtrapolationVersion_ROMBERG_SIMPSON ->
  RombergWeightFactory_get a b v = Some f ->
  RombergTrapezoidalWeights_get_boundary_point_weight f (Z.of_nat m) = Some (trap_boundary_weight a b (ver_e v) m).
Proof. exact gen_factory_trap_boundary. Qed.
Theorem C11_gen_trap_inner_weight : forall a b v l m f, a <> b -> v <> ExtrapolationVersion_ROMBERG_SIMPSON ->
  RombergWeightFactory_get a b v = Some f ->
  RombergTrapezoidalWeights_get_inner_point_weight f (Z.of_nat l) (Z.of_nat m) = trap_inner_weight a b (ver_e v) l m.
Proof. exact gen_factory_trap_inner. Qed.
Theorem C11_gen_simpson_boundary_weight : forall a b m f, a <> b ->
  RombergWeightFactory_get a b ExtrapolationVersion_ROMBERG_SIMPSON = Some f ->
  RombergSimpsonWeights_get_boundary_point_weight f (Z.of_nat m) = Some (simpson_boundary_weight a b m).
Proof. exact gen_factory_simpson_boundary. Qed.
Theorem C11_gen_simpson_inner_weight : forall a b l m f, a <> b ->
  RombergWeightFactory_get a b ExtrapolationVersion_ROMBERG_SIMPSON = Some f ->
  RombergSimpsonWeights_get_inner_point_weight f (Z.of_nat l) (Z.of_nat m) = simpson_inner_weight a b l m.
Proof. exact gen_factory_simpson_inner. Qed.
Print Assumptions C11_gen_trap_boundary_weight.
Print Assumptions C11_gen_trap_inner_weight.
Print Assumptions C11_gen_simpson_boundary_weight.
Print Assumptions C11_gen_simpson_inner_weight.

(* slice algebra: RombergGridSlice.get_weight_for_left_and_right_support_point (self.left_point / right_point / width are
   parameters of the generated function) IS romberg_slice_pair, asserts included *)
Theorem C11_gen_slice_pair : forall s L R,
  RombergGridSlice_get_weight_for_left_and_right_support_point (sl_l s) (sl_r s) (sl_width s) L R = romberg_slice_pair s L R.
Proof. exact gen_slice_pair. Qed.
Print Assumptions C11_gen_slice_pair.

(* slice weight assembly: RombergGridSlice.get_final_weights (with the inherited get_support_points_with_their_weights and the
   no-op subtract_constants of that class; coefficient factory of version ROMBERG_DEFAULT) and
   TrapezoidalGridSlice.get_final_weights ARE the model's romberg_slice_final / trapezoid_slice_final; the Python returns a
   defaultdict(list) keyed by grid points, fdict_of groups the model's contribution list in the same way (insertion order) *)
Theorem C11_gen_romberg_slice_final : forall s,
  RombergGridSlice_get_final_weights (sl_l s) (sl_r s) (sl_width s) (Z.of_nat (sl_max_level s)) (sl_supp s)
    (mk_ExtrapolationCoefficientsFactory_t ExtrapolationVersion_ROMBERG_DEFAULT) = option_map fdict_of (romberg_slice_final s).
Proof. exact gen_romberg_slice_final. Qed.
Theorem C11_gen_trapezoid_slice_final : forall s,
  TrapezoidalGridSlice_get_final_weights (sl_l s) (sl_r s) (sl_width s) = option_map fdict_of (trapezoid_slice_final s).
Proof. exact gen_trapezoid_slice_final. Qed.
Print Assumptions C11_gen_romberg_slice_final.
Print Assumptions C11_gen_trapezoid_slice_final.

(* support sequences: ExtrapolationGrid.compute_support_sequence with its recursion __compute_support_sequence_rec (self.grid,
   self.grid_levels as parameters; indices and levels are natural numbers in the hand-written model).  The generated recursion is
   fuelled; with ANY fuel above stop - start it computes the model's recursion - in particular the fuel S (len(grid_levels))
   that the generated wrapper passes suffices (out of fuel = None never happens there).  Preconditions of the wrapper theorem:
   len(grid) = len(grid_levels) (asserted by set_grid) and a non-empty grid (for an empty one the Python raises IndexError) *)
Theorem C11_gen_support_sequence_rec_fuel_sufficient : forall lv fs fe fuel f start stop,
  (stop - start < fuel)%nat -> (stop - start <= f)%nat ->
  ExtrapolationGrid___compute_support_sequence_rec_rec fuel (map Z.of_nat lv) (Z.of_nat start) (Z.of_nat stop) (Z.of_nat fs) fe
  = Some (map zpair (supp_rec f lv start stop fs)).
Proof. exact gen_support_rec. Qed.
Theorem C11_gen_compute_support_sequence : forall grid lv fs fe, length grid = length lv -> (1 <= length grid)%nat ->
  ExtrapolationGrid_compute_support_sequence grid (map Z.of_nat lv) (Z.of_nat fs) fe = Some (support_sequence grid lv fs).
Proof. exact gen_compute_support_sequence. Qed.
Theorem C11_gen_grid_step_width : forall a b k, ExtrapolationGrid_get_step_width a b (Z.of_nat k) = Some (step_width a b k).
Proof. exact gen_grid_step_width. Qed.
Print Assumptions C11_gen_support_sequence_rec_fuel_sufficient.
Print Assumptions C11_gen_compute_support_sequence.

(* C11 for the generated definitions *)
(* ... one extrapolated slice: whenever get_final_weights returns, the weights in its dictionary sum to the slice width and
   reproduce int x (EVERY support sequence the code accepts, every max_level) *)
Theorem C11_gen_romberg_slice_final_consistent : forall s d,
  RombergGridSlice_get_final_weights (sl_l s) (sl_r s) (sl_width s) (Z.of_nat (sl_max_level s)) (sl_supp s)
    (mk_ExtrapolationCoefficientsFactory_t ExtrapolationVersion_ROMBERG_DEFAULT) = Some d ->
  fdict_wsum d = sl_width s /\ fdict_wmom d = half_sq (sl_l s) (sl_r s).
Proof. exact gen_romberg_slice_final_consistent. Qed.
Theorem C11_gen_trapezoid_slice_final_consistent : forall s d,
  TrapezoidalGridSlice_get_final_weights (sl_l s) (sl_r s) (sl_width s) = Some d ->
  fdict_wsum d = sl_width s /\ fdict_wmom d = half_sq (sl_l s) (sl_r s).
Proof. exact gen_trapezoid_slice_final_consistent. Qed.
Print Assumptions C11_gen_romberg_slice_final_consistent.
Theorem C11_gen_slice_weights_consistent : forall l r L R wl wr,
  RombergGridSlice_get_weight_for_left_and_right_support_point l r (r - l) L R = Some (wl, wr) ->
  wl + wr = r - l /\ L * wl + R * wr = Qchalf * (r * r - l * l).
Proof. exact gen_slice_pair_consistent. Qed.
Theorem C11_gen_coefficients_sum_one : forall c a b m, a <> b -> (cls_lo c <= m)%nat ->
  exists cs, py_mapM (fun j => ExtrapolationCoefficients_dyn_get_coefficient (mk_ExtrapolationCoefficients_t c a b) (Z.of_nat m) j)
                     (py_range (Z.of_nat (S m))) = Some cs /\ sumQ cs = 1.
Proof. exact gen_coefficients_sum_one. Qed.
Theorem C11_gen_coefficients_interval_independent : forall c a b a' b' m j, a <> b -> a' <> b' ->
  ExtrapolationCoefficients_dyn_get_coefficient (mk_ExtrapolationCoefficients_t c a b) (Z.of_nat m) (Z.of_nat j)
  = ExtrapolationCoefficients_dyn_get_coefficient (mk_ExtrapolationCoefficients_t c a' b') (Z.of_nat m) (Z.of_nat j).
Proof. exact gen_coefficients_interval_independent. Qed.
Print Assumptions C11_gen_slice_weights_consistent.
Print Assumptions C11_gen_coefficients_sum_one.

(* non-vacuity: the generated functions compute the weights of the repo's own test (test_RombergWeightFactory-style values) *)
Example C11_gen_nonvacuous_support :
  option_map (map (fun p => (this (fst p), this (snd p))))
    (ExtrapolationGrid_compute_support_sequence [0; q 1 2; q 5 8; q 3 4; 1] [0; 1; 3; 2; 0]%Z 1 2)
  = Some [(0%Q, 1%Q); ((1 # 2)%Q, 1%Q); ((1 # 2)%Q, (3 # 4)%Q); ((1 # 2)%Q, (5 # 8)%Q)].
Proof. vm_compute. reflexivity. Qed.
Example C11_gen_nonvacuous :
  (exists f, RombergWeightFactory_get 0 1 ExtrapolationVersion_ROMBERG_DEFAULT = Some f /\
     option_map this (RombergTrapezoidalWeights_get_boundary_point_weight f 2%Z) = Some (7 # 90)%Q /\
     option_map this (RombergTrapezoidalWeights_get_inner_point_weight f 1%Z 2%Z) = Some (2 # 15)%Q /\
     option_map this (RombergTrapezoidalWeights_get_inner_point_weight f 2%Z 2%Z) = Some (16 # 45)%Q /\
     RombergTrapezoidalWeights_get_inner_point_weight f 3%Z 2%Z = None) /\
  (exists f, RombergWeightFactory_get 0 1 ExtrapolationVersion_ROMBERG_SIMPSON = Some f /\
     option_map this (RombergSimpsonWeights_get_boundary_point_weight f 1%Z) = Some (1 # 6)%Q /\
     option_map this (RombergSimpsonWeights_get_inner_point_weight f 1%Z 1%Z) = Some (2 # 3)%Q) /\
  option_map (fun p => (this (fst p), this (snd p)))
    (RombergGridSlice_get_weight_for_left_and_right_support_point (q 1 2) (q 5 8) (q 1 8) 0 1) = Some ((7 # 128)%Q, (9 # 128)%Q) /\
  (* the slice [1/2, 5/8] of the grid of the repo's own test, levels (1,3), support sequence (0,1),(1/2,1),(1/2,3/4),(1/2,5/8) *)
  option_map (map (fun kv => (this (fst kv), map this (snd kv))))
    (RombergGridSlice_get_final_weights (q 1 2) (q 5 8) (q 1 8) 3 [(0, 1); (q 1 2, 1); (q 1 2, q 3 4); (q 1 2, q 5 8)]
       (mk_ExtrapolationCoefficientsFactory_t ExtrapolationVersion_ROMBERG_DEFAULT))
  = Some [(0%Q, [(-1 # 51840)%Q]); (1%Q, [(-1 # 40320)%Q; (1 # 2160)%Q]); ((1 # 2)%Q, [(7 # 2160)%Q; (-2 # 45)%Q; (256 # 2835)%Q]);
          ((3 # 4)%Q, [(-2 # 135)%Q]); ((5 # 8)%Q, [(256 # 2835)%Q])].
Proof.
  split; [|split; [|split]].
  - eexists. split; [reflexivity|]. repeat split; vm_compute; reflexivity.
  - eexists. split; [reflexivity|]. repeat split; vm_compute; reflexivity.
  - vm_compute. reflexivity.
  - vm_compute. reflexivity.
Qed.

(* ---------------------------------------------------------------------------------------------------------------------------------
   phase 5: the container level normalisation, source-derived (Proofs/GenExtrapolationNormEq.v).
   ExtrapolationGridSliceContainer.get_normalized_grid_levels and its private recursion are translated from Extrapolation.py at every
   run; the results of the accessors self.get_grid() / self.get_grid_levels() / self.__assert_size() are parameters (option T,
   None = raises; assumed pure).  The generated function IS the model's normalized_levels (which container_final_from and the C11
   container theorems use) on every grid, and the positional-level theorem holds for what the source says now. *)
From SG Require Import Proofs.GenExtrapolationNormEq.
Open Scope Qc_scope.
Theorem C11_gen_normalized_levels_rec_is_model : forall fuel fuel' start stop level,
  (1 <= start)%nat -> (stop + 1 - start < fuel)%nat -> (stop + 1 - start < fuel')%nat ->
  ExtrapolationGridSliceContainer___get_normalized_grid_levels_rec fuel (py_Z2Qc (Z.of_nat start)) (py_Z2Qc (Z.of_nat stop))
    (Z.of_nat level) = Some (map Z.of_nat (norm_levels_rec fuel' start stop level)).
Proof. exact gen_norm_rec. Qed.
Theorem C11_gen_normalized_grid_levels_is_model : forall (grid : list Qc) (levels : option (list Z)) (size_ok : option unit),
  ExtrapolationGridSliceContainer_get_normalized_grid_levels (Some grid) levels size_ok =
  if (length grid =? 2)%nat then levels
  else if Nat.odd (length grid) && (3 <=? length grid)%nat then
    match size_ok with Some _ => Some (map Z.of_nat (normalized_levels (length grid))) | None => None end
  else None.
Proof. exact gen_normalized_grid_levels_is_model. Qed.
Theorem C11_gen_normalized_grid_levels_positional : forall K grid levels,
  (1 <= K)%nat -> length grid = S (2 ^ K) ->
  exists nl, ExtrapolationGridSliceContainer_get_normalized_grid_levels (Some grid) levels (Some tt) = Some (map Z.of_nat nl) /\
    length nl = length grid /\ nth 0 nl 1%nat = 0%nat /\ nth (2 ^ K) nl 1%nat = 0%nat /\
    forall i, (1 <= i < 2 ^ K)%nat ->
      let l := nth i nl 0%nat in (1 <= l <= K)%nat /\ Nat.divide (2 ^ (K - l)) i /\ ~ Nat.divide (2 ^ (S K - l)) i.
Proof. exact gen_normalized_grid_levels_positional. Qed.
Print Assumptions C11_gen_normalized_levels_rec_is_model.
Print Assumptions C11_gen_normalized_grid_levels_is_model.
Print Assumptions C11_gen_normalized_grid_levels_positional.
(* non-vacuity: the docstring's container [0.5, 0.625, 0.75] (levels 1,3,2) is normalised to [0,1,0]; nine points to the dyadic
   pattern; a unit container returns its own levels; an even / too small point count raises *)
Example C11_gen_normalized_levels_nonvacuous :
  ExtrapolationGridSliceContainer_get_normalized_grid_levels (Some [q 1 2; q 5 8; q 3 4]) (Some [1; 3; 2]%Z) (Some tt)
    = Some [0; 1; 0]%Z /\
  ExtrapolationGridSliceContainer_get_normalized_grid_levels (Some (map (fun k => q (Z.of_nat k) 8) (seq 0 9))) None (Some tt)
    = Some [0; 3; 2; 3; 1; 3; 2; 3; 0]%Z /\
  ExtrapolationGridSliceContainer_get_normalized_grid_levels (Some [0; 1]) (Some [4; 7]%Z) None = Some [4; 7]%Z /\
  ExtrapolationGridSliceContainer_get_normalized_grid_levels (Some [0; q 1 4; q 1 2; 1]) (Some [0; 2; 1; 0]%Z) (Some tt) = None /\
  ExtrapolationGridSliceContainer_get_normalized_grid_levels (Some [0; q 1 2; 1]) None None = None.
Proof. repeat split; vm_compute; reflexivity. Qed.
