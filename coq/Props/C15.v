(* C15 — Weighted UQ quadrature is a probability measure; moments transform correctly.
   Property theorems only; each is closed by `exact` of a lemma from Proofs/UQ.v.
   Objects (Model/UQ.v): wtrap boundary modified a b ivs = GlobalTrapezoidalGridWeighted.compute_weights on the consecutive
   intervals ivs = (x1, x2, moment_0, moment_1) (None = the Python raises / produces inf, nan); uni_ivals = the uniform
   distribution in closed form; get_middle_weighted a b mid0 with mid0 = ppf((cdf a + cdf b)/2);
   rule_mom1 / rule_mom2 / variance_of = expectation, second moment and variance computed from a rule with weights w on
   model values f (moments_to_expectation_variance takes the absolute value of a negative variance). *)
From Coq Require Import ZArith List QArith Qcanon Bool Arith Lia.
From SG Require Import Base.QcUtil Model.Trap Model.UQ Proofs.TrapBasics Proofs.UQ.
Import ListNotations.
Open Scope Qc_scope.

(* ---- weights: for ARBITRARY moment inputs, whenever compute_weights returns (negative clipping, renormalisation) ---- *)
Theorem C15_wtrap_nonneg : forall boundary a b ivs w,
  wtrap boundary false a b ivs = Some w -> forall q, In q w -> 0 <= q.
Proof. exact wtrap_nonneg. Qed.
Print Assumptions C15_wtrap_nonneg.

Theorem C15_wtrap_sum_one_noboundary : forall a b ivs w, wtrap false false a b ivs = Some w -> sumQ w = 1.
Proof. exact wtrap_sum_one_noboundary. Qed.
Print Assumptions C15_wtrap_sum_one_noboundary.

(* ---- with boundary points, under the hypotheses a non-negative density provides for its interval moments
   (m0 >= 0, x1*m0 <= m1 <= x2*m0 on finite intervals): nothing is clipped, no assert fires, the weights sum to the
   total probability sum m0 (= cdf(b) - cdf(a) by additivity; = 1 when [a,b] covers the support).
   For the normal distribution these hypotheses are ASSUMED (transcendental moments) and spot-checked numerically per run. ---- *)
Theorem C15_wtrap_boundary_sum : forall a b ivs,
  (1 <= length ivs)%nat -> (forall iv, In iv ivs -> ival_ok iv) ->
  wtrap true false a b ivs = Some (accum 0 ivs) /\ sumQ (accum 0 ivs) = sum_m0 ivs.
Proof. exact wtrap_boundary_sum. Qed.
Print Assumptions C15_wtrap_boundary_sum.

(* ---- the uniform instance: hypotheses hold, weights = unweighted trapezoidal weights / (b-a) (boundary points) resp.
   the inner unweighted weights renormalised to sum 1 (no boundary points) ---- *)
Theorem C15_uniform_moments_ok : forall a b x, a < b -> strictly_increasing x ->
  forall iv, In iv (uni_ivals a b x) -> ival_ok iv.
Proof. exact uni_ivals_ok. Qed.
Theorem C15_wtrap_uniform_is_trap_over_length : forall x a b,
  strictly_increasing x -> (2 <= length x)%nat -> a < b ->
  wtrap true false a b (uni_ivals a b x) = Some (map (fun t => t / (b - a)) (weights_raw false x a b)).
Proof. exact wtrap_uniform_is_trap_over_length. Qed.
Theorem C15_wtrap_uniform_noboundary : forall x a b,
  strictly_increasing x -> (4 <= length x)%nat -> a < b ->
  let inner := strip (weights_raw false x a b) in
  sumQ inner <> 0 ->
  wtrap false false a b (uni_ivals a b x) = Some (0 :: map (fun v => v / sumQ inner) inner ++ [0]).
Proof. exact wtrap_uniform_noboundary. Qed.
Theorem C15_wtrap_uniform_sum_one : forall x a b,
  strictly_increasing x -> (2 <= length x)%nat -> a < b -> nq x 0 = a -> nq x (length x - 1) = b ->
  exists w, wtrap true false a b (uni_ivals a b x) = Some w /\ sumQ w = 1 /\ (forall q, In q w -> 0 <= q).
Proof. exact wtrap_uniform_sum_one. Qed.
Print Assumptions C15_wtrap_uniform_is_trap_over_length.
Print Assumptions C15_wtrap_uniform_noboundary.
Print Assumptions C15_wtrap_uniform_sum_one.

(* ---- weighted midpoint (exact arithmetic): strictly inside on every interval a < b, except (-inf, +inf) with a failing ppf;
   halves the probability whenever the ppf inverts the cdf at (cdf a + cdf b)/2 ---- *)
Theorem C15_mid_strictly_inside : forall a b mid0,
  ext_lt a b -> (a = NegInf -> b = PosInf -> inside a mid0 b = true) ->
  exists m, get_middle_weighted a b mid0 = Some m /\ inside a m b = true.
Proof. exact mid_strictly_inside. Qed.
Theorem C15_mid_equal_probability : forall (cdf : ext -> Qc) a b mid0,
  inside a mid0 b = true -> cdf mid0 = Qchalf * (cdf a + cdf b) ->
  get_middle_weighted a b mid0 = Some mid0 /\ cdf mid0 - cdf a = cdf b - cdf mid0.
Proof. exact mid_equal_probability. Qed.
Print Assumptions C15_mid_strictly_inside.

(* ---- expectation and variance from the moments of ANY rule whose weights sum to 1 (weights of either sign) ---- *)
Theorem C15_expectation_affine : forall w f c e, length w = length f -> sumQ w = 1 ->
  rule_mom1 w (map (fun t => c * t + e) f) = c * rule_mom1 w f + e.
Proof. exact expectation_affine. Qed.
Theorem C15_variance_affine : forall w f c e, length w = length f -> sumQ w = 1 ->
  variance_of w (map (fun t => c * t + e) f) = c * c * variance_of w f.
Proof. exact variance_affine. Qed.
Theorem C15_variance_nonneg : forall w f, 0 <= variance_of w f.
Proof. exact variance_nonneg. Qed.
Theorem C15_constant_model : forall w k n, length w = n -> sumQ w = 1 ->
  rule_mom1 w (repeat k n) = k /\ variance_of w (repeat k n) = 0.
Proof. exact constant_model. Qed.
(* the list function applied to the combined integral [moments 1 | moments 2] *)
Theorem C15_variances_nonneg : forall mom1 mom2 v, In v (variances mom1 mom2) -> 0 <= v.
Proof. exact variances_nonneg. Qed.
Theorem C15_variances_spec : forall mom1 mom2 j, (j < length mom1)%nat -> (j < length mom2)%nat ->
  nq (variances mom1 mom2) j = absneg (nq mom2 j - nq mom1 j * nq mom1 j).
Proof. exact variances_spec. Qed.
Theorem C15_variance_from_moments_affine : forall m1 m2 c e,
  absneg ((c * c * m2 + (1 + 1) * c * e * m1 + e * e) - (c * m1 + e) * (c * m1 + e)) = c * c * absneg (m2 - m1 * m1).
Proof. exact variance_from_moments_affine. Qed.
Print Assumptions C15_variance_affine.
Print Assumptions C15_constant_model.

(* ---- non-vacuity ---- *)
Definition q (n : Z) (d : positive) : Qc := Q2Qc (n # d).
Definition g6 := [q (-1) 1; q (-1) 2; q 0 1; q 1 1; q 2 1; q 3 1].
Definition qs (o : option (list Qc)) : option (list Q) := option_map (map this) o.

Lemma si_dec (l : list Qc) : (fix chk (l : list Qc) : bool :=
    match l with x0 :: ((x1 :: _) as t) => Qc_ltb x0 x1 && chk t | _ => true end) l = true -> strictly_increasing l.
Proof.
  induction l as [|x0 t IH]; [intros _; exact I|]. destruct t as [|x1 t]; [intros _; exact I|].
  intro H. apply andb_true_iff in H. destruct H as [H1 H2]. split; [apply Qc_ltb_lt; exact H1 | apply IH; exact H2].
Qed.

(* uniform on [-1,3], six points: with and without boundary points *)
Example C15_nonvacuous_uniform :
  strictly_increasing g6 /\
  qs (wtrap true false (q (-1) 1) (q 3 1) (uni_ivals (q (-1) 1) (q 3 1) g6)) = Some [1 # 16; 1 # 8; 3 # 16; 1 # 4; 1 # 4; 1 # 8]%Q /\
  qs (wtrap false false (q (-1) 1) (q 3 1) (uni_ivals (q (-1) 1) (q 3 1) g6)) = Some [0; 2 # 13; 3 # 13; 4 # 13; 4 # 13; 0]%Q.
Proof. split; [apply si_dec; vm_compute; reflexivity | split; vm_compute; reflexivity]. Qed.

(* a non-uniform measure with an infinite tail: intervals (-inf,0], [0,1], [1,+inf) with masses 1/2, 1/4, 1/4 *)
Definition ivs3 : list ival :=
  [ {| i_x1 := NegInf; i_x2 := Fin (q 0 1); i_m0 := q 1 2; i_m1 := q (-2) 5 |};
    {| i_x1 := Fin (q 0 1); i_x2 := Fin (q 1 1); i_m0 := q 1 4; i_m1 := q 1 10 |};
    {| i_x1 := Fin (q 1 1); i_x2 := PosInf; i_m0 := q 1 4; i_m1 := q 1 2 |} ].
Example C15_nonvacuous_infinite :
  (forall iv, In iv ivs3 -> ival_ok iv) /\
  qs (wtrap true false 0 0 ivs3) = Some [0; 13 # 20; 7 # 20; 0]%Q /\
  qs (wtrap false false 0 0 ivs3) = Some [0; 13 # 20; 7 # 20; 0]%Q.
Proof.
  split; [|split; vm_compute; reflexivity].
  intros iv [<-|[<-|[<-|[]]]]; unfold ival_ok; cbn [i_x1 i_x2 i_m0 i_m1]; repeat split;
    try (apply Qc_leb_le; vm_compute; reflexivity); try (apply Qc_ltb_lt; vm_compute; reflexivity).
Qed.

(* midpoints: inside a finite interval, a half-infinite one; the affine laws on a concrete rule with a negative weight *)
Example C15_nonvacuous_mid :
  get_middle_weighted NegInf (Fin (q (-40) 1)) NegInf = Some (Fin (q (-40) 1 + - eps14)) /\
  get_middle_weighted (Fin (q 2 1)) (Fin (q 3 1)) (Fin (q 7 1)) = Some (Fin (Qchalf * (q 2 1 + q 3 1))).
Proof. split; reflexivity. Qed.
Example C15_nonvacuous_moments :
  let w := [q 3 4; q (-1) 4; q 1 2] in let f := [q 1 1; q 5 1; q 2 1] in
  sumQ w = 1 /\ this (variance_of w f) = (15 # 4)%Q /\
  this (variance_of w (map (fun t => q 3 1 * t + q (-2) 1) f)) = (135 # 4)%Q.
Proof. cbv zeta. split; [apply Qc_is_canon; vm_compute; reflexivity | split; vm_compute; reflexivity]. Qed.
