(* C15 — Weighted UQ quadrature is a probability measure; moments transform correctly.
   Property theorems only; each is closed by `exact` of a lemma from Proofs/UQ.v.
   Objects (Model/UQ.v): wtrap boundary modified a b ivs = GlobalTrapezoidalGridWeighted.compute_weights on the consecutive
   intervals ivs = (x1, x2, moment_0, moment_1) (None = the Python raises / produces inf, nan); uni_ivals = the uniform
   distribution in closed form; get_middle_weighted a b mid0 with mid0 = ppf((cdf a + cdf b)/2);
   rule_mom1 / rule_mom2 / variance_of = expectation, second moment and variance computed from a rule with weights w on
   model values f (moments_to_expectation_variance takes the absolute value of a negative variance). *)
From Coq Require Import ZArith List QArith Qcanon Bool Arith Lia.
From SG Require Import Base.QcUtil Model.Trap Model.UQ Model.UQGrid Proofs.TrapBasics Proofs.UQ Proofs.UQGrid Proofs.UQTriangle.
From SG Require Model.CombiScheme Proofs.SchemeInv Proofs.UQScheme.
Import ListNotations.
Open Scope Qc_scope.

(* ---- weights: for ARBITRARY moment inputs, whenever compute_weights returns (negative clipping, renormalisation) ---- *)
Theorem C15_wtrap_nonneg : forall boundary a b ivs w,
  wtrap boundary false a b ivs = Some w -> forall q, In q w -> 0 <= q.
Proof. exact wtrap_nonneg. Qed.
Print Assumptions C15_wtrap_nonneg.

Theorem C15_wtrap_sum_one_noboundary : forall a b ivs w, wtrap false false a b ivs = Some w -> sumQ w = 1.
Proof. exact wtrap_sum_one_noboundary. Qed.
Print Assumptions C15_wtrap_sum_one_noboundary.

(* ---- with boundary points, under the hypotheses a non-negative density provides for its interval moments
   (m0 >= 0, x1*m0 <= m1 <= x2*m0 on finite intervals): nothing is clipped, no assert fires, the weights sum to the
   total probability sum m0 (= cdf(b) - cdf(a) by additivity; = 1 when [a,b] covers the support).
   For the normal distribution these hypotheses are ASSUMED (transcendental moments) and spot-checked numerically per run. ---- *)
Theorem C15_wtrap_boundary_sum : forall a b ivs,
  (1 <= length ivs)%nat -> (forall iv, In iv ivs -> ival_ok iv) ->
  wtrap true false a b ivs = Some (accum 0 ivs) /\ sumQ (accum 0 ivs) = sum_m0 ivs.
Proof. exact wtrap_boundary_sum. Qed.
Print Assumptions C15_wtrap_boundary_sum.

(* ---- the uniform instance: hypotheses hold, weights = unweighted trapezoidal weights / (b-a) (boundary points) resp.
   the inner unweighted weights renormalised to sum 1 (no boundary points) ---- *)
Theorem C15_uniform_moments_ok : forall a b x, a < b -> strictly_increasing x ->
  forall iv, In iv (uni_ivals a b x) -> ival_ok iv.
Proof. exact uni_ivals_ok. Qed.
Theorem C15_wtrap_uniform_is_trap_over_length : forall x a b,
  strictly_increasing x -> (2 <= length x)%nat -> a < b ->
  wtrap true false a b (uni_ivals a b x) = Some (map (fun t => t / (b - a)) (weights_raw false x a b)).
Proof. exact wtrap_uniform_is_trap_over_length. Qed.
Theorem C15_wtrap_uniform_noboundary : forall x a b,
  strictly_increasing x -> (4 <= length x)%nat -> a < b ->
  let inner := strip (weights_raw false x a b) in
  sumQ inner <> 0 ->
  wtrap false false a b (uni_ivals a b x) = Some (0 :: map (fun v => v / sumQ inner) inner ++ [0]).
Proof. exact wtrap_uniform_noboundary. Qed.
Theorem C15_wtrap_uniform_sum_one : forall x a b,
  strictly_increasing x -> (2 <= length x)%nat -> a < b -> nq x 0 = a -> nq x (length x - 1) = b ->
  exists w, wtrap true false a b (uni_ivals a b x) = Some w /\ sumQ w = 1 /\ (forall q, In q w -> 0 <= q).
Proof. exact wtrap_uniform_sum_one. Qed.
Print Assumptions C15_wtrap_uniform_is_trap_over_length.
Print Assumptions C15_wtrap_uniform_noboundary.
Print Assumptions C15_wtrap_uniform_sum_one.

(* ---- weighted midpoint (exact arithmetic): strictly inside on every interval a < b, except (-inf, +inf) with a failing ppf;
   halves the probability whenever the ppf inverts the cdf at (cdf a + cdf b)/2 ---- *)
Theorem C15_mid_strictly_inside : forall a b mid0,
  ext_lt a b -> (a = NegInf -> b = PosInf -> inside a mid0 b = true) ->
  exists m, get_middle_weighted a b mid0 = Some m /\ inside a m b = true.
Proof. exact mid_strictly_inside. Qed.
Theorem C15_mid_equal_probability : forall (cdf : ext -> Qc) a b mid0,
  inside a mid0 b = true -> cdf mid0 = Qchalf * (cdf a + cdf b) ->
  get_middle_weighted a b mid0 = Some mid0 /\ cdf mid0 - cdf a = cdf b - cdf mid0.
Proof. exact mid_equal_probability. Qed.
Print Assumptions C15_mid_strictly_inside.

(* ---- expectation and variance from the moments of ANY rule whose weights sum to 1 (weights of either sign) ---- *)
Theorem C15_expectation_affine : forall w f c e, length w = length f -> sumQ w = 1 ->
  rule_mom1 w (map (fun t => c * t + e) f) = c * rule_mom1 w f + e.
Proof. exact expectation_affine. Qed.
Theorem C15_variance_affine : forall w f c e, length w = length f -> sumQ w = 1 ->
  variance_of w (map (fun t => c * t + e) f) = c * c * variance_of w f.
Proof. exact variance_affine. Qed.
Theorem C15_variance_nonneg : forall w f, 0 <= variance_of w f.
Proof. exact variance_nonneg. Qed.
Theorem C15_constant_model : forall w k n, length w = n -> sumQ w = 1 ->
  rule_mom1 w (repeat k n) = k /\ variance_of w (repeat k n) = 0.
Proof. exact constant_model. Qed.
(* the list function applied to the combined integral [moments 1 | moments 2] *)
Theorem C15_variances_nonneg : forall mom1 mom2 v, In v (variances mom1 mom2) -> 0 <= v.
Proof. exact variances_nonneg. Qed.
Theorem C15_variances_spec : forall mom1 mom2 j, (j < length mom1)%nat -> (j < length mom2)%nat ->
  nq (variances mom1 mom2) j = absneg (nq mom2 j - nq mom1 j * nq mom1 j).
Proof. exact variances_spec. Qed.
Theorem C15_variance_from_moments_affine : forall m1 m2 c e,
  absneg ((c * c * m2 + (1 + 1) * c * e * m1 + e * e) - (c * m1 + e) * (c * m1 + e)) = c * c * absneg (m2 - m1 * m1).
Proof. exact variance_from_moments_affine. Qed.
Print Assumptions C15_variance_affine.
Print Assumptions C15_constant_model.

(* ==== second part (Model/UQGrid.v, Proofs/UQGrid.v, Proofs/UQTriangle.v) ==== *)

(* ---- the triangle distribution on [a,b] with mode a < c < b in closed form (piecewise quadratic cdf, piecewise cubic first
   moment): the interval-moment hypotheses hold on every interval inside [a,b] - left of the mode, right of it, containing it;
   hence for EVERY grid a = x_0 < ... < x_n = b the weights exist (no clipping, no assert), are non-negative and sum to 1 ---- *)
Theorem C15_triangle_moments_ok : forall a c b x,
  a < c -> c < b -> strictly_increasing x -> (forall t, In t x -> a <= t /\ t <= b) ->
  forall iv, In iv (tri_ivals a c b x) -> ival_ok iv.
Proof. exact tri_ivals_ok. Qed.
Theorem C15_wtrap_triangle_probability : forall x a c b,
  a < c -> c < b -> strictly_increasing x -> (2 <= length x)%nat -> nq x 0 = a -> nq x (length x - 1) = b ->
  exists w, wtrap true false a b (tri_ivals a c b x) = Some w /\ sumQ w = 1 /\ (forall q, In q w -> 0 <= q).
Proof. exact wtrap_triangle_probability. Qed.
Theorem C15_wtrap_triangle_subgrid : forall x a c b,
  a < c -> c < b -> strictly_increasing x -> (2 <= length x)%nat -> a <= nq x 0 -> nq x (length x - 1) <= b ->
  exists w, wtrap true false a b (tri_ivals a c b x) = Some w /\
            sumQ w = tri_cdf a c b (nq x (length x - 1)) - tri_cdf a c b (nq x 0) /\ (forall q, In q w -> 0 <= q).
Proof. exact wtrap_triangle_subgrid. Qed.
Print Assumptions C15_wtrap_triangle_probability.
Print Assumptions C15_wtrap_triangle_subgrid.

(* ---- without boundary points under the moment hypotheses: the inner composite weights renormalised, nothing clipped ---- *)
Theorem C15_wtrap_noboundary_ok : forall a b ivs,
  (3 <= length ivs)%nat -> (forall iv, In iv ivs -> ival_ok iv) ->
  let inner := strip (accum 0 ivs) in
  sumQ inner <> 0 ->
  wtrap false false a b ivs = Some (0 :: map (fun v => (1 / sumQ inner) * v) inner ++ [0]).
Proof. exact wtrap_noboundary_ok. Qed.
(* ---- ARBITRARY (rounded) moments with boundary points: the clipping moves the sum by less than (number of points) * 1e-5 ---- *)
Theorem C15_wtrap_boundary_sum_robust : forall a b ivs w,
  (1 <= length ivs)%nat -> wtrap true false a b ivs = Some w ->
  sum_m0 ivs <= sumQ w /\ sumQ w <= sum_m0 ivs + qc_of_Z (Z.of_nat (S (length ivs))) * clip_tol.
Proof. exact wtrap_boundary_sum_robust. Qed.
Print Assumptions C15_wtrap_noboundary_ok.
Print Assumptions C15_wtrap_boundary_sum_robust.

(* ---- GlobalGrid.set_grid of the d-dimensional weighted grid: the weights stored for dimension d are a function of the request
   of dimension d alone (its points, its distribution's moments, the boundary flag) - no other dimension, no earlier request ---- *)
Theorem C15_set_grid_dimension_independent : forall boundary mb dims1 dims2 ws1 ws2 d,
  set_grid_weights boundary mb dims1 = Some ws1 -> set_grid_weights boundary mb dims2 = Some ws2 ->
  (d < length dims1)%nat -> (d < length dims2)%nat ->
  nth d dims1 {| d_a := 0; d_b := 0; d_ivs := [] |} = nth d dims2 {| d_a := 0; d_b := 0; d_ivs := [] |} ->
  nth d ws1 [] = nth d ws2 [].
Proof. exact set_grid_weights_dimension_independent. Qed.
Theorem C15_grid_weights_noboundary_probability : forall r w,
  grid_weights_1d false false r = Some w -> (2 <= length (d_ivs r))%nat -> prob_vector w.
Proof. exact grid_weights_1d_noboundary_probability. Qed.
Theorem C15_grid_weights_boundary : forall r,
  (1 <= length (d_ivs r))%nat -> (forall iv, In iv (d_ivs r) -> ival_ok iv) ->
  exists w, grid_weights_1d true false r = Some w /\ sumQ w = sum_m0 (d_ivs r) /\ forall q, In q w -> 0 <= q.
Proof. exact grid_weights_1d_boundary. Qed.
Print Assumptions C15_set_grid_dimension_independent.
Print Assumptions C15_grid_weights_noboundary_probability.

(* ---- get_weights: the tensor product of probability vectors is a probability vector, in every number of dimensions ---- *)
Theorem C15_tensor_weights_sum : forall ws, sumQ (tensor_weights ws) = prodQ (map sumQ ws).
Proof. exact tensor_weights_sum. Qed.
Theorem C15_tensor_probability : forall ws, (forall w, In w ws -> prob_vector w) -> prob_vector (tensor_weights ws).
Proof. exact tensor_probability. Qed.
(* ---- get_points_and_weights of the combination: coefficients summing to 1 (C01, C03), 1D weights summing to 1 ---- *)
Theorem C15_combined_weights_sum : forall comps,
  sumQ (combined_weights comps) = sumQ (map (fun cw => fst cw * prodQ (map sumQ (snd cw))) comps).
Proof. exact combined_weights_sum. Qed.
Theorem C15_combined_weights_sum_one : forall comps,
  sumQ (map fst comps) = 1 -> (forall cw, In cw comps -> forall w, In w (snd cw) -> sumQ w = 1) ->
  sumQ (combined_weights comps) = 1.
Proof. exact combined_weights_sum_one. Qed.
Print Assumptions C15_tensor_probability.
Print Assumptions C15_combined_weights_sum_one.

(* ---- the vector valued expectation-variance function [f | f^2] integrated by a rule, and what
   calculate_expectation_and_variance makes of it: per output component the scalar expectation and variance; the
   nodes-and-weights path (use_combiinstance_solution=False) returns the same pair ---- *)
Theorem C15_integrate_rule_comp : forall K w vals j,
  (forall v, In v vals -> length v = K) -> length w = length vals ->
  nq (integrate_rule K w vals) j = dotQ w (comp j vals).
Proof. exact integrate_rule_comp. Qed.
Theorem C15_ev_combi_spec : forall K w vals,
  (forall v, In v vals -> length v = K) -> length w = length vals ->
  ev_combi K w vals = (map (fun j => rule_mom1 w (comp j vals)) (seq 0 K), map (fun j => variance_of w (comp j vals)) (seq 0 K)).
Proof. exact ev_combi_spec. Qed.
Theorem C15_ev_nodes_is_ev_combi : forall K w vals,
  (forall v, In v vals -> length v = K) -> length w = length vals -> ev_nodes K w vals = ev_combi K w vals.
Proof. exact ev_nodes_spec. Qed.
(* ---- end to end: the vector model (f, c f + e) on ONE rule whose weights sum to 1 (weights of either sign) ---- *)
Theorem C15_uq_affine_vector_model : forall w f c e,
  length w = length f -> sumQ w = 1 ->
  ev_combi 2 w (map (fun t => [t; c * t + e]) f)
  = ([rule_mom1 w f; c * rule_mom1 w f + e], [variance_of w f; c * c * variance_of w f]).
Proof. exact uq_affine_vector_model. Qed.
Theorem C15_uq_constant_vector_model : forall w k c e n,
  length w = n -> sumQ w = 1 -> ev_combi 2 w (repeat [k; c * k + e] n) = ([k; c * k + e], [0; 0]).
Proof. exact uq_constant_vector_model. Qed.
(* ---- ... and on the combined sparse-grid rule of any combination with coefficient sum 1 ---- *)
Theorem C15_uq_combined_rule_laws : forall (comps : list (Qc * list (list Qc))) f c e,
  sumQ (map fst comps) = 1 ->
  (forall cw, In cw comps -> forall w, In w (snd cw) -> sumQ w = 1) ->
  let W := combined_weights comps in
  length W = length f ->
  ev_combi 2 W (map (fun t => [t; c * t + e]) f)
  = ([rule_mom1 W f; c * rule_mom1 W f + e], [variance_of W f; c * c * variance_of W f])
  /\ ev_nodes 2 W (map (fun t => [t; c * t + e]) f) = ev_combi 2 W (map (fun t => [t; c * t + e]) f)
  /\ 0 <= variance_of W f.
Proof. exact uq_combined_rule_laws. Qed.
Print Assumptions C15_ev_combi_spec.
Print Assumptions C15_ev_nodes_is_ev_combi.
Print Assumptions C15_uq_affine_vector_model.
Print Assumptions C15_uq_combined_rule_laws.
Print Assumptions C15_triangle_moments_ok.
Print Assumptions C15_grid_weights_boundary.
Print Assumptions C15_tensor_weights_sum.
Print Assumptions C15_combined_weights_sum.
Print Assumptions C15_integrate_rule_comp.
Print Assumptions C15_uq_constant_vector_model.

(* ---- the coefficient hypothesis discharged by C01: for EVERY state of the adaptive combination scheme that satisfies the C01
   invariant (every initialisation, every update history) and every assignment of 1D weight vectors summing to 1 to its level
   vectors, the combined weights sum to 1 and the expectation / variance laws hold on the combined rule ---- *)
Theorem C15_scheme_combined_weights_sum_one : forall (s : CombiScheme.scheme) (ws : list Z -> list (list Qc)),
  SchemeInv.Inv s -> (forall k w, In w (ws k) -> sumQ w = 1) ->
  sumQ (combined_weights (UQScheme.scheme_comps (CombiScheme.combi_scheme_adaptive s) ws)) = 1.
Proof. exact UQScheme.scheme_combined_weights_sum_one. Qed.
Theorem C15_scheme_uq_laws : forall (s : CombiScheme.scheme) (ws : list Z -> list (list Qc)) f c e,
  SchemeInv.Inv s -> (forall k w, In w (ws k) -> sumQ w = 1) ->
  let W := combined_weights (UQScheme.scheme_comps (CombiScheme.combi_scheme_adaptive s) ws) in
  length W = length f ->
  ev_combi 2 W (map (fun t => [t; c * t + e]) f)
  = ([rule_mom1 W f; c * rule_mom1 W f + e], [variance_of W f; c * c * variance_of W f])
  /\ ev_nodes 2 W (map (fun t => [t; c * t + e]) f) = ev_combi 2 W (map (fun t => [t; c * t + e]) f)
  /\ 0 <= variance_of W f.
Proof. exact UQScheme.scheme_uq_laws. Qed.
Print Assumptions C15_scheme_combined_weights_sum_one.
Print Assumptions C15_scheme_uq_laws.

(* ---- the weighted midpoint for the uniform distribution in closed form ---- *)
Theorem C15_mid_uniform : forall A B a b : Qc,
  A < B -> a < b ->
  let m := Qchalf * (a + b) in
  get_middle_weighted (Fin a) (Fin b) (Fin m) = Some (Fin m) /\ a < m /\ m < b /\ uni_m0 A B a m = uni_m0 A B m b.
Proof. exact mid_uniform. Qed.
Print Assumptions C15_mid_uniform.

Print Assumptions C15_uniform_moments_ok.
Print Assumptions C15_mid_equal_probability.
Print Assumptions C15_expectation_affine.
Print Assumptions C15_variance_nonneg.
Print Assumptions C15_variances_nonneg.
Print Assumptions C15_variances_spec.
Print Assumptions C15_variance_from_moments_affine.

(* ---- non-vacuity ---- *)
Definition q (n : Z) (d : positive) : Qc := Q2Qc (n # d).
Definition g6 := [q (-1) 1; q (-1) 2; q 0 1; q 1 1; q 2 1; q 3 1].
Definition qs (o : option (list Qc)) : option (list Q) := option_map (map this) o.

Lemma si_dec (l : list Qc) : (fix chk (l : list Qc) : bool :=
    match l with x0 :: ((x1 :: _) as t) => Qc_ltb x0 x1 && chk t | _ => true end) l = true -> strictly_increasing l.
Proof.
  induction l as [|x0 t IH]; [intros _; exact I|]. destruct t as [|x1 t]; [intros _; exact I|].
  intro H. apply andb_true_iff in H. destruct H as [H1 H2]. split; [apply Qc_ltb_lt; exact H1 | apply IH; exact H2].
Qed.

(* uniform on [-1,3], six points: with and without boundary points *)
Example C15_nonvacuous_uniform :
  strictly_increasing g6 /\
  qs (wtrap true false (q (-1) 1) (q 3 1) (uni_ivals (q (-1) 1) (q 3 1) g6)) = Some [1 # 16; 1 # 8; 3 # 16; 1 # 4; 1 # 4; 1 # 8]%Q /\
  qs (wtrap false false (q (-1) 1) (q 3 1) (uni_ivals (q (-1) 1) (q 3 1) g6)) = Some [0; 2 # 13; 3 # 13; 4 # 13; 4 # 13; 0]%Q.
Proof. split; [apply si_dec; vm_compute; reflexivity | split; vm_compute; reflexivity]. Qed.

(* a non-uniform measure with an infinite tail: intervals (-inf,0], [0,1], [1,+inf) with masses 1/2, 1/4, 1/4 *)
Definition ivs3 : list ival :=
  [ {| i_x1 := NegInf; i_x2 := Fin (q 0 1); i_m0 := q 1 2; i_m1 := q (-2) 5 |};
    {| i_x1 := Fin (q 0 1); i_x2 := Fin (q 1 1); i_m0 := q 1 4; i_m1 := q 1 10 |};
    {| i_x1 := Fin (q 1 1); i_x2 := PosInf; i_m0 := q 1 4; i_m1 := q 1 2 |} ].
Example C15_nonvacuous_infinite :
  (forall iv, In iv ivs3 -> ival_ok iv) /\
  qs (wtrap true false 0 0 ivs3) = Some [0; 13 # 20; 7 # 20; 0]%Q /\
  qs (wtrap false false 0 0 ivs3) = Some [0; 13 # 20; 7 # 20; 0]%Q.
Proof.
  split; [|split; vm_compute; reflexivity].
  intros iv [<-|[<-|[<-|[]]]]; unfold ival_ok; cbn [i_x1 i_x2 i_m0 i_m1]; repeat split;
    try (apply Qc_leb_le; vm_compute; reflexivity); try (apply Qc_ltb_lt; vm_compute; reflexivity).
Qed.

(* midpoints: inside a finite interval, a half-infinite one; the affine laws on a concrete rule with a negative weight *)
Example C15_nonvacuous_mid :
  get_middle_weighted NegInf (Fin (q (-40) 1)) NegInf = Some (Fin (q (-40) 1 + - eps14)) /\
  get_middle_weighted (Fin (q 2 1)) (Fin (q 3 1)) (Fin (q 7 1)) = Some (Fin (Qchalf * (q 2 1 + q 3 1))).
Proof. split; reflexivity. Qed.
Example C15_nonvacuous_moments :
  let w := [q 3 4; q (-1) 4; q 1 2] in let f := [q 1 1; q 5 1; q 2 1] in
  sumQ w = 1 /\ this (variance_of w f) = (15 # 4)%Q /\
  this (variance_of w (map (fun t => q 3 1 * t + q (-2) 1) f)) = (135 # 4)%Q.
Proof. cbv zeta. split; [apply Qc_is_canon; vm_compute; reflexivity | split; vm_compute; reflexivity]. Qed.

(* ---- non-vacuity of the second part ---- *)
Definition g5 := [q 0 1; q 1 4; q 1 2; q 3 4; q 1 1].
Definition g3 := [q 0 1; q 1 2; q 1 1].
(* triangle distribution on [0,1] with mode 3/10 on five equidistant points (the implementation returns
   [0.0694, 0.3659, 0.3563, 0.1786, 0.0298]; its first moments come from a quadrature with epsrel = 1e-2) *)
Example C15_nonvacuous_triangle :
  strictly_increasing g5 /\ q 0 1 < q 3 10 /\ q 3 10 < q 1 1 /\
  qs (wtrap true false (q 0 1) (q 1 1) (tri_ivals (q 0 1) (q 3 10) (q 1 1) g5)) = Some [5 # 72; 461 # 1260; 449 # 1260; 5 # 28; 5 # 168]%Q /\
  qs (wtrap false false (q 0 1) (q 1 1) (tri_ivals (q 0 1) (q 3 10) (q 1 1) g5)) = Some [0; 461 # 1135; 449 # 1135; 45 # 227; 0]%Q.
Proof.
  split; [apply si_dec; vm_compute; reflexivity|]. split; [apply Qc_ltb_lt; vm_compute; reflexivity|].
  split; [apply Qc_ltb_lt; vm_compute; reflexivity|]. split; vm_compute; reflexivity.
Qed.
(* a two-dimensional grid, triangle x uniform on ONE point list: each dimension gets the weights of its own distribution,
   the tensor weights sum to 1; a combination (1,2) + (2,1) - (1,1): 39 combined weights of either sign summing to 1 *)
Definition dT := {| d_a := q 0 1; d_b := q 1 1; d_ivs := tri_ivals (q 0 1) (q 3 10) (q 1 1) g5 |}.
Definition dU := {| d_a := q 0 1; d_b := q 1 1; d_ivs := uni_ivals (q 0 1) (q 1 1) g5 |}.
Definition dT3 := {| d_a := q 0 1; d_b := q 1 1; d_ivs := tri_ivals (q 0 1) (q 1 2) (q 1 1) g3 |}.
Definition dU3 := {| d_a := q 0 1; d_b := q 1 1; d_ivs := uni_ivals (q 0 1) (q 1 1) g3 |}.
Example C15_nonvacuous_grid :
  option_map (map (map this)) (set_grid_weights true false [dT; dU])
    = Some [[5 # 72; 461 # 1260; 449 # 1260; 5 # 28; 5 # 168]; [1 # 8; 1 # 4; 1 # 4; 1 # 4; 1 # 8]]%Q /\
  option_map (map (map this)) (set_grid_weights true false [dT3; dU3]) = Some [[1 # 6; 2 # 3; 1 # 6]; [1 # 4; 1 # 2; 1 # 4]]%Q /\
  option_map (fun ws => this (sumQ (tensor_weights ws))) (set_grid_weights true false [dT; dU]) = Some 1%Q /\
  option_map (fun w => (length w, this (sumQ w), existsb (fun t => Qc_ltb t 0) w))
             (combined_weights_req true [(q 1 1, [dT3; dU]); (q 1 1, [dT; dU3]); (q (-1) 1, [dT3; dU3])]) = Some (39%nat, 1%Q, true).
Proof. repeat split; vm_compute; reflexivity. Qed.
(* both evaluation paths on a rule with a negative weight, vector model (f, 3 f - 2) *)
Example C15_nonvacuous_ev :
  let w := [q 3 4; q (-1) 4; q 1 2] in let vals := map (fun t => [t; q 3 1 * t + q (-2) 1]) [q 1 1; q 5 1; q 2 1] in
  (fun p => (map this (fst p), map this (snd p))) (ev_combi 2 w vals) = ([1 # 2; -1 # 2], [15 # 4; 135 # 4])%Q /\
  (fun p => (map this (fst p), map this (snd p))) (ev_nodes 2 w vals) = ([1 # 2; -1 # 2], [15 # 4; 135 # 4])%Q.
Proof. cbv zeta. split; vm_compute; reflexivity. Qed.

(* the C01 scheme of dimension 2, lmax = 2, lmin = 1 (components (1,2), (2,1), -(1,1)) with triangle x uniform weights *)
Example C15_nonvacuous_scheme :
  exists s, CombiScheme.init_scheme 2 2%Z 1%Z = Some s /\ SchemeInv.Inv s /\
    let ws := fun k : list Z => map (fun l => if Z.eqb l 1 then [q 1 4; q 1 2; q 1 4] else [q 1 8; q 1 4; q 1 4; q 1 4; q 1 8]) k in
    (forall k w, In w (ws k) -> sumQ w = 1) /\
    length (combined_weights (UQScheme.scheme_comps (CombiScheme.combi_scheme_adaptive s) ws)) = 39%nat.
Proof.
  destruct (CombiScheme.init_scheme 2 2%Z 1%Z) as [s|] eqn:E; [|vm_compute in E; discriminate].
  exists s. split; [reflexivity|]. split; [exact (SchemeInv.init_inv 1 2%Z 1%Z s E)|].
  split.
  - intros k w Hin. apply in_map_iff in Hin. destruct Hin as [l [<- _]]. destruct (Z.eqb l 1); apply Qc_is_canon; vm_compute; reflexivity.
  - vm_compute in E. inversion E; subst. vm_compute. reflexivity.
Qed.

(* ==== third part: real analysis (Coquelicot; Proofs/UQReal.v). These theorems depend on the axioms of the standard library's
   real numbers (ClassicalDedekindReals.sig_not_dec, sig_forall_dec, FunctionalExtensionality.functional_extensionality_dep) and on
   nothing else; everything above stays closed under the global context. ==== *)
From Coq Require Import Reals Lra.
From Coquelicot Require Import Coquelicot.
From SG Require Import Proofs.FunPolyReal Proofs.UQReal.
Local Open Scope R_scope.

(* ---- the moment hypotheses of the weight theorems hold for EVERY density that is continuous and non-negative on the interval
   (monotonicity of the integral): m0 = int f >= 0, x1*m0 <= m1 = int x f(x) <= x2*m0 ---- *)
Theorem C15_moment_hypotheses_hold_for_every_density : forall (f : R -> R) (x1 x2 : R),
  x1 <= x2 -> (forall z, x1 <= z <= x2 -> continuous f z) -> (forall z, x1 <= z <= x2 -> 0 <= f z) ->
  0 <= mom0 f x1 x2 /\ x1 * mom0 f x1 x2 <= mom1 f x1 x2 /\ mom1 f x1 x2 <= x2 * mom0 f x1 x2.
Proof. exact moment_hypotheses. Qed.
(* ---- the composite weights over R are the formula of the Qc model (embedding Qc -> R commutes with accum) ---- *)
Theorem C15_accum_real : forall c ivs, (forall iv, In iv ivs -> finite_ival iv) ->
  map QcR (accum c ivs) = accumR (QcR c) (map toR ivs).
Proof. exact accum_real. Qed.
(* ---- every density continuous and non-negative on [a,b], every grid a <= x_0 < ... < x_n <= b, tail masses tlo, thi >= 0 (mass
   left of x_0 / right of x_n; the grid points at -inf / +inf carry weight 0): the weights are non-negative and sum to
   tlo + int_{x_0}^{x_n} f + thi ---- *)
Theorem C15_wtrap_density_probability : forall (f : R -> R) (a b : R),
  (forall z, a <= z <= b -> continuous f z) -> (forall z, a <= z <= b -> 0 <= f z) ->
  forall x tlo thi, incR x -> List.Forall (fun t => a <= t <= b) x -> x <> [] -> 0 <= tlo -> 0 <= thi ->
  (forall w, In w (weightsR tlo thi (density_ivals f x)) -> 0 <= w) /\
  sumR (weightsR tlo thi (density_ivals f x)) = tlo + RInt f (firstR x) (lastR x) + thi.
Proof. exact density_weights_probability. Qed.
(* ---- the normal distribution N(mu, sigma^2): hypotheses and weights (no longer assumed) ---- *)
Theorem C15_normal_moment_hypotheses : forall mu sigma x1 x2,
  0 < sigma -> x1 <= x2 ->
  0 <= mom0 (pdfN mu sigma) x1 x2 /\ x1 * mom0 (pdfN mu sigma) x1 x2 <= mom1 (pdfN mu sigma) x1 x2
  /\ mom1 (pdfN mu sigma) x1 x2 <= x2 * mom0 (pdfN mu sigma) x1 x2.
Proof. exact normal_moment_hypotheses. Qed.
Theorem C15_wtrap_normal_probability : forall mu sigma x tlo thi,
  0 < sigma -> incR x -> x <> [] -> 0 <= tlo -> 0 <= thi ->
  (forall w, In w (weightsR tlo thi (density_ivals (pdfN mu sigma) x)) -> 0 <= w) /\
  sumR (weightsR tlo thi (density_ivals (pdfN mu sigma) x)) = tlo + RInt (pdfN mu sigma) (firstR x) (lastR x) + thi.
Proof. exact normal_weights_probability. Qed.
(* ---- the weighted midpoint: for every density continuous on R and positive on the open interval there is exactly one point
   strictly inside that splits the interval into two parts of equal probability (intermediate value theorem + strict monotonicity of
   the cumulative integral); instance: the normal distribution ---- *)
Theorem C15_midpoint_exists_unique : forall (f : R -> R), (forall z, continuous f z) ->
  forall a b, a < b -> (forall z, a < z < b -> 0 < f z) ->
  exists m, (a < m < b /\ RInt f a m = RInt f m b) /\ forall m', a < m' < b /\ RInt f a m' = RInt f m' b -> m' = m.
Proof. exact midpoint_exists_unique. Qed.
Theorem C15_normal_midpoint : forall mu sigma a b,
  0 < sigma -> a < b ->
  exists m, (a < m < b /\ RInt (pdfN mu sigma) a m = RInt (pdfN mu sigma) m b) /\
            forall m', a < m' < b /\ RInt (pdfN mu sigma) a m' = RInt (pdfN mu sigma) m' b -> m' = m.
Proof. exact normal_midpoint. Qed.
Theorem C15_uniform_midpoint_unique : forall A B a b,
  A < B -> a < b ->
  exists m, (a < m < b /\ RInt (fun _ => / (B - A)) a m = RInt (fun _ => / (B - A)) m b) /\
            forall m', a < m' < b /\ RInt (fun _ => / (B - A)) a m' = RInt (fun _ => / (B - A)) m' b -> m' = m.
Proof. exact uniform_midpoint. Qed.
Print Assumptions C15_uniform_midpoint_unique.
Print Assumptions C15_moment_hypotheses_hold_for_every_density.
Print Assumptions C15_accum_real.
Print Assumptions C15_wtrap_density_probability.
Print Assumptions C15_normal_moment_hypotheses.
Print Assumptions C15_wtrap_normal_probability.
Print Assumptions C15_midpoint_exists_unique.
Print Assumptions C15_normal_midpoint.

(* non-vacuity: the standard normal on the grid -1 < 0 < 2 with tails 1/10, 1/20; a positive density value *)
Example C15_nonvacuous_normal :
  incR [-1; 0; 2] /\ [-1; 0; 2] <> (@nil R) /\ 0 < pdfN 0 1 0 /\
  length (weightsR (1 / 10) (1 / 20) (density_ivals (pdfN 0 1) [-1; 0; 2])) = 3%nat /\
  (forall iv, In iv ivs3 -> finite_ival iv -> True).
Proof.
  split; [simpl; lra|]. split; [discriminate|]. split; [apply pdfN_pos; lra|]. split; [reflexivity|]. intros; exact I.
Qed.

(* ==== PHASE 4: the triangle distribution as an explicit density over R (tent min(l(x), r(x)) clipped at 0, written with |.|), and
   total mass 1 of the uniform distribution tied to the closed-form moments of the Qc model ==== *)
Theorem C15_triangle_density_properties : forall A C B x,
  continuous (pdfT A C B) x /\ 0 <= pdfT A C B x /\ (A < C -> C < B -> A < x < B -> 0 < pdfT A C B x).
Proof. intros A C B x. split; [apply pdfT_continuous | split; [apply pdfT_nonneg | apply pdfT_pos]]. Qed.
Theorem C15_triangle_moment_hypotheses_real : forall A C B x1 x2,
  x1 <= x2 ->
  0 <= mom0 (pdfT A C B) x1 x2 /\ x1 * mom0 (pdfT A C B) x1 x2 <= mom1 (pdfT A C B) x1 x2
  /\ mom1 (pdfT A C B) x1 x2 <= x2 * mom0 (pdfT A C B) x1 x2.
Proof. exact triangle_moment_hypotheses. Qed.
Theorem C15_wtrap_triangle_probability_real : forall A C B x tlo thi,
  incR x -> x <> [] -> 0 <= tlo -> 0 <= thi ->
  (forall w, In w (weightsR tlo thi (density_ivals (pdfT A C B) x)) -> 0 <= w) /\
  sumR (weightsR tlo thi (density_ivals (pdfT A C B) x)) = tlo + RInt (pdfT A C B) (firstR x) (lastR x) + thi.
Proof. exact triangle_weights_probability. Qed.
Theorem C15_triangle_midpoint : forall A C B a b,
  A < C -> C < B -> A <= a -> a < b -> b <= B ->
  exists m, (a < m < b /\ RInt (pdfT A C B) a m = RInt (pdfT A C B) m b) /\
            forall m', a < m' < b /\ RInt (pdfT A C B) a m' = RInt (pdfT A C B) m' b -> m' = m.
Proof. exact triangle_midpoint. Qed.
(* the closed-form zeroth moment of the Qc model (Model/UQ.uni_m0) IS the integral of the uniform density; total mass 1; on every grid
   A = x_0 < ... < x_n = B the real weights are non-negative and sum to exactly 1 *)
Theorem C15_uniform_moment0_is_integral : forall A B x1 x2 : Qc,
  A <> B -> QcR (uni_m0 A B x1 x2) = RInt (fun _ => / (QcR B - QcR A)) (QcR x1) (QcR x2).
Proof. exact uniform_moment0_is_integral. Qed.
Theorem C15_uniform_total_mass : forall A B : R, A < B -> RInt (fun _ => / (B - A)) A B = 1.
Proof. exact uniform_total_mass. Qed.
Theorem C15_uniform_weights_sum_one_real : forall (A B : R) x,
  A < B -> incR x -> x <> [] -> firstR x = A -> lastR x = B ->
  (forall w, In w (weightsR 0 0 (density_ivals (fun _ => / (B - A)) x)) -> 0 <= w) /\
  sumR (weightsR 0 0 (density_ivals (fun _ => / (B - A)) x)) = 1.
Proof. exact uniform_weights_sum_one. Qed.
Print Assumptions C15_triangle_density_properties.
Print Assumptions C15_triangle_moment_hypotheses_real.
Print Assumptions C15_wtrap_triangle_probability_real.
Print Assumptions C15_triangle_midpoint.
Print Assumptions C15_uniform_moment0_is_integral.
Print Assumptions C15_uniform_total_mass.
Print Assumptions C15_uniform_weights_sum_one_real.
Example C15_nonvacuous_triangle_real : 0 < pdfT 0 (3 / 10) 1 (1 / 2) /\ incR [0; 1 / 4; 1] /\ firstR [0; 1 / 4; 1] = 0 /\ lastR [0; 1 / 4; 1] = 1.
Proof. split; [apply pdfT_pos; lra|]. split; [simpl; lra|]. split; reflexivity. Qed.
