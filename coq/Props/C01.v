(* C01 — Adaptive combination scheme is always a valid inclusion-exclusion scheme.
   Property theorems only; each is closed by `exact` of a lemma from Proofs/. *)
From Coq Require Import ZArith List Bool Lia Permutation.
From SG Require Import Model.CombiScheme Proofs.SchemeBasics Proofs.SchemeIE Proofs.SchemeInv Proofs.SchemeStd
  Proofs.SchemeClosedForm.
Import ListNotations.
Open Scope Z_scope.

(* the invariant holds after initialisation, for every dimension d = n+1 >= 1 and every 0 <= lmin <= lmax *)
Theorem C01_init_inv : forall n lmax lmin s, init_scheme (S n) lmax lmin = Some s -> Inv s.
Proof. exact init_inv. Qed.
Print Assumptions C01_init_inv.

(* ... and after any update request on an ARBITRARY level vector (refinable or not, any length) *)
Theorem C01_update_inv : forall s l, Inv s -> Inv (update s l).
Proof. exact update_inv. Qed.
Print Assumptions C01_update_inv.

(* hence in every reachable state *)
Theorem C01_reachable_inv : forall n lmax lmin s ops,
  init_scheme (S n) lmax lmin = Some s -> Inv (fold_left update ops s).
Proof. intros n lmax lmin s ops H. apply reachable_inv_from. exact (init_inv n lmax lmin s H). Qed.
Print Assumptions C01_reachable_inv.

(* what Inv gives: disjointness, no forward neighbour of an active index, downward closure (box form) *)
Theorem C01_disjoint : forall s, Inv s -> forall k, In k (s_active s) -> ~ In k (s_old s).
Proof. exact inv_disj. Qed.
Theorem C01_no_forward_neighbour : forall s, Inv s -> forall k d, In k (s_active s) -> (d < s_dim s)%nat ->
  ~ (In (bump d 1 k) (s_active s) \/ In (bump d 1 k) (s_old s)).
Proof. exact inv_no_forward_neighbour. Qed.
Theorem C01_downward_closed : forall s, Inv s ->
  forall k j, In k (index_set s) -> length j = length k -> Forall2 (fun a b => s_lmin s <= a <= b) j k ->
  In j (index_set s).
Proof. exact scheme_downward_closed. Qed.
Theorem C01_old_downward_closed : forall s, Inv s ->
  forall k j, In k (s_old s) -> length j = length k -> Forall2 (fun a b => s_lmin s <= a <= b) j k ->
  In j (s_old s).
Proof. exact scheme_old_downward_closed. Qed.
Print Assumptions C01_downward_closed.

(* inclusion-exclusion: for EVERY duplicate-free finite index set (no closure needed) *)
Theorem C01_inclusion_exclusion_any_index_set : forall lmin idx l,
  NoDup idx -> (forall g, In g idx -> length g = length l /\ Forall (fun x => lmin <= x) g) ->
  Forall (fun x => lmin <= x) l ->
  dominating_sum (coefficients lmin idx) l = if mem l idx then 1 else 0.
Proof. exact coeffs_inclusion_exclusion_gen. Qed.
Print Assumptions C01_inclusion_exclusion_any_index_set.

(* the scheme-level statements for every state satisfying the invariant *)
Theorem C01_inclusion_exclusion : forall s l, Inv s -> length l = s_dim s -> Forall (fun x => s_lmin s <= x) l ->
  dominating_sum (combi_scheme_adaptive s) l = if mem l (index_set s) then 1 else 0.
Proof. exact scheme_inclusion_exclusion. Qed.
Theorem C01_support : forall s k c, Inv s -> In (k, c) (combi_scheme_adaptive s) -> In k (index_set s) /\ c <> 0.
Proof. exact scheme_support. Qed.
Theorem C01_total_one : forall s, Inv s -> sumZ (map snd (combi_scheme_adaptive s)) = 1.
Proof. exact scheme_total_one. Qed.
Print Assumptions C01_inclusion_exclusion.
Print Assumptions C01_support.
Print Assumptions C01_total_one.

(* closed form = freshly initialised adaptive scheme, GENERAL: for every dimension d = S n >= 1 and every
   0 <= lmin <= lmax (exactly the arguments init_scheme accepts) the closed-form binomial scheme of getCombiScheme is a
   permutation of the inclusion-exclusion coefficients of the freshly initialised adaptive index set
   (Moebius inversion of the dominating sums + Pascal closed form of the alternating cube sums) *)
Theorem C01_std_equals_adaptive_init : forall n lmin lmax s,
  init_scheme (S n) lmax lmin = Some s ->
  Permutation (combi_scheme_standard (S n) lmin lmax) (combi_scheme_adaptive s).
Proof. exact std_equals_adaptive_init. Qed.
Print Assumptions C01_std_equals_adaptive_init.

(* the same with the hypotheses spelled out: init_scheme succeeds for all 0 <= lmin <= lmax *)
Theorem C01_std_equals_adaptive_init_exists : forall n lmin lmax, 0 <= lmin <= lmax ->
  exists s, init_scheme (S n) lmax lmin = Some s /\
            Permutation (combi_scheme_standard (S n) lmin lmax) (combi_scheme_adaptive s).
Proof. exact std_perm_check_general. Qed.
Print Assumptions C01_std_equals_adaptive_init_exists.

(* explicit coefficients of the initial scheme: (-1)^e * C(n, e) with e = lmax - lmin + d*lmin - |k|_1 (sg = sign,
   PB = Pascal binomial extended by 0 to negative arguments) *)
Theorem C01_init_coefficient_formula : forall n lmin lmax s k c,
  init_scheme (S n) lmax lmin = Some s ->
  (In (k, c) (combi_scheme_adaptive s) <->
   length k = S n /\ Forall (fun x => lmin <= x) k /\
   let e := lmax - lmin + Z.of_nat (S n) * lmin - sumZ k in
   c = sg e * PB n e /\ c <> 0).
Proof. exact init_coefficient_formula. Qed.
Print Assumptions C01_init_coefficient_formula.

(* the earlier bounded form of the same statement (kept; subsumed by the general theorem above). BOUNDED: d in 1..5, lmin in 0..3, lmax-lmin in 0..5
   (finite enumeration by vm_compute, lifted with forallb_forall; the bound is part of the statement) *)
Theorem C01_std_equals_adaptive_init_bounded : forall d lmin span,
  In d (seq 1 5) -> In lmin (zrange 4) -> In span (zrange 6) -> std_eq_adaptive d lmin span = true.
Proof. exact std_equals_adaptive_init_bounded_l. Qed.
Print Assumptions C01_std_equals_adaptive_init_bounded.

(* non-vacuity: a concrete reachable, non-trivial state (d=3, lmin=1, lmax=3, three refinements) *)
Example C01_nonvacuous :
  exists s, init_scheme 3 3 1 = Some s /\
    let s' := fold_left update [[1;1;3]; [1;2;2]; [1;1;4]] s in
    Inv s' /\ length (s_active s') = 6%nat /\ dominating_sum (combi_scheme_adaptive s') [1;1;4] = 1.
Proof.
  eexists. split; [reflexivity|]. split; [|split; vm_compute; reflexivity].
  apply reachable_inv_from. apply (init_inv 2 3 1). reflexivity.
Qed.

(* non-vacuity of the general closed-form theorem outside the bounded range: d = 7, lmin = 1, lmax = 3; the grid
   (1,...,1) carries the coefficient (+1) * C(6,2) = 15 in both schemes *)
Example C01_std_general_nonvacuous :
  exists s, init_scheme 7 3 1 = Some s /\
    In ([1;1;1;1;1;1;1], 15) (combi_scheme_adaptive s) /\ In ([1;1;1;1;1;1;1], 15) (combi_scheme_standard 7 1 3).
Proof.
  destruct (std_perm_check_general 6 1 3 ltac:(lia)) as [s [Hs Hp]].
  exists s. split; [exact Hs|].
  assert (In ([1;1;1;1;1;1;1], 15) (combi_scheme_adaptive s)) as H.
  { apply (init_coefficient_formula 6 1 3 s _ _ Hs).
    split; [reflexivity|]. split; [repeat constructor; lia|]. vm_compute. split; [reflexivity|discriminate]. }
  split; [exact H|].
  apply (Permutation_in _ (Permutation_sym Hp)). exact H.
Qed.

(* ======================================================================================================================
   SOURCE-DERIVED MODEL.  Gen/CombiSchemeGen.v is written by harness/translate/py2gallina.py from
   sparseSpACE/combiScheme.py (+ Utils.get_cross_product) at every ./setup.sh and ./check C01 run, in terms of the
   semantics library Base/PyLib.v.  The theorems below are re-checked against what the source says NOW: if the source
   changes its meaning, Gen/CombiSchemeGen.v changes and these obligations break.
   Part 1: every translated function agrees with the hand-written model (conc s = the object holding model state s).
   Part 2: the main C01 theorems restated for the generated definitions.
   Part 3: independence of the order in which Python enumerates a set.
   ====================================================================================================================== *)
From SG Require Import Base.PyLib Gen.CombiSchemeGen Proofs.GenCombiSchemeEq.

(* ---- part 1: generated function = hand-written model, for all inputs (preconditions = where Python raises
        IndexError / RecursionError while the total hand-written model still answers) *)
Theorem C01_gen_eq_get_cross_product : forall ls, Utils_get_cross_product ls = Some (cross ls).
Proof. exact gen_get_cross_product. Qed.
Theorem C01_gen_eq_getGrids : forall d v, 1 <= d -> CombiScheme_getGrids d v = Some (getGrids (Z.to_nat d) v).
Proof. exact gen_getGrids. Qed.
(* recursion fuel: the declared measure S (Z.to_nat dim_left) is sufficient (more fuel changes nothing), and for
   dim_left < 1 the Python recursion never ends (RecursionError): no amount of fuel yields a result *)
Theorem C01_gen_getGrids_fuel_sufficient : forall d v fuel, 1 <= d -> (Z.to_nat d <= fuel)%nat ->
  CombiScheme_getGrids_rec fuel d v = CombiScheme_getGrids d v.
Proof. exact gen_getGrids_fuel_sufficient. Qed.
Theorem C01_gen_getGrids_diverges : forall fuel d v, d <= 0 -> 0 < v -> CombiScheme_getGrids_rec fuel d v = None.
Proof. exact gen_getGrids_diverges. Qed.
Theorem C01_gen_eq_init_active_index_set : forall lmax lmin dim, 1 <= dim ->
  CombiScheme_init_active_index_set lmax lmin dim = Some (init_active_index_set lmax lmin (Z.to_nat dim)).
Proof. exact gen_init_active_index_set. Qed.
Theorem C01_gen_eq_init_old_index_set : forall lmax lmin dim, 1 <= dim ->
  CombiScheme_init_old_index_set lmax lmin dim = Some (init_old_index_set lmax lmin (Z.to_nat dim)).
Proof. exact gen_init_old_index_set. Qed.
Theorem C01_gen_eq_init : forall dim lmax lmin, 1 <= dim ->
  exists o0, CombiScheme___init__ dim = Some o0 /\
    CombiScheme_init_adaptive_combi_scheme o0 lmax lmin =
      match init_scheme (Z.to_nat dim) lmax lmin with Some s => Some (tt, conc s) | None => None end.
Proof. exact gen_init. Qed.
Theorem C01_gen_eq_is_refinable : forall s l, CombiScheme_is_refinable (conc s) l = Some (mem l (s_active s), conc s).
Proof. exact gen_is_refinable. Qed.
Theorem C01_gen_eq_is_old_index : forall s l, CombiScheme_is_old_index (conc s) l = Some (mem l (s_old s), conc s).
Proof. exact gen_is_old_index. Qed.
Theorem C01_gen_eq_in_index_set : forall s l,
  CombiScheme_in_index_set (conc s) l = Some (mem l (s_active s) || mem l (s_old s), conc s).
Proof. exact gen_in_index_set. Qed.
Theorem C01_gen_eq_refine_scheme : forall s d l, (d < s_dim s)%nat -> length l = s_dim s ->
  CombiScheme___refine_scheme (conc s) (Z.of_nat d) l =
    Some (fst (refine_scheme d l s), conc (snd (refine_scheme d l s))).
Proof. exact gen_refine_scheme. Qed.
Theorem C01_gen_eq_update_adaptive_combi : forall s l, (mem l (s_active s) = true -> length l = s_dim s) ->
  CombiScheme_update_adaptive_combi (conc s) l =
    Some (ret_dims (fst (update_scheme s l)), conc (snd (update_scheme s l))).
Proof. exact gen_update_adaptive_combi. Qed.
Theorem C01_gen_eq_get_index_set : forall s,
  CombiScheme_get_index_set (conc s) = Some (set_union (s_old s) (s_active s), conc s).
Proof. exact gen_get_index_set. Qed.
Theorem C01_gen_eq_get_coefficients_to_index_set : forall s idx, (forall g, In g idx -> length g = s_dim s) ->
  CombiScheme_get_coefficients_to_index_set (conc s) idx = Some (map grid_of (coefficients (s_lmin s) idx), conc s).
Proof. exact gen_get_coefficients_to_index_set. Qed.
Theorem C01_gen_eq_getCombiScheme_adaptive : forall s lmin lmax do_print, WFlen s ->
  CombiScheme_getCombiScheme (conc s) lmin lmax do_print = Some (map grid_of (combi_scheme_adaptive s), conc s).
Proof. exact gen_getCombiScheme_adaptive. Qed.
Theorem C01_gen_eq_getCombiScheme_standard : forall n lmin lmax do_print,
  exists o0, CombiScheme___init__ (Z.of_nat (S n)) = Some o0 /\
    CombiScheme_getCombiScheme o0 lmin lmax do_print = Some (map grid_of (combi_scheme_standard (S n) lmin lmax), o0).
Proof. exact gen_getCombiScheme_standard. Qed.
(* functions without a hand-written counterpart: specification in the model's vocabulary *)
Theorem C01_gen_spec_has_forward_neighbour : forall s l, length l = s_dim s ->
  CombiScheme_has_forward_neighbour (conc s) l =
    Some (existsb (fun d => mem (bump d 1 l) (s_active s) || mem (bump d 1 l) (s_old s)) (seq 0 (s_dim s)), conc s).
Proof. exact gen_has_forward_neighbour. Qed.
Theorem C01_gen_spec_extendable_level : forall s l, (s_dim s <= length l)%nat ->
  CombiScheme_extendable_level (conc s) l = Some (extendable_level_spec (s_dim s) l, conc s).
Proof. exact gen_extendable_level. Qed.
Print Assumptions C01_gen_eq_update_adaptive_combi.
Print Assumptions C01_gen_eq_getCombiScheme_adaptive.
Print Assumptions C01_gen_eq_getCombiScheme_standard.
Print Assumptions C01_gen_eq_init.

(* ---- part 2: the main C01 theorems for the GENERATED definitions.
   gen_fresh dim lmax lmin = CombiScheme(dim) followed by init_adaptive_combi_scheme(lmax, lmin);
   gen_updates o ops = the update_adaptive_combi requests ops one after the other; None = an exception was raised *)

(* every history of arbitrary update requests: no exception, the generated state is the hand-written model's state,
   and the invariant holds *)
Theorem C01_gen_reachable_inv : forall n lmax lmin o1 ops, gen_fresh (Z.of_nat (S n)) lmax lmin = Some o1 ->
  exists s, gen_updates o1 ops = Some (conc s) /\ Inv s.
Proof. exact gen_reachable_inv. Qed.
Theorem C01_gen_tracks_model : forall n lmax lmin o1 ops, gen_fresh (Z.of_nat (S n)) lmax lmin = Some o1 ->
  exists s0, init_scheme (S n) lmax lmin = Some s0 /\ o1 = conc s0 /\
    gen_updates o1 ops = Some (conc (fold_left update ops s0)) /\ Inv (fold_left update ops s0).
Proof. exact gen_reachable. Qed.
Theorem C01_gen_fresh_defined : forall n lmax lmin, 0 <= lmin <= lmax ->
  exists o1, gen_fresh (Z.of_nat (S n)) lmax lmin = Some o1.
Proof. exact gen_fresh_defined. Qed.
(* inclusion-exclusion, support, total one for what the generated getCombiScheme returns; membership decided by
   the generated in_index_set *)
Theorem C01_gen_inclusion_exclusion : forall s lmin' lmax' do_print, Inv s ->
  exists zs, CombiScheme_getCombiScheme (conc s) lmin' lmax' do_print = Some (map grid_of zs, conc s) /\
    (forall l b, length l = s_dim s -> Forall (fun x => s_lmin s <= x) l ->
       CombiScheme_in_index_set (conc s) l = Some (b, conc s) ->
       dominating_sum zs l = if b then 1 else 0) /\
    (forall k c, In (k, c) zs -> CombiScheme_in_index_set (conc s) k = Some (true, conc s) /\ c <> 0) /\
    sumZ (map snd zs) = 1.
Proof. exact gen_inclusion_exclusion. Qed.
(* no active index has a forward neighbour, as answered by the generated has_forward_neighbour *)
Theorem C01_gen_no_forward_neighbour : forall s k, Inv s -> In k (s_active s) ->
  CombiScheme_has_forward_neighbour (conc s) k = Some (false, conc s).
Proof. exact gen_has_forward_neighbour_active. Qed.
(* closed form = adaptive scheme right after initialisation, both from the generated getCombiScheme *)
Theorem C01_gen_std_equals_adaptive_init : forall n lmin lmax o1 p1 p2 a b,
  gen_fresh (Z.of_nat (S n)) lmax lmin = Some o1 ->
  exists o0 cs_std cs_ad,
    CombiScheme___init__ (Z.of_nat (S n)) = Some o0 /\
    CombiScheme_getCombiScheme o0 lmin lmax p1 = Some (cs_std, o0) /\
    CombiScheme_getCombiScheme o1 a b p2 = Some (cs_ad, o1) /\
    Permutation cs_std cs_ad.
Proof. exact gen_std_equals_adaptive_init. Qed.
Print Assumptions C01_gen_reachable_inv.
Print Assumptions C01_gen_tracks_model.
Print Assumptions C01_gen_inclusion_exclusion.
Print Assumptions C01_gen_std_equals_adaptive_init.

(* ---- part 3: the enumeration order of Python sets is unspecified; the generated model uses the list order.
   (a) the only place where the source enumerates a set (get_coefficients_to_index_set): the C01 statements hold for the
       coefficients computed from ANY enumeration of the index set;  (b) get_index_set builds old | active where
       getCombiScheme builds active | old: the same set;  (c) the invariant and the whole update state machine are
       independent of the order in which the two sets are stored *)
Theorem C01_gen_ie_any_enumeration : forall s idx' l, Inv s -> Permutation idx' (index_set s) ->
  length l = s_dim s -> Forall (fun x => s_lmin s <= x) l ->
  dominating_sum (coefficients (s_lmin s) idx') l = if mem l (index_set s) then 1 else 0.
Proof. exact ie_any_enumeration. Qed.
Theorem C01_gen_total_one_any_enumeration : forall s idx', Inv s -> Permutation idx' (index_set s) ->
  sumZ (map snd (coefficients (s_lmin s) idx')) = 1.
Proof. exact total_one_any_enumeration. Qed.
Theorem C01_gen_get_index_set_same_set : forall s, Inv s ->
  exists idx, CombiScheme_get_index_set (conc s) = Some (idx, conc s) /\ Permutation idx (index_set s).
Proof. exact gen_get_index_set_perm. Qed.
Theorem C01_gen_inv_order_insensitive : forall s a' o', Inv s -> Permutation (s_active s) a' -> Permutation (s_old s) o' ->
  Inv (mkScheme (s_dim s) (s_lmin s) (s_lmax s) (s_lmax_adaptive s) a' o').
Proof. exact Inv_perm. Qed.
Theorem C01_gen_update_order_insensitive : forall s t l, scheme_equiv s t ->
  fst (update_scheme s l) = fst (update_scheme t l) /\ scheme_equiv (snd (update_scheme s l)) (snd (update_scheme t l)).
Proof. exact update_scheme_perm. Qed.
Print Assumptions C01_gen_ie_any_enumeration.
Print Assumptions C01_gen_update_order_insensitive.

(* ======================================================================================================================
   HISTORIES ON ONE OBJECT (Model/CombiSchemeObj.v: re-initialisation, init_full_grid, update requests, scheme requests,
   queries; R_exc = the call raises).  The correspondence drives exactly this machine (Entry sub 2).
   ====================================================================================================================== *)
From SG Require Import Model.CombiSchemeObj Proofs.SchemeObj.

(* a (re-)initialisation makes all later results and states those of a NEW object: nothing of the earlier history
   (sets, levels, anything remembered from earlier scheme requests) can influence them *)
Theorem C01_reinit_is_fresh : forall o lmax lmin ops, init_scheme (o_dim o) lmax lmin <> None ->
  run o (OpInit lmax lmin :: ops) = run (fresh_obj (o_dim o)) (OpInit lmax lmin :: ops).
Proof. exact reinit_is_fresh. Qed.
Theorem C01_reinit_full_is_fresh : forall o lmax lmin ops, init_full_scheme (o_dim o) lmax lmin <> None ->
  run o (OpFull lmax lmin :: ops) = run (fresh_obj (o_dim o)) (OpFull lmax lmin :: ops).
Proof. exact reinit_full_is_fresh. Qed.
Theorem C01_failed_init_keeps_state : forall o lmax lmin, init_scheme (o_dim o) lmax lmin = None ->
  step o (OpInit lmax lmin) = (R_exc, o).
Proof. exact failed_init_keeps_state. Qed.
(* every history of requests without init_full_grid on one object of dimension >= 1 keeps the invariant ... *)
Theorem C01_obj_history_inv : forall n ops o, o_dim o = S n -> good o ->
  forallb (fun p => negb (is_full p)) ops = true -> good (final o ops) /\ o_dim (final o ops) = S n.
Proof. exact obj_history_inv. Qed.
(* ... and a scheme request after it answers the inclusion-exclusion scheme of the CURRENT index set (closed form on a
   never initialised object) *)
Theorem C01_obj_get_valid : forall n ops a b, forallb (fun p => negb (is_full p)) ops = true ->
  let o := final (fresh_obj (S n)) ops in
  match o_st o with
  | Some s =>
      fst (step o (OpGet a b)) = R_coeffs (combi_scheme_adaptive s) /\ Inv s /\
      (forall l, length l = s_dim s -> Forall (fun x => s_lmin s <= x) l ->
         dominating_sum (combi_scheme_adaptive s) l = if mem l (index_set s) then 1 else 0) /\
      (forall k c, In (k, c) (combi_scheme_adaptive s) -> In k (index_set s) /\ c <> 0) /\
      sumZ (map snd (combi_scheme_adaptive s)) = 1
  | None => fst (step o (OpGet a b)) = R_coeffs (combi_scheme_standard (S n) a b)
  end.
Proof. exact obj_get_valid. Qed.
(* the same for the GENERATED code: init_adaptive_combi_scheme / init_full_grid on ANY object state depend on the dimension
   and the arguments only (an attribute that they do not reset would make these equalities fail) *)
Theorem C01_gen_reinit_is_fresh : forall o lmax lmin, 1 <= f_dim o ->
  CombiScheme_init_adaptive_combi_scheme o lmax lmin =
    match init_scheme (Z.to_nat (f_dim o)) lmax lmin with Some s => Some (tt, conc s) | None => None end.
Proof. exact gen_reinit_is_fresh. Qed.
Theorem C01_gen_reinit_independent : forall o o' lmax lmin, 1 <= f_dim o -> f_dim o = f_dim o' ->
  CombiScheme_init_adaptive_combi_scheme o lmax lmin = CombiScheme_init_adaptive_combi_scheme o' lmax lmin.
Proof. exact gen_reinit_independent. Qed.
Theorem C01_gen_eq_init_full_grid : forall o lmax lmin, 1 <= f_dim o ->
  CombiScheme_init_full_grid o lmax lmin =
    match init_full_scheme (Z.to_nat (f_dim o)) lmax lmin with Some s => Some (tt, conc s) | None => None end.
Proof. exact gen_init_full_grid. Qed.
Print Assumptions C01_reinit_is_fresh.
Print Assumptions C01_obj_history_inv.
Print Assumptions C01_obj_get_valid.
Print Assumptions C01_gen_reinit_is_fresh.
Print Assumptions C01_gen_eq_init_full_grid.

(* non-vacuity: one object, initialised, refined, re-initialised with an index set of the SAME size but other content *)
Example C01_reinit_nonvacuous :
  let ops := [OpInit 3 1; OpGet 1 2; OpInit 2 0; OpGet 1 2] in
  match map fst (run (fresh_obj 2) ops) with
  | [R_unit; R_coeffs c1; R_unit; R_coeffs c2] =>
      length c1 = 5%nat /\ length c2 = 5%nat /\ In ([1;3], 1) c1 /\ In ([0;2], 1) c2 /\ ~ In ([1;3], 1) c2
  | _ => False
  end.
Proof. vm_compute. repeat split; try tauto. intros H. repeat (destruct H as [H|H]; [discriminate|]). exact H. Qed.

(* non-vacuity on the generated code itself: d=3, lmin=1, lmax=3, three refinements, evaluated by the generated functions *)
Example C01_gen_nonvacuous :
  exists o1 o2 cs, gen_fresh 3 3 1 = Some o1 /\ gen_updates o1 [[1;1;3]; [1;2;2]; [1;1;4]] = Some o2 /\
    length (f_active_index_set o2) = 6%nat /\
    CombiScheme_getCombiScheme o2 1 2 true = Some (cs, o2) /\ length cs = 11%nat /\
    In ([1;1;5], py_Z2Qc 1) cs /\ In ([1;1;2], py_Z2Qc (-1)) cs /\
    option_map fst (CombiScheme_update_adaptive_combi o2 [1;1;5]) = Some (Some [2]) /\
    option_map fst (CombiScheme_update_adaptive_combi o2 [1;1;4]) = Some None.
Proof.
  eexists. eexists. eexists.
  split; [vm_compute; reflexivity|]. split; [vm_compute; reflexivity|]. split; [vm_compute; reflexivity|].
  split; [vm_compute; reflexivity|]. split; [vm_compute; reflexivity|].
  split; [vm_compute; tauto|]. split; [vm_compute; tauto|].
  split; vm_compute; reflexivity.
Qed.
