(* C01 — Adaptive combination scheme is always a valid inclusion-exclusion scheme.
   Property theorems only; each is closed by `exact` of a lemma from Proofs/. *)
From Coq Require Import ZArith List Bool Lia Permutation.
From SG Require Import Model.CombiScheme Proofs.SchemeBasics Proofs.SchemeIE Proofs.SchemeInv Proofs.SchemeStd
  Proofs.SchemeClosedForm.
Import ListNotations.
Open Scope Z_scope.

(* the invariant holds after initialisation, for every dimension d = n+1 >= 1 and every 0 <= lmin <= lmax *)
Theorem C01_init_inv : forall n lmax lmin s, init_scheme (S n) lmax lmin = Some s -> Inv s.
Proof. exact init_inv. Qed.
Print Assumptions C01_init_inv.

(* ... and after any update request on an ARBITRARY level vector (refinable or not, any length) *)
Theorem C01_update_inv : forall s l, Inv s -> Inv (update s l).
Proof. exact update_inv. Qed.
Print Assumptions C01_update_inv.

(* hence in every reachable state *)
Theorem C01_reachable_inv : forall n lmax lmin s ops,
  init_scheme (S n) lmax lmin = Some s -> Inv (fold_left update ops s).
Proof. intros n lmax lmin s ops H. apply reachable_inv_from. exact (init_inv n lmax lmin s H). Qed.
Print Assumptions C01_reachable_inv.

(* what Inv gives: disjointness, no forward neighbour of an active index, downward closure (box form) *)
Theorem C01_disjoint : forall s, Inv s -> forall k, In k (s_active s) -> ~ In k (s_old s).
Proof. exact inv_disj. Qed.
Theorem C01_no_forward_neighbour : forall s, Inv s -> forall k d, In k (s_active s) -> (d < s_dim s)%nat ->
  ~ (In (bump d 1 k) (s_active s) \/ In (bump d 1 k) (s_old s)).
Proof. exact inv_no_forward_neighbour. Qed.
Theorem C01_downward_closed : forall s, Inv s ->
  forall k j, In k (index_set s) -> length j = length k -> Forall2 (fun a b => s_lmin s <= a <= b) j k ->
  In j (index_set s).
Proof. exact scheme_downward_closed. Qed.
Theorem C01_old_downward_closed : forall s, Inv s ->
  forall k j, In k (s_old s) -> length j = length k -> Forall2 (fun a b => s_lmin s <= a <= b) j k ->
  In j (s_old s).
Proof. exact scheme_old_downward_closed. Qed.
Print Assumptions C01_downward_closed.

(* inclusion-exclusion: for EVERY duplicate-free finite index set (no closure needed) *)
Theorem C01_inclusion_exclusion_any_index_set : forall lmin idx l,
  NoDup idx -> (forall g, In g idx -> length g = length l /\ Forall (fun x => lmin <= x) g) ->
  Forall (fun x => lmin <= x) l ->
  dominating_sum (coefficients lmin idx) l = if mem l idx then 1 else 0.
Proof. exact coeffs_inclusion_exclusion_gen. Qed.
Print Assumptions C01_inclusion_exclusion_any_index_set.

(* the scheme-level statements for every state satisfying the invariant *)
Theorem C01_inclusion_exclusion : forall s l, Inv s -> length l = s_dim s -> Forall (fun x => s_lmin s <= x) l ->
  dominating_sum (combi_scheme_adaptive s) l = if mem l (index_set s) then 1 else 0.
Proof. exact scheme_inclusion_exclusion. Qed.
Theorem C01_support : forall s k c, Inv s -> In (k, c) (combi_scheme_adaptive s) -> In k (index_set s) /\ c <> 0.
Proof. exact scheme_support. Qed.
Theorem C01_total_one : forall s, Inv s -> sumZ (map snd (combi_scheme_adaptive s)) = 1.
Proof. exact scheme_total_one. Qed.
Print Assumptions C01_inclusion_exclusion.
Print Assumptions C01_support.
Print Assumptions C01_total_one.

(* closed form = freshly initialised adaptive scheme, GENERAL: for every dimension d = S n >= 1 and every
   0 <= lmin <= lmax (exactly the arguments init_scheme accepts) the closed-form binomial scheme of getCombiScheme is a
   permutation of the inclusion-exclusion coefficients of the freshly initialised adaptive index set
   (Moebius inversion of the dominating sums + Pascal closed form of the alternating cube sums) *)
Theorem C01_std_equals_adaptive_init : forall n lmin lmax s,
  init_scheme (S n) lmax lmin = Some s ->
  Permutation (combi_scheme_standard (S n) lmin lmax) (combi_scheme_adaptive s).
Proof. exact std_equals_adaptive_init. Qed.
Print Assumptions C01_std_equals_adaptive_init.

(* the same with the hypotheses spelled out: init_scheme succeeds for all 0 <= lmin <= lmax *)
Theorem C01_std_equals_adaptive_init_exists : forall n lmin lmax, 0 <= lmin <= lmax ->
  exists s, init_scheme (S n) lmax lmin = Some s /\
            Permutation (combi_scheme_standard (S n) lmin lmax) (combi_scheme_adaptive s).
Proof. exact std_perm_check_general. Qed.
Print Assumptions C01_std_equals_adaptive_init_exists.

(* explicit coefficients of the initial scheme: (-1)^e * C(n, e) with e = lmax - lmin + d*lmin - |k|_1 (sg = sign,
   PB = Pascal binomial extended by 0 to negative arguments) *)
Theorem C01_init_coefficient_formula : forall n lmin lmax s k c,
  init_scheme (S n) lmax lmin = Some s ->
  (In (k, c) (combi_scheme_adaptive s) <->
   length k = S n /\ Forall (fun x => lmin <= x) k /\
   let e := lmax - lmin + Z.of_nat (S n) * lmin - sumZ k in
   c = sg e * PB n e /\ c <> 0).
Proof. exact init_coefficient_formula. Qed.
Print Assumptions C01_init_coefficient_formula.

(* the earlier bounded form of the same statement (kept; subsumed by the general theorem above). BOUNDED: d in 1..5, lmin in 0..3, lmax-lmin in 0..5
   (finite enumeration by vm_compute, lifted with forallb_forall; the bound is part of the statement) *)
Theorem C01_std_equals_adaptive_init_bounded : forall d lmin span,
  In d (seq 1 5) -> In lmin (zrange 4) -> In span (zrange 6) -> std_eq_adaptive d lmin span = true.
Proof. exact std_equals_adaptive_init_bounded_l. Qed.
Print Assumptions C01_std_equals_adaptive_init_bounded.

(* non-vacuity: a concrete reachable, non-trivial state (d=3, lmin=1, lmax=3, three refinements) *)
Example C01_nonvacuous :
  exists s, init_scheme 3 3 1 = Some s /\
    let s' := fold_left update [[1;1;3]; [1;2;2]; [1;1;4]] s in
    Inv s' /\ length (s_active s') = 6%nat /\ dominating_sum (combi_scheme_adaptive s') [1;1;4] = 1.
Proof.
  eexists. split; [reflexivity|]. split; [|split; vm_compute; reflexivity].
  apply reachable_inv_from. apply (init_inv 2 3 1). reflexivity.
Qed.

(* non-vacuity of the general closed-form theorem outside the bounded range: d = 7, lmin = 1, lmax = 3; the grid
   (1,...,1) carries the coefficient (+1) * C(6,2) = 15 in both schemes *)
Example C01_std_general_nonvacuous :
  exists s, init_scheme 7 3 1 = Some s /\
    In ([1;1;1;1;1;1;1], 15) (combi_scheme_adaptive s) /\ In ([1;1;1;1;1;1;1], 15) (combi_scheme_standard 7 1 3).
Proof.
  destruct (std_perm_check_general 6 1 3 ltac:(lia)) as [s [Hs Hp]].
  exists s. split; [exact Hs|].
  assert (In ([1;1;1;1;1;1;1], 15) (combi_scheme_adaptive s)) as H.
  { apply (init_coefficient_formula 6 1 3 s _ _ Hs).
    split; [reflexivity|]. split; [repeat constructor; lia|]. vm_compute. split; [reflexivity|discriminate]. }
  split; [exact H|].
  apply (Permutation_in _ (Permutation_sym Hp)). exact H.
Qed.
