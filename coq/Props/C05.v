(* C05 — The reported result is the combination of the component results.
   Property theorems only; each is closed by `exact` of a lemma from Proofs/AccumProofs.v.
   Model: Model/Accum.v (operation.integral / refinement.value / area.value bookkeeping of Integration,
   RefinementContainer and SpatiallyAdaptivBase as raw events; the driver's steps composed of them). *)
From Coq Require Import ZArith List Bool QArith Qcanon Lia.
From SG Require Import Base.QcUtil Model.Accum Proofs.AccumProofs.
Import ListNotations.
Open Scope Z_scope.

Section C05.
  (* an arbitrary commutative group of result values (scalars, vectors, ...) *)
  Variable V : Type.
  Variable vzero : V.
  Variable vadd : V -> V -> V.
  Variable vopp : V -> V.
  Hypothesis vadd_assoc : forall a b c, vadd a (vadd b c) = vadd (vadd a b) c.
  Hypothesis vadd_comm : forall a b, vadd a b = vadd b a.
  Hypothesis vadd_0_l : forall a, vadd vzero a = a.
  Hypothesis vadd_opp_r : forall a, vadd a (vopp a) = vzero.

  (* running total = sum over the current areas of their stored results (and the container agrees), new areas carry
     no value: holds initially ... *)
  Theorem C05_inv_init : forall l, NoDup l -> Inv2 V vzero vadd (a_init V vzero l).
  Proof. exact (inv_init V vzero vadd vadd_0_l). Qed.

  (* ... and after EVERY sequence of driver steps (evaluate the new areas / refine = remove the refined areas and add
     their children, in any order and number) of the REPAIRED driver (new-object marker cleared after evaluation) *)
  Theorem C05_running_total_inv : forall steps s,
    Inv2 V vzero vadd s -> wf_from V vzero vadd vopp true s steps -> Inv2 V vzero vadd (run_steps V vzero vadd vopp true steps s).
  Proof. exact (running_total_inv V vzero vadd vopp vadd_assoc vadd_comm vadd_0_l vadd_opp_r). Qed.

  (* the driver AS IT IS keeps the invariant along every run of its loop  evaluate (refine evaluate)*  - for every
     refinement history (which areas are refined, which parts are computed) *)
  Theorem C05_running_total_inv_alternating : forall rounds parts0 s,
    Inv2 V vzero vadd s -> rounds_ok V vzero vadd vopp rounds (evaluate_new V vzero vadd vopp true parts0 s) ->
    Inv V vzero vadd (run_rounds V vzero vadd vopp false rounds (evaluate_new V vzero vadd vopp false parts0 s)).
  Proof. exact (running_total_inv_alternating V vzero vadd vopp vadd_assoc vadd_comm vadd_0_l vadd_opp_r). Qed.

  (* dimension-wise strategy: whatever happened before, an evaluation reports the sum over the component grids *)
  Theorem C05_evaluate_dw_total : forall xs s,
    st_total (evaluate_dw V vzero vadd vopp xs s) = vsum V vzero vadd xs /\ st_cont (evaluate_dw V vzero vadd vopp xs s) = vsum V vzero vadd xs.
  Proof. exact (evaluate_dw_total V vzero vadd vopp vadd_assoc vadd_comm vadd_0_l). Qed.

  (* a re-evaluation that starts from a zero accumulator returns the sum over all current areas and components,
     that sum IS the running total when the invariant holds, and asking again changes nothing *)
  Theorem C05_reevaluate_total : forall parts s,
    st_total (reevaluate V vzero vadd vopp parts s) = vsum V vzero vadd (flat_map parts (ids V s)) /\
    st_cont (reevaluate V vzero vadd vopp parts s) = vsum V vzero vadd (flat_map parts (ids V s)).
  Proof. exact (reevaluate_total V vzero vadd vopp vadd_assoc vadd_comm vadd_0_l). Qed.
  Theorem C05_reevaluate_equals_running_total : forall parts s,
    Inv V vzero vadd s -> Consistent V vzero vadd parts s -> st_total (reevaluate V vzero vadd vopp parts s) = st_total s.
  Proof. exact (reevaluate_equals_running_total V vzero vadd vopp vadd_assoc vadd_comm vadd_0_l). Qed.
  Theorem C05_reevaluate_idempotent : forall parts s,
    st_total (reevaluate V vzero vadd vopp parts (reevaluate V vzero vadd vopp parts s)) = st_total (reevaluate V vzero vadd vopp parts s) /\
    st_cont (reevaluate V vzero vadd vopp parts (reevaluate V vzero vadd vopp parts s)) = st_cont (reevaluate V vzero vadd vopp parts s).
  Proof. exact (reevaluate_idempotent V vzero vadd vopp vadd_assoc vadd_comm vadd_0_l). Qed.

  (* REFUTED for the code as it is: evaluate_final_combi / reevaluate_at_end=True run compute_solutions over all areas
     without resetting anything, so the reported value becomes total + total (extend-split areas; dimension-wise) *)
  Theorem C05_final_combi_unchanged_refuted : forall parts s,
    Inv V vzero vadd s -> Consistent V vzero vadd parts s ->
    st_total (final_combi_asis V vzero vadd vopp parts s) = vadd (st_total s) (st_total s).
  Proof. exact (final_combi_asis_doubles V vzero vadd vopp vadd_assoc vadd_comm vadd_0_l). Qed.
  Theorem C05_final_combi_dw_unchanged_refuted : forall xs s,
    st_total (final_combi_dw_asis V vzero vadd vopp xs (evaluate_dw V vzero vadd vopp xs s)) = vadd (vsum V vzero vadd xs) (vsum V vzero vadd xs).
  Proof. exact (final_combi_dw_asis_doubles V vzero vadd vopp vadd_assoc vadd_comm vadd_0_l). Qed.

  (* ---- side evaluations (apply_to_combi_result = False; twin errors of split_single_dim, temporary parent areas) ----
     the accumulator invariant of a driver that performs side evaluations is Inv2 modulo the (meaningless) values of the
     not yet evaluated new areas; a side evaluation on a new area or on an area outside the container preserves it *)
  Theorem C05_side_preserves_invariant : forall s id x,
    side_ok V s id -> InvS V vzero vadd s -> InvS V vzero vadd (apply_event V vzero vadd vopp s (ASide id x)).
  Proof. exact (side_preserves_invariant V vzero vadd vopp). Qed.

  (* REFINEMENT: whatever side / error-estimate evaluations are interleaved with the steps of the (repaired) driver - each on a
     new or temporary area, refine() only after an evaluation - the state is, modulo those values, the state of the driver
     WITHOUT them, and that one satisfies the invariant: for every history *)
  Theorem C05_side_evaluations_invisible : forall steps s t,
    Inv2 V vzero vadd t -> zero_new V vzero s = t -> wfx_from V vzero vadd vopp s steps ->
    zero_new V vzero (run_steps V vzero vadd vopp true steps s) = run_steps V vzero vadd vopp true (strip_sides V steps) t /\
    Inv2 V vzero vadd (run_steps V vzero vadd vopp true (strip_sides V steps) t).
  Proof. exact (side_evaluations_invisible V vzero vadd vopp vadd_assoc vadd_comm vadd_0_l vadd_opp_r). Qed.

  Theorem C05_running_total_inv_with_sides : forall steps s,
    Inv2 V vzero vadd s -> wfx_from V vzero vadd vopp s steps -> InvS V vzero vadd (run_steps V vzero vadd vopp true steps s).
  Proof. exact (running_total_inv_with_sides V vzero vadd vopp vadd_assoc vadd_comm vadd_0_l vadd_opp_r). Qed.

  (* what the caller sees: reported value and container value are those of the driver without side evaluations, and the
     reported value is the sum of the stored per-area results *)
  Theorem C05_side_evaluations_same_result : forall steps s,
    Inv2 V vzero vadd s -> wfx_from V vzero vadd vopp s steps ->
    st_total (run_steps V vzero vadd vopp true steps s) = st_total (run_steps V vzero vadd vopp true (strip_sides V steps) s) /\
    st_cont (run_steps V vzero vadd vopp true steps s) = st_cont (run_steps V vzero vadd vopp true (strip_sides V steps) s) /\
    st_total (run_steps V vzero vadd vopp true steps s) =
      vsum V vzero vadd (map snd (st_areas (run_steps V vzero vadd vopp true (strip_sides V steps) s))).
  Proof. exact (side_evaluations_same_result V vzero vadd vopp vadd_assoc vadd_comm vadd_0_l vadd_opp_r). Qed.

  (* ... whereas the same evaluation made WITH apply_to_combi_result adds its partial result to the reported value *)
  Theorem C05_side_with_flag_pollutes : forall s id x bc,
    st_total (apply_event V vzero vadd vopp s (AEval id x true bc)) = vadd (st_total s) x.
  Proof. exact (side_with_flag_pollutes V vzero vadd vopp). Qed.

  (* recalculate_frequently: REFUTED for the code as it is (every area is evaluated again on top of the kept running total),
     proved for the repaired variant that also resets the running total *)
  Theorem C05_recalculate_unchanged_refuted : forall parts s,
    Inv V vzero vadd s -> Consistent V vzero vadd parts s ->
    st_total (evaluate_new V vzero vadd vopp true parts (recalc_asis V vzero vadd vopp s)) = vadd (st_total s) (st_total s) /\
    st_cont (evaluate_new V vzero vadd vopp true parts (recalc_asis V vzero vadd vopp s)) = st_total s.
  Proof. exact (recalc_asis_doubles V vzero vadd vopp vadd_assoc vadd_comm vadd_0_l). Qed.
  Theorem C05_recalculate_repaired_unchanged : forall parts s,
    Inv V vzero vadd s -> Consistent V vzero vadd parts s ->
    st_total (evaluate_new V vzero vadd vopp true parts (recalc_fixed V vzero vadd vopp s)) = st_total s /\
    st_cont (evaluate_new V vzero vadd vopp true parts (recalc_fixed V vzero vadd vopp s)) = st_total s.
  Proof. exact (recalc_fixed_total V vzero vadd vopp vadd_assoc vadd_comm vadd_0_l). Qed.

  (* ---- public evaluate_final_combi() on the LIVE object between two legs of a run ----
     on a state that satisfies the invariant and whose stored area results are the sums of the parts the re-evaluation computes,
     the re-evaluation from scratch is the IDENTITY on the machine state (result, container value, every area value, new-object
     marker) ... *)
  Theorem C05_final_combi_is_identity : forall parts s,
    Inv V vzero vadd s -> Consistent V vzero vadd parts s -> reevaluate V vzero vadd vopp parts s = s.
  Proof. exact (final_combi_is_identity V vzero vadd vopp vadd_assoc vadd_comm vadd_0_l vadd_opp_r). Qed.
  (* ... so continuing the run after it reports the same values at every later stop, for every continuation *)
  Theorem C05_final_combi_then_continue_unchanged : forall parts steps s,
    Inv V vzero vadd s -> Consistent V vzero vadd parts s ->
    run_steps V vzero vadd vopp true steps (reevaluate V vzero vadd vopp parts s) = run_steps V vzero vadd vopp true steps s.
  Proof. exact (final_combi_then_continue_unchanged V vzero vadd vopp vadd_assoc vadd_comm vadd_0_l vadd_opp_r). Qed.
  (* REFUTED for a re-evaluation that leaves every object marked new (reinit_new_objects instead of refinement.value = 0): its own
     value is right, the NEXT evaluation of the driver reports total + total *)
  Theorem C05_final_combi_marking_new_refuted : forall parts s,
    Inv V vzero vadd s -> Consistent V vzero vadd parts s ->
    st_total (final_combi_marks_new V vzero vadd vopp parts s) = st_total s /\
    st_total (evaluate_new V vzero vadd vopp true parts (final_combi_marks_new V vzero vadd vopp parts s)) = vadd (st_total s) (st_total s).
  Proof. exact (final_combi_marking_new_doubles V vzero vadd vopp vadd_assoc vadd_comm vadd_0_l vadd_opp_r). Qed.
End C05.
Print Assumptions C05_running_total_inv.
Print Assumptions C05_running_total_inv_alternating.
Print Assumptions C05_evaluate_dw_total.
Print Assumptions C05_reevaluate_equals_running_total.
Print Assumptions C05_reevaluate_idempotent.
Print Assumptions C05_final_combi_unchanged_refuted.
Print Assumptions C05_side_preserves_invariant.
Print Assumptions C05_side_evaluations_invisible.
Print Assumptions C05_running_total_inv_with_sides.
Print Assumptions C05_side_evaluations_same_result.
Print Assumptions C05_recalculate_unchanged_refuted.
Print Assumptions C05_recalculate_repaired_unchanged.
Print Assumptions C05_final_combi_is_identity.
Print Assumptions C05_final_combi_then_continue_unchanged.
Print Assumptions C05_final_combi_marking_new_refuted.

(* the executable invariant check evaluated on every replayed snapshot is sound *)
Theorem C05_inv_checkb_sound : forall s : astate Qc, inv_checkb s = true -> Inv Qc 0%Qc Qcplus s.
Proof. exact inv_checkb_sound. Qed.
Print Assumptions C05_inv_checkb_sound.

(* get_points_and_weights: the published combined rule applied to the integrand IS the coefficient-weighted sum of the
   component quadratures (any point type, any integrand, any scheme) *)
Theorem C05_combined_rule_linear : forall (P : Type) (f : P -> Qc) (scheme : list (Qc * rule P)),
  apply_rule f (combined_rule scheme) = combine_components f scheme.
Proof. exact @combined_rule_linear. Qed.
Print Assumptions C05_combined_rule_linear.

(* non-vacuity over the group (Z, +): three initial areas, evaluation, area 2 refined into 4 and 5, evaluation *)
Definition zparts1 (id : Z) : list Z := match id with 1 => [3; -1] | 2 => [4] | 3 => [2; 2; -1] | _ => [] end.
Definition zparts2 (id : Z) : list Z := match id with 4 => [7; -2] | 5 => [1] | _ => [] end.
Example C05_nonvacuous :
  let steps := [DEvaluate zparts1; DRefine [2] [4; 5]; DEvaluate zparts2] in
  Inv2 Z 0 Z.add (a_init Z 0 [1; 2; 3]) /\ wf_from Z 0 Z.add Z.opp true (a_init Z 0 [1; 2; 3]) steps /\
  st_total (run_steps Z 0 Z.add Z.opp true steps (a_init Z 0 [1; 2; 3])) = 11 /\
  st_areas (run_steps Z 0 Z.add Z.opp true steps (a_init Z 0 [1; 2; 3])) = [(1, 2); (3, 3); (4, 5); (5, 1)].
Proof.
  split; [apply (inv_init Z 0 Z.add Z.add_0_l); repeat constructor; cbn; intuition lia|].
  split; [|split; reflexivity].
  cbn. repeat split; try (repeat constructor; cbn; intuition lia); cbn; intuition lia.
Qed.
(* the as-is evaluate_final_combi on that state reports 22 instead of 11 *)
Example C05_final_combi_doubles_witness :
  let s := run_steps Z 0 Z.add Z.opp true [DEvaluate zparts1] (a_init Z 0 [1; 2; 3]) in
  st_total s = 9 /\ st_total (final_combi_asis Z 0 Z.add Z.opp zparts1 s) = 18 /\ st_total (reevaluate Z 0 Z.add Z.opp zparts1 s) = 9.
Proof. repeat split. Qed.
Example C05_combined_rule_example :
  let q n := Q2Qc (n # 4) in
  apply_rule (fun x : Qc => x) (combined_rule [(Q2Qc 1, [(q 4, q 2); (q 8, q 2)]); (Q2Qc (-1 # 1), [(q 4, q 4)])]) = q 2.
Proof. apply Qc_is_canon. vm_compute. reflexivity. Qed.

(* non-vacuity of the side-evaluation theorems over (Z, +): area 2 is refined into 4 and 5; the twin-error evaluations hit the
   new areas 4, 5 and a temporary parent area 9 that is not in the container; then the driver evaluates *)
Example C05_sides_nonvacuous :
  let steps := [DEvaluate zparts1; DRefine [2] [4; 5]; DSide 4 7; DSide 4 (-2); DSide 5 1; DSide 9 6; DEstimate 4; DEvaluate zparts2] in
  let s0 := a_init Z 0 [1; 2; 3] in
  wfx_from Z 0 Z.add Z.opp s0 steps /\
  run_steps Z 0 Z.add Z.opp true steps s0 = run_steps Z 0 Z.add Z.opp true (strip_sides Z steps) s0 /\
  st_total (run_steps Z 0 Z.add Z.opp true steps s0) = 11 /\
  (* between refine and evaluate the new areas do carry side values, the reported value does not see them *)
  st_areas (run_steps Z 0 Z.add Z.opp true (firstn 7 steps) s0) = [(1, 2); (3, 3); (4, 5); (5, 1)] /\
  st_total (run_steps Z 0 Z.add Z.opp true (firstn 7 steps) s0) = 5.
Proof.
  split; [|split; [|split; [|split]]]; try (vm_compute; reflexivity).
  cbn. unfold side_ok. cbn. repeat split; try (repeat constructor; cbn; intuition lia); cbn; intuition lia.
Qed.
(* the seeded defect: the same side evaluations made with apply_to_combi_result report 11 + 7 - 2 + 1 + 6 = 23 *)
Example C05_side_flag_witness :
  let s := run_steps Z 0 Z.add Z.opp true [DEvaluate zparts1; DRefine [2] [4; 5]] (a_init Z 0 [1; 2; 3]) in
  let polluted := fold_left (apply_event Z 0 Z.add Z.opp) [AEval 4 7 true false; AEval 4 (-2) true false; AEval 5 1 true false; AEval 9 6 true false] s in
  st_total (evaluate_new Z 0 Z.add Z.opp true zparts2 polluted) = 23 /\ st_total (evaluate_new Z 0 Z.add Z.opp true zparts2 s) = 11.
Proof. repeat split. Qed.
Example C05_recalculate_witness :
  let s := run_steps Z 0 Z.add Z.opp true [DEvaluate zparts1] (a_init Z 0 [1; 2; 3]) in
  st_total s = 9 /\ st_total (evaluate_new Z 0 Z.add Z.opp true zparts1 (recalc_asis Z 0 Z.add Z.opp s)) = 18 /\
  st_total (evaluate_new Z 0 Z.add Z.opp true zparts1 (recalc_fixed Z 0 Z.add Z.opp s)) = 9.
Proof. repeat split. Qed.

(* evaluate_final_combi() on the live object after the first evaluation, then the run goes on: same states; with the marker left
   behind the next stop reports 9 + (7 - 2 + 1) + ... wrongly *)
Example C05_final_combi_live_witness :
  let s := run_steps Z 0 Z.add Z.opp true [DEvaluate zparts1] (a_init Z 0 [1; 2; 3]) in
  let rest := [DRefine [2] [4; 5]; DEvaluate zparts2] in
  Consistent Z 0 Z.add zparts1 s /\
  reevaluate Z 0 Z.add Z.opp zparts1 s = s /\
  st_total (run_steps Z 0 Z.add Z.opp true (DFinalCombi zparts1 :: rest) s) = 11 /\
  st_total (evaluate_new Z 0 Z.add Z.opp true zparts1 (final_combi_marks_new Z 0 Z.add Z.opp zparts1 s)) = 18.
Proof.
  split; [|repeat split].
  intros id v H. cbn in H. destruct H as [H|[H|[H|[]]]]; injection H as <- <-; reflexivity.
Qed.

(* get_points_and_weights along a history: the component rules are a function of (scheme, refinement), one list per stop; at EVERY
   stop of every history the published combined rule applied to the integrand equals the value the driver reports there *)
Theorem C05_rule_reproduces_reported_every_stop : forall (P : Type) (f : P -> Qc) (stops : list (list (Qc * rule P))) (s : astate Qc),
  Forall (fun p => fst p = snd p) (dw_history f stops s).
Proof. exact @rule_reproduces_reported_every_stop. Qed.
Print Assumptions C05_rule_reproduces_reported_every_stop.
(* REFUTED for a rule that is remembered per scheme (coefficients) and not per refinement: two stops with the same coefficients, the
   second refined further - the remembered rule gives 1/2 where 3/8 is reported *)
Theorem C05_rule_memoised_per_scheme_refuted :
  let q n := Q2Qc (n # 8) in
  let f (x : Qc) := (x * x)%Qc in
  let stop1 := [(Q2Qc 1, [(q 0, q 4); (q 8, q 4)])] in
  let stop2 := [(Q2Qc 1, [(q 0, q 2); (q 4, q 4); (q 8, q 2)])] in
  exists p, In p (dw_history_memo f None [stop1; stop2] (mkA [] [] 0%Qc 0%Qc)) /\ fst p <> snd p.
Proof.
  cbv zeta. eexists. split; [right; left; reflexivity|]. cbn [fst snd]. intro H. apply (f_equal (fun x => Qcanon.this x)) in H. vm_compute in H. discriminate.
Qed.
Print Assumptions C05_rule_memoised_per_scheme_refuted.

(* ---- the published rule on the dimension-wise MODEL of C03/C04 (Model/DimWise.v, DimWiseExact.v; Model/AccumDW.v) ----
   the component rules are no longer a parameter: they are the tensor products of the 1D trapezoidal weights over the stripes of the
   CURRENT refinement (dw_stripe_coords), end points stripped when boundary=False, times the combination coefficient.  For EVERY
   state of the dimension-wise model and every product integrand the published combined rule applied to the integrand is
   dw_combi_integral (what Integration.calculate_operation_dimension_wise accumulates) ... *)
From SG Require Import Model.CombiScheme Model.RefTree Model.DimWise Model.DimWiseInterp Model.DimWiseExact Model.AccumDW Proofs.AccumDWProofs.

Theorem C05_dw_published_rule_is_combi_integral : forall o mb st a b gs sch,
  dw_wf st a b gs -> dw_published o mb st a b = Some sch ->
  dw_combi_integral o mb st a b gs = Some (apply_rule (f_prod gs) (combined_rule sch)).
Proof. exact dw_rule_is_combi_integral. Qed.
(* ... it is the value the driver's accumulator holds after the evaluation of that state, whatever happened before ... *)
Theorem C05_dw_published_rule_is_reported : forall o mb st a b gs sch (s : astate Qc),
  dw_wf st a b gs -> dw_published o mb st a b = Some sch ->
  Some (st_total (evaluate_dw Qc 0%Qc Qcplus Qcopp (Accum.contributions (f_prod gs) sch) s)) = dw_combi_integral o mb st a b gs /\
  st_total (evaluate_dw Qc 0%Qc Qcplus Qcopp (Accum.contributions (f_prod gs) sch) s) = apply_rule (f_prod gs) (combined_rule sch).
Proof. exact dw_rule_is_reported. Qed.
(* ... in particular in every state reached by a run of the dimension-wise model (any refinement history) *)
Theorem C05_dw_published_rule_along_run : forall o mb a b gs steps st0,
  Forall (fun st => dw_wf st a b gs -> forall sch, dw_published o mb st a b = Some sch ->
                    dw_combi_integral o mb st a b gs = Some (apply_rule (f_prod gs) (combined_rule sch)))
         (dw_states o steps st0).
Proof. exact dw_rule_is_reported_along_run. Qed.
(* one component grid: tensor rule over its stripes applied to the product integrand = its component integral *)
Theorem C05_dw_component_rule_is_component_integral : forall o mb st a b (l : lv) gs r,
  length a = length gs -> length b = length gs -> length l = length gs ->
  dw_comp_rule o mb st a b l = Some r -> dw_comp_integral o mb st a b l gs = Some (apply_rule (f_prod gs) r).
Proof. exact dw_comp_rule_integral. Qed.
Print Assumptions C05_dw_published_rule_is_combi_integral.
Print Assumptions C05_dw_published_rule_is_reported.
Print Assumptions C05_dw_published_rule_along_run.
Print Assumptions C05_dw_component_rule_is_component_integral.

(* non-vacuity: the initial state of dimension 2, lmin 1, lmax 2 on [0,1]^2 has a published rule (3 component grids, 21 weighted
   points) and for f(x,y) = x^2 * y it gives 11/64 = dw_combi_integral *)
Definition c05_o : dw_opts := mkOpts 6 true true (Q2Qc (9 # 10)) (fun _ _ _ => false) (fun _ _ => false).
Definition c05_gs : list (Qc -> Qc) := [fun x => (x * x)%Qc; fun y => y].
Example C05_dw_published_rule_example :
  match dw_init 2 1 2 [0%Qc; 0%Qc] [1%Qc; 1%Qc] with
  | Some st =>
    match dw_published c05_o false st [0%Qc; 0%Qc] [1%Qc; 1%Qc] with
    | Some sch => (length sch = 3%nat /\ length (combined_rule sch) = 39%nat /\
                   Qc_eqb (apply_rule (f_prod c05_gs) (combined_rule sch)) (Q2Qc (11 # 64)) = true /\
                   match dw_combi_integral c05_o false st [0%Qc; 0%Qc] [1%Qc; 1%Qc] c05_gs with
                   | Some v => Qc_eqb v (Q2Qc (11 # 64)) = true | None => False end /\
                   dw_wf st [0%Qc; 0%Qc] [1%Qc; 1%Qc] c05_gs)
    | None => False
    end
  | None => False
  end.
Proof.
  vm_compute. repeat split; repeat constructor.
Qed.

(* ---- extend-split: the independent recomputation of the check as a function of the C07 model state (Model/AccumES.v) ----
   es_recompute F st = sum over the live areas of st of the coefficient-weighted sum of F (= the operation on one component grid on
   one box) over the area's local combination under the CURRENT scheme.  The accumulator machine is coupled to concrete per-area
   values val (REFINEMENT of Accum's abstract parts): every history of evaluate / refine / scheme-extension steps keeps every
   evaluated area's stored result equal to val under the current scheme ... *)
From SG Require Import Model.ExtendSplit Model.AccumES Proofs.AccumESProofs.

Section C05es.
  Variable V : Type.
  Variable vzero : V.
  Variable vadd : V -> V -> V.
  Variable vopp : V -> V.
  Hypothesis vadd_assoc : forall a b c, vadd a (vadd b c) = vadd (vadd a b) c.
  Hypothesis vadd_comm : forall a b, vadd a b = vadd b a.
  Hypothesis vadd_0_l : forall a, vadd vzero a = a.
  Hypothesis vadd_opp_r : forall a, vadd a (vopp a) = vzero.

  Theorem C05_coupled_run : forall steps vs,
    Coupled V vzero vadd (fst vs) (snd vs) -> crun_ok V vzero vadd vopp vs steps ->
    Coupled V vzero vadd (fst (fold_left (capply V vzero vadd vopp) steps vs)) (snd (fold_left (capply V vzero vadd vopp) steps vs)).
  Proof. exact (coupled_run V vzero vadd vopp vadd_assoc vadd_comm vadd_0_l vadd_opp_r). Qed.
  (* ... so at every stop the reported value (and the container value) is the recomputation: the sum over the current areas of
     their values under the current scheme *)
  Theorem C05_coupled_total : forall val s, Coupled V vzero vadd val s -> st_new s = [] ->
    st_total s = vsum V vzero vadd (map (fun p => val (fst p)) (st_areas s)) /\ st_cont s = st_total s.
  Proof. exact (coupled_total V vzero vadd). Qed.
End C05es.
(* on the extend-split model: accumulator = es_recompute *)
Theorem C05_es_accumulator_is_recomputation : forall (F : box -> lv -> Qc) (st : state) (area_of : Z -> area) (s : astate Qc),
  Coupled Qc 0%Qc Qcplus (fun id => es_area_value F (st_cp st) (area_of id)) s -> st_new s = [] ->
  es_live st = map area_of (map fst (st_areas s)) ->
  st_total s = es_recompute F st /\ st_cont s = es_recompute F st.
Proof. exact es_accumulator_is_recomputation. Qed.
(* coarsening version 0 discharges the scheme-extension step (CRescheme) for ALL dimensions >= 2, levels, coarsening values and
   operations F: lmax + 1 together with coarsening + 1 (update_area) leaves the value of an area unchanged.  Versions 1-3 have no
   such theorem - their stored area results go stale, as observed on the unchanged tree. *)
Theorem C05_es_v0_area_value_invariant : forall (F : box -> lv -> Qc) n lmin lmax base (x : area),
  (0 <= a_coarse x <= lmax - lmin)%Z ->
  es_area_value F (mkCP (S (S n)) 0 lmin (lmax + 1) base) (update_area x) = es_area_value F (mkCP (S (S n)) 0 lmin lmax base) x.
Proof. exact es_v0_area_value_invariant. Qed.
Print Assumptions C05_coupled_run.
Print Assumptions C05_coupled_total.
Print Assumptions C05_es_accumulator_is_recomputation.
Print Assumptions C05_es_v0_area_value_invariant.

(* non-vacuity: the run of C05_nonvacuous coupled to concrete values, with a scheme extension that keeps the values of the current
   areas; and a concrete area of the extend-split model (d = 2, lmin 1, lmax 3, coarsening 1) whose value is not trivial *)
Definition zval (id : Z) : Z := match id with 1 => 2 | 2 => 4 | 3 => 3 | 4 => 5 | 5 => 1 | _ => 0 end.
Definition zval' (id : Z) : Z := match id with 2 => 77 | _ => zval id end.     (* area 2 no longer exists: its value may change *)
Open Scope Z_scope.
Example C05_coupled_nonvacuous :
  let steps := [CEvaluate zparts1; CRefine [2] [4; 5]; CEvaluate zparts2; CRescheme zval'] in
  let vs0 := (zval, a_init Z 0 [1; 2; 3]) in
  Coupled Z 0 Z.add zval (a_init Z 0 [1; 2; 3]) /\ crun_ok Z 0 Z.add Z.opp vs0 steps /\
  st_total (snd (fold_left (capply Z 0 Z.add Z.opp) steps vs0)) = 11 /\
  map (fun p => zval' (fst p)) (st_areas (snd (fold_left (capply Z 0 Z.add Z.opp) steps vs0))) = [2; 3; 5; 1].
Proof.
  split; [|split; [|split; vm_compute; reflexivity]].
  - split; [apply (inv_init Z 0 Z.add Z.add_0_l); repeat constructor; cbn; intuition lia|].
    split; [repeat constructor; cbn; intuition lia|]. intros id v Hin Hn. exfalso. apply Hn. cbn in Hin |- *.
    destruct Hin as [E|[E|[E|[]]]]; injection E as <- _; auto.
  - cbn. unfold refine_ok, ids. cbn.
    repeat split; try (repeat constructor; cbn; intuition lia); try (intros id Hid; cbn in Hid; intuition (subst; reflexivity || lia)).
Qed.
(* a concrete area of the extend-split model: d = 2, lmin 1, lmax 3, coarsening 1; with F = 1 the value is the coefficient sum 1 of its
   local combination (3 computed grids), and after an extend of another area (lmax 4, coarsening 2) it is literally the same *)
Example C05_es_area_value_example :
  let x := mkArea [0%Qc; 0%Qc] [1%Qc; 1%Qc] 1 0 1 0%Qc [] [] false in
  length (es_area_parts (fun _ _ => 1%Qc) (mkCP 2 0 1 3 1) x) = 3%nat /\
  Qc_eqb (es_area_value (fun _ _ => 1%Qc) (mkCP 2 0 1 3 1) x) 1%Qc = true /\
  Qc_eqb (es_area_value (fun _ l => qc_of_Z (sumZ l)) (mkCP 2 0 1 4 1) (update_area x))
         (es_area_value (fun _ l => qc_of_Z (sumZ l)) (mkCP 2 0 1 3 1) x) = true.
Proof. vm_compute. repeat split. Qed.

(* the same invariance in ONE dimension (the case the C07 theorem local_combi_v0_perm, d >= 2, leaves out): the standard scheme is the
   single grid [lmax], the local combination of an area is the single grid [lmax - c]; needs lmin >= 0 (then the model's second-largest
   level test, which the repaired code skips in one dimension, is never taken) *)
Theorem C05_es_v0_area_value_invariant_dim1 : forall (F : box -> lv -> Qc) lmin lmax base (x : area),
  (0 <= lmin)%Z -> (0 <= a_coarse x <= lmax - lmin)%Z ->
  es_area_value F (mkCP 1 0 lmin (lmax + 1) base) (update_area x) = es_area_value F (mkCP 1 0 lmin lmax base) x.
Proof. exact es_v0_area_value_invariant_dim1. Qed.
Print Assumptions C05_es_v0_area_value_invariant_dim1.
Example C05_es_dim1_example :
  local_combi (mkCP 1 0 1 4 1) 2 = [([1%Z], 1%Z)] /\ local_combi (mkCP 1 0 1 5 1) 3 = [([1%Z], 1%Z)].
Proof. split; reflexivity. Qed.

(* ---- the C07 step function itself (ExtendSplit.do_refinement and the selection loop of refine_round): every object keeps its position,
   its box and its level lmax - coarsening - an extend that raises lmax applies update_area to ALL objects - and therefore
   (version 0, d >= 2) its VALUE under the current scheme, whatever is refined, split or extended around it *)
Theorem C05_es_do_refinement_keeps_levels : forall st i decs, KeepsLevels st (fst (do_refinement st i decs)).
Proof. exact do_refinement_keeps_levels. Qed.
Theorem C05_es_refine_loop_keeps_levels : forall decs tol idx st,
  KeepsLevels st (fst (fold_left (fun (acc : state * list (box * (bool * list nat))) i =>
                 let '(s, lg) := acc in
                 match nth_error (st_objs s) i with
                 | Some x => if Qc_leb tol (a_benefit x) then let '(s', l') := do_refinement s i decs in (s', lg ++ l') else (s, lg)
                 | None => (s, lg)
                 end) idx (st, []))).
Proof. exact refine_loop_keeps_levels. Qed.
Theorem C05_es_refine_loop_keeps_values : forall (F : box -> lv -> Qc) n st st',
  KeepsLevels st st' -> st_dim st = S (S n) -> st_version st = 0%Z ->
  forall j y, nth_error (st_objs st) j = Some y -> in_bounds st y ->
  exists y', nth_error (st_objs st') j = Some y' /\ es_area_value F (st_cp st') y' = es_area_value F (st_cp st) y.
Proof. exact refine_loop_keeps_values. Qed.
Print Assumptions C05_es_do_refinement_keeps_levels.
Print Assumptions C05_es_refine_loop_keeps_levels.
Print Assumptions C05_es_refine_loop_keeps_values.
(* non-vacuity: initial state (d = 2, lmin 1, lmax 2, extend at once), object 0 is extended: lmax becomes 3, object 1 gets coarsening 1
   and keeps its value *)
Example C05_es_do_refinement_example :
  let st0 := init_state 2 0 0 1 2 1 false false [0%Qc; 0%Qc] [1%Qc; 1%Qc] in
  let st1 := fst (do_refinement st0 0 []) in
  let F := fun (_ : box) (l : lv) => qc_of_Z (sumZ l + 1) in
  st_lmax st1 = 3%Z /\ map a_coarse (st_objs st1) = [1; 1; 1; 1; 0]%Z /\
  match nth_error (st_objs st0) 1, nth_error (st_objs st1) 1 with
  | Some y, Some y' => Qc_eqb (es_area_value F (st_cp st1) y') (es_area_value F (st_cp st0) y) = true /\ in_bounds st0 y
  | _, _ => False
  end.
Proof. vm_compute. repeat split; intro H; discriminate H. Qed.

(* ---- the rest of the C07 step: apply_remove (end of refine_round: dead objects filtered out, re-indexing) and ExtendSplit.evaluate
   (register / with_benefit on the new objects) do not change the recomputation; so the recomputation after a whole driver step is the
   recomputation of the state after the selection loop, which keeps the levels (hence, version 0, the values) of all objects *)
Theorem C05_es_recompute_apply_remove : forall (F : box -> lv -> Qc) (st1 : state) (k : nat),
  es_recompute F (mkState (st_dim st1) (st_version st1) (st_lmin st1) (st_lmax st1) (st_auto st1) (st_single st1) (st_a st1) (st_b st1)
                          (filter (fun x => negb (a_dead x)) (st_objs st1)) k (st_tree st1) (st_bmax st1) (st_base st1))
  = es_recompute F st1.
Proof. exact es_recompute_apply_remove. Qed.
Theorem C05_es_recompute_evaluate : forall (F : box -> lv -> Qc) (st : state) bens,
  es_recompute F (fst (evaluate st bens)) = es_recompute F st.
Proof. exact es_recompute_evaluate. Qed.
Theorem C05_es_recompute_step : forall (F : box -> lv -> Qc) (st : state) inp,
  exists st1, KeepsLevels st st1 /\ es_recompute F (step st inp) = es_recompute F st1.
Proof. exact es_recompute_step. Qed.
Print Assumptions C05_es_recompute_apply_remove.
Print Assumptions C05_es_recompute_evaluate.
Print Assumptions C05_es_recompute_step.
Example C05_es_recompute_step_example :
  let st0 := fst (evaluate (init_state 2 0 0 1 2 1 false false [0%Qc; 0%Qc] [1%Qc; 1%Qc]) [((([0%Qc; 0%Qc]), [Q2Qc (1 # 2); Q2Qc (1 # 2)]), 8%Z)]) in
  let F := fun (_ : box) (l : lv) => qc_of_Z (sumZ l + 1) in
  let st1 := step st0 (mkStep [] []) in
  st_lmax st1 = 3%Z /\ length (st_objs st1) = 4%nat /\ Qc_eqb (es_recompute F st1) 0%Qc = false.
Proof. vm_compute. repeat split. Qed.
