(* C19 - source-derived model of the classification logic of class Classification.
   coq/Gen/ClassifyGen.v is GENERATED from sparseSpACE/DEMachineLearning.py (Classification._classificate, Classification._internal_scaling)
   by harness/translate/py2gallina_c19.py at every build: where the label table comes from and that the result is the table indexed by the
   row-wise arg-max; the branch on is_scaled(), the acceptance test (same_scaling and _same_affine_scaling of self._scaled_data), the three
   scaling calls with their arguments and order, the out-of-range comprehension with its float literals, remove_samples, the returned object
   come from the source; the numpy / DataSet primitives are parameters, instantiated in Proofs/GenClassifyEq.v with Model/DataSet.v and
   Model/DataSetOff.v.  The theorems: the generated methods ARE classificate / classify_learned and internal_scaling_o true of the
   hand-written model, hence everything proved in Props/C19.v about them holds for the source-derived methods. *)
From Coq Require Import ZArith List QArith Qcanon Bool Permutation.
From SG Require Import Model.DataSetOff Proofs.DataSetRevert Proofs.DataSetTrack Proofs.DataSetOffP.
From SG Require Import Base.QcUtil Model.DataSet Model.Classify Model.ClassifyLearn Gen.ClassifyGen Proofs.GenClassifyEq
  Proofs.ClassifyProofs Proofs.ClassifyLearnProofs Proofs.ClassifyPrescaled.
Import ListNotations.
Open Scope Qc_scope.

Theorem C19_gen_classificate_eq : forall (Cls Pts : Type) (dof : Cls -> Pts -> list (list Qc)) (gl : dso -> list Z) cv
  (self : cobj dso arg Cls) pts, cv_labels cv = true ->
  gi_classificate Cls Pts dof gl self pts = classificate cv (gl (f_learning_data _ _ _ self)) (dof (f_classificators _ _ _ self) pts).
Proof. exact gen_classificate_eq. Qed.
Theorem C19_gen_classificate_trained : forall cv (de : ds -> row -> Qc) lo learn (self : cobj dso arg (list (row -> Qc))) pts,
  cv_labels cv = true -> f_classificators _ _ _ self = classificators de lo learn ->
  gi_classificate (list (row -> Qc)) (list row) (fun cls p => densities_at cls p) (fun _ => lo) self pts = classify_learned cv de lo lo learn pts.
Proof. exact gen_classificate_trained. Qed.
Theorem C19_gen_internal_scaling_eq : forall v (Cls : Type) st sd ld (cls : Cls) d, c_scaled_attrs st = base sd ->
  let r := gi_internal_scaling v Cls (mkCobj dso arg Cls sd ld (AArr (c_min st), AArr (c_max st)) (AArr (c_fac st)) cls) d in
  (base (fst r), snd r) = internal_scaling_o true v st sd d.
Proof. exact gen_internal_scaling_eq. Qed.
Print Assumptions C19_gen_classificate_eq.
Print Assumptions C19_gen_classificate_trained.
Print Assumptions C19_gen_internal_scaling_eq.

(* consequences for the SOURCE-DERIVED methods *)
(* the generated _classificate assigns the label whose trained classificator is maximal (C19_class_is_trained_argmax) *)
Theorem C19_gen_class_is_trained_argmax : forall cv (de : ds -> row -> Qc) lo learn (self : cobj dso arg (list (row -> Qc))) pts i,
  cv_labels cv = true -> f_classificators _ _ _ self = classificators de lo learn -> lo <> [] -> (i < length pts)%nat ->
  let x := nth i pts [] in
  let c := nth i (gi_classificate (list (row -> Qc)) (list row) (fun cls p => densities_at cls p) (fun _ => lo) self pts) 0%Z in
  In c lo /\ forall l, In l lo -> de (label_piece learn l) x <= de (label_piece learn c) x.
Proof.
  intros cv de lo learn self pts i H Hc Hne Hi x c. unfold c. rewrite (gen_classificate_trained cv de lo learn self pts H Hc).
  destruct (class_is_trained_argmax cv de lo learn pts i H Hne Hi) as [a [_ [_ [Hin [Hmax _]]]]]. split; assumption.
Qed.
(* the generated _internal_scaling rejects a tracked pre-scaled input or places it by the learning map of its ORIGINAL coordinates
   (C19_prescaled_repaired_rejects_or_places) *)
Theorem C19_gen_prescaled_rejects_or_places : forall v (Cls : Type) n st sd ld (cls : Cls) d Rl R fl cl fv cv,
  InvO n sd Rl fl cl -> InvO n d R fv cv -> c_scaled_attrs st = base sd ->
  let r := gi_internal_scaling v Cls (mkCobj dso arg Cls sd ld (AArr (c_min st), AArr (c_max st)) (AArr (c_fac st)) cls) d in
  snd r = true \/ (fv = fl /\ cv = cl /\ rows (base d) = map_rows (aff fl cl) R /\
    Forall (fun s => out_of_range (fst s) = false) (rows (base (fst r)))).
Proof.
  intros v Cls n st sd ld cls d Rl R fl cl fv cv H1 H2 Hst r.
  pose proof (gen_internal_scaling_eq v Cls st sd ld cls d Hst) as E. cbv zeta in E. fold r in E.
  destruct (prescaled_repaired_rejects_or_places n v st sd d Rl R fl cl fv cv H1 H2 Hst (base (fst r)) (snd r) (eq_sym E)) as [L | [A [B [C [rr [_ [F _]]]]]]].
  - left. exact L.
  - right. repeat split; assumption.
Qed.
Print Assumptions C19_gen_class_is_trained_argmax.
Print Assumptions C19_gen_prescaled_rejects_or_places.

(* non-vacuity: the generated methods computed on the concrete objects of Props/C19.v: the translated input of the offset witness is
   REJECTED by the generated _internal_scaling, the learning data themselves pass; the generated _classificate with the table (8, 1) *)
Example C19_gen_nonvacuous :
  let self := mkCobj dso arg unit exp_learn exp_learn (AArr (c_min exp_st), AArr (c_max exp_st)) (AArr (c_fac exp_st)) tt in
  snd (gi_internal_scaling repaired unit self exp_input) = true /\
  snd (gi_internal_scaling repaired unit self exp_learn) = false /\
  length (rows (base (fst (gi_internal_scaling repaired unit self (fresh_o exp_orig))))) = 2%nat /\
  gi_classificate unit unit (fun _ _ => [[0; 1]; [1; 0]; [1; 1]]) (fun _ => [8%Z; 1%Z]) self tt = [1%Z; 8%Z; 8%Z].
Proof. cbv zeta. repeat split; vm_compute; reflexivity. Qed.
