(* C06 — Refinement structures of the dimension-wise strategy stay well formed under every refinement history.
   Property theorems only; each is closed by `exact` of a lemma from Proofs/.

   Proved for ALL dimensions, start levels, margins, benefit assignments, histories and ALL option settings (rebalancing on
   or off, any safety factor, any outcome of the binary64 rebalancing test): the state invariant DwInv (per dimension:
   Seg = tiling in ascending order + adjacent level agreement + end levels 0 + binary refinement tree;
   coarsening = lmax_d - max(levels) >= 0; container cursors reset; C01 scheme invariant) holds after initialisation and is
   preserved by every refinement step (C06_step_preserves_inv, C06_reachable_inv).  The rebalancing part:
     rebalance dec t = Some t' -> Seg a b 0 0 t -> Seg a b 0 0 t'        (C06_rebalance_preserves_tree)
   for both rotation branches, the recursion into the two halves, and every outcome of the float decisions
   (Proofs/RebalanceSeg.v).  The same for runs that start from an installed valid state (C06_install_inv), which is what
   the harness constructs directly.  The verified checker tree_ok (soundness theorem) is still evaluated on every explored
   implementation state.  No definedness hypothesis remains: the asserts inside rebalance_interval are proved unreachable on
   valid trees, the selection loop and the while loop of raise_lmax are proved to terminate within the model's fuel
   (C06_rebalance_defined, C06_selection_is_margin_filter, C06_raise_lmax_terminates), so for EVERY history the run exists
   and ends in a state satisfying the invariant (C06_every_history_wellformed). *)
From Coq Require Import ZArith List Bool QArith Qcanon.
From SG Require Import Base.QcUtil Model.CombiScheme Model.RefTree Model.DimWise
     Proofs.SchemeInv Proofs.RefTreeInv Proofs.RefSelect Proofs.RefRemoveSort Proofs.DimWiseInv Proofs.RefTreeCheck
     Proofs.Rebalance Proofs.C06Main Proofs.DimWiseTile Proofs.RebalanceSeg Proofs.DimWiseInvRebal Proofs.DimWiseInstallP Proofs.RaiseLoop Proofs.DimWiseTotal Proofs.DimWiseFloatP.
From SG Require Import Model.DimWiseInstall Model.DimWiseFloat Model.DimWiseWire.
From Coq Require Import Floats.
Import ListNotations.
Open Scope Z_scope.

(* initialize_refinement establishes the invariant: every dimension d = n+1 >= 1, every lmin <= lmax, lmax > 1, boxes a < b *)
Theorem C06_init_inv : forall n lmin lmax a b st,
  Forall2 (fun x y => (x < y)%Qc) a b -> dw_init (S n) lmin lmax a b = Some st -> DwInv a b st.
Proof. exact dw_init_inv. Qed.
Print Assumptions C06_init_inv.

(* one refinement step (refine() + refinement_postprocessing) without rebalancing preserves it: arbitrary benefits
   (zeros, ties, single choices, anything), arbitrary margin, versions irrelevant *)
Theorem C06_step_preserves_inv_norebalance : forall a b o bens st st',
  o_rebal o = false -> DwInv a b st -> dw_step o bens st = Some st' -> DwInv a b st'.
Proof. exact dw_step_preserves_inv. Qed.
Print Assumptions C06_step_preserves_inv_norebalance.

(* hence after every history *)
Theorem C06_reachable_inv_norebalance : forall n lmin lmax a b o steps st0 st,
  Forall2 (fun x y => (x < y)%Qc) a b -> o_rebal o = false ->
  dw_init (S n) lmin lmax a b = Some st0 -> dw_run o steps st0 = Some st -> DwInv a b st.
Proof. exact dw_reachable_inv. Qed.
Print Assumptions C06_reachable_inv_norebalance.

(* the invariant implies well-formedness in the words of the property (WF: tiling chain in ascending order, adjacent
   level agreement, end levels 0, nearest-lower-level condition, coarsening = lmax_d - max(levels) >= 0, lmax_d >= levels)
   and reset container cursors *)
Theorem C06_inv_wellformed : forall a b st, DwInv a b st ->
  forall d c, nth_error (m_conts (st_meta st)) d = Some c ->
    WF (nth d a 0%Qc) (nth d b 0%Qc) (nth d (st_lmax st) 0) (c_objs c) /\
    c_pop c = [] /\ c_startNew c = 0%nat /\ c_search c = 0%nat.
Proof. exact DwInv_WF. Qed.
Print Assumptions C06_inv_wellformed.

(* the selection loop terminates (fuel suffices) and splits exactly the positions whose benefit reaches
   margin * largest benefit, each once, in place (deferred removal + append + sort-by-start = in-place replacement) *)
Theorem C06_selection_is_margin_filter : forall a b o bens st, DwInv a b st ->
  exists m', meta_refine_step (o_margin o) bens (st_meta st) = Some m' /\ m_cur m' = 0%nat /\
    length (m_conts m') = length (m_conts (st_meta st)) /\
    forall d c, nth_error (m_conts (st_meta st)) d = Some c ->
      exists sel, length sel = length (c_objs c) /\
        (forall i, (i < length (c_objs c))%nat ->
           (nth i sel false = true <-> (meta_max_benefit bens * o_margin o <= nth i (nth d bens []) 0)%Qc)) /\
        nth_error (m_conts m') d = Some (cont_of_tree (repl sel (c_objs c))).
Proof. exact step_splits_margin_filter. Qed.
Print Assumptions C06_selection_is_margin_filter.

Theorem C06_max_benefit_is_maximum : forall bens,
  (0 <= meta_max_benefit bens)%Qc /\
  (forall ben b, In ben bens -> In b ben -> (b <= meta_max_benefit bens)%Qc) /\
  (meta_max_benefit bens = 0%Qc \/ exists ben, In ben bens /\ In (meta_max_benefit bens) ben).
Proof. exact meta_max_benefit_spec. Qed.

(* the loop itself, for any cursor state satisfying the loop invariant (used above with fresh cursors) *)
Theorem C06_refine_loop_terminates_and_selects : forall bens tol fuel m,
  (forall c, In c (m_conts m) -> cJ c) -> (msum (skipn (m_cur m) (m_conts m)) < fuel)%nat ->
  exists m2, refine_loop fuel bens tol m = Some m2 /\ finished bens tol (m_cur m) (m_conts m) (m_conts m2).
Proof. exact refine_loop_spec. Qed.

Theorem C06_postprocess_is_inplace_replacement : forall x y u w t P sn se, Seg x y u w t ->
  c_objs (cont_apply_remove (mkCont (t ++ kids t (filter P (seq 0 (length t)))) (filter P (seq 0 (length t))) sn se))
  = repl (sel_of P (length t)) t
  /\ c_pop (cont_apply_remove (mkCont (t ++ kids t (filter P (seq 0 (length t)))) (filter P (seq 0 (length t))) sn se)) = [].
Proof. exact apply_remove_is_repl. Qed.
Print Assumptions C06_postprocess_is_inplace_replacement.

(* splitting any subset of intervals in place preserves the tree structure *)
Theorem C06_split_preserves_structure : forall x y u w T, Seg x y u w T ->
  forall sel, length sel = length T -> Seg x y u w (repl sel T).
Proof. exact Seg_repl. Qed.

(* verified checker: evaluated by the harness (extracted) on EVERY explored implementation state, incl. rebalancing *)
Theorem C06_tree_ok_sound : forall a b lmax_d t, tree_ok a b lmax_d t = true -> WF a b lmax_d t.
Proof. exact tree_ok_sound. Qed.
Print Assumptions C06_tree_ok_sound.

(* rebalancing (both rotation branches, any outcome of the binary64 decisions) changes levels only *)
Theorem C06_rebalance_changes_levels_only : forall dec objs objs',
  rebalance dec objs = Some objs' -> map geom objs' = map geom objs.
Proof. exact rebalance_geom. Qed.
Print Assumptions C06_rebalance_changes_levels_only.

(* the level-free part of the invariant survives every step for EVERY option setting (rebalancing on or off, any safety
   factor, any outcome of the float decisions): intervals tile [a_d,b_d] in ascending order without gaps or overlaps
   (GeoChain), no container is empty, coarsening = lmax_d - max(levels) >= 0 (so lmax_d >= deepest level), cursors reset *)
Theorem C06_step_preserves_tiling_any_options : forall a b o bens st st',
  DwTile a b st -> dw_step o bens st = Some st' -> DwTile a b st'.
Proof. exact dw_step_preserves_tiling. Qed.
Print Assumptions C06_step_preserves_tiling_any_options.

Theorem C06_reachable_tiling_any_options : forall n lmin lmax a b o steps st0 st,
  Forall2 (fun x y => (x < y)%Qc) a b ->
  dw_init (S n) lmin lmax a b = Some st0 -> dw_run o steps st0 = Some st -> DwTile a b st.
Proof. exact dw_reachable_tiling. Qed.
Print Assumptions C06_reachable_tiling_any_options.

(* ---------------------------------------------------------------------------------------------------------- *)
(* rebalancing preserves the tree structure: any subtree handled by rebalance_interval(start, end, level) - the objects
   start..end-1 form a subtree between points of levels u and w whose root has level `level` = max(u,w)+1 - is again such a
   subtree afterwards, everything outside [start,end) is untouched; both rotation branches, every outcome of the float test *)
Theorem C06_rebalance_interval_preserves_subtree : forall dec fuel s e level objs objs' pre seg post x y u w,
  rebalance_interval fuel dec s e level objs = Some objs' ->
  objs = pre ++ seg ++ post -> length pre = s -> (s + length seg)%nat = e ->
  Seg x y u w seg -> level = Z.max u w + 1 ->
  exists seg', objs' = pre ++ seg' ++ post /\ Seg x y u w seg' /\ length seg' = length seg.
Proof. exact rebalance_interval_Seg. Qed.
Print Assumptions C06_rebalance_interval_preserves_subtree.

Theorem C06_rebalance_preserves_tree : forall dec a b t t',
  rebalance dec t = Some t' -> Seg a b 0 0 t -> Seg a b 0 0 t'.
Proof. exact rebalance_Seg. Qed.
Print Assumptions C06_rebalance_preserves_tree.

(* rebalancing is DEFINED on every valid tree: none of the asserts of rebalance_interval can fail (position_level found, at most
   one level+1 point on either side of it, position_level < position_level_1_right, position_new_leaf found at the expected
   position), and the model's fuel suffices *)
Theorem C06_rebalance_defined : forall dec a b t,
  Seg a b 0 0 t -> exists t', rebalance dec t = Some t' /\ Seg a b 0 0 t'.
Proof. exact rebalance_defined. Qed.
Print Assumptions C06_rebalance_defined.

(* one refinement step with ANY options (rebalancing on or off, any safety factor / float outcome) preserves the invariant *)
Theorem C06_step_preserves_inv : forall a b o bens st st',
  DwInv a b st -> dw_step o bens st = Some st' -> DwInv a b st'.
Proof. exact dw_step_preserves_inv_any. Qed.
Print Assumptions C06_step_preserves_inv.

(* hence after EVERY history with every option setting *)
Theorem C06_reachable_inv : forall n lmin lmax a b o steps st0 st,
  Forall2 (fun x y => (x < y)%Qc) a b ->
  dw_init (S n) lmin lmax a b = Some st0 -> dw_run o steps st0 = Some st -> DwInv a b st.
Proof. exact dw_reachable_inv_any. Qed.
Print Assumptions C06_reachable_inv.

(* installing arbitrary valid trees (refinement_postprocessing with or without the rebalancing pass, Model/DimWiseInstall.v)
   gives a state satisfying the invariant, and so does every history from there: the states the harness constructs
   directly are covered by the same theorems *)
Theorem C06_install_inv : forall a b o rb trees st st',
  length (st_lmax st) = st_dim st -> Inv (st_scheme st) ->
  (forall d t, nth_error trees d = Some t -> Seg (nth d a 0%Qc) (nth d b 0%Qc) 0 0 t) ->
  dw_install o rb trees st = Some st' -> DwInv a b st'.
Proof. exact dw_install_inv. Qed.

Theorem C06_installed_reachable_inv : forall n lmin lmax a b o rb trees steps st0 st1 st,
  Forall2 (fun x y => (x < y)%Qc) a b ->
  dw_init (S n) lmin lmax a b = Some st0 ->
  (forall d t, nth_error trees d = Some t -> Seg (nth d a 0%Qc) (nth d b 0%Qc) 0 0 t) ->
  dw_install o rb trees st0 = Some st1 -> dw_run o steps st1 = Some st -> DwInv a b st.
Proof. exact dw_installed_reachable_inv. Qed.
Print Assumptions C06_installed_reachable_inv.

(* the step function is the container part followed by refinement_postprocessing (the function the installation uses) *)
Theorem C06_step_is_select_then_postprocess : forall o bens st,
  dw_step o bens st = match meta_refine_step (o_margin o) bens (st_meta st) with
                      | Some m1 => dw_post o st m1
                      | None => None
                      end.
Proof. exact dw_step_is_post. Qed.

(* ---------------------------------------------------------------------------------------------------------- *)
(* the run is DEFINED for every history: the while loop of raise_lmax terminates within the model's fuel (the smallest level
   sum of a qualifying active index grows with every pass), the asserts of rebalance_interval cannot fail, the selection loop
   terminates - so "dw_run = Some" is not a hypothesis but a theorem *)
Theorem C06_raise_lmax_terminates : forall d v lmaxs lmin dim s,
  Inv s -> s_dim s = dim -> s_lmin s = lmin -> 0 <= lmin -> 0 <= v -> Forall (fun x => 0 <= x) lmaxs ->
  exists lmaxs' s', raise_lmax d v lmaxs lmin dim s = Some (lmaxs', s') /\ lmaxs' = bump d v lmaxs /\
                    Forall (fun x => 0 <= x) lmaxs'.
Proof. exact raise_lmax_defined. Qed.
Print Assumptions C06_raise_lmax_terminates.

Theorem C06_step_defined : forall a b o bens st,
  DwInvT a b st -> exists st', dw_step o bens st = Some st' /\ DwInvT a b st'.
Proof. exact dw_step_total. Qed.

(* for every dimension >= 1, every start configuration accepted by initialize_refinement, every option setting (margin,
   rebalancing, safety factor / float outcomes) and every sequence of benefit assignments: the run exists and its final
   state satisfies the invariant (hence is well formed in the words of the property, C06_inv_wellformed) *)
Theorem C06_every_history_wellformed : forall n lmin lmax a b o steps st0,
  Forall2 (fun x y => (x < y)%Qc) a b -> dw_init (S n) lmin lmax a b = Some st0 ->
  exists st, dw_run o steps st0 = Some st /\ DwInv a b st.
Proof. exact dw_reachable_total. Qed.
Print Assumptions C06_every_history_wellformed.

(* ---------------------------------------------------------------------------------------------------------- *)
(* non-vacuity *)
Definition ex_opts (rebal : bool) : dw_opts :=
  mkOpts 6 rebal true (Q2Qc (9 # 10)) (rebalance_dec_exact (Q2Qc (1 # 10))) (v3_dec_exact 2).
Definition q (n : Z) (d : positive) : Qc := Q2Qc (n # d).

(* d = 2, lmin 1, lmax 2, box [0,1] x [-1,1]; two refinement steps: a single interval, then a tie between dimensions *)
Definition ex_a := [q 0 1; q (-1) 1].
Definition ex_b := [q 1 1; q 1 1].
Definition ex_steps := [ [[q 0 1; q 1 1; q 0 1; q 0 1]; [q 0 1; q 0 1; q 0 1; q 0 1]];
                         [[q 1 2; q 0 1; q 1 4; q 0 1; q 0 1]; [q 0 1; q 0 1; q 1 2; q 1 2]] ].
Definition ex_run (rebal : bool) a b steps : option dw_state :=
  match dw_init 2 1 2 a b with Some st0 => dw_run (ex_opts rebal) steps st0 | None => None end.

Example C06_nonvacuous :
  exists st, ex_run false ex_a ex_b ex_steps = Some st /\ DwInv ex_a ex_b st /\
    map (fun t => length t) (st_trees st) = [6%nat; 6%nat] /\ st_lmax st = [3; 3].
Proof.
  destruct (ex_run false ex_a ex_b ex_steps) as [st|] eqn:E; [|vm_compute in E; discriminate].
  exists st. split; [reflexivity|]. split.
  - unfold ex_run in E. destruct (dw_init 2 1 2 ex_a ex_b) as [st0|] eqn:E0; [|discriminate].
    eapply (C06_reachable_inv_norebalance 1 1 2 ex_a ex_b (ex_opts false)); [| reflexivity | exact E0 | exact E].
    repeat constructor.
  - assert (H : option_map (fun st => (map (fun t => length t) (st_trees st), st_lmax st)) (ex_run false ex_a ex_b ex_steps)
                = Some ([6%nat; 6%nat], [3; 3])) by (vm_compute; reflexivity).
    rewrite E in H. simpl in H. injection H as H1 H2. split; assumption.
Qed.

(* a state reached WITH rebalancing in which a rotation happened passes the checker, hence is well formed *)
Definition ex_a2 := [q 0 1; q 0 1].
Definition ex_steps2 := [ [[q 0 1; q 0 1; q 0 1; q 1 1]; [q 0 1; q 0 1; q 0 1; q 0 1]];
                          [[q 0 1; q 0 1; q 0 1; q 0 1; q 1 1]; [q 0 1; q 0 1; q 0 1; q 0 1]];
                          [[q 0 1; q 0 1; q 0 1; q 0 1; q 0 1; q 1 1]; [q 0 1; q 0 1; q 0 1; q 0 1]] ].
Definition ex_tree (rebal : bool) : list ival :=
  match ex_run rebal ex_a2 ex_b ex_steps2 with Some st => nth 0 (st_trees st) [] | None => [] end.

Definition ex_lmax0 (rebal : bool) : Z :=
  match ex_run rebal ex_a2 ex_b ex_steps2 with Some st => nth 0 (st_lmax st) 0 | None => 0 end.

Example C06_nonvacuous_rebalanced :
  map i_l1 (ex_tree true) <> map i_l1 (ex_tree false) /\
  map (fun iv => (i_start iv, i_end iv)) (ex_tree true) = map (fun iv => (i_start iv, i_end iv)) (ex_tree false) /\
  length (ex_tree true) = 7%nat /\ ex_lmax0 true < ex_lmax0 false /\
  WF (q 0 1) (q 1 1) (ex_lmax0 true) (ex_tree true).
Proof.
  split; [vm_compute; discriminate|]. split; [vm_compute; reflexivity|]. split; [vm_compute; reflexivity|].
  split; [vm_compute; reflexivity|].
  apply C06_tree_ok_sound. vm_compute. reflexivity.
Qed.

(* the same rebalanced state satisfies the full invariant by the THEOREM (no checker involved) *)
Example C06_nonvacuous_rebalanced_inv :
  exists st, ex_run true ex_a2 ex_b ex_steps2 = Some st /\ DwInv ex_a2 ex_b st /\
    map i_l1 (nth 0 (st_trees st) []) = [3; 2; 1; 3; 2; 3; 0].
Proof.
  destruct (ex_run true ex_a2 ex_b ex_steps2) as [st|] eqn:E; [|vm_compute in E; discriminate].
  exists st. split; [reflexivity|]. split.
  - unfold ex_run in E. destruct (dw_init 2 1 2 ex_a2 ex_b) as [st0|] eqn:E0; [|discriminate].
    eapply (C06_reachable_inv 1 1 2 ex_a2 ex_b (ex_opts true)); [| exact E0 | exact E].
    repeat constructor.
  - assert (H : option_map (fun st => map i_l1 (nth 0 (st_trees st) [])) (ex_run true ex_a2 ex_b ex_steps2)
                = Some [3; 2; 1; 3; 2; 3; 0]) by (vm_compute; reflexivity).
    rewrite E in H. simpl in H. injection H as H. exact H.
Qed.

(* ---------------------------------------------------------------------------------------------------------- *)
(* the float-decided rebalancing test (phase 3, item 3).  rb_dec_float is the Python expression
     abs(pos / (end-start-2) - 0.5) > abs(pos1 / (end-start-2) - 0.5) + safety_factor
   evaluated operation by operation in IEEE binary64 with Coq's primitive floats.  For the safety factors 0.1, 0, 0.125, 0.25, 0.05
   and segments of up to 66 intervals (end-start-2 <= 64) the decision function of the model options built by the wire entry IS this
   binary64 evaluation - from a table computed by Coq (Model/DimWiseFloat.v), whatever the harness supplies beyond the bound.
   _bounded: the domain (five floats, m <= 64) is finite; beyond it the decision bits are still an input computed by the harness *)
Theorem C06_rebalance_test_is_binary64_bounded : forall version rebal boundary margin sf dim exc_rb exc_v3 pos pos1 m,
  certified_sf sf -> (forall t, In t exc_rb -> (RB_BOUND < snd t)%nat) ->
  (1 <= m <= RB_BOUND)%nat -> (pos < m + 2)%nat -> (pos1 < m + 2)%nat ->
  o_dec (mk_opts version rebal boundary margin (Qc_of_float sf) dim exc_rb exc_v3) pos pos1 m = rb_dec_float sf pos pos1 m.
Proof. exact mk_opts_rebalance_test_is_binary64. Qed.
Print Assumptions C06_rebalance_test_is_binary64_bounded.

(* non-vacuity: with safety factor 0.1 and a segment of 12 intervals (m = 10) the root at position 3 against the child at
   position 4: exactly, |3/10 - 1/2| = 0.2 is NOT larger than |4/10 - 1/2| + 0.1000000000000000055...; in binary64 it is - the
   model follows binary64 *)
Example C06_float_test_nonvacuous :
  rb_dec_float sf_010 3 4 10 = true /\ rebalance_dec_exact (Qc_of_float sf_010) 3 4 10 = false /\
  o_dec (mk_opts 6 true true (Q2Qc (9 # 10)) (Qc_of_float sf_010) 2 [] []) 3 4 10 = true.
Proof. vm_compute. repeat split; reflexivity. Qed.
