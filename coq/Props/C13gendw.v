(* C13gen for the dimension-wise strategy: the hypotheses "refine() does not raise" and "get_total_num_points is a query" of
   Props/C13gen.v DISCHARGED - refine from the totality theorem of C06 (on every state whose refinement trees satisfy the invariant one
   refinement step is defined and preserves the invariant), the count from the cache machine of C12.  The remaining oracle hypotheses
   (evaluate_operation, initialize_grid, check_combi_scheme, evaluate_final_combi, operation.get_result) stay: nothing in the
   development models their definedness (the library's error estimator does raise on some refinement states). *)
From Coq Require Import ZArith List Bool QArith Qcanon.
From SG Require Import Base.QcUtil Model.Driver Model.DimWise Proofs.DimWiseInv Proofs.DimWiseTotal Model.FunCache
     Gen.DriverGen Proofs.GenDriverEq Proofs.GenDriverDW Props.C13gen.
Import ListNotations.
Open Scope Z_scope.

(* refine() of the dimension-wise strategy on valid states never raises, its result is valid, and it is the tree step of C06 *)
Theorem C13_gen_dimension_wise_refine_never_raises :
  forall (a b : list Qc) (o : dw_opts) (St : Type) (tree : St -> dw_state) (benefits : St -> list (list Qc))
         (install : St -> dw_state -> St) (tree_install : forall s t, tree (install s t) = t) (x : VS a b St tree),
  m_refine_dw a b o St tree benefits install tree_install x = Some (tt, dw_next a b o St tree benefits install tree_install x) /\
  dw_step o (benefits (proj1_sig x)) (tree (proj1_sig x)) = Some (tree (proj1_sig (dw_next a b o St tree benefits install tree_install x))).
Proof. intros. split; [apply refine_oracle_total|apply refine_oracle_is_tree_step]. Qed.
Print Assumptions C13_gen_dimension_wise_refine_never_raises.

Theorem C13_gen_point_count_is_a_query : forall eval olen vr st, step eval olen vr st OSize = (st, RSize (length (fd st))).
Proof. exact count_is_a_query. Qed.

(* the generated loop theorem with the refine hypothesis gone: object states = valid dimension-wise states *)
Section DW.
  Variables a b : list Qc.
  Variable o : dw_opts.
  Variable St0 : Type.
  Variable tree : St0 -> dw_state.
  Variable benefits : St0 -> list (list Qc).
  Variable install : St0 -> dw_state -> St0.
  Hypothesis tree_install : forall s t, tree (install s t) = t.
  Notation St := (VS a b St0 tree).
  Variables T_result T_dict T_points T_ErrorCalculator T_reference T_RefinementContainer T_grid : Type.
  Variable g_refinement : St -> T_RefinementContainer.
  Variable g_scheme : St -> list T_grid.
  Variable g_lmax : St -> list Z.
  Variable g_refinement_evaluationstotal : St -> Z.
  Variable m_evaluate_operation : St -> option ((Qc * Qc) * St).
  Variable m_initialize_grid : St -> option (unit * St).
  Variable m_get_total_num_points : St -> bool -> bool -> option (Z * St).
  Variable m_evaluate_final_combi : St -> option ((T_result * Z) * St).
  Variable m_check_combi_scheme : St -> option (unit * St).
  Variable m_operation_get_result : St -> option (T_result * St).
  Variable f_eval : St -> (Qc * Qc) * St.
  Variable f_init : St -> St.
  Variable cnt : St -> Z.
  Variable f_check : St -> St.
  Variable f_final : St -> (T_result * Z) * St.
  Variable f_result : St -> T_result * St.
  Hypothesis H_eval : forall s, m_evaluate_operation s = Some (f_eval s).
  Hypothesis H_init : forall s, m_initialize_grid s = Some (tt, f_init s).
  Hypothesis H_cnt : forall s, m_get_total_num_points s false true = Some (cnt s, s).
  Hypothesis H_check : forall s, m_check_combi_scheme s = Some (tt, f_check s).
  Hypothesis H_final : forall s, m_evaluate_final_combi s = Some (f_final s).
  Hypothesis H_result : forall s, m_operation_get_result s = Some (f_result s).

  Theorem C13_gen_dimension_wise_stops_at_first_satisfying_index :
    forall fuel (self : Self_t St T_result T_dict T_points T_ErrorCalculator T_reference) st d tol max_ev min_ev o0,
    in_model St T_result T_dict T_points T_ErrorCalculator T_reference self ->
    SpatiallyAdaptivBase_continue_adaptive_refinement St T_result T_dict T_points T_ErrorCalculator T_reference
      T_RefinementContainer T_grid g_refinement g_scheme g_lmax g_refinement_evaluationstotal m_evaluate_operation m_initialize_grid
      (m_refine_dw a b o St0 tree benefits install tree_install) m_get_total_num_points m_evaluate_final_combi
      m_check_combi_scheme m_operation_get_result fuel
      (with_d St T_result T_dict T_points T_ErrorCalculator T_reference self st d) tol None max_ev min_ev =
    match first_stop (mkLimits tol min_ev max_ev)
            (traj (X St) (evaluate' St f_eval f_init cnt) (refine' St (dw_next a b o St0 tree benefits install tree_install)) (observe' St) fuel (st, o0)) with
    | Some k =>
        tail St T_result T_dict T_points T_ErrorCalculator T_reference T_RefinementContainer T_grid g_refinement g_scheme g_lmax
          g_refinement_evaluationstotal f_check f_final f_result self
          (fst (state_at (X St) (evaluate' St f_eval f_init cnt) (refine' St (dw_next a b o St0 tree benefits install tree_install)) k (st, o0)))
          (fst (drive (mkLimits tol min_ev max_ev)
                  (traj (X St) (evaluate' St f_eval f_init cnt) (refine' St (dw_next a b o St0 tree benefits install tree_install)) (observe' St) fuel (st, o0)) d))
    | None => None
    end.
  Proof.
    exact (C13_gen_stops_at_first_satisfying_index St T_result T_dict T_points T_ErrorCalculator T_reference T_RefinementContainer T_grid
             g_refinement g_scheme g_lmax g_refinement_evaluationstotal m_evaluate_operation m_initialize_grid
             (m_refine_dw a b o St0 tree benefits install tree_install) m_get_total_num_points m_evaluate_final_combi
             m_check_combi_scheme m_operation_get_result f_eval f_init (dw_next a b o St0 tree benefits install tree_install) cnt
             f_check f_final f_result H_eval H_init (refine_oracle_total a b o St0 tree benefits install tree_install) H_cnt H_check H_final H_result).
  Qed.
End DW.
Print Assumptions C13_gen_dimension_wise_stops_at_first_satisfying_index.
