(* C18 - source-derived model of the scaling bookkeeping of class DataSet.
   coq/Gen/DataSetScalingGen.v is GENERATED from sparseSpACE/DEMachineLearning.py (scale_range, scale_factor, shift_value, revert_scaling)
   by harness/translate/py2gallina_c18.py at every build: branch structure, attribute writes and their order, accumulation of
   _scaling_factor and _scaling_offset, evaluation order, the state an exception leaves behind and the calls inside revert_scaling come
   from the source; the numpy / scikit-learn primitives are parameters, instantiated in Proofs/GenDataSetScalingEq.v with the primitives
   of Model/DataSet.v.  The theorems: the generated methods ARE the hand-written bookkeeping of Model/DataSetOff.v (repaired variant), on
   every data set of the reachable kind (a scaled set has an accumulated factor), hence everything proved in Props/C18.v about
   scale_range_o / scale_factor_o / shift_value_o / revert_o holds for the source-derived methods. *)
From Coq Require Import ZArith List QArith Qcanon Bool.
From SG Require Import Base.QcUtil Model.DataSet Model.DataSetOff Gen.DataSetScalingGen Proofs.GenDataSetScalingEq
  Proofs.DataSetRevert Proofs.DataSetTrack Proofs.DataSetOffP Proofs.DataSetHistory Proofs.DataSetWitness.
Import ListNotations.
Open Scope Qc_scope.

Theorem C18_gen_scale_factor_eq : forall d a ov, has_factor d ->
  of_result (shuffled (base d)) (g_scale_factor (to_state d) (fac_of_arg a) ov) = scale_factor_o true a ov d.
Proof. exact gen_scale_factor_eq. Qed.
Theorem C18_gen_shift_value_eq : forall d a ov,
  of_result (shuffled (base d)) (g_shift_value (to_state d) (fac_of_arg a) ov) = shift_value_o true a ov d.
Proof. exact gen_shift_value_eq. Qed.
Theorem C18_gen_scale_range_eq : forall d lo hi ov, has_factor d ->
  of_result (shuffled (base d)) (g_scale_range (to_state d) (RScalar lo hi) ov) = scale_range_o true lo hi ov d.
Proof. exact gen_scale_range_eq. Qed.
(* revert_scaling, with its calls of the generated shift_value and scale_factor: all attributes the methods touch (to_state; _shuffled is not
   among them) and the raised flag *)
Theorem C18_gen_revert_scaling_eq : forall d, has_factor d ->
  g_revert_scaling (to_state d) = (to_state (fst (revert_o true d)), snd (revert_o true d)).
Proof. exact gen_revert_scaling_eq. Qed.
Print Assumptions C18_gen_scale_factor_eq.
Print Assumptions C18_gen_shift_value_eq.
Print Assumptions C18_gen_scale_range_eq.
Print Assumptions C18_gen_revert_scaling_eq.

(* the side condition is an invariant of every history: every tracked data set has it *)
Theorem C18_gen_tracked_has_factor : forall d R, Tracked (d, R) -> rows (base d) <> [] -> has_factor d.
Proof.
  intros d R T Hne Hs. destruct (tracked_scaled_nonempty d R T Hs Hne) as [n [fv [cv [[I _] _]]]].
  intro E. pose proof (b_fac _ _ _ _ _ I) as F. rewrite E in F. discriminate.
Qed.

(* ... so the source-derived revert_scaling restores the reference list of every scaled tracked data set *)
Theorem C18_gen_revert_restores : forall n d R fv cv, InvO n d R fv cv -> R <> [] ->
  exists d3, g_revert_scaling (to_state d) = (to_state d3, false) /\ rows (base d3) = R /\ cleared (base d3) /\ soff d3 = FNone.
Proof.
  intros n d R fv cv IO HR. destruct (revert_o_restores n d R fv cv IO HR) as [d3 [E [R3 [C3 O3]]]].
  assert (H : has_factor d).
  { intros _ E0. destruct IO as [I _]. pose proof (b_fac _ _ _ _ _ I) as F. rewrite E0 in F. discriminate. }
  exists d3. rewrite (gen_revert_scaling_eq d H), E. auto.
Qed.
Print Assumptions C18_gen_tracked_has_factor.
Print Assumptions C18_gen_revert_restores.

(* non-vacuity: the generated methods computed on a concrete data set: scale to (0,1), times -2, shifted, reverted *)
Example C18_gen_nonvacuous :
  let s0 := to_state (fresh_o (rows wit_d0)) in
  let '(s1, e1) := g_scale_range s0 (RScalar 0 1) false in
  let '(s2, e2) := g_scale_factor s1 (FScalar (- Qc2)) false in
  let '(s3, e3) := g_shift_value s2 (FArr [1; Qchalf]) false in
  let '(s4, e4) := g_revert_scaling s3 in
  (e1, e2, e3, e4) = (false, false, false, false) /\ f_scaled _ _ _ s3 = true /\ f_scaled _ _ _ s4 = false /\
  map (fun s => (map this (fst s), snd s)) (fst (fst (f_data _ _ _ s4))) = map (fun s => (map this (fst s), snd s)) (rows wit_d0).
Proof. vm_compute. repeat split; reflexivity. Qed.
