(* C13 — The adaptive driver honours its stopping rules and reports truthful numbers.
   Property theorems only; each is closed by `exact` of a lemma from Proofs/.
   Model: Model/Driver.v (loop of SpatiallyAdaptivBase.continue_adaptive_refinement over the observation stream
   (error_k, surplus_k, points_k); get_global_error_estimate; set_benefit; distinct point counting). *)
From Coq Require Import ZArith List Bool QArith Qcanon Lia.
From SG Require Import Base.QcUtil Model.Driver Proofs.DriverProofs Proofs.DriverSpec.
Import ListNotations.
Open Scope Z_scope.

(* the run stops at the FIRST evaluation at which (error <= tol and points >= min) or (points > max):
   for every stream of observations, every limits, every prior history *)
Theorem C13_stops_at_first_satisfying_index : forall lim os s s',
  drive lim os s = (s', true) <->
  exists k, s' = after_stop s os k /\
    (exists o, nth_error os k = Some o /\ stop_now lim o = true) /\
    (forall j o, (j < k)%nat -> nth_error os j = Some o -> stop_now lim o = false).
Proof. exact stops_at_first_satisfying_index. Qed.
Print Assumptions C13_stops_at_first_satisfying_index.

Theorem C13_keeps_refining_iff_never_satisfied : forall lim os s s',
  drive lim os s = (s', false) <-> s' = after_all s os /\ forall o, In o os -> stop_now lim o = false.
Proof. exact keeps_refining_iff_never_satisfied. Qed.

(* ... and never refines after that: trace = (eval; refine)^k; eval, #refinements = #evaluations - 1,
   further observations are never consumed *)
Theorem C13_never_refines_after_stop : forall lim os s s',
  drive lim os s = (s', true) ->
  exists k, d_trace s' = d_trace s ++ eval_refine_rounds k ++ [EvEval] /\
            d_refines s' = d_refines s + Z.of_nat k /\
            count_ev EvRefine (eval_refine_rounds k ++ [EvEval]) = k /\
            count_ev EvEval (eval_refine_rounds k ++ [EvEval]) = S k /\
            forall extra, drive lim (os ++ extra) s = (s', true).
Proof. exact never_refines_after_stop. Qed.
Print Assumptions C13_never_refines_after_stop.

(* limits already met at the first evaluation: one evaluation, no refinement *)
Theorem C13_limits_met_at_first_evaluation : forall lim o r,
  stop_now lim o = true -> perform lim (o :: r) = (mkD [o_err o] [o_sur o] [o_pts o] [EvEval] 0, true).
Proof. exact limits_met_at_first_evaluation. Qed.

(* all history arrays have one entry per evaluation - after one call and after any sequence of
   perform / continue_adaptive_refinement calls *)
Theorem C13_histories_one_entry_per_evaluation : forall lim os s s' b,
  hist_ok s -> drive lim os s = (s', b) -> hist_ok s'.
Proof. exact histories_one_entry_per_evaluation. Qed.
Theorem C13_histories_one_entry_per_evaluation_calls : forall calls, hist_ok (drive_calls calls d_init).
Proof. intro calls. apply histories_one_entry_per_evaluation_calls. exact hist_ok_init. Qed.
Theorem C13_history_is_observation_prefix : forall lim os s',
  perform lim os = (s', true) ->
  exists k, (k < length os)%nat /\ d_errs s' = map o_err (firstn (S k) os) /\
            d_surs s' = map o_sur (firstn (S k) os) /\ d_pts s' = map o_pts (firstn (S k) os) /\
            d_refines s' = Z.of_nat k.
Proof. exact history_is_observation_prefix. Qed.
Print Assumptions C13_histories_one_entry_per_evaluation_calls.

(* point counts never decrease and each is the number of distinct points the integrand was called on so far *)
Theorem C13_points_monotone : forall batches cache, nondecreasing (point_counts cache batches).
Proof. exact points_monotone. Qed.
Theorem C13_point_counts_are_distinct_counts : forall batches cache k x,
  NoDup cache -> nth_error (point_counts cache batches) k = Some x ->
  exists u, NoDup u /\ x = Z.of_nat (length u) /\
            forall p, In p u <-> In p cache \/ In p (all_points (firstn (S k) batches)).
Proof. exact point_counts_are_distinct_counts. Qed.
Print Assumptions C13_point_counts_are_distinct_counts.

(* error estimates and benefits are never negative *)
Theorem C13_errors_nonneg : forall nm ref integral e, global_error nm ref integral = GVal e -> (0 <= e)%Qc.
Proof. exact errors_nonneg. Qed.
Theorem C13_benefit_nonneg : forall err ev, (0 <= err)%Qc -> 0 <= ev -> (0 <= benefit err ev)%Qc.
Proof. exact benefit_nonneg. Qed.
Theorem C13_max_benefit_nonneg : forall bs, (0 <= max_benefit bs)%Qc.
Proof. exact max_benefit_nonneg. Qed.
Theorem C13_total_error_nonneg : forall es, (forall e, In e es -> (0 <= e)%Qc) -> (0 <= total_error es)%Qc.
Proof. exact total_error_nonneg. Qed.
Print Assumptions C13_errors_nonneg.

(* the reported error IS the relative deviation (absolute for a zero reference) in the chosen norm.
   scalar result: |ref - I| / |ref| for norms inf and 1, its square for the (squared) 2-norm *)
Theorem C13_error_is_relative_deviation_scalar : forall nm r i,
  r <> 0%Qc ->
  global_error nm (Some [r]) [i] =
    GVal (match nm with
          | NormInf | Norm1 => Qc_abs (r - i) / Qc_abs r
          | Norm2sq => (Qc_abs (r - i) / Qc_abs r) * (Qc_abs (r - i) / Qc_abs r)
          end)%Qc.
Proof. exact error_is_relative_deviation_scalar. Qed.
Theorem C13_error_is_absolute_for_zero_reference : forall nm ref integral,
  length ref = length integral -> (forall r, In r ref -> r = 0%Qc) ->
  global_error nm (Some ref) integral = GVal (vec_norm nm integral).
Proof. exact error_is_absolute_for_zero_reference. Qed.
(* vector result, max norm: bounds every component's relative deviation and is attained *)
Theorem C13_error_is_relative_deviation_maxnorm : forall ref integral e,
  global_error NormInf (Some ref) integral = GVal e -> (exists r, In r ref /\ r <> 0%Qc) ->
  (forall k r i, nth_error ref k = Some r -> nth_error integral k = Some i -> (Qc_abs (r - i) / Qc_abs r <= e)%Qc) /\
  (e = 0%Qc \/ exists k r i, nth_error ref k = Some r /\ nth_error integral k = Some i /\ e = (Qc_abs (r - i) / Qc_abs r)%Qc).
Proof. exact error_is_relative_deviation_maxnorm. Qed.
(* vector result, 1-norm: the mean of the components' relative deviations *)
Theorem C13_error_is_relative_deviation_1norm : forall ref integral e,
  global_error Norm1 (Some ref) integral = GVal e -> (forall r, In r ref -> r <> 0%Qc) -> ref <> [] ->
  (e * qc_of_Z (Z.of_nat (length ref)))%Qc = sumQ (rel_abs_dev ref integral).
Proof. exact error_is_relative_deviation_1norm. Qed.
(* vector result, 2-norm (squared, as the model represents it): the mean of the squared relative deviations *)
Theorem C13_error_is_relative_deviation_2norm : forall ref integral e,
  global_error Norm2sq (Some ref) integral = GVal e -> (forall r, In r ref -> r <> 0%Qc) -> ref <> [] ->
  (e * qc_of_Z (Z.of_nat (length ref)))%Qc = sumQ (map (fun x => x * x)%Qc (rel_abs_dev ref integral)).
Proof. exact error_is_relative_deviation_2norm. Qed.
Print Assumptions C13_error_is_relative_deviation_2norm.
Print Assumptions C13_error_is_relative_deviation_scalar.
Print Assumptions C13_error_is_relative_deviation_maxnorm.
Print Assumptions C13_error_is_relative_deviation_1norm.
(* NOTE: the 2-norm is modelled by its SQUARE (mean of squares); the square root Python takes is applied by the harness
   when the reported value is compared. *)

(* DimAdaptiveCombi.perform_combi (not derived from SpatiallyAdaptivBase) does NOT satisfy the history clause:
   whenever it stops it has performed one evaluation more than it reports - proved for every stream *)
Theorem C13_dimadaptive_history_misses_final_evaluation_refuted : forall lim os s',
  dim_drive lim os d_init = (s', true) ->
  count_ev EvEval (d_trace s') = S (length (d_errs s')) /\ length (d_pts s') = length (d_errs s').
Proof. exact dim_history_misses_final_evaluation. Qed.
(* ... and it tests `error < tolerance`: an evaluation whose error EQUALS the tolerance stops the base driver, not this one *)
Theorem C13_dimadaptive_strict_tolerance_refuted :
  exists lim o, stop_now lim o = true /\ dim_stop_now lim o = false.
Proof. exists (mkLimits 0%Qc 1 None), (mkObs 0%Qc 0%Qc 5). split; reflexivity. Qed.
Print Assumptions C13_dimadaptive_history_misses_final_evaluation_refuted.

(* non-vacuity: a concrete 4-evaluation run (tolerance 1/100 reached at the 4th evaluation, min 20 points) *)
Example C13_nonvacuous :
  let q n d := Q2Qc (n # Z.to_pos d) in
  let os := [mkObs (q 1 10) (q 1 5) 21; mkObs (q 1 200) (q 1 9) 19; mkObs (q 1 50) (q 1 20) 33; mkObs (q 1 100) (q 1 30) 49;
             mkObs (q 1 1000) (q 1 40) 81] in
  exists s, perform (mkLimits (q 1 100) 20 (Some 60)) os = (s, true) /\
            d_pts s = [21; 19; 33; 49] /\ d_refines s = 3 /\ hist_ok s.
Proof.
  eexists. split; [vm_compute; reflexivity|]. split; [reflexivity|]. split; [reflexivity|]. repeat split.
Qed.
Example C13_nonvacuous_error :
  global_error NormInf (Some [Q2Qc (1 # 2); Q2Qc (2 # 1)]) [Q2Qc (5 # 8); Q2Qc (2 # 1)] = GVal (Q2Qc (1 # 4)).
Proof. vm_compute. reflexivity. Qed.
Example C13_nonvacuous_points :
  point_counts [] [[[0;0];[1;0];[0;0]]; [[1;0]]; [[1;1];[0;0]]] = [2; 2; 3].
Proof. reflexivity. Qed.

(* ==================================================================================================================
   Round 2: histories of several calls on ONE object, limits expressed through the API (explicit / default arguments)
   ================================================================================================================== *)
From SG Require Import Proofs.DriverLegs.

(* the limits of a call are decided by ITS OWN arguments: an explicitly given tolerance is used as it is (0 included),
   a default only replaces an argument that is not given; nothing of an earlier call enters (resolve has no other input) *)
Theorem C13_explicit_arguments_are_the_limits : forall dt t m x, resolve dt (mkArgs (Some t) (Some m) x) = mkLimits t m x.
Proof. exact resolve_explicit. Qed.
Theorem C13_explicit_tolerance_zero_is_zero : forall dt am ax, l_tol (resolve dt (mkArgs (Some 0%Qc) am ax)) = 0%Qc.
Proof. exact resolve_tol_zero. Qed.
Theorem C13_defaults_of_the_two_entry_points :
  resolve_perform (mkArgs None None None) = mkLimits default_tol_perform 1 None /\
  resolve_continue (mkArgs None None None) = mkLimits default_tol_continue 1 None /\
  (default_tol_continue < default_tol_perform)%Qc /\ (0 < default_tol_continue)%Qc.
Proof. split; [reflexivity|]. split; [reflexivity|]. exact default_tols. Qed.

(* EVERY call of a history performSpatiallyAdaptiv(a0); continue_adaptive_refinement(a1); ... stops iff an evaluation of
   its own stream satisfies the limits resolved from its own arguments, exactly at the first such evaluation, appending
   exactly the evaluations it performed to the history arrays it found - for every history, every argument combination
   (tighter, looser, equal, zero, implicit), every stream *)
Theorem C13_each_call_honours_its_own_limits : forall calls i a os s',
  nth_error calls i = Some (a, os) ->
  exists s0, nth_error (api_states true calls d_init) i = Some s0 /\
    (nth_error (api_run true calls d_init) i = Some (s', true) <->
     exists k, s' = after_stop s0 os k /\
       (exists o, nth_error os k = Some o /\ stop_now (call_limits i a) o = true) /\
       (forall j o, (j < k)%nat -> nth_error os j = Some o -> stop_now (call_limits i a) o = false)).
Proof. exact each_call_honours_its_own_limits. Qed.
Print Assumptions C13_each_call_honours_its_own_limits.

Theorem C13_api_histories_one_entry_per_evaluation : forall calls s' b,
  In (s', b) (api_run true calls d_init) -> hist_ok s'.
Proof. intros calls s' b. apply (api_histories_ok calls true d_init hist_ok_init). Qed.

(* the observation-stream machine IS the driver loop over the refinement state: for every state space and every
   deterministic evaluate / refine / observe, the loop with its appends to the history arrays returns the state at the
   first trajectory position satisfying the rule, and the arrays `drive` computes on the trajectory *)
Theorem C13_driver_loop_is_stream_machine_on_trajectory :
  forall (St : Type) (evaluate refine : St -> St) (observe : St -> obs) lim n s d,
  run_rec St evaluate refine observe lim n s d =
    match first_stop lim (traj St evaluate refine observe n s) with
    | Some k => Some (state_at St evaluate refine k s, fst (drive lim (traj St evaluate refine observe n s) d))
    | None => None
    end.
Proof. exact run_rec_is_drive_on_trajectory. Qed.
Print Assumptions C13_driver_loop_is_stream_machine_on_trajectory.

(* legs on one underlying stream: each leg stops at the first position, counted from the previous stop position
   (inclusive: the re-evaluation), that satisfies its own limits *)
Theorem C13_legs_honour_their_own_limits : forall l r os d p d',
  legs_on_stream (l :: r) os d = Some (p, d') <->
  exists k p', first_stop l os = Some k /\ legs_on_stream r (skipn k os) (fst (drive l os d)) = Some (p', d') /\ p = (k + p')%nat.
Proof. exact legs_on_stream_step. Qed.

(* non-vacuity: perform(tol=1/100, max=100); continue(tol=1/2000, max=100); continue(tol=1/100, max=400);
   continue(tol=0, max=200) on one stream.  Leg 2 must go on although the error is below the tolerance of leg 1 (a driver
   that kept the first tolerance would stop at once), leg 3 must stop at once although its point budget is larger,
   leg 4 (tol = 0 given explicitly) must go on until the budget is exceeded. *)
Example C13_nonvacuous_history :
  let q n d := Q2Qc (n # Z.to_pos d) in
  let o e p := mkObs (q e 10000) (q e 10000) p in
  let os := [o 478 21; o 292 27; o 120 49; o 92 57; o 73 65; o 34 105; o 26 125; o 18 153; o 16 165; o 8 237] in
  let h := [mkArgs (Some (q 1 100)) None (Some 100); mkArgs (Some (q 1 2000)) (Some 1) (Some 100);
            mkArgs (Some (q 1 100)) None (Some 400); mkArgs (Some 0%Qc) None (Some 200)] in
  exists d, legs_on_stream (resolve_history true h) os d_init = Some (9%nat, d) /\
            d_pts d = [21; 27; 49; 57;  57; 65; 105;  105;  105; 125; 153; 165; 237] /\ d_refines d = 9 /\ hist_ok d /\
            (* the stale-tolerance driver (seeded change C13r2) stops leg 2 at once: another history *)
            legs_on_stream [resolve_perform (mkArgs (Some (q 1 100)) None (Some 100));
                            resolve_continue (mkArgs (Some (q 1 100)) (Some 1) (Some 100))] os d_init
              <> legs_on_stream (resolve_history true (firstn 2 h)) os d_init.
Proof.
  eexists. split; [vm_compute; reflexivity|]. split; [reflexivity|]. split; [reflexivity|]. split; [repeat split|].
  vm_compute. discriminate.
Qed.

(* ==================================================================================================================
   Phase 4: reported point count = number of distinct integrand evaluations, over the cache machine of C12, for every
   history of evaluations and restarts (recalculate_frequently), composed with the driver's history arrays
   ================================================================================================================== *)
From SG Require Import Model.FunCache Model.DriverCount Proofs.FunCacheProofs Proofs.DriverCountProofs.

Theorem C13_reported_count_is_distinct_evaluations :
  forall (eval : point -> value) (olen : nat), (forall p, length (eval p) = olen) ->
  forall vr st h, wf_history h = true -> cache st = true ->
  reported eval olen vr st (DvPerform :: h) = evaluated_counts [] (DvPerform :: h).
Proof. intros eval olen H vr st h. exact (reported_is_distinct_evaluations_from_perform eval olen H vr st h). Qed.
Print Assumptions C13_reported_count_is_distinct_evaluations.

Theorem C13_counts_never_decrease_across_restarts : forall h acc, no_perform h = true -> nondec (evaluated_counts acc h).
Proof. exact evaluated_counts_nondecreasing. Qed.

Theorem C13_driver_point_array_is_distinct_evaluations :
  forall (eval : point -> value) (olen : nat), (forall p, length (eval p) = olen) ->
  forall vr lim os s' h,
  perform lim os = (s', true) -> wf_history h = true ->
  map o_pts os = map Z.of_nat (reported eval olen vr init (DvPerform :: h)) ->
  exists k, (k < length os)%nat /\ d_pts s' = map Z.of_nat (firstn (S k) (evaluated_counts [] (DvPerform :: h))).
Proof. exact driver_point_array_is_distinct_evaluations. Qed.
Print Assumptions C13_driver_point_array_is_distinct_evaluations.

(* the two hypotheses of wf_history are necessary - the two defects found by the check, as witnesses:
   (a) a surplus evaluation through eval_vectorized (before repair 7730064): evaluated, never counted;
   (b) a restart that empties the cache (seeded change C13r4): the count drops below an earlier one *)
Definition nv_eval (p : point) : value := [0%Qc].
Definition nv_pt (z : Z) : point := [Q2Qc (z # 1)].
Theorem C13_uncached_surplus_evaluation_refuted :
  let h := [DvEval [OBatch [nv_pt 1; nv_pt 2]; OVec [nv_pt 3]]] in
  reported nv_eval 1 fixed init (DvPerform :: h) = [2%nat] /\ evaluated_counts [] (DvPerform :: h) = [3%nat].
Proof. split; vm_compute; reflexivity. Qed.
Theorem C13_restart_emptying_the_cache_refuted :
  let h := [DvEval [OBatch [nv_pt 1; nv_pt 2; nv_pt 3]]; DvRestart true; DvEval [OBatch [nv_pt 1; nv_pt 2]]] in
  reported nv_eval 1 fixed init (DvPerform :: h) = [3%nat; 2%nat] /\ evaluated_counts [] (DvPerform :: h) = [3%nat; 3%nat].
Proof. split; vm_compute; reflexivity. Qed.
Example C13_nonvacuous_counts :
  let h := [DvEval [OBatch [nv_pt 1; nv_pt 2; nv_pt 1]; OSingle (nv_pt 3)]; DvRestart false; DvEval [OBatch [nv_pt 1; nv_pt 2]; OBatch [nv_pt 4]]] in
  wf_history h = true /\ reported nv_eval 1 cur init (DvPerform :: h) = [3%nat; 4%nat].
Proof. split; vm_compute; reflexivity. Qed.

(* solutions_storage: for every point count that occurred the dict holds the result of the LAST evaluation with that count, nothing
   else, at most one entry per evaluation; composed with the driver: built from exactly the evaluations the run performed *)
From SG Require Import Proofs.DriverStorage.
Theorem C13_storage_holds_last_results : forall (A : Type) (kvs : list (Z * A)) k,
  store_get k (storage_after kvs []) = last_with k kvs.
Proof. intros A kvs. exact (storage_holds_last_results kvs). Qed.
Theorem C13_storage_at_most_one_entry_per_evaluation : forall (A : Type) (kvs : list (Z * A)),
  (length (storage_after kvs []) <= length kvs)%nat.
Proof. intros A kvs. exact (storage_at_most_one_entry_per_evaluation kvs). Qed.
Theorem C13_driver_storage : forall (A : Type) lim os (results : list A) s',
  perform lim os = (s', true) -> length results = length os ->
  exists k, (k < length os)%nat /\ d_pts s' = map o_pts (firstn (S k) os) /\
    forall p, store_get p (storage_after (combine (d_pts s') (firstn (S k) results)) []) =
              last_with p (combine (map o_pts (firstn (S k) os)) (firstn (S k) results)).
Proof. intros A. exact (@driver_storage A). Qed.
Print Assumptions C13_driver_storage.
Example C13_nonvacuous_storage :
  storage_after [(21, 1); (27, 2); (27, 3); (49, 4); (21, 5)] [] = [(21, 5); (27, 3); (49, 4)] /\
  last_with 27 [(21, 1); (27, 2); (27, 3); (49, 4); (21, 5)] = Some 3 /\ last_with 30 [(21, 1); (27, 2)] = None.
Proof. split; [reflexivity|]. split; reflexivity. Qed.
