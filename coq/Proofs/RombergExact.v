(* C11 — exactness degree on complete dyadic grids (BOUNDED: finite enumeration by vm_compute), the Simpson container
   defect (refuted statement with witness) and its proposed repair. *)
From Coq Require Import ZArith List QArith Qcanon Bool Arith Lia.
From SG Require Import Base.QcUtil Model.Romberg Proofs.RombergBasics.
Import ListNotations.
Open Scope Qc_scope.

(* levels of the complete binary tree of depth d whose root has level lev, in order *)
Fixpoint full_levels (d lev : nat) : list nat :=
  match d with O => [] | S d' => full_levels d' (S lev) ++ [lev] ++ full_levels d' (S lev) end.

Definition complete_levels (m : nat) : list nat := [O] ++ full_levels m 1 ++ [O].
Definition complete_grid (a b : Qc) (m : nat) : list Qc :=
  map (fun k => a + (b - a) * (qc_of_Z (Z.of_nat k) / pow2 m)) (seq 0 (S (2 ^ m))).

(* sum_i w_i x_i^k = (b^(k+1) - a^(k+1)) / (k+1) for k = 0..deg *)
Definition monomial_exact (grid ws : list Qc) (a b : Qc) (k : nat) : bool :=
  Qc_eqb (dotQ (map (fun x => x ^ k) grid) ws) ((b ^ S k - a ^ S k) / qc_of_Z (Z.of_nat (S k))).
Definition exact_to_degree (grid ws : list Qc) (a b : Qc) (deg : nat) : bool :=
  Nat.eqb (length grid) (length ws) && forallb (monomial_exact grid ws a b) (seq 0 (S deg)).

Definition intervals : list (Qc * Qc) :=
  [(0, 1); (Q2Qc (-3 # 4), Q2Qc (5 # 4)); (Q2Qc (2 # 1), Q2Qc (5 # 2))].

Definition sliced_variants : list (grouping * slice_version) :=
  [(G_Unit, SV_Romberg); (G_Grouped, SV_Romberg); (G_Optimized, SV_Romberg); (G_Grouped, SV_Trapezoid); (G_Optimized, SV_Trapezoid)].

(* the default Romberg variants on the complete grid of depth m integrate monomials up to degree 2m+1 exactly *)
Definition sliced_exact_check (ab : Qc * Qc) (m : nat) (v : grouping * slice_version) (force : bool) : bool :=
  let '(a, b) := ab in
  match extrapolation_grid_from 0 (fst v) (snd v) CV_Default force (complete_grid a b m) (complete_levels m) with
  | Some r => exact_to_degree (er_grid r) (er_weights r) a b (2 * m + 1)
  | None => false
  end.

Definition balanced_exact_check (ab : Qc * Qc) (m : nat) : bool :=
  let '(a, b) := ab in
  match balanced_weights (complete_grid a b m) (complete_levels m) with
  | Some ws => exact_to_degree (complete_grid a b m) ws a b (2 * m - 1)
  | None => false
  end.

Definition depths_sliced : list nat := seq 1 4.       (* m = 1..4 *)
Definition depths_balanced : list nat := seq 1 5.     (* m = 1..5 *)
Definition depths_deep : list nat := [5; 6]%nat.

Lemma sliced_exact_all :
  forallb (fun ab => forallb (fun m => forallb (fun v => sliced_exact_check ab m v false && sliced_exact_check ab m v true)
                                               sliced_variants) depths_sliced) intervals = true.
Proof. vm_cast_no_check (eq_refl true). Qed.

(* deeper grids on [0,1] for the unit-sliced and the grouped default Romberg: m = 5, 6 *)
Lemma sliced_exact_deep :
  forallb (fun m => sliced_exact_check (0, 1) m (G_Unit, SV_Romberg) false && sliced_exact_check (0, 1) m (G_Grouped, SV_Romberg) false)
          depths_deep = true.
Proof. vm_cast_no_check (eq_refl true). Qed.

Lemma balanced_exact_all :
  forallb (fun ab => forallb (fun m => balanced_exact_check ab m) depths_balanced) intervals = true.
Proof. vm_cast_no_check (eq_refl true). Qed.

Theorem full_romberg_exact_bounded ab m v force :
  In ab intervals -> In m depths_sliced -> In v sliced_variants -> sliced_exact_check ab m v force = true.
Proof.
  intros Hab Hm Hv. assert (H := sliced_exact_all).
  rewrite forallb_forall in H. specialize (H ab Hab). rewrite forallb_forall in H. specialize (H m Hm).
  rewrite forallb_forall in H. specialize (H v Hv). apply andb_prop in H. destruct force; tauto.
Qed.

Lemma sliced_exact_depth7 : sliced_exact_check (0, 1) 7 (G_Unit, SV_Romberg) false = true.
Proof. vm_cast_no_check (eq_refl true). Qed.

Theorem full_romberg_exact_deep_bounded m g :
  In m depths_deep -> In g [G_Unit; G_Grouped] -> sliced_exact_check (0, 1) m (g, SV_Romberg) false = true.
Proof.
  intros Hm Hg. assert (H := sliced_exact_deep). rewrite forallb_forall in H. specialize (H m Hm).
  apply andb_prop in H. destruct H as [H1 H2]. destruct Hg as [<-|[<-|[]]]; assumption.
Qed.

Theorem balanced_exact_bounded ab m :
  In ab intervals -> In m depths_balanced -> balanced_exact_check ab m = true.
Proof.
  intros Hab Hm. assert (H := balanced_exact_all).
  rewrite forallb_forall in H. specialize (H ab Hab). rewrite forallb_forall in H. exact (H m Hm).
Qed.

(* depth 0: two points, the unit Romberg slice is the trapezoidal rule, degree 1 *)
Example depth0_exact : sliced_exact_check (0, 1) 0 (G_Unit, SV_Romberg) false = true.
Proof. vm_compute. reflexivity. Qed.

(* sharpness: degree 2m+2 is not integrated exactly (m = 2) *)
Example degree_is_sharp :
  match extrapolation_grid_from 0 G_Unit SV_Romberg CV_Default false (complete_grid 0 1 2) (complete_levels 2) with
  | Some r => exact_to_degree (er_grid r) (er_weights r) 0 1 5 && negb (monomial_exact (er_grid r) (er_weights r) 0 1 6)
  | None => false
  end = true.
Proof. vm_compute. reflexivity. Qed.

(* ---------------------------------------------------------------------------------------------- *)
(* Simpson containers *)

Definition grid3 : list Qc := [0; Qchalf; 1].

(* current code (lo = 0): [0, 1/2, 1] with a grouped Simpson container gives 1/7, 16/21, 1/7 *)
Lemma simpson_witness :
  option_map (fun r => map this (er_weights r))
             (extrapolation_grid_from 0 G_Grouped SV_Romberg CV_Simpson false grid3 [0; 1; 0]%nat)
  = Some [(1 # 7)%Q; (16 # 21)%Q; (1 # 7)%Q].
Proof. vm_compute. reflexivity. Qed.

Lemma simpson_refuted_b :
  match extrapolation_grid_from 0 G_Grouped SV_Romberg CV_Simpson false grid3 [0; 1; 0]%nat with
  | Some r => negb (Qc_eqb (sumQ (er_weights r)) (nthQ (er_grid r) (length (er_grid r) - 1) - nthQ (er_grid r) 0))
  | None => false
  end = true.
Proof. vm_compute. reflexivity. Qed.

Theorem simpson_container_sum_refuted :
  exists grid levels r, extrapolation_grid_from 0 G_Grouped SV_Romberg CV_Simpson false grid levels = Some r /\
    sumQ (er_weights r) <> nthQ (er_grid r) (length (er_grid r) - 1) - nthQ (er_grid r) 0.
Proof.
  exists grid3, [0; 1; 0]%nat. assert (B := simpson_refuted_b).
  destruct (extrapolation_grid_from 0 G_Grouped SV_Romberg CV_Simpson false grid3 [0; 1; 0]%nat) as [r|]; [|discriminate B].
  exists r. split; [reflexivity|]. intro H. apply Qc_eqb_eq in H. rewrite H in B. discriminate B.
Qed.

(* proposed repair (extrapolation over the levels 1..m): sums, first moment and cubics are exact on complete grids; BOUNDED *)
Definition simpson_fixed_check (ab : Qc * Qc) (m : nat) (g : grouping) : bool :=
  let '(a, b) := ab in
  match extrapolation_grid_from 1 g SV_Romberg CV_Simpson false (complete_grid a b m) (complete_levels m) with
  | Some r => exact_to_degree (er_grid r) (er_weights r) a b 3
  | None => false
  end.

Lemma simpson_fixed_all :
  forallb (fun ab => forallb (fun m => forallb (simpson_fixed_check ab m) [G_Grouped; G_Optimized]) (seq 1 4)) intervals = true.
Proof. vm_cast_no_check (eq_refl true). Qed.

Theorem simpson_fixed_exact_bounded ab m g :
  In ab intervals -> In m (seq 1 4) -> In g [G_Grouped; G_Optimized] -> simpson_fixed_check ab m g = true.
Proof.
  intros Hab Hm Hg. assert (H := simpson_fixed_all).
  rewrite forallb_forall in H. specialize (H ab Hab). rewrite forallb_forall in H. specialize (H m Hm).
  rewrite forallb_forall in H. exact (H g Hg).
Qed.
