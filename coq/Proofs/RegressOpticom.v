(* C20: the coefficient optimisation (Opticom).  Every variant ends with opticom_finish: the returned coefficients are the
   normalised raw coefficients whenever their sum is non-zero and finite, otherwise the combination coefficients are kept -
   and those sum to one by C01.  Option 3 (error per grid) is modelled completely. *)
From Coq Require Import ZArith List QArith Qcanon Bool Lia Lqa.
From SG Require Import Base.QcUtil Model.Gram Model.Regress Model.CombiScheme Proofs.GramHat Proofs.GramEntries Proofs.GramPD
  Proofs.GramNorm Proofs.RegressP Proofs.RegressLS Proofs.RegressConverse Proofs.SchemeInv.
Import ListNotations.
Open Scope Qc_scope.

(* ------------------------------------------------------------------ the common last step *)
Theorem opticom_finish_normalises cs coefs : sumQ cs <> 0 ->
  opticom_finish (Some cs) coefs = normalise_coefficients cs /\ sumQ (opticom_finish (Some cs) coefs) = 1.
Proof.
  intro H. unfold opticom_finish. assert (E : Qc_eqb (sumQ cs) 0 = false) by (apply Qc_eqb_false; exact H). rewrite E.
  split; [reflexivity | apply normalised_coefficients_sum_to_one; exact H].
Qed.

Theorem opticom_finish_keeps raw coefs : (raw = None \/ exists cs, raw = Some cs /\ sumQ cs = 0) -> opticom_finish raw coefs = coefs.
Proof.
  intros [H|[cs [H Hs]]]; subst raw; [reflexivity|]. unfold opticom_finish. rewrite Hs.
  assert (E : Qc_eqb 0 0 = true) by (apply Qc_eqb_eq; reflexivity). rewrite E. reflexivity.
Qed.

(* whatever the raw coefficients are: if the coefficients the scheme came with sum to one, so do the returned ones *)
Theorem opticom_finish_sum_one raw coefs : sumQ coefs = 1 -> sumQ (opticom_finish raw coefs) = 1.
Proof.
  intro H. destruct raw as [cs|]; [|exact H]. unfold opticom_finish.
  destruct (Qc_eqb (sumQ cs) 0) eqn:E; [exact H|]. apply Qc_eqb_false in E.
  exact (normalised_coefficients_sum_to_one cs E).
Qed.

(* the combination coefficients of EVERY reachable scheme of the dimension-adaptive / standard combination technique sum to
   one (C01_total_one), so the coefficients after the optimisation do, for every variant and every raw result *)
Lemma sumQ_of_sumZ l : sumQ (map qc_of_Z l) = qc_of_Z (sumZ l).
Proof.
  unfold sumZ. induction l as [|x l IH]; [apply Qc_is_canon; reflexivity|]. cbn [map sumQ fold_right]. rewrite IH, qc_of_Z_add. reflexivity.
Qed.

Theorem opticom_after_combination_scheme_sums_to_one s raw : Inv s ->
  sumQ (opticom_finish raw (map (fun kc => qc_of_Z (snd kc)) (combi_scheme_adaptive s))) = 1.
Proof.
  intro H. apply opticom_finish_sum_one.
  rewrite <- (map_map snd qc_of_Z). rewrite sumQ_of_sumZ, (scheme_total_one s H). apply qc_of_Z_1.
Qed.

(* ------------------------------------------------------------------ option 3: error per grid *)
Lemma sumQ_nonneg l : Forall (fun x => 0 <= x) l -> 0 <= sumQ l.
Proof.
  intro H. induction H as [|x l Hx Hl IH]; [apply Qcle_refl|]. cbn [sumQ]. revert Hx IH. generalize (sumQ l). intros. qc_order.
Qed.

Lemma sq_terms_nonneg y p : Forall (fun x => 0 <= x) (map2 (fun a b => (a - b) * (a - b)) y p).
Proof. revert p; induction y as [|a y IH]; intros [|b p]; cbn [map2]; constructor; [apply sq_nonneg | apply IH]. Qed.

Theorem mse_nonneg y p : 0 <= mse y p.
Proof.
  unfold mse. pose proof (sumQ_nonneg _ (sq_terms_nonneg y p)) as H. pose proof (inv_count_nonneg (length y)) as C.
  unfold Qcdiv. replace (/ qc_of_nat (length y)) with (1 / qc_of_nat (length y)) by (unfold Qcdiv; ring).
  apply mul_nonneg; assumption.
Qed.

(* the validation error of a grid is zero exactly when the grid reproduces the validation targets: this is the degenerate
   branch of option 3 *)
Theorem mse_zero_iff y p : y <> [] -> length p = length y -> (mse y p = 0 <-> p = y).
Proof.
  intros Hne Hl. split.
  - intro H. unfold mse in H.
    assert (Hc : qc_of_nat (length y) <> 0).
    { destruct y as [|a y']; [contradiction|]. cbn [length]. rewrite qc_of_nat_S. pose proof (qc_of_nat_nonneg (length y')). intro E. qc_order. }
    assert (S0 : sumQ (map2 (fun a b => (a - b) * (a - b)) y p) = 0).
    { assert (E : sumQ (map2 (fun a b => (a - b) * (a - b)) y p)
                  = sumQ (map2 (fun a b => (a - b) * (a - b)) y p) / qc_of_nat (length y) * qc_of_nat (length y)) by (field; exact Hc).
      rewrite E, H. ring. }
    clear H Hc Hne. revert p Hl S0. induction y as [|a y IH]; intros [|b p] Hl S0; try discriminate; [reflexivity|].
    cbn [map2 sumQ] in S0.
    pose proof (sq_nonneg (a - b)) as P1. pose proof (sumQ_nonneg _ (sq_terms_nonneg y p)) as P2.
    assert (Z1 : (a - b) * (a - b) = 0) by (revert S0 P1 P2; generalize ((a - b) * (a - b)) (sumQ (map2 (fun a0 b0 => (a0 - b0) * (a0 - b0)) y p)); intros; qc_order).
    assert (Z2 : sumQ (map2 (fun a0 b0 => (a0 - b0) * (a0 - b0)) y p) = 0) by (revert S0 P1 P2; generalize ((a - b) * (a - b)) (sumQ (map2 (fun a0 b0 => (a0 - b0) * (a0 - b0)) y p)); intros; qc_order).
    f_equal.
    + destruct (Qc_eq_dec (a - b) 0) as [E|E].
      * assert (E2 : b = a - (a - b)) by ring. rewrite E2, E. ring.
      * exfalso. pose proof (sq_pos _ E) as P. rewrite Z1 in P. unfold Qclt in P. apply Qlt_irrefl in P. exact P.
    + apply IH; [simpl in Hl; lia | exact Z2].
  - intro E. subst p. unfold mse.
    assert (S0 : sumQ (map2 (fun a b => (a - b) * (a - b)) y y) = 0).
    { clear. induction y as [|a y IH]; [reflexivity|]. cbn [map2 sumQ]. rewrite IH. ring. }
    rewrite S0. unfold Qcdiv. ring.
Qed.

Theorem opticom3_sum_one preds coefs vy : sumQ coefs = 1 -> sumQ (opticom3 preds coefs vy) = 1.
Proof. intro H. unfold opticom3. apply opticom_finish_sum_one. exact H. Qed.

(* regular case: all validation errors non-zero, raw sum non-zero: coefficient_i = (c_i / e_i) / sum_j (c_j / e_j) *)
Theorem opticom3_regular preds coefs vy :
  existsb (fun e => Qc_eqb e 0) (map (mse vy) preds) = false ->
  sumQ (map2 (fun c e => c / e) coefs (map (mse vy) preds)) <> 0 ->
  opticom3 preds coefs vy = normalise_coefficients (map2 (fun c e => c / e) coefs (map (mse vy) preds)).
Proof.
  intros H1 H2. unfold opticom3, error_per_grid_raw. rewrite H1. exact (proj1 (opticom_finish_normalises _ coefs H2)).
Qed.

(* degenerate case: some grid reproduces the validation targets exactly -> the combination coefficients are kept *)
Theorem opticom3_degenerate preds coefs vy p : vy <> [] -> In p preds -> p = vy -> opticom3 preds coefs vy = coefs.
Proof.
  intros Hne Hin E. unfold opticom3, error_per_grid_raw.
  assert (X : existsb (fun e => Qc_eqb e 0) (map (mse vy) preds) = true).
  { apply existsb_exists. exists (mse vy p). split; [apply in_map; exact Hin|]. apply Qc_eqb_eq. apply mse_zero_iff; [exact Hne | subst; reflexivity | exact E]. }
  rewrite X. reflexivity.
Qed.

(* ------------------------------------------------------------------ option 2: least squares over the validation points *)
(* a certified raw vector minimises the validation error sum_j (sum_i c_i prediction_i(x_j) - y_j)^2 up to the checker's bound;
   the exact statement for exact solutions: *)
Theorem opticom2_exact_minimiser n preds vy raw beta :
  let Mx := opticom2_matrix preds in
  wf_matrix n Mx -> Mx <> [] -> length vy = length Mx -> length raw = n -> length beta = n ->
  matvec (left_matrix Mx 0 false []) raw = right_vector Mx vy ->
  sqnorm (vsub (matvec Mx raw) vy) <= sqnorm (vsub (matvec Mx beta) vy).
Proof.
  intros Mx Hwf Hne Hy Hr Hb NE.
  apply (plain_least_squares_minimise n Mx vy false [] raw beta Hwf Hne Hy Hr Hb); [discriminate | exact NE].
Qed.

(* ------------------------------------------------------------------ option 1 (Garcke): the assembled system *)
(* the right-hand side is the diagonal of the matrix by construction: garcke_vector M = diag_of M 0 (vector[i] = matrix[i][i]) *)
Theorem garcke_matrix_symmetric grids vdata lam : symmetricM (length grids) (garcke_matrix grids vdata lam).
Proof. unfold garcke_matrix. apply sym_matrix_symmetric. Qed.

(* a certified raw vector satisfies the normal equations of lstsq(matrix, vector) up to the checker's bound; exact solutions of
   these normal equations minimise |matrix c - vector|^2; and whatever lstsq returns, the coefficients written back sum to one *)
Theorem opticom1_certified_sound M raw tol : opticom1_certified M raw tol = true ->
  let v := garcke_vector M in
  Forall2 (fun row ri => Qc_abs (dotQ row raw - ri)
                         <= tol * Qc_max (residual_scale (left_matrix M 0 false []) (right_vector M v) raw) (residual_floor M v))
          (left_matrix M 0 false []) (right_vector M v).
Proof. intro H. apply residual_ok_floor_sound. exact H. Qed.

Theorem opticom1_exact_minimiser n M raw beta :
  let v := garcke_vector M in
  wf_matrix n M -> M <> [] -> length v = length M -> length raw = n -> length beta = n ->
  matvec (left_matrix M 0 false []) raw = right_vector M v ->
  sqnorm (vsub (matvec M raw) v) <= sqnorm (vsub (matvec M beta) v).
Proof.
  intros v Hwf Hne Hy Hr Hb NE.
  apply (plain_least_squares_minimise n M v false [] raw beta Hwf Hne Hy Hr Hb); [discriminate | exact NE].
Qed.
