(* C11 — Euler-Maclaurin for polynomials on dyadic grids, purely algebraic over Qc.
   trapD f lo w j = composite trapezoidal rule of f on [lo, lo+w] with 2^j panels (recursive halving), midD = midpoint rule.
   MAIN (trap_even_expansion): for every monomial x^k, every interval, there are coefficients g_1 .. g_n, n <= k/2,
   independent of j, such that for EVERY j
       trapD (x^k) lo w j = int_lo^(lo+w) x^k dx + g_1 h_j^2 + g_2 h_j^4 + ... + g_n h_j^(2n),     h_j = w / 2^j.
   Proof: binomial theorem around the panel mid-points (odd powers cancel by symmetry, the constant term cancels the
   integral) expresses the error through midpoint sums of lower monomials times even powers of h_j; the midpoint rule is
   2 trapD(j+1) - trapD(j); strong induction on k.  No Bernoulli numbers, no analysis. *)
From Coq Require Import ZArith List QArith Qcanon Bool Arith Lia Wf_nat.
From SG Require Import Base.QcUtil Model.Romberg Proofs.RombergBasics Proofs.RombergCoeff Proofs.RombergExact
  Proofs.RombergGrouped Proofs.RombergAnnihilate.
Import ListNotations.
Open Scope Qc_scope.

Local Notation hf := (/ (1 + 1)).
Definition m1 : Qc := - (1).
Definition pw (k : nat) : Qc -> Qc := fun x => x ^ k.

(* ---------------------------------------------------------------------------------------------- *)
(* natural numbers in Qc, binomial coefficients, binomial theorem *)

Lemma qn_add a b : qn (a + b) = qn a + qn b.
Proof. induction a as [|a IH]; [rewrite qn_0; simpl; ring | cbn [plus]; rewrite !qn_S, IH; ring]. Qed.

Lemma qn_nonneg n : 0 <= qn n.
Proof.
  induction n as [|n IH]; [rewrite qn_0; apply Qcle_refl|]. rewrite qn_S.
  apply Qcle_trans with (qn n + 0); [rewrite Qcplus_0_r; exact IH|].
  apply Qcplus_le_compat; [apply Qcle_refl | discriminate].
Qed.

Lemma qn_S_neq0 k : qn (S k) <> 0.
Proof.
  intro H. assert (P : 0 < qn (S k)).
  { rewrite qn_S. apply Qclt_le_trans with (0 + 1); [reflexivity|]. apply Qcplus_le_compat; [apply qn_nonneg | apply Qcle_refl]. }
  rewrite H in P. discriminate P.
Qed.

Fixpoint binom (n k : nat) : nat :=
  match n, k with
  | _, O => 1%nat
  | O, S _ => 0%nat
  | S n', S k' => (binom n' k' + binom n' (S k'))%nat
  end.
Definition qb (n k : nat) : Qc := qn (binom n k).

Lemma binom_gt n : forall k, (n < k)%nat -> binom n k = 0%nat.
Proof.
  induction n as [|n IH]; intros k H; destruct k as [|k]; try lia; [reflexivity|].
  cbn [binom]. rewrite !IH by lia. reflexivity.
Qed.
Lemma binom_n_0 n : binom n 0 = 1%nat.
Proof. destruct n; reflexivity. Qed.
Lemma binom_n_1 n : binom n 1 = n.
Proof. induction n as [|n IH]; [reflexivity|]. cbn [binom]. rewrite binom_n_0, IH. reflexivity. Qed.

Lemma qb_n_0 n : qb n 0 = 1.
Proof. unfold qb. rewrite binom_n_0, qn_S, qn_0. ring. Qed.
Lemma qb_pascal n k : qb (S n) (S k) = qb n k + qb n (S k).
Proof. unfold qb. cbn [binom]. apply qn_add. Qed.
Lemma qb_gt n : qb n (S n) = 0.
Proof. unfold qb. rewrite binom_gt by lia. apply qn_0. Qed.

(* (x + y)^(n+1) = x^(n+1) + sum_{r=0..n} C(n+1,r+1) x^(n-r) y^(r+1);  (x + y)^n = sum_{r=0..n} C(n,r) x^(n-r) y^r *)
Lemma binomial x y n : (x + y) ^ n = sumQ (map (fun r => qb n r * x ^ (n - r) * y ^ r) (seq 0 (S n))).
Proof.
  induction n as [|n IH].
  - cbn. rewrite qb_n_0. ring.
  - change ((x + y) ^ S n) with ((x + y) * (x + y) ^ n). rewrite IH.
    change (seq 0 (S (S n))) with (0%nat :: seq 1 (S n)). rewrite <- seq_shift. cbn [map sumQ]. rewrite map_map.
    rewrite (sumQ_map_ext_in (fun r => qb (S n) (S r) * x ^ (S n - S r) * y ^ S r)
                             (fun r => y * (qb n r * x ^ (n - r) * y ^ r) + qb n (S r) * x ^ (n - r) * y ^ (S r))).
    2:{ intros r _. rewrite qb_pascal. cbn [Nat.sub]. simpl. ring. }
    rewrite sumQ_map_add, sumQ_map_scale.
    (* the x part: extend by the vanishing term r = n+1, split off r = 0, shift *)
    assert (X : x * sumQ (map (fun r => qb n r * x ^ (n - r) * y ^ r) (seq 0 (S n)))
                = qb (S n) 0 * x ^ (S n - 0) * y ^ 0 + sumQ (map (fun r => qb n (S r) * x ^ (n - r) * y ^ S r) (seq 0 (S n)))).
    { rewrite <- sumQ_map_scale.
      rewrite (sumQ_map_ext_in _ (fun r => qb n r * x ^ (S n - r) * y ^ r)).
      2:{ intros r Hr. apply in_seq in Hr. replace (S n - r)%nat with (S (n - r)) by lia. simpl. ring. }
      transitivity (sumQ (map (fun r => qb n r * x ^ (S n - r) * y ^ r) (seq 0 (S (S n))))).
      { rewrite (seq_S (S n) 0), map_app, sumQ_app. cbn [map sumQ plus]. rewrite qb_gt. ring. }
      change (seq 0 (S (S n))) with (0%nat :: seq 1 (S n)). rewrite <- seq_shift. cbn [map sumQ]. rewrite map_map.
      rewrite !qb_n_0. reflexivity. }
    rewrite Qcmult_plus_distr_l, X. ring.
Qed.

Lemma binomial_S x y n :
  (x + y) ^ (S n) = x ^ (S n) + sumQ (map (fun r => qb (S n) (S r) * x ^ (n - r) * y ^ (S r)) (seq 0 (S n))).
Proof.
  rewrite binomial. change (seq 0 (S (S n))) with (0%nat :: seq 1 (S n)). rewrite <- seq_shift. cbn [map sumQ]. rewrite map_map.
  rewrite qb_n_0. cbn [Nat.sub]. simpl (y ^ 0). ring.
Qed.

(* ---------------------------------------------------------------------------------------------- *)
(* one panel [c-d, c+d]: trapezoid minus integral of x^k *)

Definition Ik (k : nat) (u v : Qc) : Qc := (v ^ (S k) - u ^ (S k)) * / qn (S k).

Definition ek (k r : nat) : Qc := (qb k r - qb (S k) (S r) * / qn (S k)) * (1 + m1 ^ r).

Lemma sumQ_lin4 {A} (F1 F2 F3 F4 : A -> Qc) (d q : Qc) l :
  d * (sumQ (map F1 l) + sumQ (map F2 l)) - (sumQ (map F3 l) - sumQ (map F4 l)) * q
  = sumQ (map (fun r => d * (F1 r + F2 r) - (F3 r - F4 r) * q) l).
Proof. induction l as [|x l IH]; cbn [map sumQ]; [ring | rewrite <- IH; ring]. Qed.

Lemma panel_error k c d :
  d * ((c - d) ^ k + (c + d) ^ k) - ((c + d) ^ (S k) - (c - d) ^ (S k)) * / qn (S k)
  = sumQ (map (fun r => ek k r * c ^ (k - r) * d ^ (S r)) (seq 0 (S k))).
Proof.
  replace (c - d) with (c + m1 * d) by (unfold m1; ring).
  rewrite (binomial c d k), (binomial c (m1 * d) k), (binomial_S c d k), (binomial_S c (m1 * d) k).
  transitivity (d * (sumQ (map (fun r => qb k r * c ^ (k - r) * (m1 * d) ^ r) (seq 0 (S k)))
                     + sumQ (map (fun r => qb k r * c ^ (k - r) * d ^ r) (seq 0 (S k))))
                - (sumQ (map (fun r => qb (S k) (S r) * c ^ (k - r) * d ^ S r) (seq 0 (S k)))
                   - sumQ (map (fun r => qb (S k) (S r) * c ^ (k - r) * (m1 * d) ^ S r) (seq 0 (S k)))) * / qn (S k)); [ring|].
  rewrite sumQ_lin4. apply sumQ_map_ext_in. intros r _. unfold ek.
  rewrite !pow_mul_base. simpl (m1 ^ S r). simpl (d ^ S r). unfold m1 at 2. ring.
Qed.

Lemma m1_even r : m1 ^ (2 * r) = 1.
Proof. rewrite <- pow_pow. replace (m1 ^ 2) with (1 : Qc) by (unfold m1; simpl; ring). induction r as [|r IH]; simpl; [reflexivity | rewrite IH; ring]. Qed.

Lemma ek_0 k : ek k 0 = 0.
Proof.
  unfold ek, qb. rewrite binom_n_0, binom_n_1, (qn_S 0), qn_0. simpl (m1 ^ 0).
  assert (N := qn_S_neq0 k). field. exact N.
Qed.
Lemma ek_odd k r : ek k (S (2 * r)) = 0.
Proof. unfold ek. change (m1 ^ S (2 * r)) with (m1 * m1 ^ (2 * r)). rewrite m1_even. unfold m1. ring. Qed.

(* ---------------------------------------------------------------------------------------------- *)
(* dyadic composite rules *)

Fixpoint trapD (f : Qc -> Qc) (lo w : Qc) (j : nat) : Qc :=
  match j with
  | O => w * ((f lo + f (lo + w)) * hf)
  | S j' => trapD f lo (w * hf) j' + trapD f (lo + w * hf) (w * hf) j'
  end.
Fixpoint midD (f : Qc -> Qc) (lo w : Qc) (j : nat) : Qc :=
  match j with
  | O => w * f (lo + w * hf)
  | S j' => midD f lo (w * hf) j' + midD f (lo + w * hf) (w * hf) j'
  end.

Lemma trapD_S f lo w j : trapD f lo w (S j) = trapD f lo (w * hf) j + trapD f (lo + w * hf) (w * hf) j.
Proof. reflexivity. Qed.
Lemma midD_S f lo w j : midD f lo w (S j) = midD f lo (w * hf) j + midD f (lo + w * hf) (w * hf) j.
Proof. reflexivity. Qed.

Lemma half_half (w : Qc) : w * hf + w * hf = w.
Proof. field. exact two_neq0. Qed.
Lemma lo_half_half (lo w : Qc) : lo + w * hf + w * hf = lo + w.
Proof. field. exact two_neq0. Qed.

(* T_(j+1) = (T_j + M_j) / 2 *)
Lemma trapD_mid f : forall j lo w, trapD f lo w (S j) = (trapD f lo w j + midD f lo w j) * hf.
Proof.
  induction j as [|j IH]; intros lo w.
  - cbn [trapD midD]. rewrite lo_half_half. field. exact two_neq0.
  - rewrite (trapD_S f lo w (S j)), (IH lo (w * hf)), (IH (lo + w * hf) (w * hf)), (trapD_S f lo w j), (midD_S f lo w j). ring.
Qed.

Lemma midD_as_trap f j lo w : midD f lo w j = (1 + 1) * trapD f lo w (S j) - trapD f lo w j.
Proof. rewrite trapD_mid. field. exact two_neq0. Qed.

Lemma Ik_split k u v z : Ik k u z = Ik k u v + Ik k v z.
Proof. unfold Ik. ring. Qed.

(* half the panel width on level j *)
Definition dj (w : Qc) (j : nat) : Qc := w * hf ^ (S j).

Lemma dj_S w j : dj w (S j) = dj (w * hf) j.
Proof. unfold dj. simpl. ring. Qed.

(* the error of the composite rule through midpoint sums of lower monomials *)
Lemma trapD_error k : forall j lo w,
  trapD (pw k) lo w j - Ik k lo (lo + w)
  = sumQ (map (fun r => ek k r * dj w j ^ r * (hf * midD (pw (k - r)) lo w j)) (seq 0 (S k))).
Proof.
  induction j as [|j IH]; intros lo w.
  - cbn [trapD midD]. unfold pw, dj, Ik.
    assert (P := panel_error k (lo + w * hf) (w * hf)).
    replace (lo + w * hf - w * hf) with lo in P by ring. rewrite lo_half_half in P.
    transitivity (w * hf * (lo ^ k + (lo + w) ^ k) - ((lo + w) ^ S k - lo ^ S k) * / qn (S k)); [ring|].
    rewrite P. apply sumQ_map_ext_in. intros r _.
    replace (w * hf ^ 1) with (w * hf) by (simpl; ring). simpl ((w * hf) ^ S r). ring.
  - rewrite trapD_S, (Ik_split k lo (lo + w * hf) (lo + w)).
    rewrite <- (lo_half_half lo w).
    transitivity ((trapD (pw k) lo (w * hf) j - Ik k lo (lo + w * hf))
                  + (trapD (pw k) (lo + w * hf) (w * hf) j - Ik k (lo + w * hf) (lo + w * hf + w * hf))); [ring|].
    rewrite !IH, <- sumQ_map_add. apply sumQ_map_ext_in. intros r _. rewrite dj_S, midD_S. ring.
Qed.

(* ---------------------------------------------------------------------------------------------- *)
(* polynomials in t (coefficient lists, pev from RombergAnnihilate) *)

Fixpoint padd (p q : list Qc) : list Qc :=
  match p, q with
  | [], _ => q
  | _, [] => p
  | a :: p', b :: q' => (a + b) :: padd p' q'
  end.
Definition pscale (c : Qc) (p : list Qc) : list Qc := map (fun a => c * a) p.
Fixpoint pdil (c : Qc) (p : list Qc) : list Qc := match p with [] => [] | a :: p' => a :: pscale c (pdil c p') end.
Fixpoint pshift (n : nat) (p : list Qc) : list Qc := match n with O => p | S n' => 0 :: pshift n' p end.

Lemma pev_padd p q x : pev (padd p q) x = pev p x + pev q x.
Proof.
  revert q. induction p as [|a p IH]; intro q; [simpl; ring|].
  destruct q as [|b q]; [simpl; ring|]. cbn [padd pev]. rewrite IH. ring.
Qed.
Lemma padd_length p q : length (padd p q) = Nat.max (length p) (length q).
Proof.
  revert q. induction p as [|a p IH]; intro q; [reflexivity|].
  destruct q as [|b q]; [reflexivity|]. cbn [padd length]. rewrite IH. reflexivity.
Qed.
Lemma pev_pscale c p x : pev (pscale c p) x = c * pev p x.
Proof. induction p as [|a p IH]; [simpl; ring|]. cbn [pscale map pev]. fold (pscale c p). rewrite IH. ring. Qed.
Lemma pscale_length c p : length (pscale c p) = length p.
Proof. apply map_length. Qed.
Lemma pev_pdil c p x : pev (pdil c p) x = pev p (c * x).
Proof. induction p as [|a p IH]; [reflexivity|]. cbn [pdil pev]. rewrite pev_pscale, IH. ring. Qed.
Lemma pdil_length c p : length (pdil c p) = length p.
Proof. induction p as [|a p IH]; [reflexivity|]. cbn [pdil length]. rewrite pscale_length, IH. reflexivity. Qed.
Lemma pev_pshift n p x : pev (pshift n p) x = x ^ n * pev p x.
Proof. induction n as [|n IH]; [simpl; ring|]. cbn [pshift pev]. rewrite IH. simpl. ring. Qed.
Lemma pshift_length n p : length (pshift n p) = (n + length p)%nat.
Proof. induction n as [|n IH]; [reflexivity|]. cbn [pshift length]. rewrite IH. reflexivity. Qed.

(* ---------------------------------------------------------------------------------------------- *)
(* functions of the level j that are t_j * p(t_j) for a polynomial p with at most N coefficients, t_j = (w/2^j)^2 *)

Definition tj (w : Qc) (j : nat) : Qc := (w * hf ^ j) ^ 2.

Definition EF (w : Qc) (F : nat -> Qc) (N : nat) : Prop :=
  exists g, (length g <= N)%nat /\ forall j, F j = tj w j * pev g (tj w j).

Lemma EF_zero w N : EF w (fun _ => 0) N.
Proof. exists []. split; [simpl; lia | intro j; simpl; ring]. Qed.

Lemma EF_add w F G N : EF w F N -> EF w G N -> EF w (fun j => F j + G j) N.
Proof.
  intros [p [Lp Hp]] [q [Lq Hq]]. exists (padd p q). split; [rewrite padd_length; lia|].
  intro j. rewrite pev_padd, Hp, Hq. ring.
Qed.

Lemma EF_ext w F G N : (forall j, F j = G j) -> EF w G N -> EF w F N.
Proof. intros E [p [Lp Hp]]. exists p. split; [exact Lp | intro j; rewrite E; apply Hp]. Qed.

Lemma EF_sum w {A} (F : A -> nat -> Qc) N l :
  (forall r, In r l -> EF w (F r) N) -> EF w (fun j => sumQ (map (fun r => F r j) l)) N.
Proof.
  induction l as [|r l IH]; intro H; cbn [map sumQ]; [apply EF_zero|].
  apply EF_add; [apply H; left; reflexivity | apply IH; intros r' I; apply H; right; exact I].
Qed.

Lemma tj_S w j : tj w (S j) = hf * hf * tj w j.
Proof. unfold tj. simpl. ring. Qed.

Lemma dj_sq w j : dj w j ^ 2 = hf * hf * tj w j.
Proof. unfold dj, tj. simpl. ring. Qed.

Lemma div2_sub_even k r : (2 * r <= k)%nat -> (r + Nat.div2 (k - 2 * r) = Nat.div2 k)%nat.
Proof.
  intro H. assert (A := Nat.div2_odd k). assert (B := Nat.div2_odd (k - 2 * r)).
  assert (O : Nat.odd (k - 2 * r) = Nat.odd k).
  { replace k with (k - 2 * r + 2 * r)%nat at 2 by lia. rewrite Nat.odd_add_mul_2. reflexivity. }
  rewrite O in B. destruct (Nat.odd k); simpl Nat.b2n in *; lia.
Qed.

(* MAIN: the error of the dyadic trapezoidal rule for x^k is an even polynomial in h_j without constant term, of degree
   at most 2*(k/2), with coefficients that do not depend on the level j *)
Theorem trap_even_expansion : forall k lo w,
  EF w (fun j => trapD (pw k) lo w j - Ik k lo (lo + w)) (Nat.div2 k).
Proof.
  induction k as [k IHk] using lt_wf_ind. intros lo w.
  apply (EF_ext w _ _ _ (fun j => trapD_error k j lo w)).
  apply EF_sum. intros r Hr. apply in_seq in Hr.
  destruct r as [|r].
  { apply (EF_ext w _ (fun _ => 0)); [intro j; rewrite ek_0; ring | apply EF_zero]. }
  destruct (Nat.Even_or_Odd (S r)) as [[r' E]|[r' E]].
  2:{ assert (E' : S r = S (2 * r')) by lia. rewrite E'.
      apply (EF_ext w _ (fun _ => 0)); [intro j; rewrite ek_odd; ring | apply EF_zero]. }
  rewrite E. assert (Hr' : (1 <= r')%nat) by lia. assert (Hk : (2 * r' <= k)%nat) by lia.
  destruct (IHk (k - 2 * r')%nat ltac:(lia) lo w) as [b [Lb Hb]].
  set (I0 := Ik (k - 2 * r') lo (lo + w)) in *.
  (* midpoint sums: I0 + t * b'(t) *)
  set (b' := padd (pscale ((1 + 1) * (hf * hf)) (pdil (hf * hf) b)) (pscale m1 b)).
  assert (Hm : forall j, midD (pw (k - 2 * r')) lo w j = I0 + tj w j * pev b' (tj w j)).
  { intro j. rewrite midD_as_trap.
    assert (H1 := Hb (S j)). assert (H0 := Hb j). rewrite tj_S in H1.
    unfold b'. rewrite pev_padd, !pev_pscale, pev_pdil. unfold m1.
    transitivity ((1 + 1) * ((trapD (pw (k - 2 * r')) lo w (S j) - I0) + I0) - ((trapD (pw (k - 2 * r')) lo w j - I0) + I0)); [ring|].
    rewrite H1, H0. ring. }
  assert (Lb' : length b' = length b).
  { unfold b'. rewrite padd_length, !pscale_length, pdil_length. lia. }
  exists (pscale (ek k (2 * r') * (hf * hf) ^ r' * hf) (pshift (r' - 1) (I0 :: b'))). split.
  - rewrite pscale_length, pshift_length. cbn [length]. rewrite Lb'.
    assert (D := div2_sub_even k r' Hk). lia.
  - intro j. rewrite pev_pscale, pev_pshift, Hm. cbn [pev].
    rewrite <- pow_pow, dj_sq, pow_mul_base.
    assert (P : forall x : Qc, x ^ r' = x * x ^ (r' - 1)).
    { intro x. replace r' with (S (r' - 1)) at 1 by lia. reflexivity. }
    rewrite (P (tj w j)). ring.
Qed.

(* the same as an equation *)
Corollary trap_even_expansion_eq k lo w :
  exists g, (length g <= Nat.div2 k)%nat /\
            forall j, trapD (pw k) lo w j = Ik k lo (lo + w) + tj w j * pev g (tj w j).
Proof.
  destruct (trap_even_expansion k lo w) as [g [L H]]. exists g. split; [exact L|].
  intro j. rewrite <- H. ring.
Qed.
