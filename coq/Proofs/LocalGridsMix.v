(* C08: the tensor grid whose dimensions carry their OWN family (trapezoidal / modified / Simpson) and their OWN
   boundary flag (Grid.set_boundaries toggles flags per dimension; MixedGrid combines 1D families).
   Count, inside, exactness and weight sum for every dimension, every level vector, every sub-box and every
   combination of per-dimension flags/families. *)
From Coq Require Import ZArith List QArith Qcanon Bool Arith Lia.
From SG Require Import Base.QcUtil Model.Tensor Model.LocalGrids Model.LocalRules Proofs.TensorRule Proofs.LocalGridsBase
  Proofs.LocalGridsTrap Proofs.LocalGridsSimpson Proofs.LocalGridsMain.
Import ListNotations.
Open Scope Qc_scope.

Definition ds_ok (d : dimspec) : Prop := let '(f, b, x) := d in dim_exact_ok f b x.
Definition ds_fam_ok (d : dimspec) : Prop := let '(f, b, x) := d in f <> FSimpsonAsIs.
Definition ds_degree (d : dimspec) : nat := let '(f, b, x) := d in eq_degree f x.

Theorem gridm_count ds : Forall ds_fam_ok ds ->
  length (gridm_points ds) = prodN (gridm_num_points ds) /\ length (gridm_weights ds) = prodN (gridm_num_points ds).
Proof.
  intro H. unfold gridm_points, gridm_weights, tensor_weights, gridm_coords, gridm_weights1, gridm_num_points.
  rewrite map_length, !cross_length, !map_map.
  split; f_equal; apply map_ext_in; intros [[f b] x] Hin; rewrite Forall_forall in H; specialize (H _ Hin);
    cbn [ds_points ds_weights ds_np]; apply (eq_count f b x H).
Qed.

Theorem gridm_inside ds : Forall (fun d => d_s (ds_dim d) <= d_e (ds_dim d)) ds ->
  forall p, In p (gridm_points ds) -> Forall2 (fun c d => d_s (ds_dim d) <= c /\ c <= d_e (ds_dim d)) p ds.
Proof.
  intros Hxs p Hp. unfold gridm_points, gridm_coords in Hp. apply cross_in in Hp.
  revert p Hp. induction Hxs as [|[[f b] x] xs Hx Hxs IH]; intros p Hp; inversion Hp; subst; constructor.
  - pose proof (eq_inside b x Hx) as F. rewrite Forall_forall in F. apply F. assumption.
  - apply IH. assumption.
Qed.

Definition rule_of_ds (d : dimspec) : rule1 := let '(f, b, x) := d in rule_of f b x.

Definition box_moment_ds (ds : list dimspec) (exps : list nat) : Qc := box_moment (map ds_dim ds) exps.

Lemma box_moment_rule_ds ds exps : box_moment_r (map rule_of_ds ds) exps = box_moment_ds ds exps.
Proof.
  unfold box_moment_r, box_moment_ds, box_moment. f_equal. revert exps.
  induction ds as [|[[f b] x] ds IH]; intros [|k exps]; cbn [map combine]; try reflexivity.
  rewrite IH. reflexivity.
Qed.

(* every mix of per-dimension families and flags: the tensor rule integrates every monomial below the per-dimension
   degrees exactly *)
Theorem gridm_exact ds exps : Forall ds_ok ds -> Forall2 (fun d k => (k <= ds_degree d)%nat) ds exps ->
  gridm_integrate_monomial ds exps = box_moment_ds ds exps.
Proof.
  intros Hok Hk. unfold gridm_integrate_monomial, gridm_coords, gridm_weights1.
  rewrite <- (box_moment_rule_ds ds exps).
  replace (map ds_points ds) with (map r_c (map rule_of_ds ds))
    by (rewrite map_map; apply map_ext; intros [[f b] x]; reflexivity).
  replace (map ds_weights ds) with (map r_w (map rule_of_ds ds))
    by (rewrite map_map; apply map_ext; intros [[f b] x]; reflexivity).
  apply tensor_exact.
  - apply Forall_map. eapply Forall_impl; [|exact Hok]. intros [[f b] x] Hx. apply (dim_exact f b x Hx).
  - clear Hok. induction Hk as [|[[f b] x] k ds exps Hle Hk IH]; cbn [map]; constructor; assumption.
Qed.

Theorem gridm_weights_sum ds : Forall ds_ok ds -> sumQ (gridm_weights ds) = box_volume (map ds_dim ds).
Proof.
  intro Hok.
  pose proof (gridm_exact ds (map (fun _ => 0%nat) ds) Hok) as P.
  assert (Hk : Forall2 (fun d k => (k <= ds_degree d)%nat) ds (map (fun _ => 0%nat) ds)).
  { clear. induction ds; cbn [map]; constructor; [lia | assumption]. }
  specialize (P Hk). unfold gridm_integrate_monomial, integrate_rule in P.
  assert (Hl : length (cross (gridm_coords ds)) = length (tensor_weights (gridm_weights1 ds))).
  { unfold tensor_weights. rewrite map_length. apply cross_length_eq. unfold gridm_coords, gridm_weights1.
    clear P Hk. induction Hok as [|[[f b] x] xs Hx Hok IH]; cbn [map]; constructor; [apply (dim_exact f b x Hx) | assumption]. }
  unfold gridm_weights. rewrite <- (dotQ_ones (cross (gridm_coords ds))) by exact Hl.
  rewrite (map_ext_in (fun _ => 1) (prodf (map mono (map (fun _ => 0%nat) ds)))).
  - rewrite P. unfold box_moment_ds, box_moment, box_volume. f_equal. clear.
    induction ds as [|d ds IH]; cbn [map combine]; [reflexivity|].
    rewrite IH. f_equal. cbn [fst snd]. unfold mint. cbn [Qcpower]. rewrite qn_1. field. discriminate.
  - intros p Hp. symmetry. apply prodf_mono0'. apply cross_point_length in Hp. unfold gridm_coords in Hp.
    rewrite map_length in Hp. exact Hp.
Qed.

(* a uniform flag/family is the special case of Model/LocalGrids.v *)
Lemma gridm_uniform f bnd xs exps :
  gridm_integrate_monomial (map (fun x => (f, bnd, x)) xs) exps = grid_integrate_monomial f bnd xs exps /\
  gridm_points (map (fun x => (f, bnd, x)) xs) = grid_points bnd xs /\
  gridm_weights (map (fun x => (f, bnd, x)) xs) = grid_weights f bnd xs.
Proof.
  unfold gridm_integrate_monomial, grid_integrate_monomial, gridm_points, grid_points, gridm_weights, grid_weights,
    gridm_coords, grid_coords, gridm_weights1, grid_weights1. rewrite !map_map. cbn [ds_points ds_weights].
  repeat split; reflexivity.
Qed.
