(* Box geometry for the extend-split model: closed boxes, open interiors, partitions of a box into parts
   (`Parts`), the two split operations produce partitions, partitions compose and can be refined in place. *)
From Coq Require Import ZArith List Bool QArith Qcanon Lia Lqa.
From SG Require Import Base.QcUtil Model.CombiScheme Model.ExtendSplit.
Import ListNotations.
Open Scope Qc_scope.

(* ---------------------------------------------------------------- predicates *)

Fixpoint inbox (p s e : list Qc) : Prop :=
  match p, s, e with
  | [], [], [] => True
  | x :: p', a :: s', b :: e' => (a <= x /\ x <= b) /\ inbox p' s' e'
  | _, _, _ => False
  end.

Fixpoint inint (p s e : list Qc) : Prop :=
  match p, s, e with
  | [], [], [] => True
  | x :: p', a :: s', b :: e' => (a < x /\ x < b) /\ inint p' s' e'
  | _, _, _ => False
  end.

(* non-degenerate box *)
Fixpoint wfbox (s e : list Qc) : Prop :=
  match s, e with
  | [], [] => True
  | a :: s', b :: e' => a < b /\ wfbox s' e'
  | _, _ => False
  end.

Definition In_box (p : point) (b : box) : Prop := inbox p (fst b) (snd b).
Definition In_int (p : point) (b : box) : Prop := inint p (fst b) (snd b).
Definition Wf (d : nat) (b : box) : Prop := wfbox (fst b) (snd b) /\ length (fst b) = d.

(* interiors are disjoint *)
Definition disj (b1 b2 : box) : Prop := forall p, ~ (In_int p b1 /\ In_int p b2).

Fixpoint pairwise {A} (R : A -> A -> Prop) (l : list A) : Prop :=
  match l with
  | [] => True
  | x :: r => Forall (R x) r /\ pairwise R r
  end.

(* P is a partition of the box b into non-degenerate boxes of dimension d:
   every part lies in b, the parts cover b, their interiors are pairwise disjoint *)
Record Parts (d : nat) (b : box) (P : list box) : Prop := mkParts {
  pt_wf : Forall (Wf d) P;
  pt_sub : forall q p, In q P -> In_box p q -> In_box p b;
  pt_subi : forall q p, In q P -> In_int p q -> In_int p b;
  pt_cover : forall p, In_box p b -> exists q, In q P /\ In_box p q;
  pt_disj : pairwise disj P
}.

(* ---------------------------------------------------------------- basic facts *)

Lemma disj_sym a b : disj a b -> disj b a.
Proof. intros H p [H1 H2]. apply (H p). split; assumption. Qed.

Lemma pairwise_app {A} (R : A -> A -> Prop) l1 l2 :
  pairwise R (l1 ++ l2) <-> pairwise R l1 /\ pairwise R l2 /\ (forall a b, In a l1 -> In b l2 -> R a b).
Proof.
  induction l1 as [|x l1 IH]; simpl.
  - split; [intro H; split; [exact I | split; [exact H | intros a b []]] | intros [_ [H _]]; exact H].
  - rewrite Forall_app, IH. split.
    + intros [[F1 F2] [P1 [P2 C]]]. split; [split; assumption|]. split; [assumption|].
      intros a b [Ha | Ha] Hb; [subst a; rewrite Forall_forall in F2; apply F2; assumption | apply C; assumption].
    + intros [[F1 P1] [P2 C]]. split; [split; [assumption|] | split; [assumption | split; [assumption|]]].
      * apply Forall_forall. intros b Hb. apply C; [left; reflexivity | assumption].
      * intros a b Ha Hb. apply C; [right; assumption | assumption].
Qed.

Lemma pairwise_In {A} (R : A -> A -> Prop) l : (forall a b, R a b -> R b a) ->
  pairwise R l -> forall l1 x l2 y l3, l = l1 ++ x :: l2 ++ y :: l3 -> R x y.
Proof.
  intros _ H l1 x l2 y l3 E. subst l. apply pairwise_app in H. destruct H as [_ [H _]].
  simpl in H. destruct H as [F _]. rewrite Forall_forall in F. apply F. apply in_or_app. right. left. reflexivity.
Qed.

Lemma inbox_length p s e : inbox p s e -> length p = length s /\ length s = length e.
Proof.
  revert s e. induction p as [|x p IH]; intros [|a s] [|b e] H; simpl in H; try contradiction; [split; reflexivity|].
  destruct H as [_ H]. destruct (IH _ _ H) as [E1 E2]. simpl. split; congruence.
Qed.

Lemma inint_inbox p s e : inint p s e -> inbox p s e.
Proof.
  revert s e. induction p as [|x p IH]; intros [|a s] [|b e] H; simpl in *; try contradiction; [exact I|].
  destruct H as [[H1 H2] H]. split; [split; apply Qclt_le_weak; assumption | apply IH; assumption].
Qed.

Lemma wfbox_length s e : wfbox s e -> length s = length e.
Proof.
  revert e. induction s as [|a s IH]; intros [|b e] H; simpl in H; try contradiction; [reflexivity|].
  destruct H as [_ H]. simpl. f_equal. apply IH. assumption.
Qed.

(* monotonicity in the bounds *)
Lemma inbox_mono p s1 e1 s2 e2 :
  Forall2 Qcle s2 s1 -> Forall2 Qcle e1 e2 -> inbox p s1 e1 -> inbox p s2 e2.
Proof.
  revert s1 e1 s2 e2. induction p as [|x p IH]; intros s1 e1 s2 e2 Hs He H.
  - destruct s1, e1; simpl in H; try contradiction. inversion Hs; inversion He; subst. exact I.
  - destruct s1 as [|a1 s1], e1 as [|b1 e1]; simpl in H; try contradiction.
    inversion Hs as [|a2 ? s2' ? La Hs']; inversion He as [|? b2 ? e2' Lb He']; subst.
    destruct H as [[H1 H2] H]. simpl. split; [split|].
    + eapply Qcle_trans; eassumption.
    + eapply Qcle_trans; eassumption.
    + eapply IH; eassumption.
Qed.

Lemma inint_mono p s1 e1 s2 e2 :
  Forall2 Qcle s2 s1 -> Forall2 Qcle e1 e2 -> inint p s1 e1 -> inint p s2 e2.
Proof.
  revert s1 e1 s2 e2. induction p as [|x p IH]; intros s1 e1 s2 e2 Hs He H.
  - destruct s1, e1; simpl in H; try contradiction. inversion Hs; inversion He; subst. exact I.
  - destruct s1 as [|a1 s1], e1 as [|b1 e1]; simpl in H; try contradiction.
    inversion Hs as [|a2 ? s2' ? La Hs']; inversion He as [|? b2 ? e2' Lb He']; subst.
    destruct H as [[H1 H2] H]. simpl. split; [split|].
    + eapply Qcle_lt_trans; eassumption.
    + eapply Qclt_le_trans; eassumption.
    + eapply IH; eassumption.
Qed.

Lemma Forall2_le_refl (l : list Qc) : Forall2 Qcle l l.
Proof. induction l; constructor; [apply Qcle_refl | assumption]. Qed.

Lemma set_nth_length d v l : length (set_nth d v l) = length l.
Proof. revert d. induction l as [|x l IH]; intros [|d]; simpl; try reflexivity. rewrite IH. reflexivity. Qed.

Lemma set_nth_le_upper d m (e : list Qc) : m <= nth d e 0 -> Forall2 Qcle (set_nth d m e) e.
Proof.
  revert d. induction e as [|b e IH]; intros [|d] H; simpl in *; try constructor; try assumption;
    try apply Forall2_le_refl; try apply Qcle_refl. apply IH. assumption.
Qed.

Lemma set_nth_le_lower d m (s : list Qc) : nth d s 0 <= m -> Forall2 Qcle s (set_nth d m s).
Proof.
  revert d. induction s as [|a s IH]; intros [|d] H; simpl in *; try constructor; try assumption;
    try apply Forall2_le_refl; try apply Qcle_refl. apply IH. assumption.
Qed.

Lemma wfbox_nth s e d : wfbox s e -> (d < length s)%nat -> nth d s 0 < nth d e 0.
Proof.
  revert e d. induction s as [|a s IH]; intros [|b e] d W L; simpl in *; try contradiction; try lia.
  destruct W as [W1 W]. destruct d as [|d]; [assumption | apply IH; [assumption | lia]].
Qed.

Lemma wfbox_set_upper s e d m : wfbox s e -> nth d s 0 < m -> wfbox s (set_nth d m e).
Proof.
  revert e d. induction s as [|a s IH]; intros [|b e] [|d] W L; simpl in *; try contradiction; try exact I.
  - destruct W as [W1 W]. split; assumption.
  - destruct W as [W1 W]. split; [assumption | apply IH; assumption].
Qed.

Lemma wfbox_set_lower s e d m : wfbox s e -> m < nth d e 0 -> wfbox (set_nth d m s) e.
Proof.
  revert e d. induction s as [|a s IH]; intros [|b e] [|d] W L; simpl in *; try contradiction; try exact I.
  - destruct W as [W1 W]. split; assumption.
  - destruct W as [W1 W]. split; [assumption | apply IH; assumption].
Qed.

Lemma inbox_split_cover p s e d m : inbox p s e -> (d < length s)%nat ->
  (nth d p 0 <= m -> inbox p s (set_nth d m e)) /\ (m <= nth d p 0 -> inbox p (set_nth d m s) e).
Proof.
  revert s e d. induction p as [|x p IH]; intros [|a s] [|b e] d H L; simpl in *; try contradiction; try lia.
  destruct H as [[H1 H2] H]. destruct d as [|d]; simpl.
  - split; intro K; (split; [split; assumption | assumption]).
  - destruct (IH s e d H ltac:(lia)) as [K1 K2].
    split; intro K; (split; [split; assumption | auto]).
Qed.

Lemma inint_upper_cut p s e d m : inint p s (set_nth d m e) -> (d < length e)%nat -> nth d p 0 < m.
Proof.
  revert s e d. induction p as [|x p IH]; intros [|a s] [|b e] d H L; simpl in *; try contradiction; try lia;
    try (destruct d; simpl in H; contradiction).
  destruct d as [|d]; simpl in H; destruct H as [[H1 H2] H]; [assumption|].
  eapply IH; [eassumption | lia].
Qed.

Lemma inint_lower_cut p s e d m : inint p (set_nth d m s) e -> (d < length s)%nat -> m < nth d p 0.
Proof.
  revert s e d. induction p as [|x p IH]; intros [|a s] [|b e] d H L; simpl in *; try contradiction; try lia;
    try (destruct d; simpl in H; contradiction).
  destruct d as [|d]; simpl in H; destruct H as [[H1 H2] H]; [assumption|].
  eapply IH; [eassumption | lia].
Qed.

Lemma half_between (a b : Qc) : a < b -> a < qc_half (a + b) /\ qc_half (a + b) < b.
Proof. intro H. split; qc_order. Qed.

(* ---------------------------------------------------------------- the trivial partition and halving *)

Lemma parts_self d b : Wf d b -> Parts d b [b].
Proof.
  intro W. constructor.
  - constructor; [assumption | constructor].
  - intros q p [E | []] H. subst. assumption.
  - intros q p [E | []] H. subst. assumption.
  - intros p H. exists b. split; [left; reflexivity | assumption].
  - simpl. split; [constructor | exact I].
Qed.

Lemma parts_halves d k b : Wf d b -> (k < d)%nat -> Parts d b (halves k b).
Proof.
  intros [W L] K. destruct b as [s e]. simpl in W, L. unfold halves. cbn [fst snd].
  set (m := midpoint s e k).
  assert (Lt := wfbox_nth _ _ k W ltac:(lia)).
  destruct (half_between _ _ Lt) as [M1 M2]. fold (midpoint s e k) in M1, M2. fold m in M1, M2.
  assert (Le : length e = d) by (rewrite <- (wfbox_length _ _ W); assumption).
  constructor.
  - constructor; [|constructor; [|constructor]]; split; cbn [fst snd].
    + apply wfbox_set_upper; assumption.
    + assumption.
    + apply wfbox_set_lower; assumption.
    + rewrite set_nth_length. assumption.
  - intros q p [E | [E | []]] H; subst q; unfold In_box in *; cbn [fst snd] in *.
    + eapply inbox_mono; [apply Forall2_le_refl | apply set_nth_le_upper | eassumption]. apply Qclt_le_weak. assumption.
    + eapply inbox_mono; [apply set_nth_le_lower | apply Forall2_le_refl | eassumption]. apply Qclt_le_weak. assumption.
  - intros q p [E | [E | []]] H; subst q; unfold In_int in *; cbn [fst snd] in *.
    + eapply inint_mono; [apply Forall2_le_refl | apply set_nth_le_upper | eassumption]. apply Qclt_le_weak. assumption.
    + eapply inint_mono; [apply set_nth_le_lower | apply Forall2_le_refl | eassumption]. apply Qclt_le_weak. assumption.
  - intros p H. unfold In_box in H. cbn [fst snd] in H.
    destruct (inbox_split_cover p s e k m H ltac:(lia)) as [C1 C2].
    destruct (Qclt_le_dec m (nth k p 0)) as [G | G].
    + exists (set_nth k m s, e). split; [right; left; reflexivity | apply C2; apply Qclt_le_weak; assumption].
    + exists (s, set_nth k m e). split; [left; reflexivity | apply C1; assumption].
  - simpl. split; [|split; [constructor | exact I]]. constructor; [|constructor].
    intros p [H1 H2]. unfold In_int in *. cbn [fst snd] in *.
    apply inint_upper_cut in H1; [|lia]. apply inint_lower_cut in H2; [|lia].
    apply (Qclt_not_le _ _ H1). apply Qclt_le_weak. assumption.
Qed.

(* ---------------------------------------------------------------- composition *)

Lemma parts_disj_lift d b1 b2 P1 P2 : Parts d b1 P1 -> Parts d b2 P2 -> disj b1 b2 ->
  forall q1 q2, In q1 P1 -> In q2 P2 -> disj q1 q2.
Proof.
  intros H1 H2 D q1 q2 I1 I2 p [A B]. apply (D p). split; [eapply pt_subi; eassumption | eapply pt_subi; eassumption].
Qed.

Lemma parts_flat_map d b P f : Parts d b P -> (forall q, In q P -> Parts d q (f q)) -> Parts d b (flat_map f P).
Proof.
  intros HP Hf. constructor.
  - apply Forall_forall. intros r Hr. apply in_flat_map in Hr. destruct Hr as [q [Hq Hr]].
    pose proof (pt_wf _ _ _ (Hf q Hq)) as W. rewrite Forall_forall in W. apply W. assumption.
  - intros r p Hr H. apply in_flat_map in Hr. destruct Hr as [q [Hq Hr]].
    eapply pt_sub; [exact HP | exact Hq |]. eapply pt_sub; [exact (Hf q Hq) | exact Hr | exact H].
  - intros r p Hr H. apply in_flat_map in Hr. destruct Hr as [q [Hq Hr]].
    eapply pt_subi; [exact HP | exact Hq |]. eapply pt_subi; [exact (Hf q Hq) | exact Hr | exact H].
  - intros p H. destruct (pt_cover _ _ _ HP p H) as [q [Hq Hpq]].
    destruct (pt_cover _ _ _ (Hf q Hq) p Hpq) as [r [Hr Hpr]].
    exists r. split; [apply in_flat_map; exists q; split; assumption | assumption].
  - pose proof (pt_disj _ _ _ HP) as D. clear HP.
    induction P as [|q P IH]; simpl; [exact I|].
    simpl in D. destruct D as [Dq DP].
    apply pairwise_app. split; [apply (pt_disj _ _ _ (Hf q (or_introl eq_refl)))|]. split.
    + apply IH; [intros q' Hq'; apply Hf; right; assumption | assumption].
    + intros r1 r2 H1 H2. apply in_flat_map in H2. destruct H2 as [q2 [Hq2 H2]].
      rewrite Forall_forall in Dq.
      eapply parts_disj_lift; [apply (Hf q); left; reflexivity | apply (Hf q2); right; assumption | apply Dq; assumption
                              | assumption | assumption].
Qed.

(* refinement in place: one part is replaced by a partition of it (new parts appended at the end,
   as RefinementContainer does) *)
Lemma parts_replace d b B1 x B2 P : Parts d b (B1 ++ x :: B2) -> Parts d x P -> Parts d b (B1 ++ B2 ++ P).
Proof.
  intros HB HP. constructor.
  - pose proof (pt_wf _ _ _ HB) as W. rewrite Forall_app in W. destruct W as [W1 W2]. inversion W2; subst.
    rewrite !Forall_app. split; [assumption | split; [assumption | apply (pt_wf _ _ _ HP)]].
  - intros q p Hq H. apply in_app_or in Hq. destruct Hq as [Hq | Hq].
    + eapply pt_sub; [exact HB | apply in_or_app; left; exact Hq | exact H].
    + apply in_app_or in Hq. destruct Hq as [Hq | Hq].
      * eapply pt_sub; [exact HB | apply in_or_app; right; right; exact Hq | exact H].
      * eapply pt_sub; [exact HB | apply in_or_app; right; left; reflexivity |].
        eapply pt_sub; [exact HP | exact Hq | exact H].
  - intros q p Hq H. apply in_app_or in Hq. destruct Hq as [Hq | Hq].
    + eapply pt_subi; [exact HB | apply in_or_app; left; exact Hq | exact H].
    + apply in_app_or in Hq. destruct Hq as [Hq | Hq].
      * eapply pt_subi; [exact HB | apply in_or_app; right; right; exact Hq | exact H].
      * eapply pt_subi; [exact HB | apply in_or_app; right; left; reflexivity |].
        eapply pt_subi; [exact HP | exact Hq | exact H].
  - intros p H. destruct (pt_cover _ _ _ HB p H) as [q [Hq Hpq]].
    apply in_app_or in Hq. destruct Hq as [Hq | [Hq | Hq]].
    + exists q. split; [apply in_or_app; left; assumption | assumption].
    + subst q. destruct (pt_cover _ _ _ HP p Hpq) as [r [Hr Hpr]].
      exists r. split; [apply in_or_app; right; apply in_or_app; right; assumption | assumption].
    + exists q. split; [apply in_or_app; right; apply in_or_app; left; assumption | assumption].
  - pose proof (pt_disj _ _ _ HB) as D. apply pairwise_app in D. destruct D as [D1 [D2 D12]].
    simpl in D2. destruct D2 as [Dx D2]. rewrite Forall_forall in Dx.
    apply pairwise_app. split; [assumption|]. split.
    + apply pairwise_app. split; [assumption|]. split; [apply (pt_disj _ _ _ HP)|].
      intros q r Hq Hr p [A B]. apply (Dx q Hq p). split; [eapply pt_subi; eassumption | assumption].
    + intros q r Hq Hr. apply in_app_or in Hr. destruct Hr as [Hr | Hr].
      * apply D12; [assumption | right; assumption].
      * intros p [A B]. apply (D12 q x Hq (or_introl eq_refl) p). split; [assumption | eapply pt_subi; eassumption].
Qed.

(* ---------------------------------------------------------------- split into 2^d boxes *)

Lemma parts_split_all s e : wfbox s e -> Parts (length s) (s, e) (split_all s e).
Proof.
  revert e. induction s as [|a s IH]; intros [|b e] W; simpl in W; try contradiction.
  - simpl. apply parts_self. split; [exact I | reflexivity].
  - destruct W as [Lt W]. specialize (IH e W). simpl split_all.
    destruct (half_between _ _ Lt) as [M1 M2]. set (m := qc_half (a + b)) in *.
    constructor.
    + apply Forall_forall. intros q Hq. apply in_flat_map in Hq. destruct Hq as [r [Hr Hq]].
      pose proof (pt_wf _ _ _ IH) as Wr. rewrite Forall_forall in Wr. destruct (Wr r Hr) as [Wr1 Wr2].
      destruct Hq as [E | [E | []]]; subst q; split; cbn [fst snd]; simpl; try (split; assumption); f_equal; assumption.
    + intros q p Hq H. apply in_flat_map in Hq. destruct Hq as [r [Hr Hq]].
      destruct Hq as [E | [E | []]]; subst q; unfold In_box in *; cbn [fst snd] in *;
        destruct p as [|x p]; simpl in H; try contradiction; destruct H as [[H1 H2] H]; simpl; (split; [split|]).
      * assumption.
      * eapply Qcle_trans; [eassumption | apply Qclt_le_weak; assumption].
      * apply (pt_sub _ _ _ IH r p Hr H).
      * eapply Qcle_trans; [apply Qclt_le_weak; eassumption | assumption].
      * assumption.
      * apply (pt_sub _ _ _ IH r p Hr H).
    + intros q p Hq H. apply in_flat_map in Hq. destruct Hq as [r [Hr Hq]].
      destruct Hq as [E | [E | []]]; subst q; unfold In_int in *; cbn [fst snd] in *;
        destruct p as [|x p]; simpl in H; try contradiction; destruct H as [[H1 H2] H]; simpl; (split; [split|]).
      * assumption.
      * eapply Qclt_trans; eassumption.
      * apply (pt_subi _ _ _ IH r p Hr H).
      * eapply Qclt_trans; eassumption.
      * assumption.
      * apply (pt_subi _ _ _ IH r p Hr H).
    + intros p H. unfold In_box in H. cbn [fst snd] in H. destruct p as [|x p]; simpl in H; try contradiction.
      destruct H as [[H1 H2] H]. destruct (pt_cover _ _ _ IH p H) as [r [Hr Hpr]].
      destruct (Qclt_le_dec m x) as [G | G].
      * exists (m :: fst r, b :: snd r). split.
        -- apply in_flat_map. exists r. split; [assumption | right; left; reflexivity].
        -- unfold In_box. cbn [fst snd]. simpl. split; [split; [apply Qclt_le_weak|]; assumption | assumption].
      * exists (a :: fst r, m :: snd r). split.
        -- apply in_flat_map. exists r. split; [assumption | left; reflexivity].
        -- unfold In_box. cbn [fst snd]. simpl. split; [split; assumption | assumption].
    + pose proof (pt_disj _ _ _ IH) as D. clear IH.
      induction (split_all s e) as [|r R IHR]; simpl; [exact I|].
      simpl in D. destruct D as [Dr DR]. rewrite Forall_forall in Dr.
      split; [constructor|].
      * intros p [A B]. unfold In_int in *. cbn [fst snd] in *. destruct p as [|x p]; simpl in A, B; try contradiction.
        destruct A as [[_ A] _]. destruct B as [[B _] _]. apply (Qclt_not_le _ _ A). apply Qclt_le_weak. assumption.
      * apply Forall_forall. intros q Hq. apply in_flat_map in Hq. destruct Hq as [r' [Hr' Hq]].
        intros p [A B]. apply (Dr r' Hr' (tl p)).
        destruct Hq as [E | [E | []]]; subst q; unfold In_int in *; cbn [fst snd] in *;
          destruct p as [|x p]; simpl in A, B; try contradiction; simpl; split; [apply A | apply B | apply A | apply B].
      * split.
        -- apply Forall_forall. intros q Hq. apply in_flat_map in Hq. destruct Hq as [r' [Hr' Hq]].
           intros p [A B]. apply (Dr r' Hr' (tl p)).
           destruct Hq as [E | [E | []]]; subst q; unfold In_int in *; cbn [fst snd] in *;
             destruct p as [|x p]; simpl in A, B; try contradiction; simpl; split; [apply A | apply B | apply A | apply B].
        -- apply IHR. assumption.
Qed.
