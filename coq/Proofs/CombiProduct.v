(* Abstract combination lemma for PRODUCT quantities (used by C04):
   per dimension d a sequence e_d(l) of numbers (e.g. the 1D quadrature of g_d on the level-l grid, or the 1D interpolant of
   g_d at x_d) that is stationary from level tau_d on (e_d(l) = v_d for l >= tau_d); a scheme (idx, cs) satisfying
   inclusion-exclusion and downward closure. If tau lies in the index set, then
        sum_{(l,c) in cs} c * prod_d e_d(l_d)  =  prod_d v_d .
   Proof: instance of the telescoping/tensor-expansion machinery of Proofs/NodalExact.v over the one-point space. *)
From Coq Require Import ZArith List Bool QArith Qcanon Lia.
From SG Require Import Base.QcUtil Model.CombiScheme Proofs.SchemeBasics Proofs.SchemeIE Proofs.NodalExact.
Import ListNotations.
Local Open Scope Qc_scope.

Definition E1 (e : Z -> Qc) : Z -> fnl unit := fun l => [(tt, e l)].
Definition one_f : list unit -> Qc := fun _ => 1.

Fixpoint prod_at (es : list (Z -> Qc)) (ls : lv) : Qc :=
  match es, ls with
  | e :: es', l :: ls' => e l * prod_at es' ls'
  | _, _ => 1
  end.

Lemma app1_E1 e l g : app1 unit (E1 e l) g = e l * g tt.
Proof. unfold app1, E1. simpl. ring. Qed.

Lemma appT_scale_unit (Ls : list (fnl unit)) : forall c f, appT unit Ls (fun q => c * f q) = c * appT unit Ls f.
Proof.
  induction Ls as [|L r IH]; intros c f; simpl; [reflexivity|].
  rewrite <- app1_scale. apply app1_ext. intro p. apply IH.
Qed.

Lemma appT_zipE_prod : forall es ls, length ls = length es ->
  appT unit (zipE unit (map E1 es) ls) one_f = prod_at es ls.
Proof.
  induction es as [|e es IH]; intros [|l ls] H; try discriminate; [reflexivity|].
  simpl in H. injection H as H. cbn [map zipE appT prod_at]. rewrite app1_E1.
  rewrite (appT_ext unit _ _ one_f) by (intro q; reflexivity). rewrite IH by assumption. reflexivity.
Qed.

Section Product.
  Variable lmin : Z.
  Variable idx : list lv.
  Variable cs : list (lv * Z).
  Variable es : list (Z -> Qc).
  Variable M : nat.
  Hypothesis cs_wf : forall l c, In (l, c) cs -> length l = length es /\ Forall (fun v => (lmin <= v <= lmin + Z.of_nat M)%Z) l.
  Hypothesis IE : forall l, length l = length es -> Forall (fun v => (lmin <= v)%Z) l ->
                  dominating_sum cs l = if mem l idx then 1%Z else 0%Z.
  Hypothesis dclosed : forall k j, In k idx -> length j = length k -> Forall2 (fun a b => (lmin <= a <= b)%Z) j k -> In j idx.

  (* stationarity: e_d(l) = e_d(tau_d) for l >= tau_d >= lmin *)
  Inductive stat : list (Z -> Qc) -> lv -> Prop :=
  | stat_nil : stat [] []
  | stat_cons e es' t ts : (forall l, (t <= l)%Z -> e l = e t) -> (lmin <= t)%Z -> stat es' ts -> stat (e :: es') (t :: ts).

  Lemma stat_length es' ts : stat es' ts -> length ts = length es'.
  Proof. induction 1; simpl; congruence. Qed.

  Lemma increment_zero_num es' ts : stat es' ts -> forall js f, length js = length ts ->
    lv_geb ts js = false -> appT unit (zipD unit lmin (map E1 es') js) f = 0.
  Proof.
    induction 1 as [|e es' t ts HS Ht _ IH]; intros js f Hlen G.
    - destruct js; discriminate.
    - destruct js as [|j js]; [discriminate|]. injection Hlen as Hlen. simpl in G. cbn [map zipD appT].
      destruct (Z.leb_spec j t) as [Hle|Hgt].
      + simpl in G. rewrite (app1_ext unit _ _ (fun _ => 0)); [apply app1_zero|].
        intro p. apply IH; assumption.
      + unfold D. destruct (Z.eqb_spec j lmin) as [E0|_]; [lia|].
        rewrite app1_app, app1_neg, !app1_E1. rewrite (HS j) by lia. rewrite (HS (j - 1)%Z) by lia. ring.
  Qed.

  Definition combined_prod : Qc := sumQ (map (fun kv => qc_of_Z (snd kv) * prod_at es (fst kv)) cs).

  Theorem product_combination_exact tau :
    stat es tau -> In tau idx -> Forall (fun v => (lmin <= v <= lmin + Z.of_nat M)%Z) tau ->
    combined_prod = prod_at es tau.
  Proof.
    intros HS Htau Ftau. pose proof (stat_length es tau HS) as Ltau.
    set (Es := map E1 es).
    assert (LEs : length Es = length es) by (unfold Es; apply map_length).
    unfold combined_prod.
    rewrite (sumQ_map_ext _ (fun kv => sumQ (map (fun j => qc_of_Z (snd kv) * b2q (lv_geb (fst kv) j) * appT unit (zipD unit lmin Es j) one_f) (Box unit lmin Es M)))).
    2: { intros [l c] Hin. simpl. destruct (cs_wf l c Hin) as [Ll Fl].
         rewrite <- (appT_zipE_prod es l Ll). fold Es.
         rewrite (tensor_expand unit lmin M Es l one_f) by (try assumption; congruence).
         rewrite <- sumQ_map_scale. apply sumQ_map_ext. intros j _. ring. }
    rewrite sumQ_exchange.
    rewrite <- (appT_zipE_prod es tau Ltau). fold Es.
    rewrite (tensor_expand unit lmin M Es tau one_f) by (try assumption; congruence).
    apply sumQ_map_ext. intros j Hj. destruct (Box_In unit lmin Es M j Hj) as [Lj Fj].
    rewrite sumQ_scale_r. rewrite (dominating_sum_Qc cs j).
    assert (Fj' : Forall (fun v => (lmin <= v)%Z) j).
    { eapply Forall_impl; [|exact Fj]. simpl. intros; lia. }
    rewrite (IE j) by (try assumption; congruence).
    destruct (lv_geb tau j) eqn:G.
    - assert (Hjin : In j idx).
      { apply (dclosed tau j Htau); [congruence|]. apply (lv_geb_Forall2' lmin); assumption. }
      apply mem_In in Hjin. rewrite Hjin. unfold b2q. change (qc_of_Z 1) with (Q2Qc 1). ring.
    - unfold Es. rewrite (increment_zero_num es tau HS j one_f); [ring | congruence | exact G].
  Qed.
End Product.
