(* C10 — pole-wise hierarchisation as forward substitution on a triangular collocation system:
   existence (the forward substitution solves the system), uniqueness, vector-valued lifting. *)
From Coq Require Import ZArith List QArith Qcanon Bool Arith Lia Permutation.
From SG Require Import Base.QcUtil Model.Basis.
Import ListNotations.
Open Scope Qc_scope.

(* ------------------------------------------------------------------ sums *)
Lemma sumQ_perm a b : Permutation a b -> sumQ a = sumQ b.
Proof. induction 1; simpl; try ring; [rewrite IHPermutation; ring | congruence]. Qed.

Lemma sumQ_map_perm {A} (f : A -> Qc) a b : Permutation a b -> sumQ (map f a) = sumQ (map f b).
Proof. intro H. apply sumQ_perm. apply Permutation_map. exact H. Qed.

Lemma sumQ_map_zero {A} (f : A -> Qc) l : (forall x, In x l -> f x = 0) -> sumQ (map f l) = 0.
Proof.
  induction l as [|x l IH]; intro H; simpl; [reflexivity|].
  rewrite (H x (or_introl eq_refl)), IH; [ring|]. intros y Hy. apply H. right. exact Hy.
Qed.

Lemma sumQ_map_ext_in {A} (f g : A -> Qc) l : (forall x, In x l -> f x = g x) -> sumQ (map f l) = sumQ (map g l).
Proof.
  induction l as [|x l IH]; intro H; simpl; [reflexivity|].
  rewrite (H x (or_introl eq_refl)), IH; [reflexivity|]. intros y Hy. apply H. right. exact Hy.
Qed.

Lemma vsum_sumQ l : vsum 0 Qcplus l = sumQ l.
Proof. induction l as [|x l IH]; simpl; [reflexivity | rewrite IH; reflexivity]. Qed.

Lemma nth_map_seq {A} (f : nat -> A) n i d : nth i (map f (seq 0 n)) d = if (i <? n)%nat then f i else d.
Proof.
  destruct (Nat.ltb_spec i n) as [H|H].
  - rewrite (nth_indep _ d (f 0%nat)) by (rewrite map_length, seq_length; exact H).
    rewrite map_nth. rewrite seq_nth by exact H. reflexivity.
  - apply nth_overflow. rewrite map_length, seq_length. exact H.
Qed.

(* ------------------------------------------------------------------ generic module -> scalars by a linear functional *)
Section Projection.
  Variable V : Type.
  Variable vzero : V.
  Variable vadd : V -> V -> V.
  Variable vscale : Qc -> V -> V.
  Variable pi : V -> Qc.
  Hypothesis pi_zero : pi vzero = 0.
  Hypothesis pi_add : forall a b, pi (vadd a b) = pi a + pi b.
  Hypothesis pi_scale : forall c a, pi (vscale c a) = c * pi a.

  Definition pacc (acc : list (nat * V)) : list (nat * Qc) := map (fun js => (fst js, pi (snd js))) acc.

  Lemma pi_vsum l : pi (vsum vzero vadd l) = sumQ (map pi l).
  Proof. induction l as [|x l IH]; simpl; [exact pi_zero | rewrite pi_add, IH; reflexivity]. Qed.

  Lemma pi_nth v o : pi (nth o v vzero) = nth o (map pi v) 0.
  Proof. rewrite <- pi_zero. symmetry. apply map_nth. Qed.

  Lemma pi_step M v acc o :
    pacc (fsub_step vzero vadd vscale M v acc o) = fsub_step 0 Qcplus Qcmult M (map pi v) (pacc acc) o.
  Proof.
    unfold fsub_step, pacc. cbn [map fst snd]. f_equal. f_equal.
    rewrite pi_scale, pi_add, pi_scale, pi_vsum, (pi_nth v o).
    rewrite (vsum_sumQ (map (fun ms : nat * Qc => mget M o (fst ms) * snd ms)
                            (map (fun js : nat * V => (fst js, pi (snd js))) acc))).
    f_equal. f_equal. f_equal. f_equal.
    rewrite !map_map. apply map_ext. intros [m s]. cbn [fst snd]. apply pi_scale.
  Qed.

  Lemma pi_fold M v ord acc :
    pacc (fold_left (fsub_step vzero vadd vscale M v) ord acc)
    = fold_left (fsub_step 0 Qcplus Qcmult M (map pi v)) ord (pacc acc).
  Proof.
    revert acc; induction ord as [|o r IH]; intro acc; simpl; [reflexivity|].
    rewrite IH, pi_step. reflexivity.
  Qed.

  Lemma pi_lookup i acc : pi (lookup vzero i acc) = lookup 0 i (pacc acc).
  Proof.
    induction acc as [|[j s] r IH]; simpl; [exact pi_zero|].
    destruct (i =? j)%nat; [reflexivity | exact IH].
  Qed.

  Lemma pi_fsub M v ord i :
    pi (nth i (fsub vzero vadd vscale M v ord) vzero) = nthQ (fsub 0 Qcplus Qcmult M (map pi v) ord) i.
  Proof.
    unfold fsub, nthQ. rewrite !nth_map_seq, map_length.
    destruct (i <? length v)%nat; [|exact pi_zero].
    rewrite pi_lookup, pi_fold. reflexivity.
  Qed.
End Projection.

(* ------------------------------------------------------------------ scalar forward substitution *)
Definition stepQ := @fsub_step Qc 0 Qcplus Qcmult.
Definition lookupQ := @lookup Qc 0.

Definition rowsum (M : matrix) (s : list Qc) (n i : nat) : Qc :=
  sumQ (map (fun j => mget M i j * nthQ s j) (seq 0 n)).

(* M is triangular with non-zero diagonal along ord: column entries of later positions vanish *)
Definition tri (M : matrix) (ord : list nat) : Prop :=
  forall pre o post, ord = pre ++ o :: post ->
    mget M o o <> 0 /\ forall o', In o' post -> mget M o o' = 0.

Lemma keys_fold M v l acc : map fst (fold_left (stepQ M v) l acc) = rev l ++ map fst acc.
Proof.
  revert acc; induction l as [|o r IH]; intro acc; simpl; [reflexivity|].
  rewrite IH. unfold stepQ, fsub_step. cbn [map fst]. rewrite <- app_assoc. reflexivity.
Qed.

Lemma lookup_fold_stable M v l acc i :
  ~ In i l -> lookupQ i (fold_left (stepQ M v) l acc) = lookupQ i acc.
Proof.
  revert acc; induction l as [|o r IH]; intros acc H; simpl; [reflexivity|].
  rewrite IH by (intro H'; apply H; right; exact H').
  unfold stepQ, fsub_step, lookupQ. cbn [lookup].
  destruct (Nat.eqb_spec i o) as [E|E]; [exfalso; apply H; left; symmetry; exact E | reflexivity].
Qed.

Lemma lookup_not_key i (acc : list (nat * Qc)) : ~ In i (map fst acc) -> lookupQ i acc = 0.
Proof.
  induction acc as [|[j s] r IH]; intro H; simpl; [reflexivity|].
  destruct (Nat.eqb_spec i j) as [E|E]; [exfalso; apply H; left; symmetry; exact E|].
  apply IH. intro H'. apply H. right. exact H'.
Qed.

Lemma sum_acc_lookup (f : nat -> Qc) (acc : list (nat * Qc)) :
  NoDup (map fst acc) ->
  sumQ (map (fun ms => f (fst ms) * snd ms) acc) = sumQ (map (fun m => f m * lookupQ m acc) (map fst acc)).
Proof.
  induction acc as [|[j s] r IH]; intro H; [reflexivity|].
  cbn [map fst snd sumQ]. inversion H as [|? ? Hnin Hnd]; subst.
  unfold lookupQ at 1. cbn [lookup]. rewrite Nat.eqb_refl. f_equal.
  rewrite IH by exact Hnd. apply sumQ_map_ext_in. intros m Hm.
  unfold lookupQ. cbn [lookup]. destruct (Nat.eqb_spec m j) as [E|E]; [subst; contradiction | reflexivity].
Qed.

Lemma NoDup_app_split {A} (a : list A) x b : NoDup (a ++ x :: b) -> NoDup a /\ ~ In x a /\ ~ In x b /\ (forall y, In y a -> ~ In y (x :: b)).
Proof.
  intro H. split; [|split; [|split]].
  - clear -H. induction a as [|z a IH]; [constructor|].
    simpl in H. inversion H as [|? ? Hnin Hnd]; subst. constructor.
    + intro Hz. apply Hnin. apply in_or_app. left. exact Hz.
    + apply IH. exact Hnd.
  - apply NoDup_remove_2 in H. intro Hx. apply H. apply in_or_app. left. exact Hx.
  - apply NoDup_remove_2 in H. intro Hx. apply H. apply in_or_app. right. exact Hx.
  - intros y Hy Hy'. revert H. induction a as [|z a IH]; [contradiction|].
    simpl. intro H. inversion H as [|? ? Hnin Hnd]; subst.
    destruct Hy as [Hy|Hy].
    + subst. apply Hnin. apply in_or_app. right. exact Hy'.
    + apply IH; assumption.
Qed.

(* the value stored for o: the forward-substitution equation *)
Lemma fsub_equation M v pre o post :
  NoDup (pre ++ o :: post) ->
  let acc := fold_left (stepQ M v) (pre ++ o :: post) [] in
  lookupQ o acc = 1 / mget M o o * (nthQ v o - sumQ (map (fun m => mget M o m * lookupQ m acc) pre)).
Proof.
  intros Hnd acc. subst acc.
  destruct (NoDup_app_split pre o post Hnd) as [Hpre [Ho1 [Ho2 Hdis]]].
  rewrite fold_left_app. cbn [fold_left].
  set (accp := fold_left (stepQ M v) pre []).
  rewrite lookup_fold_stable by exact Ho2.
  unfold stepQ at 1, fsub_step. unfold lookupQ at 1. cbn [lookup]. rewrite Nat.eqb_refl.
  rewrite vsum_sumQ. unfold nthQ.
  assert (Hk : map fst accp = rev pre).
  { unfold accp. rewrite keys_fold. cbn [map]. apply app_nil_r. }
  assert (Hs : sumQ (map (fun ms : nat * Qc => mget M o (fst ms) * snd ms) accp)
               = sumQ (map (fun m => mget M o m * lookupQ m (fold_left (stepQ M v) post (stepQ M v accp o))) pre)).
  { rewrite sum_acc_lookup by (rewrite Hk; apply NoDup_rev; exact Hpre).
    rewrite Hk. rewrite (sumQ_map_perm _ (rev pre) pre) by (apply Permutation_sym, Permutation_rev).
    apply sumQ_map_ext_in. intros m Hm. f_equal.
    rewrite lookup_fold_stable by (intro H'; apply (Hdis m Hm); right; exact H').
    unfold stepQ at 1, fsub_step, lookupQ. cbn [lookup].
    destruct (Nat.eqb_spec m o) as [E|E]; [subst; contradiction | reflexivity]. }
  rewrite <- Hs. ring.
Qed.

Lemma fsubQ_nth M v ord i :
  (i < length v)%nat -> nthQ (fsubQ M v ord) i = lookupQ i (fold_left (stepQ M v) ord []).
Proof.
  intro H. unfold fsubQ, fsub, nthQ. rewrite nth_map_seq.
  destruct (Nat.ltb_spec i (length v)); [reflexivity | lia].
Qed.

(* splitting a row sum along the order *)
Lemma rowsum_along_order M s n ord i :
  Permutation ord (seq 0 n) ->
  rowsum M s n i = sumQ (map (fun j => mget M i j * nthQ s j) ord).
Proof. intro H. unfold rowsum. symmetry. apply sumQ_map_perm. exact H. Qed.

(* EXISTENCE: forward substitution along a triangular order solves the collocation system *)
Theorem fsub_solves M v ord n :
  Permutation ord (seq 0 n) -> length v = n -> tri M ord ->
  forall i, (i < n)%nat -> rowsum M (fsubQ M v ord) n i = nthQ v i.
Proof.
  intros Hp Hl Ht i Hi.
  assert (Hnd : NoDup ord) by (apply (Permutation_NoDup (Permutation_sym Hp)); apply seq_NoDup).
  assert (Hin : In i ord) by (apply (Permutation_in _ (Permutation_sym Hp)); apply in_seq; lia).
  destruct (in_split i ord Hin) as [pre [post E]].
  destruct (Ht pre i post E) as [Hd Hz].
  rewrite (rowsum_along_order M _ n ord i Hp).
  assert (Hall : forall j, In j ord -> nthQ (fsubQ M v ord) j = lookupQ j (fold_left (stepQ M v) ord [])).
  { intros j Hj. apply fsubQ_nth. rewrite Hl. apply (Permutation_in _ Hp) in Hj. apply in_seq in Hj. lia. }
  rewrite (sumQ_map_ext_in _ (fun j => mget M i j * lookupQ j (fold_left (stepQ M v) ord [])) ord)
    by (intros j Hj; rewrite (Hall j Hj); reflexivity).
  rewrite E at 1. rewrite map_app, sumQ_app. cbn [map sumQ].
  rewrite (sumQ_map_zero _ post) by (intros j Hj; rewrite (Hz j Hj); ring).
  pose proof (fsub_equation M v pre i post) as Q. rewrite <- E in Q. specialize (Q Hnd). cbv zeta in Q.
  rewrite Q. field. exact Hd.
Qed.

(* UNIQUENESS: any solution of the triangular system is the forward-substitution result *)
Theorem fsub_unique M v ord n s' :
  Permutation ord (seq 0 n) -> length v = n -> tri M ord ->
  (forall i, (i < n)%nat -> rowsum M s' n i = nthQ v i) ->
  forall i, (i < n)%nat -> nthQ s' i = nthQ (fsubQ M v ord) i.
Proof.
  intros Hp Hl Ht Hs'.
  assert (Hnd : NoDup ord) by (apply (Permutation_NoDup (Permutation_sym Hp)); apply seq_NoDup).
  assert (Hlt : forall j, In j ord -> (j < n)%nat).
  { intros j Hj. apply (Permutation_in _ Hp) in Hj. apply in_seq in Hj. lia. }
  set (acc := fold_left (stepQ M v) ord []).
  assert (Main : forall pre post, ord = pre ++ post -> forall m, In m pre -> nthQ s' m = lookupQ m acc).
  { intro pre. induction pre as [|o pre IH] using rev_ind; intros post E m Hm; [contradiction|].
    rewrite <- app_assoc in E. cbn [app] in E.
    apply in_app_or in Hm. destruct Hm as [Hm|Hm]; [exact (IH (o :: post) E m Hm)|].
    destruct Hm as [Hm|[]]. subst m.
    destruct (Ht pre o post E) as [Hd Hz].
    assert (Ho : In o ord) by (rewrite E; apply in_or_app; right; left; reflexivity).
    pose proof (Hs' o (Hlt o Ho)) as R.
    rewrite (rowsum_along_order M s' n ord o Hp) in R.
    rewrite E in R at 1. rewrite map_app, sumQ_app in R. cbn [map sumQ] in R.
    rewrite (sumQ_map_zero _ post) in R by (intros j Hj; rewrite (Hz j Hj); ring).
    rewrite (sumQ_map_ext_in _ (fun j => mget M o j * lookupQ j acc) pre) in R
      by (intros j Hj; rewrite (IH (o :: post) E j Hj); reflexivity).
    pose proof (fsub_equation M v pre o post) as Q. rewrite <- E in Q. specialize (Q Hnd). cbv zeta in Q.
    fold acc in Q. rewrite Q.
    assert (R' : mget M o o * nthQ s' o = nthQ v o - sumQ (map (fun j => mget M o j * lookupQ j acc) pre)).
    { rewrite <- R. ring. }
    rewrite <- R'. field. exact Hd. }
  intros i Hi.
  assert (Hin : In i ord) by (apply (Permutation_in _ (Permutation_sym Hp)); apply in_seq; lia).
  rewrite fsubQ_nth by (rewrite Hl; exact Hi).
  apply (Main ord [] (eq_sym (app_nil_r ord)) i Hin).
Qed.

(* ------------------------------------------------------------------ flat vectors as a module *)
Lemma nthQ_nil k : nthQ [] k = 0.
Proof. unfold nthQ. destruct k; reflexivity. Qed.

Lemma nthQ_lvadd a b k : nthQ (lvadd a b) k = nthQ a k + nthQ b k.
Proof.
  revert b k; induction a as [|x a IH]; intros b k.
  - change (lvadd [] b) with b. rewrite nthQ_nil. ring.
  - destruct b as [|y b].
    + change (lvadd (x :: a) []) with (x :: a). rewrite nthQ_nil. ring.
    + change (lvadd (x :: a) (y :: b)) with ((x + y) :: lvadd a b).
      destruct k as [|k]; [reflexivity | exact (IH b k)].
Qed.

Lemma nthQ_lvscale c a k : nthQ (lvscale c a) k = c * nthQ a k.
Proof.
  revert k; induction a as [|x a IH]; intro k.
  - change (lvscale c []) with (@nil Qc). rewrite nthQ_nil. ring.
  - change (lvscale c (x :: a)) with (c * x :: lvscale c a).
    destruct k as [|k]; [reflexivity | exact (IH k)].
Qed.

Lemma length_lvadd a b : length (lvadd a b) = Nat.max (length a) (length b).
Proof.
  revert b; induction a as [|x a IH]; intros [|y b]; cbn [lvadd length]; try reflexivity.
  - rewrite IH. reflexivity.
Qed.

Lemma length_lvscale c a : length (lvscale c a) = length a.
Proof. apply map_length. Qed.

(* component k of the vector-valued forward substitution is the scalar forward substitution of component k *)
Theorem fsubV_component M (cs : list (list Qc)) ord i k :
  nthQ (nth i (fsubV M cs ord) []) k = nthQ (fsubQ M (map (fun c => nthQ c k) cs) ord) i.
Proof.
  unfold fsubV, fsubQ.
  apply (pi_fsub (list Qc) [] lvadd lvscale (fun c => nthQ c k)).
  - apply nthQ_nil.
  - intros a b. apply nthQ_lvadd.
  - intros c a. apply nthQ_lvscale.
Qed.
