(* Generic lemmas on tensor-product quadrature rules (definitions: Model/Tensor.v).
   Main results (reusable):
     cross_length        : |cross ls| = prod |l_i|
     cross_in            : p in cross ls <-> Forall2 In p ls
     tensor_dot          : the tensor rule applied to a product function is the product of the 1D rules
     tensor_exact        : 1D exactness up to degree deg_d in every dimension  =>  the tensor rule integrates
                           every monomial x_1^k_1 ... x_d^k_d with k_d <= deg_d exactly
     apply1_poly         : a rule exact up to degree k integrates every polynomial of degree <= k exactly *)
From Coq Require Import ZArith List QArith Qcanon Bool Arith Lia.
From SG Require Import Base.QcUtil Model.Tensor.
Import ListNotations.
Open Scope Qc_scope.

(* ---------- dotQ / sumQ helpers ---------- *)
Lemma dotQ_app a1 a2 b1 b2 : length a1 = length b1 ->
  dotQ (a1 ++ a2) (b1 ++ b2) = dotQ a1 b1 + dotQ a2 b2.
Proof.
  revert b1. induction a1 as [|x a1 IH]; intros [|y b1] H; simpl in *; try discriminate.
  - ring.
  - rewrite IH by lia. ring.
Qed.

Lemma dotQ_scale (c1 c2 : Qc) {A B} (g : A -> Qc) (h : B -> Qc) l l' :
  dotQ (map (fun p => c1 * g p) l) (map (fun q => c2 * h q) l') = c1 * c2 * dotQ (map g l) (map h l').
Proof.
  revert l'. induction l as [|x l IH]; intros [|y l']; simpl; try ring.
  rewrite IH. ring.
Qed.

Lemma dotQ_nil_r a : dotQ a [] = 0.
Proof. destruct a; reflexivity. Qed.

Lemma dotQ_map_seq (f g : nat -> Qc) a n :
  dotQ (map f (seq a n)) (map g (seq a n)) = sumQ (map (fun i => f i * g i) (seq a n)).
Proof. revert a. induction n as [|n IH]; intro a; simpl; [reflexivity | rewrite IH; reflexivity]. Qed.

Lemma dotQ_ext_r a b b' : b = b' -> dotQ a b = dotQ a b'.
Proof. intros ->. reflexivity. Qed.

(* ---------- cross ---------- *)
Lemma cross_length {A} (ls : list (list A)) : length (cross ls) = prodN (map (@length A) ls).
Proof.
  induction ls as [|l ls IH]; simpl; [reflexivity|].
  induction l as [|x l IHl]; simpl; [reflexivity|].
  rewrite app_length, map_length, IHl, IH. reflexivity.
Qed.

Lemma cross_in {A} (ls : list (list A)) p : In p (cross ls) <-> Forall2 (fun x l => In x l) p ls.
Proof.
  revert p. induction ls as [|l ls IH]; intro p; simpl.
  - split; [intros [<-|[]]; constructor | intro H; inversion H; auto].
  - rewrite in_flat_map. split.
    + intros (x & Hx & Hp). apply in_map_iff in Hp. destruct Hp as (q & <- & Hq).
      constructor; [assumption | apply IH; assumption].
    + intro H. inversion H as [|x l' q ls' Hx Hq]; subst.
      exists x. split; [assumption|]. apply in_map_iff. exists q. split; [reflexivity | apply IH; assumption].
Qed.

Lemma cross_point_length {A} (ls : list (list A)) p : In p (cross ls) -> length p = length ls.
Proof. intro H. apply cross_in in H. induction H; simpl; congruence. Qed.

Lemma cross_length_eq {A B} (cs : list (list A)) (ws : list (list B)) :
  Forall2 (fun c w => length c = length w) cs ws -> length (cross cs) = length (cross ws).
Proof.
  intro H. rewrite !cross_length. induction H; simpl; congruence.
Qed.

(* ---------- the product formula ---------- *)
Fixpoint apply_dims (fs : list (Qc -> Qc)) (cs ws : list (list Qc)) : list Qc :=
  match fs, cs, ws with
  | f :: fs', c :: cs', w :: ws' => apply1 f c w :: apply_dims fs' cs' ws'
  | _, _, _ => []
  end.

Lemma tensor_dot_step (f : Qc -> Qc) (g : list Qc -> Qc) c w (P : list (list Qc)) (W : list (list Qc)) :
  length c = length w -> length P = length W ->
  dotQ (map (fun p => match p with x :: p' => f x * g p' | [] => 1 end) (flat_map (fun x => map (cons x) P) c))
       (map prodQ (flat_map (fun y => map (cons y) W) w))
  = apply1 f c w * dotQ (map g P) (map prodQ W).
Proof.
  intros Hl HP. revert w Hl. induction c as [|x c IH]; intros [|y w] Hl; simpl in *; try discriminate.
  - unfold apply1. simpl. ring.
  - rewrite !map_app. rewrite dotQ_app by (rewrite !map_length; assumption).
    rewrite IH by lia. unfold apply1. simpl.
    rewrite !map_map. cbn [prodQ].
    rewrite (dotQ_scale (f x) y g prodQ P W). ring.
Qed.

Theorem tensor_dot (fs : list (Qc -> Qc)) (cs ws : list (list Qc)) :
  length fs = length cs -> Forall2 (fun c w => length c = length w) cs ws ->
  integrate_rule (prodf fs) cs ws = prodQ (apply_dims fs cs ws).
Proof.
  unfold integrate_rule, tensor_weights. intros Hf H. revert fs Hf.
  induction H as [|c w cs ws Hcw H IH]; intros fs Hf.
  - destruct fs; [|discriminate]. simpl. ring.
  - destruct fs as [|f fs]; [discriminate|]. simpl in Hf.
    cbn [cross apply_dims prodQ].
    rewrite <- (IH fs) by lia.
    rewrite <- (tensor_dot_step f (prodf fs) c w (cross cs) (cross ws) Hcw (cross_length_eq cs ws H)).
    match goal with |- dotQ ?A _ = dotQ ?B _ => assert (HE : A = B) end.
    { apply map_ext_in. intros p Hp.
      apply in_flat_map in Hp. destruct Hp as (x & _ & Hp). apply in_map_iff in Hp. destruct Hp as (q & <- & _).
      reflexivity. }
    rewrite HE. reflexivity.
Qed.

Lemma Forall2_len {A B} (R : A -> B -> Prop) l l' : Forall2 R l l' -> length l = length l'.
Proof. induction 1; simpl; congruence. Qed.

(* per-dimension data of a tensor rule: coordinates, weights, interval, degree *)
Record rule1 := { r_c : list Qc; r_w : list Qc; r_s : Qc; r_e : Qc; r_deg : nat }.
Definition rule1_exact (r : rule1) : Prop :=
  length (r_c r) = length (r_w r) /\ exact1 (r_c r) (r_w r) (r_s r) (r_e r) (r_deg r).

Definition box_moment_r (rs : list rule1) (exps : list nat) : Qc :=
  prodQ (map (fun rk => mint (snd rk) (r_s (fst rk)) (r_e (fst rk))) (combine rs exps)).

Theorem tensor_exact (rs : list rule1) (exps : list nat) :
  Forall rule1_exact rs ->
  Forall2 (fun r k => (k <= r_deg r)%nat) rs exps ->
  integrate_rule (prodf (map mono exps)) (map r_c rs) (map r_w rs) = box_moment_r rs exps.
Proof.
  intros Hex Hk. rewrite tensor_dot.
  - unfold box_moment_r. f_equal. revert Hex. induction Hk as [|r k rs exps Hle Hk IH]; intro Hex; simpl; [reflexivity|].
    inversion Hex as [|? ? [Hl He] Hex']; subst. rewrite IH by assumption. f_equal. apply He. assumption.
  - rewrite !map_length. symmetry. eapply Forall2_len; eassumption.
  - clear Hk. induction Hex as [|r rs [Hl _] _ IH]; simpl; constructor; assumption.
Qed.

(* weights of the tensor rule sum to the box volume (exponent vector 0) *)
Lemma mono0 x : mono 0 x = 1.
Proof. reflexivity. Qed.

Lemma dotQ_ones (l : list (list Qc)) (w : list Qc) : length l = length w ->
  dotQ (map (fun _ => 1) l) w = sumQ w.
Proof.
  revert w. induction l as [|x l IH]; intros [|y w] H; simpl in *; try discriminate; [reflexivity|].
  rewrite IH by lia. ring.
Qed.

(* ---------- polynomials ---------- *)
Lemma apply1_add f g c w : apply1 (fun x => f x + g x) c w = apply1 f c w + apply1 g c w.
Proof.
  unfold apply1. revert w. induction c as [|x c IH]; intros [|y w]; simpl; try ring. rewrite IH. ring.
Qed.

Lemma apply1_scale a f c w : apply1 (fun x => a * f x) c w = a * apply1 f c w.
Proof.
  unfold apply1. revert w. induction c as [|x c IH]; intros [|y w]; simpl; try ring. rewrite IH. ring.
Qed.

Lemma apply1_ext f g c w : (forall x, f x = g x) -> apply1 f c w = apply1 g c w.
Proof. intro H. unfold apply1. f_equal. apply map_ext. assumption. Qed.

Lemma apply1_zero c w : apply1 (fun _ => 0) c w = 0.
Proof. unfold apply1. revert w. induction c as [|x c IH]; intros [|y w]; simpl; try ring. rewrite IH. ring. Qed.

(* evaluation of  x^j * p(x) *)
Lemma apply1_poly_from (c w : list Qc) s e deg : exact1 c w s e deg ->
  forall p j, (j + length p <= S deg)%nat ->
  apply1 (fun x => mono j x * peval p x) c w = pint_from j p s e.
Proof.
  intros Hex p. induction p as [|a p IH]; intros j Hj; simpl.
  - rewrite (apply1_ext _ (fun _ => 0)) by (intro; ring). apply apply1_zero.
  - rewrite (apply1_ext _ (fun x => a * mono j x + mono (S j) x * peval p x)).
    + rewrite apply1_add, apply1_scale. rewrite IH by (simpl in Hj; lia).
      rewrite (Hex j) by (simpl in Hj; lia). reflexivity.
    + intro x. unfold mono. simpl. ring.
Qed.

(* a rule exact for monomials up to degree deg integrates every polynomial with at most deg+1 coefficients exactly *)
Theorem apply1_poly (c w : list Qc) s e deg p : exact1 c w s e deg -> (length p <= S deg)%nat ->
  apply1 (peval p) c w = pint p s e.
Proof.
  intros Hex Hl. unfold pint. rewrite <- (apply1_poly_from c w s e deg Hex p 0) by (simpl; lia).
  apply apply1_ext. intro x. unfold mono. simpl. ring.
Qed.
