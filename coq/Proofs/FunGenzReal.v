(* C12 — GenzCornerPeak: the analytic integral as coded IS the iterated Riemann integral of eval over the box
   (Coquelicot; is_iter_int of Proofs/FunPolyIter.v), in every dimension, wherever 1 + sum c_d x_d > 0 on the box. *)
From Coq Require Import Reals QArith Qcanon Qreals List Lia Lra.
From Coquelicot Require Import Coquelicot.
From SG Require Import Base.QcUtil Model.FunPoly Model.FunGenz Proofs.FunPolyProofs Proofs.FunPolyReal Proofs.FunPolyIter
                       Proofs.FunGenzProofs.
Import ListNotations.
Open Scope R_scope.

Fixpoint dotR (cs xs : list R) : R :=
  match cs, xs with c :: cs', x :: xs' => c * x + dotR cs' xs' | _, _ => 0 end.

Fixpoint in_box (xs a b : list R) : Prop :=
  match xs, a, b with
  | [], [], [] => True
  | x :: xs', ai :: a', bi :: b' => Rmin ai bi <= x <= Rmax ai bi /\ in_box xs' a' b'
  | _, _, _ => False
  end.

Fixpoint stencilR (phi : R -> R) (s : R) (cs a b : list R) : R :=
  match cs, a, b with
  | c :: cs', ai :: a', bi :: b' => (stencilR phi (s + c * ai) cs' a' b' - stencilR phi (s + c * bi) cs' a' b') / c
  | _, _, _ => phi s
  end.

Definition phiR (p : nat) (s : R) : R := / s ^ p.

(* p (p+1) ... (p+n-1) *)
Fixpoint rising (p n : nat) : nat := match n with O => 1%nat | S k => (p * rising (S p) k)%nat end.

Lemma rising_pos p n : (1 <= p)%nat -> (1 <= rising p n)%nat.
Proof.
  revert p. induction n as [|n IH]; intros p Hp; cbn [rising]; [lia|].
  specialize (IH (S p) ltac:(lia)). nia.
Qed.

Lemma rising_fact n : rising 1 n = fact_nat n.
Proof.
  assert (H : forall n p, (rising (S p) n * fact_nat p = fact_nat (p + n))%nat).
  { induction n0 as [|m IH]; intro p; cbn [rising].
    - rewrite Nat.add_0_r. lia.
    - rewrite <- Nat.add_succ_comm. rewrite <- (IH (S p)). cbn [fact_nat]. lia. }
  specialize (H n 0%nat). cbn [fact_nat Nat.add] in H. lia.
Qed.

Lemma stencilR_arg phi s s' cs a b : s = s' -> stencilR phi s cs a b = stencilR phi s' cs a b.
Proof. intros ->. reflexivity. Qed.

Lemma in_box_min a b : Rmin a b <= a <= Rmax a b.
Proof. split; [apply Rmin_l | apply Rmax_l]. Qed.
Lemma in_box_max a b : Rmin a b <= b <= Rmax a b.
Proof. split; [apply Rmin_r | apply Rmax_r]. Qed.

(* ------------------------------------------------------------------ one variable *)
Lemma RInt_inv_pow (q : nat) u c a b : c <> 0 -> (forall x, Rmin a b <= x <= Rmax a b -> 0 < u + c * x) ->
  is_RInt (fun x => / (u + c * x) ^ S (S q)) a b ((/ (u + c * a) ^ S q - / (u + c * b) ^ S q) / (INR (S q) * c)).
Proof.
  intros Hc Hpos.
  assert (Hq : INR (S q) <> 0) by apply INR_S_neq0.
  pose (F := fun x => - / (INR (S q) * c) * / (u + c * x) ^ S q).
  assert (E : (/ (u + c * a) ^ S q - / (u + c * b) ^ S q) / (INR (S q) * c) = F b - F a).
  { unfold F. assert (0 < u + c * a) by (apply Hpos, in_box_min). assert (0 < u + c * b) by (apply Hpos, in_box_max).
    field. repeat split; try assumption; apply pow_nonzero; lra. }
  rewrite E. apply (is_RInt_derive F (fun x => / (u + c * x) ^ S (S q))).
  - intros x Hx. specialize (Hpos x Hx). unfold F.
    assert (Hp : (u + c * x) ^ q <> 0) by (apply pow_nonzero; lra).
    auto_derive.
    + apply Rmult_integral_contrapositive_currified; [lra | exact Hp].
    + change (match q with 0%nat => 1 | S _ => INR q + 1 end) with (INR (S q)).
      cbn [pow]. field. repeat split; try assumption; lra.
  - intros x Hx. specialize (Hpos x Hx).
    assert (Hp : (u + c * x) ^ q <> 0) by (apply pow_nonzero; lra).
    apply (ex_derive_continuous (fun x0 : R => / (u + c * x0) ^ S (S q))). auto_derive.
    cbn [pow]. repeat apply Rmult_integral_contrapositive_currified; try lra; exact Hp.
Qed.

Local Arguments INR : simpl never.
Local Arguments rising : simpl never.
Local Arguments pow : simpl never.

(* ------------------------------------------------------------------ integrating an iterated difference in its shift *)
(* int_a^b St(1/.^(q+2), s + c x, cs, as, bs) dx = (St(1/.^(q+1), s + c a, ...) - St(1/.^(q+1), s + c b, ...)) / ((q+1) c) *)
Lemma RInt_stencil (q : nat) c a b : c <> 0 -> forall cs a' b' s,
  length a' = length cs -> length b' = length cs -> List.Forall (fun c0 => c0 <> 0) cs ->
  (forall x xs, Rmin a b <= x <= Rmax a b -> in_box xs a' b' -> 0 < s + c * x + dotR cs xs) ->
  is_RInt (fun x => stencilR (phiR (S (S q))) (s + c * x) cs a' b') a b
          ((stencilR (phiR (S q)) (s + c * a) cs a' b' - stencilR (phiR (S q)) (s + c * b) cs a' b') / (INR (S q) * c)).
Proof.
  intro Hc. induction cs as [|c1 cs IH]; intros [|a1 a'] [|b1 b'] s Ha Hb Hnz Hpos; try discriminate.
  - cbn [stencilR]. unfold phiR. apply RInt_inv_pow; [exact Hc|].
    intros x Hx. specialize (Hpos x [] Hx I). cbn [dotR] in Hpos. lra.
  - inversion Hnz as [|? ? Hc1 Hnz']; subst. cbn [stencilR].
    assert (Hq : INR (S q) <> 0) by apply INR_S_neq0.
    assert (IHa := IH a' b' (s + c1 * a1) ltac:(simpl in *; lia) ltac:(simpl in *; lia) Hnz').
    assert (IHb := IH a' b' (s + c1 * b1) ltac:(simpl in *; lia) ltac:(simpl in *; lia) Hnz').
    assert (Pa : forall x xs, Rmin a b <= x <= Rmax a b -> in_box xs a' b' -> 0 < s + c1 * a1 + c * x + dotR cs xs).
    { intros x xs Hx Hxs. specialize (Hpos x (a1 :: xs) Hx). cbn [in_box dotR] in Hpos.
      specialize (Hpos (conj (in_box_min a1 b1) Hxs)). lra. }
    assert (Pb : forall x xs, Rmin a b <= x <= Rmax a b -> in_box xs a' b' -> 0 < s + c1 * b1 + c * x + dotR cs xs).
    { intros x xs Hx Hxs. specialize (Hpos x (b1 :: xs) Hx). cbn [in_box dotR] in Hpos.
      specialize (Hpos (conj (in_box_max a1 b1) Hxs)). lra. }
    specialize (IHa Pa). specialize (IHb Pb).
    pose proof (is_RInt_scal _ a b (/ c1) _ (is_RInt_minus _ _ a b _ _ IHa IHb)) as H.
    apply (is_RInt_ext _ (fun x => (stencilR (phiR (S (S q))) (s + c * x + c1 * a1) cs a' b' -
                                     stencilR (phiR (S (S q))) (s + c * x + c1 * b1) cs a' b') / c1)) in H.
    2:{ intros x _. unfold scal, minus, plus, opp; simpl; unfold mult; simpl.
        rewrite (stencilR_arg _ (s + c1 * a1 + c * x) (s + c * x + c1 * a1)) by ring.
        rewrite (stencilR_arg _ (s + c1 * b1 + c * x) (s + c * x + c1 * b1)) by ring.
        unfold Rdiv. ring. }
    refine (eq_ind _ (fun v => is_RInt _ a b v) H _ _).
    unfold scal, minus, plus, opp; simpl; unfold mult; simpl.
    rewrite (stencilR_arg _ (s + c1 * a1 + c * a) (s + c * a + c1 * a1)) by ring.
    rewrite (stencilR_arg _ (s + c1 * b1 + c * a) (s + c * a + c1 * b1)) by ring.
    rewrite (stencilR_arg _ (s + c1 * a1 + c * b) (s + c * b + c1 * a1)) by ring.
    rewrite (stencilR_arg _ (s + c1 * b1 + c * b) (s + c * b + c1 * b1)) by ring.
    field. repeat split; assumption.
Qed.

(* ------------------------------------------------------------------ all variables *)
(* the iterated integral of 1/(s + c.x)^(p + n) over an n-dimensional box, p >= 1 *)
Theorem corner_iter : forall cs a b p s,
  length a = length cs -> length b = length cs -> List.Forall (fun c => c <> 0) cs ->
  (forall xs, in_box xs a b -> 0 < s + dotR cs xs) ->
  is_iter_int (fun xs => / (s + dotR cs xs) ^ (S p + length cs)) a b
              (stencilR (phiR (S p)) s cs a b / INR (rising (S p) (length cs))).
Proof.
  induction cs as [|c cs IH]; intros [|a0 a] [|b0 b] p s Ha Hb Hnz Hpos; try discriminate.
  - specialize (Hpos [] I). cbn [dotR] in Hpos.
    apply (iter_value_eq _ [] [] _ _ (iter_nil (fun xs => / (s + dotR [] xs) ^ (S p + length (@nil R))))).
    cbn [dotR stencilR length]. replace (INR (rising (S p) 0)) with 1 by reflexivity.
    unfold phiR. rewrite Nat.add_0_r, Rplus_0_r. field.
    apply pow_nonzero. lra.
  - inversion Hnz as [|? ? Hc Hnz']; subst.
    assert (Hr : INR (rising (S (S p)) (length cs)) <> 0).
    { apply not_0_INR. pose proof (rising_pos (S (S p)) (length cs) ltac:(lia)). lia. }
    apply (iter_cons _ a0 b0 a b (fun x => stencilR (phiR (S (S p))) (s + c * x) cs a b / INR (rising (S (S p)) (length cs)))).
    + intros x Hx.
      apply (iter_ext (fun xs => / ((s + c * x) + dotR cs xs) ^ (S (S p) + length cs))).
      * intro xs. cbn [dotR length]. rewrite <- Nat.add_succ_comm. f_equal. f_equal. ring.
      * apply IH; [simpl in *; lia | simpl in *; lia | exact Hnz'|].
        intros xs Hxs. specialize (Hpos (x :: xs)). cbn [in_box dotR] in Hpos. specialize (Hpos (conj Hx Hxs)). lra.
    + pose proof (RInt_stencil p c a0 b0 Hc cs a b s ltac:(simpl in *; lia) ltac:(simpl in *; lia) Hnz') as H.
      assert (Hp : forall x xs, Rmin a0 b0 <= x <= Rmax a0 b0 -> in_box xs a b -> 0 < s + c * x + dotR cs xs).
      { intros x xs Hx Hxs. specialize (Hpos (x :: xs)). cbn [in_box dotR] in Hpos. specialize (Hpos (conj Hx Hxs)). lra. }
      specialize (H Hp).
      pose proof (is_RInt_scal _ a0 b0 (/ INR (rising (S (S p)) (length cs))) _ H) as H2.
      apply (is_RInt_ext _ (fun x => stencilR (phiR (S (S p))) (s + c * x) cs a b / INR (rising (S (S p)) (length cs)))) in H2.
      2:{ intros x _. unfold scal; simpl; unfold mult; simpl. unfold Rdiv. ring. }
      refine (eq_ind _ (fun v => is_RInt _ a0 b0 v) H2 _ _).
      unfold scal; simpl; unfold mult; simpl. cbn [stencilR length].
      change (rising (S p) (S (length cs))) with (S p * rising (S (S p)) (length cs))%nat.
      rewrite mult_INR. assert (Hsp : INR (S p) <> 0) by apply INR_S_neq0.
      field. repeat split; assumption.
Qed.

(* ------------------------------------------------------------------ link to the rational model *)
Lemma QcR_neq0 q : QcR q <> 0 -> q <> 0%Qc.
Proof. intros H E. subst. apply H. apply QcR_0. Qed.

Lemma Forall_map_QcR cs : List.Forall (fun c => c <> 0%Qc) cs -> List.Forall (fun c => c <> 0) (map QcR cs).
Proof.
  induction 1 as [|c cs Hc _ IH]; constructor; [|exact IH].
  intro E. apply Hc. apply Qc_is_canon. apply eqR_Qeq.
  change (QcR c = QcR 0%Qc). rewrite E, QcR_0. reflexivity.
Qed.

Lemma stencil_real : forall cs a b s, length a = length cs -> length b = length cs ->
  List.Forall (fun c => c <> 0%Qc) cs ->
  (forall xs, in_box xs (map QcR a) (map QcR b) -> 0 < QcR s + dotR (map QcR cs) xs) ->
  QcR (stencil Qcinv s cs a b) = stencilR (phiR 1) (QcR s) (map QcR cs) (map QcR a) (map QcR b).
Proof.
  induction cs as [|c cs IH]; intros [|a0 a] [|b0 b] s Ha Hb Hnz Hpos; try discriminate.
  - specialize (Hpos [] I). cbn [dotR map] in Hpos. cbn [stencil stencilR map]. unfold phiR.
    rewrite QcR_inv by (apply QcR_neq0; lra). rewrite Rfunctions.pow_1. reflexivity.
  - inversion Hnz as [|? ? Hc Hnz']; subst. cbn [stencil stencilR map].
    rewrite QcR_div, QcR_minus by exact Hc.
    rewrite (IH a b (s + c * a0)%Qc), (IH a b (s + c * b0)%Qc); try (simpl in *; lia); try exact Hnz'.
    + rewrite !QcR_plus, !QcR_mult. reflexivity.
    + intros xs Hxs. specialize (Hpos (QcR b0 :: xs)). cbn [in_box map dotR] in Hpos.
      specialize (Hpos (conj (in_box_max _ _) Hxs)). rewrite QcR_plus, QcR_mult. lra.
    + intros xs Hxs. specialize (Hpos (QcR a0 :: xs)). cbn [in_box map dotR] in Hpos.
      specialize (Hpos (conj (in_box_min _ _) Hxs)). rewrite QcR_plus, QcR_mult. lra.
Qed.

Lemma Qcpower_neq0 (x : Qc) n : x <> 0%Qc -> (x ^ n)%Qc <> 0%Qc.
Proof.
  intro H. induction n as [|n IH]; cbn [Qcpower]; [discriminate|].
  intro E. apply Qcmult_integral in E. destruct E; contradiction.
Qed.

(* the real function computed by GenzCornerPeak(coeffs).eval *)
Definition cp_real (cs : list Qc) (xs : list R) : R := / (1 + dotR (map QcR cs) xs) ^ (S (length cs)).

Lemma dotQ_real : forall x cs, QcR (dotQ x cs) = dotR (map QcR cs) (map QcR x) .
Proof.
  induction x as [|xi x IH]; intros [|c cs]; cbn [dotQ dotR map]; try apply QcR_0.
  rewrite QcR_plus, QcR_mult, IH. ring.
Qed.

Lemma cp_eval_real cs x y : length x = length cs -> cp_eval cs x = IVal y -> QcR y = cp_real cs (map QcR x).
Proof.
  intros Hl H. unfold cp_eval in H. rewrite cp_sum_dot in H by exact Hl.
  destruct (Qc_is0 (1 + dotQ x cs)) eqn:E; [discriminate|]. injection H as <-.
  apply Qc_is0_false in E. unfold cp_real.
  change (QcR (/ (1 + dotQ x cs) ^ S (length cs))%Qc = / (1 + dotR (map QcR cs) (map QcR x)) ^ S (length cs)).
  rewrite QcR_inv by (apply (Qcpower_neq0 _ (S (length cs))); exact E).
  rewrite QcR_pow, QcR_plus, QcR_1, dotQ_real. reflexivity.
Qed.

(* MAIN: whenever getAnalyticSolutionIntegral returns a value and 1 + sum c_d x_d > 0 on the box, that value is the
   iterated Riemann integral over the box of the real function computed by eval — in every dimension *)
Theorem cornerpeak_integral_is_iterated_riemann cs a b v : cp_int cs a b = IVal v ->
  (forall xs, in_box xs (map QcR a) (map QcR b) -> 0 < 1 + dotR (map QcR cs) xs) ->
  is_iterated_riemann_integral (cp_real cs) (map QcR a) (map QcR b) (QcR v).
Proof.
  intros Hv Hpos. destruct (cp_int_stencil cs a b v Hv) as (Ha & Hb & Hnz & ->).
  pose proof (corner_iter (map QcR cs) (map QcR a) (map QcR b) 0 1) as H.
  rewrite !map_length in H. specialize (H Ha Hb (Forall_map_QcR cs Hnz) Hpos).
  unfold is_iterated_riemann_integral, cp_real.
  refine (iter_value_eq _ _ _ _ _ H _).
  rewrite QcR_div by apply qn_fact_neq0. rewrite QcR_qn, rising_fact.
  rewrite (stencil_real cs a b 1%Qc Ha Hb Hnz) by (intros xs Hxs; rewrite QcR_1; apply Hpos; exact Hxs).
  rewrite QcR_1. reflexivity.
Qed.
