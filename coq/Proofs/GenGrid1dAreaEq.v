(* C08, source-derived model of the BORDER BOOKKEEPING: Grid1d.set_current_area as GENERATED from sparseSpACE/Grid.py
   (coq/Gen/Grid1dAreaGen.v, harness/translate/py2gallina_c08_area.py) writes exactly the attribute values that the hand model
   Model/LocalGrids.v transcribes (num_points, num_points_with_boundary, lowerBorder / upperBorder = borders, spacing, length), for
   EVERY object state before the call (stale attribute values of earlier areas included), every area and level, and every subclass
   whose count depends on the record only through the boundary flag once start / end / level are set. *)
From Coq Require Import ZArith List QArith Qcanon Bool Arith Lia.
From SG Require Import Base.QcUtil Base.PyLib Base.PyNum Model.Tensor Model.LocalGrids Model.LocalRules Gen.Grid1dAreaGen
  Proofs.LocalGridsBase.
Import ListNotations.
Open Scope Z_scope.

Local Arguments Z.add : simpl never.
Local Arguments Z.sub : simpl never.

(* the touch tests of the generated code are touch_tol of Model/LocalRules.v *)
Lemma gen_touches self :
  Grid1d_touches_lower_boundary self = touch_tol (f_start self) (f_a self) (f_a self) (f_b self) /\
  Grid1d_touches_upper_boundary self = touch_tol (f_end self) (f_b self) (f_a self) (f_b self).
Proof. split; reflexivity. Qed.

Ltac rec_eval := cbv beta iota zeta delta [set_start set_end set_level set_num_points set_boundary set_num_points_with_boundary
    set_length set_lowerBorder set_upperBorder set_spacing f_boundary f_a f_b f_start f_end f_level f_num_points
    f_num_points_with_boundary f_length f_lowerBorder f_upperBorder f_spacing Grid1d_touches_lower_boundary Grid1d_touches_upper_boundary].

Lemma zltb_nat n m : (Z.of_nat n <? Z.of_nat m) = (n <? m)%nat.
Proof. destruct (Nat.ltb_spec n m); [apply Z.ltb_lt | apply Z.ltb_ge]; lia. Qed.
Lemma zeqb_nat n m : (Z.of_nat n =? Z.of_nat m) = (n =? m)%nat.
Proof. destruct (Nat.eqb_spec n m); [apply Z.eqb_eq | apply Z.eqb_neq]; lia. Qed.

Section Area.
(* the subclass: its count is a function N of the boundary flag once the area is set *)
Variable oracle : Grid1d_t -> Z -> option Z.
Variables (a b s e : Qc) (level : Z) (N : bool -> nat).
Hypothesis Horacle : forall self, f_a self = a -> f_b self = b -> f_start self = s -> f_end self = e ->
  oracle self level = Some (Z.of_nat (N (f_boundary self))).
Hypothesis Hpos : (1 <= N true)%nat.

Definition tl : bool := touch_tol s a a b.
Definition tr : bool := touch_tol e b a b.

Theorem gen_set_current_area self0 : f_a self0 = a -> f_b self0 = b ->
  exists self', Grid1d_set_current_area oracle self0 s e level = Some self' /\
    f_boundary self' = f_boundary self0 /\ f_a self' = a /\ f_b self' = b /\
    f_start self' = s /\ f_end self' = e /\ f_level self' = level /\
    f_num_points self' = Z.of_nat (N (f_boundary self0)) /\
    f_num_points_with_boundary self' = Z.of_nat (N true) /\
    f_length self' = (e - s)%Qc /\
    (f_lowerBorder self', f_upperBorder self')
      = (Z.of_nat (fst (borders (f_boundary self0) (N (f_boundary self0)) (N true) tl tr)),
         Z.of_nat (snd (borders (f_boundary self0) (N (f_boundary self0)) (N true) tl tr))) /\
    f_spacing self' = (if (N true =? 1)%nat then None else Some (spacing s e (N true))).
Proof.
  intros Ha Hb. destruct self0 as [bnd0 a0 b0 s0 e0 l0 np0 npwb0 len0 lo0 up0 sp0]. cbn [f_a f_b] in Ha, Hb. subst a0 b0.
  unfold Grid1d_set_current_area.
  (* call-by-value evaluation of the record updates (every update yields a record literal before it is used again) *)
  rec_eval. rewrite Horacle by reflexivity. rec_eval. rewrite Horacle by reflexivity. rec_eval.
  assert (Hdiv : (N true =? 1)%nat = false ->
            py_fdiv (e - s)%Qc (py_Z2Qc (Z.of_nat (N true) - 1)) = Some (spacing s e (N true))).
  { intro H1. apply Nat.eqb_neq in H1. unfold py_fdiv, spacing.
    replace (Z.of_nat (N true) - 1) with (Z.of_nat (N true - 1)) by lia.
    change (py_Z2Qc (Z.of_nat (N true - 1))) with (qn (N true - 1)).
    destruct (N true - 1)%nat as [|m] eqn:Em; [lia|].
    destruct (Qc_eqb (qn (S m)) 0) eqn:Eq; [apply Qc_eqb_eq in Eq; exfalso; exact (qn_S_neq0 m Eq) | reflexivity]. }
  unfold borders, tl, tr, touch_tol.
  (* evaluate, then split on the next visible test (flag, count test, touch tests, spacing guard) - on both sides at once *)
  timeout 120 (
    repeat (rec_eval; change (py_Qc 1 100000000) with (Q2Qc (1 # 100000000)); rewrite ?zltb_nat;
            try (change (Z.of_nat (N true) =? 1) with (Z.of_nat (N true) =? Z.of_nat 1); rewrite zeqb_nat);
            match goal with
            | |- context [negb bnd0] => destruct bnd0; cbn [negb andb]
            | |- context [if (N false <? N true)%nat then _ else _] => destruct (N false <? N true)%nat eqn:?; cbn [andb]
            | |- context [if Qc_leb ?x ?y then _ else _] => destruct (Qc_leb x y) eqn:?
            | |- context [if (N true =? 1)%nat then _ else _] => destruct (N true =? 1)%nat eqn:?; rewrite ?(Hdiv eq_refl)
            end);
    rec_eval; eexists; (split; [reflexivity|]);
    repeat split; try reflexivity; try (cbn [fst snd]; f_equal; lia) ).
Qed.
End Area.
