(* C19 (phase 3) — pre-scaled input data sets over the affine-map model of C18 (Model/DataSetOff.v, InvO):
   an input that is already scaled passes _internal_scaling only through DataSet.same_scaling.  Acceptance forces the accumulated
   FACTOR of the input to equal the factor of the learning map; it does NOT force the accumulated OFFSET: a translated data set of the
   same extent, min-max scaled to the internal range, is accepted and classified at wrong positions (witness).  With the accumulated
   affine maps compared (proposed repair) every tracked input is either rejected or sits at the learning map of its ORIGINAL coordinates. *)
From Coq Require Import ZArith List QArith Qcanon Bool Lia Arith Permutation.
From SG Require Import Base.QcUtil Model.DataSet Model.DataSetOff Model.Classify Model.ClassifyLearn
  Proofs.DataSetVec Proofs.DataSetScale Proofs.DataSetRevert Proofs.DataSetMove Proofs.DataSetTrack Proofs.DataSetOffP
  Proofs.ClassifyProofs.
Import ListNotations.
Open Scope Qc_scope.

Lemma forallb_map2_eqb_eq (x y : row) : length x = length y -> forallb (fun b => b) (map2 Qc_eqb x y) = true -> x = y.
Proof.
  revert y. induction x as [|a x IH]; intros [|b y] Hl H; simpl in *; try discriminate; [reflexivity|].
  apply andb_true_iff in H. destruct H as [H1 H2]. apply Qc_eqb_eq in H1. subst b. f_equal. apply IH; [lia | exact H2].
Qed.

Lemma fac_cmp_true_vec v n f g x y : fac_vec n f = Some x -> fac_vec n g = Some y -> fac_cmp v f g = Some true -> x = y.
Proof.
  intros Hf Hg H. destruct f as [|q|l], g as [|q'|l']; simpl in *; try discriminate.
  - inversion Hf; inversion Hg; subst. inversion H as [E]. apply Qc_eqb_eq in E. subst. reflexivity.
  - destruct (Nat.eqb (length l) n) eqn:E1; [|discriminate]. destruct (Nat.eqb (length l') n) eqn:E2; [|discriminate].
    apply Nat.eqb_eq in E1, E2. inversion Hf; inversion Hg; subst x y. inversion H as [E]. clear H.
    destruct (v_fullcmp v); [apply row_eqb_eq; exact E | apply forallb_map2_eqb_eq; [lia | exact E]].
Qed.

Lemma same_scaling_true_factor v n a b x y : scaled a = true -> scaled b = true ->
  fac_vec n (sfactor a) = Some x -> fac_vec n (sfactor b) = Some y -> same_scaling v a b = Some true -> x = y.
Proof.
  intros Sa Sb Ha Hb H. unfold same_scaling in H. rewrite Sa, Sb in H. cbn [Bool.eqb negb] in H.
  destruct (range_cmp v (srange a) (srange b)) as [[br|]|]; [|discriminate|discriminate].
  destruct (fac_cmp v (sfactor a) (sfactor b)) as [bf|] eqn:E; [|discriminate].
  inversion H as [E2]. apply andb_true_iff in E2. destruct E2 as [_ E2]. subst bf. exact (fac_cmp_true_vec v n _ _ _ _ Ha Hb E).
Qed.

Lemma internal_scaling_scaled_accept v st d d1 : scaled d = true -> internal_scaling v st d = (d1, false) ->
  same_scaling v (c_scaled_attrs st) d = Some true /\
  exists r, remove_samples v (out_indices (values d)) d = (d1, Some r).
Proof.
  intros Sd H. unfold internal_scaling in H. rewrite Sd in H.
  destruct (same_scaling v (c_scaled_attrs st) d) as [[|]|]; try (inversion H; fail). split; [reflexivity|].
  destruct (remove_samples v (out_indices (values d)) d) as [d2 [r|]]; inversion H; subst. exists r. reflexivity.
Qed.

Section Prescaled.
  Variables (n : nat) (v : variant) (st : cstate) (sd d : dso) (Rl R : list sample) (fl cl fv cv : row).
  Hypothesis Hsd : InvO n sd Rl fl cl.            (* the learning data: rows = learning map (fl, cl) of the original labelled samples *)
  Hypothesis Hd : InvO n d R fv cv.               (* the input: accumulated map (fv, cv) of its original samples, however it was scaled *)
  Hypothesis Hst : c_scaled_attrs st = base sd.

  (* acceptance by the code as found forces equal FACTORS, and then exactly the out-of-range samples (at their CURRENT positions) go *)
  Theorem prescaled_accepted_same_factor d1 : internal_scaling v st (base d) = (d1, false) ->
    fv = fl /\
    exists r, Permutation (rows r ++ rows d1) (rows (base d)) /\
      Forall (fun s => out_of_range (fst s) = false) (rows d1) /\ Forall (fun s => out_of_range (fst s) = true) (rows r).
  Proof.
    intro H. destruct Hsd as [Is _], Hd as [Id _].
    destruct (internal_scaling_scaled_accept v st (base d) d1 (b_scaled _ _ _ _ _ Id) H) as [Hs [r Hr]].
    rewrite Hst in Hs. split.
    - symmetry. exact (same_scaling_true_factor v n _ _ _ _ (b_scaled _ _ _ _ _ Is) (b_scaled _ _ _ _ _ Id) (b_fac _ _ _ _ _ Is) (b_fac _ _ _ _ _ Id) Hs).
    - exists r. exact (filter_removes_exactly_out_of_range v _ _ _ Hr).
  Qed.

  (* when also the accumulated OFFSETS agree, the input sits at the learning map of its ORIGINAL coordinates *)
  Theorem prescaled_equal_maps_positions : fv = fl -> cv = cl -> rows (base d) = map_rows (aff fl cl) R.
  Proof. intros -> ->. destruct Hd as [Id _]. exact (b_rows _ _ _ _ _ Id). Qed.

  (* the repaired gate: either rejected, or accepted and then: same affine map, every sample at the learning map of its ORIGINAL
     coordinates, exactly the samples whose learning-map position is out of range removed and reported, labels attached *)
  Theorem prescaled_repaired_rejects_or_places d1 e : internal_scaling_o true v st sd d = (d1, e) ->
    e = true \/
    (fv = fl /\ cv = cl /\ rows (base d) = map_rows (aff fl cl) R /\
     exists r, Permutation (rows r ++ rows d1) (map_rows (aff fl cl) R) /\
       Forall (fun s => out_of_range (fst s) = false) (rows d1) /\ Forall (fun s => out_of_range (fst s) = true) (rows r)).
  Proof.
    intro H. destruct e; [left; reflexivity | right].
    unfold internal_scaling_o in H. pose proof Hd as [Id _]. rewrite (b_scaled _ _ _ _ _ Id) in H. cbn [andb] in H.
    destruct (same_affine sd d) eqn:Ea; cbn [negb] in H; [|inversion H].
    destruct (same_affine_tracked n sd d Rl R fl cl fv cv Hsd Hd Ea) as [E1 E2].
    destruct (prescaled_accepted_same_factor d1 H) as [_ [r Hr]].
    assert (Er : rows (base d) = map_rows (aff fl cl) R) by (apply prescaled_equal_maps_positions; congruence).
    split; [congruence|]. split; [congruence|]. split; [exact Er|]. exists r. rewrite <- Er. exact Hr.
  Qed.
End Prescaled.

(* ------------------------------------------------------------------ witness: the code as found accepts a translated set at wrong positions *)
Definition exq (a b : Z) : row := [Q2Qc (inject_Z a); Q2Qc (inject_Z b)].
Definition exp_learn : dso := fst (scale_range_o true c_lo c_hi true (fresh_o [(exq 0 0, 0%Z); (exq 1 1, 0%Z); (exq 4 4, 1%Z); (exq 5 5, 1%Z)])).
Definition exp_orig : list sample := [(exq 2 2, 1%Z); (exq 7 7, 1%Z); (exq 3 3, 1%Z)].      (* the learning cloud moved by (+2, +2): same extent *)
Definition exp_input : dso := fst (scale_range_o true c_lo c_hi true (fresh_o exp_orig)).
Definition exp_st : cstate := mkC (exq 0 0) (exq 5 5) (match sfactor (base exp_learn) with FArr l => l | _ => [] end) (base exp_learn) [0%Z; 1%Z] [] [] true.
