(* C07, coarsen_grid version 2 (lmin-aware arithmetic, base = lmin): GENERAL validity of the local combination, every
   dimension >= 1, every lmin <= lmax, every coarsening value c >= 0.
   The loop lowers the cap (current maximal level) m -> m-1 while 2 m >= thr = lmax + lmin - c + 2 and the remaining budget
   covers the number of entries at the cap.  For a level vector k with maximum K (absolute levels) and every l of the scheme:
     X  2 K <= thr - 1            : [T l >= k] = [l >= k]                       (the cap never goes below K)
     Y  #{i : k_i = K} >= c + 1    : [T l >= k] = [l >= k]                       (the round at cap K is never affordable)
     Z1 K unique, 2 K >= thr       : [T l >= k] = [l >= k + c e_i0]              (only the i0-th level may exceed K-1)
     Z2 2 <= #{k_i = K} <= c, 2 K >= thr : no l of the scheme has T l >= k       (two levels above K-1 make the cap K-1 affordable)
   so the dominating sums are dominating sums of the closed-form scheme (std_IE). *)
From Coq Require Import ZArith List Bool QArith Qcanon Lia.
From SG Require Import Base.QcUtil Model.CombiScheme Model.ExtendSplit Proofs.SchemeBasics Proofs.SchemeClosedForm
     Proofs.ESCombi Proofs.ESV0 Proofs.ESDict Proofs.ESShift Proofs.ESV12Low.
Import ListNotations.
Open Scope Z_scope.
Local Arguments Z.add : simpl never.
Local Arguments Z.sub : simpl never.
Local Arguments Z.mul : simpl never.
Local Arguments Z.leb : simpl never.
Local Arguments Z.geb : simpl never.
Local Arguments Z.gtb : simpl never.
Local Arguments Z.eqb : simpl never.
Local Arguments Z.max : simpl never.

(* ---------------------------------------------------------------- cost of capping at level j *)
Definition cost (j : Z) (t : lv) : Z := sumZ (map (fun x => Z.max (x - j) 0) t).

Lemma cost_nil j : cost j [] = 0. Proof. reflexivity. Qed.
Lemma cost_cons j x t : cost j (x :: t) = Z.max (x - j) 0 + cost j t.
Proof. unfold cost. cbn [map]. apply sumZ_cons. Qed.
Lemma cost_app j a b : cost j (a ++ b) = cost j a + cost j b.
Proof. unfold cost. rewrite map_app, sumZ_app. reflexivity. Qed.
Lemma cost_nonneg j t : 0 <= cost j t.
Proof. induction t as [|x t IH]; [rewrite cost_nil; lia | rewrite cost_cons; lia]. Qed.

Lemma count_eq_cons m x t : count_eq m (x :: t) = (if x =? m then 1 else 0) + count_eq m t.
Proof. unfold count_eq. cbn [filter]. destruct (x =? m); cbn [length]; lia. Qed.
Lemma count_eq_nonneg m t : 0 <= count_eq m t.
Proof. unfold count_eq. lia. Qed.
Lemma count_eq_pos m t : In m t -> 1 <= count_eq m t.
Proof.
  induction t as [|x t IH]; [intros []|]. intro H. rewrite count_eq_cons. pose proof (count_eq_nonneg m t).
  destruct (Z.eqb_spec x m); [lia|]. destruct H as [E | H]; [congruence | specialize (IH H); lia].
Qed.

Lemma cost_dec_all j m t : j < m -> cost j (dec_all m t) = cost j t - count_eq m t.
Proof.
  intro H. induction t as [|x t IH]; [reflexivity|]. unfold dec_all in *. cbn [map]. rewrite !cost_cons, count_eq_cons, IH.
  destruct (Z.eqb_spec x m); lia.
Qed.

Lemma cost_ge_count j m t : j < m -> count_eq m t <= cost j t.
Proof.
  intro H. induction t as [|x t IH]; [rewrite cost_nil; unfold count_eq; simpl; lia|]. rewrite cost_cons, count_eq_cons.
  destruct (Z.eqb_spec x m); lia.
Qed.

Lemma cost_zero_le j t : cost j t <= 0 -> Forall (fun x => x <= j) t.
Proof.
  induction t as [|x t IH]; [constructor|]. rewrite cost_cons. intro H. pose proof (cost_nonneg j t).
  constructor; [lia | apply IH; lia].
Qed.

Lemma maxl_le_all t j : t <> [] -> maxl t <= j -> Forall (fun x => x <= j) t.
Proof. intros Hne H. apply Forall_forall. intros x Hx. pose proof (maxl_ge t x Hx). lia. Qed.

Lemma dec_all_length m t : length (dec_all m t) = length t.
Proof. apply map_length. Qed.

(* ---------------------------------------------------------------- the loop of version 2 *)
Section V2.
Variables (dimz lmin lmax c : Z) (td : bool).
Let thr := lmax + lmin - c + 2.
Definition L2 (fuel : nat) (c' : Z) (t : lv) : lv := v12_loop fuel 2 dimz lmin lmin lmax c td c' t.

Lemma L2_step f c' t : L2 (S f) c' t =
  if c' >? 0 then
    if maxl t =? lmin then t
    else if (2 * maxl t >=? thr) && (c' >=? count_eq (maxl t) t) then L2 f (c' - count_eq (maxl t) t) (dec_all (maxl t) t) else t
  else t.
Proof.
  unfold L2. cbn [v12_loop]. destruct (c' >? 0); [|reflexivity]. destruct (maxl t =? lmin); [reflexivity|].
  change (2 =? 1) with false. cbv iota.
  replace (lmax + (dimz - 1) * lmin - maxl t - (dimz - 2) * lmin - maxl t + 2) with (lmax + lmin - 2 * maxl t + 2) by ring.
  assert (E : (c >=? lmax + lmin - 2 * maxl t + 2) = (2 * maxl t >=? thr)).
  { unfold thr. destruct (Z.geb_spec c (lmax + lmin - 2 * maxl t + 2)), (Z.geb_spec (2 * maxl t) (lmax + lmin - c + 2)); try reflexivity; lia. }
  rewrite E. reflexivity.
Qed.

Lemma L2_le : forall f c' t, Forall2 (fun x y => y <= x) t (L2 f c' t).
Proof. intros f c' t. unfold L2. eapply low_ok_le. apply v12_loop_low. Qed.

Lemma L2_length f c' t : length (L2 f c' t) = length t.
Proof. pose proof (L2_le f c' t) as H. symmetry. clear -H. induction H; simpl; congruence. Qed.

Lemma Forall_le_trans (t u : lv) j : Forall2 (fun x y => y <= x) t u -> Forall (fun x => x <= j) t -> Forall (fun x => x <= j) u.
Proof. induction 1 as [|x y t u H _ IH]; intro F; [constructor|]. inversion F; subst. constructor; [lia | apply IH; assumption]. Qed.

(* never below lmin *)
Lemma L2_ge_lmin : forall f c' t, Forall (fun x => lmin <= x) t -> Forall (fun x => lmin <= x) (L2 f c' t).
Proof.
  induction f as [|f IH]; intros c' t H; [exact H|]. rewrite L2_step.
  destruct (c' >? 0); [|exact H]. destruct (Z.eqb_spec (maxl t) lmin) as [E | N]; [exact H|].
  destruct ((2 * maxl t >=? thr) && (c' >=? count_eq (maxl t) t)); [|exact H].
  apply IH. unfold dec_all. apply Forall_forall. intros y Hy. apply in_map_iff in Hy. destruct Hy as [x [E Hx]]. subst y.
  rewrite Forall_forall in H. pose proof (H x Hx). destruct (Z.eqb_spec x (maxl t)); lia.
Qed.

(* REACH: if capping at j is affordable and allowed by the threshold, the result lies below the cap j *)
Lemma L2_reach j : lmin <= j -> thr <= 2 * (j + 1) -> forall f c' t, t <> [] -> c' <= Z.of_nat f -> cost j t <= c' ->
  Forall (fun x => x <= j) (L2 f c' t).
Proof.
  intros Hj Ht. induction f as [|f IH]; intros c' t Hne Hf Hc.
  - unfold L2. cbn [v12_loop]. apply cost_zero_le. change (Z.of_nat 0) with 0 in Hf. lia.
  - rewrite L2_step. destruct (Z.le_gt_cases (maxl t) j) as [Hm | Hm].
    + assert (F : Forall (fun x => x <= j) t) by (apply maxl_le_all; assumption).
      destruct (c' >? 0); [|exact F]. destruct (maxl t =? lmin); [exact F|].
      destruct ((2 * maxl t >=? thr) && (c' >=? count_eq (maxl t) t)); [|exact F].
      eapply Forall_le_trans; [apply L2_le|]. unfold dec_all. apply Forall_forall. intros y Hy. apply in_map_iff in Hy.
      destruct Hy as [x [E Hx]]. subst y. rewrite Forall_forall in F. pose proof (F x Hx). destruct (x =? maxl t); lia.
    + pose proof (cost_ge_count j (maxl t) t Hm) as Hcc. pose proof (count_eq_pos (maxl t) t (maxl_in t Hne)) as Hp.
      destruct (Z.gtb_spec c' 0) as [_ | Hz]; [|lia].
      destruct (Z.eqb_spec (maxl t) lmin) as [E | _]; [lia|].
      destruct (Z.geb_spec (2 * maxl t) thr) as [_ | H1]; [|lia].
      destruct (Z.geb_spec c' (count_eq (maxl t) t)) as [_ | H2]; [|lia]. cbn [andb].
      apply IH; [destruct t; [congruence | discriminate] | lia | rewrite cost_dec_all by exact Hm; lia].
Qed.
End V2.

(* ---------------------------------------------------------------- list facts about domination *)
Lemma geb_F2 : forall t k, lv_geb t k = true <-> Forall2 (fun x y => y <= x) t k.
Proof. exact lv_geb_spec. Qed.

Lemma geb_trans_le (l u k : lv) : Forall2 (fun x y => y <= x) l u -> lv_geb u k = true -> lv_geb l k = true.
Proof.
  intros H G. apply geb_F2 in G. apply geb_F2. revert k G. induction H as [|x y l u Hxy _ IH]; intros k G; inversion G; subst; constructor;
    [lia | apply IH; assumption].
Qed.

Lemma geb_dec_all_lt m : forall t k, lv_geb t k = true -> Forall (fun y => y < m) k -> lv_geb (dec_all m t) k = true.
Proof.
  intros t k G F. apply geb_F2 in G. apply geb_F2. unfold dec_all. induction G as [|x y t k Hxy _ IH]; [constructor|].
  inversion F; subst. cbn [map]. constructor; [destruct (Z.eqb_spec x m); lia | apply IH; assumption].
Qed.

Lemma geb_max_ge t k x : lv_geb t k = true -> In x k -> x <= maxl t.
Proof.
  intros G H. apply geb_F2 in G. assert (E : exists y, In y t /\ x <= y).
  { induction G as [|a b t k Hab _ IH]; [destruct H|]. destruct H as [E | H]; [subst; exists a; split; [left; reflexivity | lia]|].
    destruct (IH H) as [y [Hy Hxy]]. exists y. split; [right; exact Hy | exact Hxy]. }
  destruct E as [y [Hy Hxy]]. pose proof (maxl_ge t y Hy). lia.
Qed.

Lemma count_le_capped K : forall t k, lv_geb t k = true -> Forall (fun x => x <= K) t -> count_eq K k <= count_eq K t.
Proof.
  intros t k G F. apply geb_F2 in G. induction G as [|x y t k Hxy _ IH]; [lia|]. inversion F; subst.
  rewrite !count_eq_cons. specialize (IH H2). destruct (Z.eqb_spec y K), (Z.eqb_spec x K); lia.
Qed.

Fixpoint big (j : Z) (t : lv) : Z := match t with [] => 0 | x :: r => (if j <? x then 1 else 0) + big j r end.

Lemma big_nonneg j t : 0 <= big j t.
Proof. induction t as [|x t IH]; simpl; [lia|]. destruct (j <? x); lia. Qed.
Lemma big_app j a b : big j (a ++ b) = big j a + big j b.
Proof. induction a as [|x a IH]; simpl; [lia | rewrite IH; lia]. Qed.

Lemma count_le_big K : forall t k, lv_geb t k = true -> count_eq K k <= big (K - 1) t.
Proof.
  intros t k G. apply geb_F2 in G. induction G as [|x y t k Hxy _ IH]; [unfold count_eq; simpl; lia|].
  rewrite count_eq_cons. cbn [big]. destruct (Z.eqb_spec y K), (Z.ltb_spec (K - 1) x); lia.
Qed.

Lemma cost_big lmin j : lmin <= j -> forall t, Forall (fun x => lmin <= x) t ->
  cost j t + (j - lmin) * big j t <= sumZ t - lmin * Z.of_nat (length t).
Proof.
  intros Hj t. induction 1 as [|x t Hx _ IH]; [rewrite cost_nil; simpl; lia|].
  rewrite cost_cons, sumZ_cons. cbn [big length]. rewrite Nat2Z.inj_succ. destruct (Z.ltb_spec j x); nia.
Qed.

Lemma big_zero_cost j t : big j t <= 0 -> cost j t = 0.
Proof.
  induction t as [|x t IH]; [reflexivity|]. cbn [big]. rewrite cost_cons. pose proof (big_nonneg j t).
  destruct (Z.ltb_spec j x); intro HH; [lia | rewrite IH by lia; lia].
Qed.

Lemma geb_app : forall a c b d, length a = length c -> lv_geb (a ++ b) (c ++ d) = lv_geb a c && lv_geb b d.
Proof.
  induction a as [|x a IH]; intros [|y c] b d L; simpl in *; try discriminate; [reflexivity|].
  rewrite IH by lia. rewrite andb_assoc. reflexivity.
Qed.

Lemma geb_split : forall kp y kq t, lv_geb t (kp ++ y :: kq) = true ->
  exists tp x tq, t = tp ++ x :: tq /\ length tp = length kp /\ lv_geb tp kp = true /\ y <= x /\ lv_geb tq kq = true.
Proof.
  induction kp as [|a kp IH]; intros y kq [|x t] G; simpl in G; try discriminate.
  - apply andb_true_iff in G. destruct G as [G1 G2]. exists [], x, t. repeat split; try reflexivity; [apply Z.leb_le; exact G1 | exact G2].
  - apply andb_true_iff in G. destruct G as [G1 G2]. destruct (IH y kq t G2) as [tp [x' [tq [E [L [A [B C]]]]]]].
    exists (x :: tp), x', tq. subst t. repeat split; try assumption; [simpl; congruence | simpl; rewrite G1, A; reflexivity].
Qed.

(* ---------------------------------------------------------------- the two "not reached" invariants *)
Section Keep.
Variables (dimz lmin lmax c : Z) (td : bool).

(* Y: at least c+1 entries of k at the maximum K: the round at cap K is never affordable *)
Lemma L2_keep_Y K k : Forall (fun x => x <= K) k -> c + 1 <= count_eq K k ->
  forall f c' t, c' <= c -> lv_geb t k = true -> lv_geb (L2 dimz lmin lmax c td f c' t) k = true.
Proof.
  intros FK HA. induction f as [|f IH]; intros c' t Hc G; [exact G|]. rewrite L2_step.
  destruct (Z.gtb_spec c' 0) as [Hpos | _]; [|exact G]. destruct (maxl t =? lmin); [exact G|].
  destruct (2 * maxl t >=? lmax + lmin - c + 2); [|exact G]. cbn [andb].
  destruct (Z.geb_spec c' (count_eq (maxl t) t)) as [H2 | _]; [|exact G].
  assert (HK : In K k).
  { destruct (in_dec Z.eq_dec K k) as [H | H]; [exact H|]. exfalso.
    assert (count_eq K k = 0); [|lia]. clear -H. induction k as [|x k IHk]; [reflexivity|]. rewrite count_eq_cons.
    destruct (Z.eqb_spec x K); [exfalso; apply H; left; assumption|]. rewrite IHk; [lia|]. intro H'. apply H. right. exact H'. }
  pose proof (geb_max_ge t k K G HK) as Hm.
  assert (Hlt : K < maxl t).
  { destruct (Z.eq_dec (maxl t) K) as [E | N]; [|lia]. exfalso.
    assert (F : Forall (fun x => x <= K) t) by (apply Forall_forall; intros x Hx; pose proof (maxl_ge t x Hx); lia).
    pose proof (count_le_capped K t k G F). rewrite E in H2. lia. }
  apply IH; [pose proof (count_eq_nonneg (maxl t) t); lia|].
  apply geb_dec_all_lt; [exact G|]. eapply Forall_impl; [|exact FK]. simpl. intros; lia.
Qed.

(* Z1: the i0-th level carries the whole remaining budget above K: it stays >= K, the others stay untouched below K *)
Lemma L2_keep_Z1 K kp kq : Forall (fun x => x < K) kp -> Forall (fun x => x < K) kq ->
  forall f c' t, 0 <= c' -> lv_geb t (kp ++ (K + c') :: kq) = true ->
  lv_geb (L2 dimz lmin lmax c td f c' t) (kp ++ K :: kq) = true.
Proof.
  intros Fp Fq.
  assert (Weak : forall c' t, 0 <= c' -> lv_geb t (kp ++ (K + c') :: kq) = true -> lv_geb t (kp ++ K :: kq) = true).
  { intros c' t Hc G. destruct (geb_split _ _ _ _ G) as [tp [x [tq [E [L [A [B C]]]]]]]. subst t.
    rewrite geb_app by exact L. cbn [lv_geb]. rewrite A, C. destruct (Z.leb_spec K x); [reflexivity | lia]. }
  induction f as [|f IH]; intros c' t Hc G; [apply (Weak c'); assumption|]. rewrite L2_step.
  destruct (Z.gtb_spec c' 0) as [Hpos | _]; [|apply (Weak c'); assumption].
  destruct (maxl t =? lmin); [apply (Weak c'); assumption|].
  destruct (2 * maxl t >=? lmax + lmin - c + 2); [|apply (Weak c'); assumption]. cbn [andb].
  destruct (Z.geb_spec c' (count_eq (maxl t) t)) as [H2 | _]; [|apply (Weak c'); assumption].
  destruct (geb_split _ _ _ _ G) as [tp [x [tq [E [L [A [B C]]]]]]].
  assert (Hne : t <> []) by (subst t; destruct tp; discriminate).
  pose proof (count_eq_pos (maxl t) t (maxl_in t Hne)) as Hocc.
  assert (Hmx : x <= maxl t) by (apply maxl_ge; subst t; apply in_or_app; right; left; reflexivity).
  apply IH; [lia|]. set (m := maxl t) in *. set (occ := count_eq m t) in *. clearbody m occ. subst t.
  unfold dec_all. rewrite map_app. cbn [map]. rewrite geb_app by (rewrite map_length; exact L). cbn [lv_geb].
  fold (dec_all m tp). fold (dec_all m tq).
  rewrite (geb_dec_all_lt m tp kp A) by (eapply Forall_impl; [|exact Fp]; simpl; intros; lia).
  rewrite (geb_dec_all_lt m tq kq C) by (eapply Forall_impl; [|exact Fq]; simpl; intros; lia).
  destruct (Z.eqb_spec x m); destruct (Z.leb_spec (K + (c' - occ)) (x - 1)); destruct (Z.leb_spec (K + (c' - occ)) x);
    try reflexivity; lia.
Qed.
End Keep.

(* ---------------------------------------------------------------- assembly *)
Lemma low_ok_geb1 thr : forall t u k, Forall2 (low_ok thr) t u -> Forall (fun x => 2 * x <= thr - 1) k ->
  lv_geb u k = lv_geb t k.
Proof.
  intros t u k H. revert k. induction H as [|x y t u Hxy _ IH]; intros [|z k] Hk; simpl; try reflexivity.
  inversion Hk as [|? ? Hz Hk']; subst. rewrite (IH k Hk'). f_equal.
  destruct Hxy as [E | [L T]]; [subst; reflexivity|].
  destruct (Z.leb_spec z y), (Z.leb_spec z x); try reflexivity; lia.
Qed.

Lemma count_eq_app m a b : count_eq m (a ++ b) = count_eq m a + count_eq m b.
Proof. unfold count_eq. rewrite filter_app, app_length. lia. Qed.

Lemma count_zero_notin m t : count_eq m t <= 0 -> ~ In m t.
Proof. intros H Hin. pose proof (count_eq_pos m t Hin). lia. Qed.

Lemma geb_false_below (u k : lv) K : In K k -> u <> [] -> Forall (fun x => x <= K - 1) u -> lv_geb u k = false.
Proof.
  intros HK Hne F. destruct (lv_geb u k) eqn:G; [|reflexivity]. exfalso.
  pose proof (geb_max_ge u k K G HK) as H. pose proof (maxl_in u Hne) as Hin. rewrite Forall_forall in F. specialize (F _ Hin). lia.
Qed.

Section Final.
Variables (n : nat) (lmin lmax c : Z).
Hypotheses (Hle : lmin <= lmax) (Hc : 0 <= c <= lmax - lmin).
Let d := S n.
Let cp := mkCP d 2 lmin lmax lmin.
Let sch := combi_scheme_standard d lmin lmax.
Let thr := lmax + lmin - c + 2.
Let T (td : bool) (l : lv) : lv := L2 (Z.of_nat d) lmin lmax c td (Z.to_nat c) c l.

Lemma T_low td l : Forall2 (low_ok thr) l (T td l).
Proof. unfold T, L2, thr. replace (lmax + lmin - c + 2) with (lmax + lmin - c + v12_delta 2) by reflexivity. apply v12_loop_low. Qed.

Lemma sch_facts l cf : In (l, cf) sch -> length l = d /\ Forall (fun x => lmin <= x) l /\ sumZ l <= lmax - lmin + Z.of_nat d * lmin /\ l <> [].
Proof.
  intro H. apply std_member in H. destruct H as [q [_ [L [F [Sm _]]]]]. fold d in L, Sm. split; [exact L | split; [exact F | split; [lia|]]].
  intro E. subst l. discriminate.
Qed.

(* capping at K-1 is affordable => T l does not dominate k *)
Lemma reach_false K k td l cf : In (l, cf) sch -> In K k -> thr <= 2 * K -> cost (K - 1) l <= c -> lv_geb (T td l) k = false.
Proof.
  intros Hl HK Ht Hcost. destruct (sch_facts l cf Hl) as [L [F [Sm Hne]]].
  apply (geb_false_below _ _ K HK).
  - intro E. apply (f_equal (@length Z)) in E. unfold T in E. rewrite L2_length in E. destruct l; [congruence | discriminate].
  - unfold T. apply L2_reach; [unfold thr in Ht; lia | lia | exact Hne | lia | exact Hcost].
Qed.

(* two levels above K-1 make the cap K-1 affordable *)
Lemma two_big_cost K l cf : In (l, cf) sch -> thr <= 2 * K -> 2 <= big (K - 1) l -> cost (K - 1) l <= c.
Proof.
  intros Hl Ht Hb. destruct (sch_facts l cf Hl) as [L [F [Sm _]]].
  assert (Hj : lmin <= K - 1) by (unfold thr in Ht; lia).
  pose proof (cost_big lmin (K - 1) Hj l F) as CB. rewrite L in CB. unfold thr in Ht. nia.
Qed.

Lemma key k : length k = d -> Forall (fun x => lmin <= x) k ->
  (exists k2, length k2 = d /\ Forall (fun x => lmin <= x) k2 /\
              forall l cf td, In (l, cf) sch -> lv_geb (T td l) k = lv_geb l k2) \/
  (forall l cf td, In (l, cf) sch -> lv_geb (T td l) k = false).
Proof.
  intros Lk Fk. assert (Hne : k <> []) by (intro E; subst k; discriminate).
  pose proof (maxl_in k Hne) as HK.
  assert (FK : Forall (fun x => x <= maxl k) k) by (apply Forall_forall; intros x Hx; apply maxl_ge; exact Hx).
  remember (maxl k) as K eqn:EK. clear EK.
  assert (Same : forall l td, lv_geb l k = false -> lv_geb (T td l) k = false).
  { intros l td H. destruct (lv_geb (T td l) k) eqn:G; [|reflexivity].
    rewrite (geb_trans_le l (T td l) k (L2_le _ _ _ _ _ _ _ _) G) in H. discriminate. }
  destruct (Z.le_gt_cases (2 * K) (thr - 1)) as [HX | HX].
  - (* X *) left. exists k. split; [exact Lk | split; [exact Fk|]]. intros l cf td _.
    apply (low_ok_geb1 thr); [apply T_low|]. eapply Forall_impl; [|exact FK]. simpl. intros; lia.
  - assert (Ht : thr <= 2 * K) by lia.
    pose proof (count_eq_pos K k HK) as HA1.
    destruct (Z.le_gt_cases (c + 1) (count_eq K k)) as [HY | HY].
    + (* Y *) left. exists k. split; [exact Lk | split; [exact Fk|]]. intros l cf td _.
      destruct (lv_geb l k) eqn:G; [|apply Same; exact G].
      unfold T. apply (L2_keep_Y _ _ _ _ _ K k FK HY); [lia | exact G].
    + destruct (Z.le_gt_cases 2 (count_eq K k)) as [HZ2 | HZ1].
      * (* Z2 *) right. intros l cf td Hl. destruct (lv_geb l k) eqn:G; [|apply Same; exact G].
        apply (reach_false K k td l cf Hl HK Ht). apply (two_big_cost K l cf Hl Ht).
        pose proof (count_le_big K l k G). lia.
      * (* Z1 *) left. destruct (first_split K k HK) as [kp [kq [Ek Hnp]]].
        assert (Cq : count_eq K kq <= 0).
        { rewrite Ek in HZ1. rewrite count_eq_app, count_eq_cons, Z.eqb_refl in HZ1. pose proof (count_eq_nonneg K kp). lia. }
        assert (Fp : Forall (fun x => x < K) kp).
        { apply Forall_forall. intros x Hx. rewrite Forall_forall in FK. assert (x <= K) by (apply FK; rewrite Ek; apply in_or_app; left; exact Hx).
          assert (x <> K) by (intro E; subst x; exact (Hnp Hx)). lia. }
        assert (Fq : Forall (fun x => x < K) kq).
        { apply Forall_forall. intros x Hx. rewrite Forall_forall in FK.
          assert (x <= K) by (apply FK; rewrite Ek; apply in_or_app; right; right; exact Hx).
          assert (x <> K) by (intro E; subst x; exact (count_zero_notin K kq Cq Hx)). lia. }
        exists (kp ++ (K + c) :: kq). split; [|split].
        -- rewrite <- Lk, Ek, !app_length. reflexivity.
        -- rewrite Ek in Fk. apply Forall_app in Fk. destruct Fk as [F1 F2]. inversion F2 as [|? ? HK1 HK2]. apply Forall_app. split; [exact F1|].
           constructor; [lia | exact HK2].
        -- intros l cf td Hl. destruct (lv_geb l (kp ++ (K + c) :: kq)) eqn:G2.
           ++ unfold T. rewrite Ek. apply (L2_keep_Z1 _ _ _ _ _ K kp kq Fp Fq); [lia | exact G2].
           ++ destruct (lv_geb l k) eqn:G; [|apply Same; exact G].
              apply (reach_false K k td l cf Hl HK Ht).
              rewrite Ek in G. destruct (geb_split _ _ _ _ G) as [lp [x [lq [El [Ll [A [B C]]]]]]].
              rewrite El in G2. rewrite geb_app in G2 by exact Ll. cbn [lv_geb] in G2. rewrite A, C in G2.
              assert (Hx : x < K + c) by (destruct (Z.leb_spec (K + c) x); [discriminate | lia]).
              destruct (Z.le_gt_cases 1 (big (K - 1) lp + big (K - 1) lq)) as [Hb | Hb].
              ** apply (two_big_cost K l cf Hl Ht). rewrite El, big_app. cbn [big]. destruct (Z.ltb_spec (K - 1) x); lia.
              ** pose proof (big_nonneg (K - 1) lp). pose proof (big_nonneg (K - 1) lq).
                 rewrite El, cost_app, cost_cons, (big_zero_cost (K - 1) lp), (big_zero_cost (K - 1) lq) by lia. lia.
Qed.

Theorem local_combi_v2_wf : grids_wf d (local_combi cp c).
Proof.
  intros g Hg. unfold cp, d in Hg. rewrite (local_combi_v12_form n 2 lmin lmax lmin c ltac:(discriminate)) in Hg.
  apply in_map_iff in Hg. destruct Hg as [[l cf] [E Hl]]. subst g. cbn [fst snd].
  destruct (sch_facts l cf Hl) as [L [F _]]. split.
  - unfold sub_lmin. rewrite map_length. fold (L2 (Z.of_nat (S n)) lmin lmax c (lmax + (Z.of_nat (S n) - 1) * lmin - sumZ l =? 0) (Z.to_nat c) c l).
    rewrite L2_length. exact L.
  - fold (L2 (Z.of_nat (S n)) lmin lmax c (lmax + (Z.of_nat (S n) - 1) * lmin - sumZ l =? 0) (Z.to_nat c) c l).
    pose proof (L2_ge_lmin (Z.of_nat (S n)) lmin lmax c (lmax + (Z.of_nat (S n) - 1) * lmin - sumZ l =? 0) (Z.to_nat c) c l F) as G.
    unfold sub_lmin. apply Forall_forall. intros x Hx. apply in_map_iff in Hx. destruct Hx as [y [E Hy]]. subst x.
    rewrite Forall_forall in G. specialize (G y Hy). lia.
Qed.

Theorem local_combi_v2_IE : local_IE d (local_combi cp c).
Proof.
  intros kr Lk Pk [g [Hg Dg]].
  set (k := map (fun x => x + lmin) kr).
  assert (Lk' : length k = d) by (unfold k; rewrite map_length; exact Lk).
  assert (Fk : Forall (fun x => lmin <= x) k).
  { unfold k. apply Forall_forall. intros x Hx. apply in_map_iff in Hx. destruct Hx as [y [E Hy]]. subst x.
    rewrite Forall_forall in Pk. specialize (Pk y Hy). lia. }
  assert (Form : local_combi cp c = _) by (unfold cp, d; exact (local_combi_v12_form n 2 lmin lmax lmin c ltac:(discriminate))).
  assert (Term : forall l, lv_geb (sub_lmin lmin (v12_loop (Z.to_nat c) 2 (Z.of_nat d) lmin lmin lmax c
                                (lmax + (Z.of_nat d - 1) * lmin - sumZ l =? 0) c l)) kr
                           = lv_geb (T (lmax + (Z.of_nat d - 1) * lmin - sumZ l =? 0) l) k).
  { intro l. rewrite lv_geb_sub_lmin. reflexivity. }
  rewrite Form in Hg. apply in_map_iff in Hg. destruct Hg as [[l0 cf0] [Eg Hl0]]. subst g. cbn [fst snd] in Dg. rewrite Term in Dg.
  destruct (key k Lk' Fk) as [[k2 [L2k [F2 Eq]]] | Never].
  - assert (E : dominating_sum (local_combi cp c) kr = dominating_sum sch k2).
    { rewrite Form. unfold dominating_sum. rewrite map_map. f_equal. apply map_ext_in. intros [l cf] Hl. cbn [fst snd].
      rewrite Term, (Eq l cf _ Hl). reflexivity. }
    rewrite E. unfold sch, d. rewrite std_IE; [| exact Hle | exact L2k | exact F2].
    rewrite (Eq l0 cf0 _ Hl0) in Dg. apply lv_geb_sum in Dg. destruct (sch_facts l0 cf0 Hl0) as [_ [_ [Sm _]]].
    destruct (Z.leb_spec (sumZ k2) (lmax - lmin + Z.of_nat (S n) * lmin)); [reflexivity | unfold d in Sm; lia].
  - rewrite (Never l0 cf0 _ Hl0) in Dg. discriminate.
Qed.

Theorem local_combi_v2_valid : valid_local_combi d (local_combi cp c) = true.
Proof. apply valid_local_combi_complete; [apply local_combi_v2_wf | apply local_combi_v2_IE]. Qed.
End Final.
