(* C17: interpolation on UNIFORM component grids (StandardCombi runs): the small-grid path evaluates the level/index hats
   max(1 - |2^l x - i|, 0) (interp_uniform), the large-grid path works on the coordinate arrays of the grid (interp_large over
   the uniform stripes).  Both are the same interpolant. *)
From Coq Require Import ZArith List QArith Qcanon Bool Lia.
From SG Require Import Base.QcUtil Model.Gram Model.DEReuse Proofs.GramHat Proofs.GramEntries Proofs.GramPD Proofs.GramNorm
  Proofs.DECacheP Proofs.DEPaths Proofs.DEUniform Proofs.DEInterpP.
Import ListNotations.
Open Scope Qc_scope.

(* ------------------------------------------------------------------ windows of a mapped integer range *)
Lemma windows_map_zrange (g : Z -> Qc) : forall n a,
  windows (map g (zrange_from a (S (S n)))) = map (fun i => mkH (g (i - 1)%Z) (g i) (g (i + 1)%Z)) (zrange_from (a + 1) n).
Proof.
  induction n as [|n IH]; intro a; [reflexivity|].
  change (zrange_from a (S (S (S n)))) with (a :: (a + 1)%Z :: (a + 1 + 1)%Z :: zrange_from (a + 1 + 1 + 1) n).
  cbn [map]. change (windows (g a :: g (a + 1)%Z :: g (a + 1 + 1)%Z :: map g (zrange_from (a + 1 + 1 + 1) n)))
    with (mkH (g a) (g (a + 1)%Z) (g (a + 1 + 1)%Z) :: windows (map g (zrange_from (a + 1) (S (S n))))).
  rewrite IH. cbn [zrange_from map]. f_equal. f_equal. f_equal. lia.
Qed.

Lemma strictly_inc_map_zrange (g : Z -> Qc) : (forall i, g i < g (i + 1)%Z) -> forall n a, strictly_inc (map g (zrange_from a n)).
Proof.
  intro Hg. induction n as [|n IH]; intro a; [exact I|].
  cbn [zrange_from map]. destruct n as [|n]; [exact I|]. cbn [zrange_from map]. split; [apply Hg | apply (IH (a + 1)%Z)].
Qed.

Lemma last_map_zrange (g : Z -> Qc) : forall n a, last (map g (zrange_from a (S n))) 0 = g (a + Z.of_nat n)%Z.
Proof.
  induction n as [|n IH]; intro a.
  - cbn. f_equal. lia.
  - change (zrange_from a (S (S n))) with (a :: zrange_from (a + 1) (S n)). cbn [map].
    change (last (g a :: map g (zrange_from (a + 1) (S n))) 0) with (last (map g (zrange_from (a + 1) (S n))) 0).
    rewrite IH. f_equal. lia.
Qed.

(* ------------------------------------------------------------------ the uniform stripe of a level >= 1 *)
Lemma uniform_stripe_shape l : (1 <= l)%Z -> Z.to_nat (2 ^ l + 1) = S (S (Z.to_nat (num_points l))).
Proof. intro H. unfold num_points. assert (2 <= 2 ^ l)%Z by (change 2%Z with (2 ^ 1)%Z at 1; apply Z.pow_le_mono_r; lia). lia. Qed.

Lemma uniform_stripe_good l : (1 <= l)%Z -> good_stripe (uniform_stripe l).
Proof.
  intro H. pose proof (pow2z_pos l) as P. unfold good_stripe, uniform_stripe. split; [|split].
  - apply strictly_inc_map_zrange. intro i. apply div_lt_mono; [exact P|]. rewrite qc_of_Z_plus1. qc_order.
  - rewrite (uniform_stripe_shape l H). cbn [zrange_from map hd].
    assert (E : qc_of_Z 0 = 0) by (apply Qc_is_canon; reflexivity). rewrite E. apply div_zero.
  - rewrite (uniform_stripe_shape l H). rewrite last_map_zrange.
    assert (E : (0 + Z.of_nat (S (Z.to_nat (num_points l))))%Z = (2 ^ l)%Z).
    { unfold num_points. assert (2 <= 2 ^ l)%Z by (change 2%Z with (2 ^ 1)%Z at 1; apply Z.pow_le_mono_r; lia). lia. }
    rewrite E. rewrite (pow2z_nonneg_is_pow l) by lia. apply div_self. apply Qc_pos_nz. rewrite <- (pow2z_nonneg_is_pow l) by lia. exact P.
Qed.

Lemma uniform_stripe_hats l : (1 <= l)%Z ->
  stripe_hats (uniform_stripe l) = map (uniform_dom l) (zrange_from 1 (Z.to_nat (num_points l))).
Proof.
  intro H. destruct (uniform_stripe_good l H) as [_ [H0 H1]]. rewrite (stripe_hats_windows _ H0 H1).
  unfold uniform_stripe. rewrite (uniform_stripe_shape l H). rewrite windows_map_zrange. cbn [Z.add].
  apply map_ext. intro i. unfold uniform_dom. rewrite qc_of_Z_minus1, qc_of_Z_plus1. reflexivity.
Qed.

(* ------------------------------------------------------------------ cross products of mapped lists *)
Lemma flat_map_map' {A B C} (h : A -> B) (g : B -> list C) l : flat_map g (map h l) = flat_map (fun a => g (h a)) l.
Proof. induction l as [|a l IH]; [reflexivity | cbn [map flat_map]; rewrite IH; reflexivity]. Qed.
Lemma map_flat_map' {A B C} (g : B -> C) (h : A -> list B) l : map g (flat_map h l) = flat_map (fun a => map g (h a)) l.
Proof. induction l as [|a l IH]; [reflexivity | cbn [flat_map]; rewrite map_app, IH; reflexivity]. Qed.

Lemma cross_map_f {L A B} (f : L -> A -> B) (R : L -> list A) : forall ls,
  cross (map (fun l => map (f l) (R l)) ls) = map (map2 f ls) (cross (map R ls)).
Proof.
  induction ls as [|l ls IH]; [reflexivity|]. cbn [map cross]. rewrite flat_map_map', map_flat_map', IH.
  apply flat_map_ext. intro i. rewrite !map_map. reflexivity.
Qed.

(* ------------------------------------------------------------------ the hats agree *)
Lemma hat_nd_uniform : forall lv iv x, hat_nd hat_cv (map2 uniform_dom lv iv) x = hat_u_nd hat_u lv iv x.
Proof.
  unfold hat_nd, hat_u_nd. induction lv as [|l lv IH]; intros iv x; [reflexivity|].
  destruct iv as [|i iv]; [reflexivity|]. destruct x as [|xd x]; [reflexivity|].
  cbn [map2 combine prodQ fst snd]. rewrite IH. f_equal.
  rewrite (hat_cv_eq_scalar _ xd (uniform_dom_proper l i)). symmetry. apply hat_u_eq_scalar.
Qed.

Lemma grid_hats_uniform lv : Forall (fun l => (1 <= l)%Z) lv ->
  grid_hats (map uniform_stripe lv) = map (map2 uniform_dom lv) (index_list lv).
Proof.
  intro H. unfold grid_hats, index_list. rewrite map_map.
  rewrite <- (cross_map_f uniform_dom (fun l => zrange_from 1 (Z.to_nat (num_points l))) lv).
  f_equal. apply map_ext_in. intros l Hl. rewrite Forall_forall in H. apply uniform_stripe_hats. apply H. exact Hl.
Qed.

(* the small-grid interpolant of a uniform component grid is the interpolant over its coordinate stripes *)
Theorem interp_uniform_is_interp lv alphas x : Forall (fun l => (1 <= l)%Z) lv ->
  interp_uniform lv alphas x = interp (grid_hats (map uniform_stripe lv)) alphas x.
Proof.
  intro H. unfold interp_uniform, interp. rewrite (grid_hats_uniform lv H). rewrite map_map. f_equal.
  apply map_ext. intro iv. symmetry. apply hat_nd_uniform.
Qed.

(* MAIN: on uniform grids the large-grid interpolation path equals the small-grid path *)
Theorem interp_large_uniform_eq_small lv alphas pts : Forall (fun l => (1 <= l)%Z) lv ->
  Forall (fun x => length x = length lv /\ in_unit_cube x = true) pts ->
  interp_large (map uniform_stripe lv) alphas pts = map (interp_uniform lv alphas) pts.
Proof.
  intros H Hp. rewrite interp_large_eq_interp.
  - apply map_ext. intro x. symmetry. apply interp_uniform_is_interp. exact H.
  - rewrite Forall_forall in *. intros s Hs. apply in_map_iff in Hs. destruct Hs as [l [E Hl]]. subst s.
    apply uniform_stripe_good. apply H. exact Hl.
  - rewrite map_length. exact Hp.
Qed.
