(* C04 bounded history invariant: the enumerated cases (vm_compute, ~12 s; kept small because coqchk re-evaluates it ~15x slower) *)
From Coq Require Import ZArith List Bool QArith Qcanon.
From SG Require Import Model.DimWise Model.DimWiseExact Model.DimWiseFast Proofs.DimWiseBounded.
Import ListNotations.

(* (version, boundary, lmin, lmax, depth) *)
Definition bounded_cases : list (Z * bool * Z * Z * nat) :=
  (map (fun c : Z * bool => (fst c, snd c, 1, 2, 2%nat)) configs ++
   map (fun c : Z * bool => (fst c, snd c, 2, 3, 1%nat)) configs)%Z.

Definition case_ok (c : Z * bool * Z * Z * nat) : bool :=
  match c with (v, bd, lmin, lmax, n) => match explore_from (b_opts v bd) lmin lmax n with Some true => true | _ => false end end.

Lemma explore_bounded_cases : forallb case_ok bounded_cases = true.
Proof. vm_cast_no_check (eq_refl true). Qed.
