(* C02 (hierarchical exactness), part 4: tensorisation. The multilinear interpolant (interpN) of a tensor-product
   function is the product of the 1D interpolants; the tensor quadrature (dotQ of values on crossQ of the grids with the
   products of the weights) of a tensor-product function is the product of the 1D quadratures. Generic, no hats. *)
From Coq Require Import ZArith List Bool QArith Qcanon Lia.
From SG Require Import Base.QcUtil Model.CombiScheme Model.StdCombi Proofs.NodalExact Proofs.StdNodal.
Import ListNotations.
Local Open Scope Qc_scope.

Fixpoint tprod (gs : list (Qc -> Qc)) (x : list Qc) : Qc :=
  match gs, x with
  | g :: gs', x0 :: x' => g x0 * tprod gs' x'
  | _, _ => 1
  end.

(* ---------- interpolation ---------- *)
Lemma appT_scale {X} (Ls : list (fnl X)) : forall c f, appT X Ls (fun q => c * f q) = c * appT X Ls f.
Proof.
  induction Ls as [|L r IH]; intros c f; [reflexivity|]. simpl.
  rewrite (app1_ext X L _ (fun p => c * appT X r (fun q => f (p :: q)))).
  - apply app1_scale.
  - intro p. apply IH.
Qed.

Lemma interpN_scale grids c f x : interpN grids (fun q => c * f q) x = c * interpN grids f x.
Proof. rewrite !interpN_appT. apply appT_scale. Qed.

Lemma interpN_ext grids f f' x : (forall q, f q = f' q) -> interpN grids f x = interpN grids f' x.
Proof. intro H. rewrite !interpN_appT. apply appT_ext. exact H. Qed.

Lemma interp1_ext xs g g' x : (forall p, g p = g' p) -> interp1 xs g x = interp1 xs g' x.
Proof. intro H. rewrite !interp1_app1. apply app1_ext. exact H. Qed.

Lemma interp1_scale_r xs g C x : interp1 xs (fun p => g p * C) x = interp1 xs g x * C.
Proof.
  rewrite !interp1_app1. rewrite (app1_ext Qc _ _ (fun p => C * g p)) by (intro p; ring).
  rewrite app1_scale. ring.
Qed.

Fixpoint interps (grids : list (list Qc)) (gs : list (Qc -> Qc)) : list (Qc -> Qc) :=
  match grids, gs with
  | G :: Gs, g :: gs' => interp1 G g :: interps Gs gs'
  | _, _ => []
  end.

Lemma interpN_tprod : forall grids gs x, length gs = length grids -> length x = length grids ->
  interpN grids (tprod gs) x = tprod (interps grids gs) x.
Proof.
  induction grids as [|G Gs IH]; intros gs x Lg Lx.
  - destruct gs; [|discriminate]. destruct x; [|discriminate]. reflexivity.
  - destruct gs as [|g gs]; [discriminate|]. destruct x as [|x0 xs]; [discriminate|].
    injection Lg as Lg. injection Lx as Lx. cbn [interpN interps tprod].
    rewrite (interp1_ext G _ (fun p => g p * interpN Gs (tprod gs) xs)).
    + rewrite interp1_scale_r. rewrite (IH gs xs Lg Lx). reflexivity.
    + intro p. rewrite <- interpN_scale. reflexivity.
Qed.

(* ---------- quadrature ---------- *)
Lemma dotQ_app : forall a a' b b', length a = length a' -> dotQ (a ++ b) (a' ++ b') = dotQ a a' + dotQ b b'.
Proof.
  induction a as [|x a IH]; intros [|y a'] b b' L; try discriminate; simpl; [ring|].
  injection L as L. rewrite (IH a' b b' L). ring.
Qed.

Lemma dot_scale {A B} (c d : Qc) (f : A -> Qc) (u : B -> Qc) : forall l l',
  dotQ (map (fun q => c * f q) l) (map (fun r => d * u r) l') = c * d * dotQ (map f l) (map u l').
Proof.
  induction l as [|x l IH]; intros [|y l']; simpl; try ring. rewrite IH. ring.
Qed.

Lemma flat_map_const_length {A B} (f : A -> list B) n : forall P, (forall x, length (f x) = n) ->
  length (flat_map f P) = (length P * n)%nat.
Proof.
  induction P as [|x P IH]; intro H; [reflexivity|]. simpl. rewrite app_length, H, IH by exact H. reflexivity.
Qed.

Lemma crossQ_length_eq Ps Ws : Forall2 (fun P W : list Qc => length P = length W) Ps Ws ->
  length (crossQ Ps) = length (crossQ Ws).
Proof.
  induction 1 as [|P W Ps Ws E _ IH]; [reflexivity|]. cbn [crossQ].
  rewrite (flat_map_const_length _ (length (crossQ Ps))) by (intro x; apply map_length).
  rewrite (flat_map_const_length _ (length (crossQ Ws))) by (intro x; apply map_length).
  rewrite E, IH. reflexivity.
Qed.

Definition prodQ (l : list Qc) : Qc := fold_right Qcmult 1 l.

Fixpoint dots (gs : list (Qc -> Qc)) (Ps Ws : list (list Qc)) : Qc :=
  match gs, Ps, Ws with
  | g :: gs', P :: Ps', W :: Ws' => dotQ (map g P) W * dots gs' Ps' Ws'
  | _, _, _ => 1
  end.

Lemma dot_cross_head g gs (CP CW : list (list Qc)) : length CP = length CW ->
  forall P W, length P = length W ->
  dotQ (map (tprod (g :: gs)) (flat_map (fun x => map (cons x) CP) P))
       (map prodQ (flat_map (fun w => map (cons w) CW) W))
  = dotQ (map g P) W * dotQ (map (tprod gs) CP) (map prodQ CW).
Proof.
  intro LC. induction P as [|x P IH]; intros [|w W] L; try discriminate; [simpl; ring|].
  injection L as L. cbn [flat_map]. rewrite !map_app.
  rewrite dotQ_app by (rewrite !map_length; exact LC).
  rewrite (IH W L). rewrite !map_map. cbn [tprod]. unfold prodQ at 1. cbn [fold_right].
  rewrite (dot_scale (g x) w (tprod gs) (fold_right Qcmult 1) CP CW). change (fold_right Qcmult 1) with prodQ.
  simpl. ring.
Qed.

Lemma dot_cross_tprod : forall gs Ps Ws, length Ps = length gs ->
  Forall2 (fun P W : list Qc => length P = length W) Ps Ws ->
  dotQ (map (tprod gs) (crossQ Ps)) (map prodQ (crossQ Ws)) = dots gs Ps Ws.
Proof.
  induction gs as [|g gs IH]; intros Ps Ws L F.
  - destruct Ps; [|discriminate]. inversion F; subst. simpl. ring.
  - destruct Ps as [|P Ps]; [discriminate|]. injection L as L. inversion F as [|? W ? Ws' E F']; subst.
    cbn [crossQ dots]. rewrite (dot_cross_head g gs (crossQ Ps) (crossQ Ws') (crossQ_length_eq Ps Ws' F') P W E).
    rewrite (IH Ps Ws' L F'). reflexivity.
Qed.
