(* C03: the `while True` loops of get_subtraction_value (versions 6, 7, 8) terminate within the fuel of the model, hence the
   stripes are defined (stripe_dim = Some ...) in every state with at least one dimension:
   versions 2, 3, 6, 7 unconditionally; version 8 when every maximum level is >= 2 (for max_level = 1 the Python loop does
   not terminate: min(max_level - 1, ...) = 0 never reaches a positive subtraction value). *)
From Coq Require Import ZArith List Bool QArith Qcanon Arith Lia.
From SG Require Import Base.QcUtil Model.CombiScheme Model.RefTree Model.DimWise Proofs.DimWiseInv Proofs.DimWiseTile.
Import ListNotations.
Open Scope Z_scope.
Local Arguments Z.add : simpl never.
Local Arguments Z.sub : simpl never.
Local Arguments Z.max : simpl never.
Local Arguments Z.min : simpl never.
Local Arguments Z.leb : simpl never.
Local Arguments Z.ltb : simpl never.
Local Arguments Z.mul : simpl never.

Lemma count_ge_nonneg mcs t : 0 <= count_ge mcs t.
Proof. unfold count_ge. lia. Qed.

Lemma count_ge_all mcs t : Forall (fun c => 0 <= c) mcs -> t <= 0 -> count_ge mcs t = Z.of_nat (length mcs).
Proof.
  intros H Ht. unfold count_ge. f_equal. f_equal. induction H as [|c mcs Hc _ IH]; simpl; [reflexivity|].
  assert (E : (t <=? c) = true) by (apply Z.leb_le; lia). rewrite E. simpl. f_equal. assumption.
Qed.

Lemma v7_terminates mcs sv : Forall (fun c => 0 <= c) mcs -> mcs <> [] ->
  forall fuel m ps, Z.max 0 (sv + 1 - m) + Z.max 0 (sv - ps) < Z.of_nat fuel -> v7_loop fuel mcs sv m ps <> None.
Proof.
  intros Hn Hne. assert (Hlen : 1 <= Z.of_nat (length mcs)) by (destruct mcs; [contradiction | simpl; lia]).
  induction fuel as [|f IH]; intros m ps Hm; [simpl in Hm; lia|].
  cbn [v7_loop]. cbv zeta.
  pose proof (count_ge_nonneg mcs (sv - m)) as Hc.
  destruct (sv <=? ps + count_ge mcs (sv - m)) eqn:E; [discriminate|].
  apply Z.leb_gt in E.
  assert (E2 : (ps + count_ge mcs (sv - m) <=? sv) = true) by (apply Z.leb_le; lia). rewrite E2.
  apply IH.
  destruct (Z_le_gt_dec m sv) as [Hle|Hgt].
  - lia.
  - rewrite (count_ge_all mcs (sv - m) Hn) in * by lia. lia.
Qed.

Definition cap_ok (cap : option Z) : Prop := match cap with Some c => 1 <= c | None => True end.

Lemma capped_nonneg cap x : cap_ok cap -> 0 <= x -> 0 <= capped cap x.
Proof. destruct cap as [c|]; simpl; intros; lia. Qed.

Lemma capped_pos cap x : cap_ok cap -> 1 <= x -> 1 <= capped cap x.
Proof. destruct cap as [c|]; simpl; intros; lia. Qed.

Lemma v68_terminates cap mcs d sv : cap_ok cap -> Forall (fun c => 0 <= c) mcs -> mcs <> [] ->
  forall fuel m ps, 0 <= m -> 0 <= ps -> Z.max 0 (sv + 2 - m) + Z.max 0 (sv - ps) < Z.of_nat fuel ->
  v68_loop fuel cap mcs d sv m ps <> None.
Proof.
  intros Hcap Hn Hne. assert (Hlen : 1 <= Z.of_nat (length mcs)) by (destruct mcs; [contradiction | simpl; lia]).
  induction fuel as [|f IH]; intros m ps Hm0 Hps0 Hm; [simpl in Hm; lia|].
  cbn [v68_loop]. cbv zeta.
  set (ps' := if 0 <? m then ps + capped cap (count_ge mcs (sv - (m - 1))) else ps).
  set (pst := capped cap (count_ge (firstn (S d) mcs) (sv - m))).
  assert (Hpst : 0 <= pst) by (apply capped_nonneg; [assumption | apply count_ge_nonneg]).
  assert (Hps' : ps <= ps' /\ (sv + 2 <= m -> 0 < m -> ps + 1 <= ps')).
  { unfold ps'. destruct (0 <? m) eqn:Em.
    - split.
      + pose proof (capped_nonneg cap _ Hcap (count_ge_nonneg mcs (sv - (m - 1)))). lia.
      + intros Hbig _. rewrite (count_ge_all mcs (sv - (m - 1)) Hn) by lia.
        pose proof (capped_pos cap _ Hcap Hlen). lia.
    - apply Z.ltb_ge in Em. split; [lia|]. intros Hbig Hpos. lia. }
  destruct Hps' as [H1 H2].
  destruct (sv <=? ps' + pst) eqn:E; [discriminate|]. apply Z.leb_gt in E.
  assert (E2 : (ps' + pst <=? sv) = true) by (apply Z.leb_le; lia). rewrite E2.
  apply IH; [lia | lia |].
  destruct (Z_le_gt_dec (sv + 2) m) as [Hbig|Hsmall].
  - destruct (Z_le_gt_dec m 0) as [Hz|Hpos]; [lia|]. specialize (H2 Hbig ltac:(lia)). lia.
  - lia.
Qed.

Lemma sub_fuel_enough7 sv : Z.max 0 (sv + 1 - 0) + Z.max 0 (sv - 0) < Z.of_nat (sub_fuel sv).
Proof. unfold sub_fuel. lia. Qed.
Lemma sub_fuel_enough68 sv : Z.max 0 (sv + 2 - 0) + Z.max 0 (sv - 0) < Z.of_nat (sub_fuel sv).
Proof. unfold sub_fuel. lia. Qed.

(* get_subtraction_value is defined *)
Theorem get_subtraction_value_defined o dim lmin lmax_d mcs objs i d l :
  Forall (fun c => 0 <= c) mcs -> mcs <> [] ->
  (o_version o = 2 \/ o_version o = 3 \/ o_version o = 6 \/ o_version o = 7 \/
   (o_version o = 8 /\ 2 <= get_max_level objs i)) ->
  exists sv, get_subtraction_value o dim lmin lmax_d mcs objs i d l = Some sv.
Proof.
  intros Hn Hne Hv. unfold get_subtraction_value.
  set (ml := get_max_level objs i) in *. set (sv := lmax_d - ml).
  destruct Hv as [E|[E|[E|[E|[E Hml]]]]]; rewrite E; simpl.
  - eauto.
  - eauto.
  - destruct (v68_loop (sub_fuel sv) None mcs d sv 0 0) eqn:EL; [eauto|].
    exfalso. eapply (v68_terminates None mcs d sv I Hn Hne); [| | apply sub_fuel_enough68 | exact EL]; lia.
  - destruct (v7_loop (sub_fuel sv) mcs sv 0 0) eqn:EL; [eauto|].
    exfalso. eapply (v7_terminates mcs sv Hn Hne); [apply sub_fuel_enough7 | exact EL].
  - destruct (v68_loop (sub_fuel sv) (Some (ml - 1)) mcs d sv 0 0) eqn:EL; [eauto|].
    exfalso. eapply (v68_terminates (Some (ml - 1)) mcs d sv); [simpl; lia | exact Hn | exact Hne | | | apply sub_fuel_enough68 | exact EL]; lia.
Qed.

Lemma stripe_sel_defined (sub : nat -> option Z) l : forall objs i,
  (forall j, (j < length objs)%nat -> exists sv, sub (i + j)%nat = Some sv) ->
  exists s, stripe_sel sub l i objs = Some s.
Proof.
  induction objs as [|iv objs IH]; intros i H; simpl; [eauto|].
  destruct (H 0%nat ltac:(simpl; lia)) as [sv Hsv]. rewrite Nat.add_0_r in Hsv. rewrite Hsv.
  destruct (IH (S i)) as [rest Hr].
  { intros j Hj. replace (S i + j)%nat with (i + S j)%nat by lia. apply H. simpl. lia. }
  rewrite Hr. eauto.
Qed.

Lemma max_coarsenings_nonneg st : Forall (fun c => 0 <= c) (max_coarsenings st).
Proof.
  unfold max_coarsenings. apply Forall_forall. intros c Hc. apply in_map_iff in Hc. destruct Hc as (t & <- & _).
  unfold cont_max_coarsening. assert (G : forall l m, 0 <= m -> 0 <= fold_left (fun m iv => Z.max m (i_coarse iv)) l m).
  { induction l as [|iv l IH]; intros m Hm; simpl; [assumption | apply IH; lia]. }
  apply G. lia.
Qed.

(* the stripes of every dimension that has a (non-empty) tree are defined, at every level *)
Theorem stripe_dim_defined o st d l t :
  nth_error (st_trees st) d = Some t -> t <> [] ->
  (o_version o = 2 \/ o_version o = 3 \/ o_version o = 6 \/ o_version o = 7 \/
   (o_version o = 8 /\ forall i, (i < length t)%nat -> 2 <= get_max_level t i)) ->
  exists s, stripe_dim o st d l = Some s.
Proof.
  intros Hd Hne Hv. unfold stripe_dim, stripe_with. rewrite (nth_error_nth _ _ [] Hd).
  destruct t as [|iv0 t']; [contradiction|].
  assert (Hmc : max_coarsenings st <> []).
  { unfold max_coarsenings. destruct (st_trees st); [destruct d; discriminate | discriminate]. }
  destruct (stripe_sel_defined (fun i => get_subtraction_value o (st_dim st) (st_lmin st) (nth d (st_lmax st) 0)
                                           (max_coarsenings st) (iv0 :: t') i d l) l (iv0 :: t') 0) as [rest Hr].
  { intros j Hj. simpl. apply get_subtraction_value_defined; [apply max_coarsenings_nonneg | exact Hmc|].
    destruct Hv as [E|[E|[E|[E|[E Hml]]]]]; auto. right. right. right. right. split; [assumption | apply Hml; assumption]. }
  rewrite Hr. eauto.
Qed.

(* every reachable state (any options, rebalancing included), versions 2, 3, 6, 7: all stripes are defined *)
Theorem dw_reachable_stripes_defined n lmin lmax a b o steps st0 st d l :
  Forall2 (fun x y => (x < y)%Qc) a b ->
  dw_init (S n) lmin lmax a b = Some st0 -> dw_run o steps st0 = Some st ->
  (o_version o = 2 \/ o_version o = 3 \/ o_version o = 6 \/ o_version o = 7) ->
  (d < st_dim st)%nat -> exists s, stripe_dim o st d l = Some s.
Proof.
  intros Hab Hinit Hrun Hv Hd.
  destruct (dw_reachable_tiling _ _ _ _ _ _ _ _ _ Hab Hinit Hrun) as (_ & HLc & _ & Hall).
  destruct (nth_error (m_conts (st_meta st)) d) as [c|] eqn:Ec.
  2: { apply nth_error_None in Ec. lia. }
  destruct (Hall d c Ec) as [_ (Hne & _ & _)].
  apply (stripe_dim_defined o st d l (c_objs c)).
  - unfold st_trees. rewrite nth_error_map, Ec. reflexivity.
  - exact Hne.
  - destruct Hv as [E|[E|[E|E]]]; auto.
Qed.
