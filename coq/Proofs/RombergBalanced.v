(* C11 — BalancedExtrapolationGrid: the final tableau entry sums to b-a and integrates x exactly,
   for EVERY balanced tree over a strictly increasing grid and every depth (induction over the Neville tableau:
   every step is an affine combination (1-c)*left + c*topleft; every first-column rule tiles [a,b] by cells
   weighted at their mid-points). *)
From Coq Require Import ZArith List QArith Qcanon Bool Arith Lia.
From SG Require Import Base.QcUtil Model.Romberg Proofs.RombergBasics Proofs.RombergTree Proofs.RombergSliced.
Import ListNotations.
Open Scope Qc_scope.

(* ---------------------------------------------------------------------------------------------- *)
(* the tableau keeps any property that is stable under one extrapolation step *)

Lemma wsum_scale c d : wsum (scale_dict c d) = c * wsum d.
Proof. induction d as [|[k v] d IH]; simpl; [ring | rewrite IH; ring]. Qed.
Lemma wmom_scale c d : wmom (scale_dict c d) = c * wmom d.
Proof. induction d as [|[k v] d IH]; simpl; [ring | rewrite IH; ring]. Qed.

Lemma extrapolate_one_step_wsum L T k H :
  wsum L = H -> wsum T = H -> wsum (extrapolate_one_step L T k) = H.
Proof.
  intros HL HT. unfold extrapolate_one_step. rewrite dict_of_wsum, wsum_app, !wsum_scale, HL, HT. ring.
Qed.
Lemma extrapolate_one_step_wmom L T k M :
  wmom L = M -> wmom T = M -> wmom (extrapolate_one_step L T k) = M.
Proof.
  intros HL HT. unfold extrapolate_one_step. rewrite dict_of_wmom, wmom_app, !wmom_scale, HL, HT. ring.
Qed.

Section Tableau.
Variable P : list (Qc * Qc) -> Prop.
Hypothesis P_step : forall L T k, P L -> P T -> P (extrapolate_one_step L T k).

Lemma next_column_inv k col : Forall P col -> Forall P (next_column k col).
Proof.
  revert k. induction col as [|x col IH]; intros k H; [constructor|].
  destruct col as [|y col]; [constructor|].
  change (next_column k (x :: y :: col)) with (extrapolate_one_step y x k :: next_column k (y :: col)).
  inversion H as [|? ? Hx Hr]; subst. inversion Hr as [|? ? Hy _]; subst.
  constructor; [apply P_step; assumption | apply IH; exact Hr].
Qed.

Lemma next_column_nonempty k x y col : next_column k (x :: y :: col) <> [].
Proof. discriminate. Qed.

Lemma last_in {A} (l : list A) d : l <> [] -> In (last l d) l.
Proof.
  induction l as [|x l IH]; [congruence|]. intros _. destruct l as [|y l]; [left; reflexivity|].
  right. apply IH. discriminate.
Qed.

Lemma tableau_inv fuel : forall k col, col <> [] -> Forall P col -> P (tableau fuel k col).
Proof.
  induction fuel as [|f IH]; intros k col Hne H.
  - simpl. apply (proj1 (Forall_forall P col) H). apply last_in. exact Hne.
  - destruct col as [|x col]; [congruence|]. destruct col as [|y col].
    + simpl. inversion H; assumption.
    + change (tableau (S f) k (x :: y :: col)) with (tableau f (S k) (next_column k (x :: y :: col))).
      apply IH; [apply next_column_nonempty | apply next_column_inv; exact H].
Qed.
End Tableau.

(* ---------------------------------------------------------------------------------------------- *)
(* cells of the tree: a node's children split its cell at some point strictly inside *)

Fixpoint scells (lo hi : Qc) (t : btree) : Prop :=
  match t with
  | BLeaf => True
  | BNode lo' hi' l r => lo' = lo /\ hi' = hi /\ exists p, lo < p /\ p < hi /\ scells lo p l /\ scells p hi r
  end.

(* lo < p1 < p2 < ... < hi *)
Fixpoint chain_lt (lo : Qc) (pts : list (Qc * nat)) (hi : Qc) : Prop :=
  match pts with [] => lo < hi | p :: r => lo < fst p /\ chain_lt (fst p) r hi end.

Lemma chain_lt_split lo l1 x l2 hi :
  chain_lt lo (l1 ++ [x] ++ l2) hi -> chain_lt lo l1 (fst x) /\ chain_lt (fst x) l2 hi.
Proof.
  revert lo. induction l1 as [|y l1 IH]; intros lo H; simpl in *.
  - exact H.
  - destruct H as [H1 H2]. destruct (IH _ H2) as [A B]. split; [split; assumption | exact B].
Qed.

Lemma chain_lt_ends lo pts hi : chain_lt lo pts hi -> lo < hi.
Proof.
  revert lo. induction pts as [|p r IH]; intros lo H; simpl in H; [exact H|].
  destruct H as [H1 H2]. exact (Qclt_trans _ _ _ H1 (IH _ H2)).
Qed.

Lemma build_btree_scells fuel : forall lo pts hi, chain_lt lo pts hi -> scells lo hi (build_btree fuel lo pts hi).
Proof.
  induction fuel as [|f IH]; intros lo pts hi H; [exact I|].
  destruct pts as [|x r]; [exact I|].
  set (l := x :: r) in *.
  assert (Hi : (argmin (map snd l) < length l)%nat).
  { rewrite <- (map_length snd). apply argmin_lt. discriminate. }
  set (i := argmin (map snd l)) in *.
  change (build_btree (S f) lo l hi) with
    (BNode lo hi (build_btree f lo (firstn i l) (fst (nth i l (0, O))))
                 (build_btree f (fst (nth i l (0, O))) (skipn (S i) l) hi)).
  rewrite (split_at l i (0, O) Hi) in H. apply chain_lt_split in H. destruct H as [H1 H2].
  cbn [scells]. split; [reflexivity|]. split; [reflexivity|].
  exists (fst (nth i l (0, O))).
  split; [exact (chain_lt_ends _ _ _ H1)|]. split; [exact (chain_lt_ends _ _ _ H2)|].
  split; apply IH; assumption.
Qed.

(* ---------------------------------------------------------------------------------------------- *)
(* a level rule of a balanced tree tiles its cell *)

Lemma midpoint_eq lo hi : midpoint lo hi = Qchalf * (lo + hi).
Proof. unfold midpoint. qc_consts. field. exact two_neq0. Qed.

Lemma b_balanced_node lo hi l r : b_balanced (BNode lo hi l r) = true ->
  (l = BLeaf /\ r = BLeaf) \/ (l <> BLeaf /\ r <> BLeaf /\ b_balanced l = true /\ b_balanced r = true).
Proof.
  destruct l as [|a b c d], r as [|a' b' c' d']; simpl; intro H; try discriminate.
  - left. split; reflexivity.
  - right. apply andb_prop in H. destruct H as [H1 H2].
    split; [discriminate|]. split; [discriminate|]. split; assumption.
Qed.

Lemma b_rule_sums t : forall lo hi lev maxl, scells lo hi t -> b_balanced t = true -> t <> BLeaf -> (lev <= maxl)%nat ->
  wsum (b_rule lev maxl t) = hi - lo /\ wmom (b_rule lev maxl t) = half_sq lo hi.
Proof.
  induction t as [|lo' hi' l IHl r IHr]; intros lo hi lev maxl Hc Hb Hn Hlev; [congruence|].
  destruct Hc as [-> [-> [p [Hp1 [Hp2 [Cl Cr]]]]]].
  cbn [b_rule]. destruct (Nat.ltb_spec maxl lev) as [C|_]; [lia|].
  destruct (b_balanced_node _ _ _ _ Hb) as [[-> ->]|[Nl [Nr [Bl Br]]]].
  - cbn [b_is_leaf]. rewrite orb_true_r. simpl. unfold half_sq. rewrite midpoint_eq. split; ring.
  - destruct (Nat.eqb_spec lev maxl) as [E|NE].
    + simpl. unfold half_sq. rewrite midpoint_eq. split; ring.
    + assert (L : b_is_leaf (BNode lo hi l r) = false).
      { destruct l; [congruence|]. reflexivity. }
      rewrite L. cbn [orb].
      destruct (IHl lo p (S lev) maxl Cl Bl Nl ltac:(lia)) as [A1 A2].
      destruct (IHr p hi (S lev) maxl Cr Br Nr ltac:(lia)) as [B1 B2].
      rewrite wsum_app, wmom_app, A1, A2, B1, B2. unfold half_sq. split; ring.
Qed.

(* keys of a level rule lie strictly inside the cell; hence they are pairwise distinct *)
Lemma mid_between lo hi : lo < hi -> lo < midpoint lo hi /\ midpoint lo hi < hi.
Proof. intro H. unfold midpoint. split; qc_order. Qed.

Lemma b_rule_keys_inside t : forall lo hi lev maxl k, scells lo hi t -> In k (map fst (b_rule lev maxl t)) -> lo < k /\ k < hi.
Proof.
  induction t as [|lo' hi' l IHl r IHr]; intros lo hi lev maxl k Hc Hk; [destruct Hk|].
  destruct Hc as [-> [-> [p [Hp1 [Hp2 [Cl Cr]]]]]].
  cbn [b_rule] in Hk. destruct (maxl <? lev)%nat; [destruct Hk|].
  destruct (Nat.eqb lev maxl || b_is_leaf (BNode lo hi l r)).
  - simpl in Hk. destruct Hk as [<-|[]]. apply mid_between. exact (Qclt_trans _ _ _ Hp1 Hp2).
  - rewrite map_app in Hk. apply in_app_or in Hk. destruct Hk as [Hk|Hk].
    + destruct (IHl _ _ _ _ _ Cl Hk) as [A B]. split; [exact A | exact (Qclt_trans _ _ _ B Hp2)].
    + destruct (IHr _ _ _ _ _ Cr Hk) as [A B]. split; [exact (Qclt_trans _ _ _ Hp1 A) | exact B].
Qed.

Lemma NoDup_app_disjoint {A} (a b : list A) : NoDup a -> NoDup b -> (forall x, In x a -> In x b -> False) -> NoDup (a ++ b).
Proof.
  intros Ha Hb D. induction Ha as [|x a Hx Ha IH]; simpl; [exact Hb|].
  constructor.
  - intro I. apply in_app_or in I. destruct I as [I|I]; [exact (Hx I) | exact (D x (or_introl eq_refl) I)].
  - apply IH. intros y Y1 Y2. exact (D y (or_intror Y1) Y2).
Qed.

Lemma b_rule_keys_nodup t : forall lo hi lev maxl, scells lo hi t -> NoDup (map fst (b_rule lev maxl t)).
Proof.
  induction t as [|lo' hi' l IHl r IHr]; intros lo hi lev maxl Hc; [constructor|].
  assert (Hc' := Hc). destruct Hc as [-> [-> [p [Hp1 [Hp2 [Cl Cr]]]]]].
  cbn [b_rule]. destruct (maxl <? lev)%nat; [constructor|].
  destruct (Nat.eqb lev maxl || b_is_leaf (BNode lo hi l r)).
  - simpl. constructor; [intros [] | constructor].
  - rewrite map_app. apply NoDup_app_disjoint; [exact (IHl _ _ _ _ Cl) | exact (IHr _ _ _ _ Cr)|].
    intros x X1 X2. destruct (b_rule_keys_inside _ _ _ _ _ _ Cl X1) as [_ A].
    destruct (b_rule_keys_inside _ _ _ _ _ _ Cr X2) as [B _].
    exact (Qclt_not_le _ _ (Qclt_trans _ _ _ A B) (Qcle_refl x)).
Qed.

(* dictionary assignment with pairwise distinct keys loses nothing *)
Lemma dict_set_keys k v d x : In x (map fst (dict_set k v d)) -> x = k \/ In x (map fst d).
Proof.
  induction d as [|[k' v'] d IH]; simpl.
  - intros [H|[]]. left. symmetry. exact H.
  - destruct (Qc_eqb k k') eqn:E.
    + simpl. intros [H|H]; [right; left; exact H | right; right; exact H].
    + destruct (Qc_ltb k k'); simpl.
      * intros [H|[H|H]]; [left; symmetry; exact H | right; left; exact H | right; right; exact H].
      * intros [H|H]; [right; left; exact H|]. destruct (IH H) as [A|A]; [left; exact A | right; right; exact A].
Qed.

Lemma dict_set_new k v d : ~ In k (map fst d) ->
  wsum (dict_set k v d) = v + wsum d /\ wmom (dict_set k v d) = k * v + wmom d.
Proof.
  induction d as [|[k' v'] d IH]; simpl; intro H; [split; ring|].
  destruct (Qc_eqb k k') eqn:E.
  - apply Qc_eqb_eq in E. exfalso. apply H. left. symmetry. exact E.
  - destruct (Qc_ltb k k'); simpl; [split; ring|].
    destruct (IH (fun I => H (or_intror I))) as [A B]. rewrite A, B. split; ring.
Qed.

Lemma dict_assign_fold cs : forall d,
  NoDup (map fst cs) -> (forall x, In x (map fst cs) -> ~ In x (map fst d)) ->
  wsum (fold_left (fun d kv => dict_set (fst kv) (snd kv) d) cs d) = wsum cs + wsum d /\
  wmom (fold_left (fun d kv => dict_set (fst kv) (snd kv) d) cs d) = wmom cs + wmom d.
Proof.
  induction cs as [|[k v] cs IH]; intros d Hn Hd; simpl; [split; ring|].
  inversion Hn as [|? ? Hk Hn']; subst.
  destruct (dict_set_new k v d (Hd k (or_introl eq_refl))) as [A B].
  destruct (IH (dict_set k v d) Hn') as [C D].
  - intros x X I. apply dict_set_keys in I. destruct I as [->|I]; [exact (Hk X) | exact (Hd x (or_intror X) I)].
  - rewrite C, D, A, B. split; ring.
Qed.

Lemma dict_assign_sums cs : NoDup (map fst cs) ->
  wsum (dict_assign cs) = wsum cs /\ wmom (dict_assign cs) = wmom cs.
Proof.
  intro H. unfold dict_assign. destruct (dict_assign_fold cs [] H) as [A B]; [intros x _ []|].
  rewrite A, B. simpl. split; ring.
Qed.

(* ---------------------------------------------------------------------------------------------- *)
(* MAIN: the final dictionary of the balanced extrapolation *)

Definition strictly_increasing_grid (grid : list Qc) (levels : list nat) : Prop :=
  chain_lt (nthQ grid 0) (inner (zip_levels grid levels)) (nthQ grid (length grid - 1)).

Theorem balanced_dict_consistent grid levels d :
  strictly_increasing_grid grid levels -> (1 <= list_max levels)%nat ->
  balanced_dict grid levels = Some d ->
  let a := nthQ grid 0 in let b := nthQ grid (length grid - 1) in
  wsum d = b - a /\ wmom d = half_sq a b.
Proof.
  intros Hs Hmax H a b. unfold balanced_dict in H. destruct levels as [|[|l0] levels]; try discriminate.
  destruct (Nat.eqb (last (0%nat :: levels) 1%nat) 0); [|discriminate].
  unfold strictly_increasing_grid in Hs. fold a b in Hs, H.
  set (pts := inner (zip_levels grid (0%nat :: levels))) in *.
  destruct pts as [|x r] eqn:Ep; [discriminate|]. rewrite <- Ep in *.
  set (t := build_btree (length pts) a pts b) in *.
  destruct (b_balanced t) eqn:Hb; [|discriminate].
  assert (Hc : scells a b t) by (apply build_btree_scells; exact Hs).
  assert (Hn : t <> BLeaf).
  { unfold t. rewrite Ep. simpl. discriminate. }
  set (maxl := list_max (0%nat :: levels)) in *.
  assert (T : d = tableau maxl 1 (map (fun i => dict_assign (b_rule 1 i t)) (seq 1 maxl))) by congruence.
  clear H. subst d.
  apply (tableau_inv (fun d => wsum d = b - a /\ wmom d = half_sq a b)).
  - intros L T k [L1 L2] [T1 T2]. split; [apply extrapolate_one_step_wsum | apply extrapolate_one_step_wmom]; assumption.
  - destruct maxl as [|m']; [lia|]. simpl. discriminate.
  - apply Forall_forall. intros e He. apply in_map_iff in He. destruct He as [i [<- Hi]]. apply in_seq in Hi.
    destruct (dict_assign_sums (b_rule 1 i t) (b_rule_keys_nodup t a b 1 i Hc)) as [A B].
    destruct (b_rule_sums t a b 1%nat i Hc Hb Hn ltac:(lia)) as [C D].
    rewrite A, B, C, D. split; reflexivity.
Qed.

(* ---------------------------------------------------------------------------------------------- *)
(* from the dictionary to the returned weight list: verified checker [keys_in_grid] *)

Lemma memQ_In x l : memQ x l = true <-> In x l.
Proof.
  unfold memQ. rewrite existsb_exists. split.
  - intros [y [I E]]. apply Qc_eqb_eq in E. subst. exact I.
  - intro I. exists x. split; [exact I | apply Qc_eqb_eq; reflexivity].
Qed.

Lemma nodupQ_NoDup l : nodupQ l = true -> NoDup l.
Proof.
  induction l as [|x l IH]; simpl; intro H; [constructor|].
  apply andb_prop in H. destruct H as [H1 H2]. constructor; [|exact (IH H2)].
  intro I. apply memQ_In in I. rewrite I in H1. discriminate H1.
Qed.

Lemma dict_get_notin k d : ~ In k (map fst d) -> dict_get k d = 0.
Proof.
  induction d as [|[k' v'] d IH]; simpl; intro H; [reflexivity|].
  destruct (Qc_eqb k k') eqn:E.
  - apply Qc_eqb_eq in E. exfalso. apply H. left. symmetry. exact E.
  - apply IH. intro I. apply H. right. exact I.
Qed.

Lemma sum_indicator (phi : Qc -> Qc) k v grid : NoDup grid -> In k grid ->
  sumQ (map (fun g => phi g * (if Qc_eqb g k then v else 0)) grid) = phi k * v.
Proof.
  intros Hn. induction Hn as [|x grid Hx Hn IH]; intro I; [destruct I|]. simpl.
  destruct I as [->|I].
  - assert (E : Qc_eqb k k = true) by (apply Qc_eqb_eq; reflexivity). rewrite E.
    assert (Z : sumQ (map (fun g => phi g * (if Qc_eqb g k then v else 0)) grid) = 0).
    { clear IH Hn. induction grid as [|y grid IHg]; [reflexivity|]. simpl.
      destruct (Qc_eqb y k) eqn:Ey.
      - apply Qc_eqb_eq in Ey. exfalso. apply Hx. left. exact Ey.
      - rewrite IHg; [ring|]. intro J. apply Hx. right. exact J. }
    rewrite Z. ring.
  - destruct (Qc_eqb x k) eqn:Ex.
    + apply Qc_eqb_eq in Ex. subst. contradiction.
    + rewrite (IH I). ring.
Qed.

Theorem keys_in_grid_sound (phi : Qc -> Qc) d grid : keys_in_grid d grid = true ->
  sumQ (map (fun g => phi g * dict_get g d) grid) = sumQ (map (fun kv => phi (fst kv) * snd kv) d).
Proof.
  unfold keys_in_grid. intro H. apply andb_prop in H. destruct H as [H Hg]. apply andb_prop in H. destruct H as [Hk Hd].
  apply nodupQ_NoDup in Hg. apply nodupQ_NoDup in Hd. rewrite forallb_forall in Hk.
  induction d as [|[k v] d IH].
  - simpl. clear Hk Hg Hd. induction grid as [|g grid IHg]; [reflexivity|]. simpl. rewrite IHg. ring.
  - simpl in Hd. inversion Hd as [|? ? Hkd Hd']; subst.
    assert (Ik : In k grid) by (apply memQ_In; apply Hk; left; reflexivity).
    cbn [map sumQ fst snd].
    rewrite <- (IH (fun x I => Hk x (or_intror I)) Hd'), <- (sum_indicator phi k v grid Hg Ik), <- sumQ_map_add.
    f_equal. apply map_ext. intro g. cbn [dict_get].
    destruct (Qc_eqb g k) eqn:E; [|ring].
    apply Qc_eqb_eq in E. subst. rewrite (dict_get_notin k d Hkd). ring.
Qed.

Lemma dotQ_map (phi : Qc -> Qc) (f : Qc -> Qc) grid : dotQ (map phi grid) (map f grid) = sumQ (map (fun g => phi g * f g) grid).
Proof. induction grid as [|g grid IH]; simpl; [reflexivity | rewrite IH; reflexivity]. Qed.

Lemma wsum_phi d : wsum d = sumQ (map (fun kv => 1 * snd kv) d).
Proof. induction d as [|kv d IH]; simpl; [reflexivity | rewrite IH; ring]. Qed.
Lemma wmom_phi d : wmom d = sumQ (map (fun kv => fst kv * snd kv) d).
Proof. induction d as [|kv d IH]; simpl; [reflexivity | rewrite IH; ring]. Qed.

(* MAIN (returned weights): when the checker accepts (every key of the final dictionary is a grid point: true for
   dyadic trees, where the mid-point of a cell is its grid point) the weight list itself sums to b - a and its
   first moment is exact *)
Theorem balanced_weights_consistent grid levels d ws :
  strictly_increasing_grid grid levels -> (1 <= list_max levels)%nat ->
  balanced_dict grid levels = Some d -> balanced_weights grid levels = Some ws ->
  keys_in_grid d grid = true ->
  let a := nthQ grid 0 in let b := nthQ grid (length grid - 1) in
  sumQ ws = b - a /\ dotQ grid ws = half_sq a b.
Proof.
  intros Hs Hm Hd Hw Hk a b. unfold balanced_weights in Hw. rewrite Hd in Hw. injection Hw as <-.
  destruct (balanced_dict_consistent grid levels d Hs Hm Hd) as [A B]. fold a b in A, B.
  split.
  - rewrite <- A, wsum_phi, <- (keys_in_grid_sound (fun _ => 1) d grid Hk). f_equal. apply map_ext. intro g. ring.
  - rewrite <- B, wmom_phi, <- (keys_in_grid_sound (fun g => g) d grid Hk).
    rewrite <- (map_id grid) at 1. apply dotQ_map.
Qed.
