(* C17: the size-dependent code paths of the right-hand side agree.
   calculate_B_dimension_wise, N >= 200 (per sample only the hats centred at the two closest stripe coordinates,
   take_closest via bisect_left, scalar hat) = N < 200 (all hats times all samples, completely vectorised hat),
   for every tensor grid over strictly increasing stripes of [0,1] and every data set of the right dimension. *)
From Coq Require Import ZArith List QArith Qcanon Bool Lia.
From SG Require Import Base.QcUtil Model.Gram Proofs.GramHat Proofs.GramPD Proofs.GramNorm Proofs.DECacheP.
Import ListNotations.
Open Scope Qc_scope.

(* ------------------------------------------------------------------ membership *)
Lemma memQ_false_cons a b l : memQ a (b :: l) = false -> a <> b /\ memQ a l = false.
Proof.
  cbn [memQ]. intro H. apply orb_false_iff in H. destruct H as [H1 H2]. split; [|exact H2].
  apply Qc_eqb_false. exact H1.
Qed.

Lemma memQ_filter_false (f : Qc -> bool) a l : f a = true -> memQ a (filter f l) = false -> memQ a l = false.
Proof.
  intros Hf. induction l as [|b l IH]; intro H; [reflexivity|].
  cbn [filter] in H. cbn [memQ]. destruct (Qc_eqb a b) eqn:E.
  - apply Qc_eqb_eq in E. subst b. rewrite Hf in H. cbn [memQ] in H. rewrite Qc_eqb_refl in H. discriminate.
  - cbn [orb]. destruct (f b).
    + cbn [memQ] in H. rewrite E in H. apply IH. exact H.
    + apply IH. exact H.
Qed.

(* ------------------------------------------------------------------ one dimension: a hat that is not centred at one
   of the two stripe coordinates closest to x vanishes at x *)
Lemma windows_hi_le_second_or_in a p c r u :
  In u (windows (a :: p :: c :: r)) -> u = mkH a p c \/ In u (windows (p :: c :: r)).
Proof. cbn [windows]. intros [H|H]; [left; symmetry; exact H | right; exact H]. Qed.

Lemma not_closest_outside : forall s x u, strictly_inc s -> In u (windows s) ->
  let pos0 := bisect_left s x in
  let pos := if (pos0 =? 0)%nat then 1%nat else pos0 in
  h_p u <> nth (pos - 1) s 0 -> h_p u <> nth pos s 0 -> x <= h_lo u \/ h_hi u <= x.
Proof.
  induction s as [|a s IH]; intros x u Hs Hu; [destruct Hu|].
  destruct s as [|p [|c r]]; try (destruct Hu; fail).
  cbv zeta.
  change (bisect_left (a :: p :: c :: r) x) with (if Qc_ltb a x then S (bisect_left (p :: c :: r) x) else 0%nat).
  assert (Hs' : strictly_inc (p :: c :: r)) by apply Hs.
  destruct (Qc_ltb a x) eqn:Eax.
  - (* a < x *)
    apply Qc_ltb_lt in Eax.
    remember (bisect_left (p :: c :: r) x) as k eqn:Ek.
    cbn [Nat.eqb].
    destruct k as [|k].
    + (* p >= x : the closest pair is (a, p) *)
      cbn [Nat.sub nth]. intros N1 N2.
      cbn [bisect_left] in Ek. destruct (Qc_ltb p x) eqn:Epx; [discriminate|]. apply Qc_ltb_false in Epx.
      apply windows_hi_le_second_or_in in Hu. destruct Hu as [Hu|Hu].
      * subst u. cbn [h_p] in N2. exfalso. apply N2. reflexivity.
      * left. apply Qcle_trans with p; [exact Epx|]. apply (windows_lo_ge p (c :: r) Hs' u Hu).
    + (* p < x : same closest pair as in the tail *)
      intros N1 N2.
      assert (Epx : p < x).
      { cbn [bisect_left] in Ek. destruct (Qc_ltb p x) eqn:E; [apply Qc_ltb_lt; exact E | discriminate]. }
      replace (S (S k) - 1)%nat with (S k) in N1 by lia.
      change (nth (S k) (a :: p :: c :: r) 0) with (nth k (p :: c :: r) 0) in N1.
      change (nth (S (S k)) (a :: p :: c :: r) 0) with (nth (S k) (p :: c :: r) 0) in N2.
      apply windows_hi_le_second_or_in in Hu. destruct Hu as [Hu|Hu].
      * subst u. cbn [h_p h_lo h_hi] in *. right.
        destruct k as [|k]; [exfalso; apply N1; reflexivity|].
        (* k >= 1 : the second element of the tail is < x as well *)
        cbn [bisect_left] in Ek. destruct (Qc_ltb p x); [|discriminate]. injection Ek as Ek.
        destruct (Qc_ltb c x) eqn:E; [|discriminate]. apply Qc_ltb_lt in E. apply Qclt_le_weak. exact E.
      * specialize (IH x u Hs' Hu). cbv zeta in IH. rewrite <- Ek in IH. cbn [Nat.eqb] in IH.
        replace (S k - 1)%nat with k in IH by lia. apply IH; assumption.
  - (* x <= a : the closest pair is (a, p) *)
    apply Qc_ltb_false in Eax. cbn [Nat.eqb Nat.sub nth]. intros N1 N2.
    apply windows_hi_le_second_or_in in Hu. destruct Hu as [Hu|Hu].
    + subst u. cbn [h_p] in N2. exfalso. apply N2. reflexivity.
    + left. apply Qcle_trans with a; [exact Eax|]. apply Qclt_le_weak.
      apply Qclt_le_trans with p; [apply Hs|]. apply (windows_lo_ge p (c :: r) Hs' u Hu).
Qed.

(* inner points of a good stripe are neither 0 nor 1 *)
Lemma windows_hi_le_last y0 ys : strictly_inc (y0 :: ys) -> forall u, In u (windows (y0 :: ys)) -> h_hi u <= last (y0 :: ys) 0.
Proof.
  revert y0; induction ys as [|y1 ys IH]; intros y0 Hs u Hu; [destruct Hu|].
  destruct ys as [|y2 r]; [destruct Hu|].
  change (windows (y0 :: y1 :: y2 :: r)) with (mkH y0 y1 y2 :: windows (y1 :: y2 :: r)) in Hu.
  assert (Hs' : strictly_inc (y1 :: y2 :: r)) by apply Hs.
  change (last (y0 :: y1 :: y2 :: r) 0) with (last (y1 :: y2 :: r) 0).
  destruct Hu as [Hu|Hu].
  - subst u. cbn [h_hi]. destruct r as [|y3 r]; [apply Qcle_refl|].
    assert (Hs2 : strictly_inc (y2 :: y3 :: r)) by apply Hs'.
    change (last (y1 :: y2 :: y3 :: r) 0) with (last (y2 :: y3 :: r) 0).
    clear - Hs2. revert y2 y3 Hs2. induction r as [|y4 r IHr]; intros y2 y3 Hs2.
    + cbn. apply Qclt_le_weak. apply Hs2.
    + apply Qcle_trans with y3; [apply Qclt_le_weak; apply Hs2|].
      change (last (y2 :: y3 :: y4 :: r) 0) with (last (y3 :: y4 :: r) 0). apply IHr. apply Hs2.
  - apply IH; assumption.
Qed.

Lemma window_point_inner s u : good_stripe s -> In u (windows s) -> 0 < h_p u /\ h_p u < 1.
Proof.
  intros [Hs [H0 H1]] Hu. destruct s as [|y0 ys]; [destruct Hu|]. cbn [hd] in H0. subst y0.
  pose proof (windows_proper _ Hs u Hu) as [Hl Hr].
  split.
  - apply (windows_p_gt 0 ys Hs u Hu).
  - apply Qclt_le_trans with (h_hi u); [exact Hr|]. rewrite <- H1. apply (windows_hi_le_last 0 ys Hs u Hu).
Qed.

Lemma not_support_point_vanishes s x u : good_stripe s -> In u (stripe_hats s) ->
  memQ (h_p u) (support_points s x) = false -> hat_scalar u x = 0.
Proof.
  intros Hg Hu Hm. pose proof Hg as [Hs [H0 H1]].
  rewrite (stripe_hats_windows s H0 H1) in Hu.
  pose proof (windows_proper _ Hs u Hu) as Hp.
  pose proof (window_point_inner s u Hg Hu) as [Hp0 Hp1].
  assert (Hgen : memQ (h_p u) (filter (fun h => negb (Qc_eqb h 0) && negb (Qc_eqb h 1)) (take_closest s x)) = false).
  { destruct s as [|a [|p [|b [|c r]]]]; try exact Hm.
    (* three-element stripe: its single hat is centred at the listed point *)
    cbn [windows] in Hu. destruct Hu as [Hu|[]]. subst u. cbn [h_p support_points memQ] in Hm.
    rewrite Qc_eqb_refl in Hm. discriminate. }
  apply memQ_filter_false in Hgen.
  - unfold take_closest in Hgen. apply memQ_false_cons in Hgen. destruct Hgen as [N1 Hgen].
    apply memQ_false_cons in Hgen. destruct Hgen as [N2 _].
    apply hat_scalar_outside; [exact Hp|]. apply (not_closest_outside s x u Hs Hu); assumption.
  - apply andb_true_iff. split; apply negb_true_iff; apply Qc_eqb_false; intro E.
    + apply (Qc_lt_neq _ _ Hp0). exact E.
    + apply (Qc_lt_neq _ _ Hp1). symmetry. exact E.
Qed.

(* ------------------------------------------------------------------ d dimensions *)
Lemma prodQ_zero_in l : In 0 l -> prodQ l = 0.
Proof. induction l as [|a l IH]; intro H; [destruct H|]. destruct H as [H|H]; cbn [prodQ]; [subst; ring | rewrite (IH H); ring]. Qed.

Lemma not_neighbour_vanishes : forall stripes t x,
  Forall good_stripe stripes -> Forall2 (fun a l => In a l) t (map stripe_hats stripes) -> length x = length stripes ->
  is_neighbour stripes t x = false -> hat_nd hat_scalar t x = 0.
Proof.
  unfold is_neighbour, hat_nd.
  induction stripes as [|s stripes IH]; intros t x Hg Ht Hx Hn.
  - inversion Ht; subst. destruct x; [|discriminate]. cbn in Hn. discriminate.
  - cbn [map] in Ht. inversion Ht as [|u ? t' ? Hu Ht']; subst. destruct x as [|xd x]; [discriminate|].
    inversion Hg as [|? ? Hgs Hg']; subst.
    cbn [combine forallb2 fst snd] in Hn. cbn [map2 prodQ].
    destruct (memQ (h_p u) (support_points s xd)) eqn:E.
    + cbn [andb] in Hn. rewrite (IH t' x Hg' Ht'); [ring | | exact Hn]. cbn [length] in Hx. lia.
    + rewrite (not_support_point_vanishes s xd u Hgs Hu E). ring.
Qed.

Lemma grid_hats_proper stripes t : Forall good_stripe stripes -> In t (grid_hats stripes) -> Forall proper t.
Proof.
  intros Hg Ht. unfold grid_hats in Ht. apply in_cross_Forall2 in Ht.
  revert t Ht. induction Hg as [|s r Hgs _ IH]; intros t Ht.
  - inversion Ht. constructor.
  - cbn [map] in Ht. inversion Ht as [|u ? t' ? Hu Ht']; subst. constructor; [|apply IH; exact Ht'].
    destruct Hgs as [Hs [H0 H1]]. rewrite (stripe_hats_windows s H0 H1) in Hu. apply (windows_proper s Hs u Hu).
Qed.

(* the value one sample contributes to one hat: both code paths agree *)
Lemma large_term_eq_small stripes t x :
  Forall good_stripe stripes -> In t (grid_hats stripes) -> length x = length stripes ->
  (if is_neighbour stripes t x then hat_nd hat_scalar t x else 0) = hat_nd hat_cv t x.
Proof.
  intros Hg Ht Hx. rewrite (hat_nd_cv_scalar t x (grid_hats_proper stripes t Hg Ht)).
  destruct (is_neighbour stripes t x) eqn:E; [reflexivity|].
  symmetry. apply (not_neighbour_vanishes stripes t x Hg); [|exact Hx|exact E].
  apply in_cross_Forall2. exact Ht.
Qed.

(* MAIN: the large-grid loop computes the small-grid formula, for every grid and every data set *)
Theorem rhs_large_eq_rhs stripes data signs :
  Forall good_stripe stripes -> Forall (fun x => length x = length stripes) data ->
  rhs_large stripes data signs = rhs (grid_hats stripes) data signs.
Proof.
  intros Hg Hd. unfold rhs_large, rhs. apply map_ext_in. intros t Ht. f_equal. f_equal.
  apply map_ext_in. intros x Hx. apply large_term_eq_small; [exact Hg | exact Ht |].
  rewrite Forall_forall in Hd. apply Hd. exact Hx.
Qed.
