(* C18 — scaling operations of the DataSet model: labels stay in place, scale_range maps the extremes onto the range ends,
   revert_scaling restores the samples after any sequence of non-overriding scalings. *)
From Coq Require Import ZArith List QArith Qcanon Bool Lia Arith.
From SG Require Import Base.QcUtil Model.DataSet Proofs.DataSetVec.
Import ListNotations.
Open Scope Qc_scope.

(* well-formed non-empty data set: all samples have the length recorded in _dim *)
Definition wf (d : ds) : Prop := rows d <> [] /\ Forall (fun s => length (fst s) = ddim d) (rows d).

Lemma wf_values_len d : wf d -> rows_len (ddim d) (values d).
Proof. intros [_ H]. unfold rows_len, values. rewrite Forall_map. exact H. Qed.

Lemma nth_map_lt {A B} (f : A -> B) l j da db : (j < length l)%nat -> nth j (map f l) db = f (nth j l da).
Proof. revert j. induction l as [|x l IH]; intros [|j] H; simpl in *; try lia; auto. apply IH. lia. Qed.

Lemma values_map_rows f l : map fst (map_rows f l) = map f (map fst l).
Proof. unfold map_rows. rewrite !map_map. reflexivity. Qed.

Lemma labels_map_rows f l : map snd (map_rows f l) = map snd l.
Proof. unfold map_rows. rewrite map_map. reflexivity. Qed.

Lemma is_empty_rows d : is_empty d = true -> rows d = [].
Proof. unfold is_empty. destruct (rows d); [reflexivity | discriminate]. Qed.

Lemma wf_not_empty d : wf d -> is_empty d = false.
Proof. intros [H _]. unfold is_empty. destruct (rows d); [contradiction | reflexivity]. Qed.

(* ------------------------------------------------------------------ labels are untouched by the scaling operations *)
Lemma scale_range_labels lo hi ov d d' e : scale_range lo hi ov d = (d', e) -> map snd (rows d') = map snd (rows d).
Proof.
  unfold scale_range. destruct (negb (Qc_ltb lo hi)); [intro H; inversion H; reflexivity|].
  destruct (data_min (values d)); [|intro H; inversion H; reflexivity].
  destruct (data_max (values d)); [|intro H; inversion H; reflexivity].
  destruct (negb (scaled d) || ov); intro H; inversion H; simpl; apply labels_map_rows.
Qed.

Lemma scale_factor_labels a ov d d' e : scale_factor a ov d = (d', e) -> map snd (rows d') = map snd (rows d).
Proof.
  unfold scale_factor. destruct (negb (scaled d) || ov).
  - destruct (is_empty d) eqn:E; [intro H; inversion H; simpl; rewrite (is_empty_rows d E); reflexivity|].
    destruct (negb (arg_fits (dim d) a)); intro H; inversion H; simpl; [reflexivity | apply labels_map_rows].
  - destruct (negb (arg_fits (dim d) a)); [intro H; inversion H; reflexivity|].
    destruct (is_empty d) eqn:E; [intro H; inversion H; simpl; rewrite (is_empty_rows d E); reflexivity|].
    intro H; inversion H; simpl; apply labels_map_rows.
Qed.

Lemma shift_value_labels a ov d d' e : shift_value a ov d = (d', e) -> map snd (rows d') = map snd (rows d).
Proof.
  unfold shift_value. destruct (negb (scaled d) || ov).
  - destruct (is_empty d) eqn:E; [intro H; inversion H; simpl; rewrite (is_empty_rows d E); reflexivity|].
    destruct (negb (arg_fits (dim d) a)); intro H; inversion H; simpl; [reflexivity | apply labels_map_rows].
  - destruct (negb (arg_fits (dim d) a)); [intro H; inversion H; reflexivity|].
    destruct (is_empty d) eqn:E; [intro H; inversion H; simpl; rewrite (is_empty_rows d E); reflexivity|].
    intro H; inversion H; simpl; apply labels_map_rows.
Qed.

Lemma revert_scaling_labels d d' e : revert_scaling d = (d', e) -> map snd (rows d') = map snd (rows d).
Proof.
  unfold revert_scaling.
  assert (G : forall f, (if fac_has_zero f then (d, true) else
      let '(d1, e1) := scale_factor (fac_inv f) false d in
      if e1 then (d1, true) else
      match data_min (values d1), omin d1 with
      | Some mn, Some om => let '(d2, e2) := shift_value (AArr (vneg (vsub mn om))) false d1 in
                            if e2 then (d2, true) else (clear_scaling d2, false)
      | _, _ => (d1, true) end) = (d', e) -> map snd (rows d') = map snd (rows d)).
  { intro f. destruct (fac_has_zero f); [intro H; inversion H; reflexivity|].
    destruct (scale_factor (fac_inv f) false d) as [d1 e1] eqn:E1. pose proof (scale_factor_labels _ _ _ _ _ E1) as L1.
    destruct e1; [intro H; inversion H; subst; exact L1|].
    destruct (data_min (values d1)) as [mn|]; [|intro H; inversion H; subst; exact L1].
    destruct (omin d1) as [om|]; [|intro H; inversion H; subst; exact L1].
    destruct (shift_value (AArr (vneg (vsub mn om))) false d1) as [d2 e2] eqn:E2.
    pose proof (shift_value_labels _ _ _ _ _ E2) as L2.
    destruct e2; intro H; inversion H; subst; simpl; congruence. }
  destruct (sfactor d) as [|q|l] eqn:F; [intro H; inversion H; reflexivity | apply (G (FScalar q)) | apply (G (FArr l))].
Qed.

(* ------------------------------------------------------------------ scale_range maps the extremes onto the range ends *)
Lemma handle_zero_pos r : 0 <= r -> 0 < handle_zero r.
Proof.
  intro H. unfold handle_zero. destruct (Qc_ltb r eps10) eqn:E; [reflexivity|].
  assert (~ r < eps10) by (intro L; apply Qc_ltb_lt in L; congruence).
  apply Qcnot_lt_le in H0. apply Qclt_le_trans with eps10; [reflexivity | exact H0].
Qed.

Lemma nth_transform n sc mi r j : length sc = n -> length mi = n -> length r = n -> (j < n)%nat ->
  nth j (transform sc mi r) 0 = nth j r 0 * nth j sc 0 + nth j mi 0.
Proof.
  intros Hs Hm Hr Hj. unfold transform, vadd, vmul.
  rewrite (nth_map2 Qcplus _ _ j 0 0 0); [| rewrite (map2_length_eq _ _ _ n); auto | lia].
  rewrite (nth_map2 Qcmult _ _ j 0 0 0); [reflexivity | lia | lia].
Qed.

Lemma transform_length n sc mi r : length sc = n -> length mi = n -> length r = n -> length (transform sc mi r) = n.
Proof. intros. unfold transform, vadd, vmul. apply map2_length_eq; [apply map2_length_eq|]; assumption. Qed.

Section ScaleRange.
  Variables (lo hi : Qc) (ov : bool) (d : ds).
  Hypothesis Hwf : wf d.
  Hypothesis Hlh : lo < hi.

  Let n := ddim d.

  Lemma scale_range_extremes :
    exists d' mn mx mn' mx',
      data_min (values d) = Some mn /\ data_max (values d) = Some mx /\
      scale_range lo hi ov d = (d', false) /\
      data_min (values d') = Some mn' /\ data_max (values d') = Some mx' /\
      forall j, (j < n)%nat ->
        nth j mn' 0 = lo /\
        (eps10 <= nth j mx 0 - nth j mn 0 -> nth j mx' 0 = hi) /\
        (nth j mx 0 = nth j mn 0 -> nth j mx' 0 = lo).
  Proof.
    pose proof (wf_values_len d Hwf) as Hlen.
    destruct Hwf as [Hne Hall].
    unfold values in *. destruct (rows d) as [|[r0 l0] rest] eqn:ER; [contradiction|].
    cbn [map fst] in Hlen. inversion Hlen as [|? ? Hr0 Hrs]; subst.
    set (rs := map fst rest) in *.
    set (mn := colmin r0 rs). set (mx := colmax r0 rs).
    assert (Lmn : length mn = n) by (apply colmin_length; assumption).
    assert (Lmx : length mx = n) by (apply colmax_length; assumption).
    set (sc := mm_scale lo hi mn mx). set (mi := mm_min lo mn sc).
    assert (Lsc : length sc = n).
    { unfold sc, mm_scale. rewrite map_length. unfold vsub. apply map2_length_eq; assumption. }
    assert (Lmi : length mi = n) by (unfold mi, mm_min; apply map2_length_eq; assumption).
    assert (Hrange : forall j, (j < n)%nat -> 0 <= nth j mx 0 - nth j mn 0).
    { intros j Hj. unfold mx, mn. rewrite (nth_colmax n), (nth_colmin n); auto.
      apply sub_nonneg. apply lmin_le_lmax. }
    assert (Hsc : forall j, (j < n)%nat -> nth j sc 0 = (hi - lo) / handle_zero (nth j mx 0 - nth j mn 0)).
    { intros j Hj. unfold sc, mm_scale.
      assert (Lv : length (vsub mx mn) = n) by (unfold vsub; apply map2_length_eq; assumption).
      rewrite (nth_map_lt _ _ j 0 0) by lia.
      unfold vsub. rewrite (nth_map2 Qcminus _ _ j 0 0 0); [reflexivity | lia | lia]. }
    assert (Hmi : forall j, (j < n)%nat -> nth j mi 0 = lo - nth j mn 0 * nth j sc 0).
    { intros j Hj. unfold mi, mm_min. rewrite (nth_map2 _ _ _ j 0 0 0); [reflexivity | lia | lia]. }
    assert (Hpos : forall j, (j < n)%nat -> 0 <= nth j sc 0).
    { intros j Hj. rewrite Hsc by exact Hj. apply Qclt_le_weak. unfold Qcdiv. apply Qcmult_pos.
      - apply sub_pos. exact Hlh.
      - apply Qcinv_pos. apply handle_zero_pos. apply Hrange. exact Hj. }
    set (rows' := map_rows (transform sc mi) ((r0, l0) :: rest)).
    assert (Hv' : map fst rows' = transform sc mi r0 :: map (transform sc mi) rs).
    { unfold rows'. rewrite values_map_rows. reflexivity. }
    assert (Hlen' : rows_len n (map (transform sc mi) rs)).
    { unfold rows_len. rewrite Forall_map. eapply Forall_impl; [|exact Hrs]. intros r Hr. cbn beta in Hr.
      apply transform_length; assumption. }
    assert (Hcol : forall j, (j < n)%nat ->
              col j (map (transform sc mi) rs) = map (fun y => y * nth j sc 0 + nth j mi 0) (col j rs)).
    { intros j Hj. apply col_map. intros r Hr. apply (nth_transform n); auto.
      unfold rows_len in Hrs. rewrite Forall_forall in Hrs. apply Hrs. exact Hr. }
    exists (if negb (scaled d) || ov
            then mkDS rows' (ddim d) (flat d) (shuffled d) true (RScalar lo hi) (FArr sc) (Some mn) (Some mx)
            else mkDS rows' (ddim d) (flat d) (shuffled d) (scaled d) (RScalar lo hi) (fac_mul (sfactor d) (AArr sc)) (omin d) (omax d)).
    exists mn, mx, (colmin (transform sc mi r0) (map (transform sc mi) rs)),
                   (colmax (transform sc mi r0) (map (transform sc mi) rs)).
    split; [reflexivity|]. split; [reflexivity|].
    split.
    { unfold scale_range. apply Qc_ltb_lt in Hlh. rewrite Hlh. cbn [negb]. unfold values. rewrite ER.
      cbn [map fst data_min data_max]. fold rs. fold mn mx sc mi. fold rows'.
      destruct (negb (scaled d) || ov); reflexivity. }
    split; [destruct (negb (scaled d) || ov); unfold values; cbn [rows]; rewrite Hv'; reflexivity|].
    split; [destruct (negb (scaled d) || ov); unfold values; cbn [rows]; rewrite Hv'; reflexivity|].
    intros j Hj.
    assert (Tl : length (transform sc mi r0) = n) by (apply transform_length; assumption).
    rewrite (nth_colmin n), (nth_colmax n); auto.
    rewrite (nth_transform n), Hcol; auto.
    rewrite lmin_affine, lmax_affine by (apply Hpos; exact Hj).
    fold (lmin (nth j r0 0) (col j rs)).
    assert (Emn : lmin (nth j r0 0) (col j rs) = nth j mn 0) by (unfold mn; rewrite (nth_colmin n); auto).
    assert (Emx : lmax (nth j r0 0) (col j rs) = nth j mx 0) by (unfold mx; rewrite (nth_colmax n); auto).
    rewrite Emn, Emx, (Hmi j Hj).
    split; [ring|]. split.
    - intro Hbig. rewrite (Hsc j Hj). unfold handle_zero.
      assert (Qc_ltb (nth j mx 0 - nth j mn 0) eps10 = false) as ->.
      { destruct (Qc_ltb (nth j mx 0 - nth j mn 0) eps10) eqn:E; [|reflexivity]. apply Qc_ltb_lt in E.
        exfalso. apply (Qcle_not_lt _ _ Hbig). exact E. }
      assert (nth j mx 0 - nth j mn 0 <> 0).
      { intro Z0. rewrite Z0 in Hbig. apply (Qcle_not_lt _ _ Hbig). reflexivity. }
      field. exact H.
    - intro Heq. rewrite Heq. ring.
  Qed.
End ScaleRange.
