(* C02: coefficient sum 1 at every point of the combined grid and union = sparse grid, for the standard combination
   on uniform dyadic grids: instantiation of Proofs/CombiAbstract.v with the grids of Model/StdCombi.v and the scheme
   invariant of Proofs/SchemeInv.v. *)
From Coq Require Import ZArith List Bool QArith Qcanon Lia Permutation.
From SG Require Import Base.QcUtil Model.CombiScheme Model.StdCombi Proofs.SchemeBasics Proofs.SchemeIE Proofs.SchemeInv
  Proofs.SchemeStd Proofs.CombiAbstract Proofs.StdGrid.
Import ListNotations.
Local Open Scope Z_scope.

Definition Pab (bd : bool) (a b : list Qc) (d : nat) (l : Z) : list Qc :=
  grid1 bd (nth d a (Q2Qc 0)) (nth d b (Q2Qc 0)) l.

Definition in_comp (bd : bool) (a b : list Qc) (x : list Qc) (l : lv) : bool :=
  in_grid Qc Qc_eqb (Pab bd a b) 0 x l.

Lemma crossQ_In : forall gs x, In x (crossQ gs) <-> Forall2 (fun xi g => In xi g) x gs.
Proof.
  induction gs as [|g gs IH]; intro x; simpl.
  - split; [intros [<-|[]]; constructor | intro H; inversion H; left; reflexivity].
  - rewrite in_flat_map. split.
    + intros [x0 [H0 H]]. apply in_map_iff in H. destruct H as [x' [<- H']]. constructor; [assumption|]. apply IH. assumption.
    + intro H. inversion H as [|x0 ? x' ? H0 H']; subst. exists x0. split; [assumption|].
      apply in_map_iff. exists x'. split; [reflexivity|]. apply IH. assumption.
Qed.

Lemma zip3_skip {A} (a b : list A) d0 x0 y0 : (d0 < length a)%nat -> (d0 < length b)%nat ->
  skipn d0 a = nth d0 a x0 :: skipn (S d0) a /\ skipn d0 b = nth d0 b y0 :: skipn (S d0) b.
Proof.
  intros Ha Hb. split.
  - clear Hb. revert d0 Ha. induction a as [|p a IH]; intros [|d0] H; simpl in *; try lia; [reflexivity|]. apply IH. lia.
  - clear Ha. revert d0 Hb. induction b as [|p b IH]; intros [|d0] H; simpl in *; try lia; [reflexivity|]. apply IH. lia.
Qed.

Lemma comp_points_in_grid bd a b : forall l x d0,
  (d0 + length l = length a)%nat -> length b = length a ->
  (In x (crossQ (map (fun t => let '(x, y, z) := t in grid1 bd x y z) (zip3 (skipn d0 a) (skipn d0 b) l)))
   <-> in_grid Qc Qc_eqb (Pab bd a b) d0 x l = true).
Proof.
  induction l as [|ld l IH]; intros x d0 Hlen Hb.
  - assert (zip3 (skipn d0 a) (skipn d0 b) [] = []) as -> by (destruct (skipn d0 a); [|destruct (skipn d0 b)]; reflexivity).
    simpl. destruct x; simpl; split; intro H; try discriminate; auto. destruct H as [H|[]]; discriminate.
  - simpl in Hlen.
    destruct (zip3_skip a b d0 (Q2Qc 0) (Q2Qc 0)) as [Ea Eb]; [lia|lia|].
    rewrite Ea, Eb. simpl zip3. simpl map. rewrite crossQ_In.
    destruct x as [|x0 x].
    + simpl. split; [intro H; inversion H | discriminate].
    + simpl in_grid. split.
      * intro H. inversion H as [|? ? ? ? H0 H']; subst. apply andb_true_iff. split.
        -- apply (memX_In Qc Qc_eqb Qc_eqb_eq). exact H0.
        -- apply (proj1 (IH x (S d0) ltac:(lia) Hb)). apply crossQ_In. exact H'.
      * intro H. apply andb_true_iff in H. destruct H as [H0 H']. constructor.
        -- apply (memX_In Qc Qc_eqb Qc_eqb_eq) in H0. exact H0.
        -- apply crossQ_In. apply (proj2 (IH x (S d0) ltac:(lia) Hb)). exact H'.
Qed.

Lemma comp_points_in_comp bd a b l x : length l = length a -> length b = length a ->
  (In x (comp_points bd a b l) <-> in_comp bd a b x l = true).
Proof. intros H1 H2. unfold comp_points, in_comp. apply (comp_points_in_grid bd a b l x 0%nat); simpl; assumption. Qed.

Lemma Pab_nested bd a b lmin : 0 <= lmin -> forall d l l', lmin <= l -> l <= l' -> incl (Pab bd a b d l) (Pab bd a b d l').
Proof. intros H d l l' H1 H2. unfold Pab. apply grid1_nested; lia. Qed.

Definition coeff_sum (bd : bool) (a b : list Qc) (cs : list (lv * Z)) (x : list Qc) : Z :=
  sumZ (map (fun kv => if in_comp bd a b x (fst kv) then snd kv else 0) cs).

(* for every state of the adaptive scheme satisfying the invariant (in particular the freshly initialised one) *)
Theorem adaptive_point_coeff_sum_one bd a b s x l0 c0 :
  Inv s -> 0 <= s_lmin s ->
  In (l0, c0) (combi_scheme_adaptive s) -> in_comp bd a b x l0 = true ->
  coeff_sum bd a b (combi_scheme_adaptive s) x = 1.
Proof.
  intros HI Hl Hin Hx. unfold coeff_sum, in_comp.
  apply (point_coeff_sum_one Qc Qc_eqb Qc_eqb_eq (Pab bd a b) (s_lmin s) (Pab_nested bd a b (s_lmin s) Hl)
           (index_set s) (combi_scheme_adaptive s) (s_dim s)) with (l0 := l0) (c0 := c0); try assumption.
  - intros g Hg. apply index_set_In in Hg. apply (inv_wf s HI g Hg).
  - intros l Ll Fl. apply scheme_inclusion_exclusion; assumption.
  - intros k c Hk. apply (scheme_support s k c HI Hk).
  - intros k j Hk Lj Fj. apply (scheme_downward_closed s HI k j); assumption.
Qed.

Theorem adaptive_union_contains_sparse_grid bd a b s x k :
  Inv s -> 0 <= s_lmin s -> In k (index_set s) -> in_comp bd a b x k = true ->
  exists l c, In (l, c) (combi_scheme_adaptive s) /\ c <> 0 /\ in_comp bd a b x l = true.
Proof.
  intros HI Hl Hk Hx. unfold in_comp in *.
  apply (union_contains_sparse_grid Qc Qc_eqb Qc_eqb_eq (Pab bd a b) (s_lmin s) (Pab_nested bd a b (s_lmin s) Hl)
           (index_set s) (combi_scheme_adaptive s) (s_dim s)) with (k := k); try assumption.
  - intros g Hg. apply index_set_In in Hg. apply (inv_wf s HI g Hg).
  - intros l Ll Fl. apply scheme_inclusion_exclusion; assumption.
Qed.

(* transfer to the closed-form scheme through the verified checker: closed form and adaptive-init coefficient lists
   are duplicate-free and mutually included => permutations of each other => same sums *)
Fixpoint nodup_keys (cs : list (lv * Z)) : bool :=
  match cs with
  | [] => true
  | kv :: r => negb (existsb (fun kv' => lv_eqb (fst kv) (fst kv')) r) && nodup_keys r
  end.

Lemma nodup_keys_NoDup cs : nodup_keys cs = true -> NoDup cs.
Proof.
  induction cs as [|[k c] r IH]; simpl; intro H; [constructor|].
  apply andb_true_iff in H. destruct H as [H1 H2]. constructor; [|apply IH; assumption].
  intro Hin. apply negb_true_iff in H1.
  assert (existsb (fun kv' => lv_eqb k (fst kv')) r = true) as Habs; [|congruence].
  apply existsb_exists. exists (k, c). split; [assumption|]. apply lv_eqb_refl.
Qed.

Definition std_perm_check (d : nat) (lmin lmax : Z) : bool :=
  match init_scheme d lmax lmin with
  | Some s => let ad := combi_scheme_adaptive s in
              let c := combi_scheme_standard d lmin lmax in
              coeffs_sub c ad && coeffs_sub ad c && nodup_keys c && nodup_keys ad
  | None => false
  end.

Lemma std_perm_check_sound d lmin lmax : std_perm_check d lmin lmax = true ->
  exists s, init_scheme d lmax lmin = Some s /\ Permutation (combi_scheme_standard d lmin lmax) (combi_scheme_adaptive s).
Proof.
  unfold std_perm_check. destruct (init_scheme d lmax lmin) as [s|]; [|discriminate]. intro H.
  apply andb_true_iff in H. destruct H as [H H4]. apply andb_true_iff in H. destruct H as [H H3].
  apply andb_true_iff in H. destruct H as [H1 H2].
  exists s. split; [reflexivity|]. apply NoDup_Permutation.
  - apply nodup_keys_NoDup; assumption.
  - apply nodup_keys_NoDup; assumption.
  - intros [k c]. split; intro Hin; [eapply coeffs_sub_spec; eassumption | eapply coeffs_sub_spec; eassumption].
Qed.

Lemma sumZ_Permutation l l' : Permutation l l' -> sumZ l = sumZ l'.
Proof.
  induction 1 as [|x l l' _ IH|x y l|l l' l'' _ IH1 _ IH2]; try reflexivity.
  - change (x + sumZ l = x + sumZ l'). rewrite IH. reflexivity.
  - change (y + (x + sumZ l) = x + (y + sumZ l)). lia.
  - congruence.
Qed.

Theorem std_point_coeff_sum_one bd a b n lmin lmax x l0 c0 :
  std_perm_check (S n) lmin lmax = true ->
  In (l0, c0) (combi_scheme_standard (S n) lmin lmax) -> in_comp bd a b x l0 = true ->
  coeff_sum bd a b (combi_scheme_standard (S n) lmin lmax) x = 1.
Proof.
  intros Hc Hin Hx. destruct (std_perm_check_sound (S n) lmin lmax Hc) as [s [Hs Hp]].
  pose proof (init_inv n lmax lmin s Hs) as HI.
  destruct (init_scheme_fields (S n) lmax lmin s Hs) as [_ Em].
  assert (0 <= s_lmin s) as Hl.
  { rewrite Em. unfold init_scheme in Hs.
    destruct ((lmax >=? lmin) && (lmax >=? 0) && (lmin >=? 0)) eqn:E; [|discriminate].
    apply andb_true_iff in E. destruct E as [_ E]. lia. }
  unfold coeff_sum.
  rewrite (sumZ_Permutation _ _ (Permutation_map (fun kv => if in_comp bd a b x (fst kv) then snd kv else 0) Hp)).
  apply (adaptive_point_coeff_sum_one bd a b s x l0 c0 HI Hl); [|assumption].
  apply (Permutation_in _ Hp). assumption.
Qed.
