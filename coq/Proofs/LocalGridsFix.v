(* C08: the two proposed repairs on the model.
   (1) level 0 / boundary off / one-sided sub-box returns the remaining END POINT: with it the boundary-off clause of the
       property holds for EVERY level (the code as it is: C08_trap_boundary_off_level0_refuted).
   (2) Leja count that depends on the sub-box: the slice taken by the border logic has the announced length
       (the code as it is: C08_leja_boundary_off_count_refuted). *)
From Coq Require Import ZArith List QArith Qcanon Bool Arith Lia.
From SG Require Import Base.QcUtil Model.Tensor Model.LocalGrids Model.LocalRules Proofs.TensorRule Proofs.LocalGridsBase
  Proofs.LocalGridsTrap Proofs.LocalGridsSimpson Proofs.LocalGridsMain.
Import ListNotations.
Open Scope Qc_scope.

Lemma lvl0_onesided_true_bnd f x : lvl0_onesided f true x = false.
Proof. reflexivity. Qed.

Lemma fx_same f bnd x : lvl0_onesided f bnd x = false ->
  eq_points_fx f bnd x = eq_points bnd x /\ eq_weights_fx f bnd x = eq_weights f bnd x.
Proof. intro H. unfold eq_points_fx, eq_weights_fx. rewrite H. split; reflexivity. Qed.

(* the repaired rule still has as many points and weights as announced, inside the sub-box *)
Theorem fx_count_inside f bnd x : f <> FSimpsonAsIs ->
  length (eq_points_fx f bnd x) = eq_np bnd x /\ length (eq_weights_fx f bnd x) = eq_np bnd x /\
  (d_s x <= d_e x -> Forall (fun p => d_s x <= p /\ p <= d_e x) (eq_points_fx f bnd x)).
Proof.
  intro Hf. destruct (lvl0_onesided f bnd x) eqn:E.
  - unfold eq_points_fx, eq_weights_fx. rewrite E.
    unfold lvl0_onesided in E. repeat (apply andb_true_iff in E; destruct E as [E ?]).
    apply negb_true_iff in E. subst bnd. apply Nat.eqb_eq in H1.
    assert (Hnp : eq_np false x = 1%nat).
    { unfold eq_np, num_points_eq, npwb_of_level. rewrite H1. cbn [Nat.pow Nat.add].
      destruct (touch_l (d_a x) (d_s x)), (touch_r (d_b x) (d_e x)); cbn in *; try discriminate; reflexivity. }
    rewrite Hnp. split; [reflexivity | split; [reflexivity|]].
    intro Hse. constructor; [|constructor].
    destruct (touch_l (d_a x) (d_s x)); split; try assumption; apply Qcle_refl.
  - destruct (fx_same f bnd x E) as [-> ->]. destruct (eq_count f bnd x Hf) as [A B].
    split; [exact A | split; [exact B | apply eq_inside]].
Qed.

(* what the boundary=True rule is at level 0 *)
Lemma level0_on x : d_level x = 0%nat ->
  combine (eq_points true x) (eq_weights FTrap true x)
  = [(d_s x, (d_e x - d_s x) * Qchalf); (d_e x, (d_e x - d_s x) * Qchalf)].
Proof.
  intro H0. unfold eq_points, eq_weights, eq_borders, eq_np, num_points_eq, npwb_of_level, borders. rewrite H0.
  cbn [Nat.pow Nat.add negb andb Nat.sub b2n Nat.mul].
  unfold trap_points, trap_weights, trap_weight, wct, slice_idx, spacing.
  cbn [negb andb Nat.min Nat.sub seq map combine Nat.eqb Nat.add orb Nat.ltb Nat.leb].
  unfold lin. rewrite qn_0, qn_1.
  assert (E1 : (d_e x - d_s x) / 1 = d_e x - d_s x) by (field; discriminate).
  rewrite E1.
  replace (d_s x + 0 * (d_e x - d_s x)) with (d_s x) by ring.
  replace (d_s x + 1 * (d_e x - d_s x)) with (d_e x) by ring.
  reflexivity.
Qed.

(* THE BOUNDARY-OFF CLAUSE FOR EVERY LEVEL (repaired rule) *)
Theorem trap_boundary_off_fx x : dim_ok x ->
  combine (eq_points_fx FTrap false x) (eq_weights_fx FTrap false x)
  = filter (keep_interior (d_a x) (d_b x)) (combine (eq_points true x) (eq_weights FTrap true x)).
Proof.
  intros Hok. destruct (lvl0_onesided FTrap false x) eqn:E.
  - unfold eq_points_fx, eq_weights_fx. rewrite E.
    unfold lvl0_onesided in E. repeat (apply andb_true_iff in E; destruct E as [E ?]).
    apply Nat.eqb_eq in H1. rewrite (level0_on x H1).
    destruct Hok as (Has & Hse & Heb).
    unfold touch_l, touch_r in *. cbn [filter keep_interior fst combine].
    destruct (Qc_eqb (d_s x) (d_a x)) eqn:TL, (Qc_eqb (d_e x) (d_b x)) eqn:TR; cbn in H0; try discriminate.
    + (* touches the lower side: s = a is dropped, e stays *)
      assert (TL' := TL). apply Qc_eqb_eq in TL'.
      assert (N1 : Qc_eqb (d_e x) (d_a x) = false) by (apply Qc_eqb_false; rewrite <- TL'; apply Qclt_neq'; assumption).
      unfold keep_interior. cbn [fst]. rewrite TL, TR, N1. reflexivity.
    + (* touches the upper side: e = b is dropped, s stays *)
      assert (TR' := TR). apply Qc_eqb_eq in TR'.
      assert (N2 : Qc_eqb (d_s x) (d_b x) = false) by (apply Qc_eqb_false; rewrite <- TR'; apply Qclt_neq; assumption).
      unfold keep_interior. cbn [fst]. rewrite TL, TR, N2. cbn [negb andb].
      destruct (Qc_eqb (d_e x) (d_a x)); reflexivity.
  - destruct (fx_same FTrap false x E) as [-> ->]. apply trap_boundary_off; [assumption|].
    intros [H0 Hx]. unfold lvl0_onesided in E. rewrite H0 in E. cbn [negb andb Nat.eqb] in E.
    unfold d_tl, d_tr in Hx. rewrite Hx in E. discriminate.
Qed.

(* where nothing touches one side at level 0 the repair changes nothing: all existing theorems carry over *)
Theorem fx_conservative f bnd x : ~ (bnd = false /\ d_level x = 0%nat /\ xorb (d_tl x) (d_tr x) = true) ->
  eq_points_fx f bnd x = eq_points bnd x /\ eq_weights_fx f bnd x = eq_weights f bnd x.
Proof.
  intro H. apply fx_same. unfold lvl0_onesided. destruct bnd; [reflexivity|]. cbn [negb andb].
  destruct (d_level x =? 0)%nat eqn:L; [|reflexivity]. apply Nat.eqb_eq in L. cbn [andb].
  fold (d_tl x) (d_tr x). destruct (xorb (d_tl x) (d_tr x)) eqn:X; [|reflexivity].
  exfalso. apply H. repeat split; assumption.
Qed.

(* ---- Leja ---- *)
Theorem leja_fx_slice_length bnd a b s e l :
  let '(np, _, _, _, len) := leja_info_fx bnd a b s e l in len = np.
Proof.
  unfold leja_info_fx.
  assert (H2 : (2 <= leja_npwb l)%nat) by (destruct l; cbn; lia).
  set (npwb := leja_npwb l) in *. clearbody npwb.
  unfold num_points_eq, borders, slice_idx.
  destruct bnd, (touch_l a s), (touch_r b e); cbn [negb andb b2n Nat.add];
    repeat match goal with |- context [(?u <? ?v)%nat] => destruct (Nat.ltb_spec u v) end;
    cbn [fst snd]; rewrite ?seq_length; lia.
Qed.
