(* C12 — product-structured Genz classes over the reals: the analytic integral formula of the code IS the iterated
   Riemann integral (is_iter_int, Proofs/FunPolyIter.v) of the function computed by eval, in every dimension.

   The definitions `pp_*` (GenzProductPeak) and `gd_*` (GenzDiscontinious) transcribe the Python loops of eval and
   getAnalyticSolutionIntegral over the REAL numbers (exp, atan are the real functions): they are mathematical
   transcriptions, not executable models - the floating-point code is tied to them by reading and by the numerical
   cross-check of the harness, not by an extracted correspondence. Uses the real-number axioms of the standard library. *)
From Coq Require Import Reals List Lia Lra.
From Coquelicot Require Import Coquelicot.
From SG Require Import Proofs.FunPolyIter.
Import ListNotations.
Open Scope R_scope.

(* ------------------------------------------------------------------ separable integrands *)
Fixpoint prod_fun (fs : list (R -> R)) (xs : list R) : R :=
  match fs, xs with f :: fs', x :: xs' => f x * prod_fun fs' xs' | _, _ => 1 end.
Fixpoint prodR (l : list R) : R := match l with [] => 1 | x :: r => x * prodR r end.

Inductive sep_ok : list (R -> R) -> list R -> list R -> list R -> Prop :=
| sep_nil : sep_ok [] [] [] []
| sep_cons f fs a a' b b' v vs : is_RInt f a b v -> sep_ok fs a' b' vs -> sep_ok (f :: fs) (a :: a') (b :: b') (v :: vs).

(* the iterated integral of a product of one-variable functions is the product of the one-variable integrals *)
Theorem sep_iter fs a b vs : sep_ok fs a b vs -> is_iter_int (prod_fun fs) a b (prodR vs).
Proof.
  induction 1 as [|f fs a a' b b' v vs Hf Hrest IH].
  - apply (iter_nil (prod_fun [])).
  - cbn [prodR]. apply (iter_cons (prod_fun (f :: fs)) a b a' b' (fun x => f x * prodR vs)).
    + intros x _. cbn [prod_fun]. apply (iter_scal (f x) (prod_fun fs) a' b' (prodR vs)). exact IH.
    + apply (is_RInt_ext (fun x => prodR vs * f x)); [intros x _; apply Rmult_comm|].
      pose proof (is_RInt_scal f a b (prodR vs) v Hf) as H.
      refine (eq_ind _ (fun w => is_RInt _ a b w) H _ _). unfold scal; simpl; unfold mult; simpl. ring.
Qed.

(* ================================================================== GenzProductPeak *)
(* eval:  result = factor; for d: result /= (coeffs[d] ** (-2) + (coordinates[d] - midPoint[d]) ** 2) *)
Fixpoint pp_eval (cs ms xs : list R) (acc : R) : R :=
  match cs, ms, xs with
  | c :: cs', m :: ms', x :: xs' => pp_eval cs' ms' xs' (acc / (/ (c ^ 2) + (x - m) ^ 2))
  | _, _, _ => acc
  end.
(* integral:  result = 1; for d: result *= atan(c (m - start)) c - atan(c (m - end)) c;  return result * factor *)
Fixpoint pp_int (cs ms a b : list R) (acc : R) : R :=
  match cs, ms, a, b with
  | c :: cs', m :: ms', ai :: a', bi :: b' => pp_int cs' ms' a' b' (acc * (atan (c * (m - ai)) * c - atan (c * (m - bi)) * c))
  | _, _, _, _ => acc
  end.
Definition pp_factor (n : nat) : R := / 10 ^ n.        (* 10 ** (-dim) *)

Definition pp_f (c m x : R) : R := / (/ (c ^ 2) + (x - m) ^ 2).

Lemma pp_denominator_pos c m x : c <> 0 -> 0 < / (c ^ 2) + (x - m) ^ 2.
Proof.
  intro Hc. assert (0 < c ^ 2) by (rewrite <- Rsqr_pow2; apply Rsqr_pos_lt; exact Hc). assert (0 < / c ^ 2) by (apply Rinv_0_lt_compat; assumption).
  pose proof (pow2_ge_0 (x - m)). lra.
Qed.

Lemma pp_1d c m a b : c <> 0 -> is_RInt (pp_f c m) a b (atan (c * (m - a)) * c - atan (c * (m - b)) * c).
Proof.
  intro Hc.
  replace (atan (c * (m - a)) * c - atan (c * (m - b)) * c) with (c * atan (c * (b - m)) - c * atan (c * (a - m))).
  2:{ replace (c * (m - a)) with (- (c * (a - m))) by ring. replace (c * (m - b)) with (- (c * (b - m))) by ring.
      rewrite !atan_opp. ring. }
  apply (is_RInt_derive (fun x => c * atan (c * (x - m))) (pp_f c m)).
  - intros x _. unfold pp_f. auto_derive; [trivial|].
    pose proof (pp_denominator_pos c m x Hc) as H. pose proof (pow2_ge_0 ((x - m) * c)) as H2.
    unfold Rsqr. field. repeat split; try exact Hc; try lra.
  - intros x _. unfold pp_f. apply (ex_derive_continuous (fun x0 => / (/ c ^ 2 + (x0 - m) ^ 2))). auto_derive.
    pose proof (pp_denominator_pos c m x Hc) as H. simpl in H. unfold Rminus in H. lra.
Qed.

Fixpoint pp_fs (cs ms : list R) : list (R -> R) :=
  match cs, ms with c :: cs', m :: ms' => pp_f c m :: pp_fs cs' ms' | _, _ => [] end.
Fixpoint pp_vs (cs ms a b : list R) : list R :=
  match cs, ms, a, b with
  | c :: cs', m :: ms', ai :: a', bi :: b' => (atan (c * (m - ai)) * c - atan (c * (m - bi)) * c) :: pp_vs cs' ms' a' b'
  | _, _, _, _ => []
  end.

Lemma pp_eval_prod : forall cs ms xs acc, pp_eval cs ms xs acc = acc * prod_fun (pp_fs cs ms) xs.
Proof.
  induction cs as [|c cs IH]; intros [|m ms] [|x xs] acc; cbn [pp_eval pp_fs prod_fun]; try ring.
  rewrite IH. unfold pp_f, Rdiv. ring.
Qed.

Lemma pp_int_prod : forall cs ms a b acc, length ms = length cs -> length a = length cs -> length b = length cs ->
  pp_int cs ms a b acc = acc * prodR (pp_vs cs ms a b).
Proof.
  induction cs as [|c cs IH]; intros [|m ms] [|ai a] [|bi b] acc Hm Ha Hb; try discriminate; cbn [pp_int pp_vs prodR]; [ring|].
  rewrite IH by (simpl in *; lia). ring.
Qed.

Lemma pp_sep : forall cs ms a b, length ms = length cs -> length a = length cs -> length b = length cs ->
  List.Forall (fun c => c <> 0) cs -> sep_ok (pp_fs cs ms) a b (pp_vs cs ms a b).
Proof.
  induction cs as [|c cs IH]; intros [|m ms] [|ai a] [|bi b] Hm Ha Hb Hnz; try discriminate; cbn [pp_fs pp_vs]; [constructor|].
  inversion Hnz; subst. constructor; [apply pp_1d; assumption | apply IH; simpl in *; try lia; assumption].
Qed.

Theorem productpeak_integral_is_iterated_riemann cs ms a b :
  length ms = length cs -> length a = length cs -> length b = length cs -> List.Forall (fun c => c <> 0) cs ->
  is_iterated_riemann_integral (fun xs => pp_eval cs ms xs (pp_factor (length cs))) a b
                               (pp_int cs ms a b 1 * pp_factor (length cs)).
Proof.
  intros Hm Ha Hb Hnz. unfold is_iterated_riemann_integral.
  rewrite pp_int_prod by assumption.
  apply (iter_value_eq _ a b (pp_factor (length cs) * prodR (pp_vs cs ms a b))); [|ring].
  apply (iter_ext (fun xs => pp_factor (length cs) * prod_fun (pp_fs cs ms) xs)).
  - intro xs. symmetry. apply pp_eval_prod.
  - apply iter_scal. apply sep_iter. apply pp_sep; assumption.
Qed.

(* ================================================================== GenzDiscontinious *)
(* eval:  result = 0; for d: if coordinates[d] >= border[d]: return 0.0; result -= coeffs[d] * coordinates[d]; return exp(result) *)
Fixpoint gd_eval (cs bs xs : list R) (acc : R) : R :=
  match cs, bs, xs with
  | c :: cs', bo :: bs', x :: xs' => if Rle_dec bo x then 0 else gd_eval cs' bs' xs' (acc - c * x)
  | _, _, _ => exp acc
  end.
(* integral:  result = 1; for d: if start[d] >= border[d]: return 0.0
                                 else: end[d] = min(end[d], border[d]); result *= (exp(-c start[d]) - exp(-c end[d])) / c *)
Fixpoint gd_int (cs bs a b : list R) (acc : R) : R :=
  match cs, bs, a, b with
  | c :: cs', bo :: bs', ai :: a', bi :: b' =>
      if Rle_dec bo ai then 0 else gd_int cs' bs' a' b' (acc * ((exp (- c * ai) - exp (- c * Rmin bi bo)) / c))
  | _, _, _, _ => acc
  end.

Definition gd_f (c bo x : R) : R := if Rle_dec bo x then 0 else exp (- c * x).
Definition gd_v (c bo ai bi : R) : R := if Rle_dec bo ai then 0 else (exp (- c * ai) - exp (- c * Rmin bi bo)) / c.

Lemma RInt_exp_neg c a b : c <> 0 -> is_RInt (fun x => exp (- c * x)) a b ((exp (- c * a) - exp (- c * b)) / c).
Proof.
  intro Hc. replace ((exp (- c * a) - exp (- c * b)) / c) with ((- exp (- c * b) / c) - (- exp (- c * a) / c)) by (field; exact Hc).
  apply (is_RInt_derive (fun x => - exp (- c * x) / c) (fun x => exp (- c * x))).
  - intros x _. auto_derive; [trivial|]. field. exact Hc.
  - intros x _. apply (ex_derive_continuous (fun x0 => exp (- c * x0))). auto_derive. trivial.
Qed.

Lemma is_RInt_zero_on a b (f : R -> R) : (forall x, Rmin a b < x < Rmax a b -> f x = 0) -> is_RInt f a b 0.
Proof. intro H. apply (is_RInt_ext (fun _ => 0)); [intros x Hx; symmetry; apply H; exact Hx | apply is_RInt_zero]. Qed.

Lemma gd_1d c bo a b : c <> 0 -> a <= b -> is_RInt (gd_f c bo) a b (gd_v c bo a b).
Proof.
  intros Hc Hab. unfold gd_v. destruct (Rle_dec bo a) as [Hba|Hba].
  - apply is_RInt_zero_on. intros x Hx. rewrite Rmin_left, Rmax_right in Hx by exact Hab.
    unfold gd_f. destruct (Rle_dec bo x); [reflexivity | lra].
  - assert (Ha : a < bo) by lra.
    set (e := Rmin b bo).
    assert (He1 : a <= e) by (unfold e; apply Rmin_glb; lra).
    assert (He2 : e <= b) by (unfold e; apply Rmin_l).
    assert (He3 : e <= bo) by (unfold e; apply Rmin_r).
    replace ((exp (- c * a) - exp (- c * e)) / c) with (plus ((exp (- c * a) - exp (- c * e)) / c) 0)
      by (unfold plus; simpl; ring).
    apply (is_RInt_Chasles (gd_f c bo) a e b).
    + apply (is_RInt_ext (fun x => exp (- c * x))); [|apply RInt_exp_neg; exact Hc].
      intros x Hx. rewrite Rmin_left, Rmax_right in Hx by exact He1.
      unfold gd_f. destruct (Rle_dec bo x); [lra | reflexivity].
    + apply is_RInt_zero_on. intros x Hx. rewrite Rmin_left, Rmax_right in Hx by exact He2.
      unfold gd_f. destruct (Rle_dec bo x) as [|Hn]; [reflexivity|].
      (* e < x < b and x < bo: then e = b (as e = min b bo), impossible *)
      exfalso. unfold e in Hx. destruct (Rle_dec b bo) as [L|L]; [rewrite Rmin_left in Hx by exact L; lra|].
      rewrite Rmin_right in Hx by lra. lra.
Qed.

Fixpoint gd_fs (cs bs : list R) : list (R -> R) :=
  match cs, bs with c :: cs', bo :: bs' => gd_f c bo :: gd_fs cs' bs' | _, _ => [] end.
Fixpoint gd_vs (cs bs a b : list R) : list R :=
  match cs, bs, a, b with
  | c :: cs', bo :: bs', ai :: a', bi :: b' => gd_v c bo ai bi :: gd_vs cs' bs' a' b'
  | _, _, _, _ => []
  end.

Lemma gd_eval_prod : forall cs bs xs acc, gd_eval cs bs xs acc = exp acc * prod_fun (gd_fs cs bs) xs.
Proof.
  induction cs as [|c cs IH]; intros [|bo bs] [|x xs] acc; cbn [gd_eval gd_fs prod_fun]; try ring.
  unfold gd_f at 1. destruct (Rle_dec bo x); [ring|].
  rewrite IH. unfold Rminus. rewrite exp_plus. replace (- (c * x)) with (- c * x) by ring. ring.
Qed.

Lemma gd_int_prod : forall cs bs a b acc, length bs = length cs -> length a = length cs -> length b = length cs ->
  gd_int cs bs a b acc = acc * prodR (gd_vs cs bs a b).
Proof.
  induction cs as [|c cs IH]; intros [|bo bs] [|ai a] [|bi b] acc Hm Ha Hb; try discriminate; cbn [gd_int gd_vs prodR]; [ring|].
  unfold gd_v at 1. destruct (Rle_dec bo ai); [ring|].
  rewrite IH by (simpl in *; lia). ring.
Qed.

Inductive box_ordered : list R -> list R -> Prop :=
| bo_nil : box_ordered [] []
| bo_cons a a' b b' : a <= b -> box_ordered a' b' -> box_ordered (a :: a') (b :: b').

Lemma gd_sep : forall cs bs a b, length bs = length cs -> length a = length cs -> length b = length cs ->
  List.Forall (fun c => c <> 0) cs -> box_ordered a b -> sep_ok (gd_fs cs bs) a b (gd_vs cs bs a b).
Proof.
  induction cs as [|c cs IH]; intros [|bo bs] [|ai a] [|bi b] Hm Ha Hb Hnz Hord; try discriminate; cbn [gd_fs gd_vs]; [constructor|].
  inversion Hnz; subst. inversion Hord; subst.
  constructor; [apply gd_1d; assumption | apply IH; simpl in *; try lia; assumption].
Qed.

Theorem discontinious_integral_is_iterated_riemann cs bs a b :
  length bs = length cs -> length a = length cs -> length b = length cs -> List.Forall (fun c => c <> 0) cs ->
  box_ordered a b ->
  is_iterated_riemann_integral (fun xs => gd_eval cs bs xs 0) a b (gd_int cs bs a b 1).
Proof.
  intros Hm Ha Hb Hnz Hord. unfold is_iterated_riemann_integral.
  rewrite gd_int_prod by assumption.
  apply (iter_value_eq _ a b (exp 0 * prodR (gd_vs cs bs a b))); [|rewrite exp_0; ring].
  apply (iter_ext (fun xs => exp 0 * prod_fun (gd_fs cs bs) xs)).
  - intro xs. symmetry. apply gd_eval_prod.
  - apply iter_scal. apply sep_iter. apply gd_sep; assumption.
Qed.

(* ================================================================== GenzC0 *)
(* eval:  result = 0; for d: result -= coeffs[d] * abs(coordinates[d] - midPoint[d]); return exp(result) *)
Fixpoint c0_eval (cs ms xs : list R) (acc : R) : R :=
  match cs, ms, xs with
  | c :: cs', m :: ms', x :: xs' => c0_eval cs' ms' xs' (acc - c * Rabs (x - m))
  | _, _, _ => exp acc
  end.
(* integral, per dimension:
     one_d_integral = 0
     if start < mid:  if end < mid: += exp(c (end - mid)) / c - exp(c (start - mid)) / c   else: += 1 / c - exp(c (start - mid)) / c
     if end > mid:    if start > mid: += exp(c (mid - start)) / c - exp(c (mid - end)) / c else: += 1 / c - exp(c (mid - end)) / c
     result *= one_d_integral *)
Definition c0_v (c m a b : R) : R :=
  (if Rlt_dec a m then (if Rlt_dec b m then exp (c * (b - m)) / c - exp (c * (a - m)) / c else 1 / c - exp (c * (a - m)) / c) else 0) +
  (if Rlt_dec m b then (if Rlt_dec m a then exp (c * (m - a)) / c - exp (c * (m - b)) / c else 1 / c - exp (c * (m - b)) / c) else 0).
Fixpoint c0_int (cs ms a b : list R) (acc : R) : R :=
  match cs, ms, a, b with
  | c :: cs', m :: ms', ai :: a', bi :: b' => c0_int cs' ms' a' b' (acc * c0_v c m ai bi)
  | _, _, _, _ => acc
  end.
Definition c0_f (c m x : R) : R := exp (- c * Rabs (x - m)).

Lemma c0_left c m a b : c <> 0 -> a <= b -> b <= m -> is_RInt (c0_f c m) a b (exp (c * (b - m)) / c - exp (c * (a - m)) / c).
Proof.
  intros Hc Hab Hbm.
  apply (is_RInt_ext (fun x => exp (c * (x - m)))).
  - intros x Hx. rewrite Rmin_left, Rmax_right in Hx by exact Hab. unfold c0_f. f_equal.
    rewrite Rabs_left by lra. ring.
  - apply (is_RInt_derive (fun x => exp (c * (x - m)) / c) (fun x => exp (c * (x - m)))).
    + intros x _. auto_derive; [trivial|]. unfold Rminus. field. exact Hc.
    + intros x _. apply (ex_derive_continuous (fun x0 => exp (c * (x0 - m)))). auto_derive. trivial.
Qed.

Lemma c0_right c m a b : c <> 0 -> a <= b -> m <= a -> is_RInt (c0_f c m) a b (exp (c * (m - a)) / c - exp (c * (m - b)) / c).
Proof.
  intros Hc Hab Hma.
  apply (is_RInt_ext (fun x => exp (c * (m - x)))).
  - intros x Hx. rewrite Rmin_left, Rmax_right in Hx by exact Hab. unfold c0_f. f_equal.
    rewrite Rabs_right by lra. ring.
  - replace (exp (c * (m - a)) / c - exp (c * (m - b)) / c) with ((- exp (c * (m - b)) / c) - (- exp (c * (m - a)) / c)) by (field; exact Hc).
    apply (is_RInt_derive (fun x => - exp (c * (m - x)) / c) (fun x => exp (c * (m - x)))).
    + intros x _. auto_derive; [trivial|]. unfold Rminus. field. exact Hc.
    + intros x _. apply (ex_derive_continuous (fun x0 => exp (c * (m - x0)))). auto_derive. trivial.
Qed.

Lemma c0_1d c m a b : c <> 0 -> a <= b -> is_RInt (c0_f c m) a b (c0_v c m a b).
Proof.
  intros Hc Hab. unfold c0_v.
  destruct (Rlt_dec a m) as [Ham|Ham]; destruct (Rlt_dec b m) as [Hbm|Hbm]; destruct (Rlt_dec m b) as [Hmb|Hmb];
    destruct (Rlt_dec m a) as [Hma|Hma]; try lra.
  - (* a <= b < m *)
    rewrite Rplus_0_r. apply c0_left; lra.
  - (* a < m < b *)
    apply (is_RInt_Chasles (c0_f c m) a m b).
    + replace (1 / c - exp (c * (a - m)) / c) with (exp (c * (m - m)) / c - exp (c * (a - m)) / c)
        by (replace (c * (m - m)) with 0 by ring; rewrite exp_0; reflexivity).
      apply c0_left; lra.
    + replace (1 / c - exp (c * (m - b)) / c) with (exp (c * (m - m)) / c - exp (c * (m - b)) / c)
        by (replace (c * (m - m)) with 0 by ring; rewrite exp_0; reflexivity).
      apply c0_right; lra.
  - (* a < m = b *)
    assert (b = m) by lra. subst b. rewrite Rplus_0_r.
    replace (1 / c - exp (c * (a - m)) / c) with (exp (c * (m - m)) / c - exp (c * (a - m)) / c)
      by (replace (c * (m - m)) with 0 by ring; rewrite exp_0; reflexivity).
    apply c0_left; lra.
  - (* m < a <= b *)
    rewrite Rplus_0_l. apply c0_right; lra.
  - (* m = a < b *)
    assert (a = m) by lra. subst a. rewrite Rplus_0_l.
    replace (1 / c - exp (c * (m - b)) / c) with (exp (c * (m - m)) / c - exp (c * (m - b)) / c)
      by (replace (c * (m - m)) with 0 by ring; rewrite exp_0; reflexivity).
    apply c0_right; lra.
  - (* a = b = m *)
    assert (a = b) by lra. subst b. rewrite Rplus_0_r.
    pose proof (is_RInt_point (c0_f c m) a) as H. exact H.
Qed.

Fixpoint c0_fs (cs ms : list R) : list (R -> R) :=
  match cs, ms with c :: cs', m :: ms' => c0_f c m :: c0_fs cs' ms' | _, _ => [] end.
Fixpoint c0_vs (cs ms a b : list R) : list R :=
  match cs, ms, a, b with
  | c :: cs', m :: ms', ai :: a', bi :: b' => c0_v c m ai bi :: c0_vs cs' ms' a' b'
  | _, _, _, _ => []
  end.

Lemma c0_eval_prod : forall cs ms xs acc, c0_eval cs ms xs acc = exp acc * prod_fun (c0_fs cs ms) xs.
Proof.
  induction cs as [|c cs IH]; intros [|m ms] [|x xs] acc; cbn [c0_eval c0_fs prod_fun]; try ring.
  rewrite IH. unfold c0_f, Rminus. rewrite exp_plus. replace (- (c * Rabs (x + - m))) with (- c * Rabs (x + - m)) by ring. ring.
Qed.

Lemma c0_int_prod : forall cs ms a b acc, c0_int cs ms a b acc = acc * prodR (c0_vs cs ms a b).
Proof.
  induction cs as [|c cs IH]; intros [|m ms] [|ai a] [|bi b] acc; cbn [c0_int c0_vs prodR]; try ring.
  rewrite IH. ring.
Qed.

Lemma c0_sep : forall cs ms a b, length ms = length cs -> length a = length cs -> length b = length cs ->
  List.Forall (fun c => c <> 0) cs -> box_ordered a b -> sep_ok (c0_fs cs ms) a b (c0_vs cs ms a b).
Proof.
  induction cs as [|c cs IH]; intros [|m ms] [|ai a] [|bi b] Hm Ha Hb Hnz Hord; try discriminate; cbn [c0_fs c0_vs]; [constructor|].
  inversion Hnz; subst. inversion Hord; subst.
  constructor; [apply c0_1d; assumption | apply IH; simpl in *; try lia; assumption].
Qed.

Theorem c0_integral_is_iterated_riemann cs ms a b :
  length ms = length cs -> length a = length cs -> length b = length cs -> List.Forall (fun c => c <> 0) cs ->
  box_ordered a b ->
  is_iterated_riemann_integral (fun xs => c0_eval cs ms xs 0) a b (c0_int cs ms a b 1).
Proof.
  intros Hm Ha Hb Hnz Hord. unfold is_iterated_riemann_integral.
  rewrite c0_int_prod.
  apply (iter_value_eq _ a b (exp 0 * prodR (c0_vs cs ms a b))); [|rewrite exp_0; ring].
  apply (iter_ext (fun xs => exp 0 * prod_fun (c0_fs cs ms) xs)).
  - intro xs. symmetry. apply c0_eval_prod.
  - apply iter_scal. apply sep_iter. apply c0_sep; assumption.
Qed.

(* ================================================================== FunctionExpVar *)
(* eval:  dim = len(coordinates); prod = 1.0; for d: prod *= coordinates[d] ** (1.0 / dim); return (1 + 1.0 / dim) ** dim * prod
   integral: dim = len(start); result = 1.0
             for d: result *= end[d] ** (1 + 1.0 / dim) / (1 + 1.0 / dim) - start[d] ** (1 + 1.0 / dim) / (1 + 1.0 / dim)
             return (1 + 1.0 / dim) ** dim * result
   x ** y for x > 0 is Rpower x y = exp (y * ln x); the theorem is stated for boxes inside the open positive orthant. *)
Fixpoint ev_prod (y : R) (xs : list R) (acc : R) : R :=
  match xs with x :: xs' => ev_prod y xs' (acc * Rpower x y) | [] => acc end.
Definition ev_eval (xs : list R) : R :=
  let n := length xs in (1 + 1 / INR n) ^ n * ev_prod (1 / INR n) xs 1.
Fixpoint ev_int_loop (y : R) (a b : list R) (acc : R) : R :=
  match a, b with
  | ai :: a', bi :: b' => ev_int_loop y a' b' (acc * (Rpower bi (1 + y) / (1 + y) - Rpower ai (1 + y) / (1 + y)))
  | _, _ => acc
  end.
Definition ev_int (a b : list R) : R :=
  let n := length a in (1 + 1 / INR n) ^ n * ev_int_loop (1 / INR n) a b 1.

Lemma ev_1d y a b : 1 + y <> 0 -> 0 < a -> 0 < b ->
  is_RInt (fun x => Rpower x y) a b (Rpower b (1 + y) / (1 + y) - Rpower a (1 + y) / (1 + y)).
Proof.
  intros Hy Ha Hb.
  assert (Hpos : forall x, Rmin a b <= x <= Rmax a b -> 0 < x).
  { intros x [H1 _]. apply Rlt_le_trans with (Rmin a b); [apply Rmin_glb_lt; assumption | exact H1]. }
  apply (is_RInt_derive (fun x => Rpower x (1 + y) / (1 + y)) (fun x => Rpower x y)).
  - intros x Hx. specialize (Hpos x Hx). unfold Rpower. auto_derive; [exact Hpos|].
    replace ((1 + y) * ln x) with (ln x + y * ln x) by ring. rewrite exp_plus, exp_ln by exact Hpos.
    field. split; [exact Hy | lra].
  - intros x Hx. specialize (Hpos x Hx). unfold Rpower.
    apply (ex_derive_continuous (fun x0 => exp (y * ln x0))). auto_derive. exact Hpos.
Qed.

Lemma ev_prod_prod y : forall xs acc, ev_prod y xs acc = acc * prod_fun (map (fun _ x => Rpower x y) xs) xs.
Proof. induction xs as [|x xs IH]; intro acc; cbn [ev_prod map prod_fun]; [ring | rewrite IH; ring]. Qed.

Fixpoint ev_vs (y : R) (a b : list R) : list R :=
  match a, b with
  | ai :: a', bi :: b' => (Rpower bi (1 + y) / (1 + y) - Rpower ai (1 + y) / (1 + y)) :: ev_vs y a' b'
  | _, _ => []
  end.
Lemma ev_int_prod y : forall a b acc, ev_int_loop y a b acc = acc * prodR (ev_vs y a b).
Proof. induction a as [|ai a IH]; intros [|bi b] acc; cbn [ev_int_loop ev_vs prodR]; try ring. rewrite IH. ring. Qed.

Inductive box_positive : list R -> list R -> Prop :=
| bp_nil : box_positive [] []
| bp_cons a a' b b' : 0 < a -> 0 < b -> box_positive a' b' -> box_positive (a :: a') (b :: b').

Lemma ev_sep y : 1 + y <> 0 -> forall a b, box_positive a b ->
  sep_ok (map (fun _ x => Rpower x y) a) a b (ev_vs y a b).
Proof.
  intros Hy a b H. induction H as [|a a' b b' Ha Hb _ IH]; cbn [map ev_vs]; constructor; [apply ev_1d; assumption | exact IH].
Qed.

Lemma prod_fun_const_shape {A B} (f : R -> R) : forall (l1 : list A) (l2 : list B) xs, length l1 = length l2 ->
  prod_fun (map (fun _ => f) l1) xs = prod_fun (map (fun _ => f) l2) xs.
Proof.
  induction l1 as [|x l1 IH]; intros [|z l2] xs H; try discriminate; [reflexivity|].
  cbn [map prod_fun]. destruct xs as [|t xs]; [reflexivity|]. rewrite (IH l2 xs) by (simpl in H; lia). reflexivity.
Qed.

(* for every dimension n >= 1 and every box in the open positive orthant *)
Theorem expvar_integral_is_iterated_riemann a b : a <> [] -> box_positive a b ->
  is_iterated_riemann_integral (fun xs => (1 + 1 / INR (length a)) ^ (length a) * ev_prod (1 / INR (length a)) xs 1) a b (ev_int a b) /\
  (forall xs, length xs = length a -> ev_eval xs = (1 + 1 / INR (length a)) ^ (length a) * ev_prod (1 / INR (length a)) xs 1).
Proof.
  intros Hne Hpos. split; [|intros xs Hl; unfold ev_eval; rewrite Hl; reflexivity].
  unfold is_iterated_riemann_integral, ev_int. set (n := length a). set (y := 1 / INR n).
  assert (Hy : 1 + y <> 0).
  { unfold y. assert (0 < INR n) by (apply lt_0_INR; unfold n; destruct a; [contradiction | simpl; lia]).
    assert (0 < 1 / INR n) by (apply Rdiv_lt_0_compat; lra). lra. }
  rewrite ev_int_prod.
  apply (iter_value_eq _ a b ((1 + y) ^ n * prodR (ev_vs y a b))); [|ring].
  apply (iter_ext_len (fun xs => (1 + y) ^ n * prod_fun (map (fun _ x => Rpower x y) a) xs)).
  - intros xs Hl. rewrite ev_prod_prod. f_equal. rewrite Rmult_1_l.
    apply (prod_fun_const_shape (fun x => Rpower x y)). symmetry. exact Hl.
  - apply iter_scal. apply sep_iter. apply ev_sep; assumption.
Qed.
