(* C10 — B-splines are piecewise polynomials and the coded derivative recursions are the formal derivatives:
   for EVERY strictly increasing knot vector, every degree p, every index k and every knot interval j,
     recursive_eval(x, p, k)                 = the polynomial bs_piece t p k j at x,
     get_first_derivative_recursive(x, p, k)  = its formal derivative at x,
     get_second_derivative_recursive(x, p, k) = its formal second derivative at x        (t_j <= x < t_{j+1});
   lifted to HierarchicalNotAKnotBSpline[Modified] and LagrangeBasisRestrictedModified (value and the repaired
   derivative methods). *)
From Coq Require Import ZArith List QArith Qcanon Bool Arith Lia.
From SG Require Import Base.QcUtil Base.PolyInt Base.PolyQ Model.Basis Model.BasisPieces Proofs.BasisLagrange.
Import ListNotations.
Open Scope Qc_scope.

Lemma Qc2_eq : Qc2 = 1 + 1.
Proof. apply Qc_is_canon. reflexivity. Qed.

(* ------------------------------------------------------------------ order facts on a strictly increasing knot vector *)
Lemma si_index_lt t i j :
  strictly_increasing t = true -> (i < length t)%nat -> (j < length t)%nat -> nthQ t i < nthQ t j -> (i < j)%nat.
Proof.
  intros Hs Hi Hj Hlt. destruct (lt_dec i j) as [L|L]; [exact L|exfalso].
  destruct (Nat.eq_dec i j) as [E|E].
  - subst. exact (Qclt_not_le _ _ Hlt (Qcle_refl _)).
  - assert (Hji : (j < i)%nat) by lia.
    pose proof (strictly_increasing_nth t j i Hs Hji Hi) as H2.
    exact (Qclt_not_le _ _ Hlt (Qclt_le_weak _ _ H2)).
Qed.

Lemma si_le t i j :
  strictly_increasing t = true -> (i <= j)%nat -> (j < length t)%nat -> nthQ t i <= nthQ t j.
Proof.
  intros Hs Hij Hj. destruct (Nat.eq_dec i j) as [E|E]; [subst; apply Qcle_refl|].
  apply Qclt_le_weak. apply strictly_increasing_nth; [exact Hs | lia | exact Hj].
Qed.

(* x lies in the knot interval j *)
Definition in_piece (t : list Qc) (j : nat) (x : Qc) : Prop :=
  strictly_increasing t = true /\ (j + 1 < length t)%nat /\ nthQ t j <= x /\ x < nthQ t (j + 1).

(* ------------------------------------------------------------------ the pieces outside the support are the zero polynomial *)
Lemma bs_piece_zero t p : forall k j x, (j < k \/ k + p < j)%nat -> peval (bs_piece t p k j) x = 0.
Proof.
  induction p as [|p IH]; intros k j x H.
  - cbn [bs_piece]. destruct (Nat.eqb_spec j k) as [E|E]; [lia | reflexivity].
  - cbn [bs_piece]. rewrite peval_padd, !peval_plin, (IH k j x), (IH (k + 1)%nat j x) by lia. ring.
Qed.

Lemma bs_piece0_d1 t k j x : peval (pderiv (bs_piece t 0 k j)) x = 0.
Proof. cbn [bs_piece]. destruct (j =? k)%nat; reflexivity. Qed.
Lemma bs_piece0_d2 t k j x : peval (pderiv (pderiv (bs_piece t 0 k j))) x = 0.
Proof. cbn [bs_piece]. destruct (j =? k)%nat; reflexivity. Qed.

(* ------------------------------------------------------------------ recursive_eval evaluates the piece *)
Theorem bs_eval_is_piece t p : forall k j x,
  in_piece t j x -> (k + p + 1 < length t)%nat ->
  bs_eval t p k x = peval (bs_piece t p k j) x.
Proof.
  induction p as [|p IH]; intros k j x Hin Hk; pose proof Hin as [Hs [Hj [Hlo Hhi]]].
  - cbn [bs_eval bs_piece].
    replace (k + 0 + 1)%nat with (k + 1)%nat by lia.
    destruct (Qc_ltb x (nthQ t k) || Qc_ltb (nthQ t (k + 1)) x) eqn:E.
    + (* outside the support *)
      destruct (Nat.eqb_spec j k) as [Ejk|Ejk]; [|reflexivity]. subst j. exfalso.
      apply orb_true_iff in E. destruct E as [E|E]; apply Qc_ltb_lt in E.
      * exact (Qclt_not_le _ _ E Hlo).
      * exact (Qclt_not_le _ _ E (Qclt_le_weak _ _ Hhi)).
    + destruct (Qc_leb (nthQ t k) x && Qc_ltb x (nthQ t (k + 1))) eqn:C.
      * apply andb_true_iff in C. destruct C as [C1 C2]. apply Qc_leb_le in C1. apply Qc_ltb_lt in C2.
        assert (Ejk : j = k).
        { assert (L1 : (j < k + 1)%nat).
          { apply (si_index_lt t j (k + 1) Hs); [lia | lia |]. apply Qcle_lt_trans with x; assumption. }
          assert (L2 : (k < j + 1)%nat).
          { apply (si_index_lt t k (j + 1) Hs); [lia | lia |]. apply Qcle_lt_trans with x; assumption. }
          lia. }
        subst j. rewrite Nat.eqb_refl. cbn [peval]. ring.
      * destruct (Nat.eqb_spec j k) as [Ejk|Ejk]; [|reflexivity]. subst j. exfalso.
        apply andb_false_iff in C. destruct C as [C|C].
        -- assert (T : Qc_leb (nthQ t k) x = true) by (apply Qc_leb_le; exact Hlo). congruence.
        -- assert (T : Qc_ltb x (nthQ t (k + 1)) = true) by (apply Qc_ltb_lt; exact Hhi). congruence.
  - cbn [bs_eval].
    destruct (Qc_ltb x (nthQ t k) || Qc_ltb (nthQ t (k + S p + 1)) x) eqn:E.
    + symmetry. apply bs_piece_zero.
      apply orb_true_iff in E. destruct E as [E|E]; apply Qc_ltb_lt in E.
      * left. apply (si_index_lt t j k Hs); [lia | lia |]. apply Qcle_lt_trans with x; assumption.
      * right. assert (L : (k + S p + 1 < j + 1)%nat).
        { apply (si_index_lt t (k + S p + 1) (j + 1) Hs); [lia | lia |]. apply Qclt_trans with x; assumption. }
        lia.
    + cbn [bs_piece]. rewrite peval_padd, !peval_plin, <- (IH k j x Hin), <- (IH (k + 1)%nat j x Hin) by lia.
      unfold Qcdiv. ring.
Qed.

(* at and beyond the right end of the support the value is 0 (the half-open indicator of degree 0) *)
Theorem bs_eval_right_end t p : forall k x, nthQ t (k + p + 1) <= x ->
  strictly_increasing t = true -> (k + p + 1 < length t)%nat -> bs_eval t p k x = 0.
Proof.
  induction p as [|p IH]; intros k x Hx Hs Hk.
  - cbn [bs_eval]. replace (k + 0 + 1)%nat with (k + 1)%nat in * by lia.
    destruct (Qc_ltb x (nthQ t k) || Qc_ltb (nthQ t (k + 1)) x); [reflexivity|].
    destruct (Qc_leb (nthQ t k) x && Qc_ltb x (nthQ t (k + 1))) eqn:C; [|reflexivity].
    apply andb_true_iff in C. destruct C as [_ C]. apply Qc_ltb_lt in C. exfalso. exact (Qclt_not_le _ _ C Hx).
  - cbn [bs_eval].
    destruct (Qc_ltb x (nthQ t k) || Qc_ltb (nthQ t (k + S p + 1)) x); [reflexivity|].
    assert (E1 : bs_eval t p k x = 0).
    { apply IH; [|exact Hs|lia]. apply Qcle_trans with (nthQ t (k + S p + 1)); [|exact Hx].
      apply si_le; [exact Hs|lia|lia]. }
    assert (E2 : bs_eval t p (k + 1) x = 0).
    { apply IH; [|exact Hs|lia]. replace (k + 1 + p + 1)%nat with (k + S p + 1)%nat by lia. exact Hx. }
    rewrite E1, E2. ring.
Qed.

(* ------------------------------------------------------------------ the derivative recursions are formal derivatives *)
Theorem bs_d1_is_piece_derivative t p : forall k j x,
  in_piece t j x -> (k + p + 1 < length t)%nat ->
  bs_d1 t p k x = peval (pderiv (bs_piece t p k j)) x.
Proof.
  induction p as [|p IH]; intros k j x Hin Hk.
  - cbn [bs_d1]. rewrite bs_piece0_d1. reflexivity.
  - cbn [bs_d1 bs_piece].
    rewrite peval_pderiv_padd, !peval_pderiv_plin.
    rewrite <- (IH k j x Hin), <- (IH (k + 1)%nat j x Hin) by lia.
    rewrite <- (bs_eval_is_piece t p k j x Hin), <- (bs_eval_is_piece t p (k + 1) j x Hin) by lia.
    unfold Qcdiv. ring.
Qed.

Lemma peval_pderiv2_padd p q x :
  peval (pderiv (pderiv (padd p q))) x = peval (pderiv (pderiv p)) x + peval (pderiv (pderiv q)) x.
Proof. rewrite pderiv_padd, peval_pderiv_padd. reflexivity. Qed.

Theorem bs_d2_is_piece_second_derivative t p : forall k j x,
  in_piece t j x -> (k + p + 1 < length t)%nat ->
  bs_d2 t p k x = peval (pderiv (pderiv (bs_piece t p k j))) x.
Proof.
  induction p as [|p IH]; intros k j x Hin Hk.
  - cbn [bs_d2]. rewrite bs_piece0_d2. reflexivity.
  - cbn [bs_d2 bs_piece]. rewrite peval_pderiv2_padd, !peval_pderiv2_plin.
    destruct p as [|p'].
    + rewrite !bs_piece0_d1, !bs_piece0_d2. ring.
    + rewrite <- (IH k j x Hin), <- (IH (k + 1)%nat j x Hin) by lia.
      rewrite <- (bs_d1_is_piece_derivative t (S p') k j x Hin),
              <- (bs_d1_is_piece_derivative t (S p') (k + 1) j x Hin) by lia.
      rewrite Qc2_eq. unfold Qcdiv. ring.
Qed.

(* ------------------------------------------------------------------ HierarchicalNotAKnotBSpline *)
Definition nak_hyp (p idx level : nat) (knots : list Qc) (j : nat) (x : Qc) : Prop :=
  nak_is_lagrange p level = false -> in_piece knots j x /\ (idx + p + 1 < length knots)%nat.

Theorem nak_is_piece p idx level knots j x :
  nak_hyp p idx level knots j x ->
  nak_eval p idx level knots x = peval (nak_piece p idx level knots j) x
  /\ nak_d1 p idx level knots x = peval (pderiv (nak_piece p idx level knots j)) x
  /\ nak_d2 p idx level knots x = peval (pderiv (pderiv (nak_piece p idx level knots j))) x.
Proof.
  unfold nak_hyp, nak_eval, nak_d1, nak_d2, nak_piece. intro H.
  destruct (nak_is_lagrange p level).
  - split; [apply lagrange_eval_is_polynomial|].
    split; [apply lagrange_derivative_is_formal_derivative | apply lagrange_second_derivative_is_formal_second_derivative].
  - destruct (H eq_refl) as [Hin Hk].
    split; [apply bs_eval_is_piece; assumption|].
    split; [apply bs_d1_is_piece_derivative; assumption | apply bs_d2_is_piece_second_derivative; assumption].
Qed.

(* ------------------------------------------------------------------ ...Modified: value and both derivative methods *)
Lemma peval_pderiv2_pscale c p x : peval (pderiv (pderiv (pscale c p))) x = c * peval (pderiv (pderiv p)) x.
Proof. rewrite pderiv_pscale, peval_pderiv_pscale. reflexivity. Qed.

Theorem nakmod_is_piece p idx level knots a b j x :
  (nak_is_lagrange p level = false ->
     in_piece knots j x /\ (idx + p + 1 < length knots)%nat /\ (2 ^ level + p + 1 < length knots)%nat) ->
  beval (BNakMod p idx level knots a b) x = peval (nakmod_piece p idx level knots a b j) x
  /\ bd1 (BNakMod p idx level knots a b) x = peval (pderiv (nakmod_piece p idx level knots a b j)) x
  /\ bd2 (BNakMod p idx level knots a b) x = peval (pderiv (pderiv (nakmod_piece p idx level knots a b j))) x.
Proof.
  intro H. cbn [beval bd1 bd2]. unfold nakmod_obs, nakmod_piece.
  assert (Hi : nak_hyp p idx level knots j x) by (intro E; destruct (H E) as [A [B _]]; split; assumption).
  assert (H0 : nak_hyp p 0 level knots j x) by (intro E; destruct (H E) as [A [_ C]]; split; [assumption|lia]).
  assert (HL : nak_hyp p (2 ^ level) level knots j x) by (intro E; destruct (H E) as [A [_ C]]; split; assumption).
  destruct (nak_is_piece _ _ _ _ _ _ Hi) as [Ei [Ei1 Ei2]].
  destruct (nak_is_piece _ _ _ _ _ _ H0) as [E0 [E01 E02]].
  destruct (nak_is_piece _ _ _ _ _ _ HL) as [EL [EL1 EL2]].
  destruct (level =? 1)%nat.
  - split; [cbn [peval]; ring|]. split; reflexivity.
  - destruct ((2 <=? level)%nat && ((idx =? 1)%nat || (idx =? 2 ^ level - 1)%nat)).
    + destruct (idx =? 1)%nat; destruct (1 <? p)%nat;
        (split; [rewrite peval_padd, peval_pscale | split;
                 [rewrite peval_pderiv_padd, peval_pderiv_pscale | rewrite peval_pderiv2_padd, peval_pderiv2_pscale]]);
        first [ rewrite Ei, E0 | rewrite Ei1, E01 | rewrite Ei2, E02
              | rewrite Ei, EL | rewrite Ei1, EL1 | rewrite Ei2, EL2 ]; ring.
    + split; [exact Ei|]. split; [exact Ei1 | exact Ei2].
Qed.

(* ------------------------------------------------------------------ LagrangeBasisRestrictedModified (inside the support) *)
Theorem rlm_is_poly p knots idx a b level x :
  rlm_in_support knots idx a b level x = true ->
  rlm_eval p knots idx a b level x = peval (rlm_poly p knots idx a b level) x
  /\ rlm_d1 p knots idx a b level x = peval (pderiv (rlm_poly p knots idx a b level)) x
  /\ rlm_d2 p knots idx a b level x = peval (pderiv (pderiv (rlm_poly p knots idx a b level))) x.
Proof.
  intro Hs. unfold rlm_eval, rlm_d1, rlm_d2, rlm_obs, rlm_poly. rewrite Hs.
  destruct (level =? 1)%nat.
  - split; [cbn [peval]; ring|]. split; reflexivity.
  - destruct (rlm_left knots idx a); [|destruct (rlm_right knots idx b)]; try destruct (1 <? p)%nat;
      (split; [|split]);
      rewrite ?peval_padd, ?peval_pscale, ?peval_pderiv_padd, ?peval_pderiv_pscale, ?peval_pderiv2_padd, ?peval_pderiv2_pscale,
              <- ?lagrange_eval_is_polynomial, <- ?lagrange_derivative_is_formal_derivative,
              <- ?lagrange_second_derivative_is_formal_second_derivative; ring.
Qed.

(* outside the support the modified restricted basis and its derivatives vanish *)
Theorem rlm_outside p knots idx a b level x :
  rlm_in_support knots idx a b level x = false ->
  rlm_eval p knots idx a b level x = 0 /\ rlm_d1 p knots idx a b level x = 0 /\ rlm_d2 p knots idx a b level x = 0.
Proof. intro Hs. unfold rlm_eval, rlm_d1, rlm_d2, rlm_obs. rewrite Hs. repeat split. Qed.

(* ------------------------------------------------------------------ all basis classes at once *)
(* hypothesis under which object bf evaluates the polynomial bpiece bf j at x *)
Definition piece_hyp (bf : basis) (j : nat) (x : Qc) : Prop :=
  match bf with
  | BLag _ _ => True
  | BRLag knots idx => rl_in_support knots idx x = true
  | BRLagMod _ knots idx a b level => rlm_in_support knots idx a b level x = true
  | BBsp p knots k => in_piece knots j x /\ (k + p + 1 < length knots)%nat
  | BNak p idx level knots => nak_hyp p idx level knots j x
  | BNakMod p idx level knots _ _ =>
      nak_is_lagrange p level = false ->
      in_piece knots j x /\ (idx + p + 1 < length knots)%nat /\ (2 ^ level + p + 1 < length knots)%nat
  end.

Theorem basis_is_piecewise_polynomial bf j x :
  piece_hyp bf j x ->
  beval bf x = peval (bpiece bf j) x
  /\ bd1 bf x = peval (pderiv (bpiece bf j)) x
  /\ bd2 bf x = peval (pderiv (pderiv (bpiece bf j))) x.
Proof.
  destruct bf as [knots idx|knots idx|p knots idx a b level|p knots k|p idx level knots|p idx level knots a b];
    cbn [piece_hyp]; intro H.
  - cbn [beval bd1 bd2 bpiece].
    split; [apply lagrange_eval_is_polynomial|].
    split; [apply lagrange_derivative_is_formal_derivative | apply lagrange_second_derivative_is_formal_second_derivative].
  - cbn [beval bd1 bd2 bpiece]. unfold rl_eval, rl_d1, rl_d2. rewrite H.
    split; [apply lagrange_eval_is_polynomial|].
    split; [apply lagrange_derivative_is_formal_derivative | apply lagrange_second_derivative_is_formal_second_derivative].
  - cbn [beval bd1 bd2 bpiece]. apply rlm_is_poly. exact H.
  - destruct H as [Hin Hk]. cbn [beval bd1 bd2 bpiece].
    split; [apply bs_eval_is_piece; assumption|].
    split; [apply bs_d1_is_piece_derivative; assumption | apply bs_d2_is_piece_second_derivative; assumption].
  - cbn [beval bd1 bd2 bpiece]. apply nak_is_piece. exact H.
  - apply nakmod_is_piece. exact H.
Qed.

(* ------------------------------------------------------------------ every point of the knot range lies in a piece *)
Lemma exists_piece : forall t x,
  strictly_increasing t = true -> nthQ t 0 <= x -> x < nthQ t (length t - 1) -> exists j, in_piece t j x.
Proof.
  induction t as [|a r IH]; intros x Hs Hlo Hhi.
  - exfalso. unfold nthQ in *. simpl in *. exact (Qclt_not_le _ _ Hhi Hlo).
  - destruct r as [|b r'].
    + exfalso. unfold nthQ in *. simpl in *. exact (Qclt_not_le _ _ Hhi Hlo).
    + destruct (Qc_ltb x b) eqn:E.
      * exists O. apply Qc_ltb_lt in E. split; [exact Hs|]. split; [simpl; lia|]. split; [exact Hlo | exact E].
      * assert (Hb : b <= x).
        { destruct (Qclt_le_dec x b) as [L|L]; [|exact L]. apply Qc_ltb_lt in L. congruence. }
        assert (Hs' : strictly_increasing (b :: r') = true).
        { cbn [strictly_increasing] in Hs. apply andb_true_iff in Hs. exact (proj2 Hs). }
        destruct (IH x Hs' Hb) as [j [_ [Hj [Hl Hh]]]].
        { replace (length (b :: r') - 1)%nat with (length r') by (simpl; lia).
          replace (length (a :: b :: r') - 1)%nat with (S (length r')) in Hhi by (simpl; lia).
          exact Hhi. }
        exists (S j). split; [exact Hs|]. split; [simpl in *; lia|].
        split; [exact Hl|]. replace (S j + 1)%nat with (S (j + 1)) by lia. exact Hh.
Qed.

(* the decidable side condition basis_wf (evaluated on every system the model builds) is what the theorem needs *)
Definition basis_knots (bf : basis) : list Qc :=
  match bf with
  | BLag k _ | BRLag k _ | BRLagMod _ k _ _ _ _ | BBsp _ k _ | BNak _ _ _ k | BNakMod _ _ _ k _ _ => k
  end.

Lemma basis_wf_sound bf j x :
  basis_wf bf = true ->
  match bf with BRLag knots idx => rl_in_support knots idx x = true
              | BRLagMod _ knots idx a b level => rlm_in_support knots idx a b level x = true | _ => True end ->
  in_piece (basis_knots bf) j x \/ (match bf with BBsp _ _ _ => False | BNak p _ l _ | BNakMod p _ l _ _ _ => nak_is_lagrange p l = true | _ => True end) ->
  piece_hyp bf j x.
Proof.
  destruct bf as [knots idx|knots idx|p knots idx a b level|p knots k|p idx level knots|p idx level knots a b];
    cbn [basis_wf piece_hyp basis_knots]; intros Hwf Hsup Hin; try exact I; try exact Hsup.
  - apply andb_true_iff in Hwf. destruct Hwf as [_ H2]. apply Nat.ltb_lt in H2.
    destruct Hin as [Hin|[]]. split; assumption.
  - intro Hl. rewrite Hl in Hwf. cbn [orb] in Hwf. apply andb_true_iff in Hwf. destruct Hwf as [_ H2]. apply Nat.ltb_lt in H2.
    destruct Hin as [Hin|Hin]; [split; assumption | congruence].
  - intro Hl. rewrite Hl in Hwf. cbn [orb] in Hwf. apply andb_true_iff in Hwf. destruct Hwf as [Hwf H3].
    apply andb_true_iff in Hwf. destruct Hwf as [_ H2]. apply Nat.ltb_lt in H2. apply Nat.ltb_lt in H3.
    destruct Hin as [Hin|Hin]; [split; [assumption|split; assumption] | congruence].
Qed.

(* a well-formed B-spline object is a piecewise polynomial on its whole knot range, with the coded derivatives *)
Theorem wf_bspline_piecewise p knots k x :
  basis_wf (BBsp p knots k) = true -> nthQ knots 0 <= x -> x < nthQ knots (length knots - 1) ->
  exists j, beval (BBsp p knots k) x = peval (bs_piece knots p k j) x
         /\ bd1 (BBsp p knots k) x = peval (pderiv (bs_piece knots p k j)) x
         /\ bd2 (BBsp p knots k) x = peval (pderiv (pderiv (bs_piece knots p k j))) x.
Proof.
  intros Hwf Hlo Hhi. pose proof Hwf as Hwf'. cbn [basis_wf] in Hwf'. apply andb_true_iff in Hwf'. destruct Hwf' as [Hs _].
  destruct (exists_piece knots x Hs Hlo Hhi) as [j Hj]. exists j.
  apply (basis_is_piecewise_polynomial (BBsp p knots k) j x).
  apply basis_wf_sound; [exact Hwf | exact I | left; exact Hj].
Qed.
