(* C18 (phase 3) - scale_range column by column, including the DEGENERATE column (0 <= data range < 10 eps): sklearn's MinMaxScaler
   replaces such a range by 1 (_handle_zeros_in_scale), so the column is only shifted and stretched by (hi - lo): its minimum goes to
   lo and the whole column stays within [lo, lo + 10 eps (hi - lo)) - "the column is mapped to the lower end". *)
From Coq Require Import ZArith List QArith Qcanon Bool Lia Arith.
From SG Require Import Base.QcUtil Model.DataSet Proofs.DataSetVec Proofs.DataSetScale.
Import ListNotations.
Open Scope Qc_scope.

Section ScaleRangeColumns.
  Variables (lo hi : Qc) (ov : bool) (d : ds).
  Hypothesis Hwf : wf d.
  Hypothesis Hlh : lo < hi.

  Let n := ddim d.

  Lemma scale_range_columns :
    exists d' mn mx mn' mx',
      data_min (values d) = Some mn /\ data_max (values d) = Some mx /\
      scale_range lo hi ov d = (d', false) /\
      data_min (values d') = Some mn' /\ data_max (values d') = Some mx' /\
      forall j, (j < n)%nat ->
        0 <= nth j mx 0 - nth j mn 0 /\
        nth j mn' 0 = lo /\
        nth j mx' 0 = lo + (nth j mx 0 - nth j mn 0) * ((hi - lo) / handle_zero (nth j mx 0 - nth j mn 0)).
  Proof.
    pose proof (wf_values_len d Hwf) as Hlen.
    destruct Hwf as [Hne Hall].
    unfold values in *. destruct (rows d) as [|[r0 l0] rest] eqn:ER; [contradiction|].
    cbn [map fst] in Hlen. inversion Hlen as [|? ? Hr0 Hrs]; subst.
    set (rs := map fst rest) in *.
    set (mn := colmin r0 rs). set (mx := colmax r0 rs).
    assert (Lmn : length mn = n) by (apply colmin_length; assumption).
    assert (Lmx : length mx = n) by (apply colmax_length; assumption).
    set (sc := mm_scale lo hi mn mx). set (mi := mm_min lo mn sc).
    assert (Lsc : length sc = n).
    { unfold sc, mm_scale. rewrite map_length. unfold vsub. apply map2_length_eq; assumption. }
    assert (Lmi : length mi = n) by (unfold mi, mm_min; apply map2_length_eq; assumption).
    assert (Hrange : forall j, (j < n)%nat -> 0 <= nth j mx 0 - nth j mn 0).
    { intros j Hj. unfold mx, mn. rewrite (nth_colmax n), (nth_colmin n); auto.
      apply sub_nonneg. apply lmin_le_lmax. }
    assert (Hsc : forall j, (j < n)%nat -> nth j sc 0 = (hi - lo) / handle_zero (nth j mx 0 - nth j mn 0)).
    { intros j Hj. unfold sc, mm_scale.
      assert (Lv : length (vsub mx mn) = n) by (unfold vsub; apply map2_length_eq; assumption).
      rewrite (nth_map_lt _ _ j 0 0) by lia.
      unfold vsub. rewrite (nth_map2 Qcminus _ _ j 0 0 0); [reflexivity | lia | lia]. }
    assert (Hmi : forall j, (j < n)%nat -> nth j mi 0 = lo - nth j mn 0 * nth j sc 0).
    { intros j Hj. unfold mi, mm_min. rewrite (nth_map2 _ _ _ j 0 0 0); [reflexivity | lia | lia]. }
    assert (Hpos : forall j, (j < n)%nat -> 0 <= nth j sc 0).
    { intros j Hj. rewrite Hsc by exact Hj. apply Qclt_le_weak. unfold Qcdiv. apply Qcmult_pos.
      - apply sub_pos. exact Hlh.
      - apply Qcinv_pos. apply handle_zero_pos. apply Hrange. exact Hj. }
    set (rows' := map_rows (transform sc mi) ((r0, l0) :: rest)).
    assert (Hv' : map fst rows' = transform sc mi r0 :: map (transform sc mi) rs).
    { unfold rows'. rewrite values_map_rows. reflexivity. }
    assert (Hlen' : rows_len n (map (transform sc mi) rs)).
    { unfold rows_len. rewrite Forall_map. eapply Forall_impl; [|exact Hrs]. intros r Hr. cbn beta in Hr.
      apply transform_length; assumption. }
    assert (Hcol : forall j, (j < n)%nat ->
              col j (map (transform sc mi) rs) = map (fun y => y * nth j sc 0 + nth j mi 0) (col j rs)).
    { intros j Hj. apply col_map. intros r Hr. apply (nth_transform n); auto.
      unfold rows_len in Hrs. rewrite Forall_forall in Hrs. apply Hrs. exact Hr. }
    exists (if negb (scaled d) || ov
            then mkDS rows' (ddim d) (flat d) (shuffled d) true (RScalar lo hi) (FArr sc) (Some mn) (Some mx)
            else mkDS rows' (ddim d) (flat d) (shuffled d) (scaled d) (RScalar lo hi) (fac_mul (sfactor d) (AArr sc)) (omin d) (omax d)).
    exists mn, mx, (colmin (transform sc mi r0) (map (transform sc mi) rs)),
                   (colmax (transform sc mi r0) (map (transform sc mi) rs)).
    split; [reflexivity|]. split; [reflexivity|].
    split.
    { unfold scale_range. apply Qc_ltb_lt in Hlh. rewrite Hlh. cbn [negb]. unfold values. rewrite ER.
      cbn [map fst data_min data_max]. fold rs. fold mn mx sc mi. fold rows'.
      destruct (negb (scaled d) || ov); reflexivity. }
    split; [destruct (negb (scaled d) || ov); unfold values; cbn [rows]; rewrite Hv'; reflexivity|].
    split; [destruct (negb (scaled d) || ov); unfold values; cbn [rows]; rewrite Hv'; reflexivity|].
    intros j Hj.
    assert (Tl : length (transform sc mi r0) = n) by (apply transform_length; assumption).
    rewrite (nth_colmin n), (nth_colmax n); auto.
    rewrite (nth_transform n), Hcol; auto.
    rewrite lmin_affine, lmax_affine by (apply Hpos; exact Hj).
    fold (lmin (nth j r0 0) (col j rs)).
    assert (Emn : lmin (nth j r0 0) (col j rs) = nth j mn 0) by (unfold mn; rewrite (nth_colmin n); auto).
    assert (Emx : lmax (nth j r0 0) (col j rs) = nth j mx 0) by (unfold mx; rewrite (nth_colmax n); auto).
    rewrite Emn, Emx, (Hmi j Hj).
    split; [apply Hrange; exact Hj|]. rewrite (Hsc j Hj). unfold Qcdiv. split; ring.
  Qed.
End ScaleRangeColumns.

Lemma handle_zero_small r : r < eps10 -> handle_zero r = 1.
Proof. intro H. unfold handle_zero. apply Qc_ltb_lt in H. rewrite H. reflexivity. Qed.
Lemma handle_zero_big r : eps10 <= r -> handle_zero r = r.
Proof.
  intro H. unfold handle_zero. destruct (Qc_ltb r eps10) eqn:E; [|reflexivity].
  apply Qc_ltb_lt in E. exfalso. apply (Qcle_not_lt _ _ H). exact E.
Qed.

(* every column of every non-empty data set, every valid range, first / overriding / non-overriding call *)
Theorem scale_range_every_column lo hi ov d : wf d -> lo < hi ->
  exists d' mn mx mn' mx',
    data_min (values d) = Some mn /\ data_max (values d) = Some mx /\
    scale_range lo hi ov d = (d', false) /\
    data_min (values d') = Some mn' /\ data_max (values d') = Some mx' /\
    forall j, (j < ddim d)%nat ->
      nth j mn' 0 = lo /\
      (* regular column *)
      (eps10 <= nth j mx 0 - nth j mn 0 -> nth j mx' 0 = hi) /\
      (* degenerate column: shifted to lo, stretched by (hi - lo) only; it stays within 10 eps (hi - lo) above lo *)
      (nth j mx 0 - nth j mn 0 < eps10 ->
         nth j mx' 0 = lo + (nth j mx 0 - nth j mn 0) * (hi - lo) /\ lo <= nth j mx' 0 /\ nth j mx' 0 < lo + eps10 * (hi - lo)).
Proof.
  intros Hwf Hlh.
  destruct (scale_range_columns lo hi ov d Hwf Hlh) as [d' [mn [mx [mn' [mx' [E1 [E2 [E3 [E4 [E5 H]]]]]]]]]].
  exists d', mn, mx, mn', mx'. repeat (split; [assumption|]).
  intros j Hj. destruct (H j Hj) as [Hr [Hmn Hmx]]. split; [exact Hmn|]. split.
  - intro Hbig. rewrite Hmx, (handle_zero_big _ Hbig).
    assert (Hnz : nth j mx 0 - nth j mn 0 <> 0).
    { intro Z0. rewrite Z0 in Hbig. apply (Qcle_not_lt _ _ Hbig). reflexivity. }
    field. exact Hnz.
  - intro Hsmall. rewrite Hmx, (handle_zero_small _ Hsmall).
    set (r := nth j mx 0 - nth j mn 0) in *.
    assert (Hd : 0 < hi - lo) by (apply sub_pos; exact Hlh).
    assert (E : lo + r * ((hi - lo) / 1) = lo + r * (hi - lo)) by (field; discriminate).
    rewrite E. split; [reflexivity|]. split.
    + rewrite <- (Qcplus_0_r lo) at 1. apply Qcplus_le_compat; [apply Qcle_refl|].
      rewrite <- (Qcmult_0_l (hi - lo)). apply Qcmult_le_compat_r; [exact Hr | apply Qclt_le_weak; exact Hd].
    + assert (Hp : r * (hi - lo) < eps10 * (hi - lo)) by (apply Qcmult_lt_compat_r; assumption).
      set (p := r * (hi - lo)) in *. set (q := eps10 * (hi - lo)) in *. clearbody p q. clear - Hp. qc_order.
Qed.
