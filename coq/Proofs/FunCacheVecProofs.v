(* C12 — proofs about the cache machine with its own vectorised evaluation (Model/FunCacheVec.v). *)
From Coq Require Import ZArith List QArith Qcanon Bool Arith Lia.
From SG Require Import Base.QcUtil Model.FunCache Model.FunCacheVec Proofs.FunCacheProofs.
Import ListNotations.

(* ------------------------------------------------------------------ equality tests *)
Lemma value_eqb_eq a b : value_eqb a b = true <-> a = b.
Proof.
  revert b. induction a as [|x a IH]; intros [|y b]; simpl; split; intro H; try reflexivity; try discriminate.
  - apply andb_true_iff in H. destruct H as [H1 H2]. apply Qc_eqb_canon_eq in H1. apply IH in H2. subst. reflexivity.
  - injection H as -> ->. apply andb_true_iff. split; [apply Qc_eqb_canon_eq; reflexivity | apply IH; reflexivity].
Qed.

Lemma values_eqb_eq a b : values_eqb a b = true <-> a = b.
Proof.
  revert b. induction a as [|x a IH]; intros [|y b]; simpl; split; intro H; try reflexivity; try discriminate.
  - apply andb_true_iff in H. destruct H as [H1 H2]. apply value_eqb_eq in H1. apply IH in H2. subst. reflexivity.
  - injection H as -> ->. apply andb_true_iff. split; [apply value_eqb_eq; reflexivity | apply IH; reflexivity].
Qed.

(* ------------------------------------------------------------------ induction over nested arrays *)
Section ArrInd.
Variable P : arr -> Prop.
Hypothesis HP : forall p, P (APoint p).
Hypothesis HN : forall l, Forall P l -> P (ANest l).
Fixpoint arr_ind_nested (a : arr) : P a :=
  match a with
  | APoint p => HP p
  | ANest l => HN l ((fix go (l : list arr) : Forall P l :=
                        match l with [] => Forall_nil P | x :: r => Forall_cons x (arr_ind_nested x) (go r) end) l)
  end.
End ArrInd.

Lemma opt_list_map_Some {A B} (f : A -> option B) (g : A -> B) l :
  Forall (fun x => f x = Some (g x)) l -> opt_list (map f l) = Some (map g l).
Proof. induction 1 as [|x l Hx _ IH]; simpl; [reflexivity | rewrite Hx, IH; reflexivity]. Qed.

Lemma map_ext_Forall {A B} (f g : A -> B) l : Forall (fun x => f x = g x) l -> map f l = map g l.
Proof. induction 1 as [|x l Hx _ IH]; simpl; [reflexivity | rewrite Hx, IH; reflexivity]. Qed.

Lemma forallb_map_Forall {A B} (f : A -> B) (t : B -> bool) l : Forall (fun x => t (f x) = true) l -> forallb t (map f l) = true.
Proof. induction 1 as [|x l Hx _ IH]; simpl; [reflexivity | rewrite Hx, IH; reflexivity]. Qed.

(* the result array has the shape of the argument (all axes but the innermost), for every function *)
Lemma arr_map_shape f a : varr_shape (arr_map f a) = arr_shape a.
Proof.
  induction a as [p|l IH] using arr_ind_nested; [reflexivity|].
  cbn [arr_map varr_shape arr_shape]. rewrite map_map, map_length.
  rewrite (map_ext_Forall (fun x => varr_shape (arr_map f x)) arr_shape l IH). reflexivity.
Qed.

Section VecProofs.
Variable eval : point -> value.
Variable olen : nat.

(* ------------------------------------------------------------------ the generic eval_vectorized of the base class *)
Section Generic.
Hypothesis Hlen : forall p, length (eval p) = olen.

Lemma generic_rows_correct ps : generic_rows eval olen ps = Some (map eval ps).
Proof.
  induction ps as [|p ps IH]; simpl; [reflexivity|].
  rewrite (check_len_eval eval olen Hlen p), IH. reflexivity.
Qed.

(* arrays of any nesting depth: the loop with its recursive call evaluates every point with eval ... *)
Theorem generic_vec_correct a : generic_vec eval olen a = Some (arr_map eval a).
Proof.
  induction a as [p|l IH] using arr_ind_nested.
  - cbn [generic_vec arr_map]. rewrite (check_len_eval eval olen Hlen p). reflexivity.
  - cbn [generic_vec arr_map]. rewrite (opt_list_map_Some (generic_vec eval olen) (arr_map eval) l IH). reflexivity.
Qed.

(* ... and returns an array of shape shape[:-1] + (output_length(),) *)
Theorem generic_vec_shape a r : generic_vec eval olen a = Some r ->
  varr_shape r = arr_shape a /\ varr_rows_ok olen r = true.
Proof.
  rewrite generic_vec_correct. intro H. injection H as <-. split; [apply arr_map_shape|].
  induction a as [p|l IH] using arr_ind_nested.
  - cbn [arr_map varr_rows_ok]. apply Nat.eqb_eq. apply Hlen.
  - cbn [arr_map varr_rows_ok]. apply forallb_map_Forall. exact IH.
Qed.
End Generic.

(* without the hypothesis: the generic loop fails exactly when some row has the wrong length *)
Lemma generic_rows_some ps vs : generic_rows eval olen ps = Some vs -> vs = map eval ps.
Proof.
  revert vs. induction ps as [|p ps IH]; simpl; intros vs H; [injection H as <-; reflexivity|].
  destruct (check_len olen (eval p)); [|discriminate].
  destruct (generic_rows eval olen ps) as [r|]; [|discriminate]. injection H as <-. rewrite (IH r eq_refl). reflexivity.
Qed.

(* ------------------------------------------------------------------ the machine *)
Variable evec : list point -> list value.
Variable checks : bool.

Notation vstep' := (vstep eval olen evec checks).
Notation vrun' := (vrun eval olen evec checks).

Lemma fits_map_eval ps : fits olen ps (map eval ps) = forallb (check_len olen) (map eval ps).
Proof. unfold fits. rewrite map_length, Nat.eqb_refl. reflexivity. Qed.

(* whenever the (checked) vectorised evaluation yields the scalar values, the batch path is that of Model/FunCache.v *)
Lemma vcall_batch_base vr st dbg ps : vec_call eval evec checks dbg ps = Some (map eval ps) ->
  vcall_batch eval olen evec checks vr st dbg ps = (fst (call_batch eval olen vr st ps), VR (snd (call_batch eval olen vr st ps))).
Proof.
  intro H. unfold vcall_batch, call_batch. destruct ps as [|p ps]; [destruct (fix_empty vr); reflexivity|].
  rewrite H, fits_map_eval. destruct (forallb (check_len olen) (map eval (p :: ps))); reflexivity.
Qed.

Lemma vcall_vec_base st dbg ps : vec_call eval evec checks dbg ps = Some (map eval ps) ->
  vcall_vec eval olen evec checks st dbg ps = (fst (call_vec eval olen st ps), VR (snd (call_vec eval olen st ps))).
Proof.
  intro H. unfold vcall_vec, call_vec. rewrite H, fits_map_eval.
  destruct (forallb (check_len olen) (map eval ps)); reflexivity.
Qed.

Definition lift (o : vop) : op := match o with VBase o' => o' | VDebug _ => OSize end.
Definition expected (o : vop) (r : result) : vresult := match o with VBase _ => VR r | VDebug _ => VR RUnit end.

Lemma vstep_base vr st dbg o :
  (forall ps, o = VBase (OBatch ps) \/ o = VBase (OVec ps) -> vec_call eval evec checks dbg ps = Some (map eval ps)) ->
  vbase (fst (vstep' vr (mkVS st dbg) o)) = fst (step eval olen vr st (lift o)) /\
  snd (vstep' vr (mkVS st dbg) o) = expected o (snd (step eval olen vr st (lift o))) /\
  vdebug (fst (vstep' vr (mkVS st dbg) o)) = match o with VDebug b => b | _ => dbg end.
Proof.
  intro Hv. destruct o as [o|b]; [|cbn; auto].
  destruct o as [p|ps|ps| | |]; cbn [vstep vbase vdebug lift expected].
  - destruct (step eval olen vr st (OSingle p)) as [s r]. cbn. auto.
  - rewrite (vcall_batch_base vr st dbg ps (Hv ps (or_introl eq_refl))). cbn. auto.
  - rewrite (vcall_vec_base st dbg ps (Hv ps (or_intror eq_refl))). cbn. auto.
  - cbn. auto.
  - cbn. auto.
  - cbn. auto.
Qed.

(* ================================================================== correct vectorisation *)
Section Correct.
Hypothesis Hvec : forall ps, evec ps = map eval ps.

Lemma vec_call_correct dbg ps : vec_call eval evec checks dbg ps = Some (map eval ps).
Proof.
  unfold vec_call. rewrite Hvec. destruct (dbg && checks); [|reflexivity].
  assert (values_eqb (map eval ps) (map eval ps) = true) as -> by (apply values_eqb_eq; reflexivity). reflexivity.
Qed.

(* SIMULATION: with a correct vectorised evaluation the machine IS the machine of Model/FunCache.v, the debug switch
   being a no-op: same dictionary/old dictionary/caching flag after every operation, same results *)
Theorem vrun_simulates vr ops : forall st dbg,
  map (fun x => vbase (snd x)) (vrun' vr (mkVS st dbg) ops) = map snd (run eval olen vr st (map lift ops)) /\
  map fst (vrun' vr (mkVS st dbg) ops) =
    map (fun x => expected (fst x) (snd x)) (combine ops (map fst (run eval olen vr st (map lift ops)))).
Proof.
  induction ops as [|o r IH]; intros st dbg; [split; reflexivity|].
  cbn [vrun map run].
  destruct (vstep_base vr st dbg o (fun ps _ => vec_call_correct dbg ps)) as (H1 & H2 & H3).
  destruct (vstep' vr (mkVS st dbg) o) as [[st' dbg'] res]. cbn [fst snd vbase vdebug] in *.
  destruct (step eval olen vr st (lift o)) as [st2 res2]. cbn [fst snd] in *. subst st' res.
  cbn [map fst snd combine vbase]. destruct (IH st2 dbg') as [I1 I2]. rewrite I1, I2. split; reflexivity.
Qed.

Definition vagrees (r : vresult) (i : option vresult) : Prop := match i with Some x => r = x | None => True end.

Hypothesis Hlen : forall p, length (eval p) = olen.

Lemma spec_result_fixed_ideal on cnt o :
  agrees (spec_result eval fixed on cnt o) (hd None (ideal_values eval [o])).
Proof.
  destruct o as [p|ps|ps| | |]; cbn [spec_result ideal_values hd agrees fixed fix_single fix_empty]; try exact I; try reflexivity.
  - rewrite orb_true_r. reflexivity.
  - destruct ps; reflexivity.
Qed.

(* hence every history (including switching the debug flag at any time) is transparent *)
Theorem vrun_transparent ops : forall st dbg on cnt, R eval st on cnt ->
  Forall2 vagrees (map fst (vrun' fixed (mkVS st dbg) ops)) (videal eval ops).
Proof.
  induction ops as [|o r IH]; intros st dbg on cnt HR; [constructor|].
  cbn [vrun].
  destruct (vstep_base fixed st dbg o (fun ps _ => vec_call_correct dbg ps)) as (H1 & H2 & H3).
  destruct (vstep' fixed (mkVS st dbg) o) as [[st' dbg'] res]. cbn [fst snd vbase vdebug map] in *.
  destruct (step_refines eval olen Hlen fixed st on cnt (lift o) HR) as [Hres HR'].
  rewrite <- H1 in HR'. subst res.
  pose proof (spec_result_fixed_ideal on cnt (lift o)) as Hag. rewrite <- Hres in Hag.
  destruct o as [o|b].
  - cbn [lift expected] in *. destruct o as [p|ps|ps| | |]; cbn [videal ideal_values hd agrees] in *;
      constructor; try (eapply IH; exact HR'); cbn [vagrees]; try exact I; rewrite Hag; reflexivity.
  - cbn [videal]. constructor; [exact I | eapply IH; exact HR'].
Qed.

Theorem vcache_transparent ops :
  Forall2 vagrees (map fst (vrun' fixed (vinit) ops)) (videal eval ops).
Proof. apply (vrun_transparent ops init false true []). apply R_init. Qed.
End Correct.

(* ================================================================== a wrong vectorisation is observable *)
(* if eval_vectorized differs from the scalar eval on some non-empty batch, the one-call history `f(ps)` on a fresh
   object already returns something else than eval of its points (or raises) *)
Theorem wrong_vectorisation_observable ps : ps <> [] -> evec ps <> map eval ps ->
  ~ Forall2 vagrees (map fst (vrun' fixed vinit [VBase (OBatch ps)])) (videal eval [VBase (OBatch ps)]).
Proof.
  intros Hne Hw H. cbn [vrun vstep vinit vbase vdebug map fst videal] in H.
  unfold vcall_batch in H. destruct ps as [|p ps]; [contradiction|].
  unfold vec_call in H. cbn [andb] in H.
  destruct (fits olen (p :: ps) (evec (p :: ps))); cbn [map fst] in H;
    inversion H as [|? ? ? ? Ha _]; subst; cbn [vagrees] in Ha; [|discriminate].
  injection Ha as Ha. contradiction.
Qed.

(* cache transparency for all histories <-> the vectorised evaluation equals the scalar one on every non-empty batch *)
Theorem transparent_iff_vectorisation_correct : (forall p, length (eval p) = olen) -> evec [] = [] ->
  ((forall ops, Forall2 vagrees (map fst (vrun' fixed vinit ops)) (videal eval ops)) <->
   (forall ps, evec ps = map eval ps)).
Proof.
  intros Hlen Hnil. split.
  - intros H ps. destruct ps as [|p ps]; [exact Hnil|].
    destruct (list_eq_dec (list_eq_dec Qc_eq_dec) (evec (p :: ps)) (map eval (p :: ps))) as [E|E]; [exact E|].
    exfalso. apply (wrong_vectorisation_observable (p :: ps)); [discriminate | exact E | apply H].
  - intros Hvec ops. apply vcache_transparent; assumption.
Qed.

(* ================================================================== debug mode *)
(* an override that calls check_vectorization, run with debug = True from the start: whatever evec computes, no call
   ever returns a wrong value and no wrong value ever enters the cache — a call returns eval of its points or raises
   the AssertionError of check_vectorization *)
Definition vagrees_or_assert (r : vresult) (i : option vresult) : Prop := r = VAssertVec \/ vagrees r i.

Lemma vec_call_debug ps vs : checks = true -> vec_call eval evec checks true ps = Some vs -> vs = map eval ps.
Proof.
  intros -> H. unfold vec_call in H. cbn [andb] in H.
  destruct (values_eqb (evec ps) (map eval ps)) eqn:E; [|discriminate].
  injection H as <-. apply values_eqb_eq. exact E.
Qed.

Theorem debug_mode_sound : checks = true -> (forall p, length (eval p) = olen) ->
  forall ops st on cnt, debug_always_on ops = true -> R eval st on cnt ->
  Forall2 vagrees_or_assert (map fst (vrun' fixed (mkVS st true) ops)) (videal eval ops).
Proof.
  intros Hc Hlen. induction ops as [|o r IH]; intros st on cnt Hd HR; [constructor|].
  cbn [debug_always_on forallb] in Hd. apply andb_true_iff in Hd. destruct Hd as [Hd1 Hd2].
  assert (Hcases : (exists ps, (o = VBase (OBatch ps) \/ o = VBase (OVec ps)) /\ vec_call eval evec checks true ps = None) \/
                   (forall ps, o = VBase (OBatch ps) \/ o = VBase (OVec ps) -> vec_call eval evec checks true ps = Some (map eval ps))).
  { destruct o as [[p|ps|ps| | |]|b]; try (right; intros ps' [E|E]; discriminate).
    - destruct (vec_call eval evec checks true ps) as [vs|] eqn:E.
      + right. intros ps' [E'|E']; [|discriminate]. injection E' as <-. rewrite E. f_equal. apply (vec_call_debug ps vs Hc E).
      + left. exists ps. split; [left; reflexivity | exact E].
    - destruct (vec_call eval evec checks true ps) as [vs|] eqn:E.
      + right. intros ps' [E'|E']; [discriminate|]. injection E' as <-. rewrite E. f_equal. apply (vec_call_debug ps vs Hc E).
      + left. exists ps. split; [right; reflexivity | exact E]. }
  destruct Hcases as [(ps & Ho & Hn)|Hv].
  - (* the check fires: AssertionError, state unchanged *)
    cbn [vrun]. destruct Ho as [-> | ->]; cbn [vstep vbase vdebug].
    + unfold vcall_batch. destruct ps as [|p ps].
      * cbn [fixed fix_empty map fst videal]. constructor; [right; reflexivity | eapply IH; eassumption].
      * rewrite Hn. cbn [map fst videal]. constructor; [left; reflexivity | eapply IH; eassumption].
    + unfold vcall_vec. rewrite Hn. cbn [map fst videal]. constructor; [left; reflexivity | eapply IH; eassumption].
  - cbn [vrun].
    destruct (vstep_base fixed st true o Hv) as (H1 & H2 & H3).
    destruct (vstep' fixed (mkVS st true) o) as [[st' dbg'] res]. cbn [fst snd vbase vdebug map] in *.
    destruct (step_refines eval olen Hlen fixed st on cnt (lift o) HR) as [Hres HR'].
    rewrite <- H1 in HR'. subst res.
    assert (dbg' = true) as -> by (destruct o as [o|[|]]; [exact H3 | exact H3 | discriminate]).
    pose proof (spec_result_fixed_ideal on cnt (lift o)) as Ha. rewrite <- Hres in Ha.
    destruct o as [o|b].
    + cbn [lift expected] in *. destruct o as [p|ps|ps| | |]; cbn [videal ideal_values] in *;
        constructor; try (eapply IH; eassumption); right; cbn [vagrees agrees] in *; try exact I; rewrite Ha; reflexivity.
    + cbn [videal]. constructor; [right; exact I | eapply IH; eassumption].
Qed.

End VecProofs.
