(* C13gen, dimension-wise strategy: which "the oracle does not raise" hypotheses of Props/C13gen.v can be DISCHARGED.
   - H_refine: refine() of the dimension-wise strategy = one step of the refinement-tree model of C06 (selection by margin, splitting,
     rebalancing, raise_lmax) on the benefits the error estimator has assigned.  C06 proves that on every state satisfying the tree
     invariant the step is defined and preserves the invariant (C06_step_defined); so on the subset type of valid states the refine
     oracle is a TOTAL function - constructed here, with the equation H_refine asks for.
   - H_cnt: get_total_num_points() = f.get_f_dict_size() is a query of the cache machine of C12: it returns the size and leaves the
     state alone.
   Not dischargeable from what is modelled (stated in the manifest note): H_eval (numerical evaluation and the error estimator; the
   library estimator DOES raise on some states), H_init / H_check / H_final / H_result / H_ref / H_initc (grid construction, scheme test,
   evaluate_final_combi, attribute reads: no model of their definedness). *)
From Coq Require Import ZArith List Bool QArith Qcanon.
From SG Require Import Base.QcUtil Model.DimWise Proofs.DimWiseInv Proofs.DimWiseTotal Model.FunCache.
Import ListNotations.

Section DimWiseRefineOracle.
  Variables a b : list Qc.                       (* the domain box *)
  Variable o : dw_opts.                          (* version, rebalancing, margin, float decisions *)
  Variable St : Type.                            (* the whole object *)
  Variable tree : St -> dw_state.                (* its refinement trees / scheme *)
  Variable benefits : St -> list (list Qc).      (* what the error estimator has assigned *)
  Variable install : St -> dw_state -> St.       (* the object with the refined trees *)
  Hypothesis tree_install : forall s t, tree (install s t) = t.

  Definition VS := { s : St | DwInvT a b (tree s) }.

  Lemma step_inv (x : VS) t : dw_step o (benefits (proj1_sig x)) (tree (proj1_sig x)) = Some t -> DwInvT a b (tree (install (proj1_sig x) t)).
  Proof.
    intro E. destruct (dw_step_total a b o (benefits (proj1_sig x)) (tree (proj1_sig x)) (proj2_sig x)) as [t' [E' I]].
    rewrite tree_install. congruence.
  Qed.

  Definition next_of (x : VS) (r : option dw_state) (E : dw_step o (benefits (proj1_sig x)) (tree (proj1_sig x)) = r) : VS :=
    match r as r0 return (dw_step o (benefits (proj1_sig x)) (tree (proj1_sig x)) = r0 -> VS) with
    | Some t => fun E0 => exist _ (install (proj1_sig x) t) (step_inv x t E0)
    | None => fun _ => x
    end E.
  Definition dw_next (x : VS) : VS := next_of x _ eq_refl.

  Lemma next_of_tree x r E : r <> None -> Some (tree (proj1_sig (next_of x r E))) = r.
  Proof. destruct r as [t|]; intro H; [cbn; rewrite tree_install; reflexivity|contradiction]. Qed.

  (* the refine oracle as the generated code sees it: None = an assert / exception inside refine() *)
  Definition m_refine_dw (x : VS) : option (unit * VS) :=
    match dw_step o (benefits (proj1_sig x)) (tree (proj1_sig x)) with
    | Some _ => Some (tt, dw_next x)
    | None => None
    end.

  (* H_refine of Props/C13gen.v, discharged: refine() never raises on a valid state, and its result is valid again *)
  Theorem refine_oracle_total : forall x : VS, m_refine_dw x = Some (tt, dw_next x).
  Proof.
    intro x. unfold m_refine_dw.
    destruct (dw_step_total a b o (benefits (proj1_sig x)) (tree (proj1_sig x)) (proj2_sig x)) as [t' [E' _]].
    rewrite E'. reflexivity.
  Qed.

  Theorem refine_oracle_is_tree_step : forall x : VS,
    dw_step o (benefits (proj1_sig x)) (tree (proj1_sig x)) = Some (tree (proj1_sig (dw_next x))).
  Proof.
    intro x. symmetry. unfold dw_next. apply next_of_tree.
    destruct (dw_step_total a b o (benefits (proj1_sig x)) (tree (proj1_sig x)) (proj2_sig x)) as [t' [E' _]].
    rewrite E'. discriminate.
  Qed.
End DimWiseRefineOracle.

(* H_cnt: the point count is a query of the cache machine *)
Theorem count_is_a_query eval olen vr st :
  step eval olen vr st OSize = (st, RSize (length (fd st))).
Proof. reflexivity. Qed.
