(* C02 (hierarchical exactness), part 2: the 1D facts for hat1 a b tau i on the dyadic grid of level l.
   (i)  l >= tau : piecewise-linear interpolation reproduces the hat at EVERY x of [a,b]; the composite trapezoidal sum
        (with or without boundary points) is the exact integral (b-a)/2^tau for interior hats;
   (ii) l < tau, i odd : the hat vanishes at all grid points, interpolant and quadrature are 0. *)
From Coq Require Import ZArith List Bool QArith Qcanon Lia.
From SG Require Import Base.QcUtil Model.CombiScheme Model.StdCombi Proofs.SchemeBasics Proofs.StdGrid Proofs.NodalExact
  Proofs.StdNodal Proofs.HatFacts.
Import ListNotations.
Local Open Scope Qc_scope.
Local Arguments Z.add : simpl never.
Local Arguments Z.mul : simpl never.
Local Arguments Z.sub : simpl never.
Local Arguments Z.pow : simpl never.
Local Arguments Z.of_nat : simpl never.

Definition step (a b : Qc) (l : Z) : Qc := (b - a) / qc_of_Z (2 ^ l).

(* ---------- interpolation on an increasing indexed grid ---------- *)
Lemma interp1_cons2 x0 x1 r g x :
  interp1 (x0 :: x1 :: r) g x = if Qc_leb x x1 then g x0 + (x - x0) / (x1 - x0) * (g x1 - g x0) else interp1 (x1 :: r) g x.
Proof. reflexivity. Qed.

Lemma interp1_seq g (f : Z -> Qc) : forall n s x,
  (forall k, (Z.of_nat s <= k < Z.of_nat s + Z.of_nat n)%Z -> f k < f (k + 1)%Z /\ affine_on g (f k) (f (k + 1)%Z)) ->
  f (Z.of_nat s) <= x -> x <= f (Z.of_nat s + Z.of_nat n)%Z ->
  interp1 (map f (map Z.of_nat (seq s (S n)))) g x = g x.
Proof.
  induction n as [|n IH]; intros s x Hc H1 H2.
  - cbn [seq map interp1]. replace (Z.of_nat s + Z.of_nat 0)%Z with (Z.of_nat s) in H2 by lia.
    f_equal. apply Qcle_antisym; assumption.
  - change (seq s (S (S n))) with (s :: S s :: seq (S (S s)) n). cbn [map]. rewrite interp1_cons2.
    replace (Z.of_nat (S s)) with (Z.of_nat s + 1)%Z by lia.
    destruct (Hc (Z.of_nat s) ltac:(lia)) as [Hlt Haff].
    destruct (Qc_leb x (f (Z.of_nat s + 1)%Z)) eqn:E.
    + apply Qc_leb_le in E. symmetry. apply Haff; assumption.
    + apply Qc_leb_false in E.
      replace (Z.of_nat s + 1)%Z with (Z.of_nat (S s)) by lia.
      apply (IH (S s) x).
      * intros k Hk. apply Hc. lia.
      * replace (Z.of_nat (S s)) with (Z.of_nat s + 1)%Z by lia. apply Qclt_le_weak. exact E.
      * replace (Z.of_nat (S s) + Z.of_nat n)%Z with (Z.of_nat s + Z.of_nat (S n))%Z by lia. exact H2.
Qed.

Lemma interp1_zero g : forall xs x, (forall p, In p xs -> g p = 0) -> interp1 xs g x = 0.
Proof.
  induction xs as [|x0 r IH]; intros x H; [reflexivity|].
  destruct r as [|x1 r'].
  - simpl. apply H. left. reflexivity.
  - rewrite interp1_cons2. destruct (Qc_leb x x1).
    + rewrite (H x0), (H x1); [ring|right; left; reflexivity|left; reflexivity].
    + apply IH. intros p Hp. apply H. right. exact Hp.
Qed.

(* ---------- dyadic grid points ---------- *)
Lemma gpoint_0 a b l : gpoint a b l 0 = a.
Proof. unfold gpoint. change (qc_of_Z 0) with (Q2Qc 0). ring. Qed.

Lemma gpoint_top a b l : (0 <= l)%Z -> gpoint a b l (2 ^ l) = b.
Proof. intro Hl. unfold gpoint. field. apply qc_of_Z_nonzero. pose proof (pow2_pos l Hl). lia. Qed.

Lemma gpoint_le a b l i j : a < b -> (0 <= l)%Z -> (i <= j)%Z -> gpoint a b l i <= gpoint a b l j.
Proof.
  intros Hab Hl Hij. destruct (Z.eq_dec i j) as [->|N]; [apply Qcle_refl|].
  apply Qclt_le_weak. apply gpoint_lt; [exact Hab|exact Hl|lia].
Qed.

Lemma gpoint_succ a b l i : gpoint a b l (i + 1) = gpoint a b l i + step a b l.
Proof. unfold gpoint, step. rewrite qc_of_Z_add. change (qc_of_Z 1) with (Q2Qc 1). ring. Qed.

Lemma gpoint_pred a b l i : gpoint a b l (i - 1) = gpoint a b l i - step a b l.
Proof.
  pose proof (gpoint_succ a b l (i - 1)) as E. replace (i - 1 + 1)%Z with i in E by lia. rewrite E. ring.
Qed.

Lemma hat1_as_hatc a b tau i x : hat1 a b tau i x = hatc (gpoint a b tau i) (step a b tau) x.
Proof. reflexivity. Qed.

(* every cell of the level-l grid, l >= tau, lies in one region of the level-tau hat *)
Lemma hat1_cell_region a b tau i l k : a < b -> (0 <= tau)%Z -> (tau <= l)%Z ->
  cell_region (gpoint a b tau i) (step a b tau) (gpoint a b l k) (gpoint a b l (k + 1)).
Proof.
  intros Hab Ht Hl. unfold cell_region.
  rewrite <- gpoint_pred, <- gpoint_succ.
  rewrite (gpoint_refine a b tau l (i - 1) Ht Hl), (gpoint_refine a b tau l i Ht Hl), (gpoint_refine a b tau l (i + 1) Ht Hl).
  pose proof (pow2_pos (l - tau) ltac:(lia)) as Hm. set (m := (2 ^ (l - tau))%Z) in *.
  assert ((i - 1) * m = i * m - m)%Z as EA by ring. assert ((i + 1) * m = i * m + m)%Z as EC by ring.
  rewrite EA, EC. set (B := (i * m)%Z). assert (0 <= l)%Z as Hl0 by lia.
  assert (k + 1 <= B - m \/ (B - m <= k /\ k + 1 <= B) \/ (B <= k /\ k + 1 <= B + m) \/ B + m <= k)%Z as C by lia.
  destruct C as [C|[[C1 C2]|[[C1 C2]|C]]].
  - left. apply gpoint_le; assumption.
  - right. left. split; apply gpoint_le; assumption.
  - right. right. left. split; apply gpoint_le; assumption.
  - right. right. right. apply gpoint_le; assumption.
Qed.

(* (i) interpolation on every finer grid reproduces the hat on the whole interval *)
Theorem hat1_interp_fine a b tau i l x : a < b -> (0 <= tau)%Z -> (tau <= l)%Z -> a <= x -> x <= b ->
  interp1 (grid1_full a b l) (hat1 a b tau i) x = hat1 a b tau i x.
Proof.
  intros Hab Ht Hl H1 H2. assert (0 <= l)%Z as Hl0 by lia. pose proof (pow2_pos l Hl0) as Hp.
  change (hat1 a b tau i) with (hatc (gpoint a b tau i) (step a b tau)).
  unfold grid1_full, zrange. replace (Z.to_nat (2 ^ l + 1)) with (S (Z.to_nat (2 ^ l))) by lia.
  change (fun i0 : Z => a + qc_of_Z i0 * ((b - a) / qc_of_Z (2 ^ l))) with (gpoint a b l).
  apply (interp1_seq _ (gpoint a b l) (Z.to_nat (2 ^ l)) 0%nat x).
  - intros k Hk. split.
    + apply gpoint_lt; [exact Hab|exact Hl0|lia].
    + apply hatc_affine_cell.
      * apply step_pos; assumption.
      * apply gpoint_lt; [exact Hab|exact Hl0|lia].
      * apply hat1_cell_region; assumption.
  - change (Z.of_nat 0) with 0%Z. rewrite gpoint_0. exact H1.
  - replace (Z.of_nat 0 + Z.of_nat (Z.to_nat (2 ^ l)))%Z with (2 ^ l)%Z by lia. rewrite gpoint_top by exact Hl0. exact H2.
Qed.

(* (ii) hierarchical hats vanish on all coarser grids *)
Lemma hat1_zero_coarse a b tau i l k : a < b -> (0 <= l)%Z -> (l < tau)%Z -> Z.odd i = true ->
  hat1 a b tau i (gpoint a b l k) = 0.
Proof.
  intros Hab Hl Hlt Hodd. rewrite hat1_as_hatc.
  rewrite (gpoint_refine a b l tau k Hl ltac:(lia)).
  assert (0 <= tau)%Z as Ht by lia.
  apply Z.odd_spec in Hodd. destruct Hodd as [q Eq].
  replace (tau - l)%Z with (Z.succ (tau - l - 1)) by lia. rewrite Z.pow_succ_r by lia.
  set (P := (2 ^ (tau - l - 1))%Z).
  assert (k * (2 * P) = 2 * (k * P))%Z as -> by ring. set (K := (k * P)%Z).
  assert (2 * K <= i - 1 \/ i + 1 <= 2 * K)%Z as [C|C] by lia.
  - apply hatc_left; [apply step_pos; assumption|]. rewrite <- gpoint_pred. apply gpoint_le; assumption.
  - apply hatc_right; [apply step_pos; assumption|]. rewrite <- gpoint_succ. apply gpoint_le; assumption.
Qed.

Lemma hat1_zero_on_coarse_grid a b tau i l p : a < b -> (0 <= l)%Z -> (l < tau)%Z -> Z.odd i = true ->
  In p (grid1_full a b l) -> hat1 a b tau i p = 0.
Proof.
  intros Hab Hl Hlt Hodd Hp. apply grid1_full_In in Hp. destruct Hp as [k [_ ->]].
  apply hat1_zero_coarse; assumption.
Qed.

Theorem hat1_interp_coarse a b tau i l x : a < b -> (0 <= l)%Z -> (l < tau)%Z -> Z.odd i = true ->
  interp1 (grid1_full a b l) (hat1 a b tau i) x = 0.
Proof.
  intros Hab Hl Hlt Hodd. apply interp1_zero. intros p Hp. apply (hat1_zero_on_coarse_grid a b tau i l p); assumption.
Qed.

(* interior hats vanish at both ends of the interval *)
Lemma hat1_at_ends a b tau i : a < b -> (0 <= tau)%Z -> (1 <= i <= 2 ^ tau - 1)%Z ->
  hat1 a b tau i a = 0 /\ hat1 a b tau i b = 0.
Proof.
  intros Hab Ht Hi. rewrite !hat1_as_hatc. split.
  - apply hatc_left; [apply step_pos; assumption|]. rewrite <- gpoint_pred.
    pose proof (gpoint_le a b tau 0 (i - 1) Hab Ht ltac:(lia)) as L. rewrite gpoint_0 in L. exact L.
  - apply hatc_right; [apply step_pos; assumption|]. rewrite <- gpoint_succ.
    pose proof (gpoint_le a b tau (i + 1) (2 ^ tau) Hab Ht ltac:(lia)) as L. rewrite gpoint_top in L by exact Ht. exact L.
Qed.
