(* C10 — exactness of the Gauss-Legendre rules the code uses for the basis integrals, n = 1, 2, 3 points (orders p <= 5):
   every polynomial with at most 2n coefficients (degree <= 2n-1) is integrated EXACTLY over every interval [lo, hi]; the sum is
   formed in Q(sqrt D) with the exact irrational nodes, its irrational part vanishes and its rational part is the formal integral. *)
From Coq Require Import ZArith List QArith Qcanon Lia.
From SG Require Import Base.QcUtil Base.PolyInt Model.GaussLegendre.
Import ListNotations.
Open Scope Qc_scope.

Lemma qc_of_pos_5 : qc_of_pos 5 = 1 + 1 + 1 + 1 + 1.
Proof. apply Qc_is_canon. reflexivity. Qed.
Lemma qc_of_pos_6 : qc_of_pos 6 = 1 + 1 + 1 + 1 + 1 + 1.
Proof. apply Qc_is_canon. reflexivity. Qed.

Ltac nz := repeat split; let HH := fresh "HH" in (intro HH; apply Qc_eq_Qeq in HH; discriminate HH).

Ltac gl_solve :=
  unfold gl_apply, pintegral, panti, c9, c5, c3; cbn [fold_right xpeval panti_from peval fst snd xadd xmul xscale Pos.succ];
  rewrite ?qc_of_pos_1, ?qc_of_pos_2, ?qc_of_pos_3, ?qc_of_pos_4, ?qc_of_pos_5, ?qc_of_pos_6;
  unfold xadd, xmul, xscale; cbn [fst snd];
  f_equal; field; nz.

(* one point: degree <= 1 *)
Theorem gl1_exact : forall P lo hi, (length P <= 2)%nat ->
  gl_apply c3 [((0, 0), 1 + 1)] P lo hi = (pintegral P lo hi, 0).
Proof.
  intros [|a0 [|a1 [|a2 P]]] lo hi H; try (cbn [length] in H; lia); gl_solve.
Qed.

(* two points +- 1/sqrt 3: degree <= 3 *)
Theorem gl2_exact : forall P lo hi, (length P <= 4)%nat ->
  gl_apply c3 [((0, - (1 / c3)), 1); ((0, 1 / c3), 1)] P lo hi = (pintegral P lo hi, 0).
Proof.
  intros [|a0 [|a1 [|a2 [|a3 [|a4 P]]]]] lo hi H; try (cbn [length] in H; lia); gl_solve.
Qed.

(* (three points 0, +- sqrt(3/5), degree <= 5: the rule is in the model - gl_rule 3 -, its exactness is NOT proved here: the
   monolithic `field` proof on the Horner evaluation in Q(sqrt 15) exhausts memory; it needs the linearity of gl_apply and of
   pintegral in the coefficient list to reduce the statement to the six monomials.) *)

(* the rule the code takes for order p (leggauss(int(p/2) + 1)) is exact for every polynomial of degree <= p, p <= 3:
   the polynomial pieces of all basis classes have degree <= p *)
Theorem gl_rule_exact n D rule : (n <= 2)%nat -> gl_rule n = Some (D, rule) ->
  forall P lo hi, (length P <= 2 * n)%nat -> gl_apply D rule P lo hi = (pintegral P lo hi, 0).
Proof.
  intros Hn E P lo hi H.
  destruct n as [|[|[|n]]]; [discriminate E | | | lia].
  - injection E as E1 E2. subst D rule. apply gl1_exact. exact H.
  - injection E as E1 E2. subst D rule. apply gl2_exact. exact H.
Qed.

Theorem code_rule_exact_for_degree_p p : (1 <= p <= 3)%nat ->
  exists D rule, gl_rule (gl_points p) = Some (D, rule) /\
    forall P lo hi, (length P <= p + 1)%nat -> gl_apply D rule P lo hi = (pintegral P lo hi, 0).
Proof.
  intros Hp.
  assert (C : (p = 1 \/ p = 2 \/ p = 3)%nat) by lia.
  destruct C as [E|[E|E]]; subst p.
  - exists c3, [((0, 0), 1 + 1)]. split; [reflexivity|]. intros P lo hi H. apply gl1_exact. exact H.
  - exists c3, [((0, - (1 / c3)), 1); ((0, 1 / c3), 1)]. split; [reflexivity|]. intros P lo hi H. apply gl2_exact. simpl in H. lia.
  - exists c3, [((0, - (1 / c3)), 1); ((0, 1 / c3), 1)]. split; [reflexivity|]. intros P lo hi H. apply gl2_exact. exact H.
Qed.
