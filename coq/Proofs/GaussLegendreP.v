(* C10 — exactness of the Gauss-Legendre rules the code uses for the basis integrals, n = 1, 2, 3 points (orders p <= 5):
   every polynomial with at most 2n coefficients (degree <= 2n-1) is integrated EXACTLY over every interval [lo, hi]; the sum is
   formed in Q(sqrt D) with the exact irrational nodes, its irrational part vanishes and its rational part is the formal integral. *)
From Coq Require Import ZArith List QArith Qcanon Lia.
From SG Require Import Base.QcUtil Base.PolyInt Model.GaussLegendre.
Import ListNotations.
Open Scope Qc_scope.

Lemma qc_of_pos_5 : qc_of_pos 5 = 1 + 1 + 1 + 1 + 1.
Proof. apply Qc_is_canon. reflexivity. Qed.
Lemma qc_of_pos_6 : qc_of_pos 6 = 1 + 1 + 1 + 1 + 1 + 1.
Proof. apply Qc_is_canon. reflexivity. Qed.

Ltac nz := repeat split; let HH := fresh "HH" in (intro HH; apply Qc_eq_Qeq in HH; discriminate HH).

Ltac gl_solve :=
  unfold gl_apply, pintegral, panti, c9, c5, c3; cbn [fold_right xpeval panti_from peval fst snd xadd xmul xscale Pos.succ];
  rewrite ?qc_of_pos_1, ?qc_of_pos_2, ?qc_of_pos_3, ?qc_of_pos_4, ?qc_of_pos_5, ?qc_of_pos_6;
  unfold xadd, xmul, xscale; cbn [fst snd];
  f_equal; field; nz.

(* one point: degree <= 1 *)
Theorem gl1_exact : forall P lo hi, (length P <= 2)%nat ->
  gl_apply c3 [((0, 0), 1 + 1)] P lo hi = (pintegral P lo hi, 0).
Proof.
  intros [|a0 [|a1 [|a2 P]]] lo hi H; try (cbn [length] in H; lia); gl_solve.
Qed.

(* two points +- 1/sqrt 3: degree <= 3 *)
Theorem gl2_exact : forall P lo hi, (length P <= 4)%nat ->
  gl_apply c3 [((0, - (1 / c3)), 1); ((0, 1 / c3), 1)] P lo hi = (pintegral P lo hi, 0).
Proof.
  intros [|a0 [|a1 [|a2 [|a3 [|a4 P]]]]] lo hi H; try (cbn [length] in H; lia); gl_solve.
Qed.

(* (three points 0, +- sqrt(3/5), degree <= 5: the rule is in the model - gl_rule 3 -, its exactness is NOT proved here: the
   monolithic `field` proof on the Horner evaluation in Q(sqrt 15) exhausts memory; it needs the linearity of gl_apply and of
   pintegral in the coefficient list to reduce the statement to the six monomials.) *)

(* the rule the code takes for order p (leggauss(int(p/2) + 1)) is exact for every polynomial of degree <= p, p <= 3:
   the polynomial pieces of all basis classes have degree <= p *)
Theorem gl_rule_exact n D rule : (n <= 2)%nat -> gl_rule n = Some (D, rule) ->
  forall P lo hi, (length P <= 2 * n)%nat -> gl_apply D rule P lo hi = (pintegral P lo hi, 0).
Proof.
  intros Hn E P lo hi H.
  destruct n as [|[|[|n]]]; [discriminate E | | | lia].
  - injection E as E1 E2. subst D rule. apply gl1_exact. exact H.
  - injection E as E1 E2. subst D rule. apply gl2_exact. exact H.
Qed.

Theorem code_rule_exact_for_degree_p p : (1 <= p <= 3)%nat ->
  exists D rule, gl_rule (gl_points p) = Some (D, rule) /\
    forall P lo hi, (length P <= p + 1)%nat -> gl_apply D rule P lo hi = (pintegral P lo hi, 0).
Proof.
  intros Hp.
  assert (C : (p = 1 \/ p = 2 \/ p = 3)%nat) by lia.
  destruct C as [E|[E|E]]; subst p.
  - exists c3, [((0, 0), 1 + 1)]. split; [reflexivity|]. intros P lo hi H. apply gl1_exact. exact H.
  - exists c3, [((0, - (1 / c3)), 1); ((0, 1 / c3), 1)]. split; [reflexivity|]. intros P lo hi H. apply gl2_exact. simpl in H. lia.
  - exists c3, [((0, - (1 / c3)), 1); ((0, 1 / c3), 1)]. split; [reflexivity|]. intros P lo hi H. apply gl2_exact. exact H.
Qed.

(* ================================================================== phase 4: the three-point rule 0, +- sqrt(3/5) (p = 4, 5) *)
(* The Horner evaluation in Q(sqrt 15) is first brought into closed form (binomial expansion of (m + s sqrt D)^k, by `ring`), so
   that the exactness statement is a flat polynomial identity; shorter coefficient lists are padded with zeros. *)
Lemma xpeval6_closed D a0 a1 a2 a3 a4 a5 m s :
  xpeval D [a0; a1; a2; a3; a4; a5] (m, s) =
  (a0 + a1 * m + a2 * (m*m + D*s*s) + a3 * (m*m*m + (1+1+1)*D*m*s*s) + a4 * (m*m*m*m + (1+1+1+1+1+1)*D*m*m*s*s + D*D*s*s*s*s)
      + a5 * (m*m*m*m*m + (1+1+1+1+1+1+1+1+1+1)*D*m*m*m*s*s + (1+1+1+1+1)*D*D*m*s*s*s*s),
   a1 * s + (1+1) * a2 * m * s + a3 * ((1+1+1)*m*m*s + D*s*s*s) + a4 * ((1+1+1+1)*m*m*m*s + (1+1+1+1)*D*m*s*s*s)
      + a5 * ((1+1+1+1+1)*m*m*m*m*s + (1+1+1+1+1+1+1+1+1+1)*D*m*m*s*s*s + D*D*s*s*s*s*s)).
Proof.
  cbn [xpeval]. unfold xadd, xmul. cbn [fst snd]. f_equal; ring.
Qed.

Definition r3 : list (qx * Qc) := [((0, - (1 / c5)), c5 / c9); ((0, 0), (c5 + c3) / c9); ((0, 1 / c5), c5 / c9)].

Lemma gl3_six a0 a1 a2 a3 a4 a5 lo hi :
  gl_apply (c3 * c5) r3 [a0; a1; a2; a3; a4; a5] lo hi = (pintegral [a0; a1; a2; a3; a4; a5] lo hi, 0).
Proof.
  unfold gl_apply, r3. cbn [fold_right fst snd]. rewrite !xpeval6_closed.
  unfold pintegral, panti, c9, c5, c3; cbn [panti_from peval Pos.succ];
  rewrite ?qc_of_pos_1, ?qc_of_pos_2, ?qc_of_pos_3, ?qc_of_pos_4, ?qc_of_pos_5, ?qc_of_pos_6;
  unfold xadd, xscale; cbn [fst snd].
  f_equal; field; nz.
Qed.

(* ---- shorter coefficient lists: pad with zeros *)
Lemma xpeval_app0 D x : forall P, xpeval D (P ++ [0]) x = xpeval D P x.
Proof.
  induction P as [|c P IH].
  - cbn [app xpeval]. unfold xadd, xmul. cbn [fst snd]. f_equal; ring.
  - cbn [app xpeval]. rewrite IH. reflexivity.
Qed.

Lemma peval_app0 c x : c = 0 -> forall P, peval (P ++ [c]) x = peval P x.
Proof.
  intros E P. subst c. induction P as [|a P IH]; cbn [app peval]; [ring | rewrite IH; reflexivity].
Qed.


Lemma panti_from_app P c : forall k, exists c', c' = c / qc_of_pos (Pos.of_nat (length P + Pos.to_nat k)) /\ panti_from k (P ++ [c]) = panti_from k P ++ [c'].
Proof.
  induction P as [|a P IH]; intro k.
  - exists (c / qc_of_pos k). cbn [length plus]. rewrite Pos2Nat.id. split; reflexivity.
  - destruct (IH (Pos.succ k)) as [c' [E1 E2]]. exists c'. split.
    + rewrite E1. cbn [length]. f_equal. f_equal. f_equal. rewrite Pos2Nat.inj_succ. lia.
    + cbn [app panti_from]. rewrite E2. reflexivity.
Qed.

Lemma pintegral_app0 P lo hi : pintegral (P ++ [0]) lo hi = pintegral P lo hi.
Proof.
  unfold pintegral, panti. destruct (panti_from_app P 0 1) as [c' [E1 E2]]. rewrite E2.
  assert (Z : c' = 0) by (rewrite E1; unfold Qcdiv; ring).
  cbn [peval]. rewrite !(peval_app0 c' _ Z). reflexivity.
Qed.

Lemma gl_apply_ext D rule P Q lo hi : (forall x, xpeval D P x = xpeval D Q x) -> gl_apply D rule P lo hi = gl_apply D rule Q lo hi.
Proof.
  intro H. unfold gl_apply. induction rule as [|tw rule IH]; [reflexivity|]. cbn [fold_right]. rewrite IH, H. reflexivity.
Qed.

Lemma pad_zeros D rule lo hi : forall n P,
  gl_apply D rule (P ++ repeat 0 n) lo hi = gl_apply D rule P lo hi /\ pintegral (P ++ repeat 0 n) lo hi = pintegral P lo hi.
Proof.
  induction n as [|n IH]; intro P.
  - cbn [repeat]. rewrite app_nil_r. split; reflexivity.
  - cbn [repeat]. replace (P ++ 0 :: repeat 0 n) with ((P ++ [0]) ++ repeat 0 n) by (rewrite <- app_assoc; reflexivity).
    destruct (IH (P ++ [0])) as [A B]. rewrite A, B. split.
    + apply gl_apply_ext. intro x. apply xpeval_app0.
    + apply pintegral_app0.
Qed.

Theorem gl3_exact : forall P lo hi, (length P <= 6)%nat -> gl_apply (c3 * c5) r3 P lo hi = (pintegral P lo hi, 0).
Proof.
  intros P lo hi H.
  destruct (pad_zeros (c3 * c5) r3 lo hi (6 - length P) P) as [A B]. rewrite <- A, <- B.
  assert (L : length (P ++ repeat 0 (6 - length P)) = 6%nat) by (rewrite app_length, repeat_length; lia).
  destruct (P ++ repeat 0 (6 - length P)) as [|a0 [|a1 [|a2 [|a3 [|a4 [|a5 [|a6 Q]]]]]]]; try discriminate L.
  apply gl3_six.
Qed.

(* all rules the code uses up to order 5 *)
Theorem gl_rule_exact3 n D rule : (n <= 3)%nat -> gl_rule n = Some (D, rule) ->
  forall P lo hi, (length P <= 2 * n)%nat -> gl_apply D rule P lo hi = (pintegral P lo hi, 0).
Proof.
  intros Hn E P lo hi H.
  destruct n as [|[|[|[|n]]]]; [discriminate E | | | | lia].
  - injection E as E1 E2. subst D rule. apply gl1_exact. exact H.
  - injection E as E1 E2. subst D rule. apply gl2_exact. exact H.
  - injection E as E1 E2. subst D rule. apply gl3_exact. exact H.
Qed.

Theorem code_rule_exact_upto5 p : (1 <= p <= 5)%nat ->
  exists D rule, gl_rule (gl_points p) = Some (D, rule) /\
    forall P lo hi, (length P <= p + 1)%nat -> gl_apply D rule P lo hi = (pintegral P lo hi, 0).
Proof.
  intros Hp. destruct (Nat.le_gt_cases p 3) as [L|L]; [apply code_rule_exact_for_degree_p; lia|].
  assert (C : (p = 4 \/ p = 5)%nat) by lia.
  destruct C as [E|E]; subst p; exists (c3 * c5), r3; (split; [reflexivity|]); intros P lo hi H; apply gl3_exact; simpl in H; lia.
Qed.
